import BigDec.Model.ToF64
open BigDec.F64
#eval powi ten 22    -- 10^22 exactly representable: 4921056587992461136
#eval powi ten 23    -- 4936209963552724370 (per rust)
#eval powi ten 308
#eval powi ten 309
#eval toF64 false 1 (-2)     -- 100.0 = 4636737291354636288
#eval toF64 true 15 1        -- -1.5
#eval rne 1 10               -- 0.1 = 4591870180066957722
#eval toF64 false 1 400      -- 0
#eval toF64 false 49 325     -- 4.9e-324 -> 1
