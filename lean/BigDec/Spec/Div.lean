import BigDec.Model.Types
import BigDec.Spec.Round
/-! Declarative specification of division to `P` significant digits (closed form, no digit loop).

For magnitudes `N, D > 0`: let `j` be the least shift with `N·10^j ≥ D` and `p₀` the digit count
of `⌊N·10^j / D⌋`.  The quotient is extended by `e` further digits, where `e` is the least
`e ≤ max(0, P − p₀)` at which the division becomes exact, or that maximum if it never does; the
result is `⌊N·10^(j+e)/D⌋`, plus one exactly when the remainder `R` satisfies `2R ≥ D`
(half-up on the magnitude = ties away from zero), at scale `scale + j + e`. -/
namespace BigDec.Spec
open BigDec

/-- least `j ≤ fuel` with `n·10^j ≥ d` -/
def leastShift (n d : Nat) : Nat → Nat → Nat
  | 0, j => j
  | fuel + 1, j => if n * 10 ^ j < d then leastShift n d fuel (j + 1) else j

/-- least `e ≤ emax` (searching upward from `e`) with `d ∣ n·10^e`, else `emax` -/
def leastExact (n d emax : Nat) : Nat → Nat → Nat
  | 0, e => e
  | fuel + 1, e => if e < emax ∧ (n * 10 ^ e) % d ≠ 0 then leastExact n d emax fuel (e + 1) else e

def divideNat (N D : Nat) (scale : Int) (P : Nat) : Nat × Int :=
  let j := leastShift N D (numDigits D + 1) 0
  let N' := N * 10 ^ j
  let emax := P - numDigits (N' / D)
  let e := leastExact N' D emax emax 0
  let T := N' * 10 ^ e
  (T / D + (if T % D ≠ 0 ∧ D ≤ 2 * (T % D) then 1 else 0), scale + j + e)

def divide (num den : Int) (scale : Int) (P : Nat) : Dec :=
  if num = 0 then ⟨0, 0⟩
  else
    let r := divideNat num.natAbs den.natAbs scale P
    ⟨(if (num < 0) = (den < 0) then 1 else -1) * (r.1 : Int), r.2⟩

/-- `a / b` for decimals, `none` = must panic.  The shortcut results (`a` itself for a unit
    divisor or zero numerator, `1` for equal unscaled integers) are exact values. -/
def divDec (P : Nat) (a b : Dec) : Option Dec :=
  if b.int = 0 then none
  else if a.int = 0 then some a
  else some (divide a.int b.int (a.scale - b.scale) P)

end BigDec.Spec

namespace BigDec.Spec
open BigDec

/-- strip the factors `p` from `n` (fuel-bounded): returns (rest, count) -/
def stripFactor (p : Nat) : Nat → Nat → Nat × Nat
  | 0, n => (n, 0)
  | fuel + 1, n => if n ≠ 0 ∧ n % p = 0 then
      let r := stripFactor p fuel (n / p); (r.1, r.2 + 1) else (n, 0)

/-- does `A/B` have a terminating decimal expansion with at most `P` significant digits? -/
def terminatesWithin (A B P : Nat) : Bool :=
  if A = 0 then true
  else
    let g := Nat.gcd A B
    let n := A / g
    let d := B / g
    let s2 := stripFactor 2 d d
    let s5 := stripFactor 5 s2.1 s2.1
    if s5.1 ≠ 1 then false
    else
      let k := max s2.2 s5.2
      let M0 := n * 10 ^ k / d
      let M := (stripFactor 10 M0 M0).1
      numDigits M ≤ P

/-- **the property, as a relation**: is `r` an acceptable result of `a / b` at precision `P`?
    exact whenever the true quotient has at most `P` significant digits; otherwise exact or at
    least `P` digits, within half a unit in the last place, ties away from zero, correctly signed. -/
def divOk (P : Nat) (a b r : Dec) : Bool :=
  if b.int = 0 then false
  else if a.int = 0 then r.int == 0
  else
    let e1 := r.scale
    let e2 := a.scale - b.scale
    let m := max e1 e2
    let L := r.int * b.int * (10 ^ (m - e1).toNat : Nat)    -- r · b   (scaled)
    let R := a.int * (10 ^ (m - e2).toNat : Nat)            -- a       (same scaling)
    let exact := L == R
    let signOk := (r.int < 0) == ((a.int < 0) != (b.int < 0)) && r.int != 0
    if terminatesWithin a.int.natAbs b.int.natAbs P then exact
    else exact ||
      (signOk && numDigits r.int.natAbs ≥ P &&
        (2 * (L - R).natAbs < b.int.natAbs * 10 ^ (m - e1).toNat ||
          (2 * (L - R).natAbs == b.int.natAbs * 10 ^ (m - e1).toNat && L.natAbs > R.natAbs)))

end BigDec.Spec
