import BigDec.Model.Types
import BigDec.Model.NumDigits
/-! Declarative specification of rounding.  A non-negative magnitude `n` is cut at `10^k`:
    kept part `q = n / 10^k`, discarded tail `r = n % 10^k`; each mode says when the magnitude is
    bumped by one unit.  `neg` tells whether the number is negative (Ceiling/Floor). -/
namespace BigDec.Spec
open BigDec

/-- should the magnitude `q` be incremented, given the discarded tail `r` of modulus `M`? -/
def roundUpM (m : Mode) (neg : Bool) (q r M : Nat) : Bool :=
  match m with
  | .Up => r != 0
  | .Down => false
  | .Ceiling => r != 0 && !neg
  | .Floor => r != 0 && neg
  | .HalfUp => 2 * r ≥ M
  | .HalfDown => 2 * r > M
  | .HalfEven => 2 * r > M || (2 * r == M && q % 2 == 1)

/-- the documented mode table on a digit pair `(l, r)` with tail flag `tz` (all digits after `r`
    are zero): should `l` be incremented? -/
def pairUp (m : Mode) (neg : Bool) (l r : Nat) (tz : Bool) : Bool :=
  match m with
  | .Up => !(r == 0 && tz)
  | .Down => false
  | .Ceiling => !(r == 0 && tz) && !neg
  | .Floor => !(r == 0 && tz) && neg
  | .HalfUp => decide (5 ≤ r)
  | .HalfDown => decide (5 < r) || (r == 5 && !tz)
  | .HalfEven => decide (5 < r) || (r == 5 && (!tz || l % 2 == 1))

/-- round the magnitude `n` to a multiple of `10^k` (result in units of `10^k`) -/
def roundNat (m : Mode) (neg : Bool) (n k : Nat) : Nat :=
  n / 10 ^ k + if roundUpM m neg (n / 10 ^ k) (n % 10 ^ k) (10 ^ k) then 1 else 0

def sgn (i : Int) : Int := if i < 0 then -1 else 1

/-- a decimal rounded to scale `ns` under mode `m` -/
def roundToScale (d : Dec) (ns : Int) (m : Mode) : Dec :=
  if ns ≥ d.scale then ⟨d.int * (10 ^ (ns - d.scale).toNat : Nat), ns⟩
  else ⟨sgn d.int * (roundNat m (decide (d.int < 0)) d.int.natAbs (d.scale - ns).toNat : Nat), ns⟩

/-- number of decimal digits (1 for zero), by definition via repeated division -/
def numDigits (n : Nat) : Nat := if n < 10 then 1 else numDigits (n / 10) + 1
decreasing_by omega

theorem numDigits_eq_model (n : Nat) : numDigits n = BigDec.numDigits n := by
  induction n using Nat.strongRecOn with
  | _ n ih =>
    unfold numDigits BigDec.numDigits
    split
    · rfl
    · rw [ih (n / 10) (by omega)]

@[csimp] theorem numDigits_eq_chunk : @numDigits = @BigDec.numDigitsChunk := by
  funext n; rw [numDigits_eq_model, BigDec.numDigitsChunk_eq]

/-- a decimal rounded to `p ≥ 1` significant digits under mode `m`: rounding at the scale that
    leaves `p` digits; if that carries into a new leading digit (99.9 → 100) the result keeps
    `p + 1` digits exactly as `with_scale_round` leaves it. -/
def roundToPrec (d : Dec) (p : Nat) (m : Mode) : Dec :=
  roundToScale d (d.scale + ((p : Int) - (numDigits d.int.natAbs : Int))) m

end BigDec.Spec
