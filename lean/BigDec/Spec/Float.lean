import BigDec.Model.Types
/-! IEEE-754 binary32 / binary64 bit semantics, as exact decimals (declarative: sign, biased
    exponent, fraction; subnormals; `none` for NaN and infinities). -/
namespace BigDec.Spec

/-- the exact value `±m · 2^e` as a decimal: `m·2^e` if `e ≥ 0`, else `m·5^(-e) · 10^e` -/
def binToDec (neg : Bool) (m : Nat) (e : Int) : Dec :=
  let s : Int := if neg then -1 else 1
  if e ≥ 0 then ⟨s * (m * 2 ^ e.toNat : Nat), 0⟩
  else ⟨s * (m * 5 ^ (-e).toNat : Nat), -e⟩

/-- generic decoder: `ebits` exponent bits, `fbits` fraction bits -/
def decodeFloat (ebits fbits : Nat) (bits : Nat) : Option Dec :=
  let frac := bits % 2 ^ fbits
  let expo := (bits / 2 ^ fbits) % 2 ^ ebits
  let neg := (bits / 2 ^ (fbits + ebits)) % 2 == 1
  let bias : Int := 2 ^ (ebits - 1) - 1
  if expo = 2 ^ ebits - 1 then none                                  -- inf / NaN
  else if expo = 0 then some (binToDec neg frac (1 - bias - fbits))  -- zero / subnormal
  else some (binToDec neg (2 ^ fbits + frac) ((expo : Int) - bias - fbits))

def ofF32Bits (bits : Nat) : Option Dec := decodeFloat 8 23 bits
def ofF64Bits (bits : Nat) : Option Dec := decodeFloat 11 52 bits

end BigDec.Spec
