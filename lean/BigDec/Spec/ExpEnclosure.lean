import BigDec.Model.Types
/-! Rational enclosure of `e^x` for a decimal `x`, in fixed-point interval arithmetic with outward
    rounding (`D` fractional decimal digits).

    `e^|x| = (e^y)^(2^j)` with `y = |x| / 2^j ≤ 1/2` (exact fraction), `e^y ∈ [Σ_{k≤N} y^k/k!,  Σ + 2·y^N/N!]`
    (for `0 ≤ y ≤ 1/2` the tail after the `N`-th term is at most twice that term), then `j` squarings of
    a positive interval, and the reciprocal interval for negative `x`.
    All loops are structural (fuel), so that `Proofs/ExpEnclosure` can prove the enclosure sound with
    respect to `Real.exp`. -/
namespace BigDec.Spec

/-- fixed-point numbers are integers meaning `v / 10^D` -/
structure Ival where
  lo : Nat
  hi : Nat
  deriving Repr

def ceilDiv (a b : Nat) : Nat := (a + b - 1) / b

/-- the series loop: `tlo ≤ 10^D·y^(k-1)/(k-1)! ≤ thi`, `slo ≤ 10^D·Σ_{i<k} y^i/i! ≤ shi`; stops after `fuel`
    more terms or as soon as the upper bound of the last term is at most one unit.
    Returns `(slo, shi, thi)`. -/
def expSeries (yn yd : Nat) : Nat → Nat → Nat → Nat → Nat → Nat → Nat × Nat × Nat
  | 0, _, _, thi, slo, shi => (slo, shi, thi)
  | fuel + 1, k, tlo, thi, slo, shi =>
    let tlo' := (tlo * yn) / (yd * k)
    let thi' := ceilDiv (thi * yn) (yd * k)
    if thi' ≤ 1 then (slo + tlo', shi + thi', thi')
    else expSeries yn yd fuel (k + 1) tlo' thi' (slo + tlo') (shi + thi')

/-- enclosure of `e^y` for the exact fraction `y = yn / yd` with `0 ≤ y ≤ 1/2`, at `D` digits -/
def expSmall (yn yd : Nat) (D : Nat) : Ival :=
  let one := 10 ^ D
  -- 400 terms are far more than enough for y ≤ 1/2
  let (slo, shi, thi) := expSeries yn yd 400 1 one one one one
  -- remainder: at most twice the last term, plus two units of slack
  ⟨slo, shi + 2 * thi + 2⟩

def sqIval (v : Ival) (D : Nat) : Ival := ⟨(v.lo * v.lo) / 10 ^ D, ceilDiv (v.hi * v.hi) (10 ^ D)⟩

/-- `j` with `num / (den · 2^j) ≤ 1/2`: doubles the denominator while `2·num > d`; returns `(d, j)` -/
def halvings (num : Nat) : Nat → Nat → Nat → Nat × Nat
  | 0, d, j => (d, j)
  | fuel + 1, d, j => if 2 * num > d then halvings num fuel (d * 2) (j + 1) else (d, j)

def sqTimes (D : Nat) : Nat → Ival → Ival
  | 0, v => v
  | j + 1, v => sqTimes D j (sqIval v D)

/-- enclosure of `e^x` for `x = xi · 10^-xs`, at `D` fractional digits: (lo, hi) fixed point -/
def expEnclosure (xi : Int) (xs : Int) (D : Nat) : Ival :=
  let n := xi.natAbs
  -- |x| as a fraction num/den
  let (num, den) : Nat × Nat := if xs ≥ 0 then (n, 10 ^ xs.toNat) else (n * 10 ^ (-xs).toNat, 1)
  let (d, j) := halvings num (num.log2 + 2) den 0
  let v := sqTimes D j (expSmall num d D)
  if xi < 0 then
    -- 1 / [lo, hi] = [1/hi, 1/lo]
    let one2 := 10 ^ (2 * D)
    ⟨one2 / v.hi, ceilDiv one2 v.lo⟩
  else v

end BigDec.Spec
