import BigDec.Model.Types
/-! Rational enclosure of `e^x` for a decimal `x`, in fixed-point interval arithmetic with outward
    rounding (`D` fractional decimal digits).

    `e^|x| = (e^y)^(2^j)` with `y = |x| / 2^j ≤ 1/2` (exact decimal), `e^y ∈ [Σ_{k≤N} y^k/k!,  Σ + 2·y^(N+1)/(N+1)!]`
    (for `0 ≤ y ≤ 1/2` the tail is at most twice its first term), then `j` squarings of a positive
    interval, and the reciprocal interval for negative `x`. -/
namespace BigDec.Spec

/-- fixed-point numbers are integers meaning `v / 10^D` -/
structure Ival where
  lo : Nat
  hi : Nat
  deriving Repr

def ceilDiv (a b : Nat) : Nat := (a + b - 1) / b

/-- enclosure of `e^y` for the exact fraction `y = yn / yd` with `0 ≤ y ≤ 1/2`, at `D` digits -/
def expSmall (yn yd : Nat) (D : Nat) : Ival := Id.run do
  let one := 10 ^ D
  let mut tlo := one     -- term y^k / k!  lower / upper bound, fixed point
  let mut thi := one
  let mut slo := one
  let mut shi := one
  let mut k := 1
  -- stop once the upper bound of the term is zero-ish; 400 terms are far more than enough for y ≤ 1/2
  for _ in [0:400] do
    tlo := (tlo * yn) / (yd * k)
    thi := ceilDiv (thi * yn) (yd * k)
    slo := slo + tlo
    shi := shi + thi
    k := k + 1
    if thi ≤ 1 then break
  -- remainder: at most twice the next term (≤ 2·thi since terms decrease), plus one unit of slack
  return ⟨slo, shi + 2 * thi + 2⟩

def sqIval (v : Ival) (D : Nat) : Ival := ⟨(v.lo * v.lo) / 10 ^ D, ceilDiv (v.hi * v.hi) (10 ^ D)⟩

/-- enclosure of `e^x` for `x = xi · 10^-xs`, at `D` fractional digits: (lo, hi) fixed point -/
def expEnclosure (xi : Int) (xs : Int) (D : Nat) : Ival := Id.run do
  let n := xi.natAbs
  -- |x| as a fraction num/den
  let (num, den) : Nat × Nat := if xs ≥ 0 then (n, 10 ^ xs.toNat) else (n * 10 ^ (-xs).toNat, 1)
  -- j with |x| / 2^j ≤ 1/2
  let mut j := 0
  let mut d := den
  while 2 * num > d do
    d := d * 2
    j := j + 1
  let mut v := expSmall num d D
  for _ in [0:j] do
    v := sqIval v D
  if xi < 0 then
    -- 1 / [lo, hi] = [1/hi, 1/lo]
    let one2 := 10 ^ (2 * D)
    return ⟨one2 / v.hi, ceilDiv one2 v.lo⟩
  else return v

end BigDec.Spec
