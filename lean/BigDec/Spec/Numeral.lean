import BigDec.Model.Types
/-! Grammar-shaped specification of decimal numerals (does not look like the code):

    numeral  ::= sign? body exponent?
    body     ::= int ('.' frac?)?  |  '.' frac         (over the alphabet digit | '_')
                 where the first character of int·frac is a digit (so there is at least one digit)
    exponent ::= ('e'|'E') sign? digit+

  denoting `± digits(int·frac) · 10^(exponent − #digits(frac))`; the exponent must fit `i128`
  and the resulting scale `i64`. -/
namespace BigDec.Spec.Numeral

def isDigit (b : Nat) : Bool := 48 ≤ b && b ≤ 57
def isBodyChar (b : Nat) : Bool := isDigit b || b == 95

/-- digits of a body segment (underscores dropped); `none` if a foreign character occurs -/
def segDigits : List Nat → Option (List Nat)
  | [] => some []
  | b :: bs => if b == 95 then segDigits bs
               else if isDigit b then (segDigits bs).map (fun ds => (b - 48) :: ds) else none

def digitsToNat (ds : List Nat) : Nat := ds.foldl (fun acc d => acc * 10 + d) 0

def takeSign : List Nat → Bool × List Nat
  | 45 :: rest => (true, rest)
  | 43 :: rest => (false, rest)
  | s => (false, s)

/-- exponent field: sign? digit+ -/
def exponentValue (s : List Nat) : Option Int :=
  let (neg, body) := takeSign s
  if body.isEmpty then none
  else match segDigits body with
    | some ds => if body.all isDigit then some (if neg then -(digitsToNat ds : Int) else digitsToNat ds) else none
    | none => none

/-- split at the first occurrence of any of the given bytes -/
def cut (seps : List Nat) : List Nat → List Nat × Option (List Nat)
  | [] => ([], none)
  | b :: bs => if seps.contains b then ([], some bs) else
      let r := cut seps bs; (b :: r.1, r.2)

def specParse (s : List Nat) : Option Dec :=
  let (mant, expPart) := cut [101, 69] s
  let expo : Option Int := match expPart with
    | none => some 0
    | some e => exponentValue e
  match expo with
  | none => none
  | some e =>
    if e < -(2 ^ 127 : Int) ∨ e ≥ (2 ^ 127 : Int) then none else
    let (neg, body) := takeSign mant
    let (ip, fpOpt) := cut [46] body
    let fp := fpOpt.getD []
    -- first character of the digit part must be a digit
    match ip ++ fp with
    | [] => none
    | c :: _ =>
      if !isDigit c then none else
      match segDigits ip, segDigits fp with
      | some di, some df =>
        let scale : Int := (df.length : Int) - e
        if scale < -(2 ^ 63 : Int) ∨ scale ≥ (2 ^ 63 : Int) then none
        else some ⟨(if neg then -1 else 1) * (digitsToNat (di ++ df) : Int), scale⟩
      | _, _ => none

end BigDec.Spec.Numeral
