import BigDec.Model.Types
import BigDec.Spec.Exact
import BigDec.Spec.Round
/-! Certificate for "R is the real number y > 0 (given only through comparisons) rounded to `p`
    significant digits under mode `m`".  `cmp q` must return the ordering of the true magnitude
    `y` relative to the positive decimal `q`.  Nothing here computes a root or a quotient: the
    certificate only compares `y` with the rounding boundaries around the claimed result. -/
namespace BigDec.Spec

def isPow10 (n : Nat) : Bool := n != 0 && n == 10 ^ (numDigits n - 1)

/-- the mode acting on the magnitude: Floor/Ceiling turn into Down/Up depending on the sign -/
def magMode (m : Mode) (neg : Bool) : Mode :=
  match m, neg with
  | .Floor, false => .Down | .Floor, true => .Up
  | .Ceiling, false => .Up | .Ceiling, true => .Down
  | m, _ => m

/-- `R` (magnitude `Ri·10^-s`, `Ri > 0`) is `y` rounded to `p` significant digits -/
def roundCertOK (m : Mode) (p : Nat) (neg : Bool) (Ri : Nat) (s : Int) (cmp : Dec → Ordering) : Bool :=
  let nd := numDigits Ri
  let carry := nd == p + 1 && isPow10 Ri     -- 99.9… rounded up to 100.0… keeps p+1 digits
  if Ri == 0 || !(nd == p || carry) then false
  else
    -- spacing of the p-digit grid above and below R, as powers of ten: 10^-sHi, 10^-sLo
    let sHi : Int := if carry then s - 1 else s
    let sLo : Int := if isPow10 Ri then (if carry then s else s + 1) else s
    -- boundaries as decimals at scale S = max(sHi, sLo) + 1 (so halves are integers)
    let S : Int := max sHi sLo + 1
    let M : Int := (Ri : Int) * (10 ^ (S - s).toNat : Nat)
    let uHi : Int := (10 ^ (S - sHi).toNat : Nat)
    let uLo : Int := (10 ^ (S - sLo).toNat : Nat)
    let at_ (i : Int) : Ordering := cmp ⟨i, S⟩            -- ordering of y relative to i·10^-S
    -- last kept digit even?  (carry: the p-digit form 1000… ends in 0)
    let even := carry || Ri % 2 == 0
    match magMode m neg with
    | .Down => at_ M != .lt && at_ (M + uHi) == .lt
    | .Up => at_ (M - uLo) == .gt && at_ M != .gt
    | .HalfUp => at_ (M - uLo / 2) != .lt && at_ (M + uHi / 2) == .lt
    | .HalfDown => at_ (M - uLo / 2) == .gt && at_ (M + uHi / 2) != .gt
    | .HalfEven =>
      let lo := at_ (M - uLo / 2); let hi := at_ (M + uHi / 2)
      (lo == .gt || (lo == .eq && even)) && (hi == .lt || (hi == .eq && even))
    | _ => false

/-- ordering of `√x` relative to `q > 0` -/
def cmpSqrt (x : Dec) (q : Dec) : Ordering := valueCmp x (mul q q)
/-- ordering of `∛x` (x > 0) relative to `q > 0` -/
def cmpCbrt (x : Dec) (q : Dec) : Ordering := valueCmp x (mul (mul q q) q)
/-- ordering of `1/x` (x > 0) relative to `q > 0` : `1/x ? q  ⇔  1 ? x·q` -/
def cmpInv (x : Dec) (q : Dec) : Ordering := valueCmp ⟨1, 0⟩ (mul x q)

end BigDec.Spec
