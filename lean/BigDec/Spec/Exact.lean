import BigDec.Model.Types
/-! Declarative, executable specification of exact decimal arithmetic.  It does not look like the
    code: a decimal denotes `int · 10^(-scale)`; two decimals are compared / added by aligning to
    the larger scale with plain `10 ^ k`.  `Proofs/Value.lean` links each function to `Dec.value : ℚ`. -/
namespace BigDec.Spec
open BigDec

/-- the unscaled integer of `d` re-expressed at scale `S ≥ d.scale` -/
def alignTo (d : Dec) (S : Int) : Int := d.int * (10 ^ (S - d.scale).toNat : Nat)

/-- numeric equality of the denoted values -/
def valueEq (x y : Dec) : Bool :=
  let S := max x.scale y.scale
  alignTo x S == alignTo y S

/-- numeric comparison of the denoted values -/
def valueCmp (x y : Dec) : Ordering :=
  let S := max x.scale y.scale
  compare (alignTo x S) (alignTo y S)

def add (a b : Dec) : Dec := let S := max a.scale b.scale; ⟨alignTo a S + alignTo b S, S⟩
def sub (a b : Dec) : Dec := let S := max a.scale b.scale; ⟨alignTo a S - alignTo b S, S⟩
def mul (a b : Dec) : Dec := ⟨a.int * b.int, a.scale + b.scale⟩
def neg (a : Dec) : Dec := ⟨-a.int, a.scale⟩
def abs (a : Dec) : Dec := ⟨a.int.natAbs, a.scale⟩
def sum (xs : List Dec) : Dec := xs.foldl add ⟨0, 0⟩
/-- exact half: `a/2 = 5a · 10^-(scale+1)` -/
def half (a : Dec) : Dec := ⟨a.int * 5, a.scale + 1⟩

end BigDec.Spec

namespace BigDec.Spec
open BigDec

/-- truncated-division remainder on the aligned integers: `a - b·trunc(a/b)`; `none` for `b = 0` -/
def rem (a b : Dec) : Option Dec :=
  let S := max a.scale b.scale
  if b.int = 0 then none else some ⟨(alignTo a S).tmod (alignTo b S), S⟩

end BigDec.Spec

namespace BigDec.Spec
open BigDec

/-- the value truncated toward zero, as an integer -/
def truncInt (d : Dec) : Int :=
  if d.scale ≤ 0 then d.int * (10 ^ (-d.scale).toNat : Nat)
  else (if d.int < 0 then -1 else 1) * ((d.int.natAbs / 10 ^ d.scale.toNat : Nat) : Int)

def toSigned (bits : Nat) (d : Dec) : Option Int :=
  let t := truncInt d
  if -(2 ^ (bits - 1) : Int) ≤ t ∧ t < (2 ^ (bits - 1) : Int) then some t else none

/-- a negative decimal never converts to an unsigned type -/
def toUnsigned (bits : Nat) (d : Dec) : Option Int :=
  if d.int < 0 then none
  else let t := truncInt d; if t < (2 ^ bits : Int) then some t else none

def isInteger (d : Dec) : Bool :=
  if d.scale ≤ 0 then true else d.int.natAbs % 10 ^ d.scale.toNat == 0

end BigDec.Spec
