import BigDec.Model.Types
/-! Declarative, executable specification of exact decimal arithmetic.  It does not look like the
    code: a decimal denotes `int · 10^(-scale)`; two decimals are compared / added by aligning to
    the larger scale with plain `10 ^ k`.  `Proofs/Value.lean` links each function to `Dec.value : ℚ`. -/
namespace BigDec.Spec
open BigDec

/-- the unscaled integer of `d` re-expressed at scale `S ≥ d.scale` -/
def alignTo (d : Dec) (S : Int) : Int := d.int * (10 ^ (S - d.scale).toNat : Nat)

/-- numeric equality of the denoted values -/
def valueEq (x y : Dec) : Bool :=
  let S := max x.scale y.scale
  alignTo x S == alignTo y S

/-- numeric comparison of the denoted values -/
def valueCmp (x y : Dec) : Ordering :=
  let S := max x.scale y.scale
  compare (alignTo x S) (alignTo y S)

def add (a b : Dec) : Dec := let S := max a.scale b.scale; ⟨alignTo a S + alignTo b S, S⟩
def sub (a b : Dec) : Dec := let S := max a.scale b.scale; ⟨alignTo a S - alignTo b S, S⟩
def mul (a b : Dec) : Dec := ⟨a.int * b.int, a.scale + b.scale⟩
def neg (a : Dec) : Dec := ⟨-a.int, a.scale⟩
def abs (a : Dec) : Dec := ⟨a.int.natAbs, a.scale⟩
def sum (xs : List Dec) : Dec := xs.foldl add ⟨0, 0⟩
/-- exact half: `a/2 = 5a · 10^-(scale+1)` -/
def half (a : Dec) : Dec := ⟨a.int * 5, a.scale + 1⟩

end BigDec.Spec
