import BigDec.Driver.C04
import BigDec.Driver.C06
import BigDec.Driver.C08
import BigDec.Driver.C10
import BigDec.Driver.C11
import BigDec.Driver.C13
import BigDec.Driver.C16
namespace BigDec.Driver.C20
open BigDec BigDec.Proto

/-- C20 cases are cases of the other properties evaluated under the configuration the harness
    binary was really built with (it is part of every line), plus default-vs-explicit twins -/
def handle (op : String) (args : List String) (impl : String) : Verdict :=
  let sub (v : Verdict) : Verdict := { v with tag := "C20:" ++ v.tag }
  match op, args with
  | "C04", o :: rest => sub (C04.handle o rest impl)
  | "C06", o :: rest => sub (C06.handle o rest impl)
  | "C08", o :: rest => sub (C08.handle o rest impl)
  | "C10", o :: rest => sub (C10.handle o rest impl)
  | "C11", o :: rest => sub (C11.handle o rest impl)
  | "C13", o :: rest => sub (C13.handle o rest impl)
  | "C16", o :: rest => sub (C16.handle o rest impl)
  | "ctx", ["default", cfgs] =>
    -- Context::default() must carry the generated constants (the harness reads them through the hooks)
    let want := String.intercalate "," ((cfgs.splitOn ",").take 2)
    { model := want, mi := impl == want, si := impl == want, tag := "C20:ctx:default",
      note := if impl == want then "" else "Context::default() is " ++ impl ++ " but the build was configured with " ++ want }
  | "ctx", [kind, _a] =>
    match impl.splitOn "|" with
    | [d, e] => { model := e, mi := d == e, si := d == e, tag := "C20:ctx:" ++ kind,
                  note := if d == e then "" else "default-context form differs from explicit Context::default()" }
    | _ => badInput "ctx impl"
  | _, _ => badInput ("C20 op " ++ op)

end BigDec.Driver.C20
