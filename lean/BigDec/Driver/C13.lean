import BigDec.Model.ToF64
import BigDec.Model.Exp
import BigDec.Spec.ExpEnclosure
import BigDec.Spec.Round
import BigDec.Driver.Proto
import BigDec.Driver.C08
namespace BigDec.Driver.C13
open BigDec BigDec.Proto

/-- verdict of the enclosure on a claimed result `r` of `exp(x)` at `P` digits:
    (ok, conclusive, reason) -/
def expOK (x r : Dec) (P : Nat) : Bool × Bool × String :=
  if x.int == 0 then (decide (r = ⟨1, 0⟩) || Spec.valueEq r ⟨1, 0⟩, true, "exp(0) must be exactly 1")
  else if r.int ≤ 0 then (false, true, "not strictly positive")
  else
    let nd0 := Spec.numDigits r.int.natAbs
    -- a result that rounded up to a power of ten keeps P+1 digits "1000…0": read it as P digits
    let carry := nd0 == P + 1 && r.int.natAbs == 10 ^ P
    let r : Dec := if carry then ⟨r.int / 10, r.scale - 1⟩ else r
    let nd := if carry then P else nd0
    if nd != P then (false, true, s!"{nd} significant digits instead of {P}")
    else
      -- |x| in decimal digits of magnitude, to size the fixed point for negative arguments
      let mag : Nat := if x.scale ≤ 0 then x.int.natAbs * 10 ^ (-x.scale).toNat else x.int.natAbs / 10 ^ x.scale.toNat + 1
      let negExtra : Nat := if x.int < 0 then mag * 4343 / 10000 + 3 else 0
      let D : Nat := max (P + 45 + negExtra) ((r.scale + 25).toNat)
      let v := Spec.expEnclosure x.int x.scale D
      let sh : Nat := (D - r.scale).toNat
      let lo : Nat := (r.int.natAbs - 1) * 10 ^ sh
      let hi : Nat := (r.int.natAbs + 1) * 10 ^ sh
      if lo ≤ v.lo && v.hi ≤ hi then (true, true, "")
      else if v.hi < lo || hi < v.lo then (false, true, "more than one unit in the last place away from e^x")
      else (true, false, "enclosure straddles the one-ulp boundary")

/-- the premise of `C13_accuracy_code`: the loop stopped at an index `N` with `101·|x| ≤ 100·(N+1)` -/
def stopPremise (x : Dec) (N : Nat) : Bool :=
  if x.scale ≥ 0 then decide (101 * x.int.natAbs ≤ 100 * (N + 1) * 10 ^ x.scale.toNat)
  else decide (101 * x.int.natAbs * 10 ^ (-x.scale).toNat ≤ 100 * (N + 1))

def handle (op : String) (args : List String) (impl : String) : Verdict :=
  match op, args with
  | "exp", [x, prec] =>
    match parseDec? x, parseNat? prec, parseDec? impl with
    | some x, some P, some r =>
      let cfg := C08.cfgOf P
      -- one run of the series: `Dec.exp_eq_expN`, `C13_stop_index_expN`
      let run := x.expN cfg F64.estCode
      let model := run.map Prod.snd
      let (ok, concl, why) := expOK x r P
      let mok := match model with
        | some m => (expOK x m P).1
        | none => false
      -- the decidable premise of the accuracy theorem, evaluated on this run of the model
      let prem := if x.int == 0 then "" else
        match run.map Prod.fst with
        | some N => if stopPremise x N then "+stop-premise-holds" else "+stop-premise-fails"
        | none => "+stop-index-none"
      { model := showOptDec model, mi := model == some r, si := ok, sm := mok, note := why,
        tag := "exp" ++ (if x.int < 0 then ":neg" else ":pos") ++ (if concl then "" else ":inconclusive") ++ prem,
        trivial := x.int == 0 }
    | _, _, _ => badInput "exp args"
  | "mono", [x, y, prec] =>
    -- x < y : exp(x) must not exceed exp(y) by more than two units in the last place
    match parseDec? x, parseDec? y, parseNat? prec, impl.splitOn "|" with
    | some _, some _, some _, [a, b] =>
      match parseDec? a, parseDec? b with
      | some ea, some eb =>
        -- ea - eb ≤ 2 ulp(ea)
        let diff := Spec.sub ea eb
        let two : Dec := ⟨2, ea.scale⟩
        let ok := Spec.valueCmp diff two != .gt
        { model := "", mi := ok, si := ok, tag := "mono", note := if ok then "" else "order reversed by more than two ulp" }
      | _, _ => badInput "mono impl"
    | _, _, _, _ => badInput "mono args"
  | _, _ => badInput ("C13 op " ++ op)

end BigDec.Driver.C13
