import BigDec.Model.Serde
import BigDec.Spec.Numeral
import BigDec.Spec.Float
import BigDec.Spec.Exact
import BigDec.Driver.Proto
import BigDec.Driver.C04
import BigDec.Driver.C05
namespace BigDec.Driver.C17
open BigDec BigDec.Proto

def cfgD : Config := Generated.buildConfig
def npl : Nat := Generated.noPadLimit cfgD

def hexToString (h : String) : Option String :=
  (C05.decodeHex h.toList).map (fun bs => String.ofList (bs.map Char.ofNat))

/-- equality of decimals as the user sees it (value), safe for huge scales -/
def sameValue (x y : Dec) : Bool := C04.safeValueEq x y

/-- beyond the configured limit? (`0` switches the limit off) -/
def overLimit (cfg : Config) (r : Dec) : Bool := cfg.serdeScaleLimit > 0 && r.scale.natAbs > cfg.serdeScaleLimit

def jsonnumSer (cfg : Config) (a impl : String) : Verdict :=
    -- impl: <number text or err>|<read back through json_num::deserialize>
    match parseDec? a, impl.splitOn "|" with
    | some a, [text, back] =>
      let mt := Serde.jsonNumText cfg npl a
      let valid := Serde.isJsonNumber mt
      let mtext := if valid then C04.str mt else "err"
      let mback := if valid then C05.render (Serde.jsonNumDeserialize cfg (C04.bytesOf (C04.str mt))) else "err"
      -- the property: serialising then deserialising yields an equal decimal (within the scale limit)
      let rt : Bool := match Spec.Numeral.specParse (C04.bytesOf text) with
        | some r => if overLimit cfg r then back == "err" else (sameValue r a && back == C05.render (some r))
        | none => false
      { model := mtext ++ "|" ++ mback, mi := mtext == text && mback == back, si := rt,
        tag := "jsonnum_ser" ++ (if a.int == 0 && a.scale < 0 then ":zero-negscale" else "")
          ++ (if cfg.serdeScaleLimit == cfgD.serdeScaleLimit then "" else ":limit-" ++ toString cfg.serdeScaleLimit), trivial := false }
    | _, _ => badInput "jsonnum_ser"

def jsonnumDe (cfg : Config) (h impl : String) : Verdict :=
    match hexToString h with
    | some s =>
      let valid := Serde.isJsonNumber s.toList
      let m := if valid then C05.render (Serde.jsonNumDeserialize cfg (C04.bytesOf s)) else "err"
      let sp := if valid then
          (match Spec.Numeral.specParse (C04.bytesOf s) with
            | some r => if overLimit cfg r then "err" else C05.render (some r)
            | none => "err") else "err"
      { model := m, mi := m == impl, si := sp == impl, sm := m == sp,
        tag := "jsonnum_de" ++ (if cfg.serdeScaleLimit == cfgD.serdeScaleLimit then "" else ":limit-" ++ toString cfg.serdeScaleLimit) }
    | none => badInput "jsonnum_de hex"

def handle (op : String) (args : List String) (impl : String) : Verdict :=
  match op, args with
  | "ser_str", [a] =>
    -- impl: <json string content>|<deserialized back>
    match parseDec? a, impl.splitOn "|" with
    | some a, [text, back] =>
      let m := C04.str (Fmt.display cfgD npl {} a)
      let specBack := Spec.Numeral.specParse (C04.bytesOf text)
      let ok := match specBack with
        | some r => sameValue r a && back == C05.render (some r)
        | none => false
      { model := m, mi := m == text, si := ok, tag := "ser_str", trivial := a.int == 0 }
    | _, _ => badInput "ser_str"
  | "de_str", [h] =>
    match hexToString h with
    | some s =>
      let m := C05.render (Parse.parseDec (C04.bytesOf s))
      let sp := C05.render (Spec.Numeral.specParse (C04.bytesOf s))
      { model := m, mi := m == impl, si := sp == impl, sm := m == sp, tag := "de_str" }
    | none => badInput "de_str hex"
  | "de_num", [h] =>
    match hexToString h with
    | some s =>
      let valid := Serde.isJsonNumber s.toList
      let m := if valid then C05.render (Parse.parseDec (C04.bytesOf s)) else "err"
      let sp := if valid then C05.render (Spec.Numeral.specParse (C04.bytesOf s)) else "err"
      { model := m, mi := m == impl, si := sp == impl, sm := m == sp, tag := "de_num:" ++ (if valid then "json" else "notjson") }
    | none => badInput "de_num hex"
  | "jsonnum_ser", [a] => jsonnumSer cfgD a impl
  | "jsonnum_ser", [a, lim] =>
    -- a build configured with another scale limit (0 = no limit); the limit travels with the line
    (match parseNat? lim with
     | some l => jsonnumSer { cfgD with serdeScaleLimit := l } a impl
     | none => badInput "jsonnum_ser limit")
  | "jsonnum_de", [h] => jsonnumDe cfgD h impl
  | "jsonnum_de", [h, lim] =>
    (match parseNat? lim with
     | some l => jsonnumDe { cfgD with serdeScaleLimit := l } h impl
     | none => badInput "jsonnum_de limit")
  | "jsonopt_ser", [a] =>
    if a == "null" then { model := "null|none", mi := impl == "null|none", si := impl == "null|none", tag := "jsonopt_ser:null" }
    else match parseDec? a, impl.splitOn "|" with
    | some a, [text, back] =>
      let mt := Serde.jsonNumText cfgD npl a
      let valid := Serde.isJsonNumber mt
      let mtext := if valid then C04.str mt else "err"
      let rt : Bool := match Spec.Numeral.specParse (C04.bytesOf text) with
        | some r => sameValue r a && back == C05.render (some r)
        | none => false
      { model := mtext, mi := mtext == text, si := rt, tag := "jsonopt_ser" }
    | _, _ => badInput "jsonopt_ser"
  | "jsonopt_de", [h] =>
    if h == "null" then { model := "none", mi := impl == "none", si := impl == "none", tag := "jsonopt_de:null" }
    else match hexToString h with
    | some s =>
      let valid := Serde.isJsonNumber s.toList
      let m := if valid then C05.render (Parse.parseDec (C04.bytesOf s)) else "err"
      { model := m, mi := m == impl, si := m == impl, tag := "jsonopt_de" }
    | none => badInput "jsonopt_de hex"
  | "token", [kind, v] =>
    -- integer / float tokens from other formats
    let expect : Option (Option Dec) :=
      -- a char is handed to visit_str: a single decimal digit is a number, anything else an error;
      -- bool / unit / seq / map (not the arbitrary-precision number map) are type errors
      if kind == "char" then some (match v.toList with | [c] => (if c.isDigit then some ⟨(c.toNat - 48 : Nat), 0⟩ else none) | _ => none)
      else if kind == "bool" || kind == "unit" || kind == "seq" then some none
      else if kind == "map" then some none
      else if kind == "f32" then (parseNat? v).map Spec.ofF32Bits
      else if kind == "f64" then (parseNat? v).map Spec.ofF64Bits
      else (parseInt? v).map (fun i => some ⟨i, 0⟩)
    match expect with
    | some (some d) =>
      (match parseDec? ((impl.drop 3).toString) with
       | some r =>
         let ok := impl.startsWith "ok:" && sameValue r d && (kind == "f32" || kind == "f64" || decide (r = d))
         { model := "ok:" ++ showDec d, mi := ok, si := ok, tag := "token:" ++ kind }
       | none => { model := "ok:" ++ showDec d, mi := false, si := false, tag := "token:" ++ kind, note := "impl=" ++ impl })
    | some none => { model := "err", mi := impl == "err", si := impl == "err", tag := "token:" ++ kind ++ ":nonfinite" }
    | none => badInput "token args"
  | _, _ => badInput ("C17 op " ++ op)

end BigDec.Driver.C17
