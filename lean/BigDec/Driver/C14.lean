import BigDec.Model.Float
import BigDec.Model.ToF64
import BigDec.Spec.Float
import BigDec.Spec.Exact
import BigDec.Driver.Proto
import BigDec.Driver.C04
import BigDec.Driver.C05
namespace BigDec.Driver.C14
open BigDec BigDec.Proto

/-- tiny exact rationals for the tolerance checks: (numerator, positive denominator) -/
structure Q where
  n : Int
  d : Nat

def Q.ofDec (x : Dec) : Q := if x.scale ≥ 0 then ⟨x.int, 10 ^ x.scale.toNat⟩ else ⟨x.int * (10 ^ (-x.scale).toNat : Nat), 1⟩
def Q.sub (a b : Q) : Q := ⟨a.n * b.d - b.n * a.d, a.d * b.d⟩
def Q.abs (a : Q) : Q := ⟨a.n.natAbs, a.d⟩
def Q.le (a b : Q) : Bool := a.n * b.d ≤ b.n * a.d
def Q.lt (a b : Q) : Bool := a.n * b.d < b.n * a.d
def Q.mulPow2 (a : Q) (e : Int) : Q := if e ≥ 0 then ⟨a.n * (2 ^ e.toNat : Nat), a.d⟩ else ⟨a.n, a.d * 2 ^ (-e).toNat⟩

def f64Max : Q := ⟨((2 ^ 53 - 1) * 2 ^ 971 : Nat), 1⟩
def f64MinPos : Q := Q.mulPow2 ⟨1, 1⟩ (-1022)

/-- the property for `to_f64` on decimal `x` with returned bit pattern `bits` -/
def toF64OK (x : Dec) (bits : Nat) : Bool × String :=
  let negBit := bits / 2 ^ 63 == 1
  let expo := (bits / 2 ^ 52) % 2 ^ 11
  let frac := bits % 2 ^ 52
  -- |x| < 10^top and |x| ≥ 10^(top-1): classifies magnitudes far outside the f64 range without
  -- ever forming 10^|scale| for an extreme scale
  let top : Int := (Spec.numDigits x.int.natAbs : Int) - x.scale
  if x.int == 0 then (bits == 0, "zero must give +0.0")
  else if expo == 2047 && frac != 0 then (false, "NaN")
  else if negBit != decide (x.int < 0) && !(expo == 0 && frac == 0) then (false, "wrong sign")
  else if top ≤ -400 then
    -- far below the smallest subnormal (4.9e-324): zero or one subnormal step
    (expo == 0 && frac ≤ 1, "a magnitude below 1e-400 must underflow to zero (or one subnormal step)")
  else if top ≥ 401 then
    -- far above the largest finite f64 (1.8e308): infinity (or the largest finite float)
    (expo == 2047 || (expo == 2046 && frac == 2 ^ 52 - 1), "a magnitude above 1e400 must give infinity")
  else
  let xq := Q.ofDec x
  let ax := xq.abs
  if expo == 2047 then
    -- infinity only beyond, or within 2^-48 of, the largest finite f64
    (Q.le (Q.sub f64Max (Q.mulPow2 f64Max (-48))) ax, "infinite result for a value well inside the finite range")
  else
    match Spec.ofF64Bits bits with
    | none => (false, "non-finite")
    | some v =>
      let err := (Q.sub (Q.ofDec v) xq).abs
      if Q.le f64MinPos ax then
        (Q.le err (Q.mulPow2 ax (-48)), "relative error above 2^-48")
      else (Q.le err (Q.mulPow2 ⟨1, 1⟩ (-1074)), "more than one subnormal step away")

def handle (op : String) (args : List String) (impl : String) : Verdict :=
  match op, args with
  | "fromf32", [b] | "fromf64", [b] =>
    match parseNat? b, impl.splitOn "|" with
    | some bits, [res, back] =>
      let is32 := op == "fromf32"
      let m := if is32 then ofF32 bits else ofF64 bits
      let s := if is32 then Spec.ofF32Bits bits else Spec.ofF64Bits bits
      let mo := C05.render m
      -- the decimal must denote exactly the binary value
      let exact : Bool := match s, parseDec? ((res.drop 3).toString) with
        | some sv, some r => res.startsWith "ok:" && C04.safeValueEq r sv
        | none, _ => res == "err"
        | _, _ => false
      -- and come back as the identical float (as f64; -0.0 comes back as 0.0)
      let expectBack : String := match s with
        | none => "-"
        | some _ =>
          if is32 then
            -- widen the f32 pattern to f64 exactly
            let fr := bits % 2 ^ 23; let ex := (bits / 2 ^ 23) % 2 ^ 8; let sg := bits / 2 ^ 31
            if ex == 0 && fr == 0 then "0"
            else if ex == 0 then
              -- subnormal f32 = fr · 2^-149 : normalise
              let l := Nat.log2 fr
              toString (sg * 2 ^ 63 + (l + 1023 - 149) * 2 ^ 52 + (fr * 2 ^ (52 - l)) % 2 ^ 52)
            else toString (sg * 2 ^ 63 + (ex + 1023 - 127) * 2 ^ 52 + fr * 2 ^ 29)
          else if bits == 2 ^ 63 then "0" else toString bits
      let sm := match m, s with
        | some x, some y => C04.safeValueEq x y
        | none, none => true
        | _, _ => false
      { model := mo, mi := mo == res, si := exact && back == expectBack, sm := sm,
        tag := op ++ (let ex := if is32 then (bits / 2 ^ 23) % 2 ^ 8 else (bits / 2 ^ 52) % 2 ^ 11
                      let mx := if is32 then 255 else 2047
                      if ex == 0 then ":subnormal-or-zero" else if ex == mx then ":nan-inf" else ":normal"),
        note := if back == expectBack then "" else "round trip gives " ++ back ++ " expected " ++ expectBack }
    | _, _ => badInput "fromf args"
  | "tof64", [a] =>
    match parseDec? a with
    | some x =>
      if impl == "none" then { model := "", mi := false, si := false, note := "to_f64 returned None", tag := "tof64" }
      else match parseNat? impl with
        | some bits =>
          let (ok, why) := toF64OK x bits
          -- bit-exact model of to_f64 (correctly rounded primitives in exact rational arithmetic)
          let mbits := F64.toF64 (decide (x.int < 0)) x.int.natAbs x.scale
          let (mok, _) := toF64OK x mbits
          { model := toString mbits, mi := mbits == bits, si := ok, sm := mok, note := if ok then "" else why,
            tag := "tof64" ++ (if x.scale == 0 then ":int" else if x.scale.natAbs ≥ 2 ^ 31 - 64 then ":beyond-i32" else if (x.scale.natAbs > 330) then ":extreme" else ":frac")
              -- premises of C14_toF64_negative_scale_tolerance, observed on this input under the f64 digit estimate
              ++ (if x.scale != 0 && x.int != 0 then
                    (if F64.trimKeeps25 F64.digitCount x.int.natAbs then "+keeps25" else "+keeps-fewer")
                    ++ (if F64.digitCountF64 (x.int.natAbs.log2 + 1) == F64.digitCount (x.int.natAbs.log2 + 1) then "" else "+hardware-estimate-differs")
                    ++ (if F64.digitCount (x.int.natAbs.log2 + 1) == F64.digitCountInt (x.int.natAbs.log2 + 1) then "" else "+exact-estimate-differs")
                  else ""),
            trivial := x.int == 0 }
        | none => badInput "tof64 impl"
    | none => badInput "tof64 args"
  | "f32range", [_lo, _hi] =>
    let ok := impl.startsWith "0 "
    { model := "0 -", mi := ok, si := ok, tag := "f32range", note := if ok then "" else "mismatching f32 patterns: " ++ impl }
  | _, _ => badInput ("C14 op " ++ op)

end BigDec.Driver.C14
