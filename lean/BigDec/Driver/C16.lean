import BigDec.Model.Fmt
import BigDec.Model.Round
import BigDec.Spec.Numeral
import BigDec.Spec.Round
import BigDec.Spec.Exact
import BigDec.Driver.Proto
import BigDec.Driver.C04
namespace BigDec.Driver.C16
open BigDec BigDec.Proto

def parseAlign : String → Fmt.Align
  | "<" => .Left | ">" => .Right | "^" => .Center | _ => .Unknown

def optNat (s : String) : Option (Option Nat) := if s == "-" then some none else (parseNat? s).map some

/-- digits of the mantissa part of a numeral text (before any exponent), sign and point removed -/
def mantissaDigitCount (text : String) : Nat :=
  let m := (text.toList.takeWhile (fun c => c != 'e' && c != 'E'))
  (m.filter Char.isDigit).length

def fractionDigitCount (text : String) : Nat :=
  let m := (text.toList.takeWhile (fun c => c != 'e' && c != 'E'))
  match m.dropWhile (· != '.') with
  | [] => 0
  | _ :: fr => fr.length

def handle (op : String) (args : List String) (impl : String) : Verdict :=
  match op, args with
  -- fmt kind fill align plus zero width precision a cfg  =>  text|base
  | "fmt", [kind, fill, align, plus, zero, width, prec, a, cfgs] =>
    match parseDec? a, optNat width, optNat prec, (if cfgs == "-" then some C04.cfgDefault else C04.parseCfg cfgs), impl.splitOn "|" with
    | some a, some w, some p, some cfg, [text, base] =>
      let fillc := (fill.toList.headD ' ')
      let fl : Fmt.Flags := { plus := plus == "1", zero := zero == "1", width := w, fill := fillc, align := parseAlign align, precision := p }
      let flBase : Fmt.Flags := { precision := p }
      let npl := Generated.noPadLimit cfg
      let render (f : Fmt.Flags) : List Char := match kind with
        | "display" => Fmt.display cfg npl f a
        | "e" => Fmt.lowerExp cfg f a 'e'
        | _ => Fmt.lowerExp cfg f a 'E'
      let ms := C04.str (render fl)
      let mi := ms == text && C04.str (render flBase) == base
      -- (1) flags only pad: pad_integral applied to the implementation's own unflagged text
      let neg := base.startsWith "-"
      let body := if neg then (base.drop 1).toString else base
      let flagsOk := C04.str (Fmt.padIntegral fl (!neg) body.toList) == text
      -- (2) the unflagged text denotes the correctly rounded value with exactly N digits
      let digitsOk : Bool × String :=
        match p with
        | none => (true, "")      -- no precision: C04's business
        | some n =>
          match Spec.Numeral.specParse (C04.bytesOf base) with
          | none => (false, "base does not parse")
          | some r =>
            if kind == "display" then
              let overPad := a.scale ≤ 0 && ((-a.scale).toNat + (if n == 0 then 0 else n + 1) > cfg.maxPadding)
              if overPad then
                -- "printed unpadded (keeping an exponent when they have one) and still denote the exact
                -- value": the text reads back as the very same digits and scale (C16_display_precision)
                (decide (r = a), "beyond the padding limit the integer must be printed unpadded and exact")
              else
                let want := Spec.roundToScale a n cfg.mode
                (Spec.valueEq r want && fractionDigitCount base == n, "want " ++ showDec want ++ " got " ++ showDec r)
            else
              let want := Spec.roundToPrec a (n + 1) cfg.mode
              (Spec.valueEq r want && mantissaDigitCount base == n + 1, "want " ++ showDec want ++ " got " ++ showDec r)
      let mdigitsOk : Bool := true
      { model := if mi then "" else ms, mi := mi, si := flagsOk && digitsOk.1, sm := mdigitsOk,
        tag := "fmt:" ++ kind ++ (if p.isSome then ":prec" else ":noprec") ++ (if w.isSome then ":width" else ""),
        note := if !flagsOk then "flags altered the numeral" else if digitsOk.1 then "" else digitsOk.2,
        trivial := a.int == 0 }
    | _, _, _, _, _ => badInput "fmt args"
  | _, _ => badInput ("C16 op " ++ op)

end BigDec.Driver.C16
