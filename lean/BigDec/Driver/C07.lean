import BigDec.Model.ToF64
import BigDec.Model.Round
import BigDec.Model.Arith
import BigDec.Spec.Round
import BigDec.Spec.Exact
import BigDec.Driver.Proto
import BigDec.Driver.C06
import BigDec.Driver.C01
namespace BigDec.Driver.C07
open BigDec BigDec.Proto

def precRegime (a : Dec) (p : Nat) : String :=
  let nd := Spec.numDigits a.int.natAbs
  if a.int = 0 then "zero" else if p > nd then "pad" else if p = nd then "same" else if p + 1 = nd then "cut1" else "cut"

/-- model of with_precision_round returning the panic as text -/
def wprModel (a : Dec) (p : Nat) (m : Mode) : Option Dec := a.withPrecisionRound p m

def handle (op : String) (args : List String) (impl : String) : Verdict :=
  match op, args with
  | o, [a, p, mode] =>
    if o == "wpr" || o == "ctx_round" || o == "ctx_round_ref" || o == "ctx_round_bigint" || o == "ref_round" then
      match parseDec? a, parseNat? p, Mode.ofString? mode with
      | some a, some p, some m =>
        match wprModel a p m with
        | some r => C06.judgeExact r (Spec.roundToPrec a p m) impl (o ++ ":" ++ precRegime a p ++ ":" ++ mode)
                      (a.int == 0 || p ≥ Spec.numDigits a.int.natAbs)
        | none => { model := "panic:overflow", mi := impl == "panic:overflow", si := impl == "panic:overflow", tag := o ++ ":overflow" }
      | _, _, _ => badInput "wpr args"
    else badInput ("C07 op " ++ o)
  | o, [a, b, p, mode] =>
    if o == "add_refs" || o == "add_refs_into" then
      match parseDec? a, parseDec? b, parseNat? p, Mode.ofString? mode with
      | some a, some b, some p, some m =>
        let exact := Spec.add a b
        match (addRefs a b).withPrecisionRound p m with
        | some r => C01.judgeValue (some r) (Spec.roundToPrec exact p m) impl (o ++ ":" ++ precRegime exact p)
                      (a.int == 0 || b.int == 0)
        | none => badInput "add_refs overflow"
      | _, _, _, _ => badInput "add_refs args"
    else badInput ("C07 op " ++ o)
  | "withprec", [a, p] =>
    match parseDec? a, parseNat? p with
    | some a, some p =>
      C06.judgeExact (a.withPrec F64.estCode p) (Spec.roundToPrec a p .HalfUp) impl
        ("withprec:" ++ precRegime a p ++ (if a.int < 0 then ":neg" else ":pos")) (a.int == 0 || p ≥ Spec.numDigits a.int.natAbs)
    | _, _ => badInput "withprec args"
  | _, _ => badInput ("C07 op " ++ op)

end BigDec.Driver.C07
