import BigDec.Model.Div
import BigDec.Spec.Div
import BigDec.Spec.Exact
import BigDec.Driver.Proto
namespace BigDec.Driver.C08
open BigDec BigDec.Proto

def isPanic (s : String) : Bool := s.startsWith "panic"

/-- judge a division result: model agreement by value, the property by the relational spec.
    `exactHalf`: the ±2 shortcut must return the exact half -/
def judge (cfg : Config) (model : Option Dec) (a b : Dec) (impl : String) (tag : String)
    (exactQuot : Option Dec := none) : Verdict :=
  match model with
  | none =>
    -- zero divisor: every form must panic
    { model := "panic", mi := isPanic impl, si := isPanic impl, tag := tag ++ ":zero-divisor" }
  | some m =>
    match parseDec? impl with
    | none => { model := showDec m, mi := false, si := false, note := "impl=" ++ impl, tag := tag }
    | some r =>
      let mi := Spec.valueEq m r
      let ok (x : Dec) : Bool :=
        match exactQuot with
        | some q => Spec.valueEq x q
        | none => Spec.divOk cfg.precision a b x
      { model := if mi && ok r && ok m then "" else showDec m, mi := mi, si := ok r, sm := ok m,
        drift := decide (m ≠ r), tag := tag, trivial := a.int == 0 }

def parseOptDec (s : String) : Option (Option Dec) :=
  if s == "nonnormal" then some none else (parseDec? s).map some

def cfgOf (p : Nat) : Config := { Generated.buildConfig with precision := p }

def handle (op : String) (args : List String) (impl : String) : Verdict :=
  match op, args with
  -- decimal / decimal in the four ownership forms
  | "div", [form, prec, a, b] =>
    match parseNat? prec, parseDec? a, parseDec? b with
    | some p, some a, some b => judge (cfgOf p) (divDec (cfgOf p) a b) a b impl ("div:" ++ form)
    | _, _, _ => badInput "div args"
  -- decimal / primitive integer (value or reference), and the assign forms
  | "divprim", [form, prec, a, pv, _pt] =>
    match parseNat? prec, parseDec? a, parseInt? pv with
    | some p, some a, some pv =>
      let cfg := cfgOf p
      let b := Dec.ofInt pv
      if form == "assign" || form == "assignref" then judge cfg (divAssignPrim cfg a pv) a b impl ("divprim:" ++ form)
      else
        let ex : Option Dec := if pv == 2 || pv == -2 then some (Spec.half (if pv == 2 then a else a.neg)) else none
        judge cfg (divPrim cfg a pv) a b impl ("divprim:" ++ form ++ (if pv.natAbs ≤ 2 then ":unit" else "")) ex
    | _, _, _ => badInput "divprim args"
  -- primitive integer / decimal (numerator ≠ 1 unless the divisor is zero)
  | "primdiv", [form, prec, pv, b, _pt] =>
    match parseNat? prec, parseInt? pv, parseDec? b with
    | some p, some pv, some b =>
      let cfg := cfgOf p
      judge cfg (divPrimLeft cfg pv b) (Dec.ofInt pv) b impl ("primdiv:" ++ form)
    | _, _, _ => badInput "primdiv args"
  -- decimal / float : the float arrives as its exact decimal value or "nonnormal"
  | "divfloat", [form, prec, a, f, _ft] =>
    match parseNat? prec, parseDec? a, parseOptDec f with
    | some p, some a, some fd =>
      let cfg := cfgOf p
      let m := if form == "assign" || form == "assignref" then divAssignFloat cfg a fd else divFloat cfg a fd
      match fd with
      | none => -- non-normal float divisor: zero by design
        { model := "0@0", mi := (parseDec? impl).any (·.int == 0), si := (parseDec? impl).any (·.int == 0), tag := "divfloat:nonnormal" }
      | some fdv =>
        let ex : Option Dec :=
          if (form != "assign" && form != "assignref") && (fdv.isIntValue 2 || fdv.isIntValue (-2))
          then some (Spec.half (if fdv.isIntValue 2 then a else a.neg)) else none
        judge cfg m a fdv impl ("divfloat:" ++ form) ex
    | _, _, _ => badInput "divfloat args"
  | "floatdiv", [form, prec, f, b, _ft] =>
    match parseNat? prec, parseOptDec f, parseDec? b with
    | some p, some fd, some b =>
      let cfg := cfgOf p
      match fd with
      | none =>
        if b.int == 0 then { model := "panic", mi := isPanic impl, si := isPanic impl, tag := "floatdiv:nonnormal:zero-divisor" }
        else { model := "0@0", mi := (parseDec? impl).any (·.int == 0), si := (parseDec? impl).any (·.int == 0), tag := "floatdiv:nonnormal" }
      | some fdv => judge cfg (divFloatLeft cfg fd b) fdv b impl ("floatdiv:" ++ form)
    | _, _, _ => badInput "floatdiv args"
  -- impl_division through the hook at arbitrary precision
  | "impldiv", [num, den, scale, prec] =>
    match parseInt? num, parseInt? den, parseInt? scale, parseNat? prec with
    | some n, some d, some s, some p =>
      let m := implDivision n d s p
      let cf := Spec.divide n d s p
      match parseDec? impl with
      | some r =>
        let a : Dec := ⟨n, s⟩
        let b : Dec := ⟨d, 0⟩
        { model := showDec m, mi := decide (m = r), si := Spec.divOk p a b r && decide (r = cf), sm := decide (m = cf) && Spec.divOk p a b m,
          tag := "impldiv", trivial := n == 0 }
      | none => { model := showDec m, mi := false, si := false, note := "impl=" ++ impl }
    | _, _, _, _ => badInput "impldiv args"
  | _, _ => badInput ("C08 op " ++ op)

end BigDec.Driver.C08
