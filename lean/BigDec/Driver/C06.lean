import BigDec.Model.Round
import BigDec.Spec.Round
import BigDec.Spec.Exact
import BigDec.Driver.Proto
namespace BigDec.Driver.C06
open BigDec BigDec.Proto

/-- observable: the exact representation `(int, scale)` -/
def judgeExact (model spec : Dec) (impl : String) (tag : String) (trivial : Bool := false) : Verdict :=
  let sm := decide (model = spec)
  match parseDec? impl with
  | none => { model := showDec model, mi := false, si := false, sm := sm, note := "impl=" ++ impl, tag := tag }
  | some r =>
    let mi := decide (model = r)
    let si := decide (r = spec)
    { model := if mi && si && sm then "" else showDec model ++ " spec=" ++ showDec spec,
      mi := mi, si := si, sm := sm, tag := tag, trivial := trivial }

def judgeNat (model spec : Nat) (impl : String) (tag : String) : Verdict :=
  let sm := model == spec
  match parseNat? impl with
  | none => { model := toString model, mi := false, si := false, sm := sm, note := "impl=" ++ impl, tag := tag }
  | some r => { model := toString model, mi := model == r, si := r == spec, sm := sm, tag := tag }

/-- which regime of `with_scale_round` a case exercises (evidence histogram) -/
def regime (d : Dec) (ns : Int) : String :=
  if d.int = 0 then "zero"
  else if ns = d.scale then "same"
  else if ns > d.scale then "extend"
  else
    let len : Int := (Spec.numDigits d.int.natAbs : Nat)
    if len - d.scale = -ns then "equal" else if len - d.scale < -ns then "less" else "greater"

def handle (op : String) (args : List String) (impl : String) : Verdict :=
  match op, args with
  | "wsr", [a, ns, mode] =>
    match parseDec? a, parseInt? ns, Mode.ofString? mode with
    | some a, some ns, some m =>
      judgeExact (a.withScaleRound ns m) (Spec.roundToScale a ns m) impl ("wsr:" ++ regime a ns ++ ":" ++ mode)
        (a.int == 0 || ns ≥ a.scale)
    | _, _, _ => badInput "wsr args"
  | "ws", [a, ns] =>
    match parseDec? a, parseInt? ns with
    | some a, some ns =>
      judgeExact (a.withScale ns) (Spec.roundToScale a ns .Down) impl ("ws:" ++ regime a ns) (a.int == 0 || ns ≥ a.scale)
    | _, _ => badInput "ws args"
  | "round", [a, n, mode] =>
    match parseDec? a, parseInt? n, Mode.ofString? mode with
    | some a, some n, some m =>
      judgeExact (a.withScaleRound n m) (Spec.roundToScale a n m) impl ("round:" ++ regime a n) (a.int == 0 || n ≥ a.scale)
    | _, _, _ => badInput "round args"
  | "roundpair", [mode, sign, l, r, tz] =>
    match Mode.ofString? mode, parseNat? l, parseNat? r with
    | some m, some l, some r =>
      let neg := sign == "Minus"
      let tz := tz == "1"
      judgeNat (Generated.roundPair m neg l r tz) (l + if Spec.pairUp m neg l r tz then 1 else 0) impl ("roundpair:" ++ mode)
    | _, _, _ => badInput "roundpair args"
  | _, _ => badInput ("C06 op " ++ op)

end BigDec.Driver.C06
