import BigDec.Model.Roots
import BigDec.Spec.RoundCert
import BigDec.Driver.Proto
namespace BigDec.Driver.C10
open BigDec BigDec.Proto

def showOpt : Option Dec → String
  | some d => "some:" ++ showDec d
  | none => "none"

def parseOpt (s : String) : Option (Option Dec) :=
  if s == "none" then some none
  else if s.startsWith "some:" then (parseDec? (s.drop 5).toString).map some else none

/-- certificate: `r` is `√|a|` (times `sgn`) rounded to `p` digits under `m` -/
def sqrtOK (a : Dec) (p : Nat) (m : Mode) (r : Dec) (wantNeg : Bool := false) : Bool :=
  let x : Dec := ⟨a.int.natAbs, a.scale⟩
  (decide (r.int < 0) == wantNeg || r.int == 0) && r.int != 0 &&
    -- the root of |x| is rounded as a positive number; the copy-sign form only attaches the sign
    Spec.roundCertOK m p false r.int.natAbs r.scale (Spec.cmpSqrt x)

def handle (op : String) (args : List String) (impl : String) : Verdict :=
  match op, args with
  | "sqrt", [form, a, p, mode] =>
    match parseDec? a, parseNat? p, Mode.ofString? mode, parseOpt impl with
    | some a, some p, some m, some r =>
      let model : Option Dec := match form with
        | "ctx" | "default" => a.sqrtCtx p m
        | "ref" => a.sqrtRef p m
        | "abs" => a.sqrtAbs p m
        | "copysign" => a.sqrtCopysign p m
        | _ => none
      let specOk (res : Option Dec) : Bool :=
        -- zero and negative inputs
        if a.int == 0 then (match res with | some z => z.int == 0 | none => false)
        else if a.int < 0 && (form == "ctx" || form == "default" || form == "ref") then res.isNone
        else match res with
          | none => false
          | some r =>
            if (form == "ctx" || form == "default") && a.isOne then Spec.valueEq r ⟨1, 0⟩
            else sqrtOK a p m r (form == "copysign" && a.int < 0)
      let mi := match model, r with
        | some x, some y => decide (x = y)
        | none, none => true
        | _, _ => false
      let nd := Spec.numDigits a.int.natAbs
      { model := showOpt model, mi := mi, si := specOk r, sm := specOk model,
        tag := "sqrt:" ++ form ++ (if nd > 2 * (p + 5) then ":long" else ":short") ++ ":" ++ mode,
        trivial := a.int == 0 }
    | _, _, _, _ => badInput "sqrt args"
  | _, _ => badInput ("C10 op " ++ op)

end BigDec.Driver.C10
