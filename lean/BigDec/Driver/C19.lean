import BigDec.Model.Program
import BigDec.Spec.Exact
import BigDec.Driver.Proto
import BigDec.Driver.C01
namespace BigDec.Driver.C19
open BigDec BigDec.Proto

def parseStep? (s : String) : Option Step :=
  match s.splitOn "," with
  | ["bin", op, lf, rf, side, x, _pt] => do
    let op ← BinOp.ofString? op
    let lf ← Form.ofString? lf
    let rf ← Form.ofString? rf
    let x ← parseDec? x
    pure (.bin op lf rf x (side == "L"))
  | ["neg"] => some .neg | ["abs"] => some .abs | ["double"] => some .double | ["half"] => some .half
  | ["square"] => some .square | ["cube"] => some .cube | ["normalize"] => some .normalize
  | ["cloneref"] => some .cloneRef
  | ["rescale", k] => (parseNat? k).map .rescale
  | "sum" :: kind :: xs => do
    let ds ← xs.mapM parseDec?
    pure (.sumWith ds (kind == "owned"))
  | _ => none

/-- exact evaluation of one step by the declarative spec (independent of the model's bodies) -/
def specStep (s : Step) (acc : Dec) : Dec :=
  match s with
  | .bin op _ _ x true => C01.specBin op acc x
  | .bin op _ _ x false => C01.specBin op x acc
  | .neg => Spec.neg acc
  | .abs => Spec.abs acc
  | .double => Spec.add acc acc
  | .half => Spec.half acc
  | .square => Spec.mul acc acc
  | .cube => Spec.mul (Spec.mul acc acc) acc
  | .normalize | .cloneRef | .rescale _ => acc
  | .sumWith xs _ => Spec.sum (acc :: xs)

def cmpChar : Ordering → String
  | .lt => "L" | .eq => "E" | .gt => "G"

def handle (op : String) (args : List String) (impl : String) : Verdict :=
  match op, args with
  | "prog", acc0 :: steps =>
    match parseDec? acc0, steps.mapM parseStep? with
    | some acc0, some prog => Id.run do
      let outs := impl.splitOn ";"
      if outs.length != prog.length then
        return { model := "", mi := false, si := false, note := "impl trace length " ++ toString outs.length ++ " impl=" ++ (impl.take 200).toString, tag := "prog" }
      let mut m := acc0      -- model accumulator
      let mut s := acc0      -- spec accumulator (exact)
      let mut mi := true
      let mut si := true
      let mut sm := true
      let mut drift := false
      let mut note := ""
      let mut idx := 0
      for (st, o) in prog.zip outs do
        idx := idx + 1
        let sPrev := s
        s := specStep st s
        match runStep st m with
        | none => return badInput ("model has no overload at step " ++ toString idx)
        | some m' =>
          m := m'
          if !Spec.valueEq m s then sm := false
          match o.splitOn ":" with
          | [v, c, e, h] =>
            match parseDec? v with
            | some r =>
              if !Spec.valueEq r m then
                mi := false
                if note == "" then note := s!"step {idx}: impl {v} model {showDec m}"
              if !Spec.valueEq r s then
                si := false
                if note == "" then note := s!"step {idx}: impl {v} spec {showDec s}"
              if decide (r ≠ m) then drift := true
              let expectCmp := cmpChar (Spec.valueCmp s sPrev)
              if c != expectCmp || (e == "1") != (expectCmp == "E") || h != "1" then
                si := false
                if note == "" then note := s!"step {idx}: cmp/eq/hash flags {c}{e}{h} expected {expectCmp}"
              -- continue from the implementation's representation so that later steps see the same forms
              m := r
            | none =>
              return { model := showDec m, mi := false, si := false, note := s!"step {idx}: impl {(o.take 100).toString}", tag := "prog" }
          | _ => return { model := showDec m, mi := false, si := false, note := s!"step {idx}: impl {(o.take 100).toString}", tag := "prog" }
      return { model := if mi && si && sm then "" else showDec m, mi := mi, si := si, sm := sm, drift := drift,
               tag := "prog:len" ++ toString (prog.length / 10 * 10), note := note, trivial := prog.length < 2 }
    | _, _ => badInput "prog args"
  | _, _ => badInput ("C19 op " ++ op)

end BigDec.Driver.C19
