import BigDec.Model.Hash
import BigDec.Spec.Exact
import BigDec.Driver.Proto
namespace BigDec.Driver.C03
open BigDec BigDec.Proto

def handle (op : String) (args : List String) (impl : String) : Verdict :=
  match op, args with
  | "bytes", [a] =>
    -- what `Hash::hash` writes into a recording hasher: the string bytes followed by 0xff
    match parseDec? a with
    | some a =>
      let m := hashString a ++ "|ff"
      { model := m, mi := m == impl, si := m == impl, tag := "bytes" ++ (if a.scale > 0 then ":trim" else if a.scale < 0 then ":extend" else ":plain"),
        trivial := a.int == 0 }
    | none => badInput "bytes arg"
  | "pair", [a, b] =>
    -- impl = "<a==b> <recorded bytes equal> <DefaultHasher equal> <SipHasher13 equal> <FNV equal>"
    match parseDec? a, parseDec? b with
    | some a, some b =>
      let veq := Spec.valueEq a b
      let meq := hashData a == hashData b
      let flags := impl.splitOn " "
      match flags with
      | [e, rec, h1, h2, h3] =>
        let implEq := e == "1"
        -- the property: whenever the decimals are equal, every hasher sees identical data
        let si := (implEq == veq) && (!veq || (rec == "1" && h1 == "1" && h2 == "1" && h3 == "1"))
        let mi := (rec == "1") == meq
        { model := (if meq then "1" else "0"), mi := mi, si := si, sm := !veq || meq,
          tag := "pair" ++ (if veq then ":equal" else ":differ"), trivial := a.int == 0 && b.int == 0 }
      | _ => { model := "", mi := false, si := false, note := "impl=" ++ impl }
    | _, _ => badInput "pair args"
  | _, _ => badInput ("C03 op " ++ op)

end BigDec.Driver.C03
