import BigDec.Model.ToF64
import BigDec.Model.Inverse
import BigDec.Model.InvGuess
import BigDec.Spec.RoundCert
import BigDec.Spec.Div
import BigDec.Spec.Exact
import BigDec.Driver.Proto
namespace BigDec.Driver.C12
open BigDec BigDec.Proto

/-- the property on one result: sign of x, within one unit of the p-th digit of 1/x, exact when
    1/x has at most p significant digits -/
def invOK (a : Dec) (p : Nat) (r : Dec) : Bool × String :=
  if r.int == 0 then (false, "zero result")
  else if decide (r.int < 0) != decide (a.int < 0) then (false, "wrong sign")
  else
    let x : Dec := ⟨a.int.natAbs, a.scale⟩
    let R : Dec := ⟨r.int.natAbs, r.scale⟩
    let nd := Spec.numDigits R.int.natAbs
    -- unit in the p-th significant digit of R
    let unitScale : Int := R.scale - ((nd : Int) - (p : Int))
    let prod := Spec.mul R x                       -- R·x, should be ≈ 1
    let err := Spec.sub prod ⟨1, 0⟩
    let bound := Spec.mul ⟨1, unitScale⟩ x          -- (one unit)·x
    let errAbs : Dec := ⟨err.int.natAbs, err.scale⟩
    let within := Spec.valueCmp errAbs bound == .lt
    let exactNeeded := Spec.terminatesWithin 1 x.int.natAbs p
    let exact := err.int == 0
    if nd < p then (exact, "fewer than p digits but inexact")
    else if !within then (false, "error of one unit or more in the p-th digit")
    else if exactNeeded && !exact then (false, "1/x has at most p digits but the result is inexact")
    else (true, "")

def handle (op : String) (args : List String) (impl : String) : Verdict :=
  match op, args with
  | "inv", [a, p, mode, guessField] =>
    -- the guess, optionally followed by `~<f32 bits>` of `(LN_2 * exp10(-frac)) as f32` on the back-up path
    let (guess, v32?) := match guessField.splitOn "~" with
      | [g, v] => (g, parseNat? v)
      | _ => (guessField, none)
    match parseDec? a, parseNat? p, Mode.ofString? mode, parseDec? guess, parseDec? impl with
    | some a, some p, some m, some g, some r =>
      let model := a.inverseCtx F64.estCode p m g
      let (ok, why) := if a.isOne then (Spec.valueEq r ⟨1, 0⟩, "one") else invOK a p r
      let mok := match model with
        | some x => if a.isOne then true else (invOK a p x).1
        | none => false
      { model := showOptDec model, mi := model == some r, si := ok, sm := mok, note := why,
        tag := "inv:" ++ mode ++ (if p ≤ 3 then ":p<=3" else if p ≤ 5 then ":p<=5" else ":p>5") ++ (if a.int < 0 then ":neg" else ":pos")
          -- premise of C12_exit_accuracy observed on the real initial guess: |1 - |x| * g| <= 7/10
          ++ (let e := Spec.sub ⟨1, 0⟩ (Spec.mul ⟨a.int.natAbs, a.scale⟩ g)
              if Spec.valueCmp ⟨e.int.natAbs, e.scale⟩ ⟨7, 1⟩ != .gt then ""
              else if Spec.valueCmp ⟨e.int.natAbs, e.scale⟩ ⟨94, 2⟩ != .gt then "+guess-beyond-70-percent"
              else if Spec.valueCmp ⟨e.int.natAbs, e.scale⟩ ⟨999, 3⟩ != .gt then "+guess-beyond-94-percent"
              else "+guess-beyond-99.9-percent")
          -- the model of make_inv_guess (main path, bit counts up to 1074) against the real guess handed over by the hook
          ++ (let b := if a.int == 0 then 0 else a.int.natAbs.log2 + 1
              if b ≤ 1074 then
                (match invGuessMain b a.scale with
                 | some mg => if Spec.valueEq mg g then "" else "+guess-model-differs"
                 | none => "+guess-model-none")
              else
                -- back-up path: the model of the bookkeeping around the float kernel (`C12_backup_guess_premise`)
                (match v32? with
                 | some v32 =>
                   (match invGuessBackup b a.scale v32 with
                    | some mg => if Spec.valueEq mg g then "+guess-backup-path" else "+guess-backup-model-differs"
                    | none => "+guess-backup-model-none")
                 | none => "+guess-backup-path-no-kernel")),
        trivial := false }
    | _, _, _, _, _ => badInput "inv args"
  | "oneover", [form, a, guess] =>
    -- `1 / x` with a primitive one: inverse() with the configured default context
    match parseDec? a, parseDec? guess, parseDec? impl with
    | some a, some g, some r =>
      let p := Generated.buildDefaultPrecision
      let model := a.inverseCtx F64.estCode p Generated.buildDefaultMode g
      let (ok, why) := if a.isOne then (Spec.valueEq r ⟨1, 0⟩, "one") else invOK a p r
      { model := showOptDec model, mi := model == some r, si := ok, sm := true, note := why,
        tag := "oneover:" ++ form, trivial := false }
    | _, _, _ => badInput "oneover args"
  | "mirror", [a, _p, _mode, _mmode] =>
    match parseDec? a, impl.splitOn "|" with
    | some _, [x, y] =>
      match parseDec? x, parseDec? y with
      | some x, some y =>
        let ok := Spec.valueEq y x.neg   -- equality of decimals is equality of values (PartialEq); the
        -- one-shortcut returns its operand's representation, the general path a p-digit one
        { model := "", mi := ok, si := ok, tag := "mirror", note := if ok then "" else "inverse(-x) under the mirrored mode is not -inverse(x)" }
      | _, _ => badInput "mirror impl"
    | _, _ => badInput "mirror args"
  | _, _ => badInput ("C12 op " ++ op)

end BigDec.Driver.C12
