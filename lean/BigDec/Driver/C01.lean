import BigDec.Model.Arith
import BigDec.Spec.Exact
import BigDec.Driver.Proto
namespace BigDec.Driver.C01
open BigDec BigDec.Proto

/-- compare at the observable of C01/C19: the *value*; representation differences are drift -/
def judgeValue (model : Option Dec) (spec : Dec) (impl : String) (tag : String := "")
    (trivial : Bool := false) : Verdict :=
  match model with
  | none => badInput "no such overload in the model"
  | some m =>
    let sm := Spec.valueEq m spec
    match parseDec? impl with
    | none => { model := showDec m, mi := false, si := false, sm := sm, note := "impl=" ++ impl, tag := tag }
    | some r =>
      let mi := Spec.valueEq m r
      let si := Spec.valueEq r spec
      { model := if mi && si && sm then "" else showDec m, mi := mi, si := si, sm := sm,
        drift := decide (m ≠ r), tag := tag, trivial := trivial }

def specBin : BinOp → Dec → Dec → Dec
  | .add, a, b | .addAssign, a, b => Spec.add a b
  | .sub, a, b | .subAssign, a, b => Spec.sub a b
  | .mul, a, b | .mulAssign, a, b => Spec.mul a b

def handle (op : String) (args : List String) (impl : String) : Verdict :=
  match op, args with
  | "bin", [o, lf, rf, a, b, _pt] =>
    match BinOp.ofString? o, Form.ofString? lf, Form.ofString? rf, parseDec? a, parseDec? b with
    | some o', some lf', some rf', some a, some b =>
      judgeValue (evalOp o' lf' rf' a b) (specBin o' a b) impl (o ++ ":" ++ lf ++ ":" ++ rf)
        (a.int == 0 || b.int == 0)
    | _, _, _, _, _ => badInput "bin args"
  | "un", [name, a] =>
    match parseDec? a with
    | none => badInput "un arg"
    | some a =>
      match name with
      | "neg" | "negref" | "neg_dref" => judgeValue (some a.neg) (Spec.neg a) impl name (a.int == 0)
      | "abs" | "abs_signed" | "abs_ref" => judgeValue (some a.abs) (Spec.abs a) impl name (a.int == 0)
      -- Signed::signum: One::one(), Zero::zero() or -One::one()
      | "signum" => judgeValue (some ⟨if a.int < 0 then -1 else if a.int == 0 then 0 else 1, 0⟩)
                      ⟨if a.int < 0 then -1 else if a.int == 0 then 0 else 1, 0⟩ impl name (a.int == 0)
      -- Signed::abs_sub(x, 0) = max(x, 0): zero (Zero::zero()) when x <= 0, else x - 0
      | "abs_sub0" => judgeValue (if a.int ≤ 0 then some ⟨0, 0⟩ else evalOp .sub .RD .RD a ⟨0, 0⟩) (if a.int ≤ 0 then ⟨0, 0⟩ else a) impl name (a.int == 0)
      -- Signed::is_positive / is_negative (as 1 / 0) and `x + BigDecimal::default()` (default = zero)
      | "is_pos" => judgeValue (some ⟨if a.int > 0 then 1 else 0, 0⟩) ⟨if a.int > 0 then 1 else 0, 0⟩ impl name false
      | "is_neg" => judgeValue (some ⟨if a.int < 0 then 1 else 0, 0⟩) ⟨if a.int < 0 then 1 else 0, 0⟩ impl name false
      | "default_plus" => judgeValue (evalOp .add .D .D a ⟨0, 0⟩) a impl name (a.int == 0)
      | "double" => judgeValue (some a.double) (Spec.add a a) impl name (a.int == 0)
      | "half" => judgeValue (some a.half) (Spec.half a) impl name (a.int == 0)
      | "square" => judgeValue (some a.square) (Spec.mul a a) impl name (a.int == 0)
      | "cube" => judgeValue (some a.cube) (Spec.mul (Spec.mul a a) a) impl name (a.int == 0)
      | _ => badInput "un name"
  | "sum", kind :: xs =>
    match xs.mapM parseDec? with
    | none => badInput "sum args"
    | some ds =>
      match kind with
      | "owned" => judgeValue (some (sumOwned ds)) (Spec.sum ds) impl "sum:owned" (ds.length < 2)
      | "refs" => judgeValue (some (sumRefs ds)) (Spec.sum ds) impl "sum:refs" (ds.length < 2)
      | _ => badInput "sum kind"
  | _, _ => badInput ("C01 op " ++ op)

end BigDec.Driver.C01
