import BigDec.Model.Fmt
import BigDec.Model.Parse
import BigDec.Spec.Exact
import BigDec.Spec.Round
import BigDec.Driver.Proto
import BigDec.Driver.C05
namespace BigDec.Driver.C04
open BigDec BigDec.Proto

def str (cs : List Char) : String := String.ofList cs
def bytesOf (s : String) : List Nat := s.toList.map Char.toNat

def cfgDefault : Config := Generated.buildConfig

/-- parse an optional override of the configuration "prec,mode,low,high,pad" (C20) -/
def parseCfg (s : String) : Option Config :=
  match s.splitOn "," with
  | [p, m, lo, hi, pad] => do
    let p ← parseNat? p
    let m ← Mode.ofString? m
    let lo ← parseNat? lo
    let hi ← parseNat? hi
    let pad ← parseNat? pad
    pure { cfgDefault with precision := p, mode := m, lowThreshold := lo, highThreshold := hi, maxPadding := pad }
  | _ => none

/-- value equality that never materialises a huge power of ten -/
def safeValueEq (x y : Dec) : Bool :=
  if x.int == 0 || y.int == 0 then x.int == 0 && y.int == 0
  else if (x.scale - y.scale).natAbs > Spec.numDigits x.int.natAbs + Spec.numDigits y.int.natAbs + 2 then false
  else Spec.valueEq x y

def renderModel (cfg : Config) (kind : String) (a : Dec) : Option (List Char) :=
  let npl := Generated.noPadLimit cfg
  match kind with
  | "display" | "display_ref" | "tostring" => some (Fmt.display cfg npl {} a)
  | "lowerexp" | "lowerexp_ref" => some (Fmt.lowerExp cfg {} a 'e')
  | "upperexp" | "upperexp_ref" => some (Fmt.lowerExp cfg {} a 'E')
  | "sci" => some (Fmt.scientific a)
  | "eng" => some (Fmt.engineering a)
  | "plain" => some (Fmt.plain a)
  | _ => none

/-- the property on one rendering: the text parses back (by the *specification* grammar) to a
    decimal of equal value; identical digits and scale except where the statement exempts it;
    Display stays within a constant of the digit count -/
def checkText (cfg : Config) (kind : String) (a : Dec) (text : String) : Bool × String :=
  match Spec.Numeral.specParse (bytesOf text) with
  | none => (false, "does not parse")
  | some r =>
    if !safeValueEq r a then (false, "value changed: " ++ showDec r)
    else
      let exemptRep := kind == "eng" || ((kind.startsWith "display" || kind == "tostring") && a.scale < 0 && a.scale ≥ -(cfg.highThreshold : Int))
      -- Display switches to exponent notation exactly at the configured zero counts
      -- (the padding limit is a documented output-size bound and wins when it is smaller)
      let isDisplay := kind.startsWith "display" || kind == "tostring"
      let nd := Spec.numDigits a.int.natAbs
      let wantExp : Bool :=
        if a.scale ≤ 0 then (-a.scale).toNat > min cfg.highThreshold cfg.maxPadding
        else a.scale.toNat ≥ nd && a.scale.toNat - nd > cfg.lowThreshold
      let hasExp := text.toList.any (fun c => c == 'e' || c == 'E')
      if isDisplay && hasExp != wantExp then (false, "notation switch not at the configured threshold") else
      let lenOk := !(kind.startsWith "display" || kind == "tostring") ||
        text.length ≤ Spec.numDigits a.int.natAbs + cfg.lowThreshold + cfg.highThreshold + 30
      if !lenOk then (false, "display too long")
      else if exemptRep || decide (r = a) then (true, "")
      else (false, "representation changed: " ++ showDec r)

def handle (op : String) (args : List String) (impl : String) : Verdict :=
  match op, args with
  | "render", [kind, a, cfgs] =>
    match parseDec? a, (if cfgs == "-" then some cfgDefault else parseCfg cfgs) with
    | some a, some cfg =>
      match renderModel cfg kind a, impl.splitOn "|" with
      | some m, [text, reparse] =>
        let ms := str m
        let mi := ms == text
        -- the implementation's own re-parse must agree with the specification's reading of the text
        let specRe := C05.render (Spec.Numeral.specParse (bytesOf text))
        let (ok, why) := checkText cfg kind a text
        let (mok, _) := checkText cfg kind a ms
        let zone := if a.int == 0 then "zero" else if a.scale < 0 then "negscale" else if a.scale == 0 then "int" else
          (if (Spec.numDigits a.int.natAbs : Int) > a.scale then "mixed" else "frac")
        { model := if mi then "" else ms, mi := mi, si := ok && reparse == specRe, sm := mok,
          tag := kind ++ ":" ++ zone, note := if ok then (if reparse == specRe then "" else "impl reparse " ++ reparse) else why,
          trivial := a.int == 0 }
      | _, _ => badInput "render kind/impl"
    | _, _ => badInput "render args"
  | _, _ => badInput ("C04 op " ++ op)

end BigDec.Driver.C04
