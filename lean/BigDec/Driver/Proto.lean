import BigDec.Model.Types
/-! Text protocol shared by the Rust harness and the Lean driver.
    A decimal is `<int>@<scale>`; fields are separated by tabs. -/
namespace BigDec.Proto
open BigDec

/-- parse a natural number, 18 digits at a time (keeps big parses sub-quadratic enough) -/
def parseNat? (s : String) : Option Nat := Id.run do
  if s.isEmpty then return none
  let mut acc : Nat := 0
  let mut chunk : Nat := 0
  let mut cnt : Nat := 0
  for c in s.toList do
    if c < '0' || c > '9' then return none
    chunk := chunk * 10 + (c.toNat - 48)
    cnt := cnt + 1
    if cnt == 18 then
      acc := acc * 1000000000000000000 + chunk
      chunk := 0
      cnt := 0
  return some (acc * 10 ^ cnt + chunk)

def parseInt? (s : String) : Option Int :=
  if s.startsWith "-" then (parseNat? (s.drop 1).toString).map (fun n => -(n : Int))
  else if s.startsWith "+" then (parseNat? (s.drop 1).toString).map (fun n => (n : Int))
  else (parseNat? s).map (fun n => (n : Int))

def parseDec? (s : String) : Option Dec :=
  match s.splitOn "@" with
  | [i, sc] => do
    let i ← parseInt? i
    let sc ← parseInt? sc
    pure ⟨i, sc⟩
  | _ => none

/-- zero-padded 18-digit chunk -/
def pad18 (n : Nat) : String :=
  let s := toString n
  String.ofList (List.replicate (18 - s.length) '0') ++ s

/-- digits of `n < 10^(18·2^lvl)` padded to exactly `18·2^lvl` characters (divide and conquer) -/
def showPadded (pows : Array Nat) : Nat → Nat → String
  | 0, n => pad18 n
  | lvl + 1, n =>
    let p := pows[lvl]!
    showPadded pows lvl (n / p) ++ showPadded pows lvl (n % p)

/-- fast decimal rendering of big naturals (`Nat.repr` is quadratic) -/
def showNat (n : Nat) : String := Id.run do
  if n < 1000000000000000000 then return toString n
  -- pows[i] = 10^(18·2^i)
  let mut pows : Array Nat := #[1000000000000000000]
  let mut lvl := 0
  while pows[lvl]! * pows[lvl]! ≤ n do
    pows := pows.push (pows[lvl]! * pows[lvl]!)
    lvl := lvl + 1
  -- n < pows[lvl]^2 = 10^(18·2^(lvl+1))
  let s := showPadded pows (lvl + 1) n
  return (s.dropWhile (· == '0')).toString

def showInt (i : Int) : String := if i < 0 then "-" ++ showNat i.natAbs else showNat i.natAbs

def showDec (d : Dec) : String := showInt d.int ++ "@" ++ showInt d.scale

def showOptDec : Option Dec → String
  | some d => showDec d
  | none => "none"

/-- verdict for one case -/
structure Verdict where
  model : String          -- model output in canonical text
  mi : Bool               -- model agrees with implementation at the property's observable
  si : Bool               -- implementation satisfies the specification (the property itself)
  sm : Bool := true       -- model satisfies the specification (must always hold)
  drift : Bool := false   -- representations differ where the property does not care
  trivial : Bool := false -- the case is trivial by the property's stated rule (evidence only)
  tag : String := ""      -- branch / overload tag (evidence histogram)
  note : String := ""

def Verdict.render (v : Verdict) : String :=
  let b (x : Bool) := if x then "1" else "0"
  s!"{b v.mi}\t{b v.si}\t{b v.sm}\t{b v.drift}\t{b v.trivial}\t{v.tag}\t{v.model}\t{v.note}"

def Verdict.ok (v : Verdict) : Bool := v.mi && v.si && v.sm

/-- FNV-1a hash of a line (used to count distinct cases) -/
def fnv (s : String) : UInt64 :=
  s.foldl (fun h c => (h ^^^ c.toNat.toUInt64) * 1099511628211) 14695981039346656037

def badInput (why : String) : Verdict :=
  { model := "?", mi := false, si := false, sm := false, note := "driver-bad-input: " ++ why }

end BigDec.Proto
