import BigDec.Model.Rem
import BigDec.Spec.Exact
import BigDec.Driver.Proto
namespace BigDec.Driver.C09
open BigDec BigDec.Proto

def formOf? : String → Option RemForm
  | "DD" => some .DD | "DRD" => some .DRD | "RDD" => some .RDD | "RDRD" => some .RDRD | "assign" => some .assign
  | _ => none

def handle (op : String) (args : List String) (impl : String) : Verdict :=
  match op, args with
  | "rem", [f, a, b] =>
    match formOf? f, parseDec? a, parseDec? b with
    | some form, some a, some b =>
      let m := evalRem form a b
      let s := Spec.rem a b
      let tag := "rem:" ++ f ++ (if a.scale < b.scale then ":lt" else if a.scale = b.scale then ":eq" else ":gt")
      match m, s with
      | none, none =>
        { model := "panic", mi := impl.startsWith "panic", si := impl.startsWith "panic", tag := tag ++ ":zero" }
      | some m, some s =>
        let sm := Spec.valueEq m s
        match parseDec? impl with
        | some r =>
          let mi := Spec.valueEq m r
          let si := Spec.valueEq r s
          { model := if mi && si && sm then "" else showDec m, mi := mi, si := si, sm := sm, drift := decide (m ≠ r),
            tag := tag, trivial := a.int == 0 }
        | none => { model := showDec m, mi := false, si := false, sm := sm, note := "impl=" ++ impl, tag := tag }
      | _, _ => { model := showOptDec m, mi := false, si := false, sm := false, tag := tag }
    | _, _, _ => badInput "rem args"
  | _, _ => badInput ("C09 op " ++ op)

end BigDec.Driver.C09
