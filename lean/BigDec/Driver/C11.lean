import BigDec.Model.Roots
import BigDec.Spec.RoundCert
import BigDec.Spec.Exact
import BigDec.Driver.Proto
namespace BigDec.Driver.C11
open BigDec BigDec.Proto

/-- certificate: `r` is the real cube root of `a` rounded to `p` digits under `m`
    (Floor / Ceiling on the signed value) -/
def cbrtOK (a : Dec) (p : Nat) (m : Mode) (r : Dec) : Bool :=
  let x : Dec := ⟨a.int.natAbs, a.scale⟩
  let neg := decide (a.int < 0)
  r.int != 0 && decide (r.int < 0) == neg &&
    Spec.roundCertOK m p neg r.int.natAbs r.scale (Spec.cmpCbrt x)

def handle (op : String) (args : List String) (impl : String) : Verdict :=
  match op, args with
  | "cbrt", [form, a, p, mode] =>
    match parseDec? a, parseNat? p, Mode.ofString? mode, parseDec? impl with
    | some a, some p, some m, some r =>
      let model := a.cbrtCtx p m
      let specOk (res : Dec) : Bool :=
        if a.int == 0 then res.int == 0
        else if a.isOne then Spec.valueEq res ⟨1, 0⟩
        else cbrtOK a p m res
      let res3 := ((a.scale % 3) + 3) % 3
      { model := showDec model, mi := decide (model = r), si := specOk r, sm := specOk model,
        tag := "cbrt:" ++ form ++ ":" ++ mode ++ ":mod" ++ toString res3 ++ (if a.int < 0 then ":neg" else ":pos"),
        trivial := a.int == 0 }
    | _, _, _, _ => badInput "cbrt args"
  | "mirror", [a, p, mode, mmode] =>
    -- impl = cbrt(a) under mode | cbrt(-a) under the mirrored mode : must be negatives of each other
    match parseDec? a, impl.splitOn "|" with
    | some _, [x, y] =>
      match parseDec? x, parseDec? y with
      | some x, some y =>
        let ok := Spec.valueEq y x.neg
        let _ := (p, mode, mmode)
        { model := "", mi := ok, si := ok, tag := "mirror" }
      | _, _ => badInput "mirror impl"
    | _, _ => badInput "mirror args"
  | _, _ => badInput ("C11 op " ++ op)

end BigDec.Driver.C11
