import BigDec.Model.ToF64
import BigDec.Model.Cmp
import BigDec.Spec.Exact
import BigDec.Spec.Round
import BigDec.Driver.Proto
import BigDec.Driver.C19
namespace BigDec.Driver.C02
open BigDec BigDec.Proto

/-- exact comparison of the denoted values that does not materialise `10^gap` when the gap is
    far larger than the digit counts (then the number with the larger scale is smaller in magnitude) -/
def cmpValues (x y : Dec) : Ordering :=
  let sx := sgnOrd x.int; let sy := sgnOrd y.int
  if sx ≠ sy then compare sx sy
  else if x.int = 0 then .eq
  else
    let gap := (x.scale - y.scale).natAbs
    if gap > Spec.numDigits x.int.natAbs + Spec.numDigits y.int.natAbs + 2 then
      -- magnitudes: larger scale ⇒ smaller magnitude
      let magCmp : Ordering := if x.scale > y.scale then .lt else .gt
      if x.int < 0 then Ordering.rev magCmp else magCmp
    else Spec.valueCmp x y

def b01 (b : Bool) : String := if b then "1" else "0"

def render (eq : Bool) (c : Ordering) : String :=
  let cs := C19.cmpChar c
  s!"E={b01 eq};NE={b01 (!eq)};LT={b01 (c == .lt)};LE={b01 (c != .gt)};GT={b01 (c == .gt)};GE={b01 (c != .lt)};CMP={cs};REFEQ={b01 eq};REFCMP={cs};PCMP={cs};MAX={if c == .gt then "a" else "b"};MIN={if c == .gt then "b" else "a"};NEGEQ={b01 eq};NEGCMP={C19.cmpChar (Ordering.rev c)};ABSSELF=11"

def handle (op : String) (args : List String) (impl : String) : Verdict :=
  match op, args with
  | "cmp", [a, b] =>
    match parseDec? a, parseDec? b with
    | some a, some b =>
      let meq := eqDec F64.preCode a b
      let mc := cmpDec F64.preCode a b
      let sc := cmpValues a b
      let model := render meq mc
      let spec := render (sc == .eq) sc
      let gap := (a.scale - b.scale).natAbs
      let tag := "cmp:" ++ (if gap == 0 then "gap0" else if gap < 20 then "gap<20" else if gap < 2 ^ 63 then "gap>=20" else "gap>=2^63")
                 ++ (if sc == .eq then ":equal" else ":diff")
      { model := model, mi := model == impl, si := impl == spec, sm := model == spec, tag := tag,
        trivial := a.int == 0 || b.int == 0 }
    | _, _ => badInput "cmp args"
  | "hbl", [nb, j, k] =>
    match parseNat? nb, parseNat? j, parseNat? k with
    | some nb, some j, some k =>
      -- the bit-length shortcut on a = 2^N - 1, b = 2^j: whenever it answers "less", a < b * 10^k must hold
      let a := 2 ^ nb - 1
      let b := 2 ^ j
      let m := highestBitLess F64.preCode a b k
      let truth := decide (a < b * 10 ^ k)
      { model := b01 m, mi := b01 m == impl, si := impl == "0" || truth, sm := !m || truth,
        tag := "hbl:" ++ (if truth then "less" else "not-less") ++ (if impl == "1" then ":shortcut" else ":undecided")
               ++ (if preF64 k == F64.preCode k then "" else "+hardware-estimate-differs"),
        trivial := false }
    | _, _, _ => badInput "hbl args"
  | "sort", xs =>
    match xs.mapM parseDec?, (impl.splitOn ";").mapM parseDec? with
    | some ins, some outs =>
      -- spec: the output is a permutation of the input (as representations) and is non-decreasing in value
      let sortedOk := (outs.zip (outs.drop 1)).all (fun p => cmpValues p.1 p.2 != .gt)
      let key (d : Dec) : String := showDec d
      let permOk := (ins.map key).mergeSort (· ≤ ·) == (outs.map key).mergeSort (· ≤ ·)
      { model := "", mi := sortedOk && permOk, si := sortedOk && permOk, tag := "sort", trivial := ins.length < 3 }
    | _, _ => badInput "sort args"
  | _, _ => badInput ("C02 op " ++ op)

end BigDec.Driver.C02
