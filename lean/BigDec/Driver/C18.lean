import BigDec.Model.ToF64
import BigDec.Model.Round
import BigDec.Model.Arith
import BigDec.Spec.Round
import BigDec.Spec.Exact
import BigDec.Driver.Proto
import BigDec.Driver.C06
namespace BigDec.Driver.C18
open BigDec BigDec.Proto

def signName (i : Int) : String := if i < 0 then "Minus" else if i = 0 then "NoSign" else "Plus"

/-- is `d` the decimal digit count of `n`? (declarative check, no loop) -/
def isDigitCount (n d : Nat) : Bool :=
  if n = 0 then d == 1 else d ≥ 1 && 10 ^ (d - 1) ≤ n && n < 10 ^ d

def judgeStr (model spec : String) (impl : String) (tag : String) : Verdict :=
  { model := model, mi := model == impl, si := impl == spec, sm := model == spec, tag := tag }

def handle (op : String) (args : List String) (impl : String) : Verdict :=
  match op, args with
  | "digits", [a] =>
    match parseDec? a, parseNat? impl with
    | some a, some r =>
      let m := countDigitsUint F64.estCode a.int.natAbs
      { model := toString m, mi := m == r, si := isDigitCount a.int.natAbs r, sm := isDigitCount a.int.natAbs m,
        tag := "digits", trivial := a.int.natAbs < 10 }
    | _, _ => badInput "digits args"
  | "digitsbits", [b, which] =>
    match parseNat? b, impl.splitOn " " with
    | some b, [d, r] =>
      match parseNat? d, parseNat? r with
      | some d, some r =>
        let n := if which == "lo" then 2 ^ (b - 1) else 2 ^ b - 1
        let md := countDigitsUint F64.estCode n
        let mr := getRoundingTerm F64.estCode n
        let specR := if 5 * 10 ^ (d - 1) ≤ n then 1 else 0
        { model := s!"{md} {mr}", mi := md == d && mr == r, si := isDigitCount n d && r == specR,
          sm := isDigitCount n md && (mr == if 5 * 10 ^ (md - 1) ≤ n then 1 else 0),
          -- the estimate through the rounding primitive vs Lean's hardware doubles, observed per bit length
          tag := "digitsbits" ++ (if estF64 b == F64.estCode b then "" else "+hardware-estimate-differs") }
      | _, _ => badInput "digitsbits impl"
    | _, _ => badInput "digitsbits args"
  | "tenpow", [k] =>
    match parseNat? k, parseNat? impl with
    | some k, some r =>
      let m := tenToTheUint k
      { model := if m == r then "" else showNat m, mi := m == r, si := r == 10 ^ k, sm := m == 10 ^ k,
        tag := if k < Generated.tenPowSmall then "tenpow:u64" else if k < Generated.tenPowLinear then "tenpow:linear" else "tenpow:squaring" }
    | _, _ => badInput "tenpow args"
  | "ctor", [i, s] =>
    match parseInt? i, parseInt? s with
    | some i, some s =>
      let d : Dec := ⟨i, s⟩
      let ds := showDec d
      let absd := showDec ⟨i.natAbs, s⟩
      let nd := Spec.numDigits i.natAbs
      -- a derived view of value `v` at the same scale: sign, scale, digit count, zero test, owned copy, equality both ways
      let view (v : Int) : String := signName v ++ "," ++ toString s ++ "," ++ toString (Spec.numDigits v.natAbs) ++ "," ++
        (if v == 0 then "1" else "0") ++ "," ++ showDec ⟨v, s⟩ ++ ",11"
      let expect := String.intercalate "|" [ds, signName i, toString s, signName i, toString s, toString nd, ds, ds, ds, absd, ds, ds, ds, ds,
        showDec ⟨i, 0⟩, toString nd, view i.natAbs, view (-i), view i.natAbs, view (-(i.natAbs : Int))]
      judgeStr expect expect impl "ctor"
    | _, _ => badInput "ctor args"
  | "normalized", [a] =>
    match parseDec? a with
    | some a =>
      let m := a.normalized
      match parseDec? impl with
      | some r =>
        let ok (x : Dec) : Bool := Spec.valueEq x a && (if a.int == 0 then decide (x = ⟨0, 0⟩) else x.int % 10 != 0)
        { model := showDec m, mi := decide (m = r), si := ok r, sm := ok m, tag := "normalized",
          trivial := a.int == 0 || a.int % 10 != 0 }
      | none => { model := showDec m, mi := false, si := false, note := "impl=" ++ impl }
    | none => badInput "normalized args"
  | "wsext", [a, ns] =>
    match parseDec? a, parseInt? ns with
    | some a, some ns =>
      C06.judgeExact (a.withScale ns) ⟨a.int * (10 ^ (ns - a.scale).toNat : Nat), ns⟩ impl "wsext" (ns == a.scale)
    | _, _ => badInput "wsext args"
  | "rext", [a, ns] =>
    match parseDec? a, parseInt? ns with
    | some a, some ns =>
      let spec : Dec := if ns ≥ a.scale then ⟨a.int * (10 ^ (ns - a.scale).toNat : Nat), ns⟩
        else ⟨(if a.int < 0 then -1 else 1) * ((a.int.natAbs / 10 ^ (a.scale - ns).toNat : Nat) : Int), ns⟩
      C06.judgeExact (a.toOwnedWithScale ns) spec impl (if ns ≥ a.scale then "rext:up" else "rext:down") (ns == a.scale)
    | _, _ => badInput "rext args"
  | "wpext", [a, p] =>
    match parseDec? a, parseNat? p with
    | some a, some p =>
      let nd := Spec.numDigits a.int.natAbs
      C06.judgeExact (a.withPrec F64.estCode p) ⟨a.int * (10 ^ (p - nd) : Nat), a.scale + ((p - nd : Nat) : Int)⟩ impl "wpext" (p == nd)
    | _, _ => badInput "wpext args"
  | _, _ => badInput ("C18 op " ++ op)

end BigDec.Driver.C18
