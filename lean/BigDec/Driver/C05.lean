import BigDec.Model.Parse
import BigDec.Spec.Numeral
import BigDec.Driver.Proto
namespace BigDec.Driver.C05
open BigDec BigDec.Proto

def hexVal (c : Char) : Option Nat :=
  if '0' ≤ c ∧ c ≤ '9' then some (c.toNat - 48)
  else if 'a' ≤ c ∧ c ≤ 'f' then some (c.toNat - 87) else none

def decodeHex : List Char → Option (List Nat)
  | [] => some []
  | a :: b :: rest => do
    let x ← hexVal a
    let y ← hexVal b
    let r ← decodeHex rest
    pure ((x * 16 + y) :: r)
  | _ => none

def render : Option Dec → String
  | some d => "ok:" ++ showDec d
  | none => "err"

def classify (bs : List Nat) : String :=
  let has (p : Nat → Bool) := bs.any p
  (if has (fun b => b == 101 || b == 69) then "e" else "") ++ (if has (· == 46) then "." else "")
    ++ (if has (· == 95) then "_" else "") ++ (if has (fun b => b == 43 || b == 45) then "s" else "")
    ++ (if has (· ≥ 128) then "u" else "")

def handle (op : String) (args : List String) (impl : String) : Verdict :=
  match op, args with
  | o, [hex, radix] =>
    if o == "fromstr" || o == "radix" || o == "parsebytes" then
      match decodeHex hex.toList, parseNat? radix with
      | some bs, some r =>
        let m := if r == 10 then Parse.parseDec bs else none
        let s := if r == 10 then Spec.Numeral.specParse bs else none
        let mo := render m
        let so := render s
        { model := mo, mi := mo == impl, si := impl == so, sm := mo == so,
          tag := o ++ ":" ++ (if s.isSome then "accept" else "reject") ++ ":" ++ classify bs,
          trivial := bs.length < 2 }
      | _, _ => badInput "parse args"
    else badInput ("C05 op " ++ o)
  | _, _ => badInput ("C05 op " ++ op)

end BigDec.Driver.C05
