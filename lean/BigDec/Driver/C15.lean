import BigDec.Model.Convert
import BigDec.Spec.Exact
import BigDec.Driver.Proto
namespace BigDec.Driver.C15
open BigDec BigDec.Proto

def showOptInt : Option Int → String
  | some i => "some:" ++ showInt i
  | none => "none"

def judgeStr (model spec impl tag : String) (trivial : Bool := false) : Verdict :=
  { model := model, mi := model == impl, si := impl == spec, sm := model == spec, tag := tag, trivial := trivial }

def handle (op : String) (args : List String) (impl : String) : Verdict :=
  match op, args with
  | "conv", [which, a] =>
    match parseDec? a with
    | some a =>
      let near (bits : Nat) : String :=
        let t := Spec.truncInt a
        if t.natAbs + 3 ≥ 2 ^ (bits - 1) ∧ t.natAbs ≤ 2 ^ bits + 3 then ":near-limit" else ""
      let frac := if a.scale > 0 then ":frac" else if a.scale < 0 then ":negscale" else ":int"
      match which with
      | "to_i64" | "ref_to_i64" => judgeStr (showOptInt (a.toSigned 64)) (showOptInt (Spec.toSigned 64 a)) impl (which ++ frac ++ near 64)
      | "to_i128" | "ref_to_i128" => judgeStr (showOptInt (a.toSigned 128)) (showOptInt (Spec.toSigned 128 a)) impl (which ++ frac ++ near 128)
      | "to_u64" | "ref_to_u64" => judgeStr (showOptInt (a.toUnsigned 64)) (showOptInt (Spec.toUnsigned 64 a)) impl (which ++ frac ++ near 64)
      | "to_u128" | "ref_to_u128" => judgeStr (showOptInt (a.toUnsigned 128)) (showOptInt (Spec.toUnsigned 128 a)) impl (which ++ frac ++ near 128)
      | "to_bigint" => judgeStr (showInt a.toBigInt) (showInt (Spec.truncInt a)) impl (which ++ frac)
      | "is_integer" => judgeStr (toString a.isInteger) (toString (Spec.isInteger a)) impl (which ++ frac)
      | _ => badInput "conv which"
    | none => badInput "conv arg"
  | "from", [_ptype, v] =>
    match parseInt? v with
    | some i => judgeStr (showDec (Dec.ofInt i)) (showDec ⟨i, 0⟩) impl "from"
    | none => badInput "from arg"
  | _, _ => badInput ("C15 op " ++ op)

end BigDec.Driver.C15
