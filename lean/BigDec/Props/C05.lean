import BigDec.Model.Parse
import BigDec.Spec.Numeral
import BigDec.Proofs.Parse
/-! # C05 — parsing yields exactly the denoted number, rejects all else, never panics

`Parse.parseDec` models `from_str_radix` with the two parsers it delegates to; it is a total
function on byte strings (every slice index of the source is the position of an ASCII byte found
by `find`, modelled by structural splitting), which is the no-panic clause.
`Spec.Numeral.specParse` is the grammar-shaped specification. -/
namespace BigDec
open Parse

/-- any radix other than 10 is rejected -/
theorem C05_radix (s : List Nat) (r : Nat) (h : r ≠ 10) : parseDec s r = none := by
  simp [parseDec, h]

/-- an accepted numeral always has a scale inside the 64-bit range -/
theorem C05_scale_in_range (s : List Nat) (d : Dec) (h : parseDec s 10 = some d) :
    -(2 ^ 63 : Int) ≤ d.scale ∧ d.scale < 2 ^ 63 := by
  unfold parseDec at h
  simp only [ne_eq, not_true_eq_false, if_false] at h
  split at h
  · simp at h
  · split at h
    · simp at h
    · split at h
      · simp at h
      · unfold finish at h
        split at h
        · simp at h
        · rename_i hr
          simp only [Option.map_eq_some_iff] at h
          obtain ⟨i, _, hi⟩ := h
          rw [← hi]; simp only []; omega

/-- **Main theorem**: on every byte string the model of `from_str_radix(_, 10)` (exponent split,
    `i128` exponent parser, point split with sign rejection, checked scale subtraction, `BigInt`
    parser with its sign and underscore rules) accepts exactly the numerals of the grammar and
    returns exactly the denoted (digits, scale) pair; every other string is rejected. -/
theorem C05_parse_eq_spec (s : List Nat) : parseDec s 10 = Spec.Numeral.specParse s := by
  have hm : parseDec s 10 = (match splitExponent s with
      | none => none
      | some (base, exponent) => mantModel base exponent) := by
    unfold parseDec mantModel
    simp only [ne_eq, not_true_eq_false, if_false]
    rfl
  have hsp : Spec.Numeral.specParse s = (match Spec.Numeral.cut [101, 69] s with
      | (mant, expPart) =>
        match (match expPart with
          | none => some (0 : Int)
          | some e => Spec.Numeral.exponentValue e) with
        | none => none
        | some e => if e < -(2 ^ 127 : Int) ∨ e ≥ (2 ^ 127 : Int) then none else mantSpec mant e) := by
    rfl
  rw [hm, hsp, cut_eq_splitFirst]
  have hf : (fun b => ([101, 69] : List Nat).contains b) = (fun b => b == ce || b == cE) :=
    funext contains_eE
  rw [hf]
  unfold splitExponent
  cases hsplit : splitFirst (fun b => b == ce || b == cE) s with
  | none =>
    simp only
    have : ¬ ((0 : Int) < -(2 ^ 127 : Int) ∨ (0 : Int) ≥ (2 ^ 127 : Int)) := by omega
    rw [if_neg this]
    exact mant_eq s 0
  | some pr =>
    obtain ⟨b, ex⟩ := pr
    simp only
    rw [parseI128_eq]
    cases Spec.Numeral.exponentValue ex with
    | none => rfl
    | some v =>
      simp only [Option.bind_some]
      by_cases hr : -(2 ^ 127 : Int) ≤ v ∧ v < (2 ^ 127 : Int)
      · have : ¬ (v < -(2 ^ 127 : Int) ∨ v ≥ (2 ^ 127 : Int)) := by omega
        simp only [hr, and_self, if_true, this, if_false, Option.map_some]
        exact mant_eq b v
      · have : (v < -(2 ^ 127 : Int) ∨ v ≥ (2 ^ 127 : Int)) := by omega
        simp only [hr, if_false, this, if_true, Option.map_none]

/-- consequence: a rejected string is rejected by the grammar and vice versa; an accepted one
    carries the grammar's denotation -/
theorem C05_accepts_iff (s : List Nat) (d : Dec) :
    parseDec s 10 = some d ↔ Spec.Numeral.specParse s = some d := by
  rw [C05_parse_eq_spec]

/-- the empty string, a lone sign, a lone point and an exponent without digits are rejected -/
example : parseDec [] = none ∧ parseDec [43] = none ∧ parseDec [46] = none ∧ parseDec [49, 101] = none
    ∧ parseDec [46, 43, 53] = none ∧ parseDec [95, 49] = none := by decide

/-- accepted examples with their exact denotation: "-1_0.5e+3", ".5", "5." -/
example : parseDec [45, 49, 95, 48, 46, 53, 101, 43, 51] = some ⟨-105, -2⟩ ∧
    parseDec [46, 53] = some ⟨5, 1⟩ ∧ parseDec [53, 46] = some ⟨5, 0⟩ := by decide

/-- the grammar agrees on them -/
example : Spec.Numeral.specParse [45, 49, 95, 48, 46, 53, 101, 43, 51] = some ⟨-105, -2⟩ ∧
    Spec.Numeral.specParse [46, 43, 53] = none := by decide

end BigDec
