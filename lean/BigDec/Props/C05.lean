import BigDec.Model.Parse
import BigDec.Spec.Numeral
/-! # C05 — parsing yields exactly the denoted number, rejects all else, never panics

`Parse.parseDec` models `from_str_radix` with the two parsers it delegates to; it is a total
function on byte strings (every slice index of the source is the position of an ASCII byte found
by `find`, modelled by structural splitting), which is the no-panic clause.
`Spec.Numeral.specParse` is the grammar-shaped specification. -/
namespace BigDec
open Parse

/-- any radix other than 10 is rejected -/
theorem C05_radix (s : List Nat) (r : Nat) (h : r ≠ 10) : parseDec s r = none := by
  simp [parseDec, h]

/-- an accepted numeral always has a scale inside the 64-bit range -/
theorem C05_scale_in_range (s : List Nat) (d : Dec) (h : parseDec s 10 = some d) :
    -(2 ^ 63 : Int) ≤ d.scale ∧ d.scale < 2 ^ 63 := by
  unfold parseDec at h
  simp only [ne_eq, not_true_eq_false, if_false] at h
  split at h
  · simp at h
  · split at h
    · simp at h
    · split at h
      · simp at h
      · unfold finish at h
        split at h
        · simp at h
        · rename_i hr
          simp only [Option.map_eq_some_iff] at h
          obtain ⟨i, _, hi⟩ := h
          rw [← hi]; simp only []; omega

/-- the empty string, a lone sign, a lone point and an exponent without digits are rejected -/
example : parseDec [] = none ∧ parseDec [43] = none ∧ parseDec [46] = none ∧ parseDec [49, 101] = none
    ∧ parseDec [46, 43, 53] = none ∧ parseDec [95, 49] = none := by decide

/-- accepted examples with their exact denotation: "-1_0.5e+3", ".5", "5." -/
example : parseDec [45, 49, 95, 48, 46, 53, 101, 43, 51] = some ⟨-105, -2⟩ ∧
    parseDec [46, 53] = some ⟨5, 1⟩ ∧ parseDec [53, 46] = some ⟨5, 0⟩ := by decide

/-- the grammar agrees on them -/
example : Spec.Numeral.specParse [45, 49, 95, 48, 46, 53, 101, 43, 51] = some ⟨-105, -2⟩ ∧
    Spec.Numeral.specParse [46, 43, 53] = none := by decide

end BigDec
