import BigDec.Model.Hash
import BigDec.Proofs.EstCode
import BigDec.Proofs.Cmp
/-! # C03 — Hash agrees with equality -/
namespace BigDec

theorem digitsLE_mul_ten (n : Nat) (h : n ≠ 0) : digitsLE (n * 10) = 0 :: digitsLE n := by
  have hne : n * 10 ≠ 0 := by omega
  obtain ⟨m, hm⟩ : ∃ m, n * 10 = m + 1 := ⟨n * 10 - 1, by omega⟩
  rw [hm, digitsLE, ← hm]
  have h1 : n * 10 % 10 = 0 := by omega
  have h2 : n * 10 / 10 = n := by omega
  rw [h1, h2]

theorem dropZerosLE_zero (l : List Nat) : dropZerosLE l 0 = l := by
  cases l with
  | nil => rfl
  | cons a as => cases a <;> rfl

/-- one more trailing zero together with one more unit of scale leaves the hashed digits unchanged -/
theorem hashDigitsLE_step (i s : Int) (h : i ≠ 0) :
    hashDigitsLE ⟨i * 10, s + 1⟩ = hashDigitsLE ⟨i, s⟩ := by
  have hn : i.natAbs ≠ 0 := Int.natAbs_ne_zero.mpr h
  have hi10 : i * 10 ≠ 0 := by omega
  have hna : (i * 10).natAbs = i.natAbs * 10 := by rw [Int.natAbs_mul]; rfl
  unfold hashDigitsLE
  simp only []
  rw [if_neg hi10, if_neg h, hna, digitsLE_mul_ten _ hn]
  rcases lt_trichotomy s 0 with hs | hs | hs
  · rw [if_neg (show ¬ s > 0 by omega), if_pos hs, if_neg (show ¬ s + 1 > 0 by omega)]
    by_cases hs1 : s + 1 < 0
    · rw [if_pos hs1]
      have : (-s).toNat = (-(s + 1)).toNat + 1 := by omega
      rw [this, List.replicate_succ']
      simp
    · rw [if_neg hs1]
      have : (-s).toNat = 1 := by omega
      rw [this]; rfl
  · subst hs
    rw [if_pos (show (0:Int) + 1 > 0 by omega), if_neg (show ¬ (0:Int) > 0 by omega), if_neg (show ¬ (0:Int) < 0 by omega)]
    show dropZerosLE (0 :: digitsLE i.natAbs) 1 = _
    simp [dropZerosLE, dropZerosLE_zero]
  · rw [if_pos (show s + 1 > 0 by omega), if_pos (show s > 0 by omega)]
    have : (s + 1).toNat = s.toNat + 1 := by omega
    rw [this]; rfl

theorem hashDigitsLE_pow (i s : Int) (h : i ≠ 0) (k : Nat) :
    hashDigitsLE ⟨i * ((10 ^ k : Nat) : Int), s + k⟩ = hashDigitsLE ⟨i, s⟩ := by
  induction k with
  | zero => simp
  | succ k ih =>
    have e1 : i * ((10 ^ (k + 1) : Nat) : Int) = (i * ((10 ^ k : Nat) : Int)) * 10 := by push_cast; ring
    have e2 : s + ((k + 1 : Nat) : Int) = (s + k) + 1 := by push_cast; ring
    rw [e1, e2, hashDigitsLE_step _ _ (mul_ne_zero h (by positivity)), ih]

/-- **C03.** Decimals that denote the same number feed identical data to any hasher: the same
    sign character and the same digit string (then `str::hash` writes the same bytes). -/
theorem C03_hash_eq_of_value_eq (a b : Dec) (h : a.value = b.value) : hashData a = hashData b := by
  have hsg := sgnOrd_eq_of_value_eq a b h
  have key : ∀ (x y : Dec), y.scale ≤ x.scale → x.value = y.value → hashData x = hashData y := by
    intro x y hle hxy
    have hx := (value_eq_iff_ge x y hle).mp hxy
    by_cases hy0 : y.int = 0
    · have hx0 : x.int = 0 := by rw [hx, hy0]; simp
      simp [hashData, hashDigitsLE, hx0, hy0]
    · have hk : x.scale = y.scale + ((x.scale - y.scale).toNat : Int) := by omega
      have hd := hashDigitsLE_pow y.int y.scale hy0 (x.scale - y.scale).toNat
      have hxe : x = ⟨y.int * ((10 ^ (x.scale - y.scale).toNat : Nat) : Int), y.scale + ((x.scale - y.scale).toNat : Int)⟩ := by
        cases x; simp only [Dec.mk.injEq]; exact ⟨hx, hk⟩
      unfold hashData
      have hneg : (x.int < 0) ↔ (y.int < 0) := by
        rw [hx]
        have hP : (0:Int) < ((10 ^ (x.scale - y.scale).toNat : Nat) : Int) := by positivity
        constructor
        · intro hlt; by_contra hc
          have : 0 ≤ y.int * ((10 ^ (x.scale - y.scale).toNat : Nat) : Int) := Int.mul_nonneg (by omega) (le_of_lt hP)
          omega
        · intro hlt; exact Int.mul_neg_of_neg_of_pos hlt hP
      rw [Prod.mk.injEq]
      refine ⟨by simp [hneg], ?_⟩
      rw [hxe]; exact hd
  rcases le_total b.scale a.scale with hle | hle
  · exact key a b hle h
  · exact (key b a hle h.symm).symm

/-- zero hashes as "0" whatever its scale and construction sign -/
theorem C03_zero (s : Int) : hashData ⟨0, s⟩ = (false, [0]) := by
  simp [hashData, hashDigitsLE]

/-- corollary in terms of the library's own equality (C02): `a == b` implies equal hash input -/
theorem C03_hash_eq_of_eq {pre : Nat → Nat} (hp : PreOK pre) (a b : Dec) (ha : Small a) (hb : Small b)
    (h : eqDec pre a b = true) : hashData a = hashData b :=
  C03_hash_eq_of_value_eq a b ((eqDec_spec hp a b ha hb).mp h)

/-- the same with the code's own f64 estimate (no premise about floating point) -/
theorem C03_hash_eq_of_eq_code (a b : Dec) (ha : Small a) (hb : Small b)
    (h : eqDec F64.preCode a b = true) : hashData a = hashData b :=
  C03_hash_eq_of_eq preCode_PreOK a b ha hb h

/-- the model is total: every index / count it uses is a natural number by construction
    (`(-scale).toNat` zeros are appended only when `scale < 0`) -/
theorem C03_total (d : Dec) : (hashDigitsLE d).length ≥ 1 := by
  unfold hashDigitsLE
  split
  · simp
  · rename_i h0
    have hn : d.int.natAbs ≠ 0 := Int.natAbs_ne_zero.mpr h0
    have hl : 1 ≤ (digitsLE d.int.natAbs).length := by
      rw [digitsLE_length _ hn]; exact numDigits_pos _
    split
    · -- trimming keeps at least the non-zero leading digit
      have : ∀ (l : List Nat) (c : Nat), (∃ x ∈ l, x ≠ 0) → 1 ≤ (dropZerosLE l c).length := by
        intro l
        induction l with
        | nil => intro c ⟨x, hx, _⟩; simp at hx
        | cons a as ih =>
          intro c hex
          cases c with
          | zero => rw [dropZerosLE_zero]; simp
          | succ c =>
            cases a with
            | zero =>
              simp only [dropZerosLE]
              apply ih
              obtain ⟨x, hx, hx0⟩ := hex
              rcases List.mem_cons.mp hx with h | h
              · exact absurd h hx0
              · exact ⟨x, h, hx0⟩
            | succ a => simp [dropZerosLE]
      apply this
      by_contra hall
      push Not at hall
      have : ofDigitsLE (digitsLE d.int.natAbs) = 0 := by
        have : ∀ l : List Nat, (∀ x ∈ l, x = 0) → ofDigitsLE l = 0 := by
          intro l; induction l with
          | nil => intro _; rfl
          | cons a as ih => intro h; simp [ofDigitsLE, h a (by simp), ih (fun x hx => h x (by simp [hx]))]
        exact this _ hall
      rw [ofDigitsLE_digitsLE] at this
      exact hn this
    · split
      · simp; omega
      · exact hl

example : hashData ⟨100, 2⟩ = hashData ⟨1, 0⟩ ∧ hashData ⟨1, 0⟩ = hashData ⟨10, 1⟩ ∧ hashData ⟨1, -1⟩ = hashData ⟨10, 0⟩ := by
  refine ⟨?_, ?_, ?_⟩ <;> apply C03_hash_eq_of_value_eq <;> simp [Dec.value] <;> norm_num

end BigDec
