import BigDec.Model.Program
import BigDec.Props.C01
/-! # C19 — programs of exact operations give exact results whatever the intermediate forms -/
namespace BigDec

/-- the same program over the rationals -/
def stepQ (s : Step) (q : ℚ) : ℚ :=
  match s with
  | .bin op _ _ x true => specBinQ op q x.value
  | .bin op _ _ x false => specBinQ op x.value q
  | .neg => -q
  | .abs => |q|
  | .double => 2 * q
  | .half => q / 2
  | .square => q ^ 2
  | .cube => q ^ 3
  | .normalize => q
  | .cloneRef => q
  | .rescale _ => q
  | .sumWith xs _ => q + (xs.map Dec.value).sum

def runQ (prog : List Step) (q : ℚ) : ℚ := prog.foldl (fun acc s => stepQ s acc) q

/-- well-formedness: integer-typed operand positions hold scale-0 operands, the accumulator is
    always used in a decimal position -/
def Step.WF : Step → Prop
  | .bin _ lf rf x true => lf.isInt = false ∧ (rf.isInt = true → x.scale = 0)
  | .bin _ lf rf x false => rf.isInt = false ∧ (lf.isInt = true → x.scale = 0)
  | _ => True

theorem runStep_exact (s : Step) (acc r : Dec) (hwf : s.WF) (h : runStep s acc = some r) :
    r.value = stepQ s acc.value := by
  cases s with
  | bin op lf rf x left =>
    cases left with
    | true =>
      simp only [runStep] at h
      exact C01_exact op lf rf acc x r (by intro hi; rw [hwf.1] at hi; exact absurd hi (by decide)) hwf.2 h
    | false =>
      simp only [runStep] at h
      exact C01_exact op lf rf x acc r hwf.2 (by intro hi; rw [hwf.1] at hi; exact absurd hi (by decide)) h
  | neg => simp only [runStep, Option.some.injEq] at h; rw [← h]; exact Dec.value_neg acc
  | abs => simp only [runStep, Option.some.injEq] at h; rw [← h]; exact Dec.value_abs acc
  | double => simp only [runStep, Option.some.injEq] at h; rw [← h]; exact C01_double acc
  | half => simp only [runStep, Option.some.injEq] at h; rw [← h]; exact C01_half acc
  | square => simp only [runStep, Option.some.injEq] at h; rw [← h]; exact C01_square acc
  | cube => simp only [runStep, Option.some.injEq] at h; rw [← h]; exact C01_cube acc
  | normalize => simp only [runStep, Option.some.injEq] at h; rw [← h]; exact value_normalized acc
  | cloneRef => simp only [runStep, Option.some.injEq] at h; rw [← h]; rfl
  | rescale k =>
    simp only [runStep, Option.some.injEq] at h; rw [← h]
    exact Dec.value_withScale_up acc _ (by omega)
  | sumWith xs owned =>
    cases owned with
    | true =>
      simp only [runStep, Option.some.injEq] at h; rw [← h, C01_sum_owned]; simp [stepQ]
    | false =>
      simp only [runStep, Option.some.injEq] at h; rw [← h, C01_sum_refs]; simp [stepQ]

/-- **C19.** Any straight-line program of exact operations, with any mix of overloads, ends with
    exactly the value of the same program over ℚ.  The induction hypothesis speaks about the
    *value* of the accumulator only, so no later result can depend on how an intermediate was
    represented (its scale, trailing zeros, a zero carrying a scale, a one written 1.00). -/
theorem C19_run_exact (prog : List Step) (acc r : Dec) (hwf : ∀ s ∈ prog, s.WF)
    (h : run prog acc = some r) : r.value = runQ prog acc.value := by
  induction prog generalizing acc with
  | nil => simp only [run, Option.some.injEq] at h; rw [← h]; rfl
  | cons s rest ih =>
    simp only [run] at h
    cases hs : runStep s acc with
    | none => rw [hs] at h; simp at h
    | some a =>
      rw [hs] at h
      simp only [Option.bind_some] at h
      have h1 := runStep_exact s acc a (hwf s (by simp)) hs
      have h2 := ih a (fun t ht => hwf t (by simp [ht])) h
      rw [h2, h1]; rfl

/-- representation independence, stated outright: two accumulators denoting the same number
    lead to results denoting the same number, whatever their forms -/
theorem C19_representation_independent (prog : List Step) (a b ra rb : Dec)
    (hwf : ∀ s ∈ prog, s.WF) (hab : a.value = b.value)
    (ha : run prog a = some ra) (hb : run prog b = some rb) : ra.value = rb.value := by
  rw [C19_run_exact prog a ra hwf ha, C19_run_exact prog b rb hwf hb, hab]

/-- a well-formed program built from existing overloads never gets stuck -/
theorem C19_every_prefix (prog : List Step) (acc r : Dec) (h : run prog acc = some r) (k : Nat) :
    ∃ rk, run (prog.take k) acc = some rk := by
  induction prog generalizing acc k with
  | nil => exact ⟨acc, by simp [run]⟩
  | cons s rest ih =>
    cases k with
    | zero => exact ⟨acc, by simp [run]⟩
    | succ k =>
      simp only [run] at h
      cases hs : runStep s acc with
      | none => rw [hs] at h; simp at h
      | some a =>
        rw [hs] at h
        obtain ⟨rk, hrk⟩ := ih a h k
        exact ⟨rk, by simp [run, hs, hrk]⟩

/-- non-vacuity: a concrete mixed program runs in the model -/
example : run [.bin .add .D .RD ⟨5, 1⟩ true, .double, .bin .mul .P .D ⟨3, 0⟩ false, .neg] ⟨10, 1⟩
    = some ⟨-90, 1⟩ := by decide

end BigDec
