import BigDec.Model.Fmt
import BigDec.Model.Div
/-! # C20 (theorems under construction) -/
namespace BigDec
open Generated
/-- every implicit-default site references the generated constant, not a literal
    (`Generated.defaultSites` is re-extracted from the source on every run) -/
def siteOK (name value : String) : Bool :=
  match name with
  | "expTermPrecision" => value == "target_precision + 17 + precision"
  | "expTargetPrecision" | "contextDefaultPrecision" | "divPrecisionSites" => value == "DEFAULT_PRECISION"
  | "roundMode" => value == "Context::default().rounding_mode()"
  | "sqrtCtx" | "cbrtCtx" | "inverseCtx" => value == "Context::default()"
  | "displayNoPadLimit" => value == "EXPONENTIAL_FORMAT_TRAILING_ZERO_THRESHOLD"
  | "contextDefaultRounding" => value == "RoundingMode::default()"
  | "roundingModeDefault" => value == "DEFAULT_ROUNDING_MODE"
  | "displayThresholds" => value == "EXPONENTIAL_FORMAT_LEADING_ZERO_THRESHOLD,EXPONENTIAL_FORMAT_TRAILING_ZERO_THRESHOLD"
  | _ => false
/-- **every implicit-default site uses the generated constant** (a hard-coded 100, 20 or 117
    changes `Generated.defaultSites` and breaks this theorem) -/
theorem C20_default_sites_ok : defaultSites.all (fun p => siteOK p.1 p.2) = true := by decide

/-- the twelve sites the extractor looks at are all present -/
theorem C20_sites_present : defaultSites.length = 12 ∧ Generated.missing = [] := by decide

/-- in the model, the default-context entry points are the explicit ones at the configured values:
    division delivers `cfg.precision` digits … -/
theorem C20_div_uses_config (cfg : Config) (a b : Dec) (h1 : b.isZero = false)
    (h2 : (a.isZero || b.isOne) = false) (h3 : a.int ≠ b.int) :
    divDec cfg a b = some (implDivision a.int b.int (a.scale - b.scale) cfg.precision) := by
  simp [divDec, h1, h2, h3]

/-- … and Display switches notation exactly at the configured zero counts -/
theorem C20_display_switch (cfg : Config) (n : Nat) (scale : Int) :
    Fmt.chooseNotation cfg n scale none =
      (if cfg.lowThreshold < (if scale ≥ 0 ∧ scale.toNat ≥ (Fmt.natStr n).length then scale.toNat - (Fmt.natStr n).length else 0)
        then .exponential
       else if cfg.highThreshold < (if scale ≤ 0 then (-scale).toNat else 0) then .dotless else .full) := by
  simp [Fmt.chooseNotation]

/-- the integer zero-padding of default Display is governed by the configured threshold as well -/
theorem C20_no_pad_limit (cfg : Config) : noPadLimit cfg = cfg.highThreshold := rfl

end BigDec
