import BigDec.Proofs.Cmp
import BigDec.Proofs.EstCode
/-! # C02 — equality and ordering are those of the numeric values

`eqDec` / `cmpDec` model `check_equality_bigdecimal_ref` and `Ord for BigDecimalRef` with every
path of the source: sign cases, `checked_diff` (scale differences ≥ 2^63), the bit-length
prefilter (f64 product as the parameter `pre`), the u32-limb loop with its `u64` overflow checks
and allocating fall-back, the digit-wise path, the u64/u128 scalar fast paths, digit-count
comparison and the most-significant-first digit loop.  `Small d` = fewer than 2^40 bits (128 GiB).
The theorems are stated for every estimate `pre` satisfying the scalar condition `PreOK`, and
`C02_pre_code` proves that condition for the code's own f64 product (modelled through the rounding
primitive of C14), so the `…_code` corollaries carry no premise about floating point. -/
namespace BigDec

/-- **`==` (and `!=`) is equality of the denoted rationals**, however each side is represented -/
theorem C02_eq_iff {pre : Nat → Nat} (hp : PreOK pre) (l r : Dec) (hl : Small l) (hr : Small r) :
    eqDec pre l r = true ↔ l.value = r.value := eqDec_spec hp l r hl hr

/-- **`cmp` (hence `<`, `<=`, `max`, `min`, `sort`, which std derives from it) is the order of ℚ** -/
theorem C02_cmp_spec {pre : Nat → Nat} (hp : PreOK pre) (l r : Dec) (hl : Small l) (hr : Small r) :
    cmpDec pre l r = compare l.value r.value := cmpDec_spec hp l r hl hr

/-- `==` and `cmp` never disagree -/
theorem C02_eq_cmp_agree {pre : Nat → Nat} (hp : PreOK pre) (l r : Dec) (hl : Small l) (hr : Small r) :
    eqDec pre l r = true ↔ cmpDec pre l r = .eq := by
  rw [eqDec_spec hp l r hl hr, cmpDec_spec hp l r hl hr, compare_eq_iff_eq]

/-- antisymmetry: swapping the operands reverses the answer -/
theorem C02_antisymm {pre : Nat → Nat} (hp : PreOK pre) (l r : Dec) (hl : Small l) (hr : Small r) :
    cmpDec pre r l = Ordering.rev (cmpDec pre l r) := by
  rw [cmpDec_spec hp l r hl hr, cmpDec_spec hp r l hr hl]
  rcases lt_trichotomy l.value r.value with h | h | h
  · rw [compare_lt_iff_lt.mpr h, compare_gt_iff_gt.mpr h]; rfl
  · rw [h]; simp [Ordering.rev]
  · rw [compare_gt_iff_gt.mpr h, compare_lt_iff_lt.mpr h]; rfl

/-- transitivity (the order is total because `compare` on ℚ is) -/
theorem C02_trans {pre : Nat → Nat} (hp : PreOK pre) (a b c : Dec) (ha : Small a) (hb : Small b) (hc : Small c)
    (h1 : cmpDec pre a b ≠ .gt) (h2 : cmpDec pre b c ≠ .gt) : cmpDec pre a c ≠ .gt := by
  rw [cmpDec_spec hp _ _ ha hb] at h1
  rw [cmpDec_spec hp _ _ hb hc] at h2
  rw [cmpDec_spec hp _ _ ha hc]
  rw [ne_eq, compare_gt_iff_gt] at *
  exact not_lt.mpr (le_trans (not_lt.mp h1) (not_lt.mp h2))

/-- the real-valued prefilter `⌊log₂ 10^k⌋` satisfies the scalar condition `PreOK` -/
theorem C02_pre_real : PreOK (fun k => Nat.log 2 (10 ^ k)) := by
  intro k _
  exact le_trans (Nat.pow_le_pow_right (by norm_num) (Nat.sub_le _ _)) (Nat.pow_log_le_self 2 (by positivity))

/-- **the code's f64 product satisfies the scalar condition**: `(LOG2_10 * k as f64) as u64`, lowered
    by one as the code does, never exceeds `log2 10^k` for scale differences up to 2^40.  (Without the
    lowering it is false at k = 178 898 934 - defect F16, repaired in /repo.) -/
theorem C02_pre_code : PreOK F64.preCode := preCode_PreOK

/-- `==` with the code's own estimate is equality of values -/
theorem C02_eq_iff_code (l r : Dec) (hl : Small l) (hr : Small r) :
    eqDec F64.preCode l r = true ↔ l.value = r.value := eqDec_spec C02_pre_code l r hl hr

/-- `cmp` with the code's own estimate is the order of ℚ -/
theorem C02_cmp_spec_code (l r : Dec) (hl : Small l) (hr : Small r) :
    cmpDec F64.preCode l r = compare l.value r.value := cmpDec_spec C02_pre_code l r hl hr

/-- no unchecked machine arithmetic: whenever the limb loop keeps going, the product-plus-carry it
    computed fits a `u64` (the model bails out to the allocating comparison otherwise), so the
    answer cannot depend on overflow checks / build profile -/
theorem C02_limb_loop_guarded (pow a b carry : Nat) (as bs : List Nat) (r : Bool)
    (h : limbLoop pow (a :: as) (b :: bs) carry = .decided r) : b * pow + carry < 2 ^ 64 := by
  simp only [limbLoop] at h
  split at h
  · rename_i hfit; exact hfit.2
  · simp at h

/-- the fall-back after a bail-out is the exact comparison -/
theorem C02_eqScaled {pre : Nat → Nat} (hp : PreOK pre) (A B k : Nat) (hA : A ≠ 0) (hB : B ≠ 0)
    (hbits : bits A < 2 ^ 40) : eqScaled pre A B k = true ↔ A = B * 10 ^ k := eqScaled_spec hp A B k hA hB hbits

/-- the exact oracle of the correspondence check is the order of ℚ -/
theorem C02_oracle (x y : Dec) : Spec.valueCmp x y = compare x.value y.value := valueCmp_eq x y

/-- non-vacuity: `Small` holds for ordinary numbers; the regression pair of the carry defect -/
example : Small ⟨-7922816251677867879, 20⟩ := by
  constructor
  · unfold bits; simp; have : Nat.log2 7922816251677867879 < 64 := by
      rw [Nat.log2_lt (by norm_num)]; norm_num
    omega
  · have := numDigits_unique 7922816251677867879 19 (by norm_num) (by norm_num) (by norm_num)
    simp only [Int.natAbs_neg]; show numDigits 7922816251677867879 < _; rw [this]; norm_num

end BigDec
