import BigDec.Model.Inverse
import BigDec.Proofs.Arith
import BigDec.Proofs.InvAccuracy
import BigDec.Proofs.InvTerm
import BigDec.Proofs.InvGuess
import BigDec.Proofs.InvGuessBackup
import BigDec.Props.C14
import BigDec.Props.C06
import BigDec.Proofs.DisplayLen
import BigDec.Proofs.EstCode
/-! # C12 — reciprocal

Proved for all inputs: the Newton step is exact and squares the residual, the result carries the
sign of `x`, negation commutes with the operation under the mirrored mode, and - partial
correctness - whenever the loop stops, the `p+2`-digit iterate it returns agrees with `1/x` to a
relative error of `10^-(p+1)` (`C12_exit_accuracy`), the final result being the declarative rounding
(C07) of that iterate to `p` digits; the loop terminates within `p + 10` iterations
(`C12_loop_terminates`), and whatever is returned lies within strictly less than one unit of its last
digit of `1/x` (`C12_accuracy_on_termination`, `C12_inverse_total`) - for every `x`, `p`, mode and
every initial guess within 94% of `1/x` (the real f64 guess is handed over by a hook and the premise
is observed on every generated input).  Not a theorem: "exactly `1/x` whenever `1/x` has at most `p`
digits" - decided per generated input by the exact test of the correspondence run. -/
namespace BigDec

/-- one Newton step computes `r·(2 − x·r)` exactly (no rounding inside the step) -/
theorem C12_newton_step_exact (s r : Dec) : (invNext s r).value = r.value * (2 - s.value * r.value) := by
  unfold invNext
  rw [value_mulDD, value_subRDT, value_mulRDRD]
  simp [Dec.value]

/-- … hence the residual is squared: `1 − x·r' = (1 − x·r)²`, and `r' ≤ 1/x` for positive `x` -/
theorem C12_newton_residual (s r : Dec) :
    1 - s.value * (invNext s r).value = (1 - s.value * r.value) ^ 2 := by
  rw [C12_newton_step_exact]; ring

theorem C12_newton_below (s r : Dec) (hs : 0 < s.value) : (invNext s r).value ≤ 1 / s.value := by
  have h := C12_newton_residual s r
  have h2 : 0 ≤ (1 - s.value * r.value) ^ 2 := sq_nonneg _
  rw [le_div_iff₀ hs]
  nlinarith

/-- zero and one are returned unchanged -/
theorem C12_zero (est : Nat → Nat) (s : Int) (p : Nat) (m : Mode) (g : Dec) :
    (Dec.mk 0 s).inverseCtx est p m g = some ⟨0, s⟩ := by
  simp [Dec.inverseCtx, Dec.isZero]

theorem mirror_mirror (m : Mode) : m.mirror.mirror = m := by cases m <;> rfl

/-- **negation commutes with the reciprocal under the mirrored mode**: for `x > 0` (not one),
    `inverse(−x)` under `mirror m` is `−inverse(x)` under `m`; in particular Floor ↔ Ceiling, and
    the five symmetric modes give `inverse(−x) = −inverse(x)`. -/
theorem C12_neg_mirror (est : Nat → Nat) (d : Dec) (p : Nat) (m : Mode) (g : Dec)
    (hpos : 0 < d.int) (h1 : d.isOne = false) (h1' : d.neg.isOne = false) :
    d.neg.inverseCtx est p m.mirror g = (d.inverseCtx est p m g).map Dec.neg := by
  have hz : d.isZero = false := by simp [Dec.isZero]; omega
  have hzn : d.neg.isZero = false := by simp [Dec.isZero, Dec.neg]; omega
  have hneg : d.neg.int < 0 := by simp [Dec.neg]; omega
  unfold Dec.inverseCtx
  simp only [hz, h1, hzn, h1', Bool.or_self, Bool.false_eq_true, if_false]
  rw [if_pos hneg, if_neg (by omega : ¬ d.int < 0), mirror_mirror]
  simp only [hneg, if_true, Dec.neg, Int.natAbs_neg]
  have : ¬ d.int < 0 := by omega
  simp only [this, if_false]
  cases implInverse est d.int.natAbs d.scale p m g <;> simp [hpos, Dec.neg]

/-- the sign of the result is the sign of `x` (the magnitude result of the iteration is
    non-negative by `C12_result_nonneg`) -/
theorem C12_sign_copied (est : Nat → Nat) (d : Dec) (p : Nat) (m : Mode) (g : Dec) (r : Dec)
    (hneg : d.int < 0) (h1 : d.isOne = false)
    (h : d.inverseCtx est p m g = some r) :
    ∃ q, implInverse est d.int.natAbs d.scale p m.mirror g = some q ∧ r = q.neg := by
  have hz : d.isZero = false := by simp [Dec.isZero]; omega
  unfold Dec.inverseCtx at h
  simp only [hz, h1, Bool.or_self, Bool.false_eq_true, if_false, hneg, if_true] at h
  cases hq : implInverse est d.int.natAbs d.scale p m.mirror g with
  | none => rw [hq] at h; simp at h
  | some q => rw [hq] at h; simp at h; exact ⟨q, rfl, h.symm⟩

/-- **exit accuracy (partial correctness)**: if the initial guess is within 94% of `1/x`
    (`|1 − x·g| ≤ 94/100`; observed per input by the driver: the real guess is within 70% except for
    bit lengths that push it through f64 underflow, and never beyond 94%) and
    the loop stops - by a repeated iterate or by an alternation - then the `p+2`-digit iterate `R` it
    returns is positive and `|1 − x·R| ≤ 10^-(p+1)`: it agrees with `1/x` to `p+1` significant digits,
    for every `x > 0`, precision `p ≥ 1`, and every digit estimate satisfying `EstOK` (in particular the
    code's own, `estGuard`). -/
theorem C12_exit_accuracy {est : Nat → Nat} (hest : EstOK est) (n : Nat) (scale : Int) (p : Nat) (g : Dec)
    (fuel : Nat) (R : Dec) (hn : 0 < n) (hp : 1 ≤ p) (hg : 0 < g.value)
    (hguess : |1 - (Dec.mk n scale).value * g.value| ≤ 94 / 100)
    (h : invLoop est ⟨n, scale⟩ p fuel Dec.zero (invNext ⟨n, scale⟩ g) = some R) :
    0 < R.value ∧ |1 - (Dec.mk n scale).value * R.value| ≤ (10 : ℚ) ^ (-((p : Int) + 1)) := by
  have hs : 0 < (Dec.mk n scale).value := by
    rw [value_pos_iff]; simp; omega
  have hv := invNext_value ⟨n, scale⟩ g
  obtain ⟨g1, g2⟩ := abs_le.mp hguess
  have hrun : 0 < (invNext ⟨n, scale⟩ g).value := by
    rw [hv]; apply mul_pos hg; linarith
  have hres : |1 - (Dec.mk n scale).value * (invNext ⟨n, scale⟩ g).value| ≤ 9 / 10 := by
    rw [hv]
    have e : 1 - (Dec.mk n scale).value * (g.value * (2 - (Dec.mk n scale).value * g.value))
        = (1 - (Dec.mk n scale).value * g.value) ^ 2 := by ring
    rw [e, abs_of_nonneg (sq_nonneg _)]
    nlinarith
  have hzero : Dec.zero.value = 0 := by simp [Dec.zero, Dec.value]
  obtain ⟨r1, r2, _⟩ := invLoop_exit hest ⟨n, scale⟩ hs p hp fuel Dec.zero _ R hrun hres (Or.inl hzero) h
  refine ⟨r1, le_trans r2 (le_of_eq ?_)⟩
  unfold invRho
  have hextra : Generated.inverseExtraPrec = 2 := rfl
  rw [hextra]
  have : (1 : Int) - ((p + 2 : Nat) : Int) = -((p : Int) + 1) := by push_cast; ring
  rw [this]
  ring

/-- the same with the code's own f64 digit estimate (up to 2^40 bits) -/
theorem C12_exit_accuracy_code (n : Nat) (scale : Int) (p : Nat) (g : Dec)
    (fuel : Nat) (R : Dec) (hn : 0 < n) (hp : 1 ≤ p) (hg : 0 < g.value)
    (hguess : |1 - (Dec.mk n scale).value * g.value| ≤ 94 / 100)
    (h : invLoop estGuard ⟨n, scale⟩ p fuel Dec.zero (invNext ⟨n, scale⟩ g) = some R) :
    0 < R.value ∧ |1 - (Dec.mk n scale).value * R.value| ≤ (10 : ℚ) ^ (-((p : Int) + 1)) :=
  C12_exit_accuracy estGuard_ok n scale p g fuel R hn hp hg hguess h

/-- what `impl_inverse` returns: the loop's exit iterate, rounded to `p` digits by
    `with_precision_round` (= the declarative rounding, C07) when it has more than `p` digits -/
theorem C12_result_is_rounded_iterate (est : Nat → Nat) (n : Nat) (scale : Int) (p : Nat) (m : Mode) (g : Dec) (fuel : Nat) :
    implInverse est n scale p m g fuel =
      (invLoop est ⟨n, scale⟩ p fuel Dec.zero (invNext ⟨n, scale⟩ g)).bind
        (fun R => if R.digits > p then R.withPrecisionRound p m else some R) := by
  unfold implInverse
  simp only
  generalize invLoop est ⟨n, scale⟩ p fuel Dec.zero (invNext ⟨n, scale⟩ g) = o
  cases o <;> rfl

/-- **accuracy whenever it terminates** (the headline bound, partial correctness): for every `x > 0`,
    precision `p ≥ 1`, rounding mode, digit estimate satisfying `EstOK` and initial guess within 94% of
    `1/x`, whatever `impl_inverse` returns differs from `1/x` by strictly less than one unit of the
    result's last digit (which is the `p`-th significant digit, or finer when the rounding carried
    into a new leading digit).  Ingredients: the exit iterate is within `0.61` units of its own
    (`p+2`-th) digit of `1/x` (`exit_sharp`), and the final rounding to `p` digits moves it by at most
    `1 − 10^-k` units, `k ≥ 2` dropped digits. -/
theorem C12_accuracy_on_termination {est : Nat → Nat} (hest : EstOK est) (n : Nat) (scale : Int) (p : Nat) (m : Mode)
    (g : Dec) (fuel : Nat) (res : Dec) (hn : 0 < n) (hp : 1 ≤ p) (hg : 0 < g.value)
    (hguess : |1 - (Dec.mk n scale).value * g.value| ≤ 94 / 100)
    (h : implInverse est n scale p m g fuel = some res) :
    |res.value - 1 / (Dec.mk n scale).value| < (10 : ℚ) ^ (-res.scale) := by
  rw [C12_result_is_rounded_iterate] at h
  cases hloop : invLoop est ⟨n, scale⟩ p fuel Dec.zero (invNext ⟨n, scale⟩ g) with
  | none => rw [hloop] at h; simp at h
  | some R =>
    rw [hloop] at h
    simp only [Option.bind_some] at h
    have hs : 0 < (Dec.mk n scale).value := by
      rw [value_pos_iff]; simp; omega
    -- the exit iterate
    have hv := invNext_value ⟨n, scale⟩ g
    obtain ⟨g1, g2⟩ := abs_le.mp hguess
    have hrun : 0 < (invNext ⟨n, scale⟩ g).value := by
      rw [hv]; apply mul_pos hg; linarith
    have hres : |1 - (Dec.mk n scale).value * (invNext ⟨n, scale⟩ g).value| ≤ 9 / 10 := by
      rw [hv]
      have e : 1 - (Dec.mk n scale).value * (g.value * (2 - (Dec.mk n scale).value * g.value))
          = (1 - (Dec.mk n scale).value * g.value) ^ 2 := by ring
      rw [e, abs_of_nonneg (sq_nonneg _)]
      nlinarith
    have hzero : Dec.zero.value = 0 := by simp [Dec.zero, Dec.value]
    obtain ⟨r1, r2, b, hb, heb, hRb⟩ := invLoop_exit hest ⟨n, scale⟩ hs p hp fuel Dec.zero _ R hrun hres (Or.inl hzero) hloop
    have hsharp := exit_sharp hest ⟨n, scale⟩ hs p hp b hb heb (by rw [← hRb]; exact r2)
    rw [← hRb] at hsharp
    -- digits of the exit iterate
    have hextra : Generated.inverseExtraPrec = 2 := rfl
    have hRint : 0 < R.int := (value_pos_iff R).mp r1
    have hdv := invNext_value ⟨n, scale⟩ b
    obtain ⟨e1, e2⟩ := abs_le.mp heb
    obtain ⟨hρ0, hρ⟩ := invRho_small p hp
    have hdpos : 0 < (invNext ⟨n, scale⟩ b).value := by rw [hdv]; apply mul_pos hb; linarith
    have hlow := withPrec_int_lower hest (invNext ⟨n, scale⟩ b) (p + Generated.inverseExtraPrec) (by omega) ((value_pos_iff _).mp hdpos)
    rw [← hRb] at hlow
    have hnd : p + 2 ≤ numDigits R.int.natAbs := by
      have h1 : 10 ^ (p + 2 - 1) ≤ R.int.natAbs := by
        rw [hextra] at hlow
        have : (R.int.natAbs : Int) = R.int := by omega
        have h2 : ((10 ^ (p + 2 - 1) : Nat) : Int) ≤ (R.int.natAbs : Int) := by rw [this]; exact_mod_cast hlow
        exact_mod_cast h2
      have := numDigits_mono h1
      rw [numDigits_pow] at this
      omega
    -- the final rounding
    have hdig : R.digits > p := by unfold Dec.digits; omega
    rw [if_pos hdig] at h
    have hspec := withPrecisionRound_spec R p m res h
    obtain ⟨hsc, herr⟩ := roundToPrec_abs_error R p m hRint (by omega)
    rw [← hspec] at hsc herr
    obtain ⟨k, hk⟩ : ∃ k : Nat, numDigits R.int.natAbs - p = k ∧ 2 ≤ k := ⟨numDigits R.int.natAbs - p, rfl, by omega⟩
    rw [hk.1] at hsc herr
    -- 10^(-R.scale) = 10^-k · 10^(-res.scale)
    have hu : (0 : ℚ) < (10 : ℚ) ^ (-res.scale) := zpow_pos (by norm_num) _
    have hRs : (10 : ℚ) ^ (-R.scale) = (10 : ℚ) ^ (-(k : Int)) * (10 : ℚ) ^ (-res.scale) := by
      rw [← zpow_add₀ (by norm_num : (10 : ℚ) ≠ 0)]; congr 1; rw [hsc]; ring
    rw [hRs] at hsharp
    have hkpos : (0 : ℚ) < (10 : ℚ) ^ (-(k : Int)) := zpow_pos (by norm_num) _
    -- triangle
    have htri : |res.value - 1 / (Dec.mk n scale).value| ≤ |res.value - R.value| + |R.value - 1 / (Dec.mk n scale).value| := by
      have := abs_add_le (res.value - R.value) (R.value - 1 / (Dec.mk n scale).value)
      have e : res.value - R.value + (R.value - 1 / (Dec.mk n scale).value) = res.value - 1 / (Dec.mk n scale).value := by ring
      rw [e] at this; exact this
    have hfin : (1 - (10 : ℚ) ^ (-(k : Int))) * (10 : ℚ) ^ (-res.scale) + 61 / 100 * ((10 : ℚ) ^ (-(k : Int)) * (10 : ℚ) ^ (-res.scale))
        < (10 : ℚ) ^ (-res.scale) := by
      have : (1 - (10 : ℚ) ^ (-(k : Int))) * (10 : ℚ) ^ (-res.scale) + 61 / 100 * ((10 : ℚ) ^ (-(k : Int)) * (10 : ℚ) ^ (-res.scale))
          = (10 : ℚ) ^ (-res.scale) - 39 / 100 * ((10 : ℚ) ^ (-(k : Int)) * (10 : ℚ) ^ (-res.scale)) := by ring
      rw [this]
      have : 0 < 39 / 100 * ((10 : ℚ) ^ (-(k : Int)) * (10 : ℚ) ^ (-res.scale)) := by positivity
      linarith
    linarith

/-- the same for the code's own f64 digit estimate (up to 2^40 bits) -/
theorem C12_accuracy_on_termination_code (n : Nat) (scale : Int) (p : Nat) (m : Mode)
    (g : Dec) (fuel : Nat) (res : Dec) (hn : 0 < n) (hp : 1 ≤ p) (hg : 0 < g.value)
    (hguess : |1 - (Dec.mk n scale).value * g.value| ≤ 94 / 100)
    (h : implInverse estGuard n scale p m g fuel = some res) :
    |res.value - 1 / (Dec.mk n scale).value| < (10 : ℚ) ^ (-res.scale) :=
  C12_accuracy_on_termination estGuard_ok n scale p m g fuel res hn hp hg hguess h

/-- **exact whenever `1/x` has at most `p` significant digits** (`1/x = Y·10^-t` with `0 < Y < 10^p`):
    the exit iterate, being within 0.61 units of its last digit of a number on its own grid, IS `1/x`,
    and the final rounding to `p` digits leaves a `p`-digit value unchanged - so whatever
    `impl_inverse` returns equals `1/x` exactly, under every mode. -/
theorem C12_exact_when_short {est : Nat → Nat} (hest : EstOK est) (n : Nat) (scale : Int) (p : Nat) (m : Mode)
    (g : Dec) (fuel : Nat) (res : Dec) (hn : 0 < n) (hp : 1 ≤ p) (hg : 0 < g.value)
    (hguess : |1 - (Dec.mk n scale).value * g.value| ≤ 94 / 100)
    (Y : Nat) (t : Int) (hY0 : 0 < Y) (hYp : Y < 10 ^ p)
    (hshort : 1 / (Dec.mk n scale).value = (Y : ℚ) * (10 : ℚ) ^ (-t))
    (h : implInverse est n scale p m g fuel = some res) :
    res.value = 1 / (Dec.mk n scale).value := by
  rw [C12_result_is_rounded_iterate] at h
  cases hloop : invLoop est ⟨n, scale⟩ p fuel Dec.zero (invNext ⟨n, scale⟩ g) with
  | none => rw [hloop] at h; simp at h
  | some R =>
    rw [hloop] at h
    simp only [Option.bind_some] at h
    have hs : 0 < (Dec.mk n scale).value := by
      rw [value_pos_iff]; simp; omega
    have hv := invNext_value ⟨n, scale⟩ g
    obtain ⟨g1, g2⟩ := abs_le.mp hguess
    have hrun : 0 < (invNext ⟨n, scale⟩ g).value := by
      rw [hv]; apply mul_pos hg; linarith
    have hres : |1 - (Dec.mk n scale).value * (invNext ⟨n, scale⟩ g).value| ≤ 9 / 10 := by
      rw [hv]
      have e : 1 - (Dec.mk n scale).value * (g.value * (2 - (Dec.mk n scale).value * g.value))
          = (1 - (Dec.mk n scale).value * g.value) ^ 2 := by ring
      rw [e, abs_of_nonneg (sq_nonneg _)]
      nlinarith
    have hzero : Dec.zero.value = 0 := by simp [Dec.zero, Dec.value]
    obtain ⟨r1, r2, b, hb, heb, hRb⟩ := invLoop_exit hest ⟨n, scale⟩ hs p hp fuel Dec.zero _ R hrun hres (Or.inl hzero) hloop
    have hsharp := exit_sharp hest ⟨n, scale⟩ hs p hp b hb heb (by rw [← hRb]; exact r2)
    rw [← hRb, hshort] at hsharp
    have hextra : Generated.inverseExtraPrec = 2 := rfl
    have hRint : 0 < R.int := (value_pos_iff R).mp r1
    have hdv := invNext_value ⟨n, scale⟩ b
    obtain ⟨e1, e2⟩ := abs_le.mp heb
    obtain ⟨hρ0, hρ⟩ := invRho_small p hp
    have hdpos : 0 < (invNext ⟨n, scale⟩ b).value := by rw [hdv]; apply mul_pos hb; linarith
    have hlow := withPrec_int_lower hest (invNext ⟨n, scale⟩ b) (p + Generated.inverseExtraPrec) (by omega) ((value_pos_iff _).mp hdpos)
    rw [← hRb, hextra] at hlow
    have hlowN : 10 ^ (p + 1) ≤ R.int.natAbs := by
      have : (R.int.natAbs : Int) = R.int := by omega
      have h2 : ((10 ^ (p + 2 - 1) : Nat) : Int) ≤ (R.int.natAbs : Int) := by rw [this]; exact_mod_cast hlow
      have h3 : 10 ^ (p + 2 - 1) ≤ R.int.natAbs := by exact_mod_cast h2
      simpa using h3
    -- in units of R's last digit: |R.int − Y·10^(R.scale − t)| ≤ 0.61
    have hU : (0 : ℚ) < (10 : ℚ) ^ (-R.scale) := zpow_pos (by norm_num) _
    have hRnat : (R.int : ℚ) = (R.int.natAbs : ℚ) := by
      rw [← Int.cast_natCast, Int.natAbs_of_nonneg (by omega)]
    have hunits : |(R.int.natAbs : ℚ) - (Y : ℚ) * (10 : ℚ) ^ (R.scale - t)| ≤ 61 / 100 := by
      have e : R.value - (Y : ℚ) * (10 : ℚ) ^ (-t) = ((R.int.natAbs : ℚ) - (Y : ℚ) * (10 : ℚ) ^ (R.scale - t)) * (10 : ℚ) ^ (-R.scale) := by
        unfold Dec.value
        rw [hRnat, sub_mul, mul_assoc, ← zpow_add₀ (by norm_num : (10 : ℚ) ≠ 0)]
        congr 3; ring
      rw [e, abs_mul, abs_of_pos hU] at hsharp
      exact le_of_mul_le_mul_right hsharp hU
    -- R.scale > t
    have hsc : t < R.scale := by
      by_contra hcon
      push Not at hcon
      have hle : (10 : ℚ) ^ (R.scale - t) ≤ 1 := zpow_le_one_of_nonpos₀ (by norm_num) (by omega)
      have hYq : (Y : ℚ) < (10 : ℚ) ^ p := by exact_mod_cast hYp
      have hRq : (10 : ℚ) ^ (p + 1) ≤ (R.int.natAbs : ℚ) := by exact_mod_cast hlowN
      have hY0q : (0 : ℚ) ≤ (Y : ℚ) := Nat.cast_nonneg _
      have h1 : (Y : ℚ) * (10 : ℚ) ^ (R.scale - t) ≤ (10 : ℚ) ^ p := by
        calc (Y : ℚ) * (10 : ℚ) ^ (R.scale - t) ≤ (Y : ℚ) * 1 := mul_le_mul_of_nonneg_left hle hY0q
          _ ≤ (10 : ℚ) ^ p := by linarith
      have h2 : (10 : ℚ) ^ (p + 1) = 10 * (10 : ℚ) ^ p := by rw [pow_succ]; ring
      have h3 : (1 : ℚ) ≤ (10 : ℚ) ^ p := one_le_pow₀ (by norm_num)
      have := (abs_le.mp hunits).2
      linarith
    obtain ⟨j, hj⟩ : ∃ j : Nat, R.scale - t = j ∧ 1 ≤ j := ⟨(R.scale - t).toNat, by omega, by omega⟩
    rw [hj.1, zpow_natCast] at hunits
    -- integers within 0.61 of each other are equal
    have hRY : R.int.natAbs = Y * 10 ^ j := by
      have hcast : ((R.int.natAbs : ℚ) - (Y : ℚ) * (10 : ℚ) ^ j) = (((R.int.natAbs : Int) - ((Y * 10 ^ j : Nat) : Int) : Int) : ℚ) := by
        simp only [Int.cast_sub, Int.cast_natCast, Nat.cast_mul, Nat.cast_pow, Nat.cast_ofNat, Int.cast_mul, Int.cast_pow, Int.cast_ofNat]
      rw [hcast] at hunits
      have hlt : |(((R.int.natAbs : Int) - ((Y * 10 ^ j : Nat) : Int) : Int) : ℚ)| < 1 := by linarith
      rw [← Int.cast_abs] at hlt
      have : |(R.int.natAbs : Int) - ((Y * 10 ^ j : Nat) : Int)| < 1 := by exact_mod_cast hlt
      have := abs_lt.mp this
      omega
    -- R = 1/x
    have hRval : R.value = (Y : ℚ) * (10 : ℚ) ^ (-t) := by
      unfold Dec.value
      rw [hRnat, hRY]
      push_cast
      rw [mul_assoc, ← zpow_natCast, ← zpow_add₀ (by norm_num : (10 : ℚ) ≠ 0)]
      congr 2; omega
    -- the final rounding drops only zeros
    have hndY : numDigits Y ≤ p := numDigits_le_of_lt_pow Y p hp hYp
    have hndR : numDigits R.int.natAbs = numDigits Y + j := by rw [hRY, numDigits_mul_pow Y j (by omega)]
    have hnd : p + 2 ≤ numDigits R.int.natAbs := by
      have := numDigits_mono hlowN
      rw [numDigits_pow] at this; omega
    have hdig : R.digits > p := by unfold Dec.digits; omega
    rw [if_pos hdig] at h
    have hspec := withPrecisionRound_spec R p m res h
    unfold Spec.roundToPrec at hspec
    rw [Spec.numDigits_eq_model, ← C06_withScaleRound] at hspec
    obtain ⟨k, hk⟩ : ∃ k : Nat, numDigits R.int.natAbs - p = k ∧ 2 ≤ k ∧ k ≤ j := ⟨numDigits R.int.natAbs - p, rfl, by omega, by omega⟩
    have hns : R.scale + ((p : Int) - (numDigits R.int.natAbs : Int)) = R.scale - k := by omega
    rw [hns] at hspec
    have hkk : (R.scale - (R.scale - (k : Int))).toNat = k := by omega
    have hrep : R.int.natAbs % 10 ^ (R.scale - (R.scale - (k : Int))).toNat = 0 := by
      rw [hkk, hRY]
      obtain ⟨i, hi⟩ : ∃ i, j = k + i := ⟨j - k, by omega⟩
      rw [hi]
      exact Nat.mod_eq_zero_of_dvd (Dvd.intro (Y * 10 ^ i) (by rw [pow_add]; ring))
    have hrepr := C06_representable R (R.scale - k) m (by omega) hrep
    rw [hkk] at hrepr
    have hscale := C06_scale R (R.scale - k) m
    rw [← hspec] at hrepr hscale
    -- value of res = value of R
    rw [hshort, ← hRval]
    unfold Dec.value
    rw [hscale, ← hrepr]
    push_cast
    rw [mul_assoc, ← zpow_natCast, ← zpow_add₀ (by norm_num : (10 : ℚ) ≠ 0)]
    congr 2; ring

/-- **the iteration terminates**: for every `x > 0`, precision `p ≥ 1`, digit estimate satisfying
    `EstOK` and initial guess within 94% of `1/x`, the loop stops within `p + 10` iterations
    (five to bring the residual below 1/10, `p + 2` more to bring it below one unit of the last
    digit, three to repeat or alternate: from then on every rounded Newton step takes one of at
    most two values, `close_values_two_set`).  The model's default fuel of 400 therefore suffices
    for every `p ≤ 390`. -/
theorem C12_loop_terminates {est : Nat → Nat} (hest : EstOK est) (n : Nat) (scale : Int) (p : Nat) (g : Dec)
    (fuel : Nat) (hn : 0 < n) (hp : 1 ≤ p) (hg : 0 < g.value)
    (hguess : |1 - (Dec.mk n scale).value * g.value| ≤ 94 / 100) (hfuel : p + 10 ≤ fuel) :
    ∃ R, invLoop est ⟨n, scale⟩ p fuel Dec.zero (invNext ⟨n, scale⟩ g) = some R := by
  have hs : 0 < (Dec.mk n scale).value := by
    rw [value_pos_iff]; simp; omega
  obtain ⟨u, v, huv⟩ := close_values_two_set hest ⟨n, scale⟩ hs p hp
  have hv := invNext_value ⟨n, scale⟩ g
  obtain ⟨g1, g2⟩ := abs_le.mp hguess
  have hrun : 0 < (invNext ⟨n, scale⟩ g).value := by
    rw [hv]; apply mul_pos hg; linarith
  have hres : |1 - (Dec.mk n scale).value * (invNext ⟨n, scale⟩ g).value| ≤ invC1 5 := by
    rw [hv]
    have e : 1 - (Dec.mk n scale).value * (g.value * (2 - (Dec.mk n scale).value * g.value))
        = (1 - (Dec.mk n scale).value * g.value) ^ 2 := by ring
    rw [e, abs_of_nonneg (sq_nonneg _)]
    show _ ≤ (9 / 10 : ℚ)
    nlinarith
  have hextra : Generated.inverseExtraPrec = 2 := rfl
  have := phase1 hest ⟨n, scale⟩ hs p hp u v huv 5 (le_refl _) fuel Dec.zero _ (by rw [hextra]; omega) hrun hres
  exact Option.isSome_iff_exists.mp this

/-- **`inverse` is total and accurate** (for guesses within 94%, fuel `≥ p + 10`): the loop returns
    an iterate `R`; the result is `R` rounded to `p` digits by `with_precision_round` (which refuses
    only a precision or scale outside the 64-bit range); and whatever is returned lies within
    strictly less than one unit of its last digit of `1/x`. -/
theorem C12_inverse_total {est : Nat → Nat} (hest : EstOK est) (n : Nat) (scale : Int) (p : Nat) (m : Mode) (g : Dec)
    (fuel : Nat) (hn : 0 < n) (hp : 1 ≤ p) (hg : 0 < g.value)
    (hguess : |1 - (Dec.mk n scale).value * g.value| ≤ 94 / 100) (hfuel : p + 10 ≤ fuel) :
    ∃ R, invLoop est ⟨n, scale⟩ p fuel Dec.zero (invNext ⟨n, scale⟩ g) = some R ∧
      implInverse est n scale p m g fuel = R.withPrecisionRound p m ∧
      ∀ res, implInverse est n scale p m g fuel = some res →
        |res.value - 1 / (Dec.mk n scale).value| < (10 : ℚ) ^ (-res.scale) := by
  obtain ⟨R, hR⟩ := C12_loop_terminates hest n scale p g fuel hn hp hg hguess hfuel
  refine ⟨R, hR, ?_, fun res h => C12_accuracy_on_termination hest n scale p m g fuel res hn hp hg hguess h⟩
  rw [C12_result_is_rounded_iterate, hR]
  simp only [Option.bind_some]
  -- the exit iterate has p + 2 > p digits
  have hs : 0 < (Dec.mk n scale).value := by
    rw [value_pos_iff]; simp; omega
  have hv := invNext_value ⟨n, scale⟩ g
  obtain ⟨g1, g2⟩ := abs_le.mp hguess
  have hrun : 0 < (invNext ⟨n, scale⟩ g).value := by
    rw [hv]; apply mul_pos hg; linarith
  have hres : |1 - (Dec.mk n scale).value * (invNext ⟨n, scale⟩ g).value| ≤ 9 / 10 := by
    rw [hv]
    have e : 1 - (Dec.mk n scale).value * (g.value * (2 - (Dec.mk n scale).value * g.value))
        = (1 - (Dec.mk n scale).value * g.value) ^ 2 := by ring
    rw [e, abs_of_nonneg (sq_nonneg _)]
    nlinarith
  have hzero : Dec.zero.value = 0 := by simp [Dec.zero, Dec.value]
  obtain ⟨r1, r2, b, hb, heb, hRb⟩ := invLoop_exit hest ⟨n, scale⟩ hs p hp fuel Dec.zero _ R hrun hres (Or.inl hzero) hR
  have hextra : Generated.inverseExtraPrec = 2 := rfl
  have hdv := invNext_value ⟨n, scale⟩ b
  obtain ⟨e1, e2⟩ := abs_le.mp heb
  obtain ⟨hρ0, hρ⟩ := invRho_small p hp
  have hdpos : 0 < (invNext ⟨n, scale⟩ b).value := by rw [hdv]; apply mul_pos hb; linarith
  have hlow := withPrec_int_lower hest (invNext ⟨n, scale⟩ b) (p + Generated.inverseExtraPrec) (by omega) ((value_pos_iff _).mp hdpos)
  rw [← hRb] at hlow
  have hRint : 0 < R.int := (value_pos_iff R).mp r1
  have hnd : p + 2 ≤ numDigits R.int.natAbs := by
    have h1 : 10 ^ (p + 2 - 1) ≤ R.int.natAbs := by
      rw [hextra] at hlow
      have : (R.int.natAbs : Int) = R.int := by omega
      have h2 : ((10 ^ (p + 2 - 1) : Nat) : Int) ≤ (R.int.natAbs : Int) := by rw [this]; exact_mod_cast hlow
      exact_mod_cast h2
    have := numDigits_mono h1
    rw [numDigits_pow] at this
    omega
  have hdig : R.digits > p := by unfold Dec.digits; omega
  rw [if_pos hdig]

/-- the two formalisations of a non-negative finite double agree: `floatValQ` (C14, from-float) and
    `F64.valQ` (C14, to_f64 / estimates) -/
theorem floatValQ_eq_valQ (bits : Nat) (h : bits < F64.inf) : floatValQ 11 52 bits = F64.valQ bits := by
  unfold F64.inf at h
  have hdm := Nat.div_add_mod bits (2 ^ 52)
  have hF : bits % 2 ^ 52 < 2 ^ 52 := Nat.mod_lt _ (by positivity)
  have hE : bits / 2 ^ 52 < 2047 := by rw [Nat.div_lt_iff_lt_mul (by positivity)]; omega
  have hs : bits / 2 ^ (52 + 11) % 2 = 0 := by
    rw [Nat.div_eq_of_lt (by omega)]
  have hexp : bits / 2 ^ 52 % 2 ^ 11 = bits / 2 ^ 52 := Nat.mod_eq_of_lt (by omega)
  have hbias : ((2 ^ (11 - 1) - 1 : Nat) : Int) = 1023 := by norm_num
  unfold floatValQ
  simp only [hs, hexp, hbias]
  have hne : ¬ ((0 : Nat) = 1) := by omega
  rw [if_neg hne, one_mul]
  by_cases he : bits / 2 ^ 52 = 0
  · rw [if_pos he]
    have hbF : bits % 2 ^ 52 = bits := by omega
    rw [hbF, F64.val_subnormal bits (by omega)]
    rw [show (1 : Int) - 1023 - ((52 : Nat) : Int) = -((1074 : Nat) : Int) by norm_num, zpow_neg, zpow_natCast, div_eq_mul_inv]
  · rw [if_neg he]
    have hv := F64.val_normal (bits / 2 ^ 52) (bits % 2 ^ 52) (by omega) (by omega) hF
    have hb : bits / 2 ^ 52 * 2 ^ 52 + bits % 2 ^ 52 = bits := by rw [Nat.mul_comm]; exact hdm
    rw [hb] at hv
    rw [hv]
    have e1 : (((bits / 2 ^ 52 : Nat) : Int)) - 1023 - ((52 : Nat) : Int) = ((bits / 2 ^ 52 : Nat) : Int) - 1075 := by push_cast; ring
    rw [e1, one_mul, Nat.add_comm]

/-- **the premise holds for the code's own guess** (main path): for every magnitude `n` of at most
    1074 bits (324 digits) the model of `make_inv_guess` - `LN_2 * exp2(-bits)` in f64, converted
    exactly - returns a positive decimal within 94% of `1/x`; the driver compares that model with the
    guess the real code hands over on every such input -/
theorem C12_guess_premise (n : Nat) (scale : Int) (hn : 0 < n) (hb : n.log2 + 1 ≤ 1074) :
    ∃ g, invGuessMain (n.log2 + 1) scale = some g ∧ 0 < g.value ∧
      |1 - (Dec.mk n scale).value * g.value| ≤ 94 / 100 := by
  obtain ⟨hne, hlo, hhi⟩ := invGuessF64_bounds (n.log2 + 1) hb
  have hvL1 : (693 / 1000 : ℚ) ≤ F64.valQ ln2Bits := by rw [valQ_ln2]; norm_num
  have hvL2 : F64.valQ ln2Bits ≤ 6932 / 10000 := by rw [valQ_ln2]; norm_num
  have h2b : (0 : ℚ) < (2 : ℚ) ^ (-((n.log2 + 1 : Nat) : Int)) := zpow_pos (by norm_num) _
  have hvpos : 0 < F64.valQ (invGuessF64 (n.log2 + 1)) := by
    have : 0 < F64.valQ ln2Bits * (2 : ℚ) ^ (-((n.log2 + 1 : Nat) : Int)) := mul_pos (by linarith) h2b
    linarith
  have hne0 : invGuessF64 (n.log2 + 1) ≠ 0 := by
    intro h0; rw [h0, F64.valQ_zero] at hvpos; exact lt_irrefl _ hvpos
  -- the bit pattern is finite and non-negative
  have hlt : invGuessF64 (n.log2 + 1) < F64.inf := by
    have hmul : invGuessF64 (n.log2 + 1) = F64.rne (6243314768165359 * (F64.val (exp2NegBits (n.log2 + 1))).1) (2 ^ 53 * (F64.val (exp2NegBits (n.log2 + 1))).2) := by
      have hlne : (ln2Bits == F64.inf) = false := by decide
      have hxne' : (exp2NegBits (n.log2 + 1) == F64.inf) = false := by simpa using exp2Neg_ne_inf (n.log2 + 1)
      unfold invGuessF64 F64.mul
      simp only [hlne, hxne', Bool.or_self, Bool.false_eq_true, if_false, val_ln2]
    have hcpos : 0 < (F64.val (exp2NegBits (n.log2 + 1))).1 := by
      by_contra h0
      have h0' : (F64.val (exp2NegBits (n.log2 + 1))).1 = 0 := by omega
      have : F64.valQ (exp2NegBits (n.log2 + 1)) = 0 := by unfold F64.valQ; rw [h0']; simp
      rw [valQ_exp2Neg _ hb] at this; linarith
    rw [hmul] at hne ⊢
    exact rne_lt_inf _ _ (Nat.mul_pos (by norm_num) hcpos) (Nat.mul_pos (by positivity) (F64.val_den_pos _)) hne
  have hfin : (invGuessF64 (n.log2 + 1) / 2 ^ 52) % 2 ^ 11 ≠ 2 ^ 11 - 1 := by
    unfold F64.inf at hlt
    have h1 : invGuessF64 (n.log2 + 1) / 2 ^ 52 < 2047 := by
      rw [Nat.div_lt_iff_lt_mul (by positivity)]; omega
    rw [Nat.mod_eq_of_lt (by omega)]; omega
  obtain ⟨d, hd1, hd2⟩ := C14_ofF64_exact _ hfin
  rw [floatValQ_eq_valQ _ hlt] at hd2
  refine ⟨⟨d.int, d.scale - scale⟩, ?_, ?_, ?_⟩
  · unfold invGuessMain
    rw [if_pos ⟨hb, hne0, hne⟩, hd1]; rfl
  · have : (Dec.mk d.int (d.scale - scale)).value = d.value * (10 : ℚ) ^ scale := by
      unfold Dec.value
      simp only
      rw [show -(d.scale - scale) = -d.scale + scale by ring, zpow_add₀ (by norm_num : (10 : ℚ) ≠ 0)]; ring
    rw [this, hd2]
    exact mul_pos hvpos (zpow_pos (by norm_num) _)
  · have hg : (Dec.mk d.int (d.scale - scale)).value = d.value * (10 : ℚ) ^ scale := by
      unfold Dec.value
      simp only
      rw [show -(d.scale - scale) = -d.scale + scale by ring, zpow_add₀ (by norm_num : (10 : ℚ) ≠ 0)]; ring
    have hx : (Dec.mk n scale).value * (Dec.mk d.int (d.scale - scale)).value = (n : ℚ) * F64.valQ (invGuessF64 (n.log2 + 1)) := by
      rw [hg, hd2]
      unfold Dec.value
      simp only
      have : (10 : ℚ) ^ (-scale) * (10 : ℚ) ^ scale = 1 := by
        rw [← zpow_add₀ (by norm_num : (10 : ℚ) ≠ 0)]; simp
      push_cast
      calc (n : ℚ) * (10 : ℚ) ^ (-scale) * (F64.valQ (invGuessF64 (n.log2 + 1)) * (10 : ℚ) ^ scale)
          = (n : ℚ) * F64.valQ (invGuessF64 (n.log2 + 1)) * ((10 : ℚ) ^ (-scale) * (10 : ℚ) ^ scale) := by ring
        _ = (n : ℚ) * F64.valQ (invGuessF64 (n.log2 + 1)) := by rw [this, mul_one]
    rw [hx]
    -- 2^(b-1) ≤ n < 2^b
    obtain ⟨l1, l2⟩ := F64.log2_bounds n hn
    have hn1 : (2 : ℚ) ^ (n.log2 : Int) ≤ (n : ℚ) := by rw [zpow_natCast]; exact_mod_cast l1
    have hn2 : (n : ℚ) < (2 : ℚ) ^ ((n.log2 + 1 : Nat) : Int) := by rw [zpow_natCast]; exact_mod_cast l2
    have hpow1 : (2 : ℚ) ^ (n.log2 : Int) * (2 : ℚ) ^ (-((n.log2 + 1 : Nat) : Int)) = 1 / 2 := by
      rw [← zpow_add₀ (by norm_num : (2 : ℚ) ≠ 0)]
      have : (n.log2 : Int) + -((n.log2 + 1 : Nat) : Int) = -1 := by push_cast; ring
      rw [this]; norm_num
    have hpow2 : (2 : ℚ) ^ ((n.log2 + 1 : Nat) : Int) * (2 : ℚ) ^ (-((n.log2 + 1 : Nat) : Int)) = 1 := by
      rw [← zpow_add₀ (by norm_num : (2 : ℚ) ≠ 0)]; simp
    generalize F64.valQ (invGuessF64 (n.log2 + 1)) = v at hlo hhi hvpos ⊢
    generalize (2 : ℚ) ^ (-((n.log2 + 1 : Nat) : Int)) = w at hlo hhi h2b hpow1 hpow2
    generalize (2 : ℚ) ^ (n.log2 : Int) = A at hn1 hpow1
    generalize (2 : ℚ) ^ ((n.log2 + 1 : Nat) : Int) = B at hn2 hpow2
    generalize F64.valQ ln2Bits = L at hlo hhi hvL1 hvL2
    have hnpos : (0 : ℚ) < (n : ℚ) := by exact_mod_cast hn
    -- n v ≥ A · 0.27 L w = 0.135 L ≥ 0.0935 ;  n v < B · 1.73 L w = 1.73 L ≤ 1.2
    have hlow : 93 / 1000 ≤ (n : ℚ) * v := by
      have h1 : A * (27 / 100 * (L * w)) ≤ (n : ℚ) * v := by
        have hLw : 0 ≤ 27 / 100 * (L * w) := by positivity
        calc A * (27 / 100 * (L * w)) ≤ (n : ℚ) * (27 / 100 * (L * w)) := mul_le_mul_of_nonneg_right hn1 hLw
          _ ≤ (n : ℚ) * v := mul_le_mul_of_nonneg_left hlo hnpos.le
      have h2 : A * (27 / 100 * (L * w)) = 27 / 100 * L * (A * w) := by ring
      rw [h2, hpow1] at h1
      nlinarith
    have hup : (n : ℚ) * v ≤ 12 / 10 := by
      have h1 : (n : ℚ) * v ≤ B * (173 / 100 * (L * w)) := by
        have hLw : 0 ≤ 173 / 100 * (L * w) := by positivity
        calc (n : ℚ) * v ≤ (n : ℚ) * (173 / 100 * (L * w)) := mul_le_mul_of_nonneg_left hhi hnpos.le
          _ ≤ B * (173 / 100 * (L * w)) := mul_le_mul_of_nonneg_right hn2.le hLw
      have h2 : B * (173 / 100 * (L * w)) = 173 / 100 * L * (B * w) := by ring
      rw [h2, hpow2] at h1
      nlinarith
    rw [abs_le]; constructor <;> linarith

/-- **`inverse` without a premise about the guess** (magnitudes of at most 1074 bits): with the
    modelled guess, the iteration terminates within `p + 10` steps and whatever is returned is within
    strictly less than one unit of its last digit of `1/x` -/
theorem C12_inverse_total_main_path {est : Nat → Nat} (hest : EstOK est) (n : Nat) (scale : Int) (p : Nat) (m : Mode)
    (fuel : Nat) (hn : 0 < n) (hb : n.log2 + 1 ≤ 1074) (hp : 1 ≤ p) (hfuel : p + 10 ≤ fuel) :
    ∃ g R, invGuessMain (n.log2 + 1) scale = some g ∧
      invLoop est ⟨n, scale⟩ p fuel Dec.zero (invNext ⟨n, scale⟩ g) = some R ∧
      implInverse est n scale p m g fuel = R.withPrecisionRound p m ∧
      ∀ res, implInverse est n scale p m g fuel = some res →
        |res.value - 1 / (Dec.mk n scale).value| < (10 : ℚ) ^ (-res.scale) := by
  obtain ⟨g, hg1, hg2, hg3⟩ := C12_guess_premise n scale hn hb
  obtain ⟨R, hR1, hR2, hR3⟩ := C12_inverse_total hest n scale p m g fuel hn hp hg2 hg3 hfuel
  exact ⟨g, R, hg1, hR1, hR2, hR3⟩


/-- pure arithmetic for the back-up guess: `r ∈ [1/2, 1)`, `W` within 2% of `L ∈ [0.693, 0.6932]`,
    `E ∈ [0.993, 1.008]` -/
theorem guess_product_bound (r W E L : ℝ) (hr1 : 1 / 2 ≤ r) (hr2 : r < 1) (hL1 : 693 / 1000 ≤ L) (hL2 : L ≤ 6932 / 10000)
    (hW1 : 98 / 100 * L ≤ W) (hW2 : W ≤ 102 / 100 * L) (e1 : 993 / 1000 ≤ E) (e2 : E ≤ 1008 / 1000) :
    |1 - r * W * E| ≤ 94 / 100 := by
  have hWlo : 679 / 1000 ≤ W := by linarith
  have hWhi : W ≤ 7071 / 10000 := by linarith
  have hrW1 : 339 / 1000 ≤ r * W := by nlinarith
  have hrW2 : r * W ≤ 7071 / 10000 := by nlinarith
  have hP1 : 336 / 1000 ≤ r * W * E := by nlinarith
  have hP2 : r * W * E ≤ 713 / 1000 := by nlinarith
  rw [abs_le]; constructor <;> linarith

/-- the fractional part `approx_scale - approx_scale_int` handed to `exp10` -/
def backupFrac (b : Nat) : ℚ := ((backupSplit b).2.1 : ℚ) / ((backupSplit b).2.2 : ℚ)

/-- **the premise holds on the back-up path too** (magnitudes of 1075 to 2^32 bits), up to its float
    kernel: if the f32 factor `(LN_2 * exp10(-frac)) as f32` handed to `from_f32` is finite, positive
    and within 2% of `ln2 · 10^-frac` (libm's `exp10`, one f64 product and the cast are accurate to a few
    units of 10^-8), then the guess - that f32 read exactly, `scale += trunc(bits·LOG10_2)`,
    `scale -= scale` - is a positive decimal within 94% of `1/x`.  What is proved is the bookkeeping the
    code does around the float kernel: the f64 product `bits · LOG10_2` (two roundings), the integer /
    fraction split, and that `10^-(int+frac)` is `2^-bits` up to 0.7% for every such bit length
    (`backupApprox_log`: `log10 2` between its convergents, from two kernel-evaluated power inequalities). -/
theorem C12_backup_guess_premise (n : Nat) (scale : Int) (hn : 0 < n) (hb2 : n.log2 + 1 ≤ 2 ^ 32) (v32 : Nat)
    (hfin : (v32 / 2 ^ 23) % 2 ^ 8 ≠ 2 ^ 8 - 1)
    (hv : |((floatValQ 8 23 v32 : ℚ) : ℝ) -
        ((F64.valQ ln2Bits : ℚ) : ℝ) * Real.exp (-((backupFrac (n.log2 + 1) : ℚ) : ℝ) * Real.log 10)| ≤
      1 / 50 * (((F64.valQ ln2Bits : ℚ) : ℝ) * Real.exp (-((backupFrac (n.log2 + 1) : ℚ) : ℝ) * Real.log 10))) :
    ∃ g, invGuessBackup (n.log2 + 1) scale v32 = some g ∧ 0 < g.value ∧
      |1 - (Dec.mk n scale).value * g.value| ≤ 94 / 100 := by
  obtain ⟨d, hd1, hd2⟩ := C14_ofF32_exact v32 hfin
  obtain ⟨b, hbdef⟩ : ∃ b, b = n.log2 + 1 := ⟨_, rfl⟩
  rw [← hbdef] at hv hb2 ⊢
  have hb1 : 1 ≤ b := by omega
  obtain ⟨I, hI⟩ : ∃ I : Nat, I = (backupSplit b).1 := ⟨_, rfl⟩
  refine ⟨⟨d.int, d.scale + (I : Int) - scale⟩, ?_, ?_, ?_⟩
  · unfold invGuessBackup
    rw [hd1, hI]; rfl
  all_goals
    -- the value algebra: x · g = n · V · 10^-I
    have hg : (Dec.mk d.int (d.scale + (I : Int) - scale)).value = d.value * (10 : ℚ) ^ (-(I : Int)) * (10 : ℚ) ^ scale := by
      unfold Dec.value
      simp only
      rw [show -(d.scale + (I : Int) - scale) = -d.scale + (-(I : Int)) + scale by ring,
        zpow_add₀ (by norm_num : (10 : ℚ) ≠ 0), zpow_add₀ (by norm_num : (10 : ℚ) ≠ 0)]; ring
    -- reals
    obtain ⟨L, hL⟩ : ∃ L : ℝ, L = ((F64.valQ ln2Bits : ℚ) : ℝ) := ⟨_, rfl⟩
    have hL1 : (693 / 1000 : ℝ) ≤ L := by rw [hL, valQ_ln2]; push_cast; norm_num
    have hL2 : L ≤ 6932 / 10000 := by rw [hL, valQ_ln2]; push_cast; norm_num
    obtain ⟨f, hf⟩ : ∃ f : ℝ, f = ((backupFrac b : ℚ) : ℝ) := ⟨_, rfl⟩
    rw [← hL, ← hf] at hv
    obtain ⟨V, hV⟩ : ∃ V : ℝ, V = ((d.value : ℚ) : ℝ) := ⟨_, rfl⟩
    rw [← hd2, ← hV] at hv
    have hEpos : 0 < Real.exp (-f * Real.log 10) := Real.exp_pos _
    have hv' := abs_le.mp hv
    have hVpos : 0 < V := by nlinarith [mul_pos (by linarith : (0 : ℝ) < L) hEpos]
  · rw [hg]
    have : 0 < d.value := by
      have : (0 : ℝ) < ((d.value : ℚ) : ℝ) := by rw [← hV]; exact hVpos
      exact_mod_cast this
    exact mul_pos (mul_pos this (zpow_pos (by norm_num) _)) (zpow_pos (by norm_num) _)
  · have hx : (Dec.mk n scale).value * (Dec.mk d.int (d.scale + (I : Int) - scale)).value =
        (n : ℚ) * d.value * (10 : ℚ) ^ (-(I : Int)) := by
      rw [hg]
      unfold Dec.value
      simp only
      have : (10 : ℚ) ^ (-scale) * (10 : ℚ) ^ scale = 1 := by
        rw [← zpow_add₀ (by norm_num : (10 : ℚ) ≠ 0)]; simp
      push_cast
      calc (n : ℚ) * (10 : ℚ) ^ (-scale) * ((d.int : ℚ) * (10 : ℚ) ^ (-d.scale) * (10 : ℚ) ^ (-(I : Int)) * (10 : ℚ) ^ scale)
          = (n : ℚ) * ((d.int : ℚ) * (10 : ℚ) ^ (-d.scale)) * (10 : ℚ) ^ (-(I : Int)) * ((10 : ℚ) ^ (-scale) * (10 : ℚ) ^ scale) := by ring
        _ = _ := by rw [this, mul_one]
    rw [hx]
    -- the integer and fractional parts recombine to the f64 product
    have hden := F64.val_den_pos (backupApprox b)
    have hA : ((F64.valQ (backupApprox b) : ℚ) : ℝ) = (I : ℝ) + f := by
      rw [hf, hI]
      unfold backupFrac backupSplit F64.valQ
      simp only
      have hdm := Nat.div_add_mod (F64.val (backupApprox b)).1 (F64.val (backupApprox b)).2
      have hdq : ((F64.val (backupApprox b)).2 : ℚ) ≠ 0 := by exact_mod_cast (by omega : (F64.val (backupApprox b)).2 ≠ 0)
      have hcast : ((F64.val (backupApprox b)).1 : ℚ) =
          ((F64.val (backupApprox b)).2 : ℚ) * (((F64.val (backupApprox b)).1 / (F64.val (backupApprox b)).2 : Nat) : ℚ) +
          (((F64.val (backupApprox b)).1 % (F64.val (backupApprox b)).2 : Nat) : ℚ) := by exact_mod_cast hdm.symm
      have : ((F64.val (backupApprox b)).1 : ℚ) / ((F64.val (backupApprox b)).2 : ℚ) =
          (((F64.val (backupApprox b)).1 / (F64.val (backupApprox b)).2 : Nat) : ℚ) +
          (((F64.val (backupApprox b)).1 % (F64.val (backupApprox b)).2 : Nat) : ℚ) / ((F64.val (backupApprox b)).2 : ℚ) := by
        conv_lhs => rw [hcast]
        field_simp
      rw [this]; push_cast; ring
    have hlog := backupApprox_log b hb1 hb2
    rw [hA] at hlog
    -- 10^-I as an exponential
    have h10I : (((10 : ℚ) ^ (-(I : Int)) : ℚ) : ℝ) = Real.exp (-(I : ℝ) * Real.log 10) := by
      push_cast
      rw [zpow_neg, zpow_natCast, neg_mul, Real.exp_neg, Real.exp_nat_mul, Real.exp_log (by norm_num)]
    -- 2^b as an exponential
    have h2b : ((2 : ℝ)) ^ b = Real.exp ((b : ℝ) * Real.log 2) := by
      rw [Real.exp_nat_mul, Real.exp_log (by norm_num)]
    obtain ⟨t, ht⟩ : ∃ t : ℝ, t = (b : ℝ) * Real.log 2 - ((I : ℝ) + f) * Real.log 10 := ⟨_, rfl⟩
    have htabs : |t| ≤ 7 / 1000 := by rw [ht, abs_sub_comm]; exact hlog
    obtain ⟨e1, e2⟩ := exp_small t htabs
    -- E_f · 10^-I = exp t / 2^b
    have hcomb : Real.exp (-f * Real.log 10) * Real.exp (-(I : ℝ) * Real.log 10) = Real.exp t / (2 : ℝ) ^ b := by
      rw [h2b, ← Real.exp_add, ← Real.exp_sub, ht]; congr 1; ring
    -- n / 2^b ∈ [1/2, 1)
    obtain ⟨l1, l2⟩ := F64.log2_bounds n hn
    have hn1 : (2 : ℝ) ^ b ≤ 2 * (n : ℝ) := by
      have : 2 ^ b ≤ 2 * n := by rw [hbdef, pow_succ]; omega
      exact_mod_cast this
    have hn2 : (n : ℝ) < (2 : ℝ) ^ b := by
      have : n < 2 ^ b := by rw [hbdef]; exact l2
      exact_mod_cast this
    have h2bpos : (0 : ℝ) < (2 : ℝ) ^ b := by positivity
    -- assemble in ℝ
    have hreal : |1 - (n : ℝ) * V * Real.exp (-(I : ℝ) * Real.log 10)| ≤ 94 / 100 := by
      obtain ⟨r, hr⟩ : ∃ r : ℝ, r = (n : ℝ) / (2 : ℝ) ^ b := ⟨_, rfl⟩
      have hr1 : 1 / 2 ≤ r := by rw [hr, le_div_iff₀ h2bpos]; linarith
      have hr2 : r < 1 := by rw [hr, div_lt_one h2bpos]; exact hn2
      obtain ⟨W, hW⟩ : ∃ W : ℝ, W = V / Real.exp (-f * Real.log 10) := ⟨_, rfl⟩
      have hW1 : 98 / 100 * L ≤ W := by
        rw [hW, le_div_iff₀ hEpos]; nlinarith
      have hW2 : W ≤ 102 / 100 * L := by
        rw [hW, div_le_iff₀ hEpos]; nlinarith
      have hprod : (n : ℝ) * V * Real.exp (-(I : ℝ) * Real.log 10) = r * W * Real.exp t := by
        have : V = W * Real.exp (-f * Real.log 10) := by rw [hW]; field_simp
        rw [this, mul_assoc (n : ℝ), mul_assoc W, hcomb, hr]
        field_simp
      rw [hprod]
      exact guess_product_bound r W (Real.exp t) L hr1 hr2 hL1 hL2 hW1 hW2 e1 e2
    have hcast : ((|1 - (n : ℚ) * d.value * (10 : ℚ) ^ (-(I : Int))| : ℚ) : ℝ) =
        |1 - (n : ℝ) * V * Real.exp (-(I : ℝ) * Real.log 10)| := by
      rw [← h10I, hV]; push_cast; rfl
    have : ((|1 - (n : ℚ) * d.value * (10 : ℚ) ^ (-(I : Int))| : ℚ) : ℝ) ≤ ((94 / 100 : ℚ) : ℝ) := by
      rw [hcast]; push_cast; exact hreal
    exact_mod_cast this


/-- **`inverse` on the back-up path** (magnitudes of 1075 to 2^32 bits): with the modelled guess - under the
    one assumption on the float kernel stated in `C12_backup_guess_premise` - the iteration terminates
    within `p + 10` steps and whatever is returned is within strictly less than one unit of its last
    digit of `1/x` -/
theorem C12_inverse_total_backup_path {est : Nat → Nat} (hest : EstOK est) (n : Nat) (scale : Int) (p : Nat) (m : Mode)
    (fuel : Nat) (hn : 0 < n) (hb2 : n.log2 + 1 ≤ 2 ^ 32) (hp : 1 ≤ p) (hfuel : p + 10 ≤ fuel) (v32 : Nat)
    (hfin : (v32 / 2 ^ 23) % 2 ^ 8 ≠ 2 ^ 8 - 1)
    (hv : |((floatValQ 8 23 v32 : ℚ) : ℝ) -
        ((F64.valQ ln2Bits : ℚ) : ℝ) * Real.exp (-((backupFrac (n.log2 + 1) : ℚ) : ℝ) * Real.log 10)| ≤
      1 / 50 * (((F64.valQ ln2Bits : ℚ) : ℝ) * Real.exp (-((backupFrac (n.log2 + 1) : ℚ) : ℝ) * Real.log 10))) :
    ∃ g R, invGuessBackup (n.log2 + 1) scale v32 = some g ∧
      invLoop est ⟨n, scale⟩ p fuel Dec.zero (invNext ⟨n, scale⟩ g) = some R ∧
      implInverse est n scale p m g fuel = R.withPrecisionRound p m ∧
      ∀ res, implInverse est n scale p m g fuel = some res →
        |res.value - 1 / (Dec.mk n scale).value| < (10 : ℚ) ^ (-res.scale) := by
  obtain ⟨g, hg1, hg2, hg3⟩ := C12_backup_guess_premise n scale hn hb2 v32 hfin hv
  obtain ⟨R, hR1, hR2, hR3⟩ := C12_inverse_total hest n scale p m g fuel hn hp hg2 hg3 hfuel
  exact ⟨g, R, hg1, hR1, hR2, hR3⟩


/-- non-vacuity: `1/7` at 100 digits under HalfEven with the driver's fuel - the hypotheses of
    `C12_inverse_total_main_path` are met (no premise about the guess is left) -/
example : ∃ g R, invGuessMain ((7 : Nat).log2 + 1) 0 = some g ∧
      invLoop estGuard ⟨7, 0⟩ 100 400 Dec.zero (invNext ⟨7, 0⟩ g) = some R ∧
      implInverse estGuard 7 0 100 .HalfEven g 400 = R.withPrecisionRound 100 .HalfEven ∧
      ∀ res, implInverse estGuard 7 0 100 .HalfEven g 400 = some res →
        |res.value - 1 / (Dec.mk 7 0).value| < (10 : ℚ) ^ (-res.scale) :=
  C12_inverse_total_main_path estGuard_ok 7 0 100 .HalfEven 400 (by decide) (by decide) (by decide) (by decide)

end BigDec
