import BigDec.Model.Float
import BigDec.Spec.Float
import BigDec.Proofs.Value
import BigDec.Model.ToF64
import BigDec.Proofs.F64Round
import BigDec.Proofs.F64Powi
import BigDec.Proofs.F64Parse
import BigDec.Proofs.F64Digits
import BigDec.Proofs.F64Full
/-! # C14 — binary floats convert to decimals exactly -/
namespace BigDec
open Generated

/-- the multi-limb constants of the subnormal routines are the powers of five they claim to be
    (kernel evaluation on the limbs regenerated from the source) -/
theorem C14_five149 : ofLimbs32 five149Limbs = 5 ^ 149 := by decide
theorem C14_five1074 : ofLimbs32 five1074Limbs = 5 ^ 1074 := by decide +kernel

/-- the rational value of a finite IEEE-754 bit pattern: `(-1)^s · m · 2^e` -/
def floatValQ (ebits fbits : Nat) (bits : Nat) : ℚ :=
  let fraction := bits % 2 ^ fbits
  let expo := (bits / 2 ^ fbits) % 2 ^ ebits
  let sgn : ℚ := if (bits / 2 ^ (fbits + ebits)) % 2 = 1 then -1 else 1
  let bias : Int := ((2 ^ (ebits - 1) - 1 : Nat) : Int)
  if expo = 0 then sgn * fraction * (2:ℚ) ^ (1 - bias - fbits)
  else sgn * (fraction + 2 ^ fbits : Nat) * (2:ℚ) ^ ((expo : Int) - bias - fbits)

theorem trailingZeroBits_dvd (fuel f : Nat) : 2 ^ trailingZeroBits fuel f ∣ f := by
  induction fuel generalizing f with
  | zero => simp [trailingZeroBits]
  | succ n ih =>
    unfold trailingZeroBits
    split
    · rename_i h
      obtain ⟨k, hk⟩ := ih (f / 2)
      refine ⟨k, ?_⟩
      rw [pow_succ]
      have : f = 2 * (f / 2) := by omega
      calc f = 2 * (f / 2) := this
        _ = 2 * (2 ^ trailingZeroBits n (f / 2) * k) := by rw [← hk]
        _ = 2 ^ trailingZeroBits n (f / 2) * 2 * k := by ring
    · simp

/-- `m · 5^k · 10^-k = m · 2^-k` -/
theorem five_ten_two (m k : Nat) : ((m * 5 ^ k : Nat) : ℚ) * (10:ℚ) ^ (-(k:Int)) = (m : ℚ) * (2:ℚ) ^ (-(k:Int)) := by
  push_cast
  rw [zpow_neg, zpow_neg, zpow_natCast, zpow_natCast]
  have h10 : (10:ℚ) ^ k = 2 ^ k * 5 ^ k := by rw [← mul_pow]; norm_num
  rw [h10]
  field_simp

theorem value_mk_sgn (sgn : Int) (n : Nat) (sc : Int) :
    (Dec.mk (sgn * (n : Int)) sc).value = (sgn : ℚ) * ((n : ℚ) * (10:ℚ) ^ (-sc)) := by
  simp only [Dec.value]; push_cast; ring

/-- **every finite bit pattern converts to exactly the binary value it holds**
    (normal, subnormal, ±0), NaN and infinities are errors — generic in the format, instantiated
    for f32 and f64 below -/
theorem parseFromFloat_exact (ebits fbits five : Nat) (hfive : five = 5 ^ (2 ^ (ebits - 1) - 2 + fbits))
    (he : 2 ≤ ebits) (bits : Nat) :
    ((bits / 2 ^ fbits) % 2 ^ ebits = 2 ^ ebits - 1 → parseFromFloat ebits fbits five bits = none) ∧
    ((bits / 2 ^ fbits) % 2 ^ ebits ≠ 2 ^ ebits - 1 →
      ∃ d, parseFromFloat ebits fbits five bits = some d ∧ d.value = floatValQ ebits fbits bits) := by
  constructor
  · intro h; simp [parseFromFloat, h]
  · intro h
    unfold parseFromFloat floatValQ
    simp only [h, if_false]
    generalize hfr : bits % 2 ^ fbits = fraction
    generalize hex : (bits / 2 ^ fbits) % 2 ^ ebits = expo
    have hb : 1 ≤ 2 ^ (ebits - 1) - 1 := by
      have : 2 ^ 1 ≤ 2 ^ (ebits - 1) := Nat.pow_le_pow_right (by norm_num) (by omega)
      omega
    -- the sign as an integer and as a rational
    have hsgn : (((if (bits / 2 ^ (fbits + ebits)) % 2 = 1 then (-1:Int) else 1) : Int) : ℚ)
        = (if (bits / 2 ^ (fbits + ebits)) % 2 = 1 then (-1:ℚ) else 1) := by split <;> simp
    generalize (if (bits / 2 ^ (fbits + ebits)) % 2 = 1 then (-1:Int) else 1) = sgnI at hsgn
    generalize (if (bits / 2 ^ (fbits + ebits)) % 2 = 1 then (-1:ℚ) else 1) = sgnQ at hsgn
    by_cases h0 : expo = 0
    · simp only [h0, if_true]
      by_cases hf : fraction = 0
      · refine ⟨⟨0, 0⟩, by rw [if_pos hf], ?_⟩
        simp [Dec.value, hf]
      · refine ⟨_, by rw [if_neg hf], ?_⟩
        rw [value_mk_sgn, hsgn, hfive]
        have hK : (1:Int) - ((2 ^ (ebits - 1) - 1 : Nat) : Int) - (fbits:Int) = -(((2 ^ (ebits - 1) - 2 + fbits : Nat)) : Int) := by
          push_cast; omega
        rw [hK, five_ten_two]; ring
    · simp only [h0, if_false]
      set frac := fraction + 2 ^ fbits with hfrac
      set pow : Int := (expo : Int) - ((2 ^ (ebits - 1) - 1 : Nat) : Int) - (fbits : Int) with hpow
      by_cases hp0 : pow = 0
      · refine ⟨_, by rw [if_pos hp0], ?_⟩
        rw [value_mk_sgn, hsgn, hp0]; simp
      · by_cases hpn : pow < 0
        · refine ⟨_, by rw [if_neg hp0, if_pos hpn], ?_⟩
          set k := (-pow).toNat with hk
          set tz := min (trailingZeroBits (fbits + 1) frac) k with htz
          have htzk : tz ≤ k := Nat.min_le_right _ _
          have hdvd : 2 ^ tz ∣ frac :=
            Nat.dvd_trans (Nat.pow_dvd_pow 2 (Nat.min_le_left _ _)) (trailingZeroBits_dvd _ _)
          obtain ⟨rf, hrf⟩ := hdvd
          have hdiv : frac / 2 ^ tz = rf := by
            rw [hrf]; exact Nat.mul_div_cancel_left _ (by positivity)
          rw [value_mk_sgn, hsgn, hdiv, five_ten_two]
          have hpk : pow = -(k:Int) := by omega
          rw [hpk]
          have hfq : (frac : ℚ) = (2:ℚ) ^ tz * (rf : ℚ) := by exact_mod_cast hrf
          rw [hfq]
          have h2 : (2:ℚ) ^ (-(k:Int)) = (2:ℚ) ^ (-(((k - tz : Nat)):Int)) * ((2:ℚ) ^ tz)⁻¹ := by
            rw [← zpow_natCast (2:ℚ) tz, ← zpow_neg, ← zpow_add₀ (by norm_num : (2:ℚ) ≠ 0)]
            congr 1; push_cast; omega
          rw [h2]
          have h2tz : ((2:ℚ) ^ tz) ≠ 0 := by positivity
          field_simp
        · have hpp : 0 < pow := by omega
          refine ⟨_, by rw [if_neg hp0, if_neg hpn], ?_⟩
          rw [value_mk_sgn, hsgn]
          push_cast
          have : (2:ℚ) ^ pow.toNat = (2:ℚ) ^ pow := by
            rw [← zpow_natCast]; congr 1; omega
          rw [this]; ring

/-- f32 and f64 instances -/
theorem C14_ofF32_exact (bits : Nat) (h : (bits / 2 ^ 23) % 2 ^ 8 ≠ 2 ^ 8 - 1) :
    ∃ d, ofF32 bits = some d ∧ d.value = floatValQ 8 23 bits :=
  (parseFromFloat_exact 8 23 _ (by rw [C14_five149]; norm_num) (by norm_num) bits).2 h

theorem C14_ofF64_exact (bits : Nat) (h : (bits / 2 ^ 52) % 2 ^ 11 ≠ 2 ^ 11 - 1) :
    ∃ d, ofF64 bits = some d ∧ d.value = floatValQ 11 52 bits :=
  (parseFromFloat_exact 11 52 _ (by rw [C14_five1074]; norm_num) (by norm_num) bits).2 h

/-- NaN and the infinities are reported as errors -/
theorem C14_nan_inf (bits : Nat) :
    ((bits / 2 ^ 23) % 2 ^ 8 = 2 ^ 8 - 1 → ofF32 bits = none) ∧
    ((bits / 2 ^ 52) % 2 ^ 11 = 2 ^ 11 - 1 → ofF64 bits = none) :=
  ⟨(parseFromFloat_exact 8 23 _ (by rw [C14_five149]; norm_num) (by norm_num) bits).1,
   (parseFromFloat_exact 11 52 _ (by rw [C14_five1074]; norm_num) (by norm_num) bits).1⟩

/-! ## `to_f64`

`F64.toF64` is a bit-exact executable model of `to_f64` (the correspondence check compares the 64 result
bits with the real code on every generated decimal): the digit-trimming loop, then one of three
paths, each built from correctly rounded primitives - `BigUint::to_f64`, compiler-rt's `powi` by
repeated squaring, an IEEE multiplication, and the standard float parser.  All of these are the one
function `F64.rne` ("round `a/b` to the nearest double, ties to even") applied to exact rationals;
`C14_rne_nearest` proves that `rne` is what it claims.  The end-to-end tolerance (2^-48 relative) is
judged per generated decimal in exact rational arithmetic; the theorems below settle the two
single-rounding paths for all inputs. -/

/-- **the rounding primitive is round-to-nearest**: for every positive rational `a/b` the result is
    infinity or a finite double within `2^-53 · a/b` of it (normal range) resp. within `2^-1075`
    (subnormal range) -/
theorem C14_rne_nearest (a b : Nat) (ha : 0 < a) (hb : 0 < b) :
    F64.rne a b = F64.inf ∨
    (((2 : ℚ) ^ (-1022 : Int) ≤ (a : ℚ) / b → |F64.valQ (F64.rne a b) - (a : ℚ) / b| ≤ (a : ℚ) / b * (2 : ℚ) ^ (-53 : Int)) ∧
     ((a : ℚ) / b < (2 : ℚ) ^ (-1022 : Int) → |F64.valQ (F64.rne a b) - (a : ℚ) / b| ≤ (2 : ℚ) ^ (-1075 : Int))) :=
  F64.rne_spec a b ha hb

/-- zero converts to `+0.0` whatever its scale -/
theorem C14_toF64_zero (neg : Bool) (scale : Int) : F64.toF64 neg 0 scale = 0 := by
  unfold F64.toF64 F64.toF64With; simp

/-- integers (scale 0) take the `BigUint::to_f64` path: the sign bit plus the correctly rounded
    magnitude - relative error at most 2^-53, or infinity -/
theorem C14_toF64_integer (neg : Bool) (n : Nat) (hn : 0 < n) :
    F64.toF64 neg n 0 = (if neg then 2 ^ 63 else 0) + F64.rne n 1 ∧
    (F64.rne n 1 = F64.inf ∨ |F64.valQ (F64.rne n 1) - (n : ℚ)| ≤ (n : ℚ) * (2 : ℚ) ^ (-53 : Int)) := by
  constructor
  · unfold F64.toF64 F64.toF64With F64.ofNat
    have : (n == 0) = false := by simp; omega
    simp [this]
  · rcases F64.rne_spec n 1 hn (by norm_num) with h | ⟨h1, _⟩
    · exact Or.inl h
    · right
      have hq : (2 : ℚ) ^ (-1022 : Int) ≤ ((n : ℚ)) / ((1 : Nat) : ℚ) := by
        have h1n : (1 : ℚ) ≤ (n : ℚ) := by exact_mod_cast hn
        have : (2 : ℚ) ^ (-1022 : Int) ≤ 1 := zpow_le_one_of_nonpos₀ (by norm_num) (by norm_num)
        simp only [Nat.cast_one, div_one]; linarith
      have := h1 hq
      simpa using this

/-- **`powi(10, k)` is accurate**: for every `k ≤ 308` compiler-rt's repeated squaring gives a finite
    positive double within `7 · 2^-53` (relative) of `10^k` (309 table rows checked by the kernel) -/
theorem C14_powi_ten_accurate (k : Nat) (hk : k ≤ 308) :
    F64.powi F64.ten k ≠ F64.inf ∧
    |F64.valQ (F64.powi F64.ten k) - (10 : ℚ) ^ k| ≤ (10 : ℚ) ^ k * (7 * (2 : ℚ) ^ (-53 : Int)) :=
  ⟨(F64.powi_err k hk).1, (F64.powi_err k hk).2.2⟩

/-- **the negative-scale path meets the 2^-48 tolerance** - for every digit estimate `dc` (the code's
    is the `f64` product `F64.digitCountF64`): when the scale is negative, the exponent left after
    trimming is at most 308, and the trimming leaves at least 25 digits, `to_f64` returns the sign bit
    plus infinity or a double within `2^-48` (relative) of the exact value: three roundings
    (`BigUint::to_f64`, the `powi` table, one multiplication) and the truncation of the trimmed digits
    compose to at most `32 · 2^-53`. -/
theorem C14_toF64_negative_scale_tolerance (dc : Nat → Nat) (neg : Bool) (n : Nat) (scale : Int)
    (hn : 0 < n) (hs : scale < 0) (hlo : -(2 ^ 63 : Int) ≤ scale)
    (hk : 19 * (F64.trimRounds dc n : Int) - scale ≤ 308) (hkeep : F64.trimKeeps25 dc n = true) :
    ∃ R, F64.toF64With dc neg n scale = (if neg then 2 ^ 63 else 0) + R ∧
      (R = F64.inf ∨ |F64.valQ R - (n : ℚ) * (10 : ℚ) ^ (-scale)| ≤ (n : ℚ) * (10 : ℚ) ^ (-scale) * (2 : ℚ) ^ (-48 : Int)) := by
  apply F64.toF64_powi_tolerance dc neg n scale hn (by omega) (by omega) hlo hk
  unfold F64.trimKeeps25 at hkeep
  simpa using hkeep

/-- **the positive-scale path meets the tolerance** - for every digit estimate `dc`: when the exponent
    left after trimming is positive (at most 2^31) and the trimming leaves at least 25 digits, `to_f64`
    returns the sign bit plus infinity or a double within `2^-48` (relative) of the exact value when
    that is at least `2^-1022` (the smallest normal double), and within one subnormal step `2^-1074`
    of it below; this covers the parser rounding, the truncated digits and the underflow-to-zero
    shortcut. -/
theorem C14_toF64_positive_scale_tolerance (dc : Nat → Nat) (neg : Bool) (n : Nat) (scale : Int) (hn : 0 < n)
    (hsc : 0 < scale - 19 * (F64.trimRounds dc n : Int)) (hhi : scale - 19 * (F64.trimRounds dc n : Int) ≤ 2 ^ 31)
    (hkeep : F64.trimKeeps25 dc n = true) :
    ∃ R, F64.toF64With dc neg n scale = (if neg then 2 ^ 63 else 0) + R ∧
      (R = F64.inf ∨
        (((2 : ℚ) ^ (-1022 : Int) ≤ (n : ℚ) * (10 : ℚ) ^ (-scale) →
            |F64.valQ R - (n : ℚ) * (10 : ℚ) ^ (-scale)| ≤ (n : ℚ) * (10 : ℚ) ^ (-scale) * (2 : ℚ) ^ (-48 : Int)) ∧
         ((n : ℚ) * (10 : ℚ) ^ (-scale) < (2 : ℚ) ^ (-1022 : Int) →
            |F64.valQ R - (n : ℚ) * (10 : ℚ) ^ (-scale)| ≤ (2 : ℚ) ^ (-1074 : Int)))) := by
  apply F64.toF64_parse_tolerance dc neg n scale hn hsc hhi
  unfold F64.trimKeeps25 at hkeep
  simpa using hkeep

/-- **the code's digit estimate keeps 25 digits**: `floor((bits+1) as f64 * LOG10_2)`, computed through
    the proved rounding primitive, never exceeds the true digit count by enough to trim below 25
    digits - for every coefficient below `2^(2^39 - 2)` (about 1.6 * 10^11 decimal digits) -/
theorem C14_digit_estimate_keeps25 (n : Nat) (hn : 0 < n) (hsize : n.log2 + 2 ≤ 2 ^ 39) :
    F64.trimKeeps25 F64.digitCount n = true := F64.digitCount_keeps25 n hn hsize

/-- **`to_f64`, negative scale, unconditional**: the model of the code (its own digit estimate) returns
    the sign bit plus infinity or a double within `2^-48` of the exact value whenever the exponent
    left after trimming is at most 308 -/
theorem C14_toF64_negative_scale (neg : Bool) (n : Nat) (scale : Int) (hn : 0 < n) (hsize : n.log2 + 2 ≤ 2 ^ 39)
    (hs : scale < 0) (hlo : -(2 ^ 63 : Int) ≤ scale)
    (hk : 19 * (F64.trimRounds F64.digitCount n : Int) - scale ≤ 308) :
    ∃ R, F64.toF64 neg n scale = (if neg then 2 ^ 63 else 0) + R ∧
      (R = F64.inf ∨ |F64.valQ R - (n : ℚ) * (10 : ℚ) ^ (-scale)| ≤ (n : ℚ) * (10 : ℚ) ^ (-scale) * (2 : ℚ) ^ (-48 : Int)) :=
  C14_toF64_negative_scale_tolerance F64.digitCount neg n scale hn hs hlo hk (F64.digitCount_keeps25 n hn hsize)

/-- **`to_f64`, positive scale, unconditional**: the sign bit plus infinity or a double within `2^-48`
    (relative) of the exact value at or above `2^-1022`, within one subnormal step `2^-1074` below -/
theorem C14_toF64_positive_scale (neg : Bool) (n : Nat) (scale : Int) (hn : 0 < n) (hsize : n.log2 + 2 ≤ 2 ^ 39)
    (hsc : 0 < scale - 19 * (F64.trimRounds F64.digitCount n : Int))
    (hhi : scale - 19 * (F64.trimRounds F64.digitCount n : Int) ≤ 2 ^ 31) :
    ∃ R, F64.toF64 neg n scale = (if neg then 2 ^ 63 else 0) + R ∧
      (R = F64.inf ∨
        (((2 : ℚ) ^ (-1022 : Int) ≤ (n : ℚ) * (10 : ℚ) ^ (-scale) →
            |F64.valQ R - (n : ℚ) * (10 : ℚ) ^ (-scale)| ≤ (n : ℚ) * (10 : ℚ) ^ (-scale) * (2 : ℚ) ^ (-48 : Int)) ∧
         ((n : ℚ) * (10 : ℚ) ^ (-scale) < (2 : ℚ) ^ (-1022 : Int) →
            |F64.valQ R - (n : ℚ) * (10 : ℚ) ^ (-scale)| ≤ (2 : ℚ) ^ (-1074 : Int)))) :=
  C14_toF64_positive_scale_tolerance F64.digitCount neg n scale hn hsc hhi (F64.digitCount_keeps25 n hn hsize)

/-- the premises are met by concrete inputs, under the code's own estimate: `12345e3` is untrimmed with
    exponent 3; a 50-digit coefficient at scale 60 is trimmed once (31 digits kept, exponent 41) -/
example : F64.trimRounds F64.digitCount 12345 = 0 ∧ F64.trimRounds F64.digitCount (10 ^ 49 + 7) = 1 ∧
    F64.toF64 false 12345 (-3) = 0x41678BD500000000 := by
  refine ⟨by decide +kernel, by decide +kernel, by decide +kernel⟩

/-- **`to_f64` is within tolerance on every decimal** (coefficients below 2^(2^32), every `i64` scale;
    all branches of the code: integer path, digit trimming with its saturating scale arithmetic, the
    `powi` path including overflow of `powi` itself, the float-parser path with the underflow
    shortcut, exponents beyond `i32`).  The result is the sign bit plus a magnitude `R` such that
    * if `R` is infinite, the exact value is at least `f64::MAX · (1 - 2^-48)` (`F64.InfOK`);
    * if `R` is finite, it is within `2^-48` (relative) of the exact value when that is at least
      `2^-1022`, and within one subnormal step `2^-1074` below (`F64.FinOK`). -/
theorem C14_toF64_spec (neg : Bool) (n : Nat) (scale : Int) (hn : 0 < n) (hsize : n.log2 + 2 ≤ 2 ^ 32)
    (hlo : -(2 ^ 63 : Int) ≤ scale) :
    ∃ R, F64.toF64 neg n scale = (if neg then 2 ^ 63 else 0) + R ∧
      (R = F64.inf → F64.InfOK ((n : ℚ) * (10 : ℚ) ^ (-scale))) ∧
      (R ≠ F64.inf → F64.FinOK R ((n : ℚ) * (10 : ℚ) ^ (-scale))) := by
  by_cases hs : scale = 0
  · subst hs
    obtain ⟨h1, h2⟩ := C14_toF64_integer neg n hn
    have hn1 : (1 : ℚ) ≤ (n : ℚ) := by exact_mod_cast hn
    refine ⟨F64.rne n 1, h1, fun hinf => ?_, fun hne => ?_⟩
    · have := F64.rne_inf_large n 1 hn (by norm_num) hinf
      simp only [Nat.cast_one, div_one] at this
      simp only [neg_zero, zpow_zero, mul_one]
      exact F64.infOK_of_ge_maxF _ (le_trans F64.maxF_lt_ovf.le this)
    · simp only [neg_zero, zpow_zero, mul_one]
      have hb := h2.resolve_left hne
      unfold F64.FinOK
      refine ⟨fun _ => le_trans hb (mul_le_mul_of_nonneg_left (zpow_le_zpow_right₀ (by norm_num) (by norm_num)) (by linarith)), fun hlt => ?_⟩
      exfalso
      have h1' : (2 : ℚ) ^ (-1022 : Int) ≤ 1 := zpow_le_one_of_nonpos₀ (by norm_num) (by norm_num)
      exact absurd (lt_of_le_of_lt (le_trans h1' hn1) hlt) (lt_irrefl _)
  · have hkeep := F64.digitCount_keeps25 n hn (by omega)
    unfold F64.trimKeeps25 at hkeep
    exact F64.toF64With_spec F64.digitCount neg n scale hn hs hlo hsize (by simpa using hkeep)

/-- `powi(10, k)` overflows for every larger exponent -/
theorem C14_powi_ten_overflow (k : Nat) (h1 : 309 ≤ k) (h2 : k < 2 ^ 64) : F64.powi F64.ten k = F64.inf :=
  F64.powi_ge_309 k h1 h2

/-- the rounding primitive returns infinity only at or above the IEEE overflow threshold -/
theorem C14_rne_overflow_threshold (a b : Nat) (ha : 0 < a) (hb : 0 < b) (h : F64.rne a b = F64.inf) :
    (2 : ℚ) ^ (1024 : Int) - (2 : ℚ) ^ (970 : Int) ≤ (a : ℚ) / b := F64.rne_inf_large a b ha hb h

/-- the code's instance: `F64.toF64 = F64.toF64With F64.digitCount` by definition -/
theorem C14_toF64_is_instance (neg : Bool) (n : Nat) (scale : Int) :
    F64.toF64 neg n scale = F64.toF64With F64.digitCount neg n scale := rfl

/-- the premises are satisfiable (with the integer digit estimate, which the kernel can evaluate):
    `12345e3` is untrimmed, and a 50-digit coefficient is trimmed once and keeps 31 digits -/
example : F64.trimRounds F64.digitCountInt 12345 = 0 ∧ F64.trimKeeps25 F64.digitCountInt 12345 = true ∧
    F64.trimRounds F64.digitCountInt (10 ^ 49 + 7) = 1 ∧ F64.trimKeeps25 F64.digitCountInt (10 ^ 49 + 7) = true := by
  refine ⟨by decide +kernel, by decide +kernel, by decide +kernel, by decide +kernel⟩

/-- 1.5 = 0x3FF8000000000000 converts to 15e-1 -/
example : ofF64 0x3FF8000000000000 = some ⟨15, 1⟩ := by decide

/-- the primitives of the `to_f64` model on literals: 0.1, 10^22 (exact), 10^23 (inexact), 100 = 1·10^2 -/
example : F64.rne 1 10 = 0x3FB999999999999A ∧ F64.powi F64.ten 22 = 4936209963552724370 ∧
    F64.powi F64.ten 23 = 4950912855330343670 ∧ F64.mul (F64.ofNat 1) (F64.powi F64.ten 2) = 0x4059000000000000 := by
  refine ⟨by decide +kernel, by decide +kernel, by decide +kernel, by decide +kernel⟩

end BigDec
