import BigDec.Proofs.Prec
import BigDec.Proofs.EstCode
import BigDec.Proofs.Arith
/-! # C07 — rounding to a precision honours the rounding mode at the p-th digit -/
namespace BigDec
open Generated Spec

/-- **C07 main theorem.** `with_precision_round(p, m)` (hence `Context::round_decimal`,
    `round_decimal_ref`, `BigDecimalRef::round_with_context`, which all call it) returns the
    declarative rounding at the p-th significant digit; `none` is the documented
    "precision overflow" panic, reachable only beyond 2^63. -/
theorem C07_withPrecisionRound (d : Dec) (p : Nat) (m : Mode) (r : Dec)
    (h : d.withPrecisionRound p m = some r) : r = Spec.roundToPrec d p m :=
  withPrecisionRound_spec d p m r h

/-- no panic for any realistic precision / scale -/
theorem C07_no_overflow (d : Dec) (p : Nat) (m : Mode) (hp : p < 2 ^ 62) (hd : d.digits < 2 ^ 62)
    (hs : -(2 ^ 62 : Int) < d.scale ∧ d.scale < 2 ^ 62) : (d.withPrecisionRound p m).isSome = true := by
  unfold Dec.withPrecisionRound
  rw [if_neg (by omega)]
  simp only []
  rw [if_neg (by omega)]
  rfl

/-- inputs with at most `p` digits are returned exactly, padded with zeros to `p` digits -/
theorem C07_pads (d : Dec) (p : Nat) (m : Mode) (h : numDigits d.int.natAbs ≤ p) :
    Spec.roundToPrec d p m =
      ⟨d.int * ((10 ^ (p - numDigits d.int.natAbs) : Nat) : Int), d.scale + ((p - numDigits d.int.natAbs : Nat) : Int)⟩ := by
  unfold Spec.roundToPrec Spec.roundToScale
  rw [specNumDigits_eq, if_pos (by omega)]
  have : (d.scale + ((p:Int) - (numDigits d.int.natAbs : Int)) - d.scale).toNat = p - numDigits d.int.natAbs := by omega
  rw [this]
  congr 1; omega

/-- what is rounded when more than `p` digits are present: the magnitude is cut after its p-th
    digit and bumped according to the mode, the sign re-attached -/
theorem C07_cut (d : Dec) (p : Nat) (m : Mode) (h : p < numDigits d.int.natAbs) :
    Spec.roundToPrec d p m =
      ⟨sgn d.int * (roundNat m (decide (d.int < 0)) d.int.natAbs (numDigits d.int.natAbs - p) : Nat),
       d.scale - ((numDigits d.int.natAbs - p : Nat) : Int)⟩ := by
  unfold Spec.roundToPrec Spec.roundToScale
  rw [specNumDigits_eq, if_neg (by omega)]
  have : (d.scale - (d.scale + ((p:Int) - (numDigits d.int.natAbs : Int)))).toNat = numDigits d.int.natAbs - p := by omega
  rw [this]
  congr 1; omega

/-- two-operand sums through a context: the exact sum (C01) rounded once -/
theorem C07_addRefs (a b : Dec) (p : Nat) (m : Mode) (r : Dec)
    (h : (addRefs a b).withPrecisionRound p m = some r) :
    r = Spec.roundToPrec (addRefs a b) p m ∧ (addRefs a b).value = a.value + b.value :=
  ⟨withPrecisionRound_spec _ p m r h, value_addRefs a b⟩

/-- `with_prec(p)` is the same operation with ties-away-from-zero rounding -/
theorem C07_withPrec {est : Nat → Nat} (h : EstOK est) (d : Dec) (p : Nat) :
    d.withPrec est p = Spec.roundToPrec d p .HalfUp := withPrec_spec h d p

/-- `with_prec(p)` with the code's own f64 digit estimate (modelled through the rounding primitive of
    C14), for every decimal below 2^40 bits: no premise about floating point.  (Before the repair of
    defect F15 this failed for a 146 964 308-bit remainder.) -/
theorem C07_withPrec_code (d : Dec) (p : Nat) (h : d.int.natAbs.log2 + 1 ≤ 2 ^ 40) :
    d.withPrec F64.estCode p = Spec.roundToPrec d p .HalfUp := withPrec_code d p h

/-- … and treats a value and its negation symmetrically -/
theorem C07_withPrec_neg {est : Nat → Nat} (h : EstOK est) (d : Dec) (p : Nat) :
    d.neg.withPrec est p = (d.withPrec est p).neg := by
  rw [withPrec_spec h, withPrec_spec h]
  unfold Spec.roundToPrec Spec.roundToScale Dec.neg
  simp only [Int.natAbs_neg]
  split
  · simp
  · by_cases h0 : d.int = 0
    · simp [h0, sgn, roundNat_zero]
    · have hsg : sgn (-d.int) = -sgn d.int := by
        unfold sgn; split <;> split <;> omega
      have hup : ∀ q r M, roundUpM .HalfUp (decide (-d.int < 0)) q r M = roundUpM .HalfUp (decide (d.int < 0)) q r M := by
        intros; simp [roundUpM]
      simp only [roundNat, hup, hsg]
      simp

/-- the documented example and its mirror image: -129.41675 → -130, 129.41675 → 130 -/
example : Spec.roundToPrec ⟨-12941675, 5⟩ 2 .HalfUp = ⟨-13, -1⟩ ∧
    Spec.roundToPrec ⟨12941675, 5⟩ 2 .HalfUp = ⟨13, -1⟩ := by
  have h8 : Spec.numDigits 12941675 = 8 := by
    rw [specNumDigits_eq]; exact numDigits_unique _ 8 (by norm_num) (by norm_num) (by norm_num)
  constructor <;>
    simp [Spec.roundToPrec, Spec.roundToScale, h8, sgn, roundNat, roundUpM]

end BigDec
