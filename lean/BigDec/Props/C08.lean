import BigDec.Proofs.Div
import BigDec.Proofs.Arith
/-! # C08 — division is correctly rounded and refuses a zero divisor in every form -/
namespace BigDec
open Generated Spec

/-- the digit loops of `impl_division` compute the closed form `Spec.divide` -/
theorem C08_closed_form (num den : Int) (hden : den ≠ 0) (scale : Int) (P : Nat) :
    implDivision num den scale P = Spec.divide num den scale P := implDivision_eq num den hden scale P

/-- the sign factor of a quotient -/
def qsign (num den : Int) : Int := if (num < 0) = (den < 0) then 1 else -1

theorem qsign_spec (num den : Int) (hn : num ≠ 0) (hd : den ≠ 0) :
    (num : ℚ) / den = (qsign num den : ℚ) * ((num.natAbs : ℚ) / (den.natAbs : ℚ)) := by
  have h1 : (num : ℚ) = (if num < 0 then -1 else 1) * (num.natAbs : ℚ) := by
    have := sign_mul_natAbs num
    have h := congrArg (Int.cast : ℤ → ℚ) this
    push_cast at h
    rw [← h]; split <;> simp
  have h2 : (den : ℚ) = (if den < 0 then -1 else 1) * (den.natAbs : ℚ) := by
    have := sign_mul_natAbs den
    have h := congrArg (Int.cast : ℤ → ℚ) this
    push_cast at h
    rw [← h]; split <;> simp
  have hdn : (den.natAbs : ℚ) ≠ 0 := by exact_mod_cast Int.natAbs_ne_zero.mpr hd
  unfold qsign
  rw [h1, h2]
  by_cases a : num < 0 <;> by_cases b : den < 0 <;> simp [a, b] <;> field_simp

/-- **C08 main theorem (every numerator, every non-zero denominator, every precision).**
    `impl_division(num, den, scale, P)` returns `r` with
    * `|r − x| ≤ ½ ulp(r)` for the true quotient `x = num/den · 10^-scale`,
    * at a tie the result is the one farther from zero,
    * whenever `r ≠ x` the result has at least `P` significant digits,
    * `r` has the sign of `x`. -/
theorem C08_correctly_rounded (num den : Int) (hn : num ≠ 0) (hd : den ≠ 0) (scale : Int) (P : Nat) :
    let r := implDivision num den scale P
    let x : ℚ := (num : ℚ) / den * (10:ℚ) ^ (-scale)
    |r.value - x| ≤ (1/2) * (10:ℚ) ^ (-r.scale) ∧
    (|r.value - x| = (1/2) * (10:ℚ) ^ (-r.scale) → |x| < |r.value|) ∧
    (r.value ≠ x → P ≤ numDigits r.int.natAbs) ∧
    (0 < r.value * x) := by
  intro r x
  have hN : 0 < num.natAbs := Int.natAbs_pos.mpr hn
  have hD : 0 < den.natAbs := Int.natAbs_pos.mpr hd
  obtain ⟨k, hk, hex, hlo, hhi, hdig⟩ := divideNat_props num.natAbs den.natAbs hN hD scale P
  have hr : r = ⟨qsign num den * ((Spec.divideNat num.natAbs den.natAbs scale P).1 : Int),
      (Spec.divideNat num.natAbs den.natAbs scale P).2⟩ := by
    show implDivision num den scale P = _
    rw [implDivision_eq num den hd]
    unfold Spec.divide qsign
    rw [if_neg hn]
  set Q := (Spec.divideNat num.natAbs den.natAbs scale P).1 with hQ
  set N := num.natAbs with hNdef
  set D := den.natAbs with hDdef
  set T := N * 10 ^ k with hT
  have hDq : (0:ℚ) < (D:ℚ) := by exact_mod_cast hD
  have hu : (0:ℚ) < (10:ℚ) ^ (-(scale + (k:Int))) := zpow_pos (by norm_num) _
  have hσ : (qsign num den : ℚ) = 1 ∨ (qsign num den : ℚ) = -1 := by
    unfold qsign; split <;> simp
  have hσ2 : (qsign num den : ℚ) * (qsign num den : ℚ) = 1 := by rcases hσ with h | h <;> rw [h] <;> norm_num
  -- r.value and x in units of u = 10^-(scale+k)
  have hrv : r.value = (qsign num den : ℚ) * (Q:ℚ) * (10:ℚ) ^ (-(scale + (k:Int))) := by
    rw [hr]; simp only [Dec.value, hk]; push_cast; ring
  have hxv : x = (qsign num den : ℚ) * ((T:ℚ) / (D:ℚ)) * (10:ℚ) ^ (-(scale + (k:Int))) := by
    show (num : ℚ) / den * (10:ℚ) ^ (-scale) = _
    rw [qsign_spec num den hn hd, hT]
    push_cast
    rw [neg_add, zpow_add₀ ten_ne_zero, zpow_neg (10:ℚ) (k:Int), zpow_natCast]
    field_simp
    simp only [hNdef, hDdef]; ring
  have hrs : r.scale = scale + (k:Int) := by rw [hr]; exact hk
  have hdiff : r.value - x = (qsign num den : ℚ) * ((Q:ℚ) - (T:ℚ) / (D:ℚ)) * (10:ℚ) ^ (-(scale + (k:Int))) := by
    rw [hrv, hxv]; ring
  have habs : |r.value - x| = |(Q:ℚ) - (T:ℚ) / (D:ℚ)| * (10:ℚ) ^ (-(scale + (k:Int))) := by
    rw [hdiff, abs_mul, abs_mul, abs_of_pos hu]
    rcases hσ with h | h <;> rw [h] <;> simp
  -- integer facts
  have hdm := Nat.div_add_mod T D
  have hml := Nat.mod_lt T hD
  have hTq : (T:ℚ) / (D:ℚ) = ((T / D : Nat) : ℚ) + ((T % D : Nat) : ℚ) / (D:ℚ) := by
    have : (T:ℚ) = (D:ℚ) * ((T / D : Nat) : ℚ) + ((T % D : Nat) : ℚ) := by exact_mod_cast hdm.symm
    rw [this]; field_simp
  have hR0 : (0:ℚ) ≤ ((T % D : Nat) : ℚ) := by positivity
  have hRD : ((T % D : Nat) : ℚ) < (D:ℚ) := by exact_mod_cast hml
  have hTpos : (0:ℚ) < (T:ℚ) := by
    have : 0 < T := by rw [hT]; positivity
    exact_mod_cast this
  -- case split: round down or round up
  have hcases : (2 * (T % D) < D ∧ Q = T / D) ∨ (D ≤ 2 * (T % D) ∧ Q = T / D + 1) := by
    by_cases h : 2 * (T % D) < D
    · exact Or.inl ⟨h, hlo h⟩
    · exact Or.inr ⟨by omega, hhi (by omega)⟩
  rw [hrs]
  refine ⟨?_, ?_, ?_, ?_⟩
  · rw [habs]
    apply mul_le_mul_of_nonneg_right _ (le_of_lt hu)
    rcases hcases with ⟨h1, h2⟩ | ⟨h1, h2⟩
    · rw [h2, hTq]
      have h1q : 2 * ((T % D : Nat) : ℚ) < (D:ℚ) := by exact_mod_cast h1
      have : ((T / D : Nat) : ℚ) - (((T / D : Nat) : ℚ) + ((T % D : Nat) : ℚ) / (D:ℚ)) = -(((T % D : Nat) : ℚ) / (D:ℚ)) := by ring
      rw [this, abs_neg, abs_of_nonneg (div_nonneg hR0 (le_of_lt hDq)), div_le_iff₀ hDq]
      linarith
    · rw [h2, hTq]
      have h1q : (D:ℚ) ≤ 2 * ((T % D : Nat) : ℚ) := by exact_mod_cast h1
      push_cast
      have : ((T / D : Nat) : ℚ) + 1 - (((T / D : Nat) : ℚ) + ((T % D : Nat) : ℚ) / (D:ℚ)) = ((D:ℚ) - ((T % D : Nat) : ℚ)) / (D:ℚ) := by
        field_simp; ring
      rw [this, abs_of_nonneg (div_nonneg (by linarith) (le_of_lt hDq)), div_le_iff₀ hDq]
      linarith
  · intro htie
    rw [habs] at htie
    have htie' : |(Q:ℚ) - (T:ℚ) / (D:ℚ)| = 1 / 2 := by
      have := mul_right_cancel₀ (ne_of_gt hu) htie
      exact this
    -- |x| < |r|  ⇔  T/D < Q
    have hxabs : |x| = ((T:ℚ) / (D:ℚ)) * (10:ℚ) ^ (-(scale + (k:Int))) := by
      rw [hxv, abs_mul, abs_mul, abs_of_pos hu, abs_of_pos (div_pos hTpos hDq)]
      rcases hσ with h | h <;> rw [h] <;> simp
    have hrabs : |r.value| = (Q:ℚ) * (10:ℚ) ^ (-(scale + (k:Int))) := by
      rw [hrv, abs_mul, abs_mul, abs_of_pos hu, abs_of_nonneg (by positivity : (0:ℚ) ≤ (Q:ℚ))]
      rcases hσ with h | h <;> rw [h] <;> simp
    rw [hxabs, hrabs]
    apply mul_lt_mul_of_pos_right _ hu
    rcases hcases with ⟨h1, h2⟩ | ⟨h1, h2⟩
    · -- rounding down: the error is R/D < 1/2, no tie possible
      exfalso
      rw [h2, hTq] at htie'
      have h1q : 2 * ((T % D : Nat) : ℚ) < (D:ℚ) := by exact_mod_cast h1
      have : ((T / D : Nat) : ℚ) - (((T / D : Nat) : ℚ) + ((T % D : Nat) : ℚ) / (D:ℚ)) = -(((T % D : Nat) : ℚ) / (D:ℚ)) := by ring
      rw [this, abs_neg, abs_of_nonneg (div_nonneg hR0 (le_of_lt hDq)), div_eq_iff (ne_of_gt hDq)] at htie'
      linarith
    · rw [h2, hTq]; push_cast
      have : ((T % D : Nat) : ℚ) / (D:ℚ) < 1 := by rw [div_lt_one hDq]; exact hRD
      linarith
  · intro hne
    have hRne : T % D ≠ 0 := by
      intro h0
      apply hne
      have hQD := hex h0
      rw [hrv, hxv]
      congr 2
      have : (Q:ℚ) * (D:ℚ) = (T:ℚ) := by exact_mod_cast hQD
      field_simp; linarith
    have := hdig hRne
    rw [hr]
    simp only []
    rw [Int.natAbs_mul, Int.natAbs_natCast]
    have : (qsign num den).natAbs = 1 := by unfold qsign; split <;> rfl
    rw [this, Nat.one_mul]; exact ‹P ≤ numDigits Q›
  · rw [hrv, hxv]
    have hQpos : (0:ℚ) < (Q:ℚ) := by
      have : 0 < Q := C08_aux_pos N D hN hD scale P
      exact_mod_cast this
    have : (qsign num den : ℚ) * (Q:ℚ) * (10:ℚ) ^ (-(scale + (k:Int))) * ((qsign num den : ℚ) * ((T:ℚ) / (D:ℚ)) * (10:ℚ) ^ (-(scale + (k:Int))))
        = ((qsign num den : ℚ) * (qsign num den : ℚ)) * ((Q:ℚ) * ((T:ℚ) / (D:ℚ))) * ((10:ℚ) ^ (-(scale + (k:Int))) * (10:ℚ) ^ (-(scale + (k:Int)))) := by ring
    rw [this, hσ2, one_mul]
    exact mul_pos (mul_pos hQpos (div_pos hTpos hDq)) (mul_pos hu hu)

/-- **exactness**: when the true quotient has at most `P` significant digits
    (`|num|/|den| = M·10^z/10^w` with `M` of at most `P` digits) the result is the exact quotient -/
theorem C08_exact_when_short (num den : Int) (hn : num ≠ 0) (hd : den ≠ 0) (scale : Int) (P : Nat)
    (M w z : Nat) (hM : num.natAbs * 10 ^ w = M * 10 ^ z * den.natAbs) (hnd : numDigits M ≤ P) :
    (implDivision num den scale P).value = (num : ℚ) / den * (10:ℚ) ^ (-scale) := by
  have hN : 0 < num.natAbs := Int.natAbs_pos.mpr hn
  have hD : 0 < den.natAbs := Int.natAbs_pos.mpr hd
  obtain ⟨k, hk, hex⟩ := divideNat_exact num.natAbs den.natAbs hN hD scale P M w z hM hnd
  rw [implDivision_eq num den hd]
  unfold Spec.divide
  rw [if_neg hn]
  simp only [Dec.value, hk]
  rw [qsign_spec num den hn hd]
  have hDq : (den.natAbs : ℚ) ≠ 0 := by exact_mod_cast (ne_of_gt hD)
  have hq : ((Spec.divideNat num.natAbs den.natAbs scale P).1 : ℚ) * (den.natAbs : ℚ) = (num.natAbs : ℚ) * (10:ℚ) ^ k := by
    exact_mod_cast hex
  have hQ : ((Spec.divideNat num.natAbs den.natAbs scale P).1 : ℚ) = (num.natAbs : ℚ) * (10:ℚ) ^ k / (den.natAbs : ℚ) := by
    rw [eq_div_iff hDq]; exact hq
  push_cast
  rw [hQ, neg_add, zpow_add₀ ten_ne_zero, zpow_neg (10:ℚ) (k:Int), zpow_natCast]
  unfold qsign
  have hk0 : ((10:ℚ) ^ k) ≠ 0 := by positivity
  split <;> field_simp <;> simp

/-- the quotient of two decimals is the quotient of the unscaled integers at the scale difference -/
theorem value_div (a b : Dec) (hb : b.int ≠ 0) :
    a.value / b.value = (a.int : ℚ) / b.int * (10:ℚ) ^ (-(a.scale - b.scale)) := by
  simp only [Dec.value]
  have hbq : (b.int : ℚ) ≠ 0 := by exact_mod_cast hb
  rw [neg_sub, zpow_sub₀ ten_ne_zero, zpow_neg, zpow_neg]
  have h1 : ((10:ℚ) ^ a.scale) ≠ 0 := zpow_ne_zero _ ten_ne_zero
  have h2 : ((10:ℚ) ^ b.scale) ≠ 0 := zpow_ne_zero _ ten_ne_zero
  field_simp

/-- **`a / b` for decimals (all four ownership forms share this body)**: a zero divisor panics;
    otherwise the result is `a` itself (unit divisor / zero numerator — exact), exactly one at the
    scale difference (equal unscaled integers — exact), or `impl_division` at the configured
    precision, which is correctly rounded by `C08_correctly_rounded`. -/
theorem C08_divDec (cfg : Config) (a b : Dec) :
    (b.int = 0 → divDec cfg a b = none) ∧
    (b.int ≠ 0 → ∃ r, divDec cfg a b = some r ∧
      (r.value = a.value / b.value ∨
        (a.int ≠ 0 ∧ r = implDivision a.int b.int (a.scale - b.scale) cfg.precision))) := by
  constructor
  · intro h; simp [divDec, Dec.isZero, h]
  · intro hb
    unfold divDec
    rw [if_neg (by simp [Dec.isZero, hb])]
    by_cases h1 : (a.isZero || b.isOne) = true
    · rw [if_pos h1]
      refine ⟨a, rfl, Or.inl ?_⟩
      rcases Bool.or_eq_true_iff.mp h1 with h | h
      · rw [value_of_isZero h]; simp
      · rw [value_isOne h]; simp
    · rw [if_neg h1]
      have ha : a.int ≠ 0 := by
        intro h0; apply h1; simp [Dec.isZero, h0]
      by_cases h2 : a.int = b.int
      · rw [if_pos h2]
        refine ⟨_, rfl, Or.inl ?_⟩
        rw [value_div a b hb, h2]
        have hbq : (b.int : ℚ) ≠ 0 := by exact_mod_cast hb
        simp [Dec.value, hbq]
      · rw [if_neg h2]
        exact ⟨_, rfl, Or.inr ⟨ha, rfl⟩⟩

/-- every primitive / float / assign form refuses a zero divisor -/
theorem C08_zero_divisor_panics (cfg : Config) (a : Dec) :
    divPrim cfg a 0 = none ∧ divAssignPrim cfg a 0 = none ∧
    (∀ p (z : Dec), z.int = 0 → divPrimLeft cfg p z = none) ∧
    (∀ f (z : Dec), z.int = 0 → divFloatLeft cfg f z = none) := by
  refine ⟨?_, ?_, ?_, ?_⟩
  · simp [divPrim, divDec, Dec.isZero, Dec.ofInt]
  · simp [divAssignPrim]
  · intro p z hz; simp [divPrimLeft, Dec.isZero, hz]
  · intro f z hz; simp [divFloatLeft, Dec.isZero, hz]

/-- division by ±1 / ±2 returns the exact value (the exact half for ±2), other integers go through
    the decimal division of the converted operand -/
theorem C08_divPrim (cfg : Config) (a : Dec) :
    (∃ r, divPrim cfg a 2 = some r ∧ r.value = a.value / 2) ∧
    (∃ r, divPrim cfg a (-2) = some r ∧ r.value = -(a.value / 2)) ∧
    (∃ r, divPrim cfg a 1 = some r ∧ r.value = a.value) ∧
    (∃ r, divPrim cfg a (-1) = some r ∧ r.value = -a.value) ∧
    (∀ p : Int, p ≠ 1 → p ≠ -1 → p ≠ 2 → p ≠ -2 → divPrim cfg a p = divDec cfg a (Dec.ofInt p)) := by
  refine ⟨⟨a.half, by simp [divPrim], value_half a⟩, ⟨a.half.neg, by simp [divPrim], ?_⟩,
    ⟨a, by simp [divPrim], rfl⟩, ⟨a.neg, by simp [divPrim], Dec.value_neg a⟩, ?_⟩
  · rw [Dec.value_neg, value_half]
  · intro p h1 h2 h3 h4; simp [divPrim, h1, h2, h3, h4]

/-- non-vacuity: 1/3 at precision 5 -/
example : Spec.divide 1 3 0 5 = ⟨33333, 5⟩ ∧ Spec.divide 2 3 0 5 = ⟨66667, 5⟩ := by
  constructor <;> simp [Spec.divide, Spec.divideNat, Spec.leastShift, Spec.leastExact, Spec.numDigits]

end BigDec
