import BigDec.Proofs.Digits
import BigDec.Proofs.EstCode
import BigDec.Proofs.Arith
import BigDec.Model.Round
/-! # C18 — representation accessors and canonical form are faithful -/
namespace BigDec
open Generated

/-- `digits()` / `count_decimal_digits_uint` is the exact decimal digit count (1 for zero) for
    every integer, provided the bit-length estimate satisfies the scalar condition `EstOK`
    (`10^(est(b+1) - 1) ≤ 2^b`: proved below for the real-valued formula and, up to 2^40 bits, for
    the code's own f64 quotient). -/
theorem C18_digits {est : Nat → Nat} (h : EstOK est) (n : Nat) :
    countDigitsUint est n = numDigits n := countDigitsUint_spec h n

/-- **the code's f64 digit estimate satisfies the scalar condition** for every bit length up to 2^40:
    `(bits as f64 / LOG2_10) as u64`, computed through the rounding primitive of C14, exceeds
    `log10 2^(bits-1)` by less than one.  (The stronger `10^est ≤ 2^bits` is false at
    146 964 308 bits - that was defect F15 in `get_rounding_term`.) -/
theorem C18_est_code (b : Nat) (hb : b < 2 ^ 40) : 10 ^ (F64.estCode (b + 1) - 1) ≤ 2 ^ b := F64.estCode_ok b hb

/-- `digits()` with the code's own estimate: exact for every integer below 2^40 bits -/
theorem C18_digits_code (n : Nat) (h : n.log2 + 1 ≤ 2 ^ 40) :
    countDigitsUint F64.estCode n = numDigits n := countDigitsUint_code n h

/-- `get_rounding_term` with the code's own estimate: 1 iff the leading decimal digit is at least 5 -/
theorem C18_rounding_term_code (n : Nat) (h : n.log2 + 1 ≤ 2 ^ 40) :
    getRoundingTerm F64.estCode n = roundTerm n := getRoundingTerm_code n h

/-- what "number of digits" means: `10^(d-1) ≤ n < 10^d` -/
theorem C18_numDigits_char (n : Nat) (h : n ≠ 0) :
    10 ^ (numDigits n - 1) ≤ n ∧ n < 10 ^ numDigits n := ⟨pow_numDigits_le n h, lt_pow_numDigits n⟩

theorem C18_numDigits_zero : numDigits 0 = 1 := numDigits_zero

/-- the real-valued estimate ⌊log₁₀ 2^b⌋ satisfies the scalar condition -/
theorem C18_est_real : EstOK (fun b => Nat.log 10 (2 ^ b)) := estLog_ok

/-- the power-of-ten constructor is exact through all three algorithms -/
theorem C18_ten_to_the (pow : Nat) : tenToTheUint pow = 10 ^ pow := tenToTheUint_eq pow

/-- `digits()` of `10^k`, `10^k·n`: the counts the exhaustive sweep checks -/
theorem C18_digits_pow (k : Nat) : numDigits (10 ^ k) = k + 1 := numDigits_pow k

theorem stripZeros_nontrailing (fuel n : Nat) (h0 : n ≠ 0) (hf : n < 10 ^ fuel) :
    (stripZeros fuel n).1 % 10 ≠ 0 := by
  induction fuel generalizing n with
  | zero => simp at hf; omega
  | succ f ih =>
    unfold stripZeros
    split
    · rename_i h
      simp only []
      apply ih (n / 10) (by omega)
      rw [pow_succ] at hf; omega
    · rename_i h
      simp only []
      intro hc; exact h ⟨h0, hc⟩

theorem lt_ten_pow_self (n : Nat) : n < 10 ^ n := Nat.lt_pow_self (by norm_num)

/-- `normalized()` keeps the value, strips every trailing zero, and maps zero to `0` with scale 0 -/
theorem C18_normalized (d : Dec) :
    d.normalized.value = d.value ∧
    (d.int ≠ 0 → d.normalized.int % 10 ≠ 0) ∧
    (d.int = 0 → d.normalized = ⟨0, 0⟩) := by
  refine ⟨value_normalized d, ?_, ?_⟩
  · intro h0
    unfold Dec.normalized
    rw [if_neg h0]
    simp only []
    have hn : d.int.natAbs ≠ 0 := Int.natAbs_ne_zero.mpr h0
    have := stripZeros_nontrailing d.int.natAbs d.int.natAbs hn (lt_ten_pow_self _)
    split <;> omega
  · intro h0
    unfold Dec.normalized
    rw [if_pos h0]; rfl

/-- two decimals without trailing zero that denote the same number are identical -/
theorem canonical_unique (a b : Dec) (ha : a.int % 10 ≠ 0) (hb : b.int % 10 ≠ 0)
    (h : a.value = b.value) : a = b := by
  have key := (Spec.valueEq_iff a b).mpr h
  unfold Spec.valueEq Spec.alignTo at key
  simp only [beq_iff_eq] at key
  have hs : a.scale = b.scale := by
    by_contra hne
    rcases lt_or_gt_of_ne hne with hlt | hgt
    · -- a.scale < b.scale : a.int * 10^(k) = b.int with k > 0
      rw [max_eq_right (le_of_lt hlt)] at key
      simp only [sub_self, Int.toNat_zero, pow_zero, Nat.cast_one, mul_one] at key
      obtain ⟨k, hk⟩ : ∃ k, (b.scale - a.scale).toNat = k + 1 := ⟨(b.scale - a.scale).toNat - 1, by omega⟩
      rw [hk, pow_succ] at key
      have : b.int % 10 = 0 := by rw [← key]; push_cast; rw [← mul_assoc]; exact Int.mul_emod_left _ _
      exact hb this
    · rw [max_eq_left (le_of_lt hgt)] at key
      simp only [sub_self, Int.toNat_zero, pow_zero, Nat.cast_one, mul_one] at key
      obtain ⟨k, hk⟩ : ∃ k, (a.scale - b.scale).toNat = k + 1 := ⟨(a.scale - b.scale).toNat - 1, by omega⟩
      rw [hk, pow_succ] at key
      have : a.int % 10 = 0 := by rw [key]; push_cast; rw [← mul_assoc]; exact Int.mul_emod_left _ _
      exact ha this
  rw [hs] at key
  simp at key
  cases a; cases b; simp_all

/-- equal decimals have identical normalized parts -/
theorem C18_normalized_canonical (a b : Dec) (h : a.value = b.value) : a.normalized = b.normalized := by
  have ha := C18_normalized a
  have hb := C18_normalized b
  by_cases h0 : a.int = 0
  · have hb0 : b.int = 0 := by
      have : b.value = 0 := by rw [← h]; exact Dec.value_zero_int h0
      simp only [Dec.value] at this
      rcases mul_eq_zero.mp this with h1 | h1
      · exact_mod_cast h1
      · exact absurd h1 (zpow_ne_zero _ ten_ne_zero)
    rw [ha.2.2 h0, hb.2.2 hb0]
  · have hb0 : b.int ≠ 0 := by
      intro hz
      have : a.value = 0 := by rw [h]; exact Dec.value_zero_int hz
      simp only [Dec.value] at this
      rcases mul_eq_zero.mp this with h1 | h1
      · exact h0 (by exact_mod_cast h1)
      · exact absurd h1 (zpow_ne_zero _ ten_ne_zero)
    exact canonical_unique _ _ (ha.2.1 h0) (hb.2.1 hb0) (by rw [ha.1, hb.1, h])

/-- extending the scale multiplies by the exact power of ten -/
theorem C18_extend_scale (d : Dec) (ns : Int) (h : d.scale ≤ ns) :
    (d.withScale ns).value = d.value ∧ (d.withScale ns).scale = ns :=
  ⟨Dec.value_withScale_up d ns h, Dec.scale_withScale_up d ns h⟩

/-- extending the precision multiplies by the exact power of ten and moves the scale along -/
theorem C18_extend_prec (est : Nat → Nat) (d : Dec) (p : Nat) (h : d.digits ≤ p) :
    d.withPrec est p = ⟨d.int * ((10 ^ (p - d.digits) : Nat) : Int), d.scale + (p - d.digits : Nat)⟩ := by
  unfold Dec.withPrec
  rw [if_neg (by omega)]
  split
  · rw [tenToTheUint_eq]
  · have : p - d.digits = 0 := by omega
    rw [this]; simp

theorem C18_extend_prec_value (est : Nat → Nat) (d : Dec) (p : Nat) (h : d.digits ≤ p) :
    (d.withPrec est p).value = d.value := by
  rw [C18_extend_prec est d p h]
  have := value_scale_up d.int d.scale (d.scale + (p - d.digits : Nat)) (by omega)
  simp only [Dec.value]
  convert this using 3
  · simp
  
/-- constructors store exactly what they are given; the reference view and its owned copy agree
    (in the model a decimal *is* the pair, so these are definitional; the tie to the code is the
    accessor round-trip run of the correspondence check) -/
theorem C18_ctor_accessors (i s : Int) : (Dec.mk i s).int = i ∧ (Dec.mk i s).scale = s ∧
    (Dec.mk i s).value = (i : ℚ) * (10 : ℚ) ^ (-s) := ⟨rfl, rfl, rfl⟩


/-- non-vacuity: the digit count of `10^19` (a 64-bit boundary case) through the code's own f64 estimate -/
example : countDigitsUint F64.estCode (10 ^ 19) = numDigits (10 ^ 19) :=
  C18_digits_code (10 ^ 19) (by decide)

end BigDec
