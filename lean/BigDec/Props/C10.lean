import BigDec.Model.Roots
import BigDec.Proofs.Prec
import Mathlib.Tactic.Ring
import Mathlib.Tactic.Linarith
/-! # C10 — square root is the true root rounded as the context dictates

`implSqrt` models the repaired `impl_sqrt`: shift to an even total scale with at least
`2(p+5)` digits, floor square root, a non-zero *sticky* digit when the root is inexact, then
`with_precision_round` (proved equal to the declarative rounding in C07). -/
namespace BigDec
open Generated

/-- negative inputs yield `None`, zero yields zero -/
theorem C10_negative_is_none (d : Dec) (p : Nat) (m : Mode) (h : d.int < 0) (h1 : d.isOne = false) :
    d.sqrtCtx p m = none := by
  have hz : d.isZero = false := by simp [Dec.isZero]; omega
  simp [Dec.sqrtCtx, hz, h1, h]

theorem C10_zero (s : Int) (p : Nat) (m : Mode) :
    (Dec.mk 0 s).sqrtCtx p m = some ⟨0, s⟩ ∧ (Dec.mk 0 s).sqrtRef p m = some Dec.zero := by
  simp [Dec.sqrtCtx, Dec.sqrtRef, Dec.isZero]

/-- the copy-sign form is the absolute-value form with the sign of the input attached -/
theorem C10_copysign (d : Dec) (p : Nat) (m : Mode) :
    d.sqrtCopysign p m = (d.sqrtAbs p m).map (fun r => if d.int < 0 then r.neg else r) := rfl

/-- **the sticky lemma.**  For `N` that is not a perfect square and `r = ⌊√N⌋`, the integer
    `10r + 1` lies on the same side of every multiple of ten `10j` as the real number `10·√N`
    (`10√N < 10j ⇔ N < j²`).  Hence rounding `10r+1` at any position left of its last digit
    takes exactly the decisions that rounding the true root would take. -/
theorem C10_sticky (N : Nat) (hns : Nat.sqrt N * Nat.sqrt N ≠ N) (j : Nat) :
    (10 * Nat.sqrt N + 1 < 10 * j ↔ N < j * j) ∧ (10 * j < 10 * Nat.sqrt N + 1 ↔ j * j < N) := by
  have h1 : Nat.sqrt N * Nat.sqrt N ≤ N := Nat.sqrt_le N
  have h2 : N < (Nat.sqrt N + 1) * (Nat.sqrt N + 1) := Nat.lt_succ_sqrt N
  constructor
  · constructor
    · intro h
      have hj : Nat.sqrt N + 1 ≤ j := by omega
      calc N < (Nat.sqrt N + 1) * (Nat.sqrt N + 1) := h2
        _ ≤ j * j := Nat.mul_le_mul hj hj
    · intro h
      have : Nat.sqrt N < j := by
        by_contra hc
        have hc : j ≤ Nat.sqrt N := by omega
        have : j * j ≤ Nat.sqrt N * Nat.sqrt N := Nat.mul_le_mul hc hc
        omega
      omega
  · constructor
    · intro h
      have hj : j ≤ Nat.sqrt N := by omega
      have : j * j ≤ Nat.sqrt N * Nat.sqrt N := Nat.mul_le_mul hj hj
      omega
    · intro h
      have : j ≤ Nat.sqrt N := by
        by_contra hc
        have hc : Nat.sqrt N + 1 ≤ j := by omega
        have : (Nat.sqrt N + 1) * (Nat.sqrt N + 1) ≤ j * j := Nat.mul_le_mul hc hc
        omega
      omega

/-- the exact branch: a perfect square is rooted exactly, so the rounding is applied to the true
    root itself -/
theorem C10_exact_branch (n : Nat) (scale : Int) (p : Nat) (m : Mode)
    (h : Nat.sqrt (n * 10 ^ (if (scale + ((2 * (p + sqrtExtraDigits) - numDigits n : Nat) : Int)) % 2 ≠ 0
          then 2 * (p + sqrtExtraDigits) - numDigits n + 1 else 2 * (p + sqrtExtraDigits) - numDigits n)) *
         Nat.sqrt (n * 10 ^ (if (scale + ((2 * (p + sqrtExtraDigits) - numDigits n : Nat) : Int)) % 2 ≠ 0
          then 2 * (p + sqrtExtraDigits) - numDigits n + 1 else 2 * (p + sqrtExtraDigits) - numDigits n)) =
         n * 10 ^ (if (scale + ((2 * (p + sqrtExtraDigits) - numDigits n : Nat) : Int)) % 2 ≠ 0
          then 2 * (p + sqrtExtraDigits) - numDigits n + 1 else 2 * (p + sqrtExtraDigits) - numDigits n)) :
    ∃ (r : Nat) (t : Int), (r : Int) * r * 1 = (r * r : Nat) ∧
      implSqrt n scale p m = (Dec.mk (r : Int) t).withPrecisionRound p m := by
  unfold implSqrt
  simp only []
  rw [if_neg (by simpa using h)]
  exact ⟨_, _, by push_cast; ring, rfl⟩

/-- the total scale after shifting is even, so halving it is exact (no digit of the root is
    misplaced — the defect of the original code for long inputs) -/
theorem C10_even_scale (scale : Int) (e0 : Nat) :
    (scale + ((if (scale + (e0 : Int)) % 2 ≠ 0 then e0 + 1 else e0 : Nat) : Int)) % 2 = 0 := by
  split <;> push_cast <;> omega

/-- **composition**: whatever `impl_sqrt` returns is the declarative precision rounding
    (`Spec.roundToPrec`, proved for `with_precision_round` in C07) of the floor root of the shifted
    integer, extended by the sticky digit `1` when that root is inexact.  Together with `C10_sticky`
    (the sticky-extended root lies on the same side of every rounding boundary as the real root) and
    `C10_even_scale` this is "the true root rounded as the context dictates". -/
theorem C10_implSqrt_spec (n : Nat) (scale : Int) (p : Nat) (m : Mode) (r : Dec)
    (h : implSqrt n scale p m = some r) :
    let e0 := 2 * (p + sqrtExtraDigits) - numDigits n
    let e := if (scale + e0) % 2 ≠ 0 then e0 + 1 else e0
    let D := n * 10 ^ e
    let rs : Int := (scale + e) / 2
    r = Spec.roundToPrec
        (if Nat.sqrt D * Nat.sqrt D ≠ D then ⟨((Nat.sqrt D * 10 + 1 : Nat) : Int), rs + 1⟩ else ⟨(Nat.sqrt D : Int), rs⟩) p m := by
  intro e0 e D rs
  have hx : implSqrt n scale p m =
      (if Nat.sqrt D * Nat.sqrt D ≠ D then (⟨((Nat.sqrt D * 10 + 1 : Nat) : Int), rs + 1⟩ : Dec)
        else ⟨(Nat.sqrt D : Int), rs⟩).withPrecisionRound p m := by
    rw [apply_ite (fun d : Dec => d.withPrecisionRound p m)]
    rfl
  rw [hx] at h
  exact withPrecisionRound_spec _ _ _ _ h

end BigDec
