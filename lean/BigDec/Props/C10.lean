import BigDec.Model.Roots
import BigDec.Proofs.Prec
import Mathlib.Tactic.Ring
import Mathlib.Tactic.Linarith
import BigDec.Proofs.SqrtReal
/-! # C10 — square root is the true root rounded as the context dictates

`implSqrt` models the repaired `impl_sqrt`: shift to an even total scale with at least
`2(p+5)` digits, floor square root, a non-zero *sticky* digit when the root is inexact, then
`with_precision_round` (proved equal to the declarative rounding in C07). -/
namespace BigDec
open Generated

/-- negative inputs yield `None`, zero yields zero -/
theorem C10_negative_is_none (d : Dec) (p : Nat) (m : Mode) (h : d.int < 0) (h1 : d.isOne = false) :
    d.sqrtCtx p m = none := by
  have hz : d.isZero = false := by simp [Dec.isZero]; omega
  simp [Dec.sqrtCtx, hz, h1, h]

theorem C10_zero (s : Int) (p : Nat) (m : Mode) :
    (Dec.mk 0 s).sqrtCtx p m = some ⟨0, s⟩ ∧ (Dec.mk 0 s).sqrtRef p m = some Dec.zero := by
  simp [Dec.sqrtCtx, Dec.sqrtRef, Dec.isZero]

/-- the copy-sign form is the absolute-value form with the sign of the input attached -/
theorem C10_copysign (d : Dec) (p : Nat) (m : Mode) :
    d.sqrtCopysign p m = (d.sqrtAbs p m).map (fun r => if d.int < 0 then r.neg else r) := rfl

/-- **the sticky lemma.**  For `N` that is not a perfect square and `r = ⌊√N⌋`, the integer
    `10r + 1` lies on the same side of every multiple of ten `10j` as the real number `10·√N`
    (`10√N < 10j ⇔ N < j²`).  Hence rounding `10r+1` at any position left of its last digit
    takes exactly the decisions that rounding the true root would take. -/
theorem C10_sticky (N : Nat) (hns : Nat.sqrt N * Nat.sqrt N ≠ N) (j : Nat) :
    (10 * Nat.sqrt N + 1 < 10 * j ↔ N < j * j) ∧ (10 * j < 10 * Nat.sqrt N + 1 ↔ j * j < N) := by
  have h1 : Nat.sqrt N * Nat.sqrt N ≤ N := Nat.sqrt_le N
  have h2 : N < (Nat.sqrt N + 1) * (Nat.sqrt N + 1) := Nat.lt_succ_sqrt N
  constructor
  · constructor
    · intro h
      have hj : Nat.sqrt N + 1 ≤ j := by omega
      calc N < (Nat.sqrt N + 1) * (Nat.sqrt N + 1) := h2
        _ ≤ j * j := Nat.mul_le_mul hj hj
    · intro h
      have : Nat.sqrt N < j := by
        by_contra hc
        have hc : j ≤ Nat.sqrt N := by omega
        have : j * j ≤ Nat.sqrt N * Nat.sqrt N := Nat.mul_le_mul hc hc
        omega
      omega
  · constructor
    · intro h
      have hj : j ≤ Nat.sqrt N := by omega
      have : j * j ≤ Nat.sqrt N * Nat.sqrt N := Nat.mul_le_mul hj hj
      omega
    · intro h
      have : j ≤ Nat.sqrt N := by
        by_contra hc
        have hc : Nat.sqrt N + 1 ≤ j := by omega
        have : (Nat.sqrt N + 1) * (Nat.sqrt N + 1) ≤ j * j := Nat.mul_le_mul hc hc
        omega
      omega

/-- the exact branch: a perfect square is rooted exactly, so the rounding is applied to the true
    root itself -/
theorem C10_exact_branch (n : Nat) (scale : Int) (p : Nat) (m : Mode)
    (h : Nat.sqrt (n * 10 ^ (if (scale + ((2 * (p + sqrtExtraDigits) - numDigits n : Nat) : Int)) % 2 ≠ 0
          then 2 * (p + sqrtExtraDigits) - numDigits n + 1 else 2 * (p + sqrtExtraDigits) - numDigits n)) *
         Nat.sqrt (n * 10 ^ (if (scale + ((2 * (p + sqrtExtraDigits) - numDigits n : Nat) : Int)) % 2 ≠ 0
          then 2 * (p + sqrtExtraDigits) - numDigits n + 1 else 2 * (p + sqrtExtraDigits) - numDigits n)) =
         n * 10 ^ (if (scale + ((2 * (p + sqrtExtraDigits) - numDigits n : Nat) : Int)) % 2 ≠ 0
          then 2 * (p + sqrtExtraDigits) - numDigits n + 1 else 2 * (p + sqrtExtraDigits) - numDigits n)) :
    ∃ (r : Nat) (t : Int), (r : Int) * r * 1 = (r * r : Nat) ∧
      implSqrt n scale p m = (Dec.mk (r : Int) t).withPrecisionRound p m := by
  unfold implSqrt
  simp only []
  rw [if_neg (by simpa using h)]
  exact ⟨_, _, by push_cast; ring, rfl⟩

/-- the total scale after shifting is even, so halving it is exact (no digit of the root is
    misplaced — the defect of the original code for long inputs) -/
theorem C10_even_scale (scale : Int) (e0 : Nat) :
    (scale + ((if (scale + (e0 : Int)) % 2 ≠ 0 then e0 + 1 else e0 : Nat) : Int)) % 2 = 0 := by
  split <;> push_cast <;> omega

/-- **composition**: whatever `impl_sqrt` returns is the declarative precision rounding
    (`Spec.roundToPrec`, proved for `with_precision_round` in C07) of the floor root of the shifted
    integer, extended by the sticky digit `1` when that root is inexact.  Together with `C10_sticky`
    (the sticky-extended root lies on the same side of every rounding boundary as the real root) and
    `C10_even_scale` this is "the true root rounded as the context dictates". -/
theorem C10_implSqrt_spec (n : Nat) (scale : Int) (p : Nat) (m : Mode) (r : Dec)
    (h : implSqrt n scale p m = some r) :
    let e0 := 2 * (p + sqrtExtraDigits) - numDigits n
    let e := if (scale + e0) % 2 ≠ 0 then e0 + 1 else e0
    let D := n * 10 ^ e
    let rs : Int := (scale + e) / 2
    r = Spec.roundToPrec
        (if Nat.sqrt D * Nat.sqrt D ≠ D then ⟨((Nat.sqrt D * 10 + 1 : Nat) : Int), rs + 1⟩ else ⟨(Nat.sqrt D : Int), rs⟩) p m := by
  intro e0 e D rs
  have hx : implSqrt n scale p m =
      (if Nat.sqrt D * Nat.sqrt D ≠ D then (⟨((Nat.sqrt D * 10 + 1 : Nat) : Int), rs + 1⟩ : Dec)
        else ⟨(Nat.sqrt D : Int), rs⟩).withPrecisionRound p m := by
    rw [apply_ite (fun d : Dec => d.withPrecisionRound p m)]
    rfl
  rw [hx] at h
  exact withPrecisionRound_spec _ _ _ _ h

/-- a shifted radicand with at least `2(p+5)` digits has a floor root of at least `p+5` digits -/
theorem sqrt_digits (D p : Nat) (hD : 2 * (p + 5) ≤ numDigits D) : p + 5 ≤ numDigits (Nat.sqrt D) := by
  have hD0 : D ≠ 0 := by
    intro h; rw [h, numDigits_zero] at hD; omega
  have h1 := pow_numDigits_le D hD0
  have h2 : 10 ^ (2 * (p + 4)) ≤ 10 ^ (numDigits D - 1) := Nat.pow_le_pow_right (by norm_num) (by omega)
  have h3 : 10 ^ (p + 4) * 10 ^ (p + 4) ≤ D := by
    rw [← pow_add, show p + 4 + (p + 4) = 2 * (p + 4) by ring]; omega
  have h4 : 10 ^ (p + 4) ≤ Nat.sqrt D := Nat.le_sqrt.mpr h3
  have h5 := numDigits_mono h4
  rw [numDigits_pow] at h5
  omega

/-- **the real-number reading of `sqrt`** (inexact case): whatever `impl_sqrt` returns for a radicand
    whose shifted integer `D` is not a perfect square is the true real root `√(n·10^-scale)` (Mathlib's
    `Real.sqrt`) rounded at the position of the result's own last digit - floor for `Down`/`Floor`,
    ceiling for `Up`/`Ceiling`, nearest for the three half modes (a tie is impossible: the root is
    irrational).  (The exact case is `C10_exact_branch`: the root itself, rounded by C07/C06.) -/
theorem C10_sqrt_real (n : Nat) (scale : Int) (p : Nat) (m : Mode) (r : Dec) (hn : 0 < n) (hp : 1 ≤ p)
    (h : implSqrt n scale p m = some r)
    (hns : let e0 := 2 * (p + sqrtExtraDigits) - numDigits n
           let e := if (scale + e0) % 2 ≠ 0 then e0 + 1 else e0
           Nat.sqrt (n * 10 ^ e) * Nat.sqrt (n * 10 ^ e) ≠ n * 10 ^ e) :
    r.int = Spec.realRound m (Real.sqrt ((n : ℝ) * (10 : ℝ) ^ (-scale)) * (10 : ℝ) ^ r.scale) := by
  have hspec := C10_implSqrt_spec n scale p m r h
  simp only at hspec hns
  generalize he0 : 2 * (p + sqrtExtraDigits) - numDigits n = e0 at hspec hns
  have heven := C10_even_scale scale e0
  generalize he : (if (scale + (e0 : Int)) % 2 ≠ 0 then e0 + 1 else e0 : Nat) = e at hspec hns heven
  have hege : e0 ≤ e := by rw [← he]; split <;> omega
  rw [if_pos hns] at hspec
  -- digits of D, of its root, of the sticky-extended root
  have hD : 2 * (p + 5) ≤ numDigits (n * 10 ^ e) := by
    rw [numDigits_mul_pow n e (by omega)]
    have : sqrtExtraDigits = 5 := rfl
    omega
  have hRd := sqrt_digits (n * 10 ^ e) p hD
  generalize hRdef : Nat.sqrt (n * 10 ^ e) = R at hspec hns hRd
  have hR1 : 1 ≤ R := by
    by_contra hc
    have : R = 0 := by omega
    rw [this, numDigits_zero] at hRd; omega
  have hW : numDigits (R * 10 + 1) = numDigits R + 1 := by
    conv => lhs; unfold numDigits
    rw [if_neg (by omega)]
    have : (R * 10 + 1) / 10 = R := by omega
    rw [this]
  -- unfold the declarative rounding
  unfold Spec.roundToPrec Spec.roundToScale at hspec
  simp only [Int.natAbs_natCast, Spec.numDigits_eq_model] at hspec
  rw [hW] at hspec
  obtain ⟨k, hk⟩ : ∃ k : Nat, numDigits R + 1 = p + k ∧ 6 ≤ k := ⟨numDigits R + 1 - p, by omega, by omega⟩
  have hns' : ¬ ((scale + (e : Int)) / 2 + 1 + ((p : Int) - ((numDigits R + 1 : Nat) : Int)) ≥ (scale + (e : Int)) / 2 + 1) := by
    push_cast; omega
  rw [if_neg hns'] at hspec
  have hkk : ((scale + (e : Int)) / 2 + 1 - ((scale + (e : Int)) / 2 + 1 + ((p : Int) - ((numDigits R + 1 : Nat) : Int)))).toNat = k := by
    push_cast; omega
  rw [hkk] at hspec
  have hneg : decide (((R * 10 + 1 : Nat) : Int) < 0) = false := by simp; omega
  have hsg : Spec.sgn ((R * 10 + 1 : Nat) : Int) = 1 := by unfold Spec.sgn; rw [if_neg (by omega)]
  rw [hneg, hsg, one_mul] at hspec
  -- the real root
  obtain ⟨b1, b2⟩ := Spec.real_sqrt_between (n * 10 ^ e) (by rw [hRdef]; exact hns)
  rw [hRdef] at b1 b2
  have hY1 : (10 * R : ℝ) < 10 * Real.sqrt ((n * 10 ^ e : Nat) : ℝ) := by linarith
  have hY2 : 10 * Real.sqrt ((n * 10 ^ e : Nat) : ℝ) < 10 * R + 10 := by linarith
  have hst := Spec.sticky_round_real m R k (by omega) _ hY1 hY2
  have hcomm : R * 10 + 1 = 10 * R + 1 := by ring
  rw [hspec]
  simp only
  rw [hcomm, hst]
  congr 1
  -- √(n·10^-scale) · 10^(rs + 1 - k) = 10·√D / 10^k
  obtain ⟨rs, hrs⟩ : ∃ rs : Int, scale + (e : Int) = 2 * rs := ⟨(scale + (e : Int)) / 2, by omega⟩
  have hrs2 : (scale + (e : Int)) / 2 = rs := by omega
  rw [hrs2]
  have hscale : (scale + (e : Int)) / 2 + 1 + ((p : Int) - ((numDigits R + 1 : Nat) : Int)) = rs + 1 - k := by
    rw [hrs2]; push_cast; omega
  have hval : (n : ℝ) * (10 : ℝ) ^ (-scale) = ((n * 10 ^ e : Nat) : ℝ) * ((10 : ℝ) ^ (-rs)) ^ 2 := by
    have : -scale = (e : Int) + (-rs + -rs) := by omega
    rw [this, zpow_add₀ (by norm_num : (10 : ℝ) ≠ 0), zpow_add₀ (by norm_num : (10 : ℝ) ≠ 0), zpow_natCast]
    push_cast; ring
  have hpos : (0 : ℝ) ≤ (10 : ℝ) ^ (-rs) := (zpow_pos (by norm_num) _).le
  rw [hval, Real.sqrt_mul (by positivity), Real.sqrt_sq hpos]
  have hfin : rs + 1 + ((p : Int) - ((numDigits R + 1 : Nat) : Int)) = rs + 1 - k := by push_cast; omega
  rw [hfin]
  have : (10 : ℝ) ^ (rs + 1 - (k : Int)) = (10 : ℝ) ^ rs * 10 / (10 : ℝ) ^ k := by
    rw [zpow_sub₀ (by norm_num : (10 : ℝ) ≠ 0), zpow_add₀ (by norm_num : (10 : ℝ) ≠ 0), zpow_one, zpow_natCast]
  rw [this]
  have h10 : (10 : ℝ) ^ (-rs) * (10 : ℝ) ^ rs = 1 := by
    rw [← zpow_add₀ (by norm_num : (10 : ℝ) ≠ 0)]; simp
  rw [show Real.sqrt ((n * 10 ^ e : Nat) : ℝ) * (10 : ℝ) ^ (-rs) * ((10 : ℝ) ^ rs * 10 / (10 : ℝ) ^ k)
      = Real.sqrt ((n * 10 ^ e : Nat) : ℝ) * ((10 : ℝ) ^ (-rs) * (10 : ℝ) ^ rs) * 10 / (10 : ℝ) ^ k by ring, h10]
  ring

end BigDec
