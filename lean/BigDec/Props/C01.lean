import BigDec.Proofs.Arith
/-! # C01 — addition, subtraction and multiplication are exact for every operand form

Property theorems only (helper lemmas live in `Proofs/`).  `evalOp` is the model of what Rust's
trait resolution executes for each of the operator overloads; `Dec.value : Dec → ℚ`. -/
namespace BigDec

/-- the exact result over ℚ -/
def specBinQ : BinOp → ℚ → ℚ → ℚ
  | .add, x, y | .addAssign, x, y => x + y
  | .sub, x, y | .subAssign, x, y => x - y
  | .mul, x, y | .mulAssign, x, y => x * y

/-- operand forms that carry an integer (big integer or primitive): always scale 0 -/
def Form.isInt : Form → Bool
  | .BI | .RBI | .P | .RP => true
  | _ => false

theorem value_of_scale_zero {d : Dec} (h : d.scale = 0) : d.value = d.int := by
  simp [Dec.value, h]

/-- **C01 (full strength).** For every overload (operation × operand forms) and all operands of
    any sign, length and scale, the model's result denotes exactly `a ∘ b`. -/
theorem C01_exact (op : BinOp) (lf rf : Form) (a b r : Dec)
    (ha : lf.isInt = true → a.scale = 0) (hb : rf.isInt = true → b.scale = 0)
    (h : evalOp op lf rf a b = some r) :
    r.value = specBinQ op a.value b.value := by
  cases op <;> cases lf <;> cases rf <;>
    simp only [evalOp, Option.some.injEq, reduceCtorEq] at h <;>
    (try subst h) <;>
    (try (have ha' := value_of_scale_zero (ha rfl))) <;>
    (try (have hb' := value_of_scale_zero (hb rfl))) <;>
    simp only [specBinQ, value_addBigdecimals, value_addAssignRef, value_addRefs, value_addAssignDec,
      value_addAssignPrim, value_subDD, value_subAssignDec, value_subAssignRef, value_subRefD,
      value_subRDT, value_subRefT, value_subAssignPrim, value_mulDD, value_mulDRD, value_mulRDRD,
      value_mulDBI, value_mulRDRBI, value_mulBID, value_mulRBID, value_mulBIRD, value_mulAssignDec,
      value_mulAssignBI, value_mulAssignPrim, Dec.value_neg, *] <;>
    (try push_cast) <;> (try ring)

/-- number of overloads the model covers (non-vacuity of `C01_exact`: the hypothesis
    `evalOp … = some r` is satisfiable for exactly these (operation, lhs form, rhs form) triples) -/
def overloadCount : Nat :=
  let ops := [BinOp.add, .sub, .mul, .addAssign, .subAssign, .mulAssign]
  let forms := [Form.D, .RD, .Ref, .BI, .RBI, .P, .RP]
  (ops.flatMap fun o => forms.flatMap fun l => forms.filter fun r =>
    (evalOp o l r ⟨1, 0⟩ ⟨1, 0⟩).isSome).length




example : overloadCount = 98 := by decide
example : evalOp .add .RD .Ref ⟨12345, 3⟩ ⟨-5, 3⟩ = some ⟨12340, 3⟩ := by decide
example : evalOp .sub .D .P ⟨12345, 0⟩ ⟨-5, 0⟩ = some ⟨12350, 0⟩ := by decide

/-- negation, absolute value -/
theorem C01_neg (d : Dec) : d.neg.value = -d.value := Dec.value_neg d
theorem C01_abs (d : Dec) : d.abs.value = |d.value| := Dec.value_abs d
/-- `double`, `half`, `square`, `cube` -/
theorem C01_double (d : Dec) : d.double.value = 2 * d.value := by rw [value_double]; ring
theorem C01_half (d : Dec) : d.half.value = d.value / 2 := value_half d
theorem C01_square (d : Dec) : d.square.value = d.value ^ 2 := by rw [value_square]; ring
theorem C01_cube (d : Dec) : d.cube.value = d.value ^ 3 := by rw [value_cube]; ring
/-- iterator sums (owned items and borrowed items) -/
theorem C01_sum_owned (xs : List Dec) : (sumOwned xs).value = (xs.map Dec.value).sum := value_sumOwned xs
theorem C01_sum_refs (xs : List Dec) : (sumRefs xs).value = (xs.map Dec.value).sum := value_sumRefs xs

/-- the power-of-ten routine used by every alignment is exact for every exponent
    (all three algorithms, thresholds as in the current source) -/
theorem C01_ten_to_the (pow : Nat) : tenToTheUint pow = 10 ^ pow := tenToTheUint_eq pow

/-- the executable oracle used by the correspondence check decides value equality over ℚ -/
theorem C01_oracle_sound (x y : Dec) : Spec.valueEq x y = true ↔ x.value = y.value := Spec.valueEq_iff x y
theorem C01_oracle_add (a b : Dec) : (Spec.add a b).value = a.value + b.value := Spec.value_add a b
theorem C01_oracle_sub (a b : Dec) : (Spec.sub a b).value = a.value - b.value := Spec.value_sub a b
theorem C01_oracle_mul (a b : Dec) : (Spec.mul a b).value = a.value * b.value := Spec.value_mul a b

end BigDec
