import BigDec.Model.Rem
import BigDec.Proofs.Value
/-! # C09 — remainder satisfies the truncated-division identity exactly -/
namespace BigDec
open Generated Spec

theorem setScale_int_eq_alignTo (d : Dec) (s : Int) (h : d.scale ≤ s) :
    (d.setScale s).int = Spec.alignTo d s := by
  unfold Dec.setScale Spec.alignTo
  have hb := fast_bounds_ok
  split
  · rename_i h0; simp [h0]
  · split
    · split
      · rename_i hlt; rw [tenPowU64_eq (by omega)]
      · rw [tenToTheUint_eq]
    · split
      · omega
      · have : s = d.scale := by omega
        subst this; simp

theorem alignTo_self (d : Dec) : Spec.alignTo d d.scale = d.int := by
  simp [Spec.alignTo]

theorem alignTo_ne_zero (d : Dec) (S : Int) (h : d.int ≠ 0) : Spec.alignTo d S ≠ 0 := by
  unfold Spec.alignTo
  exact mul_ne_zero h (by positivity)

/-- **all five remainder forms compute the same thing**: the truncated remainder of the operands
    aligned to the larger scale, at that scale; a zero divisor panics in every form. -/
theorem C09_forms_agree (f : RemForm) (a b : Dec) : evalRem f a b = Spec.rem a b := by
  have ha := setScale_int_eq_alignTo a (max a.scale b.scale) (le_max_left _ _)
  have hb := setScale_int_eq_alignTo b (max a.scale b.scale) (le_max_right _ _)
  have hz : b.int = 0 → Spec.alignTo b (max a.scale b.scale) = 0 := by
    intro h; simp [Spec.alignTo, h]
  have hnz : b.int ≠ 0 → Spec.alignTo b (max a.scale b.scale) ≠ 0 := alignTo_ne_zero b _
  have e0 : ∀ d : Dec, Spec.alignTo d d.scale = d.int := alignTo_self
  have em : ∀ i : Int, ∀ s t : Int, i * ((10 ^ (t - s).toNat : Nat) : Int) = Spec.alignTo ⟨i, s⟩ t := by
    intros; rfl
  rcases lt_trichotomy a.scale b.scale with hlt | heq | hgt
  · have hm : max a.scale b.scale = b.scale := max_eq_right (le_of_lt hlt)
    rw [hm] at ha hb hz hnz
    have hne : ¬ a.scale = b.scale := by omega
    have hne' : ¬ b.scale = a.scale := by omega
    by_cases h0 : b.int = 0 <;>
    cases f <;> simp [evalRem, remDD, remDRD, remRDD, remRDRD, Spec.rem, bigRem, ha, hb, tenToTheUint_eq,
      hm, hne, hne', hlt, h0, e0, Spec.alignTo]
  · have hm : max a.scale b.scale = b.scale := by rw [heq]; simp
    rw [hm] at ha hb hz hnz
    by_cases h0 : b.int = 0 <;>
    cases f <;> simp [evalRem, remDD, remDRD, remRDD, remRDRD, Spec.rem, bigRem, ha, hb, tenToTheUint_eq,
      hm, heq, h0, e0, Spec.alignTo]
  · have hm : max a.scale b.scale = a.scale := max_eq_left (le_of_lt hgt)
    rw [hm] at ha hb hz hnz
    have hne : ¬ a.scale = b.scale := by omega
    have hne' : ¬ b.scale = a.scale := by omega
    have hnl : ¬ a.scale < b.scale := by omega
    by_cases h0 : b.int = 0 <;>
    cases f <;> simp [evalRem, remDD, remDRD, remRDD, remRDRD, Spec.rem, bigRem, ha, hb, tenToTheUint_eq,
      hm, hne, hne', hnl, h0, e0, Spec.alignTo]

end BigDec

namespace BigDec
open Generated Spec

/-- truncated remainder facts on integers -/
theorem tmod_facts (A B : Int) (hB : B ≠ 0) :
    A = B * A.tdiv B + A.tmod B ∧ (A.tmod B).natAbs < B.natAbs ∧
    (0 ≤ A → 0 ≤ A.tmod B) ∧ (A ≤ 0 → A.tmod B ≤ 0) ∧ A.tmod (-B) = A.tmod B := by
  refine ⟨(Int.mul_tdiv_add_tmod A B).symm, ?_, Int.tmod_nonneg B, ?_, Int.tmod_neg A B⟩
  · rw [Int.natAbs_tmod]
    exact Nat.mod_lt _ (Int.natAbs_pos.mpr hB)
  · intro hA
    have h := Int.tmod_nonneg (a := -A) B (by omega)
    rw [Int.neg_tmod] at h
    omega

/-- **C09 (full strength, over ℚ).** For `b ≠ 0` the remainder `r = a % b` (any of the five
    forms) satisfies `r = a − b·t` for an integer `t`, `|r| < |b|`, and `r` is zero or has the sign
    of `a` — which pins `t = trunc(a/b)`. -/
theorem C09_rem_spec (f : RemForm) (a b r : Dec) (h : evalRem f a b = some r) :
    b.int ≠ 0 ∧ ∃ t : Int, r.value = a.value - b.value * t ∧ |r.value| < |b.value| ∧
      (0 ≤ a.value → 0 ≤ r.value) ∧ (a.value ≤ 0 → r.value ≤ 0) := by
  rw [C09_forms_agree] at h
  unfold Spec.rem at h
  simp only [] at h
  split at h
  · simp at h
  · rename_i hb0
    simp only [Option.some.injEq] at h
    refine ⟨hb0, ?_⟩
    set S := max a.scale b.scale with hS
    set A := Spec.alignTo a S with hA
    set B := Spec.alignTo b S with hB
    have hBne : B ≠ 0 := alignTo_ne_zero b S hb0
    obtain ⟨f1, f2, f3, f4, _⟩ := tmod_facts A B hBne
    have hav : a.value = (A : ℚ) * (10:ℚ) ^ (-S) := (Spec.alignTo_value a S (le_max_left _ _)).symm
    have hbv : b.value = (B : ℚ) * (10:ℚ) ^ (-S) := (Spec.alignTo_value b S (le_max_right _ _)).symm
    have hP : (0:ℚ) < (10:ℚ) ^ (-S) := zpow_pos (by norm_num) _
    refine ⟨A.tdiv B, ?_, ?_, ?_, ?_⟩
    · rw [← h, hav, hbv]
      simp only [Dec.value]
      have : (A : ℚ) = (B : ℚ) * ((A.tdiv B : Int) : ℚ) + ((A.tmod B : Int) : ℚ) := by exact_mod_cast f1
      rw [this]; ring
    · rw [← h, hbv]
      simp only [Dec.value]
      rw [abs_mul, abs_mul, abs_of_pos hP]
      apply mul_lt_mul_of_pos_right _ hP
      have : ((A.tmod B).natAbs : ℚ) < (B.natAbs : ℚ) := by exact_mod_cast f2
      rw [Nat.cast_natAbs, Nat.cast_natAbs] at this
      exact_mod_cast this
    · intro ha
      rw [← h]; simp only [Dec.value]
      have hA0 : 0 ≤ A := by
        rw [hav] at ha
        have := nonneg_of_mul_nonneg_left ha hP
        exact_mod_cast this
      have := f3 hA0
      exact mul_nonneg (by exact_mod_cast this) (le_of_lt hP)
    · intro ha
      rw [← h]; simp only [Dec.value]
      have hA0 : A ≤ 0 := by
        rw [hav] at ha
        by_contra hc
        push Not at hc
        have : (0:ℚ) < (A:ℚ) * (10:ℚ) ^ (-S) := mul_pos (by exact_mod_cast hc) hP
        linarith
      have := f4 hA0
      exact mul_nonpos_of_nonpos_of_nonneg (by exact_mod_cast this) (le_of_lt hP)

/-- the sign of the divisor does not matter -/
theorem C09_sign_b_irrelevant (f : RemForm) (a b : Dec) : evalRem f a b.neg = evalRem f a b := by
  rw [C09_forms_agree, C09_forms_agree]
  unfold Spec.rem Dec.neg Spec.alignTo
  simp only [neg_eq_zero, neg_mul, Int.tmod_neg]

/-- a zero divisor panics in every form -/
theorem C09_zero_panics (f : RemForm) (a b : Dec) (h : b.int = 0) : evalRem f a b = none := by
  rw [C09_forms_agree]; simp [Spec.rem, h]

/-- non-vacuity -/
example : Spec.rem ⟨-7, 0⟩ ⟨2, 0⟩ = some ⟨-1, 0⟩ := by decide

end BigDec
