import BigDec.Model.Roots
import BigDec.Proofs.CbrtReal
import BigDec.Proofs.Round
import Mathlib.Tactic.Ring
import Mathlib.Tactic.Linarith
/-! # C11 — cube root is the true root rounded as the context dictates, for both signs

`implCbrt` models the repaired `impl_cbrt_uint_scale`: shift so that the total scale is a multiple
of three and the integer has at least `3(p+4)` digits, floor cube root (`nth_root(3)`), then an
inline rounding of the root to `p` digits by `round_pair` on (last kept digit, first dropped digit,
"everything after is zero AND the root was exact").  The theorems: the bisection really is the
floor cube root; the inline rounding is the declarative `roundUpM` applied to the *true* root
(through a virtual half-unit sticky tail); the comparisons that rounding makes agree with the
comparisons of the real cube root against the kept value and the half-way point; the scale is
exactly a third; and a negative argument is the mirror image. -/
namespace BigDec
open Generated Spec

theorem C11_zero (s : Int) (p : Nat) (m : Mode) : (Dec.mk 0 s).cbrtCtx p m = ⟨0, s⟩ := by
  simp [Dec.cbrtCtx, Dec.isZero]

/-- the bisection keeps `lo³ ≤ n < hi³` and ends with the floor cube root -/
theorem icbrtLoop_spec (n : Nat) : ∀ (fuel lo hi : Nat), lo < hi → hi - lo ≤ 2 ^ fuel →
    lo * lo * lo ≤ n → n < hi * hi * hi →
    icbrtLoop n fuel lo hi * icbrtLoop n fuel lo hi * icbrtLoop n fuel lo hi ≤ n ∧
    n < (icbrtLoop n fuel lo hi + 1) * (icbrtLoop n fuel lo hi + 1) * (icbrtLoop n fuel lo hi + 1) := by
  intro fuel
  induction fuel with
  | zero =>
    intro lo hi hlt hw hlo hhi
    have : hi = lo + 1 := by simp at hw; omega
    subst this
    exact ⟨hlo, hhi⟩
  | succ fuel ih =>
    intro lo hi hlt hw hlo hhi
    unfold icbrtLoop
    by_cases h1 : lo + 1 ≥ hi
    · rw [if_pos h1]
      have : hi = lo + 1 := by omega
      subst this
      exact ⟨hlo, hhi⟩
    · rw [if_neg h1]
      simp only
      have hpow : 2 ^ (fuel + 1) = 2 * 2 ^ fuel := by rw [Nat.pow_succ]; ring
      by_cases h2 : (lo + hi) / 2 * ((lo + hi) / 2) * ((lo + hi) / 2) ≤ n
      · rw [if_pos h2]
        exact ih _ _ (by omega) (by omega) h2 hhi
      · rw [if_neg h2]
        exact ih _ _ (by omega) (by omega) hlo (by omega)

/-- **floor cube root**: `icbrt n` is the integer `r` with `r³ ≤ n < (r+1)³` -/
theorem C11_icbrt_floor (n : Nat) :
    icbrt n * icbrt n * icbrt n ≤ n ∧ n < (icbrt n + 1) * (icbrt n + 1) * (icbrt n + 1) := by
  unfold icbrt
  apply icbrtLoop_spec
  · exact Nat.pos_of_ne_zero (by positivity)
  · simp only [Nat.sub_zero]
    apply Nat.pow_le_pow_right (by norm_num)
    have := Nat.div_le_self n.log2 3
    omega
  · simp
  · -- n < 2^(log2 n + 1) ≤ (2^(log2 n / 3 + 1))³
    have h1 : n < 2 ^ (n.log2 + 1) := Nat.lt_log2_self
    have h2 : 2 ^ (n.log2 / 3 + 1) * 2 ^ (n.log2 / 3 + 1) * 2 ^ (n.log2 / 3 + 1) = 2 ^ (3 * (n.log2 / 3 + 1)) := by
      rw [← Nat.pow_add, ← Nat.pow_add]; congr 1; ring
    rw [h2]
    calc n < 2 ^ (n.log2 + 1) := h1
      _ ≤ 2 ^ (3 * (n.log2 / 3 + 1)) := Nat.pow_le_pow_right (by norm_num) (by omega)

/-- for an integer `H`, the floor cube root `r` of `D` compares with `H` as the real cube root does -/
theorem cbrt_floor_cmp (D r H : Nat) (h1 : r * r * r ≤ D) (h2 : D < (r + 1) * (r + 1) * (r + 1)) :
    (r < H ↔ D < H * H * H) := by
  constructor
  · intro h
    have : r + 1 ≤ H := h
    calc D < (r + 1) * (r + 1) * (r + 1) := h2
      _ ≤ H * H * H := Nat.mul_le_mul (Nat.mul_le_mul this this) this
  · intro h
    by_contra hn
    have : H ≤ r := by omega
    have : H * H * H ≤ r * r * r := Nat.mul_le_mul (Nat.mul_le_mul this this) this
    omega

/-- **the decisions of the rounding are those of the true root.**  Cut the floor root `r` of `D` at
    `10^t` (`t ≥ 1`): kept part `res`, dropped tail `rem`, plus half a unit of sticky when the root
    is inexact (`δ`).  The virtual tail `2·rem + δ` out of `2·10^t` is zero exactly when the real root
    is `res·10^t`, below the half exactly when the real root is below the half-way point `H`, and
    equal to the half exactly when the real root is `H`. -/
theorem C11_decisions (D t : Nat) (ht : 1 ≤ t) :
    let r := icbrt D
    let res := r / 10 ^ t
    let rem := r % 10 ^ t
    let δ := if r * r * r = D then 0 else 1
    let H := res * 10 ^ t + 5 * 10 ^ (t - 1)
    (2 * rem + δ = 0 ↔ D = (res * 10 ^ t) * (res * 10 ^ t) * (res * 10 ^ t)) ∧
    (2 * rem + δ < 10 ^ t ↔ D < H * H * H) ∧
    (2 * rem + δ = 10 ^ t ↔ D = H * H * H) := by
  intro r res rem δ H
  obtain ⟨h1, h2⟩ := C11_icbrt_floor D
  have hr : r = res * 10 ^ t + rem := by
    show icbrt D = icbrt D / 10 ^ t * 10 ^ t + icbrt D % 10 ^ t
    rw [Nat.mul_comm]; exact (Nat.div_add_mod _ _).symm
  have hp : 10 ^ t = 10 * 10 ^ (t - 1) := by
    rw [← Nat.pow_succ']; congr 1; omega
  have hrem : rem < 10 ^ t := Nat.mod_lt _ (by positivity)
  have hδ : δ = 0 ∨ δ = 1 := by
    show (if r * r * r = D then 0 else 1) = 0 ∨ (if r * r * r = D then 0 else 1) = 1
    split <;> simp
  have hδ0 : δ = 0 ↔ r * r * r = D := by
    show (if r * r * r = D then 0 else 1) = 0 ↔ _
    split <;> simp_all
  refine ⟨?_, ?_, ?_⟩
  · constructor
    · intro h
      have hrem0 : rem = 0 := by omega
      have hd : δ = 0 := by omega
      rw [← hδ0.mp hd, hr, hrem0]; ring
    · intro h
      -- D is the cube of res·10^t, so the floor root is res·10^t and it is exact
      have hle : ¬ (r < res * 10 ^ t) := by
        rw [cbrt_floor_cmp D r _ h1 h2]; omega
      have hge : ¬ (res * 10 ^ t < r) := by
        intro hlt
        have : res * 10 ^ t + 1 ≤ r := hlt
        have : (res * 10 ^ t + 1) * (res * 10 ^ t + 1) * (res * 10 ^ t + 1) ≤ r * r * r :=
          Nat.mul_le_mul (Nat.mul_le_mul this this) this
        have hx : res * 10 ^ t * (res * 10 ^ t) * (res * 10 ^ t) < (res * 10 ^ t + 1) * (res * 10 ^ t + 1) * (res * 10 ^ t + 1) := by
          nlinarith
        have h1' : r * r * r ≤ D := h1
        exact absurd (lt_of_lt_of_le (lt_of_le_of_lt (h ▸ h1') hx) this) (lt_irrefl _)
      have hreq : r = res * 10 ^ t := by omega
      have hrem0 : rem = 0 := by omega
      have : r * r * r = D := by rw [h, hreq]
      have := hδ0.mpr this
      omega
  · rw [← cbrt_floor_cmp D r H h1 h2]
    show 2 * rem + δ < 10 ^ t ↔ r < res * 10 ^ t + 5 * 10 ^ (t - 1)
    rw [hr]
    constructor <;> intro h <;> omega
  · constructor
    · intro h
      have hd : δ = 0 := by omega
      have hrem5 : rem = 5 * 10 ^ (t - 1) := by omega
      have : r = H := by show r = res * 10 ^ t + 5 * 10 ^ (t - 1); omega
      rw [← hδ0.mp hd, this]
    · intro h
      have hle : ¬ (r < H) := by
        rw [cbrt_floor_cmp D r _ h1 h2]; omega
      have hge : ¬ (H < r) := by
        intro hlt
        have : H + 1 ≤ r := hlt
        have : (H + 1) * (H + 1) * (H + 1) ≤ r * r * r :=
          Nat.mul_le_mul (Nat.mul_le_mul this this) this
        have hx : H * H * H < (H + 1) * (H + 1) * (H + 1) := by nlinarith
        have h1' : r * r * r ≤ D := h1
        exact absurd (lt_of_lt_of_le (lt_of_le_of_lt (h ▸ h1') hx) this) (lt_irrefl _)
      have hreq : r = H := by omega
      have : r * r * r = D := by rw [h, hreq]
      have hd := hδ0.mpr this
      have : rem = 5 * 10 ^ (t - 1) := by
        have : res * 10 ^ t + rem = res * 10 ^ t + 5 * 10 ^ (t - 1) := by rw [← hr]; exact hreq
        omega
      omega

/-- **the inline rounding of the code is the declarative rounding of the true root.**  With the root
    `r` cut at `10^t`, the digit pair handed to `round_pair` and its trailing-zeros flag ("the rest of
    the tail is zero and the root was exact") give exactly `roundUpM` on the virtual tail
    `2·rem + δ` of modulus `2·10^t` - whose comparisons are those of the real root (`C11_decisions`). -/
theorem C11_code_rounding (m : Mode) (neg : Bool) (r t : Nat) (ht : 1 ≤ t) (exact : Bool) :
    roundPair m neg (r / 10 ^ t % 10) (r % 10 ^ t / 10 ^ (t - 1))
        (needsTrailingZeros m (r % 10 ^ t / 10 ^ (t - 1)) && (exact && r % 10 ^ t % 10 ^ (t - 1) == 0))
      = r / 10 ^ t % 10 +
        (if roundUpM m neg (r / 10 ^ t) (2 * (r % 10 ^ t) + (if exact then 0 else 1)) (2 * 10 ^ t) then 1 else 0) := by
  have hp : 10 ^ t = 10 * 10 ^ (t - 1) := by
    rw [← Nat.pow_succ']; congr 1; omega
  have hP : 0 < 10 ^ (t - 1) := by positivity
  have hrem : r % 10 ^ t < 10 ^ t := Nat.mod_lt _ (by positivity)
  have hlow : r % 10 ^ t / 10 ^ (t - 1) < 10 := by
    rw [Nat.div_lt_iff_lt_mul hP]; omega
  have hrest : r % 10 ^ t % 10 ^ (t - 1) < 10 ^ (t - 1) := Nat.mod_lt _ hP
  have hsplit : r % 10 ^ t = r % 10 ^ t / 10 ^ (t - 1) * 10 ^ (t - 1) + r % 10 ^ t % 10 ^ (t - 1) := by
    rw [Nat.mul_comm]; exact (Nat.div_add_mod _ _).symm
  -- 1. drop the guard
  have h1 := roundPair_tz_guard m neg ⟨r / 10 ^ t % 10, Nat.mod_lt _ (by norm_num)⟩ ⟨_, hlow⟩
    (exact && r % 10 ^ t % 10 ^ (t - 1) == 0)
  simp only at h1
  rw [h1]
  -- 2. the abstract digit-pair lemma with the half-unit sticky tail
  have h2 := roundPair_tail m neg (r / 10 ^ t) (r % 10 ^ t / 10 ^ (t - 1))
    (2 * (r % 10 ^ t % 10 ^ (t - 1)) + (if exact then 0 else 1)) (2 * 10 ^ (t - 1)) (by omega)
    (by cases exact <;> simp <;> omega) hlow
  have hflag : decide (2 * (r % 10 ^ t % 10 ^ (t - 1)) + (if exact then 0 else 1) = 0)
      = (exact && r % 10 ^ t % 10 ^ (t - 1) == 0) := by
    cases exact
    · simp
    · by_cases hx : r % 10 ^ t % 10 ^ (t - 1) = 0 <;> simp [hx]
  rw [hflag] at h2
  rw [h2]
  have e1 : r % 10 ^ t / 10 ^ (t - 1) * (2 * 10 ^ (t - 1)) = 2 * (r % 10 ^ t / 10 ^ (t - 1) * 10 ^ (t - 1)) := by ring
  have e2 : r % 10 ^ t / 10 ^ (t - 1) * (2 * 10 ^ (t - 1)) + (2 * (r % 10 ^ t % 10 ^ (t - 1)) + (if exact then 0 else 1))
      = 2 * (r % 10 ^ t) + (if exact then 0 else 1) := by
    rw [e1]; omega
  have e3 : 10 * (2 * 10 ^ (t - 1)) = 2 * 10 ^ t := by rw [hp]; ring
  rw [e2, e3]

/-- the total scale handed to the root is a multiple of three, the result scale exactly a third -/
theorem C11_scale_third (scale : Int) (shift0 : Nat) :
    let ss : Int := scale + shift0
    let q := (tdivRem ss 3).1
    let rem := (tdivRem ss 3).2
    let newScale0 : Int := if rem > 0 then q + 1 else q
    let expShift : Nat := if rem > 0 then shift0 + (3 - rem).toNat else if rem < 0 then shift0 + (-rem).toNat else shift0
    scale + (expShift : Int) = 3 * newScale0 := by
  intro ss q rem newScale0 expShift
  have h1 : 3 * q + rem = ss := Int.mul_tdiv_add_tmod ss 3
  have h2 : rem < 3 := Int.tmod_lt_of_pos ss (by norm_num)
  have h3 : -3 < rem := Int.lt_tmod_of_pos ss (by norm_num)
  show scale + ((if rem > 0 then shift0 + (3 - rem).toNat else if rem < 0 then shift0 + (-rem).toNat else shift0 : Nat) : Int)
    = 3 * (if rem > 0 then q + 1 else q)
  have hss : ss = scale + shift0 := rfl
  by_cases hpos : rem > 0
  · rw [if_pos hpos, if_pos hpos]; push_cast; omega
  · rw [if_neg hpos, if_neg hpos]
    by_cases hneg : rem < 0
    · rw [if_pos hneg]; push_cast; omega
    · rw [if_neg hneg]; omega

/-- `round_pair` for a negative number is `round_pair` of the mirrored mode for a positive one -/
theorem roundPair_mirror (m : Mode) (l low : Nat) (tz : Bool) :
    roundPair m true l low tz = roundPair m.mirror false l low tz := by
  unfold roundPair
  cases m <;> simp [Mode.mirror]

theorem needsTrailingZeros_mirror (m : Mode) (d : Nat) : needsTrailingZeros m.mirror d = needsTrailingZeros m d := by
  cases m <;> rfl

/-- **both signs**: the cube root of a negative number is the negated cube root of its magnitude
    under the mirrored rounding mode (Floor ↔ Ceiling; the five symmetric modes unchanged) -/
theorem C11_mirror (n : Nat) (scale : Int) (p : Nat) (m : Mode) :
    implCbrt n scale p m true = (implCbrt n scale p m.mirror false).neg := by
  unfold implCbrt Dec.neg
  simp only [needsTrailingZeros_mirror, roundPair_mirror]
  simp

/-- through the entry point: `cbrt(-x)` under `m` is `-cbrt(x)` under the mirrored mode -/
theorem C11_ctx_mirror (d : Dec) (p : Nat) (m : Mode) (h : d.int < 0) :
    d.cbrtCtx p m = ((Dec.mk (-d.int) d.scale).cbrtCtx p m.mirror).neg ∨ (Dec.mk (-d.int) d.scale).isOne = true := by
  by_cases h1 : (Dec.mk (-d.int) d.scale).isOne = true
  · right; exact h1
  · left
    have hz : d.isZero = false := by simp [Dec.isZero]; omega
    have hz' : (Dec.mk (-d.int) d.scale).isZero = false := by simp [Dec.isZero]; omega
    have ho : d.isOne = false := by
      unfold Dec.isOne
      split
      · have hp : (0:Int) < (10:Int) ^ d.scale.toNat := by positivity
        simp; omega
      · rfl
    have h1' : (Dec.mk (-d.int) d.scale).isOne = false := by simpa using h1
    unfold Dec.cbrtCtx
    simp only [hz, ho, hz', h1', Bool.or_false, Bool.false_eq_true, if_false]
    have hn : (-d.int).natAbs = d.int.natAbs := Int.natAbs_neg _
    have hneg : decide (d.int < 0) = true := by simpa using h
    have hpos : decide (-d.int < 0) = false := by simp; omega
    rw [hneg, hpos, hn]
    exact C11_mirror _ _ _ _

/-- the floor cube root of a number with at least `3(p+4)` digits has at least `p+4` digits, so at
    least four digits are trimmed and the inline rounding always has a digit to look at -/
theorem icbrt_digits (D p : Nat) (hD : 3 * (p + 4) ≤ numDigits D) : p + 4 ≤ numDigits (icbrt D) := by
  obtain ⟨h1, h2⟩ := C11_icbrt_floor D
  have hD0 : D ≠ 0 := by
    intro h; rw [h, numDigits_zero] at hD; omega
  have hlow := pow_numDigits_le D hD0
  have hpow : 10 ^ (3 * (p + 4) - 1) ≤ D :=
    le_trans (Nat.pow_le_pow_right (by norm_num) (by omega)) hlow
  -- (10^(p+3))^3 = 10^(3p+9) ≤ 10^(3p+11) ≤ D < (r+1)^3
  have hcube : (10 ^ (p + 3)) * (10 ^ (p + 3)) * (10 ^ (p + 3)) ≤ D := by
    calc (10 ^ (p + 3)) * (10 ^ (p + 3)) * (10 ^ (p + 3)) = 10 ^ (3 * (p + 3)) := by
          rw [← Nat.pow_add, ← Nat.pow_add]; congr 1; ring
      _ ≤ 10 ^ (3 * (p + 4) - 1) := Nat.pow_le_pow_right (by norm_num) (by omega)
      _ ≤ D := hpow
  have hr : 10 ^ (p + 3) ≤ icbrt D := by
    by_contra hlt
    have hlt' : icbrt D < 10 ^ (p + 3) := by omega
    have := (cbrt_floor_cmp D (icbrt D) (10 ^ (p + 3)) h1 h2).mp hlt'
    omega
  have hne : icbrt D ≠ 0 := by
    have : 0 < 10 ^ (p + 3) := by positivity
    omega
  by_contra hnd
  have hlt := lt_pow_numDigits (icbrt D)
  have : 10 ^ numDigits (icbrt D) ≤ 10 ^ (p + 3) := Nat.pow_le_pow_right (by norm_num) (by omega)
  omega

/-- **assembly.**  For every non-zero magnitude, scale, precision, mode and sign, `impl_cbrt` returns
    the floor cube root `r` of the shifted integer `D` cut after `p` digits (`t ≥ 4` digits dropped),
    incremented exactly when the declarative `roundUpM` says so on the virtual tail `2·(r mod 10^t) + δ`
    of modulus `2·10^t` - whose comparisons are those of the real `∛D` (`C11_decisions`) - at the scale
    `(scale + shift)/3 − t` (`C11_scale_third`).  That is: the true root rounded as the context dictates. -/
theorem C11_implCbrt_spec (n : Nat) (scale : Int) (p : Nat) (m : Mode) (neg : Bool) (hn : n ≠ 0) :
    let shift0 := 3 * (p + cbrtExtraDigits) - numDigits n
    let ss : Int := scale + shift0
    let rem3 := (tdivRem ss 3).2
    let newScale0 : Int := if rem3 > 0 then (tdivRem ss 3).1 + 1 else (tdivRem ss 3).1
    let expShift : Nat := if rem3 > 0 then shift0 + (3 - rem3).toNat else if rem3 < 0 then shift0 + (-rem3).toNat else shift0
    let D := n * 10 ^ expShift
    let r := icbrt D
    let t := numDigits r - p
    let δ := if r * r * r = D then 0 else 1
    4 ≤ t ∧
    implCbrt n scale p m neg =
      ⟨(if neg then -1 else 1) *
        ((r / 10 ^ t + (if roundUpM m neg (r / 10 ^ t) (2 * (r % 10 ^ t) + δ) (2 * 10 ^ t) then 1 else 0) : Nat) : Int),
       newScale0 - t⟩ := by
  intro shift0 ss rem3 newScale0 expShift D r t δ
  have hge : shift0 ≤ expShift := by
    show shift0 ≤ (if rem3 > 0 then shift0 + (3 - rem3).toNat else if rem3 < 0 then shift0 + (-rem3).toNat else shift0)
    split
    · omega
    · split <;> omega
  have hdig : 3 * (p + 4) ≤ numDigits D := by
    show 3 * (p + 4) ≤ numDigits (n * 10 ^ expShift)
    rw [numDigits_mul_pow n expShift hn]
    have : shift0 = 3 * (p + 4) - numDigits n := rfl
    omega
  have hrd := icbrt_digits D p hdig
  have ht : 4 ≤ t := by show 4 ≤ numDigits (icbrt D) - p; omega
  refine ⟨ht, ?_⟩
  have hcr := C11_code_rounding m neg r t (by omega) (r * r * r == D)
  have hδ : (if (r * r * r == D) = true then 0 else 1) = δ := by
    show _ = (if r * r * r = D then 0 else 1)
    by_cases h : r * r * r = D <;> simp [h]
  rw [hδ] at hcr
  unfold implCbrt
  simp only []
  show (⟨(if neg then -1 else 1) * ((r / 10 ^ t + roundPair m neg (r / 10 ^ t % 10) (r % 10 ^ t / 10 ^ (t - 1))
      (needsTrailingZeros m (r % 10 ^ t / 10 ^ (t - 1)) && (r * r * r == D && r % 10 ^ t % 10 ^ (t - 1) == 0)) - r / 10 ^ t % 10 : Nat) : Int),
      newScale0 - t⟩ : Dec) = _
  rw [hcr]
  generalize (if roundUpM m neg (r / 10 ^ t) (2 * (r % 10 ^ t) + δ) (2 * 10 ^ t) = true then 1 else 0) = U
  generalize r / 10 ^ t = A
  have e : A + (A % 10 + U) - A % 10 = A + U := by
    clear hcr hrd hdig hge ht
    omega
  rw [e]

example : (Dec.mk (-27) 0).cbrtCtx 3 .Floor = ⟨-300, 2⟩ ∧ (Dec.mk 2 0).cbrtCtx 4 .HalfEven = ⟨1260, 3⟩ := by
  constructor <;> decide +kernel

/-- **the real-number reading of `cbrt`** (inexact case): for the real cube root `c ≥ 0` of the
    magnitude `n·10^-scale` (any real with `c³ = n·10^-scale`), whatever `impl_cbrt` returns when the
    shifted integer `D` is not a perfect cube has, as its magnitude, `c` rounded at the position of the
    result's own last digit: floor / ceiling as the mode and the sign dictate, nearest for the three
    half modes (a tie is impossible). -/
theorem C11_cbrt_real (n : Nat) (scale : Int) (p : Nat) (m : Mode) (neg : Bool) (hn : n ≠ 0)
    (c : ℝ) (hc0 : 0 ≤ c) (hc : c ^ 3 = (n : ℝ) * (10 : ℝ) ^ (-scale))
    (hinexact :
      let shift0 := 3 * (p + cbrtExtraDigits) - numDigits n
      let rem3 := (tdivRem (scale + shift0) 3).2
      let expShift : Nat := if rem3 > 0 then shift0 + (3 - rem3).toNat else if rem3 < 0 then shift0 + (-rem3).toNat else shift0
      icbrt (n * 10 ^ expShift) * icbrt (n * 10 ^ expShift) * icbrt (n * 10 ^ expShift) ≠ n * 10 ^ expShift) :
    (implCbrt n scale p m neg).int =
      (if neg then -1 else 1) * Spec.magRound m neg (c * (10 : ℝ) ^ (implCbrt n scale p m neg).scale) := by
  obtain ⟨ht, hspec⟩ := C11_implCbrt_spec n scale p m neg hn
  have hthird := C11_scale_third scale (3 * (p + cbrtExtraDigits) - numDigits n)
  simp only at hspec hinexact hthird ht
  generalize hsh : 3 * (p + cbrtExtraDigits) - numDigits n = shift0 at hspec hinexact hthird ht
  generalize hr3 : (tdivRem (scale + (shift0 : Int)) 3).2 = rem3 at hspec hinexact hthird ht
  generalize hq3 : (tdivRem (scale + (shift0 : Int)) 3).1 = q3 at hspec hthird
  generalize hns : (if rem3 > 0 then q3 + 1 else q3 : Int) = newScale0 at hspec hthird
  generalize hes : (if rem3 > 0 then shift0 + (3 - rem3).toNat else if rem3 < 0 then shift0 + (-rem3).toNat else shift0 : Nat) = expShift
    at hspec hinexact hthird ht
  obtain ⟨f1, f2⟩ := C11_icbrt_floor (n * 10 ^ expShift)
  generalize hR : icbrt (n * 10 ^ expShift) = r at hspec hinexact f1 f2 ht
  rw [if_neg hinexact] at hspec
  generalize hT : numDigits r - p = t at hspec ht
  rw [hspec]
  simp only
  -- the real root of D
  have hY3 : (c * (10 : ℝ) ^ newScale0) ^ 3 = ((n * 10 ^ expShift : Nat) : ℝ) := by
    rw [mul_pow, hc]
    have : ((10 : ℝ) ^ newScale0) ^ 3 = (10 : ℝ) ^ (3 * newScale0) := by
      rw [← zpow_natCast, ← zpow_mul]; congr 1; ring
    rw [this, ← hthird, mul_assoc, ← zpow_add₀ (by norm_num : (10 : ℝ) ≠ 0)]
    have : -scale + (scale + (expShift : Int)) = (expShift : Int) := by ring
    rw [this, zpow_natCast]; push_cast; ring
  have hY0 : 0 ≤ c * (10 : ℝ) ^ newScale0 := mul_nonneg hc0 (zpow_pos (by norm_num) _).le
  have hlt : r * r * r < n * 10 ^ expShift := lt_of_le_of_ne f1 hinexact
  have b1 : (r : ℝ) < c * (10 : ℝ) ^ newScale0 := by
    by_contra hcon
    push Not at hcon
    have : (c * (10 : ℝ) ^ newScale0) ^ 3 ≤ (r : ℝ) ^ 3 := pow_le_pow_left₀ hY0 hcon 3
    rw [hY3] at this
    have h' : ((r * r * r : Nat) : ℝ) < ((n * 10 ^ expShift : Nat) : ℝ) := by exact_mod_cast hlt
    push_cast at h' this
    nlinarith
  have b2 : c * (10 : ℝ) ^ newScale0 < (r : ℝ) + 1 := by
    by_contra hcon
    push Not at hcon
    have : ((r : ℝ) + 1) ^ 3 ≤ (c * (10 : ℝ) ^ newScale0) ^ 3 := pow_le_pow_left₀ (by positivity) hcon 3
    rw [hY3] at this
    have h' : ((n * 10 ^ expShift : Nat) : ℝ) < (((r + 1) * (r + 1) * (r + 1) : Nat) : ℝ) := by exact_mod_cast f2
    push_cast at h' this
    nlinarith
  have hcell := Spec.cell_round_real m neg r t (by omega) _ b1 b2
  have hscale : c * (10 : ℝ) ^ (newScale0 - (t : Int)) = c * (10 : ℝ) ^ newScale0 / (10 : ℝ) ^ t := by
    rw [zpow_sub₀ (by norm_num : (10 : ℝ) ≠ 0), zpow_natCast]; ring
  rw [hscale, ← hcell]

end BigDec
