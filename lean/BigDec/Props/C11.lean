import BigDec.Model.Roots
/-! # C11 (theorems under construction) -/
namespace BigDec
theorem C11_zero (s : Int) (p : Nat) (m : Mode) : (Dec.mk 0 s).cbrtCtx p m = ⟨0, s⟩ := by
  simp [Dec.cbrtCtx, Dec.isZero]
end BigDec
