import BigDec.Model.Exp
/-! # C13 (theorems under construction) -/
namespace BigDec
theorem C13_exp_zero (cfg : Config) (est : Nat → Nat) (s : Int) : (Dec.mk 0 s).exp cfg est = some ⟨1, 0⟩ := by
  simp [Dec.exp, Dec.isZero, Dec.one]
end BigDec
