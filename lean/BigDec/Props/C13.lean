import BigDec.Model.Exp
import BigDec.Proofs.ExpEnclosure
import BigDec.Proofs.EstCode
import BigDec.Proofs.ExpPos
/-! # C13 — exp(x) is positive and accurate to its last digit for every argument

PARTIAL BY NATURE: the accuracy bound (one unit in the 100th digit of the real `e^x`) is a
statement about a transcendental function; it is judged per generated argument by an interval
enclosure of `e^x` computed with exact rational arithmetic (`Spec.expEnclosure`).  What is proved
for ALL arguments about the model of the repaired routine (series for `|x|`, `e^-x = 1/e^x`):
the result is strictly positive - the clause the original code violated for large negative
arguments (exp(-1000) was negative) - and `exp(0)` is exactly 1.  `est` is the f64 digit estimate;
`EstOK est` is the scalar condition proved for the code's own f64 quotient up to 2^40 bits
(`C18_est_code`); `estGuard` is that quotient up to 2^40 bits and the exact floor above. -/
namespace BigDec

theorem C13_exp_zero (cfg : Config) (est : Nat → Nat) (s : Int) : (Dec.mk 0 s).exp cfg est = some ⟨1, 0⟩ := by
  simp [Dec.exp, Dec.isZero, Dec.one]

/-- **strict positivity for every argument**, large negative ones included: whatever the routine
    returns (for any fuel) has a positive unscaled integer, hence a positive value -/
theorem C13_positive (cfg : Config) {est : Nat → Nat} (hest : EstOK est) (hp : 1 ≤ cfg.precision)
    (x : Dec) (fuel : Nat) (r : Dec) (h : x.exp cfg est fuel = some r) : 0 < r.int ∧ 0 < r.value :=
  ⟨exp_pos cfg hest hp x fuel r h, (value_pos_iff r).mpr (exp_pos cfg hest hp x fuel r h)⟩

/-- strict positivity with the code's own digit estimate (as long as no intermediate value exceeds
    2^40 bits, where `estGuard` stops following the f64 computation) -/
theorem C13_positive_code (cfg : Config) (hp : 1 ≤ cfg.precision)
    (x : Dec) (fuel : Nat) (r : Dec) (h : x.exp cfg estGuard fuel = some r) : 0 < r.int ∧ 0 < r.value :=
  C13_positive cfg estGuard_ok hp x fuel r h

/-- **the interval oracle is sound**: the enclosure the driver computes contains `e^x` (Mathlib's
    `Real.exp`) for every decimal argument and every working precision `D` -/
theorem C13_enclosure_sound (xi xs : Int) (D : Nat) :
    ((Spec.expEnclosure xi xs D).lo : ℝ) / 10 ^ D ≤ Real.exp ((xi : ℝ) * (10 : ℝ) ^ (-xs)) ∧
    Real.exp ((xi : ℝ) * (10 : ℝ) ^ (-xs)) ≤ ((Spec.expEnclosure xi xs D).hi : ℝ) / 10 ^ D :=
  Spec.expEnclosure_sound xi xs D

/-- **the acceptance test of the driver is sound**: whenever the enclosure lies between
    `(R - 1)` and `(R + 1)` units of the last place of a claimed result `R · 10^-s`, that result is
    within one unit in the last place of the true `e^x` -/
theorem C13_oracle_accepts_only_one_ulp (xi xs : Int) (R : Nat) (s : Int) (D : Nat) (hD : s ≤ D) (hR : 1 ≤ R)
    (h1 : (R - 1) * 10 ^ ((D : Int) - s).toNat ≤ (Spec.expEnclosure xi xs D).lo)
    (h2 : (Spec.expEnclosure xi xs D).hi ≤ (R + 1) * 10 ^ ((D : Int) - s).toNat) :
    |(R : ℝ) * (10 : ℝ) ^ (-s) - Real.exp ((xi : ℝ) * (10 : ℝ) ^ (-xs))| ≤ (10 : ℝ) ^ (-s) := by
  obtain ⟨e1, e2⟩ := Spec.expEnclosure_sound xi xs D
  have hP : (0 : ℝ) < (10 : ℝ) ^ D := by positivity
  obtain ⟨sh, hsh⟩ : ∃ sh : Nat, (D : Int) - s = sh := ⟨((D : Int) - s).toNat, by omega⟩
  rw [hsh, Int.toNat_natCast] at h1 h2
  -- 10^sh / 10^D = 10^(-s)
  have hunit : (10 : ℝ) ^ sh / (10 : ℝ) ^ D = (10 : ℝ) ^ (-s) := by
    rw [← zpow_natCast, ← zpow_natCast, ← zpow_sub₀ (by norm_num : (10 : ℝ) ≠ 0)]
    congr 1; omega
  have hu : (0 : ℝ) < (10 : ℝ) ^ (-s) := zpow_pos (by norm_num) _
  have l1 : ((R : ℝ) - 1) * (10 : ℝ) ^ (-s) ≤ Real.exp ((xi : ℝ) * (10 : ℝ) ^ (-xs)) := by
    have : (((R - 1) * 10 ^ sh : Nat) : ℝ) / 10 ^ D ≤ ((Spec.expEnclosure xi xs D).lo : ℝ) / 10 ^ D :=
      div_le_div_of_nonneg_right (by exact_mod_cast h1) hP.le
    have e : (((R - 1) * 10 ^ sh : Nat) : ℝ) / 10 ^ D = ((R : ℝ) - 1) * (10 : ℝ) ^ (-s) := by
      rw [← hunit]; push_cast [Nat.cast_sub hR]; ring
    rw [e] at this
    exact le_trans this e1
  have l2 : Real.exp ((xi : ℝ) * (10 : ℝ) ^ (-xs)) ≤ ((R : ℝ) + 1) * (10 : ℝ) ^ (-s) := by
    have : ((Spec.expEnclosure xi xs D).hi : ℝ) / 10 ^ D ≤ (((R + 1) * 10 ^ sh : Nat) : ℝ) / 10 ^ D :=
      div_le_div_of_nonneg_right (by exact_mod_cast h2) hP.le
    have e : (((R + 1) * 10 ^ sh : Nat) : ℝ) / 10 ^ D = ((R : ℝ) + 1) * (10 : ℝ) ^ (-s) := by
      rw [← hunit]; push_cast; ring
    rw [e] at this
    exact le_trans e2 this
  rw [abs_le]
  constructor <;> nlinarith

/-- the reciprocal path: a negative argument is computed as `1 / e^|x|` and trimmed -/
theorem C13_negative_is_reciprocal (cfg : Config) (est : Nat → Nat) (x : Dec) (fuel : Nat) (hneg : x.int < 0) :
    x.exp cfg est fuel = (expUntrimmed cfg est x.abs fuel).map fun pos =>
      (implDivision 1 pos.int (-pos.scale) cfg.precision).withPrec est cfg.precision := by
  unfold Dec.exp
  have hz : x.isZero = false := by simp [Dec.isZero]; omega
  simp [hz, hneg]

end BigDec
