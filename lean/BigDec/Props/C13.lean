import BigDec.Model.Exp
import BigDec.Proofs.EstCode
import BigDec.Proofs.ExpPos
/-! # C13 — exp(x) is positive and accurate to its last digit for every argument

PARTIAL BY NATURE: the accuracy bound (one unit in the 100th digit of the real `e^x`) is a
statement about a transcendental function; it is judged per generated argument by an interval
enclosure of `e^x` computed with exact rational arithmetic (`Spec.expEnclosure`).  What is proved
for ALL arguments about the model of the repaired routine (series for `|x|`, `e^-x = 1/e^x`):
the result is strictly positive - the clause the original code violated for large negative
arguments (exp(-1000) was negative) - and `exp(0)` is exactly 1.  `est` is the f64 digit estimate;
`EstOK est` is the scalar condition proved for the code's own f64 quotient up to 2^40 bits
(`C18_est_code`); `estGuard` is that quotient up to 2^40 bits and the exact floor above. -/
namespace BigDec

theorem C13_exp_zero (cfg : Config) (est : Nat → Nat) (s : Int) : (Dec.mk 0 s).exp cfg est = some ⟨1, 0⟩ := by
  simp [Dec.exp, Dec.isZero, Dec.one]

/-- **strict positivity for every argument**, large negative ones included: whatever the routine
    returns (for any fuel) has a positive unscaled integer, hence a positive value -/
theorem C13_positive (cfg : Config) {est : Nat → Nat} (hest : EstOK est) (hp : 1 ≤ cfg.precision)
    (x : Dec) (fuel : Nat) (r : Dec) (h : x.exp cfg est fuel = some r) : 0 < r.int ∧ 0 < r.value :=
  ⟨exp_pos cfg hest hp x fuel r h, (value_pos_iff r).mpr (exp_pos cfg hest hp x fuel r h)⟩

/-- strict positivity with the code's own digit estimate (as long as no intermediate value exceeds
    2^40 bits, where `estGuard` stops following the f64 computation) -/
theorem C13_positive_code (cfg : Config) (hp : 1 ≤ cfg.precision)
    (x : Dec) (fuel : Nat) (r : Dec) (h : x.exp cfg estGuard fuel = some r) : 0 < r.int ∧ 0 < r.value :=
  C13_positive cfg estGuard_ok hp x fuel r h

/-- the reciprocal path: a negative argument is computed as `1 / e^|x|` and trimmed -/
theorem C13_negative_is_reciprocal (cfg : Config) (est : Nat → Nat) (x : Dec) (fuel : Nat) (hneg : x.int < 0) :
    x.exp cfg est fuel = (expUntrimmed cfg est x.abs fuel).map fun pos =>
      (implDivision 1 pos.int (-pos.scale) cfg.precision).withPrec est cfg.precision := by
  unfold Dec.exp
  have hz : x.isZero = false := by simp [Dec.isZero]; omega
  simp [hz, hneg]

end BigDec
