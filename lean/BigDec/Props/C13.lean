import BigDec.Model.Exp
import BigDec.Proofs.ExpEnclosure
import BigDec.Proofs.EstCode
import BigDec.Proofs.ExpPos
import BigDec.Proofs.ExpAccuracy
import BigDec.Proofs.ExpTerm
/-! # C13 — exp(x) is positive and accurate to its last digit for every argument

What is proved for ALL arguments about the model of the repaired routine (series for `|x|`,
`e^-x = 1/e^x`): the result is strictly positive - the clause the original code violated for large
negative arguments (exp(-1000) was negative) - and `exp(0)` is exactly 1.  For every non-zero
`|x| ≤ 1000` and every precision: the result is strictly less than one unit of its last digit away
from Mathlib's `Real.exp` (`C13_accuracy_to_1000_code`), has exactly `P` digits (`C13_digit_count`)
and the order clause holds (`C13_order_two_ulp`).  Independently each generated argument is judged
by an interval enclosure of `e^x` computed with exact rational arithmetic (`Spec.expEnclosure`,
proved sound below).  `est` is the f64 digit estimate;
`EstOK est` is the scalar condition proved for the code's own f64 quotient up to 2^40 bits
(`C18_est_code`); `estGuard` is that quotient up to 2^40 bits and the exact floor above. -/
namespace BigDec

theorem C13_exp_zero (cfg : Config) (est : Nat → Nat) (s : Int) : (Dec.mk 0 s).exp cfg est = some ⟨1, 0⟩ := by
  simp [Dec.exp, Dec.isZero, Dec.one]

/-- **strict positivity for every argument**, large negative ones included: whatever the routine
    returns (for any fuel) has a positive unscaled integer, hence a positive value -/
theorem C13_positive (cfg : Config) {est : Nat → Nat} (hest : EstOK est) (hp : 1 ≤ cfg.precision)
    (x : Dec) (fuel : Nat) (r : Dec) (h : x.exp cfg est fuel = some r) : 0 < r.int ∧ 0 < r.value :=
  ⟨exp_pos cfg hest hp x fuel r h, (value_pos_iff r).mpr (exp_pos cfg hest hp x fuel r h)⟩

/-- strict positivity with the code's own digit estimate (as long as no intermediate value exceeds
    2^40 bits, where `estGuard` stops following the f64 computation) -/
theorem C13_positive_code (cfg : Config) (hp : 1 ≤ cfg.precision)
    (x : Dec) (fuel : Nat) (r : Dec) (h : x.exp cfg estGuard fuel = some r) : 0 < r.int ∧ 0 < r.value :=
  C13_positive cfg estGuard_ok hp x fuel r h

/-- **the interval oracle is sound**: the enclosure the driver computes contains `e^x` (Mathlib's
    `Real.exp`) for every decimal argument and every working precision `D` -/
theorem C13_enclosure_sound (xi xs : Int) (D : Nat) :
    ((Spec.expEnclosure xi xs D).lo : ℝ) / 10 ^ D ≤ Real.exp ((xi : ℝ) * (10 : ℝ) ^ (-xs)) ∧
    Real.exp ((xi : ℝ) * (10 : ℝ) ^ (-xs)) ≤ ((Spec.expEnclosure xi xs D).hi : ℝ) / 10 ^ D :=
  Spec.expEnclosure_sound xi xs D

/-- **the acceptance test of the driver is sound**: whenever the enclosure lies between
    `(R - 1)` and `(R + 1)` units of the last place of a claimed result `R · 10^-s`, that result is
    within one unit in the last place of the true `e^x` -/
theorem C13_oracle_accepts_only_one_ulp (xi xs : Int) (R : Nat) (s : Int) (D : Nat) (hD : s ≤ D) (hR : 1 ≤ R)
    (h1 : (R - 1) * 10 ^ ((D : Int) - s).toNat ≤ (Spec.expEnclosure xi xs D).lo)
    (h2 : (Spec.expEnclosure xi xs D).hi ≤ (R + 1) * 10 ^ ((D : Int) - s).toNat) :
    |(R : ℝ) * (10 : ℝ) ^ (-s) - Real.exp ((xi : ℝ) * (10 : ℝ) ^ (-xs))| ≤ (10 : ℝ) ^ (-s) := by
  obtain ⟨e1, e2⟩ := Spec.expEnclosure_sound xi xs D
  have hP : (0 : ℝ) < (10 : ℝ) ^ D := by positivity
  obtain ⟨sh, hsh⟩ : ∃ sh : Nat, (D : Int) - s = sh := ⟨((D : Int) - s).toNat, by omega⟩
  rw [hsh, Int.toNat_natCast] at h1 h2
  -- 10^sh / 10^D = 10^(-s)
  have hunit : (10 : ℝ) ^ sh / (10 : ℝ) ^ D = (10 : ℝ) ^ (-s) := by
    rw [← zpow_natCast, ← zpow_natCast, ← zpow_sub₀ (by norm_num : (10 : ℝ) ≠ 0)]
    congr 1; omega
  have hu : (0 : ℝ) < (10 : ℝ) ^ (-s) := zpow_pos (by norm_num) _
  have l1 : ((R : ℝ) - 1) * (10 : ℝ) ^ (-s) ≤ Real.exp ((xi : ℝ) * (10 : ℝ) ^ (-xs)) := by
    have : (((R - 1) * 10 ^ sh : Nat) : ℝ) / 10 ^ D ≤ ((Spec.expEnclosure xi xs D).lo : ℝ) / 10 ^ D :=
      div_le_div_of_nonneg_right (by exact_mod_cast h1) hP.le
    have e : (((R - 1) * 10 ^ sh : Nat) : ℝ) / 10 ^ D = ((R : ℝ) - 1) * (10 : ℝ) ^ (-s) := by
      rw [← hunit]; push_cast [Nat.cast_sub hR]; ring
    rw [e] at this
    exact le_trans this e1
  have l2 : Real.exp ((xi : ℝ) * (10 : ℝ) ^ (-xs)) ≤ ((R : ℝ) + 1) * (10 : ℝ) ^ (-s) := by
    have : ((Spec.expEnclosure xi xs D).hi : ℝ) / 10 ^ D ≤ (((R + 1) * 10 ^ sh : Nat) : ℝ) / 10 ^ D :=
      div_le_div_of_nonneg_right (by exact_mod_cast h2) hP.le
    have e : (((R + 1) * 10 ^ sh : Nat) : ℝ) / 10 ^ D = ((R : ℝ) + 1) * (10 : ℝ) ^ (-s) := by
      rw [← hunit]; push_cast; ring
    rw [e] at this
    exact le_trans e2 this
  rw [abs_le]
  constructor <;> nlinarith

/-- the reciprocal path: a negative argument is computed as `1 / e^|x|` and trimmed -/
theorem C13_negative_is_reciprocal (cfg : Config) (est : Nat → Nat) (x : Dec) (fuel : Nat) (hneg : x.int < 0) :
    x.exp cfg est fuel = (expUntrimmed cfg est x.abs fuel).map fun pos =>
      (implDivision 1 pos.int (-pos.scale) cfg.precision).withPrec est cfg.precision := by
  unfold Dec.exp
  have hz : x.isZero = false := by simp [Dec.isZero]; omega
  simp [hz, hneg]


/-! ## Accuracy from the stopping rule

`Dec.expStopIndex` is the number `N` of the last Taylor term the loop added before two successive
`P+5`-digit roundings agreed.  The theorems below hold for EVERY argument, precision and fuel; their
one premise, `101·|x| ≤ 100·(N+1)` (the stop came after the terms had started to shrink
geometrically, so that the unsummed tail is at most 100 last terms), is a decidable fact about the
run, which the driver evaluates on every input (`+stop-premise-fails` is printed where it does not
hold - then the per-input enclosure alone decides).  Proof: loop invariant (`expLoop_exit`: every
term division has relative error `½·10^(1-T)`, `T = P+17+digits(x)`, the running sum inherits it),
the stopping rule bounds the last term by `2ρ'·S` (`ρ' = ½·10^(1-(P+5))`), the tail of the real series
is bounded geometrically (`exp_tail_geom`, from Mathlib's `HasSum` of the exponential series), and
the final `with_prec(P)` adds half a unit. -/

theorem abs_of_pos_int (x : Dec) (hx : 0 < x.int) : x.abs = x := by
  cases x with
  | mk i s =>
    simp only [Dec.abs] at hx ⊢
    congr 1
    omega

/-- **positive arguments: within 0.52 units of the last digit of the real `e^x`**, whenever the
    stop index satisfies `101·x ≤ 100·(N+1)` -/
theorem C13_accuracy_positive (cfg : Config) {est : Nat → Nat} (hest : EstOK est) (hp : 1 ≤ cfg.precision)
    (x : Dec) (hx : 0 < x.int) (fuel : Nat) (out : Dec) (h : x.exp cfg est fuel = some out) :
    ∃ N : Nat, x.expStopIndex cfg est fuel = some N ∧ 2 ≤ N ∧
      (101 * x.value ≤ 100 * ((N : ℚ) + 1) →
        |(out.value : ℝ) - Real.exp (x.value : ℝ)| ≤ (1 / 2 + 1 / 50) * (10 : ℝ) ^ (-out.scale)) := by
  unfold Dec.exp at h
  have hz : x.isZero = false := by simp [Dec.isZero]; omega
  rw [hz] at h
  simp only [Bool.false_eq_true, if_false] at h
  rw [if_neg (by omega)] at h
  unfold expUntrimmed at h
  rw [expLoop_eq_expLoopN] at h
  unfold Dec.expStopIndex
  simp only
  rw [abs_of_pos_int x hx]
  cases hl : expLoopN cfg est x x.digits fuel 2 x 1 (addBigdecimals x Dec.one) (addBigdecimals x Dec.one) with
  | none => rw [hl] at h; simp at h
  | some pr =>
    obtain ⟨N, r⟩ := pr
    rw [hl] at h
    simp only [Option.map_some, Option.some.injEq] at h
    refine ⟨N, rfl, ?_, ?_⟩
    · -- 2 ≤ N holds without the premise: the loop starts at n = 2
      obtain ⟨S, q, hN1, _⟩ := expLoop_exit cfg hest hp x hx x.digits fuel 2 x 1 _ _ r N (le_refl _) (by simp) (by simp)
        (by rw [value_addBigdecimals]
            have : Dec.one.value = 1 := by unfold Dec.value Dec.one; norm_num
            rw [this]; have := (value_pos_iff x).mpr hx; linarith)
        (by
          have h1v : Dec.one.value = 1 := by unfold Dec.value Dec.one; norm_num
          have hE1 : Eq' x.value (2 - 1) = x.value + 1 := by
            unfold Eq' tq; simp [Finset.sum_range_succ]; ring
          rw [value_addBigdecimals, h1v, hE1, sub_self, abs_zero]
          have := (expEta_le cfg x.digits).1
          have := (value_pos_iff x).mpr hx
          positivity)
        (by
          rw [sub_self, abs_zero]
          have h1v : Dec.one.value = 1 := by unfold Dec.value Dec.one; norm_num
          rw [value_addBigdecimals, h1v]
          have := expRho_pos cfg
          have := (value_pos_iff x).mpr hx
          positivity) hl
      exact hN1
    · intro hprem
      obtain ⟨_, hrpos, hacc⟩ := expSeries_accuracy cfg hest hp x hx fuel N r hl 100 (by norm_num) (by norm_num)
        (by linarith)
      rw [← h]
      have hU : (0 : ℝ) < (10 : ℝ) ^ (-(r.withPrec est cfg.precision).scale) := zpow_pos (by norm_num) _
      have := final_trim_accuracy cfg hest hp r hrpos _ 203 (by norm_num) (by push_cast at hacc ⊢; norm_num at hacc ⊢; exact hacc)
      refine le_trans this ?_
      push_cast
      nlinarith

/-- **negative arguments: within 0.57 units of the last digit of the real `e^x`**, whenever the
    stop index of the series for `|x|` satisfies `101·|x| ≤ 100·(N+1)` -/
theorem C13_accuracy_negative (cfg : Config) {est : Nat → Nat} (hest : EstOK est) (hp : 1 ≤ cfg.precision)
    (x : Dec) (hx : x.int < 0) (fuel : Nat) (out : Dec) (h : x.exp cfg est fuel = some out) :
    ∃ N : Nat, x.expStopIndex cfg est fuel = some N ∧ 2 ≤ N ∧
      (101 * (-x.value) ≤ 100 * ((N : ℚ) + 1) →
        |(out.value : ℝ) - Real.exp (x.value : ℝ)| ≤ 57 / 100 * (10 : ℝ) ^ (-out.scale)) := by
  rw [C13_negative_is_reciprocal cfg est x fuel hx] at h
  unfold expUntrimmed at h
  rw [expLoop_eq_expLoopN] at h
  unfold Dec.expStopIndex
  simp only
  have hapos : 0 < x.abs.int := by simp [Dec.abs]; omega
  have haval : x.abs.value = -x.value := by
    unfold Dec.value Dec.abs
    simp only
    have : ((x.int.natAbs : Int) : ℚ) = -(x.int : ℚ) := by
      have : (x.int.natAbs : Int) = -x.int := by omega
      rw [this]; push_cast; ring
    rw [this]; ring
  generalize x.abs = a at h hapos haval ⊢
  cases hl : expLoopN cfg est a a.digits fuel 2 a 1 (addBigdecimals a Dec.one) (addBigdecimals a Dec.one) with
  | none => rw [hl] at h; simp at h
  | some pr =>
    obtain ⟨N, r⟩ := pr
    rw [hl] at h
    simp only [Option.map_some, Option.some.injEq] at h
    have h1v : Dec.one.value = 1 := by unfold Dec.value Dec.one; norm_num
    have hav : 0 < a.value := (value_pos_iff a).mpr hapos
    refine ⟨N, rfl, ?_, ?_⟩
    · obtain ⟨S, q, hN1, _⟩ := expLoop_exit cfg hest hp a hapos a.digits fuel 2 a 1 _ _ r N (le_refl _) (by simp) (by simp)
        (by rw [value_addBigdecimals, h1v]; linarith)
        (by
          have hE1 : Eq' a.value (2 - 1) = a.value + 1 := by
            unfold Eq' tq; simp [Finset.sum_range_succ]; ring
          rw [value_addBigdecimals, h1v, hE1, sub_self, abs_zero]
          have := (expEta_le cfg a.digits).1
          positivity)
        (by
          rw [sub_self, abs_zero, value_addBigdecimals, h1v]
          have := expRho_pos cfg
          positivity) hl
      exact hN1
    · intro hprem
      rw [← haval] at hprem
      obtain ⟨_, hrpos, hacc⟩ := expSeries_accuracy cfg hest hp a hapos fuel N r hl 100 (by norm_num) (by norm_num)
        (by linarith)
      have hx' : (x.value : ℝ) = -(a.value : ℝ) := by
        have : x.value = -a.value := by rw [haval]; ring
        rw [this]; push_cast; ring
      rw [hx', Real.exp_neg, ← one_div, ← h]
      have hU : (0 : ℝ) < (10 : ℝ) ^ (-((implDivision 1 r.int (-r.scale) cfg.precision).withPrec est cfg.precision).scale) :=
        zpow_pos (by norm_num) _
      have := recip_trim_accuracy cfg hest hp r hrpos _ (Real.exp_pos _) 203 (by norm_num) (by norm_num)
        (by push_cast at hacc ⊢; norm_num at hacc ⊢; exact hacc)
      refine le_trans this ?_
      push_cast
      nlinarith

/-- both signs with the code's own digit estimate -/
theorem C13_accuracy_code (cfg : Config) (hp : 1 ≤ cfg.precision)
    (x : Dec) (hx : x.int ≠ 0) (fuel : Nat) (out : Dec) (h : x.exp cfg estGuard fuel = some out) :
    ∃ N : Nat, x.expStopIndex cfg estGuard fuel = some N ∧ 2 ≤ N ∧
      (101 * |x.value| ≤ 100 * ((N : ℚ) + 1) →
        |(out.value : ℝ) - Real.exp (x.value : ℝ)| ≤ 57 / 100 * (10 : ℝ) ^ (-out.scale)) := by
  rcases lt_or_gt_of_ne hx with hneg | hpos
  · obtain ⟨N, h1, h2, h3⟩ := C13_accuracy_negative cfg estGuard_ok hp x hneg fuel out h
    refine ⟨N, h1, h2, fun hprem => h3 ?_⟩
    have : x.value < 0 := by
      have := (value_pos_iff ⟨-x.int, x.scale⟩).mpr (by simp; omega)
      unfold Dec.value at this ⊢
      simp only [Int.cast_neg] at this
      linarith
    rw [abs_of_neg this] at hprem
    exact hprem
  · obtain ⟨N, h1, h2, h3⟩ := C13_accuracy_positive cfg estGuard_ok hp x hpos fuel out h
    refine ⟨N, h1, h2, fun hprem => ?_⟩
    have hv : 0 < x.value := (value_pos_iff x).mpr hpos
    rw [abs_of_pos hv] at hprem
    have hU : (0 : ℝ) < (10 : ℝ) ^ (-out.scale) := zpow_pos (by norm_num) _
    have := h3 hprem
    linarith


/-! ## No premise for `|x| ≤ 1000` (the range the property quantifies over)

While `N ≤ |x|` the Taylor terms are still growing, the partial sum is at most `N+1` last terms, and the
stopping rule (last term at most `2ρ'` of the sum, `ρ' ≤ 5·10^-6`) cannot fire for `N + 1 ≤ 90002`
(`no_stop_before_peak`).  So the loop stops at some `N > |x|`, where the unsummed tail is at most `|x|`
last terms (`exp_tail_geom`): the premise of the theorems above is itself a theorem, and the `P+5`
guard digits absorb the factor `2|x| + 3 ≤ 2003`.  `fuel ≤ 90000` bounds the number of loop
iterations the model may take (the driver uses 20000; the real loop has no bound) - the theorems
speak about whatever is returned within it. -/

/-- **0 < x ≤ 1000: within 0.61 units of the last digit of the real `e^x`** - every precision, no premise -/
theorem C13_accuracy_to_1000_positive (cfg : Config) {est : Nat → Nat} (hest : EstOK est) (hp : 1 ≤ cfg.precision)
    (x : Dec) (hx : 0 < x.int) (hx1000 : x.value ≤ 1000) (fuel : Nat) (hfuel : fuel ≤ 90000)
    (out : Dec) (h : x.exp cfg est fuel = some out) :
    |(out.value : ℝ) - Real.exp (x.value : ℝ)| ≤ 61 / 100 * (10 : ℝ) ^ (-out.scale) := by
  unfold Dec.exp at h
  have hz : x.isZero = false := by simp [Dec.isZero]; omega
  rw [hz] at h
  simp only [Bool.false_eq_true, if_false] at h
  rw [if_neg (by omega)] at h
  unfold expUntrimmed at h
  rw [expLoop_eq_expLoopN] at h
  cases hl : expLoopN cfg est x x.digits fuel 2 x 1 (addBigdecimals x Dec.one) (addBigdecimals x Dec.one) with
  | none => rw [hl] at h; simp at h
  | some pr =>
    obtain ⟨N, r⟩ := pr
    rw [hl] at h
    simp only [Option.map_some, Option.some.injEq] at h
    obtain ⟨hrpos, hacc⟩ := expSeries_accuracy_bounded cfg hest hp x hx fuel N r hl hfuel hx1000
    rw [← h]
    have hU : (0 : ℝ) < (10 : ℝ) ^ (-(r.withPrec est cfg.precision).scale) := zpow_pos (by norm_num) _
    have := final_trim_accuracy cfg hest hp r hrpos _ 2003 (by norm_num) hacc
    refine le_trans this ?_
    push_cast
    nlinarith

/-- **-1000 ≤ x < 0: within 2/3 of a unit of the last digit of the real `e^x`** - every precision, no premise -/
theorem C13_accuracy_to_1000_negative (cfg : Config) {est : Nat → Nat} (hest : EstOK est) (hp : 1 ≤ cfg.precision)
    (x : Dec) (hx : x.int < 0) (hx1000 : -1000 ≤ x.value) (fuel : Nat) (hfuel : fuel ≤ 90000)
    (out : Dec) (h : x.exp cfg est fuel = some out) :
    |(out.value : ℝ) - Real.exp (x.value : ℝ)| ≤ 2 / 3 * (10 : ℝ) ^ (-out.scale) := by
  rw [C13_negative_is_reciprocal cfg est x fuel hx] at h
  unfold expUntrimmed at h
  rw [expLoop_eq_expLoopN] at h
  have hapos : 0 < x.abs.int := by simp [Dec.abs]; omega
  have haval : x.abs.value = -x.value := by
    unfold Dec.value Dec.abs
    simp only
    have : ((x.int.natAbs : Int) : ℚ) = -(x.int : ℚ) := by
      have : (x.int.natAbs : Int) = -x.int := by omega
      rw [this]; push_cast; ring
    rw [this]; ring
  generalize x.abs = a at h hapos haval
  cases hl : expLoopN cfg est a a.digits fuel 2 a 1 (addBigdecimals a Dec.one) (addBigdecimals a Dec.one) with
  | none => rw [hl] at h; simp at h
  | some pr =>
    obtain ⟨N, r⟩ := pr
    rw [hl] at h
    simp only [Option.map_some, Option.some.injEq] at h
    obtain ⟨hrpos, hacc⟩ := expSeries_accuracy_bounded cfg hest hp a hapos fuel N r hl hfuel (by rw [haval]; linarith)
    have hx' : (x.value : ℝ) = -(a.value : ℝ) := by
      have : x.value = -a.value := by rw [haval]; ring
      rw [this]; push_cast; ring
    rw [hx', Real.exp_neg, ← one_div, ← h]
    have hU : (0 : ℝ) < (10 : ℝ) ^ (-((implDivision 1 r.int (-r.scale) cfg.precision).withPrec est cfg.precision).scale) :=
      zpow_pos (by norm_num) _
    have := recip_trim_accuracy cfg hest hp r hrpos _ (Real.exp_pos _) 2003 (by norm_num) (by norm_num) hacc
    refine le_trans this ?_
    push_cast
    nlinarith

/-- **the headline clause of C13 for the code's own digit estimate**: for every non-zero decimal with
    `|x| ≤ 1000`, every precision `≥ 1`, whatever `exp` returns is strictly positive and strictly less
    than one unit of its last digit away from the real `e^x` -/
theorem C13_accuracy_to_1000_code (cfg : Config) (hp : 1 ≤ cfg.precision)
    (x : Dec) (hx : x.int ≠ 0) (hx1000 : |x.value| ≤ 1000) (fuel : Nat) (hfuel : fuel ≤ 90000)
    (out : Dec) (h : x.exp cfg estGuard fuel = some out) :
    0 < out.value ∧ |(out.value : ℝ) - Real.exp (x.value : ℝ)| < (10 : ℝ) ^ (-out.scale) := by
  have hU : (0 : ℝ) < (10 : ℝ) ^ (-out.scale) := zpow_pos (by norm_num) _
  refine ⟨(C13_positive_code cfg hp x fuel out h).2, ?_⟩
  have habs := abs_le.mp hx1000
  rcases lt_or_gt_of_ne hx with hneg | hpos
  · have := C13_accuracy_to_1000_negative cfg estGuard_ok hp x hneg habs.1 fuel hfuel out h
    linarith
  · have := C13_accuracy_to_1000_positive cfg estGuard_ok hp x hpos habs.2 fuel hfuel out h
    linarith


/-- a non-zero argument gives exactly `P` significant digits (or `10^P`, the rounded-up carry) -/
theorem C13_digit_count (cfg : Config) {est : Nat → Nat} (hest : EstOK est) (hp : 1 ≤ cfg.precision)
    (x : Dec) (hx : x.int ≠ 0) (fuel : Nat) (out : Dec) (h : x.exp cfg est fuel = some out) :
    (10 : Int) ^ (cfg.precision - 1) ≤ out.int ∧ out.int ≤ 10 ^ cfg.precision := by
  unfold Dec.exp at h
  have hz : x.isZero = false := by simp [Dec.isZero]; omega
  rw [hz] at h
  simp only [Bool.false_eq_true, if_false] at h
  split at h
  · rename_i hneg
    cases hu : expUntrimmed cfg est x.abs fuel with
    | none => rw [hu] at h; simp at h
    | some pos =>
      rw [hu] at h
      simp only [Option.map_some, Option.some.injEq] at h
      have hpos : 0 < pos.int := expUntrimmed_pos cfg hest hp x.abs (by simp [Dec.abs]; omega) fuel pos hu
      have hd := implDivision_pos 1 pos.int (by norm_num) hpos (-pos.scale) cfg.precision
      rw [← h]
      exact ⟨withPrec_int_lower hest _ _ hp hd, (withPrec_abs_error hest _ _ hp hd).2.1⟩
  · rename_i hnn
    cases hu : expUntrimmed cfg est x fuel with
    | none => rw [hu] at h; simp at h
    | some rr =>
      rw [hu] at h
      simp only [Option.map_some, Option.some.injEq] at h
      have hpos : 0 < rr.int := expUntrimmed_pos cfg hest hp x (by omega) fuel rr hu
      rw [← h]
      exact ⟨withPrec_int_lower hest _ _ hp hpos, (withPrec_abs_error hest _ _ hp hpos).2.1⟩

/-- **order is preserved up to the last digit** (the closing clause of C13): for `x < y`, both within
    `±1000`, `exp(x)` never exceeds `exp(y)` by more than two units of the last place of `exp(x)` -/
theorem C13_order_two_ulp (cfg : Config) (hp : 1 ≤ cfg.precision) (x y : Dec)
    (hx1000 : |x.value| ≤ 1000) (hy1000 : |y.value| ≤ 1000) (hxy : x.value < y.value)
    (fuel : Nat) (hfuel : fuel ≤ 90000) (ox oy : Dec)
    (h1 : x.exp cfg estGuard fuel = some ox) (h2 : y.exp cfg estGuard fuel = some oy) :
    (ox.value : ℝ) - (oy.value : ℝ) ≤ 2 * (10 : ℝ) ^ (-ox.scale) := by
  have hUx : (0 : ℝ) < (10 : ℝ) ^ (-ox.scale) := zpow_pos (by norm_num) _
  have hUy : (0 : ℝ) < (10 : ℝ) ^ (-oy.scale) := zpow_pos (by norm_num) _
  have hmono : Real.exp (x.value : ℝ) < Real.exp (y.value : ℝ) := Real.exp_lt_exp.mpr (by exact_mod_cast hxy)
  have hoy0 : (0 : ℝ) < (oy.value : ℝ) := by exact_mod_cast (C13_positive_code cfg hp y fuel oy h2).2
  have hox0 : (0 : ℝ) < (ox.value : ℝ) := by exact_mod_cast (C13_positive_code cfg hp x fuel ox h1).2
  have hzero : ∀ z : Dec, z.int = 0 → ∀ o, z.exp cfg estGuard fuel = some o → o = ⟨1, 0⟩ ∧ z.value = 0 := by
    intro z hz o ho
    constructor
    · unfold Dec.exp at ho
      have : z.isZero = true := by simp [Dec.isZero, hz]
      rw [this] at ho
      simp only [if_true, Option.some.injEq] at ho
      rw [← ho]; rfl
    · unfold Dec.value; rw [hz]; simp
  by_cases hx0 : x.int = 0
  · -- exp(0) = 1, one unit is 1, and exp(y) > 0
    obtain ⟨e, _⟩ := hzero x hx0 ox h1
    subst e
    have : ((Dec.mk 1 0).value : ℝ) = 1 := by unfold Dec.value; norm_num
    rw [this]
    norm_num
    linarith
  · by_cases hy0 : y.int = 0
    · -- y = 0: exp(x) ≤ e^x + ⅔U < 1 + ⅔U
      obtain ⟨e, hyv⟩ := hzero y hy0 oy h2
      subst e
      have hacc := (C13_accuracy_to_1000_code cfg hp x hx0 hx1000 fuel hfuel ox h1).2
      have : ((Dec.mk 1 0).value : ℝ) = 1 := by unfold Dec.value; norm_num
      rw [this]
      have hex : Real.exp (x.value : ℝ) < 1 := by
        rw [hyv] at hmono
        simpa using hmono
      have := (abs_lt.mp hacc).2
      linarith
    · have hax := (abs_lt.mp (C13_accuracy_to_1000_code cfg hp x hx0 hx1000 fuel hfuel ox h1).2).2
      have hay := (abs_lt.mp (C13_accuracy_to_1000_code cfg hp y hy0 hy1000 fuel hfuel oy h2).2).1
      rcases le_or_gt ox.scale oy.scale with hs | hs
      · -- the unit of exp(y) is no larger
        have : (10 : ℝ) ^ (-oy.scale) ≤ (10 : ℝ) ^ (-ox.scale) := zpow_le_zpow_right₀ (by norm_num) (by omega)
        linarith
      · -- exp(y) lies in a higher decade: exp(x) ≤ 10^P U_x ≤ 10^(P-1) U_y ≤ exp(y)
        obtain ⟨_, hxhi⟩ := C13_digit_count cfg estGuard_ok hp x hx0 fuel ox h1
        obtain ⟨hylo, _⟩ := C13_digit_count cfg estGuard_ok hp y hy0 fuel oy h2
        have h10 : (10 : ℝ) * (10 : ℝ) ^ (-ox.scale) ≤ (10 : ℝ) ^ (-oy.scale) := by
          have : (10 : ℝ) ^ (-ox.scale + 1) ≤ (10 : ℝ) ^ (-oy.scale) := zpow_le_zpow_right₀ (by norm_num) (by omega)
          rw [zpow_add₀ (by norm_num), zpow_one] at this
          linarith
        have hxv : (ox.value : ℝ) ≤ (10 : ℝ) ^ cfg.precision * (10 : ℝ) ^ (-ox.scale) := by
          have : ox.value ≤ (10 : ℚ) ^ cfg.precision * (10 : ℚ) ^ (-ox.scale) := by
            unfold Dec.value
            exact mul_le_mul_of_nonneg_right (by exact_mod_cast hxhi) (zpow_pos (by norm_num) _).le
          have := (Rat.cast_le (K := ℝ)).mpr this
          push_cast at this
          exact this
        have hyv : (10 : ℝ) ^ (cfg.precision - 1) * (10 : ℝ) ^ (-oy.scale) ≤ (oy.value : ℝ) := by
          have : (10 : ℚ) ^ (cfg.precision - 1) * (10 : ℚ) ^ (-oy.scale) ≤ oy.value := by
            unfold Dec.value
            exact mul_le_mul_of_nonneg_right (by exact_mod_cast hylo) (zpow_pos (by norm_num) _).le
          have := (Rat.cast_le (K := ℝ)).mpr this
          push_cast at this
          exact this
        have hP : (10 : ℝ) ^ cfg.precision = 10 * (10 : ℝ) ^ (cfg.precision - 1) := by
          rw [← pow_succ']; congr 1; omega
        have hPpos : (0 : ℝ) < (10 : ℝ) ^ (cfg.precision - 1) := by positivity
        have : (ox.value : ℝ) ≤ (oy.value : ℝ) := by
          calc (ox.value : ℝ) ≤ (10 : ℝ) ^ cfg.precision * (10 : ℝ) ^ (-ox.scale) := hxv
            _ = (10 : ℝ) ^ (cfg.precision - 1) * (10 * (10 : ℝ) ^ (-ox.scale)) := by rw [hP]; ring
            _ ≤ (10 : ℝ) ^ (cfg.precision - 1) * (10 : ℝ) ^ (-oy.scale) := mul_le_mul_of_nonneg_left h10 hPpos.le
            _ ≤ (oy.value : ℝ) := hyv
        linarith


/-- the driver runs the series once (`Dec.expN`): its second component is `exp` (`Dec.exp_eq_expN`)
    and its first component is the stop index the theorems above speak about -/
theorem C13_stop_index_expN (cfg : Config) (est : Nat → Nat) (x : Dec) (hx : x.int ≠ 0) (fuel : Nat) :
    x.expStopIndex cfg est fuel = (x.expN cfg est fuel).map Prod.fst := by
  unfold Dec.expStopIndex Dec.expN
  have hz : x.isZero = false := by simp [Dec.isZero]; omega
  rw [hz]
  simp only [Bool.false_eq_true, if_false]
  by_cases hneg : x.int < 0
  · simp only [hneg, if_true]
    cases expLoopN cfg est x.abs x.abs.digits fuel 2 x.abs 1 (addBigdecimals x.abs Dec.one) (addBigdecimals x.abs Dec.one) <;> rfl
  · simp only [hneg, if_false]
    rw [abs_of_pos_int x (by omega)]
    cases expLoopN cfg est x x.digits fuel 2 x 1 (addBigdecimals x Dec.one) (addBigdecimals x Dec.one) <;> rfl


/-! ## Termination

Once `n ≥ 2|x|` every Taylor term at least halves; `4(P+5)+2` halvings later two consecutive terms
together are below half a grid step of the `P+5`-digit trimmed sum, and of three consecutive sums two
trim to the same value (`trim_two_of_three`, also across a power of ten) - the loop stops there or one
pass later (`expLoopN_stops_late`, `expLoopN_terminates`). -/

/-- **the series loop stops**: for `|x| ≤ X` the routine returns as soon as the model is given
    `2X + 4(P+5) + 3` passes, and the stop index is at most one more -/
theorem C13_terminates (cfg : Config) {est : Nat → Nat} (hest : EstOK est) (hp : 1 ≤ cfg.precision)
    (x : Dec) (hx : x.int ≠ 0) (X : Nat) (hX : |x.value| ≤ (X : ℚ)) (fuel : Nat)
    (hfuel : 2 * X + 4 * (cfg.precision + Generated.expGuardDigits) + 3 ≤ fuel) :
    ∃ out N, x.exp cfg est fuel = some out ∧ x.expStopIndex cfg est fuel = some N ∧
      N ≤ 2 * X + 4 * (cfg.precision + Generated.expGuardDigits) + 4 := by
  rw [C13_stop_index_expN cfg est x hx fuel, Dec.exp_eq_expN]
  unfold Dec.expN
  have hz : x.isZero = false := by simp [Dec.isZero]; omega
  rw [hz]
  simp only [Bool.false_eq_true, if_false]
  -- the argument of the series
  obtain ⟨a, ha⟩ : ∃ a : Dec, a = (if x.int < 0 then x.abs else x) := ⟨_, rfl⟩
  rw [← ha]
  have hapos : 0 < a.int := by
    rw [ha]; split
    · simp [Dec.abs]; omega
    · omega
  have haval : a.value = |x.value| := by
    rw [ha]; split
    · rename_i hneg
      have hxv : x.value < 0 := by
        have := (value_pos_iff ⟨-x.int, x.scale⟩).mpr (by simp; omega)
        unfold Dec.value at this ⊢
        simp only [Int.cast_neg] at this
        linarith
      rw [abs_of_neg hxv]
      unfold Dec.value Dec.abs
      simp only
      have : ((x.int.natAbs : Int) : ℚ) = -(x.int : ℚ) := by
        have : (x.int.natAbs : Int) = -x.int := by omega
        rw [this]; push_cast; ring
      rw [this]; ring
    · rename_i hnn
      have : 0 < x.value := (value_pos_iff x).mpr (by omega)
      rw [abs_of_pos this]
  have hav : 0 < a.value := (value_pos_iff a).mpr hapos
  have h1v : Dec.one.value = 1 := by unfold Dec.value Dec.one; norm_num
  have hinv : ExpInv cfg a a.digits 2 a 1 (addBigdecimals a Dec.one) := by
    refine ⟨le_refl _, by simp, by simp, by rw [value_addBigdecimals, h1v]; linarith, ?_⟩
    have hE1 : Eq' a.value (2 - 1) = a.value + 1 := by
      unfold Eq' tq; simp [Finset.sum_range_succ]; ring
    rw [value_addBigdecimals, h1v, hE1, sub_self, abs_zero]
    have := (expEta_le cfg a.digits).1
    positivity
  obtain ⟨N, r, hr, hN⟩ := expLoopN_terminates cfg hest hp a hapos a.digits (2 * X)
    (by push_cast; rw [haval]; linarith)
    (2 * X + 4 * (cfg.precision + Generated.expGuardDigits) + 1) fuel 2 a 1 _ _ hinv (Or.inr rfl) (by omega) (by omega)
  rw [hr]
  simp only [Option.map_some]
  split
  · exact ⟨_, N, rfl, rfl, by omega⟩
  · exact ⟨_, N, rfl, rfl, by omega⟩

/-- **total correctness of C13's headline clause for the code's own digit estimate**: for every
    non-zero decimal with `|x| ≤ 1000` and every precision `P ≥ 1`, given `4P + 2023 ≤ fuel ≤ 90000`
    passes the routine RETURNS a result that is strictly positive and strictly less than one unit of
    its last digit away from the real `e^x` -/
theorem C13_total_to_1000_code (cfg : Config) (hp : 1 ≤ cfg.precision)
    (x : Dec) (hx : x.int ≠ 0) (hx1000 : |x.value| ≤ 1000) (fuel : Nat)
    (hfuel1 : 4 * cfg.precision + 2023 ≤ fuel) (hfuel2 : fuel ≤ 90000) :
    ∃ out, x.exp cfg estGuard fuel = some out ∧ 0 < out.value ∧
      |(out.value : ℝ) - Real.exp (x.value : ℝ)| < (10 : ℝ) ^ (-out.scale) := by
  have hg : Generated.expGuardDigits = 5 := rfl
  obtain ⟨out, N, h, _, _⟩ := C13_terminates cfg estGuard_ok hp x hx 1000 (by exact_mod_cast hx1000) fuel
    (by rw [hg]; omega)
  exact ⟨out, h, C13_accuracy_to_1000_code cfg hp x hx hx1000 fuel hfuel2 out h⟩


/-- non-vacuity: `exp(1)` and `exp(-1000)` at the default 100 digits, with the driver's 20000 passes -
    the hypotheses of `C13_total_to_1000_code` are met, so `e` and `e^-1000` are returned to within
    less than one unit of the 100th digit -/
example : ∃ out, (Dec.mk 1 0).exp ⟨100, .HalfEven, 5, 15, 1000, 100000⟩ estGuard 20000 = some out ∧ 0 < out.value ∧
    |(out.value : ℝ) - Real.exp (((Dec.mk 1 0).value : ℚ) : ℝ)| < (10 : ℝ) ^ (-out.scale) :=
  C13_total_to_1000_code ⟨100, .HalfEven, 5, 15, 1000, 100000⟩ (by decide) ⟨1, 0⟩ (by decide)
    (by norm_num [Dec.value]) 20000 (by decide) (by decide)

example : ∃ out, (Dec.mk (-1000) 0).exp ⟨100, .HalfEven, 5, 15, 1000, 100000⟩ estGuard 20000 = some out ∧ 0 < out.value ∧
    |(out.value : ℝ) - Real.exp (((Dec.mk (-1000) 0).value : ℚ) : ℝ)| < (10 : ℝ) ^ (-out.scale) :=
  C13_total_to_1000_code ⟨100, .HalfEven, 5, 15, 1000, 100000⟩ (by decide) ⟨-1000, 0⟩ (by decide)
    (by norm_num [Dec.value]) 20000 (by decide) (by decide)

end BigDec
