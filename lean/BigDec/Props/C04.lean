import BigDec.Model.Fmt
/-! # C04 (theorems under construction) -/
namespace BigDec
theorem C04_padIntegral_no_flags (nonneg : Bool) (buf : List Char) :
    Fmt.padIntegral {} nonneg buf = (if !nonneg then ['-'] else []) ++ buf := by
  simp [Fmt.padIntegral]
end BigDec
