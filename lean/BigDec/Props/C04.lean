import BigDec.Model.Fmt
import BigDec.Model.Parse
import BigDec.Proofs.Render
import BigDec.Proofs.RenderEng
import BigDec.Proofs.DisplayLen
import BigDec.Proofs.Value
import BigDec.Props.C05
/-! # C04 — every textual rendering parses back to the same decimal

`Fmt.*` is the character-level model of src/impl_fmt.rs (tied to the code text-exactly by the
correspondence check).  The theorems below read the produced text back with the *model of the real
parser* (`Parse.parseDec`, which by `C05_parse_eq_spec` is the grammar) and show that the result is
the very same `(int, scale)` pair — for every decimal, not a sample.  Hypotheses: the scale is an
`i64` (it always is in the Rust type) and the unscaled integer has fewer than 2^64 digits (it always
has: memory).  Renderings covered for all inputs: `to_scientific_notation`, `to_plain_string`
(non-negative scale; a negative scale is the recorded finding K1), `{:e}`/`{:E}`, and `Display`
(all three notations it chooses between; an integer written out with its zeros reads back with
scale 0, the exemption the property names), and engineering notation (same value).  The
length bound of Display is `C04_display_length`; the reference-view entry points (same formatter
through `BigDecimalRef`) are tied to the code by the correspondence. -/
namespace BigDec
open Fmt Parse

theorem C04_padIntegral_no_flags (nonneg : Bool) (buf : List Char) :
    Fmt.padIntegral {} nonneg buf = (if !nonneg then ['-'] else []) ++ buf := by
  simp [Fmt.padIntegral]

/-- a scale that fits `i64` and a digit count that fits memory -/
def Dec.Storable (d : Dec) : Prop :=
  -(2 ^ 63 : Int) ≤ d.scale ∧ d.scale < 2 ^ 63 ∧ numDigits d.int.natAbs < 2 ^ 64

theorem C04_scientific_roundtrip (d : Dec) (h : d.Storable) :
    parseDec (toBytes (scientific d)) 10 = some d := by
  rw [C05_parse_eq_spec]; exact scientific_roundtrip d ⟨h.1, h.2.1⟩ h.2.2

theorem C04_plain_roundtrip (d : Dec) (h : d.Storable) (hs : 0 ≤ d.scale) :
    parseDec (toBytes (plain d)) 10 = some d := by
  rw [C05_parse_eq_spec]; exact plain_roundtrip d ⟨hs, h.2.1⟩

theorem C04_exp_roundtrip (cfg : Config) (d : Dec) (h : d.Storable) :
    parseDec (toBytes (lowerExp cfg {} d 'e')) 10 = some d ∧
    parseDec (toBytes (lowerExp cfg {} d 'E')) 10 = some d := by
  rw [C05_parse_eq_spec, C05_parse_eq_spec]
  exact ⟨lowerExp_roundtrip cfg d 'e' (Or.inl rfl) ⟨h.1, h.2.1⟩ h.2.2,
         lowerExp_roundtrip cfg d 'E' (Or.inr rfl) ⟨h.1, h.2.1⟩ h.2.2⟩

/-- `Display` under any thresholds and padding limit: identical pair, or (only for a negative
    scale, when the zeros are written out) the same integer value at scale 0 -/
theorem C04_display_roundtrip (cfg : Config) (npl : Nat) (d : Dec) (h : d.Storable) :
    parseDec (toBytes (display cfg npl {} d)) 10 = some d ∨
    (d.scale < 0 ∧ parseDec (toBytes (display cfg npl {} d)) 10 = some ⟨d.int * (10 ^ (-d.scale).toNat : Nat), 0⟩) := by
  rw [C05_parse_eq_spec]; exact display_roundtrip cfg npl d ⟨h.1, h.2.1⟩ h.2.2

/-- in both cases the value is unchanged -/
theorem C04_display_value (cfg : Config) (npl : Nat) (d : Dec) (h : d.Storable) :
    ∃ d', parseDec (toBytes (display cfg npl {} d)) 10 = some d' ∧ d'.value = d.value := by
  rcases C04_display_roundtrip cfg npl d h with h1 | ⟨hneg, h2⟩
  · exact ⟨d, h1, rfl⟩
  · refine ⟨_, h2, ?_⟩
    obtain ⟨k, hk⟩ : ∃ k : Nat, -d.scale = (k : Int) := ⟨(-d.scale).toNat, by omega⟩
    have hk' : (-d.scale).toNat = k := by omega
    unfold Dec.value
    simp only [neg_zero, zpow_zero, mul_one]
    rw [hk', hk, zpow_natCast]
    push_cast
    ring

/-- a positive scale (a decimal with a fraction part) or scale 0 always comes back identically -/
theorem C04_display_identical_of_nonneg_scale (cfg : Config) (npl : Nat) (d : Dec) (h : d.Storable)
    (hs : 0 ≤ d.scale) : parseDec (toBytes (display cfg npl {} d)) 10 = some d := by
  rcases C04_display_roundtrip cfg npl d h with h1 | ⟨hneg, _⟩
  · exact h1
  · omega

/-- engineering notation always reads back with the same value (it regroups the digits in
    threes, so the scale may differ - the exemption the property names) -/
theorem C04_engineering_value (d : Dec) (h : d.Storable) (hs : d.scale < 2 ^ 63 - 2) :
    ∃ r, parseDec (toBytes (engineering d)) 10 = some r ∧ r.value = d.value := by
  rw [C05_parse_eq_spec]; exact engineering_roundtrip d ⟨h.1, hs⟩ h.2.2

/-- Display switches to exponent notation beyond the thresholds instead of emitting long runs of
    zeros: its length stays within a small constant of the digit count, whatever the scale -/
theorem C04_display_length (cfg : Config) (npl : Nat) (d : Dec) (h : d.Storable) :
    (display cfg npl {} d).length ≤ numDigits d.int.natAbs + cfg.lowThreshold + cfg.highThreshold + 30 :=
  display_length_bound cfg npl d ⟨h.1, h.2.1⟩ h.2.2

/-- non-vacuity: -12.5e-3 satisfies the hypotheses and the rendering is the expected text -/
example : (⟨-125, 4⟩ : Dec).Storable ∧ scientific ⟨-125, 4⟩ = ['-', '1', '.', '2', '5', 'e', '-', '2'] ∧
    plain ⟨-125, 4⟩ = ['-', '0', '.', '0', '1', '2', '5'] := by
  refine ⟨⟨by decide, by decide, by decide +kernel⟩, by decide +kernel, by decide +kernel⟩

end BigDec
