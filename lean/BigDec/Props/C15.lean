import BigDec.Model.Convert
import BigDec.Proofs.Value
import Mathlib.Data.Rat.Floor
/-! # C15 — integer conversions truncate toward zero and report overflow as None -/
namespace BigDec
open Generated Spec

/-- truncation toward zero of a rational -/
def truncQ (q : ℚ) : ℤ := if 0 ≤ q then ⌊q⌋ else ⌈q⌉

theorem toOwnedWithScale_zero_int (d : Dec) : (d.toOwnedWithScale 0).int = Spec.truncInt d := by
  have hb := fast_bounds_ok
  unfold Dec.toOwnedWithScale Spec.truncInt
  by_cases h0 : (0:Int) = d.scale
  · rw [if_pos h0, if_pos (show d.scale ≤ 0 by omega)]
    have : (-d.scale).toNat = 0 := by omega
    simp [this]
  · rw [if_neg h0]
    by_cases hlt : d.scale < 0
    · rw [if_pos hlt, if_pos (show d.scale ≤ 0 by omega)]
      have e : (0 - d.scale).toNat = (-d.scale).toNat := by congr 1; omega
      rw [e]
      by_cases hf : (-d.scale).toNat < toOwnedFastUp
      · rw [if_pos hf, tenPowU64_eq (by omega)]
        show (if d.int < 0 then (-1:Int) else 1) * ((d.int.natAbs * 10 ^ (-d.scale).toNat : Nat) : Int) = _
        rw [Nat.cast_mul, ← mul_assoc, sign_mul_natAbs]
      · rw [if_neg hf, tenToTheUint_eq]
        show (if d.int < 0 then (-1:Int) else 1) * ((d.int.natAbs * 10 ^ (-d.scale).toNat : Nat) : Int) = _
        rw [Nat.cast_mul, ← mul_assoc, sign_mul_natAbs]
    · rw [if_neg hlt, if_neg (show ¬ d.scale ≤ 0 by omega)]
      have e : (d.scale - 0).toNat = d.scale.toNat := by congr 1; omega
      rw [e]
      by_cases hf : d.scale.toNat < toOwnedFastDown
      · rw [if_pos hf, tenPowU64_eq (by omega)]
      · rw [if_neg hf, tenToTheUint_eq]

theorem truncInt_scale_zero (d : Dec) (h : d.scale = 0) : Spec.truncInt d = d.int := by
  simp [Spec.truncInt, h]

theorem natAbs_lt_pow_iff (i : Int) (k : Nat) : i.natAbs < 2 ^ k ↔ ((i.natAbs : Nat) : Int) < (2:Int) ^ k := by
  rw [← Int.ofNat_lt]; push_cast; rfl

theorem natAbs_eq_pow_iff (i : Int) (k : Nat) : i.natAbs = 2 ^ k ↔ ((i.natAbs : Nat) : Int) = (2:Int) ^ k := by
  constructor
  · intro h; rw [h]; push_cast; rfl
  · intro h; exact_mod_cast h

/-- **`to_i64` / `to_i128`**: the value truncated toward zero when it fits, `None` otherwise -/
theorem C15_toSigned (bits : Nat) (hbits : 1 ≤ bits) (d : Dec) :
    d.toSigned bits = Spec.toSigned bits d := by
  unfold Dec.toSigned Spec.toSigned
  simp only []
  have hp : (2:Int) ^ bits = 2 * 2 ^ (bits - 1) := by
    obtain ⟨k, rfl⟩ : ∃ k, bits = k + 1 := ⟨bits - 1, by omega⟩
    simp [pow_succ, mul_comm]
  have hpos : (0:Int) < 2 ^ (bits - 1) := by positivity
  generalize hQ : (2:Int) ^ (bits - 1) = Q at hp hpos
  by_cases h1 : d.int > 0 ∧ d.scale = 0
  · rw [if_pos h1, truncInt_scale_zero d h1.2]
    unfold intToSigned
    have : ((d.int.natAbs : Nat) : Int) = d.int := Int.natAbs_of_nonneg (le_of_lt h1.1)
    rw [this, hQ]
  · rw [if_neg h1]
    by_cases h2 : d.int < 0 ∧ d.scale = 0
    · rw [if_pos h2, truncInt_scale_zero d h2.2]
      have hn : ((d.int.natAbs : Nat) : Int) = -d.int := Int.ofNat_natAbs_of_nonpos (le_of_lt h2.1)
      simp only [natAbs_lt_pow_iff, natAbs_eq_pow_iff, hn, hQ, hp]
      by_cases c1 : -d.int < 2 * Q
      · rw [if_pos c1]
        by_cases c2 : -d.int < Q
        · rw [if_pos c2, if_pos (show -Q ≤ d.int ∧ d.int < Q by omega)]; congr 1; omega
        · rw [if_neg c2]
          by_cases c3 : -d.int = Q
          · rw [if_pos c3, if_pos (show -Q ≤ d.int ∧ d.int < Q by omega)]; congr 1; omega
          · rw [if_neg c3, if_neg (show ¬ (-Q ≤ d.int ∧ d.int < Q) by omega)]
      · rw [if_neg c1, if_neg (show ¬ (-Q ≤ d.int ∧ d.int < Q) by omega)]
    · rw [if_neg h2]
      by_cases h3 : d.int ≠ 0
      · rw [if_pos h3, toOwnedWithScale_zero_int]; unfold intToSigned; rw [hQ]
      · rw [if_neg h3]
        have h0 : d.int = 0 := by simpa using h3
        have : Spec.truncInt d = 0 := by simp [Spec.truncInt, h0]
        rw [this, if_pos (show -Q ≤ 0 ∧ (0:Int) < Q by omega)]

/-- **`to_u64` / `to_u128`**: negative decimals give `None`, otherwise truncation when it fits -/
theorem C15_toUnsigned (bits : Nat) (d : Dec) : d.toUnsigned bits = Spec.toUnsigned bits d := by
  unfold Dec.toUnsigned Spec.toUnsigned intToUnsigned
  simp only []
  have tnn : 0 < d.int → 0 ≤ Spec.truncInt d := by
    intro h
    unfold Spec.truncInt
    split
    · positivity
    · rw [if_neg (by omega)]; positivity
  have hQpos : (0:Int) < (2:Int) ^ bits := by positivity
  generalize (2:Int) ^ bits = Q at hQpos
  by_cases h1 : d.int > 0 ∧ d.scale = 0
  · rw [if_pos h1, if_neg (show ¬ d.int < 0 by omega), truncInt_scale_zero d h1.2]
    have : ((d.int.natAbs : Nat) : Int) = d.int := Int.natAbs_of_nonneg (le_of_lt h1.1)
    rw [this]
    by_cases c : d.int < Q
    · rw [if_pos ⟨by omega, c⟩, if_pos c]
    · rw [if_neg (show ¬ (0 ≤ d.int ∧ d.int < Q) by omega), if_neg c]
  · rw [if_neg h1]
    by_cases h2 : d.int > 0
    · rw [if_pos h2, if_neg (show ¬ d.int < 0 by omega), toOwnedWithScale_zero_int]
      have := tnn h2
      by_cases c : Spec.truncInt d < Q
      · rw [if_pos ⟨this, c⟩, if_pos c]
      · rw [if_neg (show ¬ (0 ≤ Spec.truncInt d ∧ Spec.truncInt d < Q) by omega), if_neg c]
    · rw [if_neg h2]
      by_cases h0 : d.int = 0
      · rw [if_pos h0, if_neg (show ¬ d.int < 0 by omega)]
        have : Spec.truncInt d = 0 := by simp [Spec.truncInt, h0]
        rw [this, if_pos hQpos]
      · rw [if_neg h0, if_pos (show d.int < 0 by omega)]

/-- **`to_bigint`** truncates toward zero -/
theorem C15_toBigInt (d : Dec) : d.toBigInt = Spec.truncInt d := by
  unfold Dec.toBigInt Dec.withScale Spec.truncInt
  split
  · rename_i h0; simp [h0]
  · split
    · rename_i h1 h2
      rw [if_pos (by omega), tenToTheUint_eq]
      have : (0 - d.scale).toNat = (-d.scale).toNat := by congr 1; omega
      rw [this]
    · split
      · rename_i h1 h2 h3
        rw [if_neg (by omega), tenToTheUint_eq, tdiv_natCast_eq]
        have : (d.scale - 0).toNat = d.scale.toNat := by congr 1; omega
        rw [this]
      · rename_i h1 h2 h3
        have : d.scale = 0 := by omega
        simp [this]

/-- what `truncInt` means over ℚ: the value truncated toward zero -/
theorem C15_truncInt_value (d : Dec) : Spec.truncInt d = truncQ d.value := by
  unfold Spec.truncInt truncQ Dec.value
  split
  · rename_i hs
    have hv : (d.int : ℚ) * (10:ℚ) ^ (-d.scale) = ((d.int * ((10 ^ (-d.scale).toNat : Nat) : Int) : Int) : ℚ) := by
      push_cast
      congr 1
      rw [← zpow_natCast]; congr 1; omega
    rw [hv]
    split
    · exact (Int.floor_intCast _).symm
    · exact (Int.ceil_intCast _).symm
  · rename_i hs
    have hsp : 0 < d.scale := by omega
    have hv : (d.int : ℚ) * (10:ℚ) ^ (-d.scale) = (d.int : ℚ) / ((10 ^ d.scale.toNat : Nat) : ℚ) := by
      rw [zpow_neg, div_eq_mul_inv]
      congr 2
      push_cast
      rw [← zpow_natCast]; congr 1; omega
    rw [hv]
    have hPpos : (0:ℚ) < ((10 ^ d.scale.toNat : Nat) : ℚ) := by positivity
    by_cases hneg : d.int < 0
    · have hq : ¬ (0 ≤ (d.int : ℚ) / ((10 ^ d.scale.toNat : Nat) : ℚ)) := by
        rw [not_le]; exact div_neg_of_neg_of_pos (by exact_mod_cast hneg) hPpos
      rw [if_pos hneg, if_neg hq]
      have : (d.int : ℚ) = -((d.int.natAbs : Nat) : ℚ) := by
        have h : d.int = -((d.int.natAbs : Nat) : Int) := by omega
        have h' := congrArg (Int.cast : ℤ → ℚ) h
        push_cast at h'
        rw [Nat.cast_natAbs]; push_cast; exact h'
      rw [this, neg_div, Int.ceil_neg, Rat.floor_natCast_div_natCast]
      simp
    · have hq : (0 ≤ (d.int : ℚ) / ((10 ^ d.scale.toNat : Nat) : ℚ)) :=
        div_nonneg (by exact_mod_cast (not_lt.mp hneg)) (le_of_lt hPpos)
      rw [if_neg hneg, if_pos hq]
      have : (d.int : ℚ) = ((d.int.natAbs : Nat) : ℚ) := by
        have h : d.int = ((d.int.natAbs : Nat) : Int) := by omega
        have h' := congrArg (Int.cast : ℤ → ℚ) h
        push_cast at h'
        rw [Nat.cast_natAbs]; push_cast; exact h'
      rw [this, Rat.floor_natCast_div_natCast]
      simp

/-- **`is_integer`** is true exactly when the value is an integer -/
theorem C15_isInteger (d : Dec) : d.isInteger = true ↔ ∃ z : Int, d.value = z := by
  unfold Dec.isInteger
  split
  · rename_i hs
    simp only [true_iff]
    refine ⟨d.int * ((10 ^ (-d.scale).toNat : Nat) : Int), ?_⟩
    simp only [Dec.value]
    push_cast
    congr 1
    rw [← zpow_natCast]; congr 1; omega
  · rename_i hs
    rw [tenToTheUint_eq]
    simp only [beq_iff_eq]
    have hP : ((10 ^ d.scale.toNat : Nat) : ℚ) ≠ 0 := by positivity
    have hv : d.value = (d.int : ℚ) / ((10 ^ d.scale.toNat : Nat) : ℚ) := by
      simp only [Dec.value]
      rw [zpow_neg, div_eq_mul_inv]
      congr 2
      push_cast
      rw [← zpow_natCast]; congr 1; omega
    constructor
    · intro h
      have hdvd : ((10 ^ d.scale.toNat : Nat) : Int) ∣ d.int := Int.dvd_of_tmod_eq_zero h
      obtain ⟨k, hk⟩ := hdvd
      refine ⟨k, ?_⟩
      rw [hv, hk]; push_cast; field_simp
    · intro ⟨z, hz⟩
      rw [hv, div_eq_iff hP] at hz
      have : d.int = z * ((10 ^ d.scale.toNat : Nat) : Int) := by exact_mod_cast hz
      rw [this]; exact Int.mul_tmod_left _ _

/-- construction from any integer is exact with scale 0 -/
theorem C15_from_int (i : Int) : (Dec.ofInt i).value = i ∧ (Dec.ofInt i).scale = 0 :=
  ⟨Dec.value_ofInt i, rfl⟩

/-- the corner the statement names: `-0.5` converts to `Some 0` as signed, `None` as unsigned -/
example : Spec.toSigned 64 ⟨-5, 1⟩ = some 0 ∧ Spec.toUnsigned 64 ⟨-5, 1⟩ = none := by decide

end BigDec
