import BigDec.Proofs.Round
import BigDec.Proofs.Value
/-! # C06 — rounding to a scale obeys each of the seven rounding modes -/
namespace BigDec
open Generated Spec

/-- **C06 main theorem.** `with_scale_round` (digit vector, three regimes, carry loop, and the
    `round_pair` table regenerated from the source) returns exactly the declarative rounding
    `Spec.roundToScale`: the requested scale, and the magnitude `⌊|x|·10^s⌋` bumped by one unit
    exactly when the mode prescribes it for the whole discarded tail. -/
theorem C06_withScaleRound (d : Dec) (ns : Int) (m : Mode) :
    d.withScaleRound ns m = Spec.roundToScale d ns m := withScaleRound_spec d ns m

/-- the result always carries exactly the requested scale -/
theorem C06_scale (d : Dec) (ns : Int) (m : Mode) : (d.withScaleRound ns m).scale = ns := by
  rw [withScaleRound_spec]; unfold Spec.roundToScale; split <;> rfl

/-- extending the scale (or keeping it) never changes the value, under every mode -/
theorem C06_extend_exact (d : Dec) (ns : Int) (m : Mode) (h : d.scale ≤ ns) :
    (d.withScaleRound ns m).value = d.value := by
  rw [withScaleRound_spec]; unfold Spec.roundToScale
  rw [if_pos h]
  exact value_scale_up _ _ _ h

/-- a value already representable at the target scale is returned unchanged (as a value) -/
theorem C06_representable (d : Dec) (ns : Int) (m : Mode) (h : ns < d.scale)
    (hrep : d.int.natAbs % 10 ^ (d.scale - ns).toNat = 0) :
    (d.withScaleRound ns m).int * ((10 ^ (d.scale - ns).toNat : Nat) : Int) = d.int := by
  rw [withScaleRound_spec]; unfold Spec.roundToScale
  rw [if_neg (by omega)]
  simp only [roundNat, hrep, roundUpM_zero_tail m _ _ _ (by positivity : 0 < 10 ^ (d.scale - ns).toNat)]
  simp only [Bool.false_eq_true, if_false, Nat.add_zero]
  have hd := Nat.div_add_mod d.int.natAbs (10 ^ (d.scale - ns).toNat)
  rw [hrep, Nat.add_zero] at hd
  rw [mul_assoc, ← Nat.cast_mul, mul_comm (d.int.natAbs / _), hd]
  unfold sgn; exact sign_mul_natAbs d.int

/-- the rounded magnitude is one of the two neighbouring multiples: `⌊n/10^k⌋` or `⌊n/10^k⌋+1`,
    and it is the lower one whenever the discarded tail is zero -/
theorem C06_neighbour (m : Mode) (neg : Bool) (n k : Nat) :
    roundNat m neg n k = n / 10 ^ k ∨ (roundNat m neg n k = n / 10 ^ k + 1 ∧ n % 10 ^ k ≠ 0) := by
  unfold roundNat
  split
  · rename_i h
    right; refine ⟨rfl, ?_⟩
    intro h0
    rw [h0, roundUpM_zero_tail m neg _ _ (by positivity)] at h
    exact Bool.false_ne_true h
  · left; rfl

/-- mode table, stated on the whole discarded tail `r = n % 10^k` (ties decided on all of it) -/
theorem C06_modes (neg : Bool) (n k : Nat) :
    let q := n / 10 ^ k; let r := n % 10 ^ k
    roundNat .Down neg n k = q ∧
    roundNat .Up neg n k = (if r = 0 then q else q + 1) ∧
    roundNat .Ceiling neg n k = (if r ≠ 0 ∧ neg = false then q + 1 else q) ∧
    roundNat .Floor neg n k = (if r ≠ 0 ∧ neg = true then q + 1 else q) ∧
    roundNat .HalfUp neg n k = (if 10 ^ k ≤ 2 * r then q + 1 else q) ∧
    roundNat .HalfDown neg n k = (if 10 ^ k < 2 * r then q + 1 else q) ∧
    roundNat .HalfEven neg n k = (if 10 ^ k < 2 * r ∨ (2 * r = 10 ^ k ∧ q % 2 = 1) then q + 1 else q) := by
  cases neg <;> simp [roundNat, roundUpM] <;> (repeat' constructor) <;> split <;> simp_all <;> omega

/-- truncating re-scaling (`with_scale`) is rounding with mode Down -/
theorem C06_withScale_eq_down (d : Dec) (ns : Int) : d.withScale ns = d.withScaleRound ns .Down := by
  rw [withScaleRound_spec]
  unfold Dec.withScale Spec.roundToScale
  split
  · rename_i h0
    split
    · simp [h0]
    · simp [h0, sgn, roundNat_zero]
  · rename_i h0
    split
    · rename_i hgt; rw [if_pos (by omega), tenToTheUint_eq]
    · split
      · rename_i hle hlt
        rw [if_neg (by omega), tenToTheUint_eq]
        congr 1
        simp only [roundNat, roundUpM, Bool.false_eq_true, if_false, Nat.add_zero]
        rw [tdiv_natCast_eq]; rfl
      · rename_i hle hge
        have : ns = d.scale := by omega
        subst this
        simp

/-- `round(n)` is `with_scale_round` with the configured default mode -/
theorem C06_round (cfg : Config) (d : Dec) (n : Int) : d.round cfg n = d.withScaleRound n cfg.mode := rfl

/-- the digit-pair primitive matches the mode table for every digit pair, sign and tail flag -/
theorem C06_roundPair_table (m : Mode) (neg : Bool) (l r : Fin 10) (tz : Bool) :
    roundPair m neg l r tz = l + (if pairUp m neg l r tz then 1 else 0) := roundPair_table m neg l r tz

end BigDec
