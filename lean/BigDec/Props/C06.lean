import BigDec.Proofs.Round
import BigDec.Proofs.Value
import BigDec.Proofs.RoundQ
/-! # C06 — rounding to a scale obeys each of the seven rounding modes -/
namespace BigDec
open Generated Spec

/-- **C06 main theorem.** `with_scale_round` (digit vector, three regimes, carry loop, and the
    `round_pair` table regenerated from the source) returns exactly the declarative rounding
    `Spec.roundToScale`: the requested scale, and the magnitude `⌊|x|·10^s⌋` bumped by one unit
    exactly when the mode prescribes it for the whole discarded tail. -/
theorem C06_withScaleRound (d : Dec) (ns : Int) (m : Mode) :
    d.withScaleRound ns m = Spec.roundToScale d ns m := withScaleRound_spec d ns m

/-- the result always carries exactly the requested scale -/
theorem C06_scale (d : Dec) (ns : Int) (m : Mode) : (d.withScaleRound ns m).scale = ns := by
  rw [withScaleRound_spec]; unfold Spec.roundToScale; split <;> rfl

/-- extending the scale (or keeping it) never changes the value, under every mode -/
theorem C06_extend_exact (d : Dec) (ns : Int) (m : Mode) (h : d.scale ≤ ns) :
    (d.withScaleRound ns m).value = d.value := by
  rw [withScaleRound_spec]; unfold Spec.roundToScale
  rw [if_pos h]
  exact value_scale_up _ _ _ h

/-- a value already representable at the target scale is returned unchanged (as a value) -/
theorem C06_representable (d : Dec) (ns : Int) (m : Mode) (h : ns < d.scale)
    (hrep : d.int.natAbs % 10 ^ (d.scale - ns).toNat = 0) :
    (d.withScaleRound ns m).int * ((10 ^ (d.scale - ns).toNat : Nat) : Int) = d.int := by
  rw [withScaleRound_spec]; unfold Spec.roundToScale
  rw [if_neg (by omega)]
  simp only [roundNat, hrep, roundUpM_zero_tail m _ _ _ (by positivity : 0 < 10 ^ (d.scale - ns).toNat)]
  simp only [Bool.false_eq_true, if_false, Nat.add_zero]
  have hd := Nat.div_add_mod d.int.natAbs (10 ^ (d.scale - ns).toNat)
  rw [hrep, Nat.add_zero] at hd
  rw [mul_assoc, ← Nat.cast_mul, mul_comm (d.int.natAbs / _), hd]
  unfold sgn; exact sign_mul_natAbs d.int

/-- the value of `d` in units of `10^-ns`, i.e. the exact quotient the rounding looks at -/
theorem C06_scaled_value (d : Dec) (ns : Int) (h : ns < d.scale) :
    d.value * (10 : ℚ) ^ ns = (d.int : ℚ) / (10 : ℚ) ^ (d.scale - ns).toNat := by
  unfold Dec.value
  have : ((d.scale - ns).toNat : Int) = d.scale - ns := by omega
  rw [← zpow_natCast, this, mul_assoc, ← zpow_add₀ (by norm_num : (10 : ℚ) ≠ 0), div_eq_mul_inv, ← zpow_neg]
  congr 2; ring

/-- **what the seven modes mean, over ℚ.**  When digits are dropped (`ns < d.scale`), the unscaled
    integer of `with_scale_round` is the textbook function of the exact value `x = d.value · 10^ns`:
    `Floor` = ⌊x⌋, `Ceiling` = ⌈x⌉, `Down` = truncation toward zero, `Up` = away from zero,
    `HalfUp` = nearest with ties away from zero, `HalfDown` = nearest with ties toward zero,
    `HalfEven` = a nearest integer which is even at a tie. -/
theorem C06_mode_meaning (d : Dec) (ns : Int) (h : ns < d.scale) :
    let x : ℚ := d.value * (10 : ℚ) ^ ns
    (d.withScaleRound ns .Floor).int = ⌊x⌋ ∧
    (d.withScaleRound ns .Ceiling).int = ⌈x⌉ ∧
    (d.withScaleRound ns .Down).int = (if 0 ≤ d.int then ⌊x⌋ else ⌈x⌉) ∧
    (d.withScaleRound ns .Up).int = (if 0 ≤ d.int then ⌈x⌉ else ⌊x⌋) ∧
    (d.withScaleRound ns .HalfUp).int = (if 0 ≤ d.int then ⌊x + 1 / 2⌋ else ⌈x - 1 / 2⌉) ∧
    (d.withScaleRound ns .HalfDown).int = (if 0 ≤ d.int then ⌈x - 1 / 2⌉ else ⌊x + 1 / 2⌋) ∧
    (|(((d.withScaleRound ns .HalfEven).int : Int) : ℚ) - x| ≤ 1 / 2 ∧
      (|(((d.withScaleRound ns .HalfEven).int : Int) : ℚ) - x| = 1 / 2 → (d.withScaleRound ns .HalfEven).int % 2 = 0)) := by
  intro x
  have hx : x = (d.int : ℚ) / (10 : ℚ) ^ (d.scale - ns).toNat := C06_scaled_value d ns h
  have hint : ∀ m, (d.withScaleRound ns m).int =
      sgn d.int * ((roundNat m (decide (d.int < 0)) d.int.natAbs (d.scale - ns).toNat : Nat) : Int) := by
    intro m
    rw [withScaleRound_spec]; unfold Spec.roundToScale
    rw [if_neg (by omega)]
  rw [hint, hint, hint, hint, hint, hint, hint, hx]
  exact ⟨round_floor _ _, round_ceiling _ _, round_down _ _, round_up _ _, round_halfUp _ _, round_halfDown _ _,
    round_halfEven _ _⟩

/-- the rounded magnitude is one of the two neighbouring multiples: `⌊n/10^k⌋` or `⌊n/10^k⌋+1`,
    and it is the lower one whenever the discarded tail is zero -/
theorem C06_neighbour (m : Mode) (neg : Bool) (n k : Nat) :
    roundNat m neg n k = n / 10 ^ k ∨ (roundNat m neg n k = n / 10 ^ k + 1 ∧ n % 10 ^ k ≠ 0) := by
  unfold roundNat
  split
  · rename_i h
    right; refine ⟨rfl, ?_⟩
    intro h0
    rw [h0, roundUpM_zero_tail m neg _ _ (by positivity)] at h
    exact Bool.false_ne_true h
  · left; rfl

/-- mode table, stated on the whole discarded tail `r = n % 10^k` (ties decided on all of it) -/
theorem C06_modes (neg : Bool) (n k : Nat) :
    let q := n / 10 ^ k; let r := n % 10 ^ k
    roundNat .Down neg n k = q ∧
    roundNat .Up neg n k = (if r = 0 then q else q + 1) ∧
    roundNat .Ceiling neg n k = (if r ≠ 0 ∧ neg = false then q + 1 else q) ∧
    roundNat .Floor neg n k = (if r ≠ 0 ∧ neg = true then q + 1 else q) ∧
    roundNat .HalfUp neg n k = (if 10 ^ k ≤ 2 * r then q + 1 else q) ∧
    roundNat .HalfDown neg n k = (if 10 ^ k < 2 * r then q + 1 else q) ∧
    roundNat .HalfEven neg n k = (if 10 ^ k < 2 * r ∨ (2 * r = 10 ^ k ∧ q % 2 = 1) then q + 1 else q) := by
  cases neg <;> simp [roundNat, roundUpM] <;> (repeat' constructor) <;> split <;> simp_all <;> omega

/-- truncating re-scaling (`with_scale`) is rounding with mode Down -/
theorem C06_withScale_eq_down (d : Dec) (ns : Int) : d.withScale ns = d.withScaleRound ns .Down := by
  rw [withScaleRound_spec]
  unfold Dec.withScale Spec.roundToScale
  split
  · rename_i h0
    split
    · simp [h0]
    · simp [h0, sgn, roundNat_zero]
  · rename_i h0
    split
    · rename_i hgt; rw [if_pos (by omega), tenToTheUint_eq]
    · split
      · rename_i hle hlt
        rw [if_neg (by omega), tenToTheUint_eq]
        congr 1
        simp only [roundNat, roundUpM, Bool.false_eq_true, if_false, Nat.add_zero]
        rw [tdiv_natCast_eq]; rfl
      · rename_i hle hge
        have : ns = d.scale := by omega
        subst this
        simp

/-- `round(n)` is `with_scale_round` with the configured default mode -/
theorem C06_round (cfg : Config) (d : Dec) (n : Int) : d.round cfg n = d.withScaleRound n cfg.mode := rfl

/-- the digit-pair primitive matches the mode table for every digit pair, sign and tail flag -/
theorem C06_roundPair_table (m : Mode) (neg : Bool) (l r : Fin 10) (tz : Bool) :
    roundPair m neg l r tz = l + (if pairUp m neg l r tz then 1 else 0) := roundPair_table m neg l r tz


/-- non-vacuity: 2.675 cut to two decimals - digits are dropped (`2 < 3`), so the seven readings apply -/
example : ((Dec.mk 2675 3).withScaleRound 2 .Floor).int = ⌊(Dec.mk 2675 3).value * (10 : ℚ) ^ (2 : Int)⌋ :=
  (C06_mode_meaning ⟨2675, 3⟩ 2 (by decide)).1

end BigDec
