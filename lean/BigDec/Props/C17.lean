import BigDec.Model.Serde
import BigDec.Props.C04
import BigDec.Proofs.JsonGrammar
/-! # C17 — serde round trips

`Serde.*` models the glue of src/impl_serde.rs: `Serialize` writes the `Display` text,
`Deserialize` hands strings (and arbitrary-precision JSON number literals) to `from_str`, the
JSON-number adapters add the zero special case and the scale limit.  With the formatting and parsing
theorems (C04, C05) the round trips hold for every storable decimal; what remains tied to the code
only by the correspondence check is that the glue is this composition (serde's own data model,
`serde_json::Number`'s grammar, integer/float tokens). -/
namespace BigDec
open Fmt Parse

/-- "00" (Display of a zero with scale -1) is not a JSON number; "0" is -/
theorem C17_json_zero : Serde.isJsonNumber ['0', '0'] = false ∧ Serde.isJsonNumber ['0'] = true ∧
    Serde.isJsonNumber "-1.5E-7".toList = true ∧ Serde.isJsonNumber "123e+20".toList = true := by decide

/-- default (string) form: serialize = Display, deserialize = `from_str`; the result is an equal
    decimal, and the identical (digits, scale) pair whenever the scale is non-negative -/
theorem C17_string_roundtrip (cfg : Config) (npl : Nat) (d : Dec) (h : d.Storable) :
    (∃ d', parseDec (toBytes (display cfg npl {} d)) 10 = some d' ∧ d'.value = d.value) ∧
    (0 ≤ d.scale → parseDec (toBytes (display cfg npl {} d)) 10 = some d) :=
  ⟨C04_display_value cfg npl d h, C04_display_identical_of_nonneg_scale cfg npl d h⟩

/-- JSON-number adapters: the emitted number text is read back as an equal decimal whenever the
    scale respects the configured limit -/
theorem C17_jsonnum_roundtrip (cfg : Config) (npl : Nat) (d : Dec) (h : d.Storable)
    (hlim : d.scale.natAbs ≤ cfg.serdeScaleLimit ∨ cfg.serdeScaleLimit = 0) :
    ∃ d', Serde.jsonNumDeserialize cfg (toBytes (Serde.jsonNumText cfg npl d)) = some d' ∧ d'.value = d.value := by
  unfold Serde.jsonNumText Serde.jsonNumDeserialize
  by_cases hz : d.int = 0 ∧ d.scale < 0
  · rw [if_pos hz]
    have hp : parseDec (toBytes ['0']) = some ⟨0, 0⟩ := by decide
    rw [hp]
    refine ⟨⟨0, 0⟩, ?_, ?_⟩
    · simp
    · unfold Dec.value; simp [hz.1]
  · rw [if_neg hz]
    rcases C04_display_roundtrip cfg npl d h with h1 | ⟨hneg, h2⟩
    · rw [h1]
      refine ⟨d, ?_, rfl⟩
      have : ¬ (d.scale.natAbs > cfg.serdeScaleLimit ∧ cfg.serdeScaleLimit > 0) := by omega
      simp only [this, if_false]
    · rw [h2]
      obtain ⟨d', hd', hv⟩ := C04_display_value cfg npl d h
      rw [h2] at hd'
      injection hd' with e
      refine ⟨d', ?_, hv⟩
      rw [← e]
      simp

/-- beyond the limit the adapter reports an error instead of a value -/
theorem C17_jsonnum_limit (cfg : Config) (text : List Nat) (d : Dec) (hp : parseDec text = some d)
    (hover : d.scale.natAbs > cfg.serdeScaleLimit) (hl : cfg.serdeScaleLimit > 0) :
    Serde.jsonNumDeserialize cfg text = none := by
  unfold Serde.jsonNumDeserialize
  rw [hp]; simp [hover, hl]

/-- the scale-limit test decides the outcome completely: a parsable literal is accepted with exactly the
    parsed (digits, scale) pair iff its scale is within the configured limit (or the limit is disabled) -/
theorem C17_jsonnum_limit_iff (cfg : Config) (text : List Nat) (d : Dec) (hp : parseDec text = some d) :
    (Serde.jsonNumDeserialize cfg text = some d ↔
      (d.scale.natAbs ≤ cfg.serdeScaleLimit ∨ cfg.serdeScaleLimit = 0)) ∧
    (Serde.jsonNumDeserialize cfg text = none ↔
      (d.scale.natAbs > cfg.serdeScaleLimit ∧ cfg.serdeScaleLimit > 0)) := by
  unfold Serde.jsonNumDeserialize
  rw [hp]
  by_cases h : d.scale.natAbs > cfg.serdeScaleLimit ∧ cfg.serdeScaleLimit > 0
  · simp only [h, and_self, if_true]
    constructor
    · constructor
      · intro h'; cases h'
      · intro h'; omega
    · simp
  · simp only [h, if_false]
    constructor
    · constructor
      · intro _; omega
      · intro _; trivial
    · simp

/-- unparsable text is always refused, whatever the limit -/
theorem C17_jsonnum_reject (cfg : Config) (text : List Nat) (hp : parseDec text = none) :
    Serde.jsonNumDeserialize cfg text = none := by
  unfold Serde.jsonNumDeserialize; rw [hp]

/-- every text the JSON-number adapter hands to `serde_json::Number` is inside the JSON number grammar, for
    every decimal, configuration and padding limit: all layouts `Display` can choose (integers padded with zeros
    or written `<digits>e+<n>`, the plain layout with a decimal point, the `E` notation, the dotless notation)
    and the zero of negative scale that the adapter special-cases (`00` would not be a number). -/
theorem C17_json_grammar (cfg : Config) (npl : Nat) (d : Dec) :
    Serde.isJsonNumber (Serde.jsonNumText cfg npl d) = true :=
  jsonNumText_grammar cfg npl d

/-- corollaries by layout, kept for the record of how the proof is assembled -/
theorem C17_json_grammar_layouts (cfg : Config) (npl : Nat) (d : Dec) :
    (d.scale ≤ 0 → Serde.isJsonNumber (Serde.jsonNumText cfg npl d) = true) ∧
    (chooseNotation cfg d.int.natAbs d.scale none ≠ .full → Serde.isJsonNumber (Serde.jsonNumText cfg npl d) = true) :=
  ⟨jsonNumText_grammar_int cfg npl d, fun h => jsonNumText_grammar_exp cfg npl d (Or.inl h)⟩

/-- the layouts occur: `1.2E-29` under the default thresholds is printed in the `E` notation -/
example : chooseNotation (⟨100, .HalfEven, 5, 15, 1000, 150000⟩ : Config) (12 : Nat) 30 none = .exponential := by
  have h : (natStr 12).length = 2 := by simp [natStr, digitsLE]
  unfold chooseNotation
  simp [h]

/-- the layouts occur: `-12e+20` under the default thresholds is printed dotless -/
example : chooseNotation (⟨100, .HalfEven, 5, 15, 1000, 150000⟩ : Config) (12 : Nat) (-20) none = .dotless := by decide

end BigDec
