import BigDec.Model.Serde
/-! # C17 (theorems under construction) -/
namespace BigDec
/-- "00" (Display of a zero with scale -1) is not a JSON number; "0" is -/
theorem C17_json_zero : Serde.isJsonNumber ['0', '0'] = false ∧ Serde.isJsonNumber ['0'] = true ∧
    Serde.isJsonNumber "-1.5E-7".toList = true ∧ Serde.isJsonNumber "123e+20".toList = true := by decide
end BigDec
