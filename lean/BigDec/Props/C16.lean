import BigDec.Model.Fmt
import BigDec.Proofs.AsciiRound
/-! # C16 — precision formatting rounds correctly; flags never alter the digits

The formatter has its *own* rounding over ASCII digits (`round_ascii_digits`: digit pair through
`round_pair`, carry past trailing nines, all-nines overflow, removed-digit count) separate from
the numeric rounding routines.  `C16_round_ascii_digits` shows, for every digit string and every
cut position, that it computes exactly the declarative rounding `Spec.roundNat` that the numeric
routines were proved to compute (C06/C07) - the "agreement with the library's own rounding
functions" of the statement.  Flags: `pad_integral` without flags adds only the sign.
The layout around the rounded digits (where the point and the padding zeros go, `fmtIntFrac`,
`fmtNoInt`, `zeroRightPad`) is tied text-exactly to the code and judged per generated input by the
grammar oracle (value = `roundToScale`, exactly N fraction digits). -/
namespace BigDec
open Fmt Spec Spec.Numeral

theorem C16_padIntegral_no_flags (nonneg : Bool) (buf : List Char) :
    Fmt.padIntegral {} nonneg buf = (if !nonneg then ['-'] else []) ++ buf := by
  simp [Fmt.padIntegral]

theorem natStr_eq_digitsBE (n : Nat) : natStr n = (digitsBE n).map digitChar := by
  unfold natStr digitsBE
  split <;> rfl

/-- **the formatter's rounding is the library's rounding.**  Cutting the decimal digits of `n`
    after `sig` of them (`k` digits dropped): the digits returned by `round_ascii_digits`, shifted
    by its removed-digit count, are `roundNat m neg n k` shifted by `k` - for every mode, sign,
    number and cut position; and every returned character is a decimal digit. -/
theorem C16_round_ascii_digits (m : Mode) (neg : Bool) (n sig : Nat) (h1 : 1 ≤ sig) (h2 : sig < numDigits n) :
    digitsToNat ((roundAsciiDigits m neg (natStr n) sig).1.map charDigit) * 10 ^ (roundAsciiDigits m neg (natStr n) sig).2
      = roundNat m neg n (numDigits n - sig) * 10 ^ (numDigits n - sig) ∧
    (∀ c ∈ (roundAsciiDigits m neg (natStr n) sig).1, ∃ d, d < 10 ∧ c = digitChar d) := by
  have hds := digitsBE_lt n
  have hlen := digitsBE_length n
  obtain ⟨hv, hd, _⟩ := roundBE_spec m neg (digitsBE n) sig hds h1 (by rw [hlen]; exact h2)
  rw [natStr_eq_digitsBE, roundAscii_eq_roundBE m neg _ sig hds]
  simp only
  rw [hlen, digitsToNat_digitsBE] at hv
  constructor
  · rw [List.map_map]
    have : (roundBE m neg (digitsBE n) sig).1.map (charDigit ∘ digitChar) = (roundBE m neg (digitsBE n) sig).1 := by
      conv => rhs; rw [← List.map_id (roundBE m neg (digitsBE n) sig).1]
      apply List.map_congr_left
      intro d hdm
      exact charDigit_digitChar d (hd d hdm)
    rw [this]; exact hv
  · intro c hc
    obtain ⟨d, hdm, rfl⟩ := List.mem_map.mp hc
    exact ⟨d, hd d hdm, rfl⟩

/-- non-vacuity and the three regimes: plain cut, carry past nines, all nines -/
example : roundAsciiDigits .HalfEven false (natStr 12345) 3 = (['1', '2', '3'], 2) ∧
    roundAsciiDigits .HalfUp false (natStr 12995) 4 = (['1', '3'], 3) ∧
    roundAsciiDigits .Up false (natStr 9991) 2 = (['1'], 4) := by
  refine ⟨by decide +kernel, by decide +kernel, by decide +kernel⟩

end BigDec
