import BigDec.Model.Fmt
import BigDec.Proofs.AsciiRound
import BigDec.Proofs.FmtLayout
import BigDec.Proofs.FmtExp
import BigDec.Proofs.Flags
import BigDec.Props.C04
import BigDec.Props.C06
import BigDec.Proofs.FmtExpDigits
/-! # C16 — precision formatting rounds correctly; flags never alter the digits

The formatter has its *own* rounding over ASCII digits (`round_ascii_digits`: digit pair through
`round_pair`, carry past trailing nines, all-nines overflow, removed-digit count) separate from
the numeric rounding routines.  `C16_round_ascii_digits` shows, for every digit string and every
cut position, that it computes exactly the declarative rounding `Spec.roundNat` that the numeric
routines were proved to compute (C06/C07) - the "agreement with the library's own rounding
functions" of the statement.  Flags: `pad_integral` without flags adds only the sign.
`C16_display_precision` and `C16_exp_precision` then carry this through the layouts (where the point
and the padding zeros go: `fmtIntFrac`, `fmtNoInt`, `zeroRightPad`, the exponential form) to the
printed text, read back by the model of the real parser.  The flag combinations (width, fill,
alignment, `+`, `0`) are tied text-exactly to the code by the correspondence. -/
namespace BigDec
open Fmt Spec Spec.Numeral

theorem C16_padIntegral_no_flags (nonneg : Bool) (buf : List Char) :
    Fmt.padIntegral {} nonneg buf = (if !nonneg then ['-'] else []) ++ buf := by
  simp [Fmt.padIntegral]

/-- **the formatter's rounding is the library's rounding.**  Cutting the decimal digits of `n`
    after `sig` of them (`k` digits dropped): the digits returned by `round_ascii_digits`, shifted
    by its removed-digit count, are `roundNat m neg n k` shifted by `k` - for every mode, sign,
    number and cut position; and every returned character is a decimal digit. -/
theorem C16_round_ascii_digits (m : Mode) (neg : Bool) (n sig : Nat) (h1 : 1 ≤ sig) (h2 : sig < numDigits n) :
    digitsToNat ((roundAsciiDigits m neg (natStr n) sig).1.map charDigit) * 10 ^ (roundAsciiDigits m neg (natStr n) sig).2
      = roundNat m neg n (numDigits n - sig) * 10 ^ (numDigits n - sig) ∧
    (∀ c ∈ (roundAsciiDigits m neg (natStr n) sig).1, ∃ d, d < 10 ∧ c = digitChar d) := by
  have hds := digitsBE_lt n
  have hlen := digitsBE_length n
  obtain ⟨hv, hd, _⟩ := roundBE_spec m neg (digitsBE n) sig hds h1 (by rw [hlen]; exact h2)
  rw [natStr_eq_digitsBE, roundAscii_eq_roundBE m neg _ sig hds]
  simp only
  rw [hlen, digitsToNat_digitsBE] at hv
  constructor
  · rw [List.map_map]
    have : (roundBE m neg (digitsBE n) sig).1.map (charDigit ∘ digitChar) = (roundBE m neg (digitsBE n) sig).1 := by
      conv => rhs; rw [← List.map_id (roundBE m neg (digitsBE n) sig).1]
      apply List.map_congr_left
      intro d hdm
      exact charDigit_digitChar d (hd d hdm)
    rw [this]; exact hv
  · intro c hc
    obtain ⟨d, hdm, rfl⟩ := List.mem_map.mp hc
    exact ⟨d, hd d hdm, rfl⟩

/-- **`{:.N}` prints the library's own rounding.**  For every storable decimal, every `N` and every
    configuration, the text of `format!("{:.N}", d)` is read back by the (model of the) real parser as
    exactly `d.with_scale_round(N, mode)` - the pair (digits, scale = N), hence exactly `N` digits after
    the point, rounded with the configured default mode, zero-padded when fewer digits exist.  The only
    alternative is the documented one: the integer padding would exceed the limit, and then the text
    (which keeps its exponent) denotes `d` exactly. -/
theorem C16_display_precision (cfg : Config) (npl : Nat) (d : Dec) (N : Nat) (h : d.Storable) (hN : N < 2 ^ 63) :
    Parse.parseDec (toBytes (display cfg npl {precision := some N} d)) 10 = some (d.withScaleRound N cfg.mode) ∨
    (d.scale ≤ 0 ∧ (-d.scale).toNat + (if N ≠ 0 then N + 1 else 0) > cfg.maxPadding ∧
      Parse.parseDec (toBytes (display cfg npl {precision := some N} d)) 10 = some d) := by
  rw [C05_parse_eq_spec, C06_withScaleRound]
  exact display_prec_parse cfg npl d N ⟨h.1, h.2.1⟩ hN

/-- **`{:.Ne}` / `{:.NE}` print the value rounded to `N+1` significant digits.**  The text is read
    back by the (model of the) real parser as a decimal whose value is exactly that of
    `Spec.roundToPrec d (N+1) mode` (= `with_precision_round`, C07): rounded when the number has more
    digits, zero-padded (and then the identical pair) when it has fewer. -/
theorem C16_exp_precision (cfg : Config) (d : Dec) (N : Nat)
    (hsc : -(2 ^ 62 : Int) ≤ d.scale ∧ d.scale < 2 ^ 62) (hlen : numDigits d.int.natAbs < 2 ^ 61) (hN : N < 2 ^ 61) :
    (∃ r, Parse.parseDec (toBytes (lowerExp cfg {precision := some N} d 'e')) 10 = some r ∧
      r.value = (Spec.roundToPrec d (N + 1) cfg.mode).value) ∧
    (∃ r, Parse.parseDec (toBytes (lowerExp cfg {precision := some N} d 'E')) 10 = some r ∧
      r.value = (Spec.roundToPrec d (N + 1) cfg.mode).value) := by
  rw [C05_parse_eq_spec, C05_parse_eq_spec]
  exact ⟨lowerExp_prec_parse cfg d N 'e' (Or.inl rfl) hsc hlen hN, lowerExp_prec_parse cfg d N 'E' (Or.inr rfl) hsc hlen hN⟩

/-- **`{:.Ne}` / `{:.NE}` print exactly `N+1` significant digits**: after the sign, one digit, then
    (when `N > 0`) a point followed by exactly `N` digits - rounded digits, or the number's own digits
    padded with zeros when it has fewer - then the exponent marker and a signed exponent.  Together
    with `C16_exp_precision` (the value of this text) this is the whole `{:.Ne}` clause. -/
theorem C16_exp_digit_count (cfg : Config) (d : Dec) (N : Nat) (eSym : Char) :
    ∃ (c0 : Char) (frac : List Char) (e : Int),
      lowerExp cfg {precision := some N} d eSym =
        (if d.int < 0 then ['-'] else []) ++ ([c0] ++ (if N = 0 then [] else '.' :: frac) ++ [eSym] ++ intStrPlus e) ∧
      frac.length = N ∧ IsDigitChar c0 ∧ ∀ c ∈ frac, IsDigitChar c := by
  obtain ⟨c0, frac, e, h, h1, h2, h3⟩ :=
    exponentialText_shape cfg (decide (d.int < 0)) d.int.natAbs d.scale N eSym
  refine ⟨c0, frac, e, ?_, h1, h2, h3⟩
  unfold lowerExp
  simp only
  rw [h]
  unfold padIntegral
  by_cases hneg : d.int < 0 <;> simp [hneg]

/-- **flags never alter the digits.**  For every combination of width, fill, alignment, `0` and `+`,
    the text of `Display` is the numeral printed without them (`body`, after its own sign), preceded by
    the sign (`-`, or `+` when requested) and surrounded only by fill characters outside the sign or
    zeros between sign and digits; the same holds for `{:e}` / `{:E}` (`lowerExp_flags`). -/
theorem C16_flags_only_pad (cfg : Config) (npl : Nat) (fl : Flags) (d : Dec) :
    ∃ body pre mid post : List Char,
      display cfg npl {precision := fl.precision} d = (if d.int < 0 then ['-'] else []) ++ body ∧
      display cfg npl fl d =
        pre ++ (if d.int < 0 then ['-'] else if fl.plus then ['+'] else []) ++ mid ++ body ++ post ∧
      (∀ c ∈ pre, c = fl.fill) ∧ (∀ c ∈ post, c = fl.fill) ∧ (∀ c ∈ mid, c = '0') := by
  obtain ⟨body, h1, h2⟩ := display_flags cfg npl fl d
  obtain ⟨pre, mid, post, h3, h4, h5, h6⟩ := padIntegral_shape fl (!decide (d.int < 0)) body
  refine ⟨body, pre, mid, post, ?_, ?_, h4, h5, h6⟩
  · rw [h2]; unfold padIntegral
    by_cases hneg : d.int < 0 <;> simp [hneg]
  · rw [h1, h3]
    by_cases hneg : d.int < 0 <;> simp [hneg]

/-- non-vacuity: 2.675 at two decimals under HalfEven -/
example : (⟨2675, 3⟩ : Dec).Storable ∧ (⟨2675, 3⟩ : Dec).withScaleRound 2 .HalfEven = ⟨268, 2⟩ := by
  refine ⟨⟨by decide, by decide, by decide +kernel⟩, by decide +kernel⟩

/-- non-vacuity and the three regimes: plain cut, carry past nines, all nines -/
example : roundAsciiDigits .HalfEven false (natStr 12345) 3 = (['1', '2', '3'], 2) ∧
    roundAsciiDigits .HalfUp false (natStr 12995) 4 = (['1', '3'], 3) ∧
    roundAsciiDigits .Up false (natStr 9991) 2 = (['1'], 4) := by
  refine ⟨by decide +kernel, by decide +kernel, by decide +kernel⟩

end BigDec
