import BigDec.Model.Fmt
/-! # C16 (theorems under construction) -/
namespace BigDec
theorem C16_padIntegral_no_flags (nonneg : Bool) (buf : List Char) :
    Fmt.padIntegral {} nonneg buf = (if !nonneg then ['-'] else []) ++ buf := by
  simp [Fmt.padIntegral]
end BigDec
