import BigDec.Model.Div
import BigDec.Spec.Div
import BigDec.Proofs.Digits
import BigDec.Proofs.Prec
/-! L5: `impl_division` — the shift loop and the digit loop compute the closed form
    `Spec.divideNat`, and the closed form is the correctly rounded quotient. -/
namespace BigDec
open Generated Spec

theorem shiftLoop_spec (n d : Nat) (fuel j : Nat) :
    shiftLoop d fuel (n * 10 ^ j) j = (n * 10 ^ (leastShift n d fuel j), leastShift n d fuel j) := by
  induction fuel generalizing j with
  | zero => simp [shiftLoop, leastShift]
  | succ f ih =>
    unfold shiftLoop leastShift
    split
    · have : n * 10 ^ j * 10 = n * 10 ^ (j + 1) := by rw [pow_succ]; ring
      rw [this]; exact ih (j + 1)
    · rfl

theorem mul_ten_div (X D : Nat) (hD : 0 < D) :
    (X / D) * 10 + ((X % D) * 10) / D = (X * 10) / D ∧ ((X % D) * 10) % D = (X * 10) % D := by
  have hdm := Nat.div_add_mod X D
  have e : X * 10 = (X % D) * 10 + D * ((X / D) * 10) := by nlinarith
  constructor
  · rw [e, Nat.add_mul_div_left _ _ hD]; ring
  · rw [e, Nat.add_mul_mod_self_left]

theorem divLoop_spec (N D P p0 : Nat) (hD : 0 < D) (fuel e : Nat) :
    divLoop D P fuel ⟨N * 10 ^ e / D, (N * 10 ^ e % D) * 10, p0 + e, e⟩ =
      (let e' := leastExact N D (P - p0) fuel e
       ⟨N * 10 ^ e' / D, (N * 10 ^ e' % D) * 10, p0 + e', e'⟩) := by
  induction fuel generalizing e with
  | zero => simp [divLoop, leastExact]
  | succ f ih =>
    unfold divLoop leastExact
    simp only []
    have hc : ((N * 10 ^ e % D) * 10 ≠ 0 ∧ p0 + e < P) ↔ (e < P - p0 ∧ (N * 10 ^ e) % D ≠ 0) := by
      constructor
      · intro ⟨h1, h2⟩; exact ⟨by omega, by intro h; rw [h] at h1; simp at h1⟩
      · intro ⟨h1, h2⟩; exact ⟨by omega, by omega⟩
    by_cases h : e < P - p0 ∧ (N * 10 ^ e) % D ≠ 0
    · rw [if_pos (hc.mpr h), if_pos h]
      obtain ⟨m1, m2⟩ := mul_ten_div (N * 10 ^ e) D hD
      have e1 : N * 10 ^ e * 10 = N * 10 ^ (e + 1) := by rw [pow_succ]; ring
      rw [m1, m2, e1]
      have := ih (e + 1)
      simp only [] at this
      rw [← Nat.add_assoc] at this
      exact this
    · rw [if_neg (fun hh => h (hc.mp hh)), if_neg h]

/-- **the loops of `impl_division` compute the closed form** -/
theorem implDivisionNat_eq (N D : Nat) (hD : 0 < D) (scale : Int) (P : Nat) :
    implDivisionNat N D scale P = Spec.divideNat N D scale P := by
  unfold implDivisionNat Spec.divideNat
  simp only [specNumDigits_eq]
  have hs := shiftLoop_spec N D (numDigits D + 1) 0
  simp only [pow_zero, Nat.mul_one] at hs
  rw [hs]
  simp only []
  set j := leastShift N D (numDigits D + 1) 0 with hj
  set N' := N * 10 ^ j with hN'
  set p0 := numDigits (N' / D) with hp0
  by_cases h0 : N' % D = 0
  · rw [if_pos h0]
    have he : leastExact N' D (P - p0) (P - p0) 0 = 0 := by
      cases hf : P - p0 with
      | zero => rfl
      | succ f => unfold leastExact; simp [h0]
    rw [he]
    simp [h0]
  · rw [if_neg h0]
    have hl := divLoop_spec N' D P p0 hD (P - p0) 0
    simp only [pow_zero, Nat.mul_one, Nat.add_zero] at hl
    rw [hl]
    simp only []
    set e := leastExact N' D (P - p0) (P - p0) 0 with he
    set T := N' * 10 ^ e with hT
    have hrem : ((T % D) * 10 ≠ 0) ↔ (T % D ≠ 0) := by
      constructor
      · intro h1 h2; rw [h2] at h1; simp at h1
      · intro h1; omega
    have hround : (5 ≤ (T % D) * 10 / D) ↔ (D ≤ 2 * (T % D)) := by
      rw [Nat.le_div_iff_mul_le hD]; constructor <;> intro h <;> omega
    congr 1
    · by_cases hr : T % D ≠ 0
      · rw [if_pos (hrem.mpr hr)]
        by_cases h5 : D ≤ 2 * (T % D)
        · rw [if_pos (hround.mpr h5), if_pos ⟨hr, h5⟩]
        · rw [if_neg (fun h => h5 (hround.mp h)), if_neg (fun h => h5 h.2)]
      · rw [if_neg (fun h => hr (hrem.mp h)), if_neg (fun h => hr h.1)]; rfl

theorem implDivision_eq (num den : Int) (hden : den ≠ 0) (scale : Int) (P : Nat) :
    implDivision num den scale P = Spec.divide num den scale P := by
  unfold implDivision Spec.divide
  split
  · rfl
  · simp only []
    rw [implDivisionNat_eq _ _ (Int.natAbs_pos.mpr hden)]

end BigDec

namespace BigDec
open Generated Spec

theorem leastShift_ge (n d : Nat) (fuel j : Nat) (h : d ≤ n * 10 ^ (j + fuel)) :
    d ≤ n * 10 ^ (leastShift n d fuel j) := by
  induction fuel generalizing j with
  | zero => simpa [leastShift] using h
  | succ f ih =>
    unfold leastShift
    split
    · apply ih; rw [show j + 1 + f = j + (f + 1) by ring]; exact h
    · omega

theorem leastShift_full (N D : Nat) (hN : 0 < N) :
    D ≤ N * 10 ^ (leastShift N D (numDigits D + 1) 0) := by
  apply leastShift_ge
  have h1 := lt_pow_numDigits D
  have h2 : 10 ^ numDigits D ≤ 10 ^ (0 + (numDigits D + 1)) := Nat.pow_le_pow_right (by norm_num) (by omega)
  calc D ≤ 10 ^ numDigits D := le_of_lt h1
    _ ≤ 10 ^ (0 + (numDigits D + 1)) := h2
    _ ≤ N * 10 ^ (0 + (numDigits D + 1)) := Nat.le_mul_of_pos_left _ hN

/-- `leastExact` stops at the bound or at an exact point, never beyond the bound -/
theorem leastExact_props (n d emax fuel e : Nat) (he : e ≤ emax) (hf : emax - e ≤ fuel) :
    let e' := leastExact n d emax fuel e
    e ≤ e' ∧ e' ≤ emax ∧ (e' = emax ∨ (n * 10 ^ e') % d = 0) := by
  induction fuel generalizing e with
  | zero => simp only [leastExact]; exact ⟨le_refl _, he, Or.inl (by omega)⟩
  | succ f ih =>
    simp only [leastExact]
    split
    · rename_i h
      have := ih (e + 1) (by omega) (by omega)
      simp only [] at this
      exact ⟨by omega, this.2.1, this.2.2⟩
    · rename_i h
      refine ⟨le_refl _, he, ?_⟩
      by_cases h1 : e < emax
      · right; by_contra hc; exact h ⟨h1, hc⟩
      · left; omega

/-- if the division becomes exact at some `e0` within the bound, `leastExact` ends exact -/
theorem leastExact_finds (n d emax fuel e e0 : Nat) (h0 : e ≤ e0) (h1 : e0 ≤ emax)
    (hd : (n * 10 ^ e0) % d = 0) (hf : emax - e ≤ fuel) :
    (n * 10 ^ (leastExact n d emax fuel e)) % d = 0 := by
  induction fuel generalizing e with
  | zero =>
    simp only [leastExact]
    have : e = e0 := by omega
    rw [this]; exact hd
  | succ f ih =>
    simp only [leastExact]
    split
    · rename_i h
      have hne : e ≠ e0 := by intro heq; rw [heq] at h; exact h.2 hd
      exact ih (e + 1) (by omega) (by omega)
    · rename_i h
      by_cases h2 : e < emax
      · by_contra hc; exact h ⟨h2, hc⟩
      · have : e = e0 := by omega
        rw [this]; exact hd

/-- digits of a quotient extended by `e` further decimal places -/
theorem numDigits_div_shift (N D e : Nat) (hD : 0 < D) (hge : D ≤ N) :
    numDigits (N * 10 ^ e / D) = numDigits (N / D) + e := by
  have hq : N / D ≠ 0 := by
    have : 1 ≤ N / D := (Nat.one_le_div_iff hD).mpr hge
    omega
  have hlo := pow_numDigits_le (N / D) hq
  have hhi := lt_pow_numDigits (N / D)
  have hp := numDigits_pos (N / D)
  have hP : 0 < 10 ^ e := by positivity
  have hdm := Nat.div_add_mod N D
  have hml := Nat.mod_lt N hD
  apply numDigits_unique
  · have : 1 ≤ N * 10 ^ e / D := by
      rw [Nat.one_le_div_iff hD]
      calc D ≤ N := hge
        _ ≤ N * 10 ^ e := Nat.le_mul_of_pos_right _ hP
    omega
  · -- (N/D)·10^e ≤ N·10^e / D
    have h1 : (N / D) * 10 ^ e ≤ N * 10 ^ e / D := by
      rw [Nat.le_div_iff_mul_le hD]
      calc N / D * 10 ^ e * D = (D * (N / D)) * 10 ^ e := by ring
        _ ≤ N * 10 ^ e := Nat.mul_le_mul_right _ (by omega)
    have e1 : numDigits (N / D) + e - 1 = (numDigits (N / D) - 1) + e := by omega
    rw [e1, pow_add]
    calc 10 ^ (numDigits (N / D) - 1) * 10 ^ e ≤ (N / D) * 10 ^ e := Nat.mul_le_mul_right _ hlo
      _ ≤ N * 10 ^ e / D := h1
  · -- N·10^e / D < (N/D + 1)·10^e ≤ 10^(nd + e)
    have h2 : N * 10 ^ e / D < (N / D + 1) * 10 ^ e := by
      rw [Nat.div_lt_iff_lt_mul hD]
      have : N < (N / D + 1) * D := by nlinarith
      calc N * 10 ^ e < (N / D + 1) * D * 10 ^ e := Nat.mul_lt_mul_of_pos_right this hP
        _ = (N / D + 1) * 10 ^ e * D := by ring
    rw [pow_add]
    calc N * 10 ^ e / D < (N / D + 1) * 10 ^ e := h2
      _ ≤ 10 ^ numDigits (N / D) * 10 ^ e := Nat.mul_le_mul_right _ (by omega)

/-- **what the closed form delivers** (magnitudes `N, D > 0`): with `k` extra decimal places
    and `T = N·10^k`, the result is the quotient `T / D` rounded half-up on the exact remainder;
    an inexact result carries at least `P` digits. -/
theorem divideNat_props (N D : Nat) (hN : 0 < N) (hD : 0 < D) (scale : Int) (P : Nat) :
    ∃ k : Nat, (Spec.divideNat N D scale P).2 = scale + k ∧
      ((N * 10 ^ k) % D = 0 → (Spec.divideNat N D scale P).1 * D = N * 10 ^ k) ∧
      (2 * ((N * 10 ^ k) % D) < D → (Spec.divideNat N D scale P).1 = N * 10 ^ k / D) ∧
      (D ≤ 2 * ((N * 10 ^ k) % D) → (Spec.divideNat N D scale P).1 = N * 10 ^ k / D + 1) ∧
      ((N * 10 ^ k) % D ≠ 0 → P ≤ numDigits (Spec.divideNat N D scale P).1) := by
  unfold Spec.divideNat
  simp only [specNumDigits_eq]
  set j := leastShift N D (numDigits D + 1) 0 with hj
  set N' := N * 10 ^ j with hN'
  set p0 := numDigits (N' / D) with hp0
  set e := leastExact N' D (P - p0) (P - p0) 0 with he
  have hT : N' * 10 ^ e = N * 10 ^ (j + e) := by rw [hN', pow_add]; ring
  have hge : D ≤ N' := leastShift_full N D hN
  have hprops := leastExact_props N' D (P - p0) (P - p0) 0 (by omega) (by omega)
  simp only [] at hprops
  rw [← he] at hprops
  refine ⟨j + e, by push_cast; ring, ?_, ?_, ?_, ?_⟩
  all_goals rw [← hT]
  · intro h0
    rw [if_neg (fun h => h.1 h0), Nat.add_zero]
    exact Nat.div_mul_cancel (Nat.dvd_of_mod_eq_zero h0)
  · intro h; rw [if_neg (fun hh => by omega), Nat.add_zero]
  · intro h
    have : N' * 10 ^ e % D ≠ 0 := by omega
    rw [if_pos ⟨this, h⟩]
  · intro hne
    have hemax : e = P - p0 := by
      rcases hprops.2.2 with h | h
      · exact h
      · exact absurd h hne
    have hnd := numDigits_div_shift N' D e hD hge
    have hmono : numDigits (N' * 10 ^ e / D) ≤ numDigits (N' * 10 ^ e / D + if N' * 10 ^ e % D ≠ 0 ∧ D ≤ 2 * (N' * 10 ^ e % D) then 1 else 0) :=
      numDigits_mono (by omega)
    rw [← hp0] at hnd
    omega

/-- **exactness**: if the true quotient `N/D` is `M·10^z / 10^w` for an `M` of at most `P` digits
    (i.e. it has at most `P` significant digits), the division stops on a zero remainder -/
theorem divideNat_exact (N D : Nat) (hN : 0 < N) (hD : 0 < D) (scale : Int) (P : Nat)
    (M w z : Nat) (hM : N * 10 ^ w = M * 10 ^ z * D) (hnd : numDigits M ≤ P) :
    ∃ k : Nat, (Spec.divideNat N D scale P).2 = scale + k ∧ (Spec.divideNat N D scale P).1 * D = N * 10 ^ k := by
  obtain ⟨k, hk, hex, _, _, _⟩ := divideNat_props N D hN hD scale P
  -- it suffices to show the remainder at the closed form's k is zero
  suffices hz : ∃ k' : Nat, (Spec.divideNat N D scale P).2 = scale + k' ∧ (N * 10 ^ k') % D = 0 by
    obtain ⟨k', hk', hz'⟩ := hz
    have : k' = k := by omega
    subst this
    exact ⟨k', hk', hex hz'⟩
  unfold Spec.divideNat
  simp only [specNumDigits_eq]
  set j := leastShift N D (numDigits D + 1) 0 with hj
  set N' := N * 10 ^ j with hN'
  set p0 := numDigits (N' / D) with hp0
  have hge : D ≤ N' := leastShift_full N D hN
  have hM0 : M ≠ 0 := by
    intro h; rw [h] at hM; simp at hM; omega
  refine ⟨j + leastExact N' D (P - p0) (P - p0) 0, by push_cast; ring, ?_⟩
  have hT : ∀ e, N * 10 ^ (j + e) = N' * 10 ^ e := by intro e; rw [hN', pow_add]; ring
  rw [hT]
  -- find an exact point e0 ≤ P - p0
  have hN'M : N' * 10 ^ w = M * 10 ^ (z + j) * D := by
    rw [hN', pow_add]; calc N * 10 ^ j * 10 ^ w = (N * 10 ^ w) * 10 ^ j := by ring
      _ = M * 10 ^ z * D * 10 ^ j := by rw [hM]
      _ = M * (10 ^ z * 10 ^ j) * D := by ring
  by_cases hwz : w ≤ z + j
  · -- N' = M·10^(z+j-w)·D : exact immediately
    have : N' = M * 10 ^ (z + j - w) * D := by
      have h1 : M * 10 ^ (z + j) * D = (M * 10 ^ (z + j - w) * D) * 10 ^ w := by
        have : z + j = (z + j - w) + w := by omega
        conv_lhs => rw [this, pow_add]
        ring
      rw [h1] at hN'M
      exact Nat.eq_of_mul_eq_mul_right (by positivity) hN'M
    apply leastExact_finds N' D (P - p0) (P - p0) 0 0 (le_refl _) (by omega) _ (by omega)
    rw [pow_zero, Nat.mul_one, this]; exact Nat.mul_mod_left _ _
  · -- N'·10^w' = M·D with w' = w - z - j
    push Not at hwz
    set w' := w - (z + j) with hw'
    have hNM : N' * 10 ^ w' = M * D := by
      have h1 : N' * 10 ^ w = (N' * 10 ^ w') * 10 ^ (z + j) := by
        have : w = w' + (z + j) := by omega
        conv_lhs => rw [this, pow_add]
        ring
      have h2 : M * 10 ^ (z + j) * D = (M * D) * 10 ^ (z + j) := by ring
      rw [h1, h2] at hN'M
      exact Nat.eq_of_mul_eq_mul_right (by positivity) hN'M
    -- p0 = numDigits M - w'
    have hquot : N' / D = M / 10 ^ w' := by
      have hP : 0 < 10 ^ w' := by positivity
      apply Nat.div_eq_of_lt_le
      · -- (M/10^w')·D ≤ N'
        have : (M / 10 ^ w') * 10 ^ w' ≤ M := Nat.div_mul_le_self M _
        have : (M / 10 ^ w') * D * 10 ^ w' ≤ N' * 10 ^ w' := by
          calc (M / 10 ^ w') * D * 10 ^ w' = ((M / 10 ^ w') * 10 ^ w') * D := by ring
            _ ≤ M * D := Nat.mul_le_mul_right _ this
            _ = N' * 10 ^ w' := hNM.symm
        exact Nat.le_of_mul_le_mul_right this hP
      · have : M < (M / 10 ^ w' + 1) * 10 ^ w' := by
          have := Nat.div_add_mod M (10 ^ w'); have := Nat.mod_lt M hP; nlinarith
        have : N' * 10 ^ w' < (M / 10 ^ w' + 1) * D * 10 ^ w' := by
          calc N' * 10 ^ w' = M * D := hNM
            _ < (M / 10 ^ w' + 1) * 10 ^ w' * D := Nat.mul_lt_mul_of_pos_right this hD
            _ = (M / 10 ^ w' + 1) * D * 10 ^ w' := by ring
        exact Nat.lt_of_mul_lt_mul_right this
    have hq1 : 1 ≤ N' / D := (Nat.one_le_div_iff hD).mpr hge
    have hMge : 10 ^ w' ≤ M := by
      by_contra hc; push Not at hc
      rw [hquot, Nat.div_eq_of_lt hc] at hq1; omega
    have hndM : numDigits M = numDigits (M / 10 ^ w') + w' := by
      have h1 := numDigits_div_shift (M / 10 ^ w' * 10 ^ w') 1 0 (by norm_num) (by
        have : 1 ≤ M / 10 ^ w' := (Nat.one_le_div_iff (by positivity)).mpr hMge
        calc 1 ≤ M / 10 ^ w' := this
          _ ≤ M / 10 ^ w' * 10 ^ w' := Nat.le_mul_of_pos_right _ (by positivity))
      -- simpler: sandwich M between (M/10^w')·10^w' and (M/10^w'+1)·10^w'
      have hq0 : M / 10 ^ w' ≠ 0 := by
        have : 1 ≤ M / 10 ^ w' := (Nat.one_le_div_iff (by positivity)).mpr hMge
        omega
      have hlo := pow_numDigits_le (M / 10 ^ w') hq0
      have hhi := lt_pow_numDigits (M / 10 ^ w')
      have hp := numDigits_pos (M / 10 ^ w')
      have hP : 0 < 10 ^ w' := by positivity
      apply numDigits_unique M _ hM0
      · have e1 : numDigits (M / 10 ^ w') + w' - 1 = (numDigits (M / 10 ^ w') - 1) + w' := by omega
        rw [e1, pow_add]
        calc 10 ^ (numDigits (M / 10 ^ w') - 1) * 10 ^ w' ≤ (M / 10 ^ w') * 10 ^ w' := Nat.mul_le_mul_right _ hlo
          _ ≤ M := Nat.div_mul_le_self M _
      · rw [pow_add]
        have : M < (M / 10 ^ w' + 1) * 10 ^ w' := by
          have := Nat.div_add_mod M (10 ^ w'); have := Nat.mod_lt M hP; nlinarith
        calc M < (M / 10 ^ w' + 1) * 10 ^ w' := this
          _ ≤ 10 ^ numDigits (M / 10 ^ w') * 10 ^ w' := Nat.mul_le_mul_right _ (by omega)
    have hw'le : w' ≤ P - p0 := by rw [hp0, hquot]; omega
    apply leastExact_finds N' D (P - p0) (P - p0) 0 w' (by omega) hw'le _ (by omega)
    rw [hNM]; exact Nat.mul_mod_left _ _

/-- the closed-form quotient is never zero: its leading digit comes from `N·10^j ≥ D` -/
theorem C08_aux_pos (N D : Nat) (hN : 0 < N) (hD : 0 < D) (scale : Int) (P : Nat) :
    0 < (Spec.divideNat N D scale P).1 := by
  unfold Spec.divideNat
  simp only [specNumDigits_eq]
  have hge : D ≤ N * 10 ^ (leastShift N D (numDigits D + 1) 0) := leastShift_full N D hN
  set N' := N * 10 ^ (leastShift N D (numDigits D + 1) 0)
  set e := leastExact N' D (P - numDigits (N' / D)) (P - numDigits (N' / D)) 0
  have : 1 ≤ N' * 10 ^ e / D := by
    rw [Nat.one_le_div_iff hD]
    calc D ≤ N' := hge
      _ ≤ N' * 10 ^ e := Nat.le_mul_of_pos_right _ (by positivity)
  omega

end BigDec
