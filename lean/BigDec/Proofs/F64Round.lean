import BigDec.Model.ToF64
import Mathlib.Tactic.Ring
import Mathlib.Tactic.Linarith
import Mathlib.Tactic.Positivity
import Mathlib.Tactic.FieldSimp
import Mathlib.Algebra.Order.Field.Basic
/-! Correctness of the rounding primitive of the `to_f64` model: `rne a b` is the binary64 nearest
    to `a / b` (relative error at most 2^-53 in the normal range, absolute error at most 2^-1075
    below it), infinity only at or above the overflow threshold. -/
namespace BigDec.F64

/-- nearest integer: twice the distance to `a / b` is at most one -/
theorem rneInt_spec (a b : Nat) (hb : 0 < b) :
    2 * (rneInt a b * b) ≤ 2 * a + b ∧ 2 * a ≤ 2 * (rneInt a b * b) + b := by
  unfold rneInt
  have h1 : a = b * (a / b) + a % b := (Nat.div_add_mod a b).symm
  have h2 : a % b < b := Nat.mod_lt _ hb
  have e1 : (a / b + 1) * b = b * (a / b) + b := by ring
  have e2 : a / b * b = b * (a / b) := by ring
  simp only
  split
  · rename_i h
    simp only [Bool.or_eq_true, decide_eq_true_eq, Bool.and_eq_true, beq_iff_eq] at h
    rw [e1]
    constructor <;> omega
  · rename_i h
    simp only [Bool.or_eq_true, decide_eq_true_eq, Bool.and_eq_true, beq_iff_eq, not_or, not_and] at h
    rw [e2]
    constructor <;> omega

theorem log2_bounds (a : Nat) (ha : 0 < a) : 2 ^ a.log2 ≤ a ∧ a < 2 ^ (a.log2 + 1) :=
  ⟨Nat.log2_self_le (by omega), Nat.lt_log2_self⟩

/-- the leading-bit position of `a / b` -/
theorem ilog2Ratio_spec (a b : Nat) (ha : 0 < a) (hb : 0 < b) :
    (0 ≤ ilog2Ratio a b → b * 2 ^ (ilog2Ratio a b).toNat ≤ a ∧ a < b * 2 ^ ((ilog2Ratio a b).toNat + 1)) ∧
    (ilog2Ratio a b < 0 → b ≤ a * 2 ^ (-(ilog2Ratio a b)).toNat ∧ a * 2 ^ (-(ilog2Ratio a b)).toNat < 2 * b) := by
  obtain ⟨ha1, ha2⟩ := log2_bounds a ha
  obtain ⟨hb1, hb2⟩ := log2_bounds b hb
  unfold ilog2Ratio
  simp only
  by_cases he0 : (a.log2 : Int) - (b.log2 : Int) ≥ 0
  · rw [if_pos he0]
    obtain ⟨k, hk⟩ : ∃ k : Nat, (a.log2 : Int) - (b.log2 : Int) = k := ⟨a.log2 - b.log2, by omega⟩
    have hk' : a.log2 = b.log2 + k := by omega
    rw [hk]
    simp only [Int.toNat_natCast]
    -- a < 2^(lb+k+1) ≤ b * 2^(k+1) ; a ≥ 2^(lb+k) > b*2^(k-1)
    have hup : a < b * 2 ^ (k + 1) := by
      calc a < 2 ^ (a.log2 + 1) := ha2
        _ = 2 ^ b.log2 * 2 ^ (k + 1) := by rw [hk']; ring
        _ ≤ b * 2 ^ (k + 1) := Nat.mul_le_mul_right _ hb1
    by_cases hge : a ≥ b * 2 ^ k
    · rw [if_pos hge]
      constructor
      · intro _; exact ⟨hge, hup⟩
      · intro h; omega
    · rw [if_neg hge]
      have hlt : a < b * 2 ^ k := by omega
      constructor
      · intro hnn
        have hk1 : 1 ≤ k := by omega
        have e : ((k : Int) - 1).toNat = k - 1 := by omega
        rw [e]
        constructor
        · -- b * 2^(k-1) < 2^(lb+1) * 2^(k-1) = 2^(lb+k) ≤ a
          have : b * 2 ^ (k - 1) ≤ 2 ^ (b.log2 + 1) * 2 ^ (k - 1) := Nat.mul_le_mul_right _ (by omega)
          have e2 : 2 ^ (b.log2 + 1) * 2 ^ (k - 1) = 2 ^ a.log2 := by rw [← Nat.pow_add, hk']; congr 1; omega
          omega
        · have : k - 1 + 1 = k := by omega
          rw [this]; exact hlt
      · intro hneg
        have hk0 : k = 0 := by omega
        subst hk0
        simp only [Nat.pow_zero, Nat.mul_one] at hlt
        have e : (-(((0 : Nat) : Int) - 1)).toNat = 1 := by omega
        rw [e]
        constructor
        · -- b < 2^(lb+1) = 2 * 2^la ≤ 2 a
          have : 2 ^ (b.log2 + 1) = 2 * 2 ^ a.log2 := by rw [hk', Nat.add_zero, Nat.pow_succ]; ring
          omega
        · omega
  · rw [if_neg he0]
    obtain ⟨k, hk⟩ : ∃ k : Nat, (b.log2 : Int) - (a.log2 : Int) = k := ⟨b.log2 - a.log2, by omega⟩
    have hk' : b.log2 = a.log2 + k := by omega
    have hk1 : 1 ≤ k := by omega
    have e0 : (-((a.log2 : Int) - (b.log2 : Int))).toNat = k := by omega
    rw [e0]
    -- a * 2^k ≥ 2^(la+k) = 2^lb ; compare with b
    have hlow : 2 ^ b.log2 ≤ a * 2 ^ k := by
      rw [hk', Nat.pow_add]; exact Nat.mul_le_mul_right _ ha1
    have hup : a * 2 ^ k < 2 * 2 ^ b.log2 * 2 := by
      have : a * 2 ^ k < 2 ^ (a.log2 + 1) * 2 ^ k := Nat.mul_lt_mul_of_pos_right ha2 (by positivity)
      have e : 2 ^ (a.log2 + 1) * 2 ^ k = 2 * 2 ^ b.log2 := by rw [hk']; ring
      omega
    by_cases hge : a * 2 ^ k ≥ b
    · rw [if_pos hge]
      constructor
      · intro h; omega
      · intro _
        rw [e0]
        refine ⟨hge, ?_⟩
        -- a*2^k < 2^(la+1+k) = 2*2^lb ≤ 2b
        have : a * 2 ^ k < 2 ^ (a.log2 + 1) * 2 ^ k := Nat.mul_lt_mul_of_pos_right ha2 (by positivity)
        have e : 2 ^ (a.log2 + 1) * 2 ^ k = 2 * 2 ^ b.log2 := by rw [hk']; ring
        omega
    · rw [if_neg hge]
      have hlt : a * 2 ^ k < b := by omega
      constructor
      · intro h; omega
      · intro _
        have e1 : (-((a.log2 : Int) - (b.log2 : Int) - 1)).toNat = k + 1 := by omega
        rw [e1]
        have e2 : a * 2 ^ (k + 1) = 2 * (a * 2 ^ k) := by rw [Nat.pow_succ]; ring
        have hb2' : b < 2 * 2 ^ b.log2 := by rw [Nat.pow_succ] at hb2; omega
        rw [e2]
        constructor <;> omega

end BigDec.F64

namespace BigDec.F64

/-- exact value of a finite bit pattern as a rational -/
def valQ (bits : Nat) : ℚ := ((val bits).1 : ℚ) / ((val bits).2 : ℚ)

theorem val_subnormal (m : Nat) (hm : m ≤ 2 ^ 52) : valQ m = (m : ℚ) / 2 ^ 1074 := by
  unfold valQ val
  by_cases hlt : m < 2 ^ 52
  · have h1 : m % 2 ^ 52 = m := Nat.mod_eq_of_lt hlt
    have h2 : m / 2 ^ 52 % 2 ^ 11 = 0 := by rw [Nat.div_eq_of_lt hlt]; rfl
    simp only [h1, h2, beq_self_eq_true, if_true]
    push_cast; rfl
  · have hm' : m = 2 ^ 52 := by omega
    subst hm'
    norm_num [Int.toNat]

theorem val_normal (E F : Nat) (hE1 : 1 ≤ E) (hE2 : E ≤ 2046) (hF : F < 2 ^ 52) :
    valQ (E * 2 ^ 52 + F) = ((2 ^ 52 + F : Nat) : ℚ) * (2 : ℚ) ^ ((E : Int) - 1075) := by
  unfold valQ val
  have h1 : (E * 2 ^ 52 + F) % 2 ^ 52 = F := by
    rw [Nat.add_comm, Nat.add_mul_mod_self_right, Nat.mod_eq_of_lt hF]
  have h2 : (E * 2 ^ 52 + F) / 2 ^ 52 % 2 ^ 11 = E := by
    rw [Nat.add_comm, Nat.add_mul_div_right _ _ (by positivity), Nat.div_eq_of_lt hF, Nat.zero_add]
    exact Nat.mod_eq_of_lt (by omega)
  simp only [h1, h2]
  have hE0 : (E == 0) = false := by simp; omega
  simp only [hE0, Bool.false_eq_true, if_false]
  by_cases hge : (E : Int) - 1075 ≥ 0
  · rw [if_pos hge]
    simp only
    have : ((E : Int) - 1075) = (((E : Int) - 1075).toNat : Int) := by omega
    rw [this, zpow_natCast]
    push_cast
    have : (((E : Int) - 1075).toNat : Int).toNat = ((E : Int) - 1075).toNat := by omega
    rw [this]; ring
  · rw [if_neg hge]
    simp only
    obtain ⟨k, hk⟩ : ∃ k : Nat, (E : Int) - 1075 = -(k : Int) := ⟨(-((E : Int) - 1075)).toNat, by omega⟩
    have hk' : (-((E : Int) - 1075)).toNat = k := by omega
    rw [hk', hk, zpow_neg, zpow_natCast]
    push_cast
    rw [div_eq_mul_inv]

end BigDec.F64

namespace BigDec.F64

/-- a nearest integer `m` of `a·P/b` gives `m/P` within `1/(2P)` of `a/b` -/
theorem near_div (m a b P : Nat) (hb : 0 < b) (hP : 0 < P)
    (r1 : 2 * (m * b) ≤ 2 * (a * P) + b) (r2 : 2 * (a * P) ≤ 2 * (m * b) + b) :
    |(m : ℚ) / P - (a : ℚ) / b| ≤ 1 / (2 * P) := by
  have hbq : (0 : ℚ) < b := by exact_mod_cast hb
  have hPq : (0 : ℚ) < P := by exact_mod_cast hP
  have r1q : (2 : ℚ) * ((m : ℚ) * b) ≤ 2 * ((a : ℚ) * P) + b := by exact_mod_cast r1
  have r2q : (2 : ℚ) * ((a : ℚ) * P) ≤ 2 * ((m : ℚ) * b) + b := by exact_mod_cast r2
  have e : (m : ℚ) / P - (a : ℚ) / b = ((m : ℚ) * b - a * P) / (P * b) := by
    field_simp
  rw [e, abs_div, abs_of_pos (mul_pos hPq hbq), div_le_div_iff₀ (mul_pos hPq hbq) (by positivity)]
  have habs : |(m : ℚ) * b - a * P| ≤ b / 2 := by
    rw [abs_le]; constructor <;> linarith
  calc |(m : ℚ) * b - a * P| * (2 * P) ≤ b / 2 * (2 * P) := mul_le_mul_of_nonneg_right habs (by positivity)
    _ = 1 * (P * b) := by ring

end BigDec.F64

namespace BigDec.F64

theorem two_zpow_pos (e : Int) : (0 : ℚ) < (2 : ℚ) ^ e := zpow_pos (by norm_num) e

/-- `q = a/b` lies in `[2^e, 2^(e+1))` for `e = ilog2Ratio a b` -/
theorem ilog2Ratio_bounds (a b : Nat) (ha : 0 < a) (hb : 0 < b) :
    (2 : ℚ) ^ (ilog2Ratio a b) ≤ (a : ℚ) / b ∧ (a : ℚ) / b < (2 : ℚ) ^ (ilog2Ratio a b + 1) := by
  have hbq : (0 : ℚ) < b := by exact_mod_cast hb
  obtain ⟨hpos, hneg⟩ := ilog2Ratio_spec a b ha hb
  by_cases he : 0 ≤ ilog2Ratio a b
  · obtain ⟨h1, h2⟩ := hpos he
    obtain ⟨k, hk⟩ : ∃ k : Nat, ilog2Ratio a b = k := ⟨(ilog2Ratio a b).toNat, by omega⟩
    rw [hk] at h1 h2 ⊢
    simp only [Int.toNat_natCast] at h1 h2
    have e1 : ((k : Int) + 1) = ((k + 1 : Nat) : Int) := by push_cast; ring
    rw [e1, zpow_natCast, zpow_natCast]
    constructor
    · rw [le_div_iff₀ hbq]
      have : ((b * 2 ^ k : Nat) : ℚ) ≤ (a : ℚ) := by exact_mod_cast h1
      push_cast at this; linarith
    · rw [div_lt_iff₀ hbq]
      have : ((a : Nat) : ℚ) < ((b * 2 ^ (k + 1) : Nat) : ℚ) := by exact_mod_cast h2
      push_cast at this; linarith
  · obtain ⟨h1, h2⟩ := hneg (by omega)
    obtain ⟨k, hk⟩ : ∃ k : Nat, ilog2Ratio a b = -(k : Int) := ⟨(-(ilog2Ratio a b)).toNat, by omega⟩
    have hk' : (-(ilog2Ratio a b)).toNat = k := by omega
    rw [hk'] at h1 h2
    have hk1 : 1 ≤ k := by omega
    rw [hk]
    have e1 : (-(k : Int) + 1) = -((k - 1 : Nat) : Int) := by omega
    rw [e1, zpow_neg, zpow_neg, zpow_natCast, zpow_natCast]
    have hp : (0 : ℚ) < 2 ^ k := by positivity
    have hp1 : (0 : ℚ) < 2 ^ (k - 1) := by positivity
    have hkk : (2 : ℚ) ^ k = 2 * 2 ^ (k - 1) := by
      rw [← pow_succ']; congr 1; omega
    constructor
    · rw [inv_eq_one_div, div_le_div_iff₀ hp hbq]
      have : ((b : Nat) : ℚ) ≤ ((a * 2 ^ k : Nat) : ℚ) := by exact_mod_cast h1
      push_cast at this; linarith
    · rw [inv_eq_one_div, div_lt_div_iff₀ hbq hp1]
      have : ((a * 2 ^ k : Nat) : ℚ) < ((2 * b : Nat) : ℚ) := by exact_mod_cast h2
      push_cast at this
      rw [hkk] at this
      nlinarith

end BigDec.F64

namespace BigDec.F64

/-- the significand chosen in the normal range -/
def sigOf (a b : Nat) (e : Int) : Nat :=
  if 52 - e ≥ 0 then rneInt (a * 2 ^ (52 - e).toNat) b else rneInt a (b * 2 ^ (-(52 - e)).toNat)

/-- the significand is the nearest integer to `q · 2^(52-e)` -/
theorem sigOf_near (a b : Nat) (hb : 0 < b) (e : Int) :
    |(sigOf a b e : ℚ) - (a : ℚ) / b * (2 : ℚ) ^ (52 - e)| ≤ 1 / 2 := by
  have hbq : (0 : ℚ) < b := by exact_mod_cast hb
  unfold sigOf
  by_cases hsh : 52 - e ≥ 0
  · rw [if_pos hsh]
    obtain ⟨k, hk⟩ : ∃ k : Nat, 52 - e = k := ⟨(52 - e).toNat, by omega⟩
    rw [hk, Int.toNat_natCast, zpow_natCast]
    obtain ⟨r1, r2⟩ := rneInt_spec (a * 2 ^ k) b hb
    have := near_div (rneInt (a * 2 ^ k) b) (a * 2 ^ k) b 1 hb (by norm_num) (by simpa using r1) (by simpa using r2)
    simp only [Nat.cast_one, div_one, mul_one] at this
    have e1 : (((a * 2 ^ k : Nat) : ℚ)) / b = (a : ℚ) / b * 2 ^ k := by push_cast; ring
    rw [e1] at this
    exact this
  · rw [if_neg hsh]
    obtain ⟨k, hk⟩ : ∃ k : Nat, 52 - e = -(k : Int) := ⟨(-(52 - e)).toNat, by omega⟩
    have hk' : (-(52 - e)).toNat = k := by omega
    rw [hk', hk, zpow_neg, zpow_natCast]
    have hbk : 0 < b * 2 ^ k := Nat.mul_pos hb (by positivity)
    obtain ⟨r1, r2⟩ := rneInt_spec a (b * 2 ^ k) hbk
    have := near_div (rneInt a (b * 2 ^ k)) a (b * 2 ^ k) 1 hbk (by norm_num) (by simpa using r1) (by simpa using r2)
    simp only [Nat.cast_one, div_one, mul_one] at this
    have e1 : (a : ℚ) / ((b * 2 ^ k : Nat) : ℚ) = (a : ℚ) / b * ((2 : ℚ) ^ k)⁻¹ := by
      push_cast; field_simp
    rw [e1] at this
    exact this

/-- in the normal range the significand lies in `[2^52, 2^53]` -/
theorem sigOf_range (a b : Nat) (ha : 0 < a) (hb : 0 < b) :
    2 ^ 52 ≤ sigOf a b (ilog2Ratio a b) ∧ sigOf a b (ilog2Ratio a b) ≤ 2 ^ 53 := by
  obtain ⟨h1, h2⟩ := ilog2Ratio_bounds a b ha hb
  have hn := sigOf_near a b hb (ilog2Ratio a b)
  obtain ⟨hl, hu⟩ := abs_le.mp hn
  have ht := two_zpow_pos (52 - ilog2Ratio a b)
  -- x = q * 2^(52-e) lies in [2^52, 2^53)
  have hx1 : (2 : ℚ) ^ (52 : Int) ≤ (a : ℚ) / b * (2 : ℚ) ^ (52 - ilog2Ratio a b) := by
    have : (2 : ℚ) ^ (52 : Int) = (2 : ℚ) ^ (ilog2Ratio a b) * (2 : ℚ) ^ (52 - ilog2Ratio a b) := by
      rw [← zpow_add₀ (by norm_num : (2 : ℚ) ≠ 0)]; congr 1; ring
    rw [this]
    exact mul_le_mul_of_nonneg_right h1 ht.le
  have hx2 : (a : ℚ) / b * (2 : ℚ) ^ (52 - ilog2Ratio a b) < (2 : ℚ) ^ (53 : Int) := by
    have : (2 : ℚ) ^ (53 : Int) = (2 : ℚ) ^ (ilog2Ratio a b + 1) * (2 : ℚ) ^ (52 - ilog2Ratio a b) := by
      rw [← zpow_add₀ (by norm_num : (2 : ℚ) ≠ 0)]; congr 1; ring
    rw [this]
    exact mul_lt_mul_of_pos_right h2 ht
  have e52 : (2 : ℚ) ^ (52 : Int) = ((2 ^ 52 : Nat) : ℚ) := by
    rw [show (52 : Int) = ((52 : Nat) : Int) by rfl, zpow_natCast]; push_cast; rfl
  have e53 : (2 : ℚ) ^ (53 : Int) = ((2 ^ 53 : Nat) : ℚ) := by
    rw [show (53 : Int) = ((53 : Nat) : Int) by rfl, zpow_natCast]; push_cast; rfl
  rw [e52] at hx1
  rw [e53] at hx2
  constructor
  · have : ((2 ^ 52 : Nat) : ℚ) - 1 < (sigOf a b (ilog2Ratio a b) : ℚ) := by linarith
    have h' : ((2 ^ 52 - 1 : Nat) : ℚ) < (sigOf a b (ilog2Ratio a b) : ℚ) := by
      have : ((2 ^ 52 - 1 : Nat) : ℚ) = ((2 ^ 52 : Nat) : ℚ) - 1 := by
        rw [Nat.cast_sub (by norm_num)]; norm_num
      linarith
    have : 2 ^ 52 - 1 < sigOf a b (ilog2Ratio a b) := by exact_mod_cast h'
    omega
  · have h' : (sigOf a b (ilog2Ratio a b) : ℚ) < ((2 ^ 53 + 1 : Nat) : ℚ) := by
      push_cast; linarith
    have : sigOf a b (ilog2Ratio a b) < 2 ^ 53 + 1 := by exact_mod_cast h'
    omega

end BigDec.F64

namespace BigDec.F64

theorem rne_unfold (a b : Nat) (ha : 0 < a) :
    rne a b =
      (if ilog2Ratio a b < -1022 then rneInt (a * 2 ^ 1074) b
       else
        (if (if sigOf a b (ilog2Ratio a b) == 2 ^ 53 then ilog2Ratio a b + 1 else ilog2Ratio a b) > 1023 then inf
         else ((if sigOf a b (ilog2Ratio a b) == 2 ^ 53 then ilog2Ratio a b + 1 else ilog2Ratio a b) + 1023).toNat * 2 ^ 52 +
              ((if sigOf a b (ilog2Ratio a b) == 2 ^ 53 then 2 ^ 52 else sigOf a b (ilog2Ratio a b)) - 2 ^ 52))) := by
  unfold rne sigOf
  rw [if_neg (by simp; omega)]

/-- **`rne` is round-to-nearest**: infinity, or a finite double within half a unit in the last place:
    relative error at most `2^-53` at or above `2^-1022`, absolute error at most `2^-1075` below. -/
theorem rne_spec (a b : Nat) (ha : 0 < a) (hb : 0 < b) :
    rne a b = inf ∨
    (((2 : ℚ) ^ (-1022 : Int) ≤ (a : ℚ) / b → |valQ (rne a b) - (a : ℚ) / b| ≤ (a : ℚ) / b * (2 : ℚ) ^ (-53 : Int)) ∧
     ((a : ℚ) / b < (2 : ℚ) ^ (-1022 : Int) → |valQ (rne a b) - (a : ℚ) / b| ≤ (2 : ℚ) ^ (-1075 : Int))) := by
  have hbq : (0 : ℚ) < b := by exact_mod_cast hb
  have two_ne : (2 : ℚ) ≠ 0 := by norm_num
  obtain ⟨hq1, hq2⟩ := ilog2Ratio_bounds a b ha hb
  rw [rne_unfold a b ha]
  by_cases hsub : ilog2Ratio a b < -1022
  · rw [if_pos hsub]
    right
    -- q < 2^-1022
    have hqlt : (a : ℚ) / b < (2 : ℚ) ^ (-1022 : Int) :=
      lt_of_lt_of_le hq2 (zpow_le_zpow_right₀ (by norm_num) (by omega))
    obtain ⟨r1, r2⟩ := rneInt_spec (a * 2 ^ 1074) b hb
    have hP : 0 < 2 ^ 1074 := by positivity
    have hnear := near_div (rneInt (a * 2 ^ 1074) b) a b (2 ^ 1074) hb hP r1 r2
    -- the rounded integer does not exceed 2^52
    have hK : (2 : ℚ) ^ (-1022 : Int) * ((2 ^ 1074 : Nat) : ℚ) = ((2 ^ 52 : Nat) : ℚ) := by
      rw [Nat.cast_pow, Nat.cast_pow, Nat.cast_ofNat, ← zpow_natCast (2 : ℚ) 1074, ← zpow_natCast (2 : ℚ) 52,
        ← zpow_add₀ two_ne]
      congr 1
    have hP' : (0 : ℚ) < ((2 ^ 1074 : Nat) : ℚ) := by exact_mod_cast hP
    have hm : rneInt (a * 2 ^ 1074) b ≤ 2 ^ 52 := by
      by_contra hgt
      have hgt' : ((2 ^ 52 : Nat) : ℚ) + 1 ≤ (rneInt (a * 2 ^ 1074) b : ℚ) := by
        have : 2 ^ 52 + 1 ≤ rneInt (a * 2 ^ 1074) b := by omega
        have := (Nat.cast_le (α := ℚ)).mpr this
        rw [Nat.cast_add, Nat.cast_one] at this
        exact this
      obtain ⟨hl, hu⟩ := abs_le.mp hnear
      generalize ((2 ^ 1074 : Nat) : ℚ) = P at hK hP' hl hu hnear
      generalize ((2 ^ 52 : Nat) : ℚ) = K at hK hgt'
      generalize (rneInt (a * 2 ^ 1074) b : ℚ) = M at hgt' hl hu hnear
      -- M / P ≤ q + 1/(2P),  q P < K
      have hqP : (a : ℚ) / b * P < K := by rw [← hK]; exact mul_lt_mul_of_pos_right hqlt hP'
      have h1 : M / P * P = M := div_mul_cancel₀ M hP'.ne'
      have h2 : 1 / (2 * P) * P = 1 / 2 := by field_simp
      have h3 : M / P ≤ (a : ℚ) / b + 1 / (2 * P) := by linarith
      have h4 : M ≤ (a : ℚ) / b * P + 1 / 2 := by
        have := mul_le_mul_of_nonneg_right h3 hP'.le
        rw [h1, add_mul, h2] at this
        exact this
      linarith
    rw [val_subnormal _ hm]
    refine ⟨fun h => absurd hqlt (not_lt.mpr h), fun _ => ?_⟩
    have e75 : (2 : ℚ) ^ (-1075 : Int) = 1 / (2 * ((2 ^ 1074 : Nat) : ℚ)) := by
      rw [show (-1075 : Int) = -(((1074 + 1 : Nat)) : Int) by rfl, zpow_neg, zpow_natCast, pow_succ]
      push_cast
      rw [one_div, mul_comm]
    rw [e75]
    have : ((2 : ℚ) ^ (1074 : ℕ)) = ((2 ^ 1074 : Nat) : ℚ) := by push_cast; rfl
    rw [this]
    exact hnear
  · rw [if_neg hsub]
    set e := ilog2Ratio a b with he
    obtain ⟨hm1, hm2⟩ := sigOf_range a b ha hb
    rw [← he] at hm1 hm2
    set m := sigOf a b e with hm
    by_cases hov : (if m == 2 ^ 53 then e + 1 else e) > 1023
    · left; rw [if_pos hov]
    · rw [if_neg hov]
      right
      -- decode the assembled bits
      have hsub' : -1022 ≤ e := by rw [he]; omega
      have hE1 : 1 ≤ ((if m == 2 ^ 53 then e + 1 else e) + 1023).toNat := by
        by_cases hc : (m == 2 ^ 53) = true
        · rw [if_pos hc]; omega
        · rw [if_neg hc]; omega
      have hE2 : ((if m == 2 ^ 53 then e + 1 else e) + 1023).toNat ≤ 2046 := by
        by_cases hc : (m == 2 ^ 53) = true
        · rw [if_pos hc] at hov ⊢; omega
        · rw [if_neg hc] at hov ⊢; omega
      have hF : (if m == 2 ^ 53 then 2 ^ 52 else m) - 2 ^ 52 < 2 ^ 52 := by
        by_cases hc : m = 2 ^ 53
        · simp [hc]
        · have : (m == 2 ^ 53) = false := by simpa using hc
          rw [this]; simp only [Bool.false_eq_true, if_false]; omega
      rw [val_normal _ _ hE1 hE2 hF]
      -- value = m * 2^(e-52)
      have hval : (((2 ^ 52 + ((if m == 2 ^ 53 then 2 ^ 52 else m) - 2 ^ 52) : Nat) : ℚ)) *
          (2 : ℚ) ^ ((((if m == 2 ^ 53 then e + 1 else e) + 1023).toNat : Int) - 1075) = (m : ℚ) * (2 : ℚ) ^ (e - 52) := by
        by_cases hc : m = 2 ^ 53
        · have hb1 : (m == 2 ^ 53) = true := by simpa using hc
          simp only [hb1, if_true]
          have e1 : (((e + 1 + 1023).toNat : Int) - 1075) = (e - 52) + 1 := by omega
          rw [e1, zpow_add₀ two_ne, hc]
          push_cast
          norm_num
          ring
        · have hb1 : (m == 2 ^ 53) = false := by simpa using hc
          simp only [hb1, Bool.false_eq_true, if_false]
          have e1 : (((e + 1023).toNat : Int) - 1075) = e - 52 := by omega
          have e2 : 2 ^ 52 + (m - 2 ^ 52) = m := by omega
          rw [e1, e2]
      rw [hval]
      -- error bound
      have hn := sigOf_near a b hb e
      rw [← hm] at hn
      have ht := two_zpow_pos (e - 52)
      have hprod : (2 : ℚ) ^ (52 - e) * (2 : ℚ) ^ (e - 52) = 1 := by
        rw [← zpow_add₀ two_ne]; simp
      have herr : |(m : ℚ) * (2 : ℚ) ^ (e - 52) - (a : ℚ) / b| ≤ (2 : ℚ) ^ (e - 53) := by
        have e1 : (m : ℚ) * (2 : ℚ) ^ (e - 52) - (a : ℚ) / b = ((m : ℚ) - (a : ℚ) / b * (2 : ℚ) ^ (52 - e)) * (2 : ℚ) ^ (e - 52) := by
          rw [sub_mul, mul_assoc, hprod, mul_one]
        rw [e1, abs_mul, abs_of_pos ht]
        have e2 : (2 : ℚ) ^ (e - 53) = 1 / 2 * (2 : ℚ) ^ (e - 52) := by
          rw [show e - 53 = (e - 52) + (-1) by ring, zpow_add₀ two_ne]
          rw [zpow_neg, zpow_one]; ring
        rw [e2]
        exact mul_le_mul_of_nonneg_right hn ht.le
      have hqe : (2 : ℚ) ^ (-1022 : Int) ≤ (a : ℚ) / b :=
        le_trans (zpow_le_zpow_right₀ (by norm_num) (by omega)) hq1
      refine ⟨fun _ => ?_, fun h => absurd hqe (not_le.mpr h)⟩
      calc |(m : ℚ) * (2 : ℚ) ^ (e - 52) - (a : ℚ) / b| ≤ (2 : ℚ) ^ (e - 53) := herr
        _ = (2 : ℚ) ^ e * (2 : ℚ) ^ (-53 : Int) := by rw [← zpow_add₀ two_ne]; congr 1
        _ ≤ (a : ℚ) / b * (2 : ℚ) ^ (-53 : Int) := mul_le_mul_of_nonneg_right hq1 (two_zpow_pos _).le

end BigDec.F64
