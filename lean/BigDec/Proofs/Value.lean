import BigDec.Proofs.Pow10
import BigDec.Spec.Exact
import Mathlib.Tactic.FieldSimp
import Mathlib.Tactic.Positivity
import Mathlib.Tactic.NormNum
import Mathlib.Algebra.Order.Field.Basic
import Mathlib.Algebra.Order.Field.Rat
import Mathlib.Data.Rat.Defs
/-! L1: the denotation `Dec.value : Dec → ℚ`, up-scaling is value preserving, and the executable
    specification of `Spec/Exact.lean` means what it says over ℚ. -/
namespace BigDec

/-- the rational number a decimal denotes -/
def Dec.value (d : Dec) : ℚ := (d.int : ℚ) * (10:ℚ) ^ (-d.scale)

theorem ten_ne_zero : (10:ℚ) ≠ 0 := by norm_num

theorem zpow_toNat_sub {a b : Int} (h : a ≤ b) : (10:ℚ) ^ (b - a).toNat = (10:ℚ) ^ (b - a) := by
  rw [← zpow_natCast]; congr 1; omega

@[simp] theorem Dec.value_mk (i s : Int) : (Dec.mk i s).value = (i:ℚ) * (10:ℚ) ^ (-s) := rfl

theorem Dec.value_zero_int {d : Dec} (h : d.int = 0) : d.value = 0 := by simp [Dec.value, h]

/-- multiplying the integer by `10^(ns - s)` while moving the scale to `ns` keeps the value -/
theorem value_scale_up (i s ns : Int) (h : s ≤ ns) :
    (((i * ((10 ^ (ns - s).toNat : Nat) : Int) : Int) : ℚ)) * (10:ℚ) ^ (-ns) = (i:ℚ) * (10:ℚ) ^ (-s) := by
  push_cast
  rw [zpow_toNat_sub h, mul_assoc, ← zpow_add₀ ten_ne_zero]
  congr 2; ring

theorem Dec.value_neg (d : Dec) : d.neg.value = -d.value := by
  simp [Dec.neg, Dec.value]

theorem Dec.value_abs (d : Dec) : d.abs.value = |d.value| := by
  simp only [Dec.abs, Dec.value]
  rw [abs_mul, abs_of_pos (zpow_pos (by norm_num : (0:ℚ) < 10) _)]
  congr 1
  rw [Int.natCast_natAbs]; push_cast; rfl

theorem Dec.value_ofInt (i : Int) : (Dec.ofInt i).value = i := by simp [Dec.ofInt, Dec.value]

/-- sign · magnitude re-assembles the integer -/
theorem sign_mul_natAbs (i : Int) : (if i < 0 then (-1:Int) else 1) * (i.natAbs : Int) = i := by
  split
  · rename_i h; rw [Int.ofNat_natAbs_of_nonpos (le_of_lt h)]; ring
  · rename_i h; rw [Int.natAbs_of_nonneg (not_lt.mp h)]; ring

theorem tdiv_natCast_eq (i : Int) (P : Nat) :
    i.tdiv (P : Int) = (if i < 0 then -1 else 1) * ((i.natAbs / P : Nat) : Int) := by
  cases i with
  | ofNat m =>
    have : ¬ (Int.ofNat m < 0) := by simp
    simp only [this, if_false, one_mul]
    rfl
  | negSucc m =>
    have : (Int.negSucc m < 0) := Int.negSucc_lt_zero m
    simp only [this, if_true]
    show -((((m+1) / P : Nat)) : Int) = _
    simp [Int.natAbs_negSucc]

theorem tmod_natCast_eq (i : Int) (P : Nat) :
    i.tmod (P : Int) = (if i < 0 then -1 else 1) * ((i.natAbs % P : Nat) : Int) := by
  cases i with
  | ofNat m =>
    have : ¬ (Int.ofNat m < 0) := by simp
    simp only [this, if_false, one_mul]
    rfl
  | negSucc m =>
    have : (Int.negSucc m < 0) := Int.negSucc_lt_zero m
    simp only [this, if_true]
    show -((((m+1) % P : Nat)) : Int) = _
    simp [Int.natAbs_negSucc]

theorem Dec.value_setScale_up (d : Dec) (ns : Int) (h : d.scale ≤ ns) :
    (d.setScale ns).value = d.value := by
  unfold Dec.setScale
  have hb := fast_bounds_ok
  split
  · rename_i h0; simp [Dec.value, h0]
  · split
    · split
      · rename_i hlt; rw [tenPowU64_eq (by omega)]; exact value_scale_up _ _ _ h
      · rw [tenToTheUint_eq]; exact value_scale_up _ _ _ h
    · split
      · omega
      · rfl

theorem Dec.scale_setScale (d : Dec) (ns : Int) : (d.setScale ns).scale = ns ∨ (d.setScale ns) = d := by
  unfold Dec.setScale
  split
  · left; rfl
  · split
    · split <;> (left; rfl)
    · split
      · split <;> (left; rfl)
      · right; rfl

theorem Dec.scale_setScale_up (d : Dec) (ns : Int) (h : d.scale ≤ ns) : (d.setScale ns).scale = ns := by
  unfold Dec.setScale
  split
  · rfl
  · split
    · split <;> rfl
    · split
      · omega
      · show d.scale = ns; omega

theorem Dec.setScale_int_ne_zero (d : Dec) (ns : Int) (h : d.scale ≤ ns) (h0 : d.int ≠ 0) :
    (d.setScale ns).int ≠ 0 := by
  intro hz
  have := Dec.value_setScale_up d ns h
  rw [Dec.value_zero_int hz] at this
  have : d.value ≠ 0 := by
    simp only [Dec.value]
    exact mul_ne_zero (by exact_mod_cast h0) (zpow_ne_zero _ ten_ne_zero)
  simp_all

theorem Dec.value_extendScaleTo (d : Dec) (ns : Int) : (d.extendScaleTo ns).value = d.value := by
  unfold Dec.extendScaleTo
  split
  · exact Dec.value_setScale_up d ns (by omega)
  · rfl

theorem Dec.value_withScale_up (d : Dec) (ns : Int) (h : d.scale ≤ ns) :
    (d.withScale ns).value = d.value := by
  unfold Dec.withScale
  split
  · rename_i h0; simp [Dec.value, h0]
  · split
    · rw [tenToTheUint_eq]; exact value_scale_up _ _ _ h
    · split
      · omega
      · rfl

theorem Dec.scale_withScale_up (d : Dec) (ns : Int) (h : d.scale ≤ ns) : (d.withScale ns).scale = ns := by
  unfold Dec.withScale
  split
  · rfl
  · split
    · rfl
    · split
      · omega
      · show d.scale = ns; omega

theorem Dec.value_toOwnedWithScale_up (d : Dec) (ns : Int) (h : d.scale ≤ ns) :
    (d.toOwnedWithScale ns).value = d.value := by
  unfold Dec.toOwnedWithScale
  have hb := fast_bounds_ok
  split
  · rfl
  · split
    · have key : ∀ k : Nat, k = 10 ^ (ns - d.scale).toNat →
          (Dec.mk ((if d.int < 0 then -1 else 1) * ((d.int.natAbs * k : Nat) : Int)) ns).value = d.value := by
        intro k hk
        have : (if d.int < 0 then (-1:Int) else 1) * ((d.int.natAbs * k : Nat) : Int)
            = d.int * ((10 ^ (ns - d.scale).toNat : Nat) : Int) := by
          rw [hk, Nat.cast_mul, ← mul_assoc, sign_mul_natAbs]
        rw [this]; exact value_scale_up _ _ _ h
      split
      · rename_i hlt; exact key _ (tenPowU64_eq (by omega))
      · exact key _ (tenToTheUint_eq _)
    · omega

theorem Dec.scale_toOwnedWithScale (d : Dec) (ns : Int) : (d.toOwnedWithScale ns).scale = ns := by
  unfold Dec.toOwnedWithScale
  split
  · rename_i h; exact h.symm
  · split
    · split <;> rfl
    · split <;> rfl

/-! ### the executable specification, over ℚ -/

theorem Spec.alignTo_value (d : Dec) (S : Int) (h : d.scale ≤ S) :
    ((Spec.alignTo d S : Int) : ℚ) * (10:ℚ) ^ (-S) = d.value := by
  unfold Spec.alignTo; exact value_scale_up _ _ _ h

theorem Spec.value_add (a b : Dec) : (Spec.add a b).value = a.value + b.value := by
  unfold Spec.add
  simp only [Dec.value_mk]
  push_cast
  rw [add_mul, Spec.alignTo_value _ _ (le_max_left _ _), Spec.alignTo_value _ _ (le_max_right _ _)]

theorem Spec.value_sub (a b : Dec) : (Spec.sub a b).value = a.value - b.value := by
  unfold Spec.sub
  simp only [Dec.value_mk]
  push_cast
  rw [sub_mul, Spec.alignTo_value _ _ (le_max_left _ _), Spec.alignTo_value _ _ (le_max_right _ _)]

theorem Spec.value_mul (a b : Dec) : (Spec.mul a b).value = a.value * b.value := by
  unfold Spec.mul
  simp only [Dec.value_mk, Dec.value]
  push_cast
  rw [neg_add, zpow_add₀ ten_ne_zero]; ring

theorem Spec.value_neg (a : Dec) : (Spec.neg a).value = -a.value := Dec.value_neg a
theorem Spec.value_abs (a : Dec) : (Spec.abs a).value = |a.value| := Dec.value_abs a

theorem Spec.value_half (a : Dec) : (Spec.half a).value = a.value / 2 := by
  unfold Spec.half
  simp only [Dec.value_mk, Dec.value]
  push_cast
  rw [neg_add, zpow_add₀ ten_ne_zero]
  norm_num; ring

theorem Spec.value_sum (xs : List Dec) : (Spec.sum xs).value = (xs.map Dec.value).sum := by
  unfold Spec.sum
  have : ∀ (acc : Dec), (xs.foldl Spec.add acc).value = acc.value + (xs.map Dec.value).sum := by
    induction xs with
    | nil => intro acc; simp
    | cons x xs ih => intro acc; simp [List.foldl_cons, ih, Spec.value_add, add_assoc]
  rw [this]; simp [Dec.value]

/-- `valueEq` decides equality of the denoted rationals -/
theorem Spec.valueEq_iff (x y : Dec) : Spec.valueEq x y = true ↔ x.value = y.value := by
  unfold Spec.valueEq
  simp only [beq_iff_eq]
  rw [← Spec.alignTo_value x _ (le_max_left x.scale y.scale), ← Spec.alignTo_value y _ (le_max_right x.scale y.scale)]
  constructor
  · intro h; rw [h]
  · intro h
    have hp : (10:ℚ) ^ (-(max x.scale y.scale)) ≠ 0 := zpow_ne_zero _ ten_ne_zero
    exact_mod_cast mul_right_cancel₀ hp h

end BigDec
