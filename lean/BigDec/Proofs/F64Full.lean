import BigDec.Proofs.F64PowiInf
import BigDec.Proofs.F64Inf
/-! Assembly: `to_f64` on every decimal - all branches, including saturation of the trimmed scale,
    exponents beyond `i32`, `powi` overflow, and the direction "infinity only near or above `f64::MAX`". -/
namespace BigDec.F64

/-- the trimming loop with its saturating scale arithmetic -/
theorem trim_sat (k : Nat) : ∀ (n : Nat) (s : Int), -(2 ^ 63 : Int) ≤ s →
    trim k n s = (n / 10 ^ (19 * k), max (s - 19 * k) (-(2 ^ 63 : Int)))
  | n, s, h => by
    induction k generalizing n s with
    | zero => simp [trim]; omega
    | succ k ih =>
      unfold trim
      rw [ih _ _ (le_max_right _ _)]
      have e1 : (10 : Nat) ^ 19 * 10 ^ (19 * k) = 10 ^ (19 * (k + 1)) := by
        rw [← pow_add, show 19 + 19 * k = 19 * (k + 1) by ring]
      rw [Nat.div_div_eq_div_mul, e1]
      congr 1
      push_cast
      omega

/-- the largest finite double -/
def maxF : ℚ := (2 : ℚ) ^ (1024 : Int) - (2 : ℚ) ^ (971 : Int)

/-- "infinity is justified": the exact value is within `2^-48` of `f64::MAX` or above it -/
def InfOK (V : ℚ) : Prop := maxF * (1 - (2 : ℚ) ^ (-48 : Int)) ≤ V

/-- "a finite result is justified": `2^-48` relative at or above the smallest normal double, one
    subnormal step below -/
def FinOK (R : Nat) (V : ℚ) : Prop :=
  ((2 : ℚ) ^ (-1022 : Int) ≤ V → |valQ R - V| ≤ V * (2 : ℚ) ^ (-48 : Int)) ∧
  (V < (2 : ℚ) ^ (-1022 : Int) → |valQ R - V| ≤ (2 : ℚ) ^ (-1074 : Int))

theorem maxF_pos : 0 < maxF := by
  unfold maxF
  have : (2 : ℚ) ^ (971 : Int) < (2 : ℚ) ^ (1024 : Int) := zpow_lt_zpow_right₀ (by norm_num) (by norm_num)
  exact sub_pos.mpr this

theorem maxF_lt_ovf : maxF < ovf := by
  unfold maxF ovf
  have : (2 : ℚ) ^ (970 : Int) < (2 : ℚ) ^ (971 : Int) := zpow_lt_zpow_right₀ (by norm_num) (by norm_num)
  exact sub_lt_sub_left this _

theorem infOK_of_ge_maxF (V : ℚ) (h : maxF ≤ V) : InfOK V := by
  unfold InfOK
  have h48 : (0 : ℚ) < (2 : ℚ) ^ (-48 : Int) := two_zpow_pos _
  have := maxF_pos
  nlinarith

theorem infOK_mono {V W : ℚ} (h : InfOK V) (hvw : V ≤ W) : InfOK W := le_trans h hvw

/-- a product of two slightly inflated factors reaching the overflow threshold: the exact product is
    within `2^-48` of `f64::MAX` -/
theorem infOK_of_inflated (X : ℚ) (hX : 0 ≤ X)
    (h : ovf ≤ X * ((1 + 1 / 2 ^ 53) * (1 + 7 * (1 / 2 ^ 53)))) : InfOK X := by
  unfold InfOK
  have h48 : (2 : ℚ) ^ (-48 : Int) = 32 * (1 / 2 ^ 53) := by
    rw [show (32 : ℚ) = (2 : ℚ) ^ (5 : Int) by norm_num, show (1 : ℚ) / 2 ^ 53 = (2 : ℚ) ^ (-53 : Int) by
      rw [zpow_neg, show (53 : Int) = ((53 : Nat) : Int) by rfl, zpow_natCast, one_div], ← zpow_add₀ (by norm_num)]
    norm_num
  rw [h48]
  have hm := maxF_pos
  have hlt := maxF_lt_ovf
  generalize maxF = Mx at *
  generalize ovf = O at *
  obtain ⟨u, hu⟩ : ∃ u : ℚ, u = 1 / 2 ^ 53 := ⟨_, rfl⟩
  rw [← hu] at h ⊢
  have hu0 : 0 < u := by rw [hu]; positivity
  have hu1 : u ≤ 1 / 1000 := by rw [hu]; norm_num
  by_contra hc
  push Not at hc
  -- X < Mx (1 - 32u)  ⇒  X (1+u)(1+7u) < Mx
  have hfac : (1 - 32 * u) * ((1 + u) * (1 + 7 * u)) ≤ 1 := by nlinarith [mul_pos hu0 hu0, mul_pos (mul_pos hu0 hu0) hu0]
  have hpos : 0 < (1 + u) * (1 + 7 * u) := by positivity
  have h1 : X * ((1 + u) * (1 + 7 * u)) < Mx * (1 - 32 * u) * ((1 + u) * (1 + 7 * u)) :=
    mul_lt_mul_of_pos_right hc hpos
  have h2 : Mx * (1 - 32 * u) * ((1 + u) * (1 + 7 * u)) ≤ Mx := by
    have := mul_le_mul_of_nonneg_left hfac hm.le
    linarith
  linarith

/-- `to_f64` with the trimming loop resolved -/
theorem toF64With_unfold (dc : Nat → Nat) (neg : Bool) (n : Nat) (scale : Int) (hn : 0 < n) (hs : scale ≠ 0)
    (hlo : -(2 ^ 63 : Int) ≤ scale) (sc : Int) (hsc : sc = max (scale - 19 * (trimRounds dc n : Int)) (-(2 ^ 63 : Int))) :
    toF64With dc neg n scale =
      (if (decide (sc < -(2 ^ 31 - 1)) || decide (sc > 2 ^ 31 - 1 + 1)) = true then
        (if sc > 0 then (if neg then 2 ^ 63 else 0) else (if neg then 2 ^ 63 else 0) + inf)
      else if sc ≤ 0 then (if neg then 2 ^ 63 else 0) + mul (ofNat (n / 10 ^ (19 * trimRounds dc n))) (powi ten (-sc).toNat)
      else if ((n / 10 ^ (19 * trimRounds dc n)).log2 : Int) + 1 < 3 * (sc - 330) then (if neg then 2 ^ 63 else 0)
      else (if neg then 2 ^ 63 else 0) + rne (n / 10 ^ (19 * trimRounds dc n)) (10 ^ sc.toNat)) := by
  unfold toF64With
  have e0 : (n == 0) = false := by simp; omega
  have e1 : (scale == 0) = false := by simpa using hs
  simp only [e0, e1, Bool.false_eq_true, if_false]
  have ht := trim_sat (trimRounds dc n) n scale hlo
  unfold trimRounds at ht hsc ⊢
  rw [ht, ← hsc]

theorem two1024_le_ten309 : (2 : ℚ) ^ (1024 : Int) ≤ (10 : ℚ) ^ (309 : Nat) := by
  have h : (2 : Nat) ^ 1024 ≤ 10 ^ 309 := by decide +kernel
  rw [show (1024 : Int) = ((1024 : Nat) : Int) by rfl, zpow_natCast]
  exact_mod_cast h

/-- a value of at least `10^309` justifies infinity -/
theorem infOK_ge_ten309 (V : ℚ) (h : (10 : ℚ) ^ (309 : Nat) ≤ V) : InfOK V := by
  apply infOK_of_ge_maxF
  have h971 : (0 : ℚ) < (2 : ℚ) ^ (971 : Int) := two_zpow_pos _
  have : maxF ≤ (2 : ℚ) ^ (1024 : Int) := by unfold maxF; exact sub_le_self _ h971.le
  exact le_trans this (le_trans two1024_le_ten309 h)

/-- the `powi` path, infinite result: justified -/
theorem powi_path_inf (n k : Nat) (hn : 0 < n) (h : mul (ofNat n) (powi ten k) = inf) (hk64 : k < 2 ^ 64) :
    InfOK ((n : ℚ) * (10 : ℚ) ^ k) := by
  have hNq : (1 : ℚ) ≤ (n : ℚ) := by exact_mod_cast hn
  have hTq : (1 : ℚ) ≤ (10 : ℚ) ^ k := one_le_pow₀ (by norm_num)
  by_cases hk : k ≤ 308
  · obtain ⟨hPne, hcpos, hPerr⟩ := powi_err k hk
    have hu53 : (2 : ℚ) ^ (-53 : Int) = 1 / 2 ^ 53 := by
      rw [zpow_neg, show (53 : Int) = ((53 : Nat) : Int) by rfl, zpow_natCast, one_div]
    rw [hu53] at hPerr
    by_cases hF : ofNat n = inf
    · unfold ofNat at hF
      have := rne_inf_large n 1 hn (by norm_num) hF
      simp only [Nat.cast_one, div_one] at this
      have h1 : maxF ≤ (n : ℚ) := le_trans maxF_lt_ovf.le this
      have h2 : (n : ℚ) ≤ (n : ℚ) * (10 : ℚ) ^ k := le_mul_of_one_le_right (by linarith) hTq
      exact infOK_of_ge_maxF _ (le_trans h1 h2)
    · -- finite factors, overflowing product
      have hFerr : valQ (ofNat n) ≤ (n : ℚ) * (1 + 1 / 2 ^ 53) := by
        unfold ofNat at hF ⊢
        rcases rne_spec n 1 hn (by norm_num) with h' | ⟨h1, _⟩
        · exact absurd h' hF
        · have hq : (2 : ℚ) ^ (-1022 : Int) ≤ ((n : ℚ)) / ((1 : Nat) : ℚ) := by
            have : (2 : ℚ) ^ (-1022 : Int) ≤ 1 := zpow_le_one_of_nonpos₀ (by norm_num) (by norm_num)
            simp only [Nat.cast_one, div_one]; linarith
          have := (abs_le.mp (h1 hq)).2
          rw [hu53] at this
          simp only [Nat.cast_one, div_one] at this
          linarith
      have hPhi : valQ (powi ten k) ≤ (10 : ℚ) ^ k * (1 + 7 * (1 / 2 ^ 53)) := by
        have := (abs_le.mp hPerr).2; linarith
      have hbpos := val_den_pos (ofNat n)
      have hdpos := val_den_pos (powi ten k)
      have hF0 : 0 ≤ valQ (ofNat n) := valQ_nonneg _
      have hP0 : 0 ≤ valQ (powi ten k) := valQ_nonneg _
      unfold mul at h
      have e1 : (ofNat n == inf) = false := by simpa using hF
      have e2 : (powi ten k == inf) = false := by simpa using hPne
      simp only [e1, e2, Bool.or_self, Bool.false_eq_true, if_false] at h
      have hapos : 0 < (val (ofNat n)).1 := by
        by_contra h0
        have h0' : (val (ofNat n)).1 = 0 := by omega
        rw [h0', Nat.zero_mul] at h
        have : rne 0 ((val (ofNat n)).2 * (val (powi ten k)).2) = 0 := by unfold rne; simp
        rw [this] at h
        exact absurd h (by decide)
      have := rne_inf_large _ _ (Nat.mul_pos hapos hcpos) (Nat.mul_pos hbpos hdpos) h
      have hprod : (((val (ofNat n)).1 * (val (powi ten k)).1 : Nat) : ℚ) / (((val (ofNat n)).2 * (val (powi ten k)).2 : Nat) : ℚ)
          = valQ (ofNat n) * valQ (powi ten k) := by
        unfold valQ; push_cast; rw [mul_div_mul_comm]
      rw [hprod] at this
      apply infOK_of_inflated _ (by positivity)
      calc ovf ≤ valQ (ofNat n) * valQ (powi ten k) := this
        _ ≤ (n : ℚ) * (1 + 1 / 2 ^ 53) * ((10 : ℚ) ^ k * (1 + 7 * (1 / 2 ^ 53))) :=
            mul_le_mul hFerr hPhi hP0 (by positivity)
        _ = (n : ℚ) * (10 : ℚ) ^ k * ((1 + 1 / 2 ^ 53) * (1 + 7 * (1 / 2 ^ 53))) := by ring
  · apply infOK_ge_ten309
    have h1 : (10 : ℚ) ^ (309 : Nat) ≤ (10 : ℚ) ^ k := pow_le_pow_right₀ (by norm_num) (by omega)
    have h2 : (10 : ℚ) ^ k ≤ (n : ℚ) * (10 : ℚ) ^ k := le_mul_of_one_le_left (by positivity) hNq
    exact le_trans h1 h2

/-- the exact value in terms of the trimmed quotient and the trimmed scale -/
theorem value_split (n it : Nat) (scale : Int) :
    (n : ℚ) * (10 : ℚ) ^ (-scale) = (n : ℚ) / ((10 ^ (19 * it) : Nat) : ℚ) * (10 : ℚ) ^ (-(scale - 19 * (it : Int))) := by
  have : -scale = -(scale - 19 * (it : Int)) - ((19 * it : Nat) : Int) := by push_cast; ring
  rw [this, zpow_sub₀ (by norm_num), zpow_natCast, Nat.cast_pow, Nat.cast_ofNat]
  ring

theorem valQ_zero : valQ 0 = 0 := by rw [val_subnormal 0 (by norm_num)]; simp

/-- a zero result is justified when the value is at most one subnormal step -/
theorem finOK_zero (V : ℚ) (hV0 : 0 < V) (h : V ≤ (2 : ℚ) ^ (-1074 : Int)) : FinOK 0 V := by
  unfold FinOK
  rw [valQ_zero]
  constructor
  · intro hbig
    exfalso
    have h1 : (2 : ℚ) ^ (-1074 : Int) < (2 : ℚ) ^ (-1022 : Int) := zpow_lt_zpow_right₀ (by norm_num) (by norm_num)
    exact absurd (lt_of_le_of_lt (le_trans hbig h) h1) (lt_irrefl _)
  · intro _
    rw [zero_sub, abs_neg, abs_of_pos hV0]; exact h

/-- `q < m + 1` and `(m + 1) · 2^1074 ≤ 10^S` give `q / 10^S ≤ 2^-1074` -/
theorem tiny_of_guard (q : ℚ) (m S : Nat) (hq1 : q < (m : ℚ) + 1) (hnat : (m + 1) * 2 ^ 1074 ≤ 10 ^ S) :
    q / (10 : ℚ) ^ S ≤ (2 : ℚ) ^ (-1074 : Int) := by
  have hE : (0 : ℚ) < (10 : ℚ) ^ S := by positivity
  have hcast : ((m : ℚ) + 1) * 2 ^ 1074 ≤ (10 : ℚ) ^ S := by exact_mod_cast hnat
  have e : (2 : ℚ) ^ (-1074 : Int) = 1 / 2 ^ 1074 := by
    rw [zpow_neg, show (1074 : Int) = ((1074 : Nat) : Int) by rfl, zpow_natCast, one_div]
  rw [e, div_le_div_iff₀ hE (by positivity)]
  have hP : (0 : ℚ) < 2 ^ 1074 := by positivity
  calc q * 2 ^ 1074 ≤ ((m : ℚ) + 1) * 2 ^ 1074 := mul_le_mul_of_nonneg_right hq1.le hP.le
    _ ≤ (10 : ℚ) ^ S := hcast
    _ = 1 * (10 : ℚ) ^ S := (one_mul _).symm

theorem log2_mono' {a b : Nat} (h : a ≤ b) : a.log2 ≤ b.log2 := by
  by_cases ha : a = 0
  · subst ha; simp
  · have hb : b ≠ 0 := by omega
    rw [Nat.le_log2 hb]
    exact le_trans (Nat.log2_self_le ha) h

/-- **`to_f64` on every decimal with a non-zero scale**: the result is the sign bit plus `R`, where an
    infinite `R` is justified (`InfOK`) and a finite `R` is within the tolerance (`FinOK`). -/
theorem toF64With_spec (dc : Nat → Nat) (neg : Bool) (n : Nat) (scale : Int) (hn : 0 < n) (hs : scale ≠ 0)
    (hlo : -(2 ^ 63 : Int) ≤ scale) (hsize : n.log2 + 2 ≤ 2 ^ 32)
    (hkeep : trimRounds dc n = 0 ∨ 10 ^ (19 * trimRounds dc n + 24) ≤ n) :
    ∃ R, toF64With dc neg n scale = (if neg then 2 ^ 63 else 0) + R ∧
      (R = inf → InfOK ((n : ℚ) * (10 : ℚ) ^ (-scale))) ∧ (R ≠ inf → FinOK R ((n : ℚ) * (10 : ℚ) ^ (-scale))) := by
  obtain ⟨hm, hmq, hgap, hq1⟩ := trim_quot n (trimRounds dc n) hn hkeep
  have hVsplit := value_split n (trimRounds dc n) scale
  have hmn : n / 10 ^ (19 * trimRounds dc n) ≤ n := Nat.div_le_self _ _
  have hmlog := log2_mono' hmn
  have hmpos : (0 : ℚ) < ((n / 10 ^ (19 * trimRounds dc n) : Nat) : ℚ) := by exact_mod_cast hm
  have hqpos : (0 : ℚ) < (n : ℚ) / ((10 ^ (19 * trimRounds dc n) : Nat) : ℚ) := lt_of_lt_of_le hmpos hmq
  have hm1 : (1 : ℚ) ≤ ((n / 10 ^ (19 * trimRounds dc n) : Nat) : ℚ) := by exact_mod_cast hm
  by_cases hpos : 0 < scale - 19 * (trimRounds dc n : Int)
  · by_cases hbig : scale - 19 * (trimRounds dc n : Int) ≤ 2 ^ 31
    · -- parser path
      obtain ⟨R, hR, hprop⟩ := toF64_parse_tolerance dc neg n scale hn hpos hbig hkeep
      refine ⟨R, hR, ?_, fun hne => hprop.resolve_left hne⟩
      intro hinf
      have hun := toF64_parse_unfold dc neg n scale hn hpos hbig
      rw [hR] at hun
      have hRe := Nat.add_left_cancel hun
      rw [hinf] at hRe
      obtain ⟨S, hS⟩ : ∃ S : Nat, scale - 19 * (trimRounds dc n : Int) = S := ⟨(scale - 19 * (trimRounds dc n : Int)).toNat, by omega⟩
      rw [hS, Int.toNat_natCast] at hRe
      split at hRe
      · exact absurd hRe (by decide)
      · have := rne_inf_large _ _ hm (by positivity) hRe.symm
        rw [hVsplit, hS, zpow_neg, zpow_natCast]
        have hE : (0 : ℚ) < (10 : ℚ) ^ S := by positivity
        have hcast : (((10 ^ S : Nat)) : ℚ) = (10 : ℚ) ^ S := by push_cast; rfl
        rw [hcast] at this
        apply infOK_of_ge_maxF
        calc maxF ≤ ovf := maxF_lt_ovf.le
          _ ≤ _ := this
          _ ≤ _ := by
            rw [← div_eq_mul_inv]
            exact div_le_div_of_nonneg_right hmq hE.le
    · -- trimmed scale above 2^31: the code returns a signed zero
      obtain ⟨S, hS⟩ : ∃ S : Nat, scale - 19 * (trimRounds dc n : Int) = S := ⟨(scale - 19 * (trimRounds dc n : Int)).toNat, by omega⟩
      have hsc : (S : Int) = max (scale - 19 * (trimRounds dc n : Int)) (-(2 ^ 63 : Int)) := by rw [hS]; omega
      rw [toF64With_unfold dc neg n scale hn hs hlo (S : Int) hsc]
      have c1 : (decide ((S : Int) < -(2 ^ 31 - 1)) || decide ((S : Int) > 2 ^ 31 - 1 + 1)) = true := by
        simp only [Bool.or_eq_true, decide_eq_true_eq]; right; omega
      rw [if_pos c1, if_pos (by omega)]
      refine ⟨0, by simp, fun h => absurd h (by decide), fun _ => ?_⟩
      rw [hVsplit, hS, zpow_neg, zpow_natCast, ← div_eq_mul_inv]
      have hm2 : n / 10 ^ (19 * trimRounds dc n) + 1 ≤ 2 ^ ((n / 10 ^ (19 * trimRounds dc n)).log2 + 1) :=
        (log2_bounds _ hm).2
      have hnat := guard_small _ ((n / 10 ^ (19 * trimRounds dc n)).log2 + 1) S hm2 (by push_cast; omega)
      exact finOK_zero _ (div_pos hqpos (by positivity)) (tiny_of_guard _ _ S hq1 hnat)
  · -- powi side: the trimmed scale is not positive
    have hsc0 : scale - 19 * (trimRounds dc n : Int) ≤ 0 := by omega
    obtain ⟨K, hK⟩ : ∃ K : Nat, -(scale - 19 * (trimRounds dc n : Int)) = K := ⟨(-(scale - 19 * (trimRounds dc n : Int))).toNat, by omega⟩
    have hT1 : (1 : ℚ) ≤ (10 : ℚ) ^ K := one_le_pow₀ (by norm_num)
    have hV : (n : ℚ) * (10 : ℚ) ^ (-scale) = (n : ℚ) / ((10 ^ (19 * trimRounds dc n) : Nat) : ℚ) * (10 : ℚ) ^ K := by
      rw [hVsplit, hK, zpow_natCast]
    have hVm : ((n / 10 ^ (19 * trimRounds dc n) : Nat) : ℚ) * (10 : ℚ) ^ K ≤ (n : ℚ) * (10 : ℚ) ^ (-scale) := by
      rw [hV]; exact mul_le_mul_of_nonneg_right hmq (by positivity)
    have hV1 : (10 : ℚ) ^ K ≤ (n : ℚ) * (10 : ℚ) ^ (-scale) :=
      le_trans (le_mul_of_one_le_left (by positivity) hm1) hVm
    by_cases hA : scale - 19 * (trimRounds dc n : Int) < -(2 ^ 31 - 1)
    · -- exponent beyond i32: infinity
      rw [toF64With_unfold dc neg n scale hn hs hlo _ rfl]
      have c1 : (decide (max (scale - 19 * (trimRounds dc n : Int)) (-(2 ^ 63 : Int)) < -(2 ^ 31 - 1)) ||
          decide (max (scale - 19 * (trimRounds dc n : Int)) (-(2 ^ 63 : Int)) > 2 ^ 31 - 1 + 1)) = true := by
        simp only [Bool.or_eq_true, decide_eq_true_eq]; left; omega
      rw [if_pos c1, if_neg (by omega)]
      refine ⟨inf, rfl, fun _ => ?_, fun h => absurd rfl h⟩
      apply infOK_ge_ten309
      have : (10 : ℚ) ^ (309 : Nat) ≤ (10 : ℚ) ^ K := pow_le_pow_right₀ (by norm_num) (by omega)
      exact le_trans this hV1
    · have hsc : scale - 19 * (trimRounds dc n : Int) = max (scale - 19 * (trimRounds dc n : Int)) (-(2 ^ 63 : Int)) := by omega
      have hKeq : (19 * (trimRounds dc n : Int) - scale) = K := by omega
      by_cases hK308 : K ≤ 308
      · obtain ⟨R, hR, hprop⟩ := toF64_powi_tolerance dc neg n scale hn hs hsc0 hlo (by omega) hkeep
        refine ⟨R, hR, ?_, fun hne => ?_⟩
        · intro hinf
          have hun := toF64_powi_unfold dc neg n scale hn hs hsc0 hlo (by omega)
          rw [hR, hKeq, Int.toNat_natCast] at hun
          have hRe := Nat.add_left_cancel hun
          rw [hinf] at hRe
          exact infOK_mono (powi_path_inf _ K hm hRe.symm (by omega)) hVm
        · have hb := hprop.resolve_left hne
          unfold FinOK
          refine ⟨fun _ => hb, fun hlt => ?_⟩
          exfalso
          have h1 : (2 : ℚ) ^ (-1022 : Int) ≤ 1 := zpow_le_one_of_nonpos₀ (by norm_num) (by norm_num)
          have : (1 : ℚ) ≤ (n : ℚ) * (10 : ℚ) ^ (-scale) := le_trans hT1 hV1
          exact absurd (lt_of_le_of_lt (le_trans h1 this) hlt) (lt_irrefl _)
      · -- powi overflows
        rw [toF64With_unfold dc neg n scale hn hs hlo _ hsc]
        have c1 : (decide (scale - 19 * (trimRounds dc n : Int) < -(2 ^ 31 - 1)) ||
            decide (scale - 19 * (trimRounds dc n : Int) > 2 ^ 31 - 1 + 1)) = false := by
          simp only [Bool.or_eq_false_iff, decide_eq_false_iff_not]; constructor <;> omega
        rw [c1]
        simp only [Bool.false_eq_true, if_false]
        rw [if_pos hsc0, hK, Int.toNat_natCast, powi_ge_309 K (by omega) (by omega), mul_inf_right]
        refine ⟨inf, rfl, fun _ => ?_, fun h => absurd rfl h⟩
        apply infOK_ge_ten309
        have : (10 : ℚ) ^ (309 : Nat) ≤ (10 : ℚ) ^ K := pow_le_pow_right₀ (by norm_num) (by omega)
        exact le_trans this hV1

end BigDec.F64
