import BigDec.Proofs.Value
import BigDec.Model.Arith
/-! Value lemmas for every body of the exact arithmetic model (C01, reused by C09, C19). -/
namespace BigDec
open Generated

theorem value_mk_add (i j s : Int) : (Dec.mk (i + j) s).value = (Dec.mk i s).value + (Dec.mk j s).value := by
  simp [Dec.value, add_mul]

theorem value_mk_sub (i j s : Int) : (Dec.mk (i - j) s).value = (Dec.mk i s).value - (Dec.mk j s).value := by
  simp [Dec.value, sub_mul]

theorem value_eta (d : Dec) : (Dec.mk d.int d.scale).value = d.value := rfl

theorem value_mk_scale {d : Dec} {s : Int} (h : d.scale = s) : (Dec.mk d.int s).value = d.value := by
  subst h; rfl

theorem isZero_iff (d : Dec) : d.isZero = true ↔ d.int = 0 := by simp [Dec.isZero]

theorem value_of_isZero {d : Dec} (h : d.isZero = true) : d.value = 0 :=
  Dec.value_zero_int ((isZero_iff d).mp h)

theorem value_isOne {d : Dec} (h : d.isOne = true) : d.value = 1 := by
  unfold Dec.isOne at h
  split at h
  · rename_i hs
    simp only [beq_iff_eq] at h
    simp only [Dec.value, h]
    push_cast
    have : (10:ℚ) ^ d.scale.toNat = (10:ℚ) ^ d.scale := by
      rw [← zpow_natCast]; congr 1; omega
    rw [this, ← zpow_add₀ ten_ne_zero]; simp
  · simp at h

/-! ### addition -/

theorem value_addAligned (a b : Dec) (h : a.scale = b.scale) :
    (addAligned a b).value = a.value + b.value := by
  unfold addAligned
  split
  · rw [value_mk_add, value_eta, value_mk_scale h.symm]
  · rw [value_mk_add, value_eta, value_mk_scale h, add_comm]

theorem value_addBigdecimals (a b : Dec) : (addBigdecimals a b).value = a.value + b.value := by
  unfold addBigdecimals
  split
  · rename_i hb; rw [Dec.value_extendScaleTo, value_of_isZero hb, add_zero]
  · split
    · rename_i ha; rw [Dec.value_extendScaleTo, value_of_isZero ha, zero_add]
    · split
      · rename_i h; exact value_addAligned a b h
      · split
        · rename_i h1 h2
          rw [value_addAligned _ _ (Dec.scale_setScale_up _ _ (by omega)), Dec.value_setScale_up _ _ (by omega)]
        · rename_i h1 h2
          rw [value_addAligned _ _ (Dec.scale_setScale_up _ _ (by omega)), Dec.value_setScale_up _ _ (by omega), add_comm]

theorem value_addAssignRef (a b : Dec) : (addAssignRef a b).value = a.value + b.value := by
  unfold addAssignRef
  split
  · rename_i h
    rw [value_mk_add, value_eta, value_mk_scale (Dec.scale_withScale_up a b.scale (by omega)),
      Dec.value_withScale_up _ _ (by omega)]
  · split
    · rename_i h1 h2
      rw [value_mk_add, value_eta, value_mk_scale (Dec.scale_withScale_up b a.scale (by omega)),
        Dec.value_withScale_up _ _ (by omega)]
    · rename_i h1 h2
      rw [value_mk_add, value_eta, value_mk_scale (by omega : b.scale = a.scale)]

theorem value_addAssignDec (a b : Dec) : (addAssignDec a b).value = a.value + b.value := by
  unfold addAssignDec
  split
  · rename_i h; rw [value_of_isZero h, add_zero]
  · split
    · rename_i h; rw [value_of_isZero h, zero_add]
    · exact value_addAssignRef a b

theorem value_addUnaligned (lhs rhs : Dec) (h : rhs.scale ≤ lhs.scale) :
    (addUnaligned lhs rhs).value = lhs.value + rhs.value := by
  unfold addUnaligned
  simp only []
  rw [value_addAssignRef, tenToTheUint_eq, add_comm]
  congr 1
  have : (if rhs.int < 0 then (-1:Int) else 1) * ((rhs.int.natAbs * 10 ^ (lhs.scale - rhs.scale).toNat : Nat) : Int)
      = rhs.int * ((10 ^ (lhs.scale - rhs.scale).toNat : Nat) : Int) := by
    rw [Nat.cast_mul, ← mul_assoc, sign_mul_natAbs]
  rw [this]; exact value_scale_up _ _ _ h

theorem clampDiff_nonneg (a b : Int) (c : Nat) : 0 ≤ clampDiff a b c := by
  unfold clampDiff; omega

theorem value_addRefs (a b : Dec) : (addRefs a b).value = a.value + b.value := by
  unfold addRefs
  split
  · rename_i hb
    rw [Dec.value_toOwnedWithScale_up _ _ (by have := clampDiff_nonneg b.scale a.scale addZeroClampR; omega),
      value_of_isZero hb, add_zero]
  · split
    · rename_i ha
      rw [Dec.value_toOwnedWithScale_up _ _ (by have := clampDiff_nonneg a.scale b.scale addZeroClampL; omega),
        value_of_isZero ha, zero_add]
    · split
      · split
        · exact value_addAssignRef a b
        · rw [value_addAssignRef, add_comm]
      · split
        · exact value_addUnaligned a b (by omega)
        · rw [value_addUnaligned b a (by omega), add_comm]

theorem value_addAssignPrim (a : Dec) (p : Int) : (addAssignPrim a p).value = a.value + p := by
  unfold addAssignPrim
  split
  · rename_i h; simp [h]
  · split
    · rename_i h1 h2
      simp only [Dec.value, h2]; push_cast; simp
    · rw [value_addAssignDec, Dec.value_ofInt]

/-! ### subtraction -/

theorem value_subDDAligned (l r : Dec) (hs : l.scale = r.scale) :
    (subDDAligned l r).value = l.value - r.value := by
  unfold subDDAligned
  split
  · rename_i h; rw [value_of_isZero h, sub_zero]
  · split
    · rename_i h; rw [Dec.value_neg, value_of_isZero h, zero_sub]
    · rw [value_mk_sub, value_eta, value_mk_scale hs.symm]

theorem value_subDD (a b : Dec) : (subDD a b).value = a.value - b.value := by
  unfold subDD
  split
  · rename_i h; rw [value_of_isZero h, sub_zero]
  · split
    · rename_i h; rw [Dec.value_neg, value_of_isZero h, zero_sub]
    · split
      · rename_i h; rw [value_mk_sub, value_eta, value_mk_scale h.symm]
      · split
        · rw [value_subDDAligned _ _ (Dec.scale_setScale_up _ _ (by omega)), Dec.value_setScale_up _ _ (by omega)]
        · rw [value_subDDAligned _ _ (Dec.scale_setScale_up _ _ (by omega)).symm, Dec.value_setScale_up _ _ (by omega)]

theorem value_mul_pow_up (i s ns : Int) (h : s ≤ ns) :
    (Dec.mk (i * ((tenToTheUint (ns - s).toNat : Nat) : Int)) ns).value = (Dec.mk i s).value := by
  rw [tenToTheUint_eq]; exact value_scale_up _ _ _ h

theorem value_subAssignDec (a b : Dec) : (subAssignDec a b).value = a.value - b.value := by
  unfold subAssignDec
  split
  · rename_i h; rw [value_of_isZero h, sub_zero]
  · split
    · rename_i h; rw [Dec.value_neg, value_of_isZero h, zero_sub]
    · split
      · rename_i h; rw [value_mk_sub, value_eta, value_mk_scale h.symm]
      · split
        · rw [value_mk_sub, value_mul_pow_up _ _ _ (by omega), value_eta, value_eta]
        · rw [value_mk_sub, value_mul_pow_up _ _ _ (by omega), value_eta, value_eta]

theorem value_subAssignRef (a b : Dec) : (subAssignRef a b).value = a.value - b.value := by
  unfold subAssignRef
  split
  · rename_i h; rw [value_of_isZero h, sub_zero]
  · split
    · rename_i h; rw [Dec.value_neg, value_of_isZero h, zero_sub]
    · split
      · rename_i h; rw [value_mk_sub, value_eta, value_mk_scale h.symm]
      · split
        · rw [value_mk_sub, value_mul_pow_up _ _ _ (by omega), value_eta, value_eta]
        · rw [value_subAssignDec, Dec.value_toOwnedWithScale_up _ _ (by omega)]

theorem value_subRefD (a b : Dec) : (subRefD a b).value = a.value - b.value := by
  unfold subRefD; rw [Dec.value_neg, value_subAssignRef]; ring

theorem value_subRDT (a b : Dec) : (subRDT a b).value = a.value - b.value := by
  unfold subRDT
  split
  · exact value_subAssignRef a b
  · split
    · rw [value_subAssignRef, Dec.value_withScale_up _ _ (by omega)]
    · rw [value_subRefD, Dec.value_toOwnedWithScale_up _ _ (by omega)]

theorem value_subRefT (a b : Dec) : (subRefT a b).value = a.value - b.value := by
  unfold subRefT
  split
  · exact value_subAssignRef a b
  · split
    · rw [value_subAssignRef, Dec.value_toOwnedWithScale_up _ _ (by omega)]
    · rw [value_subRefD, Dec.value_toOwnedWithScale_up _ _ (by omega)]

theorem value_subAssignPrim (a : Dec) (p : Int) : (subAssignPrim a p).value = a.value - p := by
  unfold subAssignPrim
  split
  · rename_i h; simp only [Dec.value, h]; push_cast; simp
  · rw [value_subAssignDec, Dec.value_ofInt]

/-! ### normalisation and multiplication -/

theorem stripZeros_spec (fuel n : Nat) : (stripZeros fuel n).1 * 10 ^ (stripZeros fuel n).2 = n := by
  induction fuel generalizing n with
  | zero => simp [stripZeros]
  | succ f ih =>
    unfold stripZeros
    split
    · rename_i h
      simp only []
      rw [pow_succ, ← mul_assoc, ih]
      omega
    · simp

theorem value_strip (i j : Int) (k : Nat) (s : Int) (h : i * ((10 ^ k : Nat) : Int) = j) :
    (Dec.mk i (s - k)).value = (Dec.mk j s).value := by
  subst h
  simp only [Dec.value]
  push_cast
  rw [mul_assoc]
  congr 1
  rw [← zpow_natCast, ← zpow_add₀ ten_ne_zero]
  congr 1; ring

theorem value_normalized (d : Dec) : d.normalized.value = d.value := by
  unfold Dec.normalized
  split
  · rename_i h; simp [Dec.zero, Dec.value, h]
  · simp only []
    have hs := stripZeros_spec d.int.natAbs d.int.natAbs
    rw [value_strip _ d.int _ _ ?_, value_eta]
    rw [mul_assoc, ← Nat.cast_mul, hs, sign_mul_natAbs]

theorem value_mk_mul (i j s t : Int) : (Dec.mk (i * j) (s + t)).value = (Dec.mk i s).value * (Dec.mk j t).value := by
  simp only [Dec.value]
  push_cast
  rw [neg_add, zpow_add₀ ten_ne_zero]; ring

theorem value_mk_mul_int (i j s : Int) : (Dec.mk (i * j) s).value = (Dec.mk i s).value * j := by
  simp only [Dec.value]; push_cast; ring

theorem value_mk_zero (i : Int) : (Dec.mk i 0).value = i := by simp [Dec.value]

theorem value_mulDD (a b : Dec) : (mulDD a b).value = a.value * b.value := by
  unfold mulDD
  split
  · rename_i h; rw [value_isOne h, one_mul]
  · split
    · rename_i h; rw [value_isOne h, mul_one]
    · rw [value_mk_mul, value_eta, value_eta]

theorem value_mulDRD (a b : Dec) : (mulDRD a b).value = a.value * b.value := by
  unfold mulDRD
  split
  · rename_i h; rw [value_isOne h, one_mul, zero_add, value_eta]
  · split
    · rename_i h; rw [value_of_isZero h, mul_zero]; simp [Dec.value]
    · split
      · rw [value_mk_mul, value_eta, value_eta]
      · rename_i h1 h2 h3
        simp only [Bool.and_eq_true, Bool.not_eq_true', not_and, Bool.not_eq_false] at h3
        by_cases hz : a.isZero = true
        · rw [value_of_isZero hz, zero_mul]
        · have := h3 (by simpa using hz)
          rw [value_isOne this, mul_one]

theorem value_mulRDRD (a b : Dec) : (mulRDRD a b).value = a.value * b.value := by
  unfold mulRDRD
  split
  · rename_i h; rw [value_isOne h, one_mul, value_normalized]
  · split
    · rename_i h; rw [value_isOne h, mul_one, value_normalized]
    · rw [value_mk_mul, value_eta, value_eta]

theorem value_mulDBI (a : Dec) (i : Int) : (mulDBI a i).value = a.value * i := by
  unfold mulDBI; rw [value_mk_mul_int, value_eta]

theorem value_mulRDRBI (a : Dec) (i : Int) : (mulRDRBI a i).value = a.value * i := by
  unfold mulRDRBI
  split
  · rename_i h; rw [value_normalized, h]; simp
  · split
    · rename_i h; rw [value_isOne h, one_mul, value_mk_zero]
    · rw [value_mk_mul_int, value_eta]

theorem value_mulBID (i : Int) (b : Dec) : (mulBID i b).value = i * b.value := by
  unfold mulBID
  split
  · rename_i h; rw [value_isOne h, mul_one, value_mk_zero]
  · split
    · rw [value_mk_mul_int, value_eta, mul_comm]
    · rename_i h1 h2
      have : i = 1 := by simpa using h2
      rw [this]; simp

theorem value_mulRBID (i : Int) (b : Dec) : (mulRBID i b).value = i * b.value := by
  unfold mulRBID
  split
  · rename_i h; rw [value_normalized, h]; simp
  · split
    · rename_i h; rw [value_isOne h, mul_one, zero_add, value_mk_zero]
    · rw [value_mk_mul_int, value_eta, mul_comm]

theorem value_mulBIRD (i : Int) (b : Dec) : (mulBIRD i b).value = i * b.value := by
  unfold mulBIRD
  split
  · rename_i h; rw [value_normalized, h]; simp
  · split
    · rename_i h; rw [value_isOne h, mul_one, value_mk_zero]
    · rw [value_mk_mul_int, value_eta, mul_comm]

theorem value_mulAssignDec (a b : Dec) : (mulAssignDec a b).value = a.value * b.value := by
  unfold mulAssignDec
  split
  · rename_i h; rw [value_isOne h, mul_one]
  · rw [value_mk_mul, value_eta, value_eta]

theorem value_mulAssignBI (a : Dec) (i : Int) : (mulAssignBI a i).value = a.value * i := by
  unfold mulAssignBI
  split
  · rename_i h; rw [h]; simp
  · rw [value_mk_mul_int, value_eta]

theorem value_mulAssignPrim (a : Dec) (p : Int) : (mulAssignPrim a p).value = a.value * p := by
  unfold mulAssignPrim
  split
  · rename_i h; simp [h, Dec.zero, Dec.value]
  · split
    · rename_i h; rw [h]; simp
    · rw [value_mulAssignDec, Dec.value_ofInt]

/-! ### unary operations, sums -/

theorem value_double (d : Dec) : d.double.value = d.value + d.value := by
  unfold Dec.double
  split
  · rename_i h; rw [value_of_isZero h]; simp
  · rw [value_mk_mul_int, value_eta]; push_cast; ring

theorem value_half (d : Dec) : d.half.value = d.value / 2 := by
  unfold Dec.half
  split
  · rename_i h; rw [value_of_isZero h]; simp
  · split
    · rename_i h1 h2
      have hd : d.int = 2 * d.int.tdiv 2 := by
        rw [Int.tdiv_eq_ediv_of_dvd (Int.dvd_of_emod_eq_zero h2)]; omega
      simp only [Dec.value]
      conv_rhs => rw [hd]
      push_cast; ring
    · simp only [Dec.value]
      push_cast
      rw [neg_add, zpow_add₀ ten_ne_zero]
      norm_num; ring

theorem value_square (d : Dec) : d.square.value = d.value * d.value := by
  unfold Dec.square
  split
  · rename_i h
    simp only [Bool.or_eq_true] at h
    rcases h with h | h
    · rw [value_of_isZero h]; simp
    · rw [value_isOne h]; simp
  · have : d.scale * 2 = d.scale + d.scale := by ring
    rw [this, value_mk_mul, value_eta]

theorem value_cube (d : Dec) : d.cube.value = d.value * d.value * d.value := by
  unfold Dec.cube
  split
  · rename_i h
    simp only [Bool.or_eq_true] at h
    rcases h with h | h
    · rw [value_of_isZero h]; simp
    · rw [value_isOne h]; simp
  · have : d.scale * 3 = (d.scale + d.scale) + d.scale := by ring
    rw [this, value_mk_mul, value_mk_mul, value_eta]

theorem value_foldl_add (f : Dec → Dec → Dec) (hf : ∀ a b, (f a b).value = a.value + b.value)
    (xs : List Dec) (acc : Dec) : (xs.foldl f acc).value = acc.value + (xs.map Dec.value).sum := by
  induction xs generalizing acc with
  | nil => simp
  | cons x xs ih => simp [List.foldl_cons, ih, hf, add_assoc]

theorem value_sumOwned (xs : List Dec) : (sumOwned xs).value = (xs.map Dec.value).sum := by
  unfold sumOwned; rw [value_foldl_add _ value_addBigdecimals]; simp [Dec.zero, Dec.value]

theorem value_sumRefs (xs : List Dec) : (sumRefs xs).value = (xs.map Dec.value).sum := by
  unfold sumRefs; rw [value_foldl_add _ value_addAssignRef]; simp [Dec.zero, Dec.value]

end BigDec
