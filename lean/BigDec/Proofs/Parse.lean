import BigDec.Model.Parse
import BigDec.Spec.Numeral
import Mathlib.Tactic.Ring
import Mathlib.Tactic.Linarith
/-! The byte-level model of `from_str_radix` accepts exactly the numerals of the grammar
    specification and returns exactly the denoted decimal. -/
namespace BigDec
open Parse Spec.Numeral

theorem isDigit_eq (b : Nat) : Parse.isDigit b = Spec.Numeral.isDigit b := rfl

/-- folding digit values into an accumulator -/
def foldDigits (ds : List Nat) (acc : Nat) : Nat := ds.foldl (fun a d => a * 10 + d) acc

theorem digitsToNat_eq (ds : List Nat) : digitsToNat ds = foldDigits ds 0 := rfl

theorem foldDigits_append (a b : List Nat) (acc : Nat) :
    foldDigits (a ++ b) acc = foldDigits b (foldDigits a acc) := by
  simp [foldDigits, List.foldl_append]

/-- `accDigits` (digits and `_`) is `segDigits` followed by the fold -/
theorem accDigits_eq (bs : List Nat) (acc : Nat) :
    accDigits bs acc = (segDigits bs).map (fun ds => foldDigits ds acc) := by
  induction bs generalizing acc with
  | nil => simp [accDigits, segDigits, foldDigits]
  | cons b bs ih =>
    unfold accDigits segDigits
    by_cases hu : b = 95
    · subst hu; simp [cUnder, ih]
    · have hu' : (b == 95) = false := by simpa using hu
      simp only [cUnder, hu, if_false, hu']
      by_cases hd : Parse.isDigit b = true
      · have hd' : Spec.Numeral.isDigit b = true := hd
        simp only [hd, hd', if_true, ih]
        cases segDigits bs <;> simp [foldDigits]
      · have hd' : Spec.Numeral.isDigit b = false := by simpa [isDigit_eq] using hd
        simp [hd, hd']

theorem segDigits_append (a b : List Nat) :
    segDigits (a ++ b) = (segDigits a).bind (fun da => (segDigits b).map (fun db => da ++ db)) := by
  induction a with
  | nil => simp [segDigits]
  | cons x xs ih =>
    simp only [List.cons_append, segDigits]
    by_cases hu : (x == 95) = true
    · simp [hu, ih]
    · simp only [hu]
      by_cases hd : Spec.Numeral.isDigit x = true
      · simp only [hd, if_true, ih]
        cases segDigits xs <;> cases segDigits b <;> simp
      · simp [hd]

/-- the number of fraction digits counted by the code (`chars().filter(|c| c != '_')`) is the
    number of digits of the segment, whenever the segment is well formed -/
theorem filter_count_eq (bs ds : List Nat) (h : segDigits bs = some ds) :
    (bs.filter (· != cUnder)).length = ds.length := by
  induction bs generalizing ds with
  | nil => simp [segDigits] at h; subst h; rfl
  | cons b bs ih =>
    unfold segDigits at h
    by_cases hu : (b == 95) = true
    · simp only [hu, if_true] at h
      have : b = 95 := by simpa using hu
      subst this
      have := ih ds h
      simp only [cUnder] at this ⊢
      simpa [List.filter_cons] using this
    · simp only [hu] at h
      by_cases hd : Spec.Numeral.isDigit b = true
      · simp only [hd, if_true] at h
        cases hs : segDigits bs with
        | none => rw [hs] at h; simp at h
        | some ds' =>
          rw [hs] at h; simp at h; subst h
          have hne : (b != cUnder) = true := by simpa [cUnder] using hu
          simp [List.filter_cons, hne, ih ds' hs]
      · simp [hd] at h

/-- `cut` and `splitFirst` are the same splitting -/
theorem cut_eq_splitFirst (seps : List Nat) (s : List Nat) :
    cut seps s = (match splitFirst (fun b => seps.contains b) s with
      | none => (s, none)
      | some (x, y) => (x, some y)) := by
  induction s with
  | nil => rfl
  | cons b bs ih =>
    unfold cut splitFirst
    cases hc : seps.contains b with
    | true => simp only [if_true]
    | false =>
      simp only [Bool.false_eq_true, if_false]
      rw [ih]
      cases splitFirst (fun b => seps.contains b) bs with
      | none => rfl
      | some p => rfl

theorem contains_eE (b : Nat) : ([101, 69] : List Nat).contains b = (b == ce || b == cE) := by
  cases h1 : (b == 101) <;> cases h2 : (b == 69) <;> simp [List.contains, List.elem, ce, cE, h1, h2]

theorem contains_dot (b : Nat) : ([46] : List Nat).contains b = (b == cDot) := by
  cases h1 : (b == 46) <;> simp [List.contains, List.elem, cDot, h1]

end BigDec
