import BigDec.Model.Parse
import BigDec.Spec.Numeral
import Mathlib.Tactic.Ring
import Mathlib.Tactic.Linarith
/-! The byte-level model of `from_str_radix` accepts exactly the numerals of the grammar
    specification and returns exactly the denoted decimal. -/
namespace BigDec
open Parse Spec.Numeral

theorem isDigit_eq (b : Nat) : Parse.isDigit b = Spec.Numeral.isDigit b := rfl

/-- folding digit values into an accumulator -/
def foldDigits (ds : List Nat) (acc : Nat) : Nat := ds.foldl (fun a d => a * 10 + d) acc

theorem digitsToNat_eq (ds : List Nat) : digitsToNat ds = foldDigits ds 0 := rfl

theorem foldDigits_append (a b : List Nat) (acc : Nat) :
    foldDigits (a ++ b) acc = foldDigits b (foldDigits a acc) := by
  simp [foldDigits, List.foldl_append]

/-- `accDigits` (digits and `_`) is `segDigits` followed by the fold -/
theorem accDigits_eq (bs : List Nat) (acc : Nat) :
    accDigits bs acc = (segDigits bs).map (fun ds => foldDigits ds acc) := by
  induction bs generalizing acc with
  | nil => simp [accDigits, segDigits, foldDigits]
  | cons b bs ih =>
    unfold accDigits segDigits
    by_cases hu : b = 95
    · subst hu; simp [cUnder, ih]
    · have hu' : (b == 95) = false := by simpa using hu
      simp only [cUnder, hu, if_false, hu']
      by_cases hd : Parse.isDigit b = true
      · have hd' : Spec.Numeral.isDigit b = true := hd
        simp only [hd, hd', if_true, ih]
        cases segDigits bs <;> simp [foldDigits]
      · have hd' : Spec.Numeral.isDigit b = false := by simpa [isDigit_eq] using hd
        simp [hd, hd']

theorem segDigits_append (a b : List Nat) :
    segDigits (a ++ b) = (segDigits a).bind (fun da => (segDigits b).map (fun db => da ++ db)) := by
  induction a with
  | nil => simp [segDigits]
  | cons x xs ih =>
    simp only [List.cons_append, segDigits]
    by_cases hu : (x == 95) = true
    · simp [hu, ih]
    · simp only [hu]
      by_cases hd : Spec.Numeral.isDigit x = true
      · simp only [hd, if_true, ih]
        cases segDigits xs <;> cases segDigits b <;> simp
      · simp [hd]

/-- the number of fraction digits counted by the code (`chars().filter(|c| c != '_')`) is the
    number of digits of the segment, whenever the segment is well formed -/
theorem filter_count_eq (bs ds : List Nat) (h : segDigits bs = some ds) :
    (bs.filter (· != cUnder)).length = ds.length := by
  induction bs generalizing ds with
  | nil => simp [segDigits] at h; subst h; rfl
  | cons b bs ih =>
    unfold segDigits at h
    by_cases hu : (b == 95) = true
    · simp only [hu, if_true] at h
      have : b = 95 := by simpa using hu
      subst this
      have := ih ds h
      simp only [cUnder] at this ⊢
      simpa [List.filter_cons] using this
    · simp only [hu] at h
      by_cases hd : Spec.Numeral.isDigit b = true
      · simp only [hd, if_true] at h
        cases hs : segDigits bs with
        | none => rw [hs] at h; simp at h
        | some ds' =>
          rw [hs] at h; simp at h; subst h
          have hne : (b != cUnder) = true := by simpa [cUnder] using hu
          simp [List.filter_cons, hne, ih ds' hs]
      · simp [hd] at h

/-- `cut` and `splitFirst` are the same splitting -/
theorem cut_eq_splitFirst (seps : List Nat) (s : List Nat) :
    cut seps s = (match splitFirst (fun b => seps.contains b) s with
      | none => (s, none)
      | some (x, y) => (x, some y)) := by
  induction s with
  | nil => rfl
  | cons b bs ih =>
    unfold cut splitFirst
    cases hc : seps.contains b with
    | true => simp only [if_true]
    | false =>
      simp only [Bool.false_eq_true, if_false]
      rw [ih]
      cases splitFirst (fun b => seps.contains b) bs with
      | none => rfl
      | some p => rfl

theorem contains_eE (b : Nat) : ([101, 69] : List Nat).contains b = (b == ce || b == cE) := by
  cases h1 : (b == 101) <;> cases h2 : (b == 69) <;> simp [List.contains, List.elem, ce, cE, h1, h2]

theorem contains_dot (b : Nat) : ([46] : List Nat).contains b = (b == cDot) := by
  cases h1 : (b == 46) <;> simp [List.contains, List.elem, cDot, h1]

end BigDec

namespace BigDec
open Parse Spec.Numeral

/-- plain digit accumulation succeeds exactly on all-digit strings -/
theorem accPlain_eq (bs : List Nat) (acc : Nat) :
    accPlain bs acc = if bs.all Spec.Numeral.isDigit then some (foldDigits (bs.map (· - 48)) acc) else none := by
  induction bs generalizing acc with
  | nil => simp [accPlain, foldDigits]
  | cons b bs ih =>
    unfold accPlain
    by_cases hd : Parse.isDigit b = true
    · have hd' : Spec.Numeral.isDigit b = true := hd
      simp only [hd, if_true, ih, List.all_cons, hd', Bool.true_and, List.map_cons]
      split <;> simp [foldDigits]
    · have hd' : Spec.Numeral.isDigit b = false := by simpa [isDigit_eq] using hd
      simp [hd, hd']

theorem segDigits_of_all_digits (bs : List Nat) (h : bs.all Spec.Numeral.isDigit = true) :
    segDigits bs = some (bs.map (· - 48)) := by
  induction bs with
  | nil => rfl
  | cons b bs ih =>
    simp only [List.all_cons, Bool.and_eq_true] at h
    have hb := h.1
    have hne : (b == 95) = false := by
      unfold Spec.Numeral.isDigit at hb
      simp only [Bool.and_eq_true, decide_eq_true_eq] at hb
      have : b ≠ 95 := by omega
      simpa using this
    unfold segDigits
    simp [hne, hb, ih h.2]

theorem takeSign_cases (s : List Nat) :
    (∃ r, s = 45 :: r ∧ takeSign s = (true, r)) ∨ (∃ r, s = 43 :: r ∧ takeSign s = (false, r)) ∨
    ((∀ r, s ≠ 45 :: r) ∧ (∀ r, s ≠ 43 :: r) ∧ takeSign s = (false, s)) := by
  match s with
  | [] => right; right; exact ⟨by simp, by simp, rfl⟩
  | b :: r =>
    by_cases h1 : b = 45
    · subst h1; left; exact ⟨r, rfl, rfl⟩
    · by_cases h2 : b = 43
      · subst h2; right; left; exact ⟨r, rfl, rfl⟩
      · right; right
        refine ⟨by intro r' h; injection h with h; exact h1 h, by intro r' h; injection h with h; exact h2 h, ?_⟩
        unfold takeSign
        split
        · rename_i heq; injection heq with h; exact absurd h h1
        · rename_i heq; injection heq with h; exact absurd h h2
        · rfl

/-- `i128::from_str` is: optional sign, digits only, at least one, then the range check -/
theorem parseI128_eq (s : List Nat) :
    parseI128 s = (exponentValue s).bind
      (fun v => if -(2 ^ 127 : Int) ≤ v ∧ v < (2 ^ 127 : Int) then some v else none) := by
  have core : ∀ (neg : Bool) (body : List Nat),
      (match digitsValue body with
        | none => (none : Option Int)
        | some v => if -(2 ^ 127 : Int) ≤ (if neg then -(v : Int) else v) ∧ (if neg then -(v : Int) else (v:Int)) < (2 ^ 127 : Int)
            then some (if neg then -(v : Int) else v) else none) =
      (if body.isEmpty then none
        else match segDigits body with
          | some ds => if body.all Spec.Numeral.isDigit then some (if neg then -(digitsToNat ds : Int) else digitsToNat ds) else none
          | none => none).bind (fun v => if -(2 ^ 127 : Int) ≤ v ∧ v < (2 ^ 127 : Int) then some v else none) := by
    intro neg body
    cases body with
    | nil => simp [digitsValue]
    | cons b bs =>
      simp only [digitsValue, accPlain_eq, List.isEmpty_cons, Bool.false_eq_true, if_false]
      by_cases hall : (b :: bs).all Spec.Numeral.isDigit = true
      · rw [if_pos hall, segDigits_of_all_digits _ hall]
        simp only [hall, if_true, Option.bind_some, digitsToNat_eq]
      · rw [if_neg hall]
        cases segDigits (b :: bs) <;> simp [hall]
  unfold parseI128 exponentValue
  rcases takeSign_cases s with ⟨r, hs, ht⟩ | ⟨r, hs, ht⟩ | ⟨h1, h2, ht⟩
  · subst hs; rw [ht]; simp only [cMinus, if_true]; exact core true r
  · subst hs; rw [ht]
    have : ¬ (43 : Nat) = cMinus := by decide
    simp only [this, if_false, cPlus, if_true]; exact core false r
  · rw [ht]
    cases s with
    | nil => simp
    | cons b r =>
      have hb1 : ¬ b = cMinus := by intro h; exact h1 r (by rw [h]; rfl)
      have hb2 : ¬ b = cPlus := by intro h; exact h2 r (by rw [h]; rfl)
      simp only [hb1, hb2, if_false]
      exact core false (b :: r)

end BigDec

namespace BigDec
open Parse Spec.Numeral

/-- what the `BigUint` parser computes on a string that does not begin with `+` -/
def uintCore (s : List Nat) : Option Nat :=
  match s with
  | [] => none
  | c :: _ => if Spec.Numeral.isDigit c then accDigits s 0 else none

theorem accDigits_nondigit (c : Nat) (r : List Nat) (acc : Nat)
    (h1 : c ≠ 95) (h2 : Spec.Numeral.isDigit c = false) : accDigits (c :: r) acc = none := by
  unfold accDigits
  have : Parse.isDigit c = false := h2
  simp [cUnder, h1, this]

theorem isDigit_95 : Spec.Numeral.isDigit 95 = false := by decide
theorem isDigit_43 : Spec.Numeral.isDigit 43 = false := by decide
theorem isDigit_45 : Spec.Numeral.isDigit 45 = false := by decide

theorem parseBigUint_nosign (s : List Nat) (h : ∀ r, s ≠ 43 :: r) : parseBigUint s = uintCore s := by
  cases s with
  | nil => simp [parseBigUint, uintCore]
  | cons c r =>
    have hc : ¬ c = cPlus := by intro hc; exact h r (by rw [hc]; rfl)
    unfold parseBigUint uintCore
    simp only [hc, if_false]
    by_cases hu : c = cUnder
    · subst hu; simp [cUnder, isDigit_95]
    · simp only [hu, if_false]
      by_cases hd : Spec.Numeral.isDigit c = true
      · simp [hd]
      · have hd' : Spec.Numeral.isDigit c = false := by simpa using hd
        rw [accDigits_nondigit c r 0 hu hd']; simp [hd']

/-- a string starting with a sign character never parses as an unsigned body -/
theorem uintCore_sign (c : Nat) (r : List Nat) (h : c = 43 ∨ c = 45) : uintCore (c :: r) = none := by
  rcases h with h | h <;> subst h <;> simp [uintCore, isDigit_43, isDigit_45]

theorem parseBigUint_plus (r : List Nat) : parseBigUint (43 :: r) = uintCore r := by
  cases r with
  | nil => simp [parseBigUint, uintCore, cPlus]
  | cons t tl =>
    by_cases ht : t = 43
    · subst ht
      rw [uintCore_sign 43 tl (Or.inl rfl)]
      unfold parseBigUint
      simp only [cPlus, if_true]
      have : ¬ (43 : Nat) = cUnder := by decide
      simp only [this, if_false]
      exact accDigits_nondigit 43 _ 0 (by decide) isDigit_43
    · have h' : ∀ r', (t :: tl) ≠ 43 :: r' := by intro r' h; injection h with h; exact ht h
      rw [← parseBigUint_nosign _ h']
      conv => lhs; unfold parseBigUint
      simp only [cPlus, if_true, ht, if_false]
      conv => rhs; unfold parseBigUint
      simp only [cPlus, ht, if_false]

/-- `BigInt::from_str_radix(_, 10)`: one optional sign, then an unsigned body that starts with a digit -/
theorem parseBigInt_eq (d : List Nat) :
    parseBigInt d = (uintCore (takeSign d).2).map (fun n => if (takeSign d).1 then -(n : Int) else (n : Int)) := by
  rcases takeSign_cases d with ⟨r, hs, ht⟩ | ⟨r, hs, ht⟩ | ⟨h1, h2, ht⟩
  · subst hs; rw [ht]
    unfold parseBigInt
    simp only [cMinus, if_true]
    cases r with
    | nil => simp [parseBigUint, uintCore]
    | cons t tl =>
      by_cases htp : t = 43
      · subst htp
        simp only [cPlus, if_true]
        rw [uintCore_sign 43 tl (Or.inl rfl)]
        have hn : ∀ r', (45 :: 43 :: tl) ≠ 43 :: r' := by intro r' h; injection h with h; omega
        rw [parseBigUint_nosign _ hn, uintCore_sign 45 _ (Or.inr rfl)]
      · simp only [cPlus, htp, if_false]
        have hn : ∀ r', (t :: tl) ≠ 43 :: r' := by intro r' h; injection h with h; exact htp h
        rw [parseBigUint_nosign _ hn]
  · subst hs; rw [ht]
    unfold parseBigInt
    have : ¬ (43 : Nat) = cMinus := by decide
    simp only [this, if_false, parseBigUint_plus]
    rfl
  · rw [ht]
    cases d with
    | nil => simp [parseBigInt, parseBigUint, uintCore]
    | cons b r =>
      have hb1 : ¬ b = cMinus := by intro h; exact h1 r (by rw [h]; rfl)
      unfold parseBigInt
      simp only [hb1, if_false, parseBigUint_nosign _ h2]
      rfl

end BigDec

namespace BigDec
open Parse Spec.Numeral

def NoSign (s : List Nat) : Prop := s.head? ≠ some 45 ∧ s.head? ≠ some 43

theorem takeSign_noSign (s : List Nat) (h : NoSign s) : takeSign s = (false, s) := by
  rcases takeSign_cases s with ⟨r, hs, _⟩ | ⟨r, hs, _⟩ | ⟨_, _, ht⟩
  · subst hs; exact absurd rfl h.1
  · subst hs; exact absurd rfl h.2
  · exact ht

/-- the model after sign removal: range check on the scale, then the unsigned body -/
def tailModel (neg : Bool) (d : List Nat) (o e : Int) : Option Dec :=
  if o - e < -(2 ^ 63 : Int) ∨ o - e ≥ (2 ^ 63 : Int) then none
  else (uintCore d).map (fun n => ⟨if neg then -(n : Int) else (n : Int), o - e⟩)

/-- the specification after sign removal and the split at the point -/
def tailSpec (neg : Bool) (ip fp : List Nat) (e : Int) : Option Dec :=
  match ip ++ fp with
  | [] => none
  | c :: _ =>
    if !Spec.Numeral.isDigit c then none else
    match segDigits ip, segDigits fp with
    | some di, some df =>
      let scale : Int := (df.length : Int) - e
      if scale < -(2 ^ 63 : Int) ∨ scale ≥ (2 ^ 63 : Int) then none
      else some ⟨(if neg then -1 else 1) * (digitsToNat (di ++ df) : Int), scale⟩
    | _, _ => none

theorem tail_eq (neg : Bool) (ip fp : List Nat) (e : Int) :
    tailModel neg (ip ++ fp) ((fp.filter (· != cUnder)).length : Int) e = tailSpec neg ip fp e := by
  unfold tailModel tailSpec uintCore
  cases h : ip ++ fp with
  | nil => simp
  | cons c r =>
    simp only
    by_cases hd : Spec.Numeral.isDigit c = true
    · simp only [hd, if_true, Bool.not_true, Bool.false_eq_true, if_false]
      rw [← h, accDigits_eq, segDigits_append]
      cases h1 : segDigits ip with
      | none => simp
      | some di =>
        cases h2 : segDigits fp with
        | none => simp
        | some df =>
          simp only [Option.bind_some, Option.map_some, filter_count_eq fp df h2]
          rw [digitsToNat_eq]
          cases neg <;> simp
    · have : Spec.Numeral.isDigit c = false := by simpa using hd
      simp [this]

end BigDec

namespace BigDec
open Parse Spec.Numeral

theorem finish_eq (d d' : List Nat) (neg : Bool) (o e : Int) (h : takeSign d = (neg, d')) :
    finish d o e = tailModel neg d' o e := by
  unfold finish tailModel
  rw [parseBigInt_eq, h]
  split
  · rfl
  · cases uintCore d' <;> rfl

theorem segDigits_sign (t : Nat) (tl : List Nat) (h : t = 43 ∨ t = 45) : segDigits (t :: tl) = none := by
  rcases h with h | h <;> subst h <;> simp [segDigits, isDigit_43, isDigit_45]

theorem tailSpec_sign (neg : Bool) (ip : List Nat) (t : Nat) (tl : List Nat) (e : Int)
    (h : t = 43 ∨ t = 45) : tailSpec neg ip (t :: tl) e = none := by
  unfold tailSpec
  cases hh : ip ++ t :: tl with
  | nil => rfl
  | cons c r =>
    simp only
    split
    · rfl
    · rw [segDigits_sign t tl h]
      cases segDigits ip <;> rfl

/-- the part after the sign, written over `splitFirst`: this is where model and specification meet -/
def bodyModel (neg : Bool) (body : List Nat) (e : Int) : Option Dec :=
  match splitFirst (· == cDot) body with
  | none => tailModel neg body 0 e
  | some (ip, trail) =>
    if trail.isEmpty then tailModel neg ip 0 e
    else if trail.head? = some cPlus ∨ trail.head? = some cMinus then none
    else tailModel neg (ip ++ trail) ((trail.filter (· != cUnder)).length : Int) e

def bodySpec (neg : Bool) (body : List Nat) (e : Int) : Option Dec :=
  match cut [46] body with
  | (ip, fpOpt) => tailSpec neg ip (fpOpt.getD []) e

theorem body_eq (neg : Bool) (body : List Nat) (e : Int) : bodyModel neg body e = bodySpec neg body e := by
  unfold bodyModel bodySpec
  rw [cut_eq_splitFirst]
  have hf : (fun b => ([46] : List Nat).contains b) = (fun b => b == cDot) := funext contains_dot
  rw [hf]
  cases hsp : splitFirst (fun b => b == cDot) body with
  | none =>
    have := tail_eq neg body [] e
    simpa using this
  | some pr =>
    obtain ⟨ip, trail⟩ := pr
    cases trail with
    | nil =>
      have := tail_eq neg ip [] e
      simpa using this
    | cons t tl =>
      simp only [List.isEmpty_cons, Bool.false_eq_true, if_false, Option.getD_some]
      by_cases hs : t = 43 ∨ t = 45
      · rw [tailSpec_sign neg ip t tl e hs]
        have : ((t :: tl).head? = some cPlus ∨ (t :: tl).head? = some cMinus) := by
          rcases hs with h | h <;> subst h <;> simp [cPlus, cMinus]
        split
        · rfl
        · contradiction
      · have : ¬ (some t = some cPlus ∨ some t = some cMinus) := by
          intro h; apply hs
          rcases h with h | h <;> injection h with h <;> simp [cPlus, cMinus] at h <;> simp [h]
        split
        · contradiction
        · exact tail_eq neg ip (t :: tl) e

end BigDec

namespace BigDec
open Parse Spec.Numeral

/-- everything after the exponent has been split off (model side) -/
def mantModel (mant : List Nat) (e : Int) : Option Dec :=
  if mant.isEmpty then none
  else match splitMantissa mant with
    | none => none
    | some (digits, offset) => finish digits offset e

/-- everything after the exponent has been split off (specification side) -/
def mantSpec (mant : List Nat) (e : Int) : Option Dec :=
  match takeSign mant with
  | (neg, body) => bodySpec neg body e

theorem splitFirst_head (p : Nat → Bool) (s ip trail : List Nat) (h : splitFirst p s = some (ip, trail))
    (hne : ip ≠ []) : ip.head? = s.head? := by
  cases s with
  | nil => simp [splitFirst] at h
  | cons b r =>
    unfold splitFirst at h
    split at h
    · injection h with h; injection h with h1 _; exact absurd h1.symm hne
    · cases hr : splitFirst p r with
      | none => simp [hr] at h
      | some pr =>
        obtain ⟨x, y⟩ := pr
        simp only [hr] at h
        injection h with h; injection h with h1 _
        subst h1; rfl

theorem noSign_append (ip x : List Nat) (s : List Nat) (hs : NoSign s) (hh : ip ≠ [] → ip.head? = s.head?)
    (hx : ip = [] → NoSign x) : NoSign (ip ++ x) := by
  cases ip with
  | nil => simpa using hx rfl
  | cons b r =>
    have := hh (by simp)
    unfold NoSign at *
    simp only [List.cons_append, List.head?_cons] at *
    rw [this]; exact hs

theorem tailModel_nil (neg : Bool) (o e : Int) : tailModel neg [] o e = none := by
  unfold tailModel uintCore; split <;> rfl

/-- unsigned mantissa: the `BigInt` parser sees no sign either -/
theorem mant_unsigned (body : List Nat) (e : Int) (hs : NoSign body) :
    (match splitMantissa body with
      | none => none
      | some (digits, offset) => finish digits offset e) = bodyModel false body e := by
  unfold splitMantissa bodyModel
  cases hsp : splitFirst (fun b => b == cDot) body with
  | none =>
    simp only
    exact finish_eq body body false 0 e (takeSign_noSign body hs)
  | some pr =>
    obtain ⟨ip, trail⟩ := pr
    have hhead := splitFirst_head _ _ _ _ hsp
    simp only
    by_cases hte : trail.isEmpty = true
    · simp only [hte, if_true]
      have : trail = [] := by simpa using hte
      subst this
      have hn : NoSign (ip ++ []) := noSign_append ip [] body hs hhead (by intro _; simp [NoSign])
      rw [List.append_nil] at hn
      exact finish_eq ip ip false 0 e (takeSign_noSign ip hn)
    · simp only [hte, Bool.false_eq_true, if_false]
      by_cases hsg : trail.head? = some cPlus ∨ trail.head? = some cMinus
      · simp only [hsg, if_true]
      · simp only [hsg, if_false]
        have hx : NoSign trail := by
          unfold NoSign
          constructor
          · intro h; exact hsg (Or.inr (by rw [h]; rfl))
          · intro h; exact hsg (Or.inl (by rw [h]; rfl))
        have hn : NoSign (ip ++ trail) := noSign_append ip trail body hs hhead (fun _ => hx)
        exact finish_eq (ip ++ trail) (ip ++ trail) false _ e (takeSign_noSign _ hn)

/-- signed mantissa: the sign byte travels with the digits into the `BigInt` parser -/
theorem mant_signed (c : Nat) (neg : Bool) (body : List Nat) (e : Int)
    (hc : (c = 45 ∧ neg = true) ∨ (c = 43 ∧ neg = false)) :
    (match splitMantissa (c :: body) with
      | none => none
      | some (digits, offset) => finish digits offset e) = bodyModel neg body e := by
  have hts : ∀ x, takeSign (c :: x) = (neg, x) := by
    intro x; rcases hc with ⟨h1, h2⟩ | ⟨h1, h2⟩ <;> subst h1 <;> subst h2 <;> rfl
  have hcd : (c == cDot) = false := by
    rcases hc with ⟨h1, _⟩ | ⟨h1, _⟩ <;> subst h1 <;> decide
  unfold splitMantissa bodyModel
  conv => lhs; unfold splitFirst
  simp only [hcd, Bool.false_eq_true, if_false]
  cases hsp : splitFirst (fun b => b == cDot) body with
  | none =>
    simp only
    exact finish_eq (c :: body) body neg 0 e (hts body)
  | some pr =>
    obtain ⟨ip, trail⟩ := pr
    simp only
    by_cases hte : trail.isEmpty = true
    · simp only [hte, if_true]
      exact finish_eq (c :: ip) ip neg 0 e (hts ip)
    · simp only [hte, Bool.false_eq_true, if_false]
      by_cases hsg : trail.head? = some cPlus ∨ trail.head? = some cMinus
      · simp only [hsg, if_true]
      · simp only [hsg, if_false]
        exact finish_eq (c :: ip ++ trail) (ip ++ trail) neg _ e (hts _)

theorem mant_eq (mant : List Nat) (e : Int) : mantModel mant e = mantSpec mant e := by
  unfold mantModel mantSpec
  rcases takeSign_cases mant with ⟨r, hs, ht⟩ | ⟨r, hs, ht⟩ | ⟨h1, h2, ht⟩
  · subst hs; rw [ht]
    simp only [List.isEmpty_cons, Bool.false_eq_true, if_false]
    rw [mant_signed 45 true r e (Or.inl ⟨rfl, rfl⟩), body_eq]
  · subst hs; rw [ht]
    simp only [List.isEmpty_cons, Bool.false_eq_true, if_false]
    rw [mant_signed 43 false r e (Or.inr ⟨rfl, rfl⟩), body_eq]
  · rw [ht]
    simp only
    have hns : NoSign mant := by
      unfold NoSign
      cases mant with
      | nil => simp
      | cons b r =>
        simp only [List.head?_cons]
        constructor
        · intro h; injection h with h; exact h1 r (by rw [h])
        · intro h; injection h with h; exact h2 r (by rw [h])
    rw [← body_eq]
    by_cases hemp : mant.isEmpty = true
    · have : mant = [] := by simpa using hemp
      subst this
      simp [bodyModel, splitFirst, tailModel_nil]
    · simp only [hemp, Bool.false_eq_true, if_false]
      exact mant_unsigned mant e hns

end BigDec

namespace BigDec
open Parse Spec.Numeral

/-- the grammar specification in stages (definitional) -/
theorem specParse_staged (s : List Nat) :
    specParse s = (match cut [101, 69] s with
      | (mant, expPart) =>
        match (match expPart with
          | none => some (0 : Int)
          | some e => exponentValue e) with
        | none => none
        | some e => if e < -(2 ^ 127 : Int) ∨ e ≥ (2 ^ 127 : Int) then none else mantSpec mant e) := rfl

end BigDec
