import BigDec.Proofs.Render
import BigDec.Proofs.Value
/-! `to_engineering_notation` reads back with the same value (and the same digits and scale
    whenever the mantissa has more digits than the one to three placed before the point). -/
namespace BigDec
open Fmt Spec.Numeral Parse

theorem engineering_roundtrip (d : Dec) (hsc : -(2 ^ 63 : Int) ≤ d.scale ∧ d.scale < 2 ^ 63 - 2)
    (hlen : numDigits d.int.natAbs < 2 ^ 64) :
    ∃ r, specParse (toBytes (engineering d)) = some r ∧ r.value = d.value := by
  obtain ⟨n, hn⟩ : ∃ n, n = d.int.natAbs := ⟨_, rfl⟩
  rw [← hn] at hlen
  have hlen1 : (natStr n).length = numDigits n := natStr_length n
  have hnb : List.map Char.toNat (natStr n) = (digitsBE n).map (· + 48) := natStr_bytes n
  have hpos := numDigits_pos n
  have hds := digitsBE_lt n
  have hdl := digitsBE_length n
  have hint : (if decide (d.int < 0) = true then (-1 : Int) else 1) * (n : Int) = d.int := by
    rw [hn]; exact signDec_mul_natAbs d.int
  unfold engineering
  by_cases h0 : d.int = 0
  · rw [if_pos h0]
    refine ⟨⟨0, 0⟩, by decide, ?_⟩
    unfold Dec.value; simp [h0]
  · rw [if_neg h0]
    simp only [← hn, hlen1]
    obtain ⟨shift, hshift⟩ : ∃ shift : Nat, (if ((numDigits n : Int) - d.scale) % 3 = 0 then 3 else (((numDigits n : Int) - d.scale) % 3).toNat) = shift := ⟨_, rfl⟩
    have hs13 : 1 ≤ shift ∧ shift ≤ 3 := by
      rw [← hshift]; split <;> omega
    rw [hshift]
    by_cases hge : shift ≥ numDigits n
    · rw [if_pos hge]
      have key := specParse_canonical (decide (d.int < 0)) (digitsBE n ++ List.replicate (shift - numDigits n) 0) [] []
        (101 :: toBytes (intStr ((numDigits n : Int) - d.scale - shift))) ((numDigits n : Int) - d.scale - shift)
        (mem_append_lt hds (replicate_lt _)) (by simp)
        (by intro h; exact digitsBE_ne_nil n (List.append_eq_nil_iff.mp h).1)
        (Or.inl ⟨rfl, rfl⟩) (Or.inr ⟨101, _, Or.inl rfl, rfl, exponentValue_intStr _⟩)
        (by constructor <;> omega) (by simp; constructor <;> omega)
      simp only [List.append_nil, digitsToNat_trailing_zeros, digitsToNat_digitsBE, List.length_nil] at key
      refine ⟨⟨(if decide (d.int < 0) = true then -1 else 1) * ((n * 10 ^ (shift - numDigits n) : Nat) : Int),
        ((0 : Nat) : Int) - ((numDigits n : Int) - d.scale - (shift : Int))⟩, ?_, ?_⟩
      · rw [← key]
        congr 1
        by_cases hneg : d.int < 0 <;> simp [hneg, toBytes, hnb, zeros, toBytes_intStr]
      · simp only [Dec.value_mk]
        rw [Nat.cast_mul, ← mul_assoc, hint]
        unfold Dec.value
        have e : -(((0 : Nat) : Int) - ((numDigits n : Int) - d.scale - (shift : Int))) = -(((shift - numDigits n : Nat) : Int)) + -d.scale := by omega
        rw [e, zpow_add₀ ten_ne_zero, zpow_neg, zpow_natCast]
        push_cast
        have h10 : ((10:ℚ) ^ (shift - numDigits n)) ≠ 0 := pow_ne_zero _ ten_ne_zero
        field_simp
    · rw [if_neg hge]
      have hlt : shift < numDigits n := by omega
      rw [if_pos hlt]
      have hsplit : digitsBE n = (digitsBE n).take shift ++ (digitsBE n).drop shift := (List.take_append_drop _ _).symm
      have hdrl : ((digitsBE n).drop shift).length = numDigits n - shift := by simp [hdl]
      have key := specParse_canonical (decide (d.int < 0)) ((digitsBE n).take shift) ((digitsBE n).drop shift)
        (46 :: ((digitsBE n).drop shift).map (· + 48))
        (101 :: toBytes (intStr ((numDigits n : Int) - d.scale - shift))) ((numDigits n : Int) - d.scale - shift)
        (fun x hx => hds x (List.mem_of_mem_take hx)) (fun x hx => hds x (List.mem_of_mem_drop hx))
        (by intro h; have := congrArg List.length h; simp [hdl] at this; omega)
        (Or.inr rfl) (Or.inr ⟨101, _, Or.inl rfl, rfl, exponentValue_intStr _⟩)
        (by constructor <;> omega) (by rw [hdrl]; constructor <;> omega)
      rw [← hsplit, digitsToNat_digitsBE, hdrl, hint] at key
      have hsc' : ((numDigits n - shift : Nat) : Int) - ((numDigits n : Int) - d.scale - (shift : Int)) = d.scale := by omega
      rw [hsc'] at key
      refine ⟨d, ?_, rfl⟩
      have hd : (⟨d.int, d.scale⟩ : Dec) = d := rfl
      rw [← hd, ← key]
      congr 1
      by_cases hneg : d.int < 0 <;> simp [hneg, toBytes, hnb, List.map_take, List.map_drop, toBytes_intStr]

end BigDec
