import BigDec.Model.Fmt
import BigDec.Proofs.AsciiRound
/-! Where the point and the zeros go: the layouts used by precision formatting, read back by the
    grammar. -/
namespace BigDec
open Fmt Spec Spec.Numeral Generated

theorem toBytes_dchars (l : List Nat) (h : ∀ d ∈ l, d < 10) : toBytes (l.map digitChar) = l.map (· + 48) := by
  unfold toBytes
  rw [List.map_map]
  apply List.map_congr_left
  intro d hd
  exact digitChar_toNat d (h d hd)

theorem zeros_eq (k : Nat) : zeros k = (List.replicate k 0).map digitChar := by
  unfold zeros; rw [List.map_replicate]; rfl

/-- integer-and-fraction layout: the last `dscale` digits of `ds` after the point, then zeros up to
    `N` fraction digits (no point at all when `N = 0`) -/
def layoutIF (ds : List Char) (dscale N : Nat) : List Char :=
  (if N ≠ 0 then ds.take (ds.length - dscale) ++ ['.'] ++ ds.drop (ds.length - dscale) else ds) ++
    (if dscale < N then zeros (N - dscale) else [])

theorem layoutIF_parse (neg : Bool) (X : List Nat) (dscale N : Nat) (hX : ∀ d ∈ X, d < 10)
    (h1 : dscale ≤ N) (h2 : dscale < X.length) (hN : N < 2 ^ 63) :
    specParse ((if neg then [45] else []) ++ toBytes (layoutIF (X.map digitChar) dscale N)) =
      some ⟨(if neg then -1 else 1) * ((digitsToNat X * 10 ^ (N - dscale) : Nat) : Int), N⟩ := by
  unfold layoutIF
  by_cases hN0 : N = 0
  · -- no point: dscale = 0
    have hd0 : dscale = 0 := by omega
    subst hN0; subst hd0
    simp only [ne_eq, not_true_eq_false, if_false, Nat.lt_irrefl, List.append_nil]
    have key := specParse_canonical neg X [] [] [] 0 hX (by simp)
      (by intro h; rw [h] at h2; simp at h2) (Or.inl ⟨rfl, rfl⟩) (Or.inl ⟨rfl, rfl⟩) (by omega) (by simp)
    simp only [List.append_nil, List.length_nil] at key
    rw [toBytes_dchars X hX]
    simpa using key
  · rw [if_pos hN0]
    have hlt1 : ∀ d ∈ X.take (X.length - dscale), d < 10 := fun d hd => hX d (List.mem_of_mem_take hd)
    have hlt2 : ∀ d ∈ X.drop (X.length - dscale) ++ List.replicate (N - dscale) 0, d < 10 :=
      mem_append_lt (fun d hd => hX d (List.mem_of_mem_drop hd)) (replicate_lt _)
    have hne : X.take (X.length - dscale) ≠ [] := by
      intro h; have := congrArg List.length h; simp at this; omega
    have hlen : (X.drop (X.length - dscale) ++ List.replicate (N - dscale) 0).length = N := by
      simp; omega
    have key := specParse_canonical neg (X.take (X.length - dscale)) (X.drop (X.length - dscale) ++ List.replicate (N - dscale) 0)
      (46 :: (X.drop (X.length - dscale) ++ List.replicate (N - dscale) 0).map (· + 48)) [] 0
      hlt1 hlt2 hne (Or.inr rfl) (Or.inl ⟨rfl, rfl⟩) (by omega) (by rw [hlen]; omega)
    rw [← List.append_assoc, List.take_append_drop, digitsToNat_trailing_zeros, hlen] at key
    simp only [List.append_nil, Int.sub_zero] at key
    rw [← key]
    congr 1
    rw [List.length_map, ← List.map_take, ← List.map_drop]
    by_cases hlt : dscale < N
    · rw [if_pos hlt, zeros_eq]
      simp only [toBytes_append, toBytes_dchars _ hlt1, toBytes_dchars _ (fun d hd => hX d (List.mem_of_mem_drop hd)),
        toBytes_dchars _ (replicate_lt _), List.map_append]
      simp [toBytes]
    · rw [if_neg hlt]
      have : N - dscale = 0 := by omega
      simp only [this, List.replicate_zero, List.append_nil, toBytes_append, toBytes_dchars _ hlt1,
        toBytes_dchars _ (fun d hd => hX d (List.mem_of_mem_drop hd))]
      simp [toBytes]

end BigDec

namespace BigDec
open Fmt Spec Spec.Numeral Generated

/-- the digits and their scale that `format_ascii_digits_with_integer_and_fraction` lays out -/
def intFracDigits (m : Mode) (neg : Bool) (digits : List Char) (scale target : Nat) : List Char × Nat :=
  if target < scale then
    (if (roundAsciiDigits m neg digits (digits.length - (scale - target))).2 ≤ scale then
      ((roundAsciiDigits m neg digits (digits.length - (scale - target))).1,
        scale - (roundAsciiDigits m neg digits (digits.length - (scale - target))).2)
    else ((roundAsciiDigits m neg digits (digits.length - (scale - target))).1 ++
            zeros ((roundAsciiDigits m neg digits (digits.length - (scale - target))).2 - scale), 0))
  else (digits, scale)

theorem fmtIntFrac_eq_layout (m : Mode) (neg : Bool) (digits : List Char) (scale target : Nat) :
    fmtIntFrac m neg digits scale target =
      layoutIF (intFracDigits m neg digits scale target).1 (intFracDigits m neg digits scale target).2 target := by
  unfold fmtIntFrac layoutIF intFracDigits
  by_cases h1 : target < scale
  · simp only [h1, if_true]
    by_cases h2 : (roundAsciiDigits m neg digits (digits.length - (scale - target))).2 ≤ scale
    · simp only [h2, if_true]
      split <;> simp
    · simp only [h2, if_false]
      split <;> simp
  · simp only [h1, if_false]
    split <;> simp

theorem pow_cancel {a b k : Nat} (h : a * 10 ^ k = b * 10 ^ k) : a = b :=
  Nat.eq_of_mul_eq_mul_right (by positivity) h

/-- **integer-and-fraction layout reads back as the rounded value with exactly `N` fraction digits** -/
theorem fmtIntFrac_parse (m : Mode) (neg : Bool) (n sc N : Nat) (hsc : 0 < sc) (hlt : sc < numDigits n)
    (hN : N < 2 ^ 63) :
    specParse ((if neg then [45] else []) ++ toBytes (fmtIntFrac m neg (natStr n) sc N)) =
      some ⟨(if neg then -1 else 1) *
        ((if sc ≤ N then n * 10 ^ (N - sc) else roundNat m neg n (sc - N) : Nat) : Int), N⟩ := by
  have hds := digitsBE_lt n
  have hlen := digitsBE_length n
  rw [fmtIntFrac_eq_layout, natStr_eq_digitsBE]
  unfold intFracDigits
  by_cases h1 : N < sc
  · rw [if_pos h1, if_neg (show ¬ sc ≤ N by omega)]
    simp only [List.length_map, hlen]
    rw [roundAscii_eq_roundBE m neg _ _ hds]
    simp only
    obtain ⟨hv, hd, hk, hne, hl⟩ := roundBE_spec m neg (digitsBE n) (numDigits n - (sc - N)) hds
      (by omega) (by rw [hlen]; omega)
    rw [hlen] at hv hk hl
    rw [digitsToNat_digitsBE] at hv
    have hkk : numDigits n - (numDigits n - (sc - N)) = sc - N := by omega
    rw [hkk] at hv hk
    generalize roundBE m neg (digitsBE n) (numDigits n - (sc - N)) = R at hv hd hk hne hl ⊢
    obtain ⟨R1, R2⟩ := R
    simp only at hv hd hk hne hl ⊢
    by_cases h2 : R2 ≤ sc
    · rw [if_pos h2]
      simp only
      rw [layoutIF_parse neg R1 (sc - R2) N hd (by omega) (by omega) hN]
      have e : digitsToNat R1 * 10 ^ (N - (sc - R2)) = roundNat m neg n (sc - N) := by
        apply pow_cancel (k := sc - N)
        rw [← hv, Nat.mul_assoc, ← Nat.pow_add]
        congr 2; omega
      rw [e]
    · rw [if_neg h2]
      simp only
      rw [zeros_eq, ← List.map_append]
      rw [layoutIF_parse neg (R1 ++ List.replicate (R2 - sc) 0) 0 N (mem_append_lt hd (replicate_lt _))
        (by omega) (by simp; cases R1 with | nil => exact absurd rfl hne | cons _ _ => simp) hN]
      have e : digitsToNat (R1 ++ List.replicate (R2 - sc) 0) * 10 ^ (N - 0) = roundNat m neg n (sc - N) := by
        rw [digitsToNat_trailing_zeros]
        apply pow_cancel (k := sc - N)
        rw [← hv, Nat.mul_assoc, Nat.mul_assoc, ← Nat.pow_add, ← Nat.pow_add]
        congr 2; omega
      rw [e]
  · rw [if_neg h1, if_pos (show sc ≤ N by omega)]
    simp only
    rw [layoutIF_parse neg (digitsBE n) sc N hds (by omega) (by rw [hlen]; exact hlt) hN, digitsToNat_digitsBE]

end BigDec

namespace BigDec
open Fmt Spec Spec.Numeral Generated

/-- `0.` followed by fraction digits -/
theorem zeroPoint_parse (neg : Bool) (F : List Nat) (hF : ∀ d ∈ F, d < 10) (hN : F.length < 2 ^ 63) :
    specParse ((if neg then [45] else []) ++ toBytes (['0', '.'] ++ F.map digitChar)) =
      some ⟨(if neg then -1 else 1) * ((digitsToNat F : Nat) : Int), F.length⟩ := by
  have key := specParse_canonical neg [0] F (46 :: F.map (· + 48)) [] 0 (by simp) hF (by simp)
    (Or.inr rfl) (Or.inl ⟨rfl, rfl⟩) (by omega) (by omega)
  have hz : digitsToNat ([0] ++ F) = digitsToNat F := by
    have : ([0] : List Nat) = List.replicate 1 0 := rfl
    rw [this, digitsToNat_leading_zeros]
  rw [hz] at key
  simp only [List.append_nil, Int.sub_zero] at key
  rw [← key]
  congr 1
  rw [toBytes_append, toBytes_dchars F hF]
  simp [toBytes]

/-- a bare digit string -/
theorem bareDigits_parse (neg : Bool) (X : List Nat) (hX : ∀ d ∈ X, d < 10) (hne : X ≠ []) :
    specParse ((if neg then [45] else []) ++ toBytes (X.map digitChar)) =
      some ⟨(if neg then -1 else 1) * ((digitsToNat X : Nat) : Int), 0⟩ := by
  have key := specParse_canonical neg X [] [] [] 0 hX (by simp) hne (Or.inl ⟨rfl, rfl⟩) (Or.inl ⟨rfl, rfl⟩)
    (by omega) (by simp)
  simp only [List.append_nil, List.length_nil] at key
  rw [toBytes_dchars X hX]
  simpa using key

/-- the rounding of a number below one unit of the kept place: kept part 0, everything is tail -/
theorem roundPair_below_unit (m : Mode) (neg : Bool) (DS : List Nat) (hds : ∀ d ∈ DS, d < 10) (hne : DS ≠ [])
    (k : Nat) (hk : DS.length ≤ k) :
    roundPair m neg 0
      (if k - DS.length > 0 then 0 else DS.headD 0)
      (needsTrailingZeros m (if k - DS.length > 0 then 0 else DS.headD 0) &&
        (if k - DS.length > 0 then DS else DS.drop 1).all (· == 0))
      = roundNat m neg (digitsToNat DS) k := by
  have hv := beVal_lt DS hds
  have hq : digitsToNat DS / 10 ^ k = 0 :=
    Nat.div_eq_of_lt (lt_of_lt_of_le hv (Nat.pow_le_pow_right (by norm_num) hk))
  have hr : digitsToNat DS % 10 ^ k = digitsToNat DS :=
    Nat.mod_eq_of_lt (lt_of_lt_of_le hv (Nat.pow_le_pow_right (by norm_num) hk))
  have hL : 1 ≤ DS.length := by cases DS with | nil => exact absurd rfl hne | cons _ _ => simp
  unfold roundNat
  rw [hq, hr, Nat.zero_add]
  by_cases hi : k - DS.length > 0
  · simp only [hi, if_true]
    have g := roundPair_tz_guard m neg ⟨0, by norm_num⟩ ⟨0, by norm_num⟩ (DS.all (· == 0))
    simp only at g
    rw [g, beVal_zero_iff]
    have t := roundPair_tail m neg 0 0 (digitsToNat DS) (10 ^ (k - 1)) (by positivity)
      (lt_of_lt_of_le hv (Nat.pow_le_pow_right (by norm_num) (by omega))) (by norm_num)
    simp only [Nat.zero_mod, Nat.zero_mul, Nat.zero_add] at t
    rw [t]
    have : 10 * 10 ^ (k - 1) = 10 ^ k := by rw [← Nat.pow_succ']; congr 1; omega
    rw [this]
  · simp only [hi, if_false]
    have hkL : k = DS.length := by omega
    obtain ⟨a, b, hab⟩ : ∃ a b, DS = a :: b := by
      cases DS with | nil => exact absurd rfl hne | cons a b => exact ⟨a, b, rfl⟩
    subst hab
    have ha : a < 10 := hds a (by simp)
    have hb : ∀ d ∈ b, d < 10 := fun d hd => hds d (by simp [hd])
    simp only [List.headD_cons, List.drop_one, List.tail_cons]
    have g := roundPair_tz_guard m neg ⟨0, by norm_num⟩ ⟨a, ha⟩ (b.all (· == 0))
    simp only at g
    rw [g, beVal_zero_iff]
    have hbv := beVal_lt b hb
    have t := roundPair_tail m neg 0 a (digitsToNat b) (10 ^ b.length) (by positivity) hbv ha
    simp only [Nat.zero_mod, Nat.zero_add] at t
    rw [t]
    have e1 : digitsToNat (a :: b) = a * 10 ^ b.length + digitsToNat b := by
      have := beVal_append [a] b
      rwa [List.singleton_append, beVal_singleton] at this
    have e2 : 10 * 10 ^ b.length = 10 ^ k := by rw [hkL, List.length_cons, Nat.pow_succ']
    rw [e1, e2]

end BigDec

namespace BigDec
open Fmt Spec Spec.Numeral Generated

theorem roundNat_le_one_of_small (m : Mode) (neg : Bool) (n k : Nat) (h : n < 10 ^ k) : roundNat m neg n k ≤ 1 := by
  unfold roundNat
  rw [Nat.div_eq_of_lt h]
  split <;> omega

/-- **no-integer layout reads back as the rounded value with exactly `N` fraction digits** -/
theorem fmtNoInt_parse (m : Mode) (neg : Bool) (n sc N : Nat) (hge : numDigits n ≤ sc) (hN : N < 2 ^ 63) :
    specParse ((if neg then [45] else []) ++ toBytes (fmtNoInt m neg (natStr n) sc N)) =
      some ⟨(if neg then -1 else 1) *
        ((if sc ≤ N then n * 10 ^ (N - sc) else roundNat m neg n (sc - N) : Nat) : Int), N⟩ := by
  have hds := digitsBE_lt n
  have hlen := digitsBE_length n
  have hne := digitsBE_ne_nil n
  have hpos := numDigits_pos n
  have hval := digitsToNat_digitsBE n
  rw [natStr_eq_digitsBE]
  unfold fmtNoInt
  simp only [List.length_map, hlen]
  by_cases h1 : N ≤ sc - numDigits n
  · -- the value is below one unit of the last printed place
    rw [if_pos h1, if_neg (show ¬ sc ≤ N by omega)]
    have hhead : charDigit (((digitsBE n).map digitChar).headD '0') = (digitsBE n).headD 0 := by
      cases hd : digitsBE n with
      | nil => exact absurd hd hne
      | cons a b => exact charDigit_digitChar a (hds a (by rw [hd]; simp))
    have hall1 : ((digitsBE n).map digitChar).all (· == '0') = (digitsBE n).all (· == 0) :=
      all_map_digit_zero _ hds
    have hall2 : (((digitsBE n).map digitChar).drop 1).all (· == '0') = ((digitsBE n).drop 1).all (· == 0) := by
      rw [← List.map_drop]; exact all_map_digit_zero _ (fun d hd => hds d (List.mem_of_mem_drop hd))
    have hR := roundPair_below_unit m neg (digitsBE n) hds hne (sc - N) (by rw [hlen]; omega)
    rw [hlen, hval] at hR
    have hinter : sc - numDigits n - N = sc - N - numDigits n := by omega
    have hR' : roundPair m neg 0
        (if sc - numDigits n - N > 0 then 0 else charDigit (((digitsBE n).map digitChar).headD '0'))
        (needsTrailingZeros m (if sc - numDigits n - N > 0 then 0 else charDigit (((digitsBE n).map digitChar).headD '0')) &&
          (if sc - numDigits n - N > 0 then (digitsBE n).map digitChar else ((digitsBE n).map digitChar).drop 1).all (· == '0'))
        = roundNat m neg n (sc - N) := by
      rw [← hR, hhead, hinter]
      by_cases hi : sc - N - numDigits n > 0
      · simp only [hi, if_true, hall1]
      · simp only [hi, if_false, hall2]
    simp only [hR']
    have hle : roundNat m neg n (sc - N) ≤ 1 := by
      apply roundNat_le_one_of_small
      have := beVal_lt (digitsBE n) hds
      rw [hval, hlen] at this
      exact lt_of_lt_of_le this (Nat.pow_le_pow_right (by norm_num) (by omega))
    by_cases hN0 : N > 0
    · rw [if_pos hN0, zeros_eq]
      have e : ['0', '.'] ++ (List.replicate (N - 1) 0).map digitChar ++ [digitChar (roundNat m neg n (sc - N))]
          = ['0', '.'] ++ (List.replicate (N - 1) 0 ++ [roundNat m neg n (sc - N)]).map digitChar := by simp
      rw [e, zeroPoint_parse neg _ (mem_append_lt (replicate_lt _) (by intro d hd; simp at hd; omega)) (by simp; omega)]
      have hlenF : (List.replicate (N - 1) 0 ++ [roundNat m neg n (sc - N)]).length = N := by
        simp only [List.length_append, List.length_replicate, List.length_singleton]; omega
      rw [digitsToNat_leading_zeros, beVal_singleton, hlenF]
    · rw [if_neg hN0]
      have hN00 : N = 0 := by omega
      have e : [digitChar (roundNat m neg n (sc - N))] = [roundNat m neg n (sc - N)].map digitChar := rfl
      rw [e, bareDigits_parse neg _ (by intro d hd; simp at hd; omega) (by simp), beVal_singleton, hN00]
      rfl
  · rw [if_neg h1]
    by_cases h2 : N - (sc - numDigits n) < numDigits n
    · -- rounding inside the digit string
      rw [if_pos h2, if_neg (show ¬ sc ≤ N by omega)]
      rw [roundAscii_eq_roundBE m neg _ _ hds]
      simp only
      obtain ⟨hv, hd, hk, hne', hl⟩ := roundBE_spec m neg (digitsBE n) (N - (sc - numDigits n)) hds
        (by omega) (by rw [hlen]; exact h2)
      rw [hlen] at hv hk hl
      rw [hval] at hv
      have hkk : numDigits n - (N - (sc - numDigits n)) = sc - N := by omega
      rw [hkk] at hv hk
      generalize roundBE m neg (digitsBE n) (N - (sc - numDigits n)) = R at hv hd hk hne' hl ⊢
      obtain ⟨R1, R2⟩ := R
      simp only at hv hd hk hne' hl ⊢
      simp only [List.length_map]
      by_cases h3 : sc - R2 ≠ 0
      · rw [if_pos h3]
        have hfit : R1.length ≤ sc - R2 := by
          rcases hl with h | ⟨h, h'⟩
          · omega
          · omega
        have e : ['0', '.'] ++ zeros (N + 2 - (N - (sc - R2)) - R1.length - 2) ++ R1.map digitChar ++ zeros (N - (sc - R2))
            = ['0', '.'] ++ (List.replicate (N + 2 - (N - (sc - R2)) - R1.length - 2) 0 ++ R1 ++ List.replicate (N - (sc - R2)) 0).map digitChar := by
          simp [zeros_eq]
        rw [e, zeroPoint_parse neg _ (mem_append_lt (mem_append_lt (replicate_lt _) hd) (replicate_lt _)) (by simp; omega)]
        have hv2 : digitsToNat (List.replicate (N + 2 - (N - (sc - R2)) - R1.length - 2) 0 ++ R1 ++ List.replicate (N - (sc - R2)) 0)
            = roundNat m neg n (sc - N) := by
          rw [digitsToNat_trailing_zeros, digitsToNat_leading_zeros]
          apply pow_cancel (k := sc - N)
          rw [← hv, Nat.mul_assoc, ← Nat.pow_add]
          congr 2; omega
        have hlenF : (List.replicate (N + 2 - (N - (sc - R2)) - R1.length - 2) 0 ++ R1 ++ List.replicate (N - (sc - R2)) 0).length = N := by
          simp only [List.length_append, List.length_replicate]; omega
        rw [hv2, hlenF]
      · rw [if_neg h3]
        have hR2 : R2 = sc := by omega
        have hR1 : R1.length = 1 := by
          rcases hl with h | ⟨h, _⟩
          · have : R1.length ≥ 1 := by cases R1 with | nil => exact absurd rfl hne' | cons _ _ => simp
            omega
          · exact h
        have ht : (R1.map digitChar).take 1 = R1.map digitChar := List.take_of_length_le (by simp [hR1])
        rw [ht]
        have key := specParse_canonical neg R1 (List.replicate N 0) (46 :: (List.replicate N 0).map (· + 48)) [] 0
          hd (replicate_lt _) hne' (Or.inr rfl) (Or.inl ⟨rfl, rfl⟩) (by omega) (by simp; omega)
        have hv2 : digitsToNat (R1 ++ List.replicate N 0) = roundNat m neg n (sc - N) := by
          rw [digitsToNat_trailing_zeros]
          apply pow_cancel (k := sc - N)
          rw [← hv, Nat.mul_assoc, ← Nat.pow_add]
          congr 2; omega
        rw [hv2] at key
        simp only [List.append_nil, List.length_replicate, Int.sub_zero] at key
        rw [← key]
        congr 1
        rw [zeros_eq, toBytes_append, toBytes_append, toBytes_dchars R1 hd, toBytes_dchars _ (replicate_lt _)]
        simp [toBytes]
    · -- no rounding: all digits fit
      rw [if_neg h2, if_pos (show sc ≤ N by omega)]
      simp only [List.length_map, hlen]
      have hsc0 : sc ≠ 0 := by omega
      rw [if_pos hsc0]
      have e : ['0', '.'] ++ zeros (N + 2 - (N - sc) - numDigits n - 2) ++ (digitsBE n).map digitChar ++ zeros (N - sc)
          = ['0', '.'] ++ (List.replicate (N + 2 - (N - sc) - numDigits n - 2) 0 ++ digitsBE n ++ List.replicate (N - sc) 0).map digitChar := by
        simp [zeros_eq]
      rw [e, zeroPoint_parse neg _ (mem_append_lt (mem_append_lt (replicate_lt _) hds) (replicate_lt _)) (by simp [hlen]; omega)]
      have hlenF : (List.replicate (N + 2 - (N - sc) - numDigits n - 2) 0 ++ digitsBE n ++ List.replicate (N - sc) 0).length = N := by
        simp only [List.length_append, List.length_replicate, hlen]; omega
      rw [digitsToNat_trailing_zeros, digitsToNat_leading_zeros, hval, hlenF]

end BigDec

namespace BigDec
open Fmt Spec Spec.Numeral Generated

theorem chooseNotation_prec (cfg : Config) (n : Nat) (scale : Int) (N : Nat) :
    chooseNotation cfg n scale (some N) = .full := by
  unfold chooseNotation
  simp

theorem sgn_eq (i : Int) : Spec.sgn i = (if decide (i < 0) = true then (-1 : Int) else 1) := by
  unfold Spec.sgn; by_cases h : i < 0 <;> simp [h]

/-- **`{:.N}` reads back as the decimal rounded to `N` fraction digits under the configured mode** -
    the very pair `(int, scale)` that `Spec.roundToScale` (= `with_scale_round`, C06) yields, so
    exactly `N` digits after the point; when the integer padding would exceed the limit the text
    keeps its exponent and denotes the exact value. -/
theorem display_prec_parse (cfg : Config) (npl : Nat) (d : Dec) (N : Nat)
    (hsc : -(2 ^ 63 : Int) ≤ d.scale ∧ d.scale < 2 ^ 63) (hN : N < 2 ^ 63) :
    specParse (toBytes (display cfg npl {precision := some N} d)) = some (Spec.roundToScale d N cfg.mode) ∨
    (d.scale ≤ 0 ∧ (-d.scale).toNat + (if N ≠ 0 then N + 1 else 0) > cfg.maxPadding ∧
      specParse (toBytes (display cfg npl {precision := some N} d)) = some d) := by
  obtain ⟨n, hn⟩ : ∃ n, n = d.int.natAbs := ⟨_, rfl⟩
  have hint : (if decide (d.int < 0) = true then (-1 : Int) else 1) * (n : Int) = d.int := by
    rw [hn]; exact signDec_mul_natAbs d.int
  unfold display
  have hpad : ∀ (nonneg : Bool) (buf : List Char),
      padIntegral {precision := some N} nonneg buf = (if nonneg then [] else ['-']) ++ buf := by
    intro nonneg buf; unfold padIntegral; cases nonneg <;> simp
  simp only [← hn, chooseNotation_prec, hpad, toBytes_append, toBytes_sign]
  by_cases hpos : 0 < d.scale
  · left
    obtain ⟨sc, hscn⟩ : ∃ sc : Nat, d.scale = sc := ⟨d.scale.toNat, by omega⟩
    have htn : d.scale.toNat = sc := by omega
    have hsc0 : 0 < sc := by omega
    unfold fullScaleText
    rw [if_neg (show ¬ d.scale ≤ 0 by omega)]
    simp only [htn, Option.getD_some, natStr_length]
    have hres : (⟨(if decide (d.int < 0) = true then -1 else 1) *
        ((if sc ≤ N then n * 10 ^ (N - sc) else roundNat cfg.mode (decide (d.int < 0)) n (sc - N) : Nat) : Int), (N : Int)⟩ : Dec)
        = Spec.roundToScale d N cfg.mode := by
      unfold Spec.roundToScale
      by_cases hge : (N : Int) ≥ d.scale
      · rw [if_pos hge, if_pos (show sc ≤ N by omega)]
        have : ((N : Int) - d.scale).toNat = N - sc := by omega
        rw [this, Nat.cast_mul, ← mul_assoc, hint]
      · rw [if_neg hge, if_neg (show ¬ sc ≤ N by omega)]
        have : (d.scale - (N : Int)).toNat = sc - N := by omega
        rw [this, sgn_eq, hn]
    by_cases hlt : sc < numDigits n
    · rw [if_pos hlt, fmtIntFrac_parse cfg.mode _ n sc N hsc0 hlt hN, hres]
    · rw [if_neg hlt, fmtNoInt_parse cfg.mode _ n sc N (by omega) hN, hres]
  · obtain ⟨e, he⟩ : ∃ e : Nat, -d.scale = e := ⟨(-d.scale).toNat, by omega⟩
    have hen : (-d.scale).toNat = e := by omega
    have hds := digitsBE_lt n
    unfold fullScaleText
    rw [if_pos (show d.scale ≤ 0 by omega)]
    simp only [hen]
    have hres : Spec.roundToScale d N cfg.mode = ⟨d.int * ((10 ^ (e + N) : Nat) : Int), N⟩ := by
      unfold Spec.roundToScale
      rw [if_pos (show (N : Int) ≥ d.scale by omega)]
      have : ((N : Int) - d.scale).toNat = e + N := by omega
      rw [this]
    unfold zeroRightPad
    rw [if_neg (show ¬ e ≥ 2 ^ 64 by omega)]
    simp only [Option.isNone_some, Bool.false_eq_true, false_and, if_false]
    by_cases hover : e + (if N ≠ 0 then N + 1 else 0) > cfg.maxPadding
    · right
      refine ⟨by omega, hover, ?_⟩
      rw [if_pos hover]
      simp only
      by_cases he0 : e ≠ 0
      · rw [if_pos he0]
        have := dotless_parse d n hn hsc
        unfold dotlessText at this
        have hcast : ((e : Nat) : Int) = -d.scale := by omega
        rw [hcast]; exact this
      · rw [if_neg he0]
        have := bareDigits_parse (decide (d.int < 0)) (digitsBE n) hds (digitsBE_ne_nil n)
        rw [← natStr_eq_digitsBE, digitsToNat_digitsBE, hint] at this
        rw [this]
        have hs0 : d.scale = 0 := by omega
        cases d with
        | mk i s => simp only at hs0; subst hs0; rfl
    · left
      rw [if_neg hover, hres]
      by_cases hN0 : N ≠ 0
      · simp only [hN0, ne_eq, not_false_eq_true, if_true]
        have hX : ∀ x ∈ digitsBE n ++ List.replicate e 0 ++ List.replicate N 0, x < 10 :=
          mem_append_lt (mem_append_lt hds (replicate_lt _)) (replicate_lt _)
        have key := layoutIF_parse (decide (d.int < 0)) (digitsBE n ++ List.replicate e 0 ++ List.replicate N 0) N N hX
          (le_refl _) (by simp [digitsBE_length]; have := numDigits_pos n; omega) hN
        have hv : digitsToNat (digitsBE n ++ List.replicate e 0 ++ List.replicate N 0) * 10 ^ (N - N) = n * 10 ^ (e + N) := by
          rw [digitsToNat_trailing_zeros, digitsToNat_trailing_zeros, digitsToNat_digitsBE, Nat.sub_self, Nat.pow_zero,
            Nat.mul_one, Nat.mul_assoc, ← Nat.pow_add]
        rw [hv, Nat.cast_mul, ← mul_assoc, hint] at key
        rw [← key]
        congr 2
        unfold layoutIF
        rw [if_pos hN0, if_neg (Nat.lt_irrefl N)]
        rw [natStr_eq_digitsBE, zeros_eq, zeros_eq]
        simp only [List.map_append, List.length_append, List.length_map, List.length_replicate, List.append_nil]
        have h1 : (digitsBE n).length + e + N - N = (digitsBE n).length + e := by omega
        rw [h1]
        have ht : List.take ((digitsBE n).length + e) ((digitsBE n).map digitChar ++ (List.replicate e 0).map digitChar ++ (List.replicate N 0).map digitChar)
            = (digitsBE n).map digitChar ++ (List.replicate e 0).map digitChar := by
          rw [List.take_append_of_le_length (by simp)]
          exact List.take_of_length_le (by simp)
        have hdr : List.drop ((digitsBE n).length + e) ((digitsBE n).map digitChar ++ (List.replicate e 0).map digitChar ++ (List.replicate N 0).map digitChar)
            = (List.replicate N 0).map digitChar := by
          rw [List.drop_append_of_le_length (by simp)]
          rw [List.drop_of_length_le (by simp)]; rfl
        rw [ht, hdr]
        simp [toBytes]
      · have hN00 : N = 0 := by simpa using hN0
        subst hN00
        simp only [ne_eq, not_true_eq_false, if_false]
        have key := bareDigits_parse (decide (d.int < 0)) (digitsBE n ++ List.replicate e 0)
          (mem_append_lt hds (replicate_lt _)) (by simp [digitsBE_ne_nil])
        rw [digitsToNat_trailing_zeros, digitsToNat_digitsBE, Nat.cast_mul, ← mul_assoc, hint] at key
        rw [natStr_eq_digitsBE, zeros_eq, ← List.map_append, key]
        rfl

end BigDec

namespace BigDec
open Fmt Spec Spec.Numeral Generated

/-- the exponential layout `d[.ddd][000]e±x` -/
theorem expShape_parse (neg : Bool) (X : List Nat) (extra : Nat) (ex : Int) (eSym : Char)
    (hX : ∀ d ∈ X, d < 10) (hne : X ≠ []) (hes : eSym = 'e' ∨ eSym = 'E')
    (hex : -(2 ^ 127 : Int) ≤ ex ∧ ex < 2 ^ 127)
    (hs : -(2 ^ 63 : Int) ≤ ((X.length - 1 + extra : Nat) : Int) - ex ∧ ((X.length - 1 + extra : Nat) : Int) - ex < 2 ^ 63) :
    specParse ((if neg then [45] else []) ++
      toBytes ((if X.length > 1 || extra > 0 then (X.map digitChar).take 1 ++ ['.'] ++ (X.map digitChar).drop 1 else X.map digitChar)
        ++ zeros extra ++ [eSym] ++ intStrPlus ex)) =
      some ⟨(if neg then -1 else 1) * ((digitsToNat X * 10 ^ extra : Nat) : Int), ((X.length - 1 + extra : Nat) : Int) - ex⟩ := by
  have hL : 1 ≤ X.length := by cases X with | nil => exact absurd rfl hne | cons _ _ => simp
  have h1 : ∀ d ∈ X.take 1, d < 10 := fun d hd => hX d (List.mem_of_mem_take hd)
  have h2 : ∀ d ∈ X.drop 1 ++ List.replicate extra 0, d < 10 :=
    mem_append_lt (fun d hd => hX d (List.mem_of_mem_drop hd)) (replicate_lt _)
  have hne1 : X.take 1 ≠ [] := by
    intro h; exact hne (by simpa using h)
  have hdl : (X.drop 1 ++ List.replicate extra 0).length = X.length - 1 + extra := by simp
  have key := specParse_canonical neg (X.take 1) (X.drop 1 ++ List.replicate extra 0)
    (if X.length > 1 || extra > 0 then 46 :: (X.drop 1 ++ List.replicate extra 0).map (· + 48) else [])
    (eSym.toNat :: toBytes (intStrPlus ex)) ex h1 h2 hne1
    (by
      by_cases hp : (X.length > 1 || extra > 0) = true
      · rw [if_pos hp]; exact Or.inr rfl
      · rw [if_neg hp]; left
        refine ⟨rfl, ?_⟩
        apply List.eq_nil_of_length_eq_zero
        rw [hdl]
        simp at hp; omega)
    (Or.inr ⟨eSym.toNat, _, by rcases hes with h | h <;> subst h <;> decide, rfl, exponentValue_intStrPlus ex⟩)
    hex (by rw [hdl]; exact hs)
  rw [← List.append_assoc, List.take_append_drop, digitsToNat_trailing_zeros, hdl] at key
  rw [← key]
  congr 1
  rw [← List.map_take, ← List.map_drop, zeros_eq]
  by_cases hp : (X.length > 1 || extra > 0) = true
  · simp only [hp, if_true, toBytes_append, toBytes_dchars _ h1, toBytes_dchars _ (fun d hd => hX d (List.mem_of_mem_drop hd)),
      toBytes_dchars _ (replicate_lt _), List.map_append]
    simp [toBytes]
  · simp only [hp, if_false, Bool.false_eq_true]
    have hx1 : X.length = 1 := by simp at hp; omega
    have he0 : extra = 0 := by simp at hp; omega
    have ht : X.take 1 = X := List.take_of_length_le (by omega)
    subst he0
    simp only [List.replicate_zero, List.map_nil, List.append_nil, toBytes_append, toBytes_dchars X hX, ht]
    simp [toBytes]

end BigDec
