import BigDec.Model.Exp
import BigDec.Proofs.Arith
import BigDec.Proofs.Div
import BigDec.Proofs.Prec
/-! `exp` never returns a non-positive number: every quantity in the series loop, the
    reciprocal for negative arguments and the final trimming keep a positive unscaled integer. -/
namespace BigDec
open Generated Spec

theorem value_pos_iff (d : Dec) : 0 < d.value ↔ 0 < d.int := by
  unfold Dec.value
  have h : (0:ℚ) < (10:ℚ) ^ (-d.scale) := zpow_pos (by norm_num) _
  constructor
  · intro hv
    have : (0:ℚ) < (d.int : ℚ) := by
      by_contra hn
      have : (d.int : ℚ) ≤ 0 := not_lt.mp hn
      have := mul_nonpos_of_nonpos_of_nonneg this h.le
      linarith
    exact_mod_cast this
  · intro hi
    exact mul_pos (by exact_mod_cast hi) h

theorem implDivision_pos (a b : Int) (ha : 0 < a) (hb : 0 < b) (s : Int) (P : Nat) :
    0 < (implDivision a b s P).int := by
  rw [implDivision_eq a b (by omega)]
  unfold Spec.divide
  rw [if_neg (by omega)]
  simp only
  have h1 : (a < 0) = (b < 0) := by
    have : ¬ a < 0 := by omega
    have : ¬ b < 0 := by omega
    simp [*]
  rw [if_pos h1]
  have := C08_aux_pos a.natAbs b.natAbs (by omega) (by omega) s P
  omega

theorem withPrec_pos {est : Nat → Nat} (hest : EstOK est) (d : Dec) (p : Nat) (hp : 1 ≤ p) (hd : 0 < d.int) :
    0 < (d.withPrec est p).int := by
  rw [withPrec_spec hest]
  unfold Spec.roundToPrec Spec.roundToScale
  split
  · simp only
    have : (0:Int) < ((10 ^ (d.scale + ((p:Int) - (Spec.numDigits d.int.natAbs : Int)) - d.scale).toNat : Nat) : Int) := by
      have : 0 < 10 ^ (d.scale + ((p:Int) - (Spec.numDigits d.int.natAbs : Int)) - d.scale).toNat := by positivity
      exact_mod_cast this
    exact Int.mul_pos hd this
  · rename_i hlt
    simp only
    rw [Spec.numDigits_eq_model] at hlt ⊢
    have hk : (d.scale - (d.scale + ((p:Int) - (numDigits d.int.natAbs : Int)))).toNat = numDigits d.int.natAbs - p := by omega
    rw [hk]
    unfold Spec.sgn
    rw [if_neg (by omega), Int.one_mul]
    unfold Spec.roundNat
    have hge : 1 ≤ d.int.natAbs / 10 ^ (numDigits d.int.natAbs - p) := by
      rw [Nat.one_le_div_iff (by positivity)]
      have hlow := pow_numDigits_le d.int.natAbs (by omega)
      calc 10 ^ (numDigits d.int.natAbs - p) ≤ 10 ^ (numDigits d.int.natAbs - 1) :=
            Nat.pow_le_pow_right (by norm_num) (by omega)
        _ ≤ d.int.natAbs := hlow
    have : 0 < d.int.natAbs / 10 ^ (numDigits d.int.natAbs - p) +
        (if roundUpM .HalfUp (decide (d.int < 0)) (d.int.natAbs / 10 ^ (numDigits d.int.natAbs - p))
          (d.int.natAbs % 10 ^ (numDigits d.int.natAbs - p)) (10 ^ (numDigits d.int.natAbs - p)) then 1 else 0) := by omega
    exact_mod_cast this

end BigDec

namespace BigDec
open Generated Spec

theorem expLoop_pos (cfg : Config) {est : Nat → Nat} (hest : EstOK est) (hp : 1 ≤ cfg.precision)
    (x : Dec) (hx : 0 < x.int) (xdigits : Nat) :
    ∀ (fuel n : Nat) (term : Dec) (factorial : Nat) (result prev r : Dec),
      1 ≤ n → 0 < term.int → 0 < factorial → 0 < result.int →
      expLoop cfg est x xdigits fuel n term factorial result prev = some r → 0 < r.int := by
  intro fuel
  induction fuel with
  | zero => intro n term factorial result prev r _ _ _ _ h; simp [expLoop] at h
  | succ fuel ih =>
    intro n term factorial result prev r hn hterm hfact hres h
    unfold expLoop at h
    simp only at h
    have hterm' : 0 < (mulAssignDec term x).int := by
      rw [← value_pos_iff, value_mulAssignDec]
      exact mul_pos ((value_pos_iff term).mpr hterm) ((value_pos_iff x).mpr hx)
    have hfact' : 0 < factorial * n := Nat.mul_pos hfact (by omega)
    have hq : 0 < (implDivision (mulAssignDec term x).int ((factorial * n : Nat) : Int) (mulAssignDec term x).scale
        (expTermPrecision cfg xdigits)).int :=
      implDivision_pos _ _ hterm' (by exact_mod_cast hfact') _ _
    have hres' : 0 < (addAssignDec result (implDivision (mulAssignDec term x).int ((factorial * n : Nat) : Int)
        (mulAssignDec term x).scale (expTermPrecision cfg xdigits))).int := by
      rw [← value_pos_iff, value_addAssignDec]
      exact add_pos ((value_pos_iff result).mpr hres) ((value_pos_iff _).mpr hq)
    have htrim := withPrec_pos hest _ (cfg.precision + expGuardDigits) (by omega) hres'
    split at h
    · injection h with h; rw [← h]; exact htrim
    · exact ih _ _ _ _ _ _ (by omega) hterm' hfact' hres' h

theorem expUntrimmed_pos (cfg : Config) {est : Nat → Nat} (hest : EstOK est) (hp : 1 ≤ cfg.precision)
    (x : Dec) (hx : 0 < x.int) (fuel : Nat) (r : Dec) (h : expUntrimmed cfg est x fuel = some r) : 0 < r.int := by
  unfold expUntrimmed at h
  have h0 : 0 < (addBigdecimals x Dec.one).int := by
    rw [← value_pos_iff, value_addBigdecimals]
    have h1 : 0 < Dec.one.value := (value_pos_iff _).mpr (by decide)
    exact add_pos ((value_pos_iff x).mpr hx) h1
  exact expLoop_pos cfg hest hp x hx _ fuel 2 x 1 _ _ r (by norm_num) hx (by norm_num) h0 h

/-- **exp(x) is strictly positive for every argument** (whenever the computation returns) -/
theorem exp_pos (cfg : Config) {est : Nat → Nat} (hest : EstOK est) (hp : 1 ≤ cfg.precision)
    (x : Dec) (fuel : Nat) (r : Dec) (h : x.exp cfg est fuel = some r) : 0 < r.int := by
  unfold Dec.exp at h
  split at h
  · injection h with h; rw [← h]; decide
  · rename_i hz
    have hx0 : x.int ≠ 0 := by
      intro hh; apply hz; simp [Dec.isZero, hh]
    split at h
    · rename_i hneg
      cases hu : expUntrimmed cfg est x.abs fuel with
      | none => rw [hu] at h; simp at h
      | some pos =>
        rw [hu] at h
        simp only [Option.map_some, Option.some.injEq] at h
        have hpos : 0 < pos.int := expUntrimmed_pos cfg hest hp x.abs (by simp [Dec.abs]; omega) fuel pos hu
        rw [← h]
        exact withPrec_pos hest _ _ hp (implDivision_pos 1 pos.int (by norm_num) hpos _ _)
    · rename_i hnn
      cases hu : expUntrimmed cfg est x fuel with
      | none => rw [hu] at h; simp at h
      | some rr =>
        rw [hu] at h
        simp only [Option.map_some, Option.some.injEq] at h
        have hpos : 0 < rr.int := expUntrimmed_pos cfg hest hp x (by omega) fuel rr hu
        rw [← h]
        exact withPrec_pos hest _ _ hp hpos

end BigDec
