import BigDec.Model.Fmt
import BigDec.Proofs.Render
/-! `round_ascii_digits` (src/impl_fmt.rs) - the formatter's own rounding over big-endian ASCII
    digits with its carry through trailing nines - computes the declarative rounding `roundNat`.
    First over digit values (`roundBE`), then transported to characters. -/
namespace BigDec
open Fmt Spec Spec.Numeral Generated

theorem foldDigits_acc (ds : List Nat) (acc : Nat) :
    foldDigits ds acc = acc * 10 ^ ds.length + foldDigits ds 0 := by
  induction ds generalizing acc with
  | nil => simp [foldDigits]
  | cons d r ih =>
    show foldDigits r (acc * 10 + d) = _
    rw [ih, List.length_cons, Nat.pow_succ]
    show _ = acc * (10 ^ r.length * 10) + foldDigits r (0 * 10 + d)
    rw [ih (0 * 10 + d)]
    ring

theorem beVal_append (a b : List Nat) :
    digitsToNat (a ++ b) = digitsToNat a * 10 ^ b.length + digitsToNat b := by
  rw [digitsToNat_eq, foldDigits_append, foldDigits_acc, ← digitsToNat_eq, ← digitsToNat_eq]

theorem foldDigits_lt (ds : List Nat) (acc : Nat) (h : ∀ d ∈ ds, d < 10) :
    foldDigits ds acc < (acc + 1) * 10 ^ ds.length := by
  induction ds generalizing acc with
  | nil => simp [foldDigits]
  | cons d r ih =>
    have hd : d < 10 := h d (by simp)
    have := ih (acc * 10 + d) (fun x hx => h x (by simp [hx]))
    show foldDigits r (acc * 10 + d) < _
    rw [List.length_cons, Nat.pow_succ]
    calc foldDigits r (acc * 10 + d) < (acc * 10 + d + 1) * 10 ^ r.length := this
      _ ≤ ((acc + 1) * 10) * 10 ^ r.length := Nat.mul_le_mul_right _ (by omega)
      _ = (acc + 1) * (10 ^ r.length * 10) := by ring

theorem beVal_lt (ds : List Nat) (h : ∀ d ∈ ds, d < 10) : digitsToNat ds < 10 ^ ds.length := by
  have := foldDigits_lt ds 0 h
  rw [digitsToNat_eq]; simpa using this

theorem foldDigits_zero_iff (ds : List Nat) (acc : Nat) :
    foldDigits ds acc = 0 ↔ acc = 0 ∧ ds.all (· == 0) = true := by
  induction ds generalizing acc with
  | nil => simp [foldDigits]
  | cons d r ih =>
    show foldDigits r (acc * 10 + d) = 0 ↔ _
    rw [ih]
    simp only [List.all_cons, Bool.and_eq_true, beq_iff_eq]
    constructor
    · rintro ⟨h1, h2⟩; exact ⟨by omega, by omega, h2⟩
    · rintro ⟨h1, h2, h3⟩; exact ⟨by omega, h3⟩

theorem beVal_zero_iff (ds : List Nat) : (ds.all (· == 0)) = decide (digitsToNat ds = 0) := by
  have := foldDigits_zero_iff ds 0
  rw [digitsToNat_eq]
  by_cases h : foldDigits ds 0 = 0
  · simp [h, (this.mp h).2]
  · have : ¬ (ds.all (· == 0) = true) := fun hh => h (this.mpr ⟨rfl, hh⟩)
    simp [h, this]

theorem beVal_take_drop (ds : List Nat) (s : Nat) (h : ∀ d ∈ ds, d < 10) :
    digitsToNat (ds.take s) = digitsToNat ds / 10 ^ (ds.length - s) ∧
    digitsToNat (ds.drop s) = digitsToNat ds % 10 ^ (ds.length - s) := by
  have hsplit := beVal_append (ds.take s) (ds.drop s)
  rw [List.take_append_drop] at hsplit
  have hl : (ds.drop s).length = ds.length - s := by simp
  have hlt := beVal_lt (ds.drop s) (fun x hx => h x (List.mem_of_mem_drop hx))
  rw [hl] at hsplit hlt
  have hp : 0 < 10 ^ (ds.length - s) := by positivity
  constructor
  · rw [hsplit, Nat.mul_comm, Nat.mul_add_div hp, Nat.div_eq_of_lt hlt, Nat.add_zero]
  · rw [hsplit, Nat.mul_comm, Nat.mul_add_mod, Nat.mod_eq_of_lt hlt]

end BigDec

namespace BigDec
open Fmt Spec Spec.Numeral Generated

/-- `round_ascii_digits` over digit values -/
def roundBE (m : Mode) (neg : Bool) (ds : List Nat) (sig : Nat) : List Nat × Nat :=
  let insig := ds.drop sig
  let insigDigit := insig.headD 0
  let trailing := insig.drop 1
  let tz := needsTrailingZeros m insigDigit && trailing.all (· == 0)
  let sigDigit := (ds.take sig).getLastD 0
  let rounded := roundPair m neg sigDigit insigDigit tz
  let removed := insig.length
  let kept := ds.take (sig - 1)
  if rounded < 10 then (kept ++ [rounded], removed)
  else
    let stripped := (kept.reverse.dropWhile (· == 9)).reverse
    match stripped.reverse with
    | [] => ([1], removed + sig)
    | last :: restRev =>
      let nines := kept.length - stripped.length
      (restRev.reverse ++ [last + 1], removed + (nines + 1))

theorem dropWhile_nines (rl : List Nat) :
    rl = List.replicate (rl.length - (rl.dropWhile (· == 9)).length) 9 ++ rl.dropWhile (· == 9) ∧
    (rl.dropWhile (· == 9)).length ≤ rl.length ∧
    (rl.dropWhile (· == 9)).head? ≠ some 9 := by
  induction rl with
  | nil => simp
  | cons x xs ih =>
    by_cases hx : x = 9
    · subst hx
      have hd : (9 :: xs).dropWhile (· == 9) = xs.dropWhile (· == 9) := by simp [List.dropWhile_cons]
      rw [hd]
      obtain ⟨h1, h2, h3⟩ := ih
      refine ⟨?_, by simp; omega, h3⟩
      have : (9 :: xs).length - (xs.dropWhile (· == 9)).length = (xs.length - (xs.dropWhile (· == 9)).length) + 1 := by
        simp; omega
      rw [this, List.replicate_succ, List.cons_append, ← h1]
    · have hd : (x :: xs).dropWhile (· == 9) = x :: xs := by simp [List.dropWhile_cons, hx]
      rw [hd]
      refine ⟨by simp, by simp, ?_⟩
      simp [hx]

/-- stripping trailing nines: `l = stripped ++ 9…9`, and `stripped` does not end in 9 -/
theorem strip_nines (l : List Nat) :
    l = (l.reverse.dropWhile (· == 9)).reverse ++ List.replicate (l.length - (l.reverse.dropWhile (· == 9)).reverse.length) 9 ∧
    (l.reverse.dropWhile (· == 9)).length ≤ l.length ∧
    (l.reverse.dropWhile (· == 9)).head? ≠ some 9 := by
  obtain ⟨h1, h2, h3⟩ := dropWhile_nines l.reverse
  refine ⟨?_, by simpa using h2, h3⟩
  have h := congrArg List.reverse h1
  rw [List.reverse_reverse, List.reverse_append, List.reverse_replicate] at h
  simpa using h

theorem beVal_nines (j : Nat) : digitsToNat (List.replicate j 9) + 1 = 10 ^ j := by
  induction j with
  | zero => simp [digitsToNat]
  | succ j ih =>
    rw [List.replicate_succ', beVal_append]
    have : digitsToNat [9] = 9 := by simp [digitsToNat]
    rw [this, Nat.pow_succ]
    simp only [List.length_singleton, pow_one]
    omega

end BigDec

namespace BigDec
open Fmt Spec Spec.Numeral Generated

theorem beVal_singleton (d : Nat) : digitsToNat [d] = d := by simp [digitsToNat]

/-- **`round_ascii_digits` computes the declarative rounding.**  For big-endian digits `ds` of `N`
    cut after `sig` digits (`k = len − sig` dropped): the returned digits, shifted by the returned
    removed-count, are `roundNat m neg N k` shifted by `k`; all entries are digits. -/
theorem roundBE_spec (m : Mode) (neg : Bool) (ds : List Nat) (sig : Nat) (hds : ∀ d ∈ ds, d < 10)
    (h1 : 1 ≤ sig) (h2 : sig < ds.length) :
    digitsToNat (roundBE m neg ds sig).1 * 10 ^ (roundBE m neg ds sig).2 =
      roundNat m neg (digitsToNat ds) (ds.length - sig) * 10 ^ (ds.length - sig) ∧
    (∀ d ∈ (roundBE m neg ds sig).1, d < 10) ∧ ds.length - sig ≤ (roundBE m neg ds sig).2 ∧
    (roundBE m neg ds sig).1 ≠ [] ∧
    ((roundBE m neg ds sig).1.length + (roundBE m neg ds sig).2 = ds.length ∨
     ((roundBE m neg ds sig).1.length = 1 ∧ (roundBE m neg ds sig).2 = ds.length)) := by
  -- the pieces of the digit string
  obtain ⟨k, hk⟩ : ∃ k, ds.length - sig = k := ⟨_, rfl⟩
  have hk1 : 1 ≤ k := by omega
  obtain ⟨hq, hr⟩ := beVal_take_drop ds sig hds
  rw [hk] at hq hr
  -- insignificant part = low :: trailing
  have hdl : (ds.drop sig).length = k := by simp; omega
  obtain ⟨low, trailing, hins⟩ : ∃ low trailing, ds.drop sig = low :: trailing := by
    cases hd : ds.drop sig with
    | nil => rw [hd] at hdl; simp at hdl; omega
    | cons a b => exact ⟨a, b, rfl⟩
  have hlow : low < 10 := hds low (List.mem_of_mem_drop (by rw [hins]; simp))
  have htl : trailing.length = k - 1 := by rw [hins] at hdl; simp at hdl; omega
  have htr : ∀ d ∈ trailing, d < 10 := fun d hd => hds d (List.mem_of_mem_drop (by rw [hins]; simp [hd]))
  have htv := beVal_lt trailing htr
  rw [htl] at htv
  have hrval : digitsToNat ds % 10 ^ k = low * 10 ^ (k - 1) + digitsToNat trailing := by
    rw [← hr, hins]
    have := beVal_append [low] trailing
    rw [List.singleton_append, beVal_singleton, htl] at this
    exact this
  -- significant part = kept ++ [sigDigit]
  have htk : ds.take sig = ds.take (sig - 1) ++ [(ds.take sig).getLastD 0] := by
    have hne : ds.take sig ≠ [] := by
      intro hh
      have hlen : (ds.take sig).length = sig := by rw [List.length_take]; omega
      rw [hh] at hlen; simp at hlen; omega
    have h3 := List.dropLast_concat_getLast hne
    have h4 : (ds.take sig).dropLast = ds.take (sig - 1) := by
      rw [List.dropLast_eq_take, List.take_take]; simp; congr 1; omega
    rw [h4] at h3
    have h5 : (ds.take sig).getLastD 0 = (ds.take sig).getLast hne := by
      rw [List.getLastD_eq_getLast?, List.getLast?_eq_some_getLast hne]; rfl
    rw [h5]; exact h3.symm
  obtain ⟨sd, hsd⟩ : ∃ sd, (ds.take sig).getLastD 0 = sd := ⟨_, rfl⟩
  rw [hsd] at htk
  have hsdlt : sd < 10 := hds sd (List.mem_of_mem_take (by rw [htk]; simp))
  have hkept : ∀ d ∈ ds.take (sig - 1), d < 10 := fun d hd => hds d (List.mem_of_mem_take hd)
  have hqv : digitsToNat ds / 10 ^ k = digitsToNat (ds.take (sig - 1)) * 10 + sd := by
    rw [← hq, htk, beVal_append, beVal_singleton]; simp
  have hq10 : digitsToNat ds / 10 ^ k % 10 = sd := by omega
  -- the rounded digit
  have hround : roundPair m neg sd low (needsTrailingZeros m low && trailing.all (· == 0)) =
      sd + (if roundUpM m neg (digitsToNat ds / 10 ^ k) (digitsToNat ds % 10 ^ k) (10 ^ k) then 1 else 0) := by
    have g := roundPair_tz_guard m neg ⟨sd, hsdlt⟩ ⟨low, hlow⟩ (trailing.all (· == 0))
    simp only at g
    rw [g, beVal_zero_iff, ← hq10]
    have t := roundPair_tail m neg (digitsToNat ds / 10 ^ k) low (digitsToNat trailing) (10 ^ (k - 1))
      (by positivity) htv hlow
    rw [t, hrval]
    have : 10 * 10 ^ (k - 1) = 10 ^ k := by rw [← Nat.pow_succ']; congr 1; omega
    rw [this]
  obtain ⟨up, hup⟩ : ∃ up, (if roundUpM m neg (digitsToNat ds / 10 ^ k) (digitsToNat ds % 10 ^ k) (10 ^ k) then 1 else 0) = up := ⟨_, rfl⟩
  have hup01 : up = 0 ∨ up = 1 := by rw [← hup]; split <;> simp
  rw [hup] at hround
  have hrn : roundNat m neg (digitsToNat ds) k = digitsToNat (ds.take (sig - 1)) * 10 + sd + up := by
    unfold roundNat; rw [hup, hqv]
  -- unfold the function
  unfold roundBE
  simp only [hins, List.headD_cons, List.drop_one, List.tail_cons, hsd, hround, List.length_cons, hk]
  rw [hrn]
  have hlen : trailing.length + 1 = k := by omega
  by_cases hlt : sd + up < 10
  · rw [if_pos hlt]
    have hkl0 : (ds.take (sig - 1)).length = sig - 1 := by simp; omega
    refine ⟨?_, ?_, by simp; omega, by simp, Or.inl (by simp [hkl0]; omega)⟩
    · simp only [beVal_append, beVal_singleton, List.length_singleton, pow_one, hlen]; ring
    · intro d hd
      rcases List.mem_append.mp hd with h | h
      · exact hkept d h
      · simp at h; omega
  · rw [if_neg hlt]
    have hsd9 : sd = 9 := by omega
    have hup1 : up = 1 := by omega
    obtain ⟨hs1, hs2, hs3⟩ := strip_nines (ds.take (sig - 1))
    obtain ⟨j, hj⟩ : ∃ j, (ds.take (sig - 1)).length - ((ds.take (sig - 1)).reverse.dropWhile (· == 9)).reverse.length = j := ⟨_, rfl⟩
    rw [hj] at hs1
    have hkl : (ds.take (sig - 1)).length = sig - 1 := by simp; omega
    have hvk : digitsToNat (ds.take (sig - 1)) + 1 =
        (digitsToNat ((ds.take (sig - 1)).reverse.dropWhile (· == 9)).reverse + 1) * 10 ^ j := by
      conv => lhs; rw [hs1]
      rw [beVal_append, List.length_replicate]
      have := beVal_nines j
      rw [Nat.add_mul, Nat.one_mul]; omega
    simp only [List.reverse_reverse]
    cases hst : (ds.take (sig - 1)).reverse.dropWhile (· == 9) with
    | nil =>
      rw [hst] at hvk hj
      simp only [List.reverse_nil, List.length_nil, Nat.sub_zero] at hvk hj
      have hv0 : digitsToNat ([] : List Nat) = 0 := rfl
      rw [hv0] at hvk
      refine ⟨?_, by simp, by simp; omega, by simp, Or.inr ⟨by simp, by simp; omega⟩⟩
      simp only [beVal_singleton, hlen]
      have hj' : j = sig - 1 := by omega
      have : (digitsToNat (ds.take (sig - 1)) * 10 + sd + up) = 10 ^ sig := by
        have : 10 ^ sig = 10 ^ j * 10 := by rw [hj', ← Nat.pow_succ]; congr 1; omega
        rw [this]; omega
      rw [this, Nat.pow_add]; ring
    | cons last restRev =>
      rw [hst] at hvk hj hs3
      have hlast9 : last ≠ 9 := by intro hh; apply hs3; simp [hh]
      have hmem : last ∈ ds.take (sig - 1) := by
        have : last ∈ (ds.take (sig - 1)).reverse.dropWhile (· == 9) := by rw [hst]; simp
        exact List.mem_reverse.mp ((List.dropWhile_sublist _).subset this)
      have hlast : last < 10 := hkept last hmem
      simp only [List.reverse_cons, List.length_append, List.length_reverse, List.length_singleton] at hvk hj
      have hvs : digitsToNat (restRev.reverse ++ [last]) + 1 = digitsToNat (restRev.reverse ++ [last + 1]) := by
        simp only [beVal_append, beVal_singleton, List.length_singleton, pow_one]; ring
      have hs2' : restRev.length + 1 ≤ sig - 1 := by
        have := hs2; rw [hst] at this; simpa [hkl] using this
      refine ⟨?_, ?_, by simp; omega, by simp, Or.inl (by simp [hkl]; omega)⟩
      · simp only [List.length_cons, List.length_reverse]
        have hjj : (ds.take (sig - 1)).length - (restRev.length + 1) = j := by omega
        rw [hjj, ← hvs]
        have : digitsToNat (ds.take (sig - 1)) * 10 + sd + up = (digitsToNat (ds.take (sig - 1)) + 1) * 10 := by omega
        rw [this, hvk, hlen, Nat.pow_add, Nat.pow_add]; ring
      · intro d hd
        rcases List.mem_append.mp hd with h | h
        · have : d ∈ (ds.take (sig - 1)).reverse.dropWhile (· == 9) := by
            rw [hst]; simp [List.mem_reverse.mp h]
          exact hkept d (List.mem_reverse.mp ((List.dropWhile_sublist _).subset this))
        · simp at h; omega

end BigDec

namespace BigDec
open Fmt Spec Spec.Numeral Generated

theorem charDigit_digitChar (d : Nat) (h : d < 10) : charDigit (digitChar d) = d := by
  have : ∀ k : Fin 10, charDigit (digitChar k.val) = k.val := by decide
  exact this ⟨d, h⟩

theorem digitChar_eq_iff (a b : Nat) (ha : a < 10) (hb : b < 10) : (digitChar a == digitChar b) = (a == b) := by
  have : ∀ x y : Fin 10, (digitChar x.val == digitChar y.val) = (x.val == y.val) := by decide
  exact this ⟨a, ha⟩ ⟨b, hb⟩

theorem dropWhile_map_digit (l : List Nat) (h : ∀ d ∈ l, d < 10) :
    (l.map digitChar).dropWhile (· == '9') = (l.dropWhile (· == 9)).map digitChar := by
  induction l with
  | nil => rfl
  | cons x xs ih =>
    have hx := h x (by simp)
    have e : (digitChar x == '9') = (x == 9) := digitChar_eq_iff x 9 hx (by norm_num)
    simp only [List.map_cons, List.dropWhile_cons, e]
    split
    · exact ih (fun d hd => h d (by simp [hd]))
    · rfl

theorem all_map_digit_zero (l : List Nat) (h : ∀ d ∈ l, d < 10) :
    (l.map digitChar).all (· == '0') = l.all (· == 0) := by
  induction l with
  | nil => rfl
  | cons x xs ih =>
    have hx := h x (by simp)
    have e : (digitChar x == '0') = (x == 0) := digitChar_eq_iff x 0 hx (by norm_num)
    simp only [List.map_cons, List.all_cons, e, ih (fun d hd => h d (by simp [hd]))]

/-- the character-level routine is the digit-level one -/
theorem roundAscii_eq_roundBE (m : Mode) (neg : Bool) (ds : List Nat) (sig : Nat) (hds : ∀ d ∈ ds, d < 10) :
    roundAsciiDigits m neg (ds.map digitChar) sig =
      ((roundBE m neg ds sig).1.map digitChar, (roundBE m neg ds sig).2) := by
  have hdrop : ∀ d ∈ ds.drop sig, d < 10 := fun d hd => hds d (List.mem_of_mem_drop hd)
  have htake : ∀ d ∈ ds.take sig, d < 10 := fun d hd => hds d (List.mem_of_mem_take hd)
  have hkept : ∀ d ∈ ds.take (sig - 1), d < 10 := fun d hd => hds d (List.mem_of_mem_take hd)
  have hhead : charDigit (((ds.map digitChar).drop sig).headD '0') = (ds.drop sig).headD 0 := by
    rw [← List.map_drop]
    cases hd : ds.drop sig with
    | nil => rfl
    | cons a b => exact charDigit_digitChar a (hdrop a (by rw [hd]; simp))
  have hlast : charDigit (((ds.map digitChar).take sig).getLastD '0') = (ds.take sig).getLastD 0 := by
    rw [← List.map_take]
    rcases List.eq_nil_or_concat (ds.take sig) with h | ⟨l, a, h⟩
    · rw [h]; rfl
    · rw [h]
      simp only [List.concat_eq_append, List.map_append, List.map_cons, List.map_nil, List.getLastD_concat]
      exact charDigit_digitChar a (htake a (by rw [h]; simp))
  have htz : (((ds.map digitChar).drop sig).drop 1).all (· == '0') = ((ds.drop sig).drop 1).all (· == 0) := by
    rw [← List.map_drop, ← List.map_drop]
    exact all_map_digit_zero _ (fun d hd => hdrop d (List.mem_of_mem_drop hd))
  unfold roundAsciiDigits roundBE
  simp only [hhead, hlast, htz, List.length_drop, List.length_map]
  rw [← List.map_take]
  split
  · simp
  · rw [← List.map_reverse, dropWhile_map_digit _ (fun d hd => hkept d (List.mem_reverse.mp hd)), ← List.map_reverse]
    simp only [List.reverse_reverse, List.length_map]
    cases hst : (ds.take (sig - 1)).reverse.dropWhile (· == 9) with
    | nil => simp; decide
    | cons last rest =>
      have hl : last < 10 := by
        have : last ∈ (ds.take (sig - 1)).reverse.dropWhile (· == 9) := by rw [hst]; simp
        exact hkept last (List.mem_reverse.mp ((List.dropWhile_sublist _).subset this))
      simp [charDigit_digitChar last hl]

theorem natStr_eq_digitsBE (n : Nat) : natStr n = (digitsBE n).map digitChar := by
  unfold natStr digitsBE
  split <;> rfl

end BigDec
