import BigDec.Proofs.InvAccuracy
import Mathlib.Algebra.Order.Archimedean.Basic
/-! Termination of the reciprocal iteration: once the residual is small, every rounded Newton step
    lands in a set of at most two values, so the iterate repeats or alternates within three steps. -/
namespace BigDec
open Generated

/-- two decades that share a point coincide -/
theorem decade_unique (a b : Int) (v : ℚ) (ha1 : (10 : ℚ) ^ a ≤ v) (ha2 : v < (10 : ℚ) ^ (a + 1))
    (hb1 : (10 : ℚ) ^ b ≤ v) (hb2 : v < (10 : ℚ) ^ (b + 1)) : a = b := by
  have h1 : (10 : ℚ) ^ a < (10 : ℚ) ^ (b + 1) := lt_of_le_of_lt ha1 hb2
  have h2 : (10 : ℚ) ^ b < (10 : ℚ) ^ (a + 1) := lt_of_le_of_lt hb1 ha2
  have := (zpow_lt_zpow_iff_right₀ (by norm_num : (1 : ℚ) < 10)).mp h1
  have := (zpow_lt_zpow_iff_right₀ (by norm_num : (1 : ℚ) < 10)).mp h2
  omega

/-- **`with_prec` on a known decade**: a positive decimal whose value lies in
    `[10^(P-1)·10^-sc, 10^P·10^-sc)` is rounded to scale `sc` and to the integer `⌊v·10^sc + 1/2⌋` -/
theorem withPrec_on_decade {est : Nat → Nat} (hest : EstOK est) (d : Dec) (P : Nat) (hP : 1 ≤ P) (hd : 0 < d.int)
    (sc : Int) (h1 : (10 : ℚ) ^ ((P : Int) - 1 - sc) ≤ d.value) (h2 : d.value < (10 : ℚ) ^ ((P : Int) - sc)) :
    (d.withPrec est P).scale = sc ∧ (d.withPrec est P).int = ⌊d.value * (10 : ℚ) ^ sc + 1 / 2⌋ := by
  rw [withPrec_spec hest]
  have hn0 : d.int.natAbs ≠ 0 := by omega
  have hlow := pow_numDigits_le d.int.natAbs hn0
  have hhigh := lt_pow_numDigits d.int.natAbs
  have hndpos := numDigits_pos d.int.natAbs
  have hnat : (d.int : ℚ) = (d.int.natAbs : ℚ) := by
    rw [← Int.cast_natCast, Int.natAbs_of_nonneg (by omega)]
  -- the decade of d.value from its digit count
  have hv1 : (10 : ℚ) ^ ((numDigits d.int.natAbs : Int) - 1 - d.scale) ≤ d.value := by
    unfold Dec.value
    rw [zpow_sub₀ (by norm_num : (10 : ℚ) ≠ 0), div_eq_mul_inv, ← zpow_neg]
    apply mul_le_mul_of_nonneg_right _ (zpow_pos (by norm_num) _).le
    rw [hnat]
    have : ((numDigits d.int.natAbs : Int) - 1) = ((numDigits d.int.natAbs - 1 : Nat) : Int) := by omega
    rw [this, zpow_natCast]
    exact_mod_cast hlow
  have hv2 : d.value < (10 : ℚ) ^ ((numDigits d.int.natAbs : Int) - 1 - d.scale + 1) := by
    unfold Dec.value
    have : (numDigits d.int.natAbs : Int) - 1 - d.scale + 1 = (numDigits d.int.natAbs : Int) + (-d.scale) := by ring
    rw [this, zpow_add₀ (by norm_num : (10 : ℚ) ≠ 0), zpow_natCast]
    apply mul_lt_mul_of_pos_right _ (zpow_pos (by norm_num) _)
    rw [hnat]; exact_mod_cast hhigh
  have h2' : d.value < (10 : ℚ) ^ ((P : Int) - 1 - sc + 1) := by
    have : (P : Int) - 1 - sc + 1 = (P : Int) - sc := by ring
    rw [this]; exact h2
  have hdec := decade_unique _ _ d.value hv1 hv2 h1 h2'
  -- hence the rounding scale is sc
  have hns : d.scale + ((P : Int) - (numDigits d.int.natAbs : Int)) = sc := by omega
  unfold Spec.roundToPrec Spec.roundToScale
  rw [Spec.numDigits_eq_model]
  by_cases hcase : d.scale + ((P : Int) - (numDigits d.int.natAbs : Int)) ≥ d.scale
  · rw [if_pos hcase]
    refine ⟨hns, ?_⟩
    simp only
    obtain ⟨j, hj⟩ : ∃ j : Nat, (d.scale + ((P : Int) - (numDigits d.int.natAbs : Int)) - d.scale).toNat = j ∧ sc = d.scale + j :=
      ⟨(d.scale + ((P : Int) - (numDigits d.int.natAbs : Int)) - d.scale).toNat, rfl, by omega⟩
    rw [hj.1]
    -- d.value · 10^sc is the integer d.int · 10^j
    have hval : d.value * (10 : ℚ) ^ sc = ((d.int * ((10 ^ j : Nat) : Int) : Int) : ℚ) := by
      unfold Dec.value
      rw [hj.2, mul_assoc, ← zpow_add₀ (by norm_num : (10 : ℚ) ≠ 0)]
      have : -d.scale + (d.scale + (j : Int)) = (j : Int) := by ring
      rw [this, zpow_natCast]; push_cast; ring
    rw [hval, eq_comm, Int.floor_eq_iff]
    constructor <;> push_cast <;> linarith
  · rw [if_neg hcase]
    refine ⟨hns, ?_⟩
    obtain ⟨k, hk⟩ : ∃ k : Nat, (numDigits d.int.natAbs : Int) - P = k ∧ 1 ≤ k := ⟨numDigits d.int.natAbs - P, by omega, by omega⟩
    have hkk : (d.scale - (d.scale + ((P : Int) - (numDigits d.int.natAbs : Int)))).toNat = k := by omega
    rw [hkk]
    simp only
    have hr := Spec.round_halfUp d.int k
    rw [if_pos (by omega : 0 ≤ d.int)] at hr
    rw [hr]
    congr 2
    unfold Dec.value
    have : sc = d.scale - (k : Int) := by omega
    rw [this, mul_assoc, ← zpow_add₀ (by norm_num : (10 : ℚ) ≠ 0)]
    have : -d.scale + (d.scale - (k : Int)) = -(k : Int) := by ring
    rw [this, zpow_neg, zpow_natCast, div_eq_mul_inv]

/-- rounding to nearest takes at most two values on an interval shorter than one unit -/
theorem floor_two_values (Y ε v : ℚ) (hε1 : ε ≤ 1) (h1 : Y - ε ≤ v) (h2 : v ≤ Y) :
    ⌊v + 1 / 2⌋ = ⌊Y - ε + 1 / 2⌋ ∨ ⌊v + 1 / 2⌋ = ⌊Y - ε + 1 / 2⌋ + 1 := by
  have a1 : ⌊Y - ε + 1 / 2⌋ ≤ ⌊v + 1 / 2⌋ := Int.floor_le_floor (by linarith)
  have a2 : ⌊v + 1 / 2⌋ ≤ ⌊Y - ε + 1 / 2 + 1⌋ := Int.floor_le_floor (by linarith)
  rw [Int.floor_add_one] at a2
  omega

/-- the Newton step of an iterate with residual `e` is `(1 − e²)/x` -/
theorem invNext_value' (s b : Dec) (hs : 0 < s.value) :
    (invNext s b).value = (1 / s.value) * (1 - (1 - s.value * b.value) ^ 2) := by
  rw [invNext_value]; field_simp; ring

/-- `4ρ² = 10^(2−2P)` and its consequences for `P = p + 2 ≥ 3` -/
theorem four_rho_sq (p : Nat) (hp : 1 ≤ p) :
    (2 * invRho p) ^ 2 = (10 : ℚ) ^ (2 - 2 * ((p + inverseExtraPrec : Nat) : Int)) ∧
    (10 : ℚ) ^ ((p + inverseExtraPrec : Nat) : Int) * (2 * invRho p) ^ 2 ≤ 1 / 10 := by
  have hextra : inverseExtraPrec = 2 := rfl
  have ht : 2 * invRho p = (10 : ℚ) ^ (1 - ((p + inverseExtraPrec : Nat) : Int)) := by unfold invRho; ring
  have h1 : (2 * invRho p) ^ 2 = (10 : ℚ) ^ (2 - 2 * ((p + inverseExtraPrec : Nat) : Int)) := by
    rw [ht, ← zpow_natCast, ← zpow_mul]; congr 1; push_cast; ring
  refine ⟨h1, ?_⟩
  rw [h1, ← zpow_add₀ (by norm_num : (10 : ℚ) ≠ 0)]
  have h2 : (10 : ℚ) ^ (((p + inverseExtraPrec : Nat) : Int) + (2 - 2 * ((p + inverseExtraPrec : Nat) : Int))) ≤ (10 : ℚ) ^ (-1 : Int) :=
    zpow_le_zpow_right₀ (by norm_num) (by rw [hextra]; push_cast; omega)
  have e : (10 : ℚ) ^ (-1 : Int) = 1 / 10 := by norm_num
  rw [e] at h2; exact h2

/-- **all rounded Newton steps of close iterates lie in a set of at most two values** -/
theorem close_values_two_set {est : Nat → Nat} (hest : EstOK est) (s : Dec) (hs : 0 < s.value) (p : Nat) (hp : 1 ≤ p) :
    ∃ u v : ℚ, ∀ b : Dec, 0 < b.value → |1 - s.value * b.value| ≤ 2 * invRho p →
      ((invNext s b).withPrec est (p + inverseExtraPrec)).value = u ∨
      ((invNext s b).withPrec est (p + inverseExtraPrec)).value = v := by
  obtain ⟨hq, hPq⟩ := four_rho_sq p hp
  obtain ⟨hρ0, hρ⟩ := invRho_small p hp
  have hextra : inverseExtraPrec = 2 := rfl
  generalize hPdef : p + inverseExtraPrec = P at hq hPq ⊢
  have hP3 : 3 ≤ P := by omega
  generalize hqdef : (2 * invRho p) ^ 2 = q at hq hPq
  have hq0 : 0 ≤ q := by rw [← hqdef]; positivity
  have hPpos : (0 : ℚ) < (10 : ℚ) ^ (P : Int) := zpow_pos (by norm_num) _
  have hq10 : q ≤ 1 / 1000 := by
    have h1 : (1000 : ℚ) ≤ (10 : ℚ) ^ (P : Int) := by
      have h3 : (10 : ℚ) ^ (3 : Int) ≤ (10 : ℚ) ^ (P : Int) := zpow_le_zpow_right₀ (by norm_num) (by omega)
      have e3 : (10 : ℚ) ^ (3 : Int) = 1000 := by norm_num
      rw [e3] at h3; exact h3
    by_contra hc
    push Not at hc
    have : 1000 * (1 / 1000) < (10 : ℚ) ^ (P : Int) * q := by
      calc (1000 : ℚ) * (1 / 1000) < 1000 * q := by linarith
        _ ≤ (10 : ℚ) ^ (P : Int) * q := mul_le_mul_of_nonneg_right h1 hq0
    linarith
  -- y = 1/x and the interval [L, y] of all Newton steps of close iterates
  obtain ⟨y, hy⟩ : ∃ y : ℚ, y = 1 / s.value := ⟨_, rfl⟩
  have hypos : 0 < y := by rw [hy]; positivity
  have hstep : ∀ b : Dec, 0 < b.value → |1 - s.value * b.value| ≤ 2 * invRho p →
      y * (1 - q) ≤ (invNext s b).value ∧ (invNext s b).value ≤ y ∧ 0 < (invNext s b).int := by
    intro b hb heb
    rw [invNext_value' s b hs, ← hy]
    have hsq : (1 - s.value * b.value) ^ 2 ≤ q := by
      rw [← hqdef]
      have := abs_le.mp heb
      have h2 : 0 ≤ 2 * invRho p := by linarith
      nlinarith
    have hsq0 : 0 ≤ (1 - s.value * b.value) ^ 2 := sq_nonneg _
    refine ⟨mul_le_mul_of_nonneg_left (by linarith) hypos.le, by nlinarith, ?_⟩
    rw [← value_pos_iff, invNext_value' s b hs, ← hy]
    apply mul_pos hypos; linarith
  have hLpos : 0 < y * (1 - q) := mul_pos hypos (by linarith)
  obtain ⟨E, hE⟩ := exists_mem_Ico_zpow hLpos (by norm_num : (1 : ℚ) < 10)
  obtain ⟨hE1, hE2⟩ := hE
  by_cases hcase : y < (10 : ℚ) ^ (E + 1)
  · -- (i) all steps in the decade E
    refine ⟨(⌊y * (10 : ℚ) ^ ((P : Int) - 1 - E) - y * q * (10 : ℚ) ^ ((P : Int) - 1 - E) + 1 / 2⌋ : ℚ) * (10 : ℚ) ^ (-((P : Int) - 1 - E)),
      ((⌊y * (10 : ℚ) ^ ((P : Int) - 1 - E) - y * q * (10 : ℚ) ^ ((P : Int) - 1 - E) + 1 / 2⌋ + 1 : Int) : ℚ) * (10 : ℚ) ^ (-((P : Int) - 1 - E)), ?_⟩
    intro b hb heb
    obtain ⟨s1, s2, s3⟩ := hstep b hb heb
    have hd1 : (10 : ℚ) ^ ((P : Int) - 1 - ((P : Int) - 1 - E)) ≤ (invNext s b).value := by
      have : (P : Int) - 1 - ((P : Int) - 1 - E) = E := by ring
      rw [this]; exact le_trans hE1 s1
    have hd2 : (invNext s b).value < (10 : ℚ) ^ ((P : Int) - ((P : Int) - 1 - E)) := by
      have : (P : Int) - ((P : Int) - 1 - E) = E + 1 := by ring
      rw [this]; exact lt_of_le_of_lt s2 hcase
    obtain ⟨t1, t2⟩ := withPrec_on_decade hest (invNext s b) P (by omega) s3 ((P : Int) - 1 - E) hd1 hd2
    have hsc : (0 : ℚ) < (10 : ℚ) ^ ((P : Int) - 1 - E) := zpow_pos (by norm_num) _
    -- ε ≤ 1
    have hε : y * q * (10 : ℚ) ^ ((P : Int) - 1 - E) ≤ 1 := by
      have h1 : y * (10 : ℚ) ^ ((P : Int) - 1 - E) < (10 : ℚ) ^ (P : Int) := by
        calc y * (10 : ℚ) ^ ((P : Int) - 1 - E) < (10 : ℚ) ^ (E + 1) * (10 : ℚ) ^ ((P : Int) - 1 - E) := mul_lt_mul_of_pos_right hcase hsc
          _ = (10 : ℚ) ^ (P : Int) := by rw [← zpow_add₀ (by norm_num : (10 : ℚ) ≠ 0)]; congr 1; ring
      have h2 : y * q * (10 : ℚ) ^ ((P : Int) - 1 - E) = (y * (10 : ℚ) ^ ((P : Int) - 1 - E)) * q := by ring
      rw [h2]
      have h3 : (y * (10 : ℚ) ^ ((P : Int) - 1 - E)) * q ≤ (10 : ℚ) ^ (P : Int) * q := mul_le_mul_of_nonneg_right h1.le hq0
      linarith
    have hf1 : y * (10 : ℚ) ^ ((P : Int) - 1 - E) - y * q * (10 : ℚ) ^ ((P : Int) - 1 - E) ≤ (invNext s b).value * (10 : ℚ) ^ ((P : Int) - 1 - E) := by
      have := mul_le_mul_of_nonneg_right s1 hsc.le
      linarith
    have hf2 : (invNext s b).value * (10 : ℚ) ^ ((P : Int) - 1 - E) ≤ y * (10 : ℚ) ^ ((P : Int) - 1 - E) :=
      mul_le_mul_of_nonneg_right s2 hsc.le
    have h2v := floor_two_values _ _ _ hε hf1 hf2
    generalize (invNext s b).withPrec est P = R at t1 t2 ⊢
    unfold Dec.value
    rw [t1, t2]
    rcases h2v with h | h
    · left; rw [h]
    · right; rw [h]
  · -- (ii) a power of ten T = 10^(E+1) lies in (L, y]: every step rounds to T
    push Not at hcase
    refine ⟨(10 : ℚ) ^ (E + 1), (10 : ℚ) ^ (E + 1), ?_⟩
    intro b hb heb
    obtain ⟨s1, s2, s3⟩ := hstep b hb heb
    left
    -- y (1 - q) < T ≤ y
    have hyT : y * (1 - q) < (10 : ℚ) ^ (E + 1) := hE2
    have hTpos : (0 : ℚ) < (10 : ℚ) ^ (E + 1) := zpow_pos (by norm_num) _
    have hPm1 : (10 : ℚ) ^ ((P : Int) - 1) * q ≤ 1 / 100 := by
      have : (10 : ℚ) ^ (P : Int) = 10 * (10 : ℚ) ^ ((P : Int) - 1) := by
        rw [show (P : Int) = 1 + ((P : Int) - 1) by ring, zpow_add₀ (by norm_num : (10 : ℚ) ≠ 0)]; simp
      rw [this] at hPq; linarith
    by_cases hlow : (invNext s b).value < (10 : ℚ) ^ (E + 1)
    · -- below T: decade E, rounds up to 10^P units
      have hd1 : (10 : ℚ) ^ ((P : Int) - 1 - ((P : Int) - 1 - E)) ≤ (invNext s b).value := by
        have : (P : Int) - 1 - ((P : Int) - 1 - E) = E := by ring
        rw [this]; exact le_trans hE1 s1
      have hd2 : (invNext s b).value < (10 : ℚ) ^ ((P : Int) - ((P : Int) - 1 - E)) := by
        have : (P : Int) - ((P : Int) - 1 - E) = E + 1 := by ring
        rw [this]; exact hlow
      obtain ⟨t1, t2⟩ := withPrec_on_decade hest (invNext s b) P (by omega) s3 ((P : Int) - 1 - E) hd1 hd2
      have hsc : (0 : ℚ) < (10 : ℚ) ^ ((P : Int) - 1 - E) := zpow_pos (by norm_num) _
      have hTsc : (10 : ℚ) ^ (E + 1) * (10 : ℚ) ^ ((P : Int) - 1 - E) = (10 : ℚ) ^ (P : Int) := by
        rw [← zpow_add₀ (by norm_num : (10 : ℚ) ≠ 0)]; congr 1; ring
      have hfl : ⌊(invNext s b).value * (10 : ℚ) ^ ((P : Int) - 1 - E) + 1 / 2⌋ = ((10 : Int) ^ P) := by
        rw [Int.floor_eq_iff]
        have hup : (invNext s b).value * (10 : ℚ) ^ ((P : Int) - 1 - E) < (10 : ℚ) ^ (P : Int) := by
          rw [← hTsc]; exact mul_lt_mul_of_pos_right hlow hsc
        have hlo : (10 : ℚ) ^ (P : Int) - 1 / 10 ≤ (invNext s b).value * (10 : ℚ) ^ ((P : Int) - 1 - E) := by
          have h1 : (10 : ℚ) ^ (E + 1) * (1 - q) ≤ y * (1 - q) := mul_le_mul_of_nonneg_right hcase (by linarith)
          have h2 : (10 : ℚ) ^ (E + 1) * (1 - q) * (10 : ℚ) ^ ((P : Int) - 1 - E) ≤ (invNext s b).value * (10 : ℚ) ^ ((P : Int) - 1 - E) :=
            mul_le_mul_of_nonneg_right (le_trans h1 s1) hsc.le
          have h3 : (10 : ℚ) ^ (E + 1) * (1 - q) * (10 : ℚ) ^ ((P : Int) - 1 - E) = (10 : ℚ) ^ (P : Int) - (10 : ℚ) ^ (P : Int) * q := by
            rw [← hTsc]; ring
          linarith
        have hcast : (((10 : Int) ^ P : Int) : ℚ) = (10 : ℚ) ^ (P : Int) := by push_cast; rw [zpow_natCast]
        rw [hcast]
        constructor <;> linarith
      generalize (invNext s b).withPrec est P = R at t1 t2 ⊢
      unfold Dec.value
      rw [t1, t2, hfl]
      push_cast
      rw [← zpow_natCast, ← zpow_add₀ (by norm_num : (10 : ℚ) ≠ 0)]
      congr 1; ring
    · -- at or above T: decade E+1, rounds down to 10^(P-1) units
      push Not at hlow
      have hy2 : y < (10 : ℚ) ^ (E + 1 + 1) := by
        -- y (1 - q) < T and q ≤ 1/1000
        have : y * (999 / 1000) ≤ y * (1 - q) := mul_le_mul_of_nonneg_left (by linarith) hypos.le
        have h10 : (10 : ℚ) ^ (E + 1 + 1) = 10 * (10 : ℚ) ^ (E + 1) := by
          rw [zpow_add₀ (by norm_num : (10 : ℚ) ≠ 0) (E + 1) 1]; simp; ring
        rw [h10]; linarith
      have hd1 : (10 : ℚ) ^ ((P : Int) - 1 - ((P : Int) - 2 - E)) ≤ (invNext s b).value := by
        have : (P : Int) - 1 - ((P : Int) - 2 - E) = E + 1 := by ring
        rw [this]; exact hlow
      have hd2 : (invNext s b).value < (10 : ℚ) ^ ((P : Int) - ((P : Int) - 2 - E)) := by
        have : (P : Int) - ((P : Int) - 2 - E) = E + 1 + 1 := by ring
        rw [this]; exact lt_of_le_of_lt s2 hy2
      obtain ⟨t1, t2⟩ := withPrec_on_decade hest (invNext s b) P (by omega) s3 ((P : Int) - 2 - E) hd1 hd2
      have hsc : (0 : ℚ) < (10 : ℚ) ^ ((P : Int) - 2 - E) := zpow_pos (by norm_num) _
      have hTsc : (10 : ℚ) ^ (E + 1) * (10 : ℚ) ^ ((P : Int) - 2 - E) = (10 : ℚ) ^ ((P : Int) - 1) := by
        rw [← zpow_add₀ (by norm_num : (10 : ℚ) ≠ 0)]; congr 1; ring
      have hfl : ⌊(invNext s b).value * (10 : ℚ) ^ ((P : Int) - 2 - E) + 1 / 2⌋ = ((10 : Int) ^ (P - 1)) := by
        rw [Int.floor_eq_iff]
        have hlo : (10 : ℚ) ^ ((P : Int) - 1) ≤ (invNext s b).value * (10 : ℚ) ^ ((P : Int) - 2 - E) := by
          rw [← hTsc]; exact mul_le_mul_of_nonneg_right hlow hsc.le
        have hup : (invNext s b).value * (10 : ℚ) ^ ((P : Int) - 2 - E) ≤ (10 : ℚ) ^ ((P : Int) - 1) + 1 / 10 := by
          -- step ≤ y, y (1 - q) < T  ⇒  y < T (1 + 2q)
          have h1 : y ≤ (10 : ℚ) ^ (E + 1) * (1 + 2 * q) := by
            have hq1 : (1 - q) * (1 + 2 * q) ≥ 1 := by nlinarith
            have : y ≤ y * ((1 - q) * (1 + 2 * q)) := le_mul_of_one_le_right hypos.le hq1
            have h2 : y * ((1 - q) * (1 + 2 * q)) = y * (1 - q) * (1 + 2 * q) := by ring
            have h3 : y * (1 - q) * (1 + 2 * q) ≤ (10 : ℚ) ^ (E + 1) * (1 + 2 * q) :=
              mul_le_mul_of_nonneg_right hyT.le (by linarith)
            linarith
          have h2 : (invNext s b).value * (10 : ℚ) ^ ((P : Int) - 2 - E) ≤ (10 : ℚ) ^ (E + 1) * (1 + 2 * q) * (10 : ℚ) ^ ((P : Int) - 2 - E) :=
            mul_le_mul_of_nonneg_right (le_trans s2 h1) hsc.le
          have h3 : (10 : ℚ) ^ (E + 1) * (1 + 2 * q) * (10 : ℚ) ^ ((P : Int) - 2 - E) = (10 : ℚ) ^ ((P : Int) - 1) + 2 * ((10 : ℚ) ^ ((P : Int) - 1) * q) := by
            rw [← hTsc]; ring
          linarith
        have hcast : (((10 : Int) ^ (P - 1) : Int) : ℚ) = (10 : ℚ) ^ ((P : Int) - 1) := by
          push_cast; rw [← zpow_natCast]; congr 1; omega
        rw [hcast]
        constructor <;> linarith
      generalize (invNext s b).withPrec est P = R at t1 t2 ⊢
      unfold Dec.value
      rw [t1, t2, hfl]
      push_cast
      rw [← zpow_natCast, ← zpow_add₀ (by norm_num : (10 : ℚ) ≠ 0)]
      congr 1
      have : ((P - 1 : Nat) : Int) = (P : Int) - 1 := by omega
      rw [this]; ring

/-- one step of the loop, abstractly: the next iterate, its positivity and its residual -/
theorem loop_step {est : Nat → Nat} (hest : EstOK est) (s : Dec) (hs : 0 < s.value) (p : Nat) (hp : 1 ≤ p)
    (running : Dec) (hr : 0 < running.value) (he : |1 - s.value * running.value| ≤ 9 / 10) :
    0 < ((invNext s running).withPrec est (p + inverseExtraPrec)).value ∧
    |(1 - s.value * ((invNext s running).withPrec est (p + inverseExtraPrec)).value) - (1 - s.value * running.value) ^ 2| ≤ invRho p := by
  obtain ⟨hρ0, hρ⟩ := invRho_small p hp
  have hdv := invNext_value s running
  obtain ⟨e1, e2⟩ := abs_le.mp he
  have hdpos : 0 < (invNext s running).value := by rw [hdv]; apply mul_pos hr; linarith
  have hdint : 0 < (invNext s running).int := (value_pos_iff _).mp hdpos
  have hL1 := withPrec_rel_error hest (invNext s running) (p + inverseExtraPrec) (by omega) hdint
  rw [hdv] at hL1
  have hρeq : (1 / 2 * (10 : ℚ) ^ (1 - ((p + inverseExtraPrec : Nat) : Int))) = invRho p := rfl
  rw [hρeq] at hL1
  rcases residual_step s.value running.value _ (invRho p) hs hr he hρ0 hL1 with ⟨h1, h2⟩ | hbad
  · exact ⟨h2, h1⟩
  · exfalso; linarith

/-- unfolding of one loop iteration -/
theorem invLoop_succ (est : Nat → Nat) (s : Dec) (p fuel : Nat) (prev running : Dec) :
    invLoop est s p (fuel + 1) prev running =
      (if (Spec.valueEq ((invNext s running).withPrec est (p + inverseExtraPrec)) running ||
           Spec.valueEq ((invNext s running).withPrec est (p + inverseExtraPrec)) prev) = true
       then some ((invNext s running).withPrec est (p + inverseExtraPrec))
       else invLoop est s p fuel running ((invNext s running).withPrec est (p + inverseExtraPrec))) := by
  conv => lhs; unfold invLoop

/-- **final phase**: a close iterate whose value is one of the two possible values leads to an exit
    within two more steps -/
theorem final_phase {est : Nat → Nat} (hest : EstOK est) (s : Dec) (hs : 0 < s.value) (p : Nat) (hp : 1 ≤ p)
    (u v : ℚ)
    (huv : ∀ b : Dec, 0 < b.value → |1 - s.value * b.value| ≤ 2 * invRho p →
      ((invNext s b).withPrec est (p + inverseExtraPrec)).value = u ∨
      ((invNext s b).withPrec est (p + inverseExtraPrec)).value = v)
    (fuel : Nat) (hf : 2 ≤ fuel) (prev running : Dec) (hr : 0 < running.value)
    (he : |1 - s.value * running.value| ≤ 2 * invRho p) (hin : running.value = u ∨ running.value = v) :
    (invLoop est s p fuel prev running).isSome = true := by
  obtain ⟨hρ0, hρ⟩ := invRho_small p hp
  obtain ⟨f1, rfl⟩ : ∃ f1, fuel = f1 + 1 + 1 := ⟨fuel - 2, by omega⟩
  rw [invLoop_succ]
  have he9 : |1 - s.value * running.value| ≤ 9 / 10 := by linarith
  obtain ⟨hnpos, hnres⟩ := loop_step hest s hs p hp running hr he9
  have hnin := huv running hr he
  generalize (invNext s running).withPrec est (p + inverseExtraPrec) = nx at hnpos hnres hnin ⊢
  by_cases hexit : (Spec.valueEq nx running || Spec.valueEq nx prev) = true
  · rw [if_pos hexit]; rfl
  · rw [if_neg hexit]
    -- nx differs from running in value; nx is close
    have hne : nx.value ≠ running.value := by
      intro h
      have : Spec.valueEq nx running = true := (Spec.valueEq_iff _ _).mpr h
      simp [this] at hexit
    have hnclose : |1 - s.value * nx.value| ≤ 2 * invRho p := by
      have h1 := abs_sub_abs_le_abs_sub (1 - s.value * nx.value) ((1 - s.value * running.value) ^ 2)
      have h1' : |(1 - s.value * running.value) ^ 2| = (1 - s.value * running.value) ^ 2 := abs_of_nonneg (sq_nonneg _)
      rw [h1'] at h1
      have hsq : (1 - s.value * running.value) ^ 2 ≤ (2 * invRho p) ^ 2 := by
        have := abs_le.mp he
        have h2 : 0 ≤ 2 * invRho p := by linarith
        nlinarith
      have : (2 * invRho p) ^ 2 ≤ invRho p := by nlinarith
      linarith
    rw [invLoop_succ]
    have hn9 : |1 - s.value * nx.value| ≤ 9 / 10 := by linarith
    have hn2in := huv nx hnpos hnclose
    generalize (invNext s nx).withPrec est (p + inverseExtraPrec) = n2 at hn2in ⊢
    -- n2 ∈ {u, v} = {running, nx}
    have hcover : n2.value = nx.value ∨ n2.value = running.value := by
      rcases hin with h1 | h1 <;> rcases hnin with h2 | h2 <;> rcases hn2in with h3 | h3
      all_goals first
        | exact Or.inl (h3.trans h2.symm)
        | exact Or.inr (h3.trans h1.symm)
        | exact absurd (h2.trans h1.symm) hne
    have : (Spec.valueEq n2 nx || Spec.valueEq n2 running) = true := by
      rcases hcover with h | h
      · have : Spec.valueEq n2 nx = true := (Spec.valueEq_iff _ _).mpr h
        simp [this]
      · have : Spec.valueEq n2 running = true := (Spec.valueEq_iff _ _).mpr h
        simp [this]
    rw [if_pos this]; rfl

/-- bound on the residual `k` steps before it is known to be at most `2ρ` -/
def invBound (p k : Nat) : ℚ := invRho p * (8 / 9 * (10 : ℚ) ^ k + 10 / 9)

theorem invBound_zero (p : Nat) : invBound p 0 = 2 * invRho p := by unfold invBound; ring

theorem invBound_succ (p k : Nat) : invBound p (k + 1) / 10 + invRho p = invBound p k := by
  unfold invBound; rw [pow_succ]; ring

/-- the residual after one step, when it was at most `1/10` -/
theorem residual_next_small (e e' ρ : ℚ) (he : |e| ≤ 1 / 10) (hρ0 : 0 ≤ ρ) (h : |e' - e ^ 2| ≤ ρ) : |e'| ≤ |e| / 10 + ρ := by
  have h1 := abs_sub_abs_le_abs_sub e' (e ^ 2)
  have h1' : |e ^ 2| = |e| ^ 2 := abs_pow e 2
  rw [h1'] at h1
  have h0 := abs_nonneg e
  nlinarith

/-- **second phase**: from a residual of at most `1/10`, bounded by `invBound p k`, the loop exits
    within `k + 3` steps -/
theorem phase2 {est : Nat → Nat} (hest : EstOK est) (s : Dec) (hs : 0 < s.value) (p : Nat) (hp : 1 ≤ p)
    (u v : ℚ)
    (huv : ∀ b : Dec, 0 < b.value → |1 - s.value * b.value| ≤ 2 * invRho p →
      ((invNext s b).withPrec est (p + inverseExtraPrec)).value = u ∨
      ((invNext s b).withPrec est (p + inverseExtraPrec)).value = v) (k : Nat) :
    ∀ (fuel : Nat) (prev running : Dec), k + 3 ≤ fuel → 0 < running.value →
      |1 - s.value * running.value| ≤ 1 / 10 → |1 - s.value * running.value| ≤ invBound p k →
      (invLoop est s p fuel prev running).isSome = true := by
  obtain ⟨hρ0, hρ⟩ := invRho_small p hp
  induction k with
  | zero =>
    intro fuel prev running hf hr he10 heB
    rw [invBound_zero] at heB
    obtain ⟨f1, rfl⟩ : ∃ f1, fuel = f1 + 1 := ⟨fuel - 1, by omega⟩
    rw [invLoop_succ]
    obtain ⟨hnpos, hnres⟩ := loop_step hest s hs p hp running hr (by linarith)
    have hnin := huv running hr heB
    generalize (invNext s running).withPrec est (p + inverseExtraPrec) = nx at hnpos hnres hnin ⊢
    by_cases hexit : (Spec.valueEq nx running || Spec.valueEq nx prev) = true
    · rw [if_pos hexit]; rfl
    · rw [if_neg hexit]
      have hnclose : |1 - s.value * nx.value| ≤ 2 * invRho p := by
        have := residual_next_small _ _ _ he10 hρ0 hnres
        linarith
      exact final_phase hest s hs p hp u v huv f1 (by omega) running nx hnpos hnclose hnin
  | succ k ih =>
    intro fuel prev running hf hr he10 heB
    obtain ⟨f1, rfl⟩ : ∃ f1, fuel = f1 + 1 := ⟨fuel - 1, by omega⟩
    rw [invLoop_succ]
    obtain ⟨hnpos, hnres⟩ := loop_step hest s hs p hp running hr (by linarith)
    generalize (invNext s running).withPrec est (p + inverseExtraPrec) = nx at hnpos hnres ⊢
    by_cases hexit : (Spec.valueEq nx running || Spec.valueEq nx prev) = true
    · rw [if_pos hexit]; rfl
    · rw [if_neg hexit]
      have hstep := residual_next_small _ _ _ he10 hρ0 hnres
      apply ih f1 running nx (by omega) hnpos
      · linarith
      · rw [← invBound_succ]; linarith

/-- first phase: concrete bounds from 9/10 down to 1/10 in five steps -/
def invC1 : Nat → ℚ
  | 0 => 1 / 10
  | 1 => 2112 / 10000
  | 2 => 454 / 1000
  | 3 => 67 / 100
  | 4 => 163 / 200
  | _ => 9 / 10

theorem invC1_step (j : Nat) (hj : j < 5) : invC1 (j + 1) ^ 2 + 1 / 200 ≤ invC1 j := by
  interval_cases j <;> norm_num [invC1]

theorem invC1_le (j : Nat) : invC1 j ≤ 9 / 10 ∧ 0 ≤ invC1 j := by
  unfold invC1; split <;> norm_num

/-- `invBound p P ≥ 1/10` for `P = p + 2` -/
theorem invBound_large (p : Nat) : 1 / 10 ≤ invBound p (p + inverseExtraPrec) := by
  unfold invBound invRho
  have h : (10 : ℚ) ^ (1 - ((p + inverseExtraPrec : Nat) : Int)) * (10 : ℚ) ^ (p + inverseExtraPrec) = 10 := by
    rw [← zpow_natCast, ← zpow_add₀ (by norm_num : (10 : ℚ) ≠ 0)]
    have : (1 - ((p + inverseExtraPrec : Nat) : Int)) + ((p + inverseExtraPrec : Nat) : Int) = 1 := by ring
    rw [this]; norm_num
  have hpos : (0 : ℚ) < (10 : ℚ) ^ (1 - ((p + inverseExtraPrec : Nat) : Int)) := zpow_pos (by norm_num) _
  nlinarith

theorem phase1 {est : Nat → Nat} (hest : EstOK est) (s : Dec) (hs : 0 < s.value) (p : Nat) (hp : 1 ≤ p)
    (u v : ℚ)
    (huv : ∀ b : Dec, 0 < b.value → |1 - s.value * b.value| ≤ 2 * invRho p →
      ((invNext s b).withPrec est (p + inverseExtraPrec)).value = u ∨
      ((invNext s b).withPrec est (p + inverseExtraPrec)).value = v) (j : Nat) (hj : j ≤ 5) :
    ∀ (fuel : Nat) (prev running : Dec), j + (p + inverseExtraPrec + 3) ≤ fuel → 0 < running.value →
      |1 - s.value * running.value| ≤ invC1 j →
      (invLoop est s p fuel prev running).isSome = true := by
  obtain ⟨hρ0, hρ⟩ := invRho_small p hp
  induction j with
  | zero =>
    intro fuel prev running hf hr he
    have he10 : |1 - s.value * running.value| ≤ 1 / 10 := he
    exact phase2 hest s hs p hp u v huv (p + inverseExtraPrec) fuel prev running (by omega) hr he10
      (le_trans he10 (invBound_large p))
  | succ j ih =>
    intro fuel prev running hf hr he
    obtain ⟨f1, rfl⟩ : ∃ f1, fuel = f1 + 1 := ⟨fuel - 1, by omega⟩
    rw [invLoop_succ]
    obtain ⟨hc9, hc0⟩ := invC1_le (j + 1)
    obtain ⟨hnpos, hnres⟩ := loop_step hest s hs p hp running hr (le_trans he hc9)
    generalize (invNext s running).withPrec est (p + inverseExtraPrec) = nx at hnpos hnres ⊢
    by_cases hexit : (Spec.valueEq nx running || Spec.valueEq nx prev) = true
    · rw [if_pos hexit]; rfl
    · rw [if_neg hexit]
      apply ih (by omega) f1 running nx (by omega) hnpos
      have h1 := abs_sub_abs_le_abs_sub (1 - s.value * nx.value) ((1 - s.value * running.value) ^ 2)
      have h1' : |(1 - s.value * running.value) ^ 2| = |1 - s.value * running.value| ^ 2 := abs_pow _ 2
      rw [h1'] at h1
      have hsq : |1 - s.value * running.value| ^ 2 ≤ invC1 (j + 1) ^ 2 :=
        pow_le_pow_left₀ (abs_nonneg _) he 2
      have := invC1_step j (by omega)
      linarith

end BigDec
