import BigDec.Proofs.FmtExp
/-! `{:.Ne}` / `{:.NE}`: the mantissa has exactly one digit before the point and exactly `N` after it. -/
namespace BigDec
open Fmt Spec Spec.Numeral Generated

/-- a decimal digit character -/
def IsDigitChar (c : Char) : Prop := ∃ d, d < 10 ∧ c = digitChar d

theorem natStr_digits (n : Nat) : ∀ c ∈ natStr n, IsDigitChar c := by
  intro c hc
  rw [natStr_eq_digitsBE] at hc
  obtain ⟨d, hd, rfl⟩ := List.mem_map.mp hc
  exact ⟨d, digitsBE_lt n d hd, rfl⟩

theorem zeros_digits (k : Nat) : ∀ c ∈ zeros k, IsDigitChar c := by
  intro c hc
  unfold zeros at hc
  rw [List.mem_replicate] at hc
  exact ⟨0, by norm_num, by rw [hc.2]; rfl⟩

/-- the last step of `exponentialText`: point, padding zeros, exponent -/
def expAssemble (ds : List Char) (e' : Int) (extra : Nat) (eSym : Char) : List Char :=
  (if (decide (ds.length > 1) || decide (extra > 0)) then ds.take 1 ++ ['.'] ++ ds.drop 1 else ds) ++ zeros extra ++ [eSym] ++
    intStrPlus ((ds.length : Int) + e' - 1)

theorem expAssemble_shape (N : Nat) (ds : List Char) (e' : Int) (extra : Nat) (eSym : Char) (hne : ds ≠ [])
    (hlen : ds.length + extra = N + 1) (hdig : ∀ c ∈ ds, IsDigitChar c) :
    ∃ (c0 : Char) (frac : List Char) (e : Int),
      expAssemble ds e' extra eSym = [c0] ++ (if N = 0 then [] else '.' :: frac) ++ [eSym] ++ intStrPlus e ∧
      frac.length = N ∧ IsDigitChar c0 ∧ ∀ c ∈ frac, IsDigitChar c := by
  obtain ⟨c0, rest, rfl⟩ : ∃ c0 rest, ds = c0 :: rest := by
    cases ds with
    | nil => exact absurd rfl hne
    | cons a b => exact ⟨a, b, rfl⟩
  refine ⟨c0, rest ++ zeros extra, ((c0 :: rest).length : Int) + e' - 1, ?_, ?_, hdig c0 (by simp), ?_⟩
  · unfold expAssemble
    by_cases hN : N = 0
    · subst hN
      have hr : rest = [] := by
        simp only [List.length_cons] at hlen
        exact List.eq_nil_of_length_eq_zero (by omega)
      have hx : extra = 0 := by simp only [List.length_cons] at hlen; omega
      subst hr; subst hx
      simp [zeros]
    · have hcond : (decide ((c0 :: rest).length > 1) || decide (extra > 0)) = true := by
        simp only [List.length_cons] at hlen ⊢
        simp only [Bool.or_eq_true, decide_eq_true_eq]
        omega
      rw [hcond]
      simp [hN]
  · simp only [List.length_cons] at hlen
    simp only [List.length_append, zeros, List.length_replicate]
    omega
  · intro c hc
    rcases List.mem_append.mp hc with h | h
    · exact hdig c (by simp [h])
    · exact zeros_digits extra c h

/-- `exponentialText` with a precision, as rounding followed by `expAssemble` -/
theorem exponentialText_eq (cfg : Config) (neg : Bool) (n : Nat) (scale : Int) (N : Nat) (eSym : Char) :
    exponentialText cfg neg n scale (some N) eSym =
      if N + 1 < (natStr n).length then
        expAssemble (roundAsciiDigits cfg.mode neg (natStr n) (N + 1)).1
          (-scale + (roundAsciiDigits cfg.mode neg (natStr n) (N + 1)).2)
          ((N + 1) - (roundAsciiDigits cfg.mode neg (natStr n) (N + 1)).1.length) eSym
      else expAssemble (natStr n) (-scale) ((N + 1) - (natStr n).length) eSym := by
  unfold exponentialText expAssemble
  simp only
  split <;> rfl

/-- **shape of the `{:.Ne}` text**: one digit, then (when `N > 0`) a point and exactly `N` digits,
    then the exponent marker and a signed exponent -/
theorem exponentialText_shape (cfg : Config) (neg : Bool) (n : Nat) (scale : Int) (N : Nat) (eSym : Char) :
    ∃ (c0 : Char) (frac : List Char) (e : Int),
      exponentialText cfg neg n scale (some N) eSym =
        [c0] ++ (if N = 0 then [] else '.' :: frac) ++ [eSym] ++ intStrPlus e ∧
      frac.length = N ∧ IsDigitChar c0 ∧ ∀ c ∈ frac, IsDigitChar c := by
  rw [exponentialText_eq]
  by_cases hcut : N + 1 < (natStr n).length
  · rw [if_pos hcut]
    have hds := digitsBE_lt n
    rw [natStr_eq_digitsBE, List.length_map] at hcut
    obtain ⟨_, hd, hrem, hne, hshape⟩ := roundBE_spec cfg.mode neg (digitsBE n) (N + 1) hds (by omega) hcut
    have hr := roundAscii_eq_roundBE cfg.mode neg (digitsBE n) (N + 1) hds
    rw [natStr_eq_digitsBE, hr]
    generalize roundBE cfg.mode neg (digitsBE n) (N + 1) = R at hd hrem hne hshape ⊢
    obtain ⟨R1, R2⟩ := R
    simp only at hd hrem hne hshape ⊢
    have hle : R1.length ≤ N + 1 := by
      rcases hshape with h | h <;> omega
    exact expAssemble_shape N _ _ _ eSym
      (by intro hc; exact hne (List.map_eq_nil_iff.mp hc))
      (by rw [List.length_map]; omega)
      (by
        intro c hc
        obtain ⟨d, hdm, rfl⟩ := List.mem_map.mp hc
        exact ⟨d, hd d hdm, rfl⟩)
  · rw [if_neg hcut]
    have hne : natStr n ≠ [] := by
      intro hc
      have h1 : (natStr n).length = numDigits n := by rw [natStr_eq_digitsBE, List.length_map, digitsBE_length]
      rw [hc] at h1
      have := numDigits_pos n
      simp at h1
      omega
    exact expAssemble_shape N _ _ _ eSym hne (by omega) (natStr_digits n)

end BigDec
