import BigDec.Proofs.F64Est
/-! The rounding primitive returns infinity only at or above the overflow threshold
    `2^1024 - 2^970` (half a unit in the last place above the largest finite double). -/
namespace BigDec.F64

/-- the overflow threshold -/
def ovf : ℚ := (2 : ℚ) ^ (1024 : Int) - (2 : ℚ) ^ (970 : Int)

theorem rne_inf_large (a b : Nat) (ha : 0 < a) (hb : 0 < b) (h : rne a b = inf) : ovf ≤ (a : ℚ) / b := by
  have two_ne : (2 : ℚ) ≠ 0 := by norm_num
  have hbq : (0 : ℚ) < b := by exact_mod_cast hb
  obtain ⟨h1, h2⟩ := ilog2Ratio_bounds a b ha hb
  obtain ⟨s1, s2⟩ := sigOf_range a b ha hb
  have hnear := sigOf_near a b hb (ilog2Ratio a b)
  rw [rne_unfold a b ha] at h
  by_contra hq
  push Not at hq
  unfold ovf at hq
  have h970 : (0 : ℚ) < (2 : ℚ) ^ (970 : Int) := two_zpow_pos _
  -- e ≤ 1023
  have he_hi : ilog2Ratio a b ≤ 1023 := by
    by_contra hc
    have h3 : (2 : ℚ) ^ (1024 : Int) ≤ (2 : ℚ) ^ (ilog2Ratio a b) := zpow_le_zpow_right₀ (by norm_num) (by omega)
    have h4 : (a : ℚ) / b < (2 : ℚ) ^ (1024 : Int) := lt_of_lt_of_le hq (sub_le_self _ h970.le)
    exact absurd (le_trans h3 h1) (not_le.mpr h4)
  by_cases hsub : ilog2Ratio a b < -1022
  · -- subnormal branch: the rounded integer is at most 2^52
    rw [if_pos hsub] at h
    have hqlt : (a : ℚ) / b < (2 : ℚ) ^ (-1022 : Int) :=
      lt_of_lt_of_le h2 (zpow_le_zpow_right₀ (by norm_num) (by omega))
    have hab : a * 2 ^ 1022 < b := by
      have e : (2 : ℚ) ^ (-1022 : Int) = 1 / ((2 ^ 1022 : Nat) : ℚ) := by
        rw [zpow_neg, show (1022 : Int) = ((1022 : Nat) : Int) by rfl, zpow_natCast, one_div, Nat.cast_pow, Nat.cast_ofNat]
      rw [e, div_lt_div_iff₀ hbq (by positivity), one_mul] at hqlt
      exact_mod_cast hqlt
    obtain ⟨r1, _⟩ := rneInt_spec (a * 2 ^ 1074) b hb
    have e74 : a * 2 ^ 1074 = a * 2 ^ 1022 * 2 ^ 52 := by rw [Nat.mul_assoc, ← pow_add]
    rw [e74] at r1 h
    generalize a * 2 ^ 1022 = A at hab r1 h
    generalize hM : rneInt (A * 2 ^ 52) b = M at r1 h
    have hMle : M ≤ 2 ^ 52 := by
      by_contra hc
      have h4 : (2 ^ 52 + 1) * b ≤ M * b := Nat.mul_le_mul_right b (by omega)
      have h3 : A * 2 ^ 52 < b * 2 ^ 52 := Nat.mul_lt_mul_of_pos_right hab (by positivity)
      generalize (2 : Nat) ^ 52 = P at h4 h3 r1
      have e : (P + 1) * b = b * P + b := by ring
      rw [e] at h4
      generalize M * b = X at h4 r1
      generalize A * P = Y at h3 r1
      generalize b * P = Z at h3 h4
      omega
    unfold inf at h
    omega
  · rw [if_neg hsub] at h
    generalize hE : ilog2Ratio a b = e at *
    generalize hS : sigOf a b e = sg at *
    obtain ⟨E, hEE⟩ : ∃ E : Nat, e + 1023 = E := ⟨(e + 1023).toNat, by omega⟩
    by_cases hs : sg = 2 ^ 53
    · have hb1 : (sg == 2 ^ 53) = true := by simpa using hs
      simp only [hb1, if_true] at h
      by_cases he : e = 1023
      · -- the significand rounded up to 2^53 at the top exponent: q ≥ 2^1024 - 2^970
        subst he
        rw [hs] at hnear
        have hl := (abs_le.mp hnear).2
        have e1 : (52 : Int) - 1023 = -971 := by norm_num
        rw [e1] at hl
        -- 2^53 - 1/2 ≤ q · 2^-971
        have hmul : ((2 : ℚ) ^ (53 : Nat) - 1 / 2) * (2 : ℚ) ^ (971 : Int) ≤ (a : ℚ) / b := by
          have h971 : (0 : ℚ) < (2 : ℚ) ^ (971 : Int) := two_zpow_pos _
          have := mul_le_mul_of_nonneg_right (by push_cast at hl ⊢; linarith : (2 : ℚ) ^ (53 : Nat) - 1 / 2 ≤ (a : ℚ) / b * (2 : ℚ) ^ (-971 : Int)) h971.le
          rw [mul_assoc, ← zpow_add₀ two_ne] at this
          simpa using this
        have e2 : ((2 : ℚ) ^ (53 : Nat) - 1 / 2) * (2 : ℚ) ^ (971 : Int) = (2 : ℚ) ^ (1024 : Int) - (2 : ℚ) ^ (970 : Int) := by
          rw [sub_mul, ← zpow_natCast (2 : ℚ) 53, ← zpow_add₀ two_ne]
          have : (1 / 2 : ℚ) = (2 : ℚ) ^ (-1 : Int) := by norm_num
          rw [this, ← zpow_add₀ two_ne]
          norm_num
        rw [e2] at hmul
        exact absurd hmul (not_le.mpr hq)
      · rw [if_neg (by omega)] at h
        have : (e + 1 + 1023).toNat = E + 1 := by omega
        rw [this] at h
        unfold inf at h; omega
    · have hb1 : (sg == 2 ^ 53) = false := by simpa using hs
      simp only [hb1, Bool.false_eq_true, if_false] at h
      rw [if_neg (by omega)] at h
      have : (e + 1023).toNat = E := by omega
      rw [this] at h
      unfold inf at h; omega

end BigDec.F64
