import BigDec.Proofs.F64Round
/-! The `powi` path of `to_f64`: `BigUint::to_f64(m) * powi(10.0, k)`.
    * `powi_table`: for every `k ≤ 308` the repeated-squaring `powi(10, k)` is finite and within
      7·2^-53 (relative) of `10^k` - the finitely many cases are evaluated by the kernel;
    * `mul_spec`: an IEEE multiplication of two finite positive doubles is the correctly rounded
      product (from `rne_spec`);
    * `powi_path`: the composed result is infinity or within `2^-48` (relative) of `m · 10^k`. -/
namespace BigDec.F64

/-- `|val(powi 10 k) − 10^k| · 2^53 ≤ c · 10^k` and the result is finite -/
def powiErrOK (k c : Nat) : Bool :=
  let P := powi ten k
  P != inf &&
  (let a := (val P).1; let b := (val P).2
   decide (0 < a) && decide (a * 2 ^ 53 ≤ (2 ^ 53 + c) * (10 ^ k * b)) && decide ((2 ^ 53 - c) * (10 ^ k * b) ≤ a * 2 ^ 53))

theorem powi_table : ∀ k, k ≤ 308 → powiErrOK k 7 = true := by decide +kernel

end BigDec.F64

namespace BigDec.F64

theorem val_den_pos (bits : Nat) : 0 < (val bits).2 := by
  unfold val
  simp only
  split
  · positivity
  · split <;> simp only <;> positivity

/-- the table, over ℚ: `powi(10, k)` is a finite positive double within 7·2^-53 of `10^k` -/
theorem powi_err (k : Nat) (hk : k ≤ 308) :
    powi ten k ≠ inf ∧ 0 < (val (powi ten k)).1 ∧
    |valQ (powi ten k) - (10 : ℚ) ^ k| ≤ (10 : ℚ) ^ k * (7 * (2 : ℚ) ^ (-53 : Int)) := by
  have h := powi_table k hk
  unfold powiErrOK at h
  simp only [Bool.and_eq_true, bne_iff_ne, ne_eq, decide_eq_true_eq] at h
  obtain ⟨hne, ⟨hpos, hup⟩, hlow⟩ := h
  refine ⟨hne, hpos, ?_⟩
  have hb := val_den_pos (powi ten k)
  have hbq : (0 : ℚ) < ((val (powi ten k)).2 : ℚ) := by exact_mod_cast hb
  have hupq : ((val (powi ten k)).1 : ℚ) * 2 ^ 53 ≤ (2 ^ 53 + 7) * ((10 : ℚ) ^ k * ((val (powi ten k)).2 : ℚ)) := by
    exact_mod_cast hup
  have hlowq : ((2 : ℚ) ^ 53 - 7) * ((10 : ℚ) ^ k * ((val (powi ten k)).2 : ℚ)) ≤ ((val (powi ten k)).1 : ℚ) * 2 ^ 53 := by
    have : ((2 ^ 53 - 7 : Nat) : ℚ) = (2 : ℚ) ^ 53 - 7 := by
      rw [Nat.cast_sub (by norm_num)]; push_cast; ring
    rw [← this]; exact_mod_cast hlow
  unfold valQ
  set a := ((val (powi ten k)).1 : ℚ) with ha
  set b := ((val (powi ten k)).2 : ℚ) with hb'
  have e53 : (2 : ℚ) ^ (-53 : Int) = 1 / 2 ^ 53 := by
    rw [zpow_neg, show (53 : Int) = ((53 : Nat) : Int) by rfl, zpow_natCast, one_div]
  rw [e53, abs_le]
  have h53 : (0 : ℚ) < 2 ^ 53 := by positivity
  have hT : (0 : ℚ) < (10 : ℚ) ^ k := by positivity
  constructor
  · rw [le_sub_iff_add_le, ← sub_eq_neg_add, le_div_iff₀ hbq]
    have : ((10 : ℚ) ^ k - (10 : ℚ) ^ k * (7 * (1 / 2 ^ 53))) * b = ((2 : ℚ) ^ 53 - 7) * ((10 : ℚ) ^ k * b) / 2 ^ 53 := by
      field_simp
    rw [this, div_le_iff₀ h53]
    exact hlowq
  · rw [sub_le_iff_le_add, div_le_iff₀ hbq]
    have : ((10 : ℚ) ^ k * (7 * (1 / 2 ^ 53)) + (10 : ℚ) ^ k) * b = ((2 : ℚ) ^ 53 + 7) * ((10 : ℚ) ^ k * b) / 2 ^ 53 := by
      field_simp; ring
    rw [this, le_div_iff₀ h53]
    exact hupq

end BigDec.F64

namespace BigDec.F64

/-- composing three relative errors: `x ≈ N` (u), `y ≈ T` (7u), `r ≈ x·y` (u) gives `r ≈ N·T` (10u) -/
theorem err_compose (N T x y r u : ℚ) (hN : 0 < N) (hT : 0 < T) (hu0 : 0 ≤ u) (hu : u ≤ 1 / 1000)
    (hx : |x - N| ≤ N * u) (hy : |y - T| ≤ T * (7 * u)) (hr : |r - x * y| ≤ x * y * u) :
    |r - N * T| ≤ N * T * (10 * u) := by
  have hNT : 0 < N * T := mul_pos hN hT
  have h1 : |x * y - N * T| ≤ N * T * (8 * u + 7 * u ^ 2) := by
    have e : x * y - N * T = N * (y - T) + T * (x - N) + (x - N) * (y - T) := by ring
    rw [e]
    have a1 : |N * (y - T)| ≤ N * (T * (7 * u)) := by
      rw [abs_mul, abs_of_pos hN]; exact mul_le_mul_of_nonneg_left hy hN.le
    have a2 : |T * (x - N)| ≤ T * (N * u) := by
      rw [abs_mul, abs_of_pos hT]; exact mul_le_mul_of_nonneg_left hx hT.le
    have a3 : |(x - N) * (y - T)| ≤ (N * u) * (T * (7 * u)) := by
      rw [abs_mul]; exact mul_le_mul hx hy (abs_nonneg _) (by positivity)
    calc |N * (y - T) + T * (x - N) + (x - N) * (y - T)|
        ≤ |N * (y - T) + T * (x - N)| + |(x - N) * (y - T)| := abs_add_le _ _
      _ ≤ |N * (y - T)| + |T * (x - N)| + |(x - N) * (y - T)| := by
          have := abs_add_le (N * (y - T)) (T * (x - N)); linarith
      _ ≤ N * (T * (7 * u)) + T * (N * u) + (N * u) * (T * (7 * u)) := by linarith
      _ = N * T * (8 * u + 7 * u ^ 2) := by ring
  have h2 : x * y ≤ N * T * (1 + 8 * u + 7 * u ^ 2) := by
    have := (abs_le.mp h1).2; nlinarith
  have h3 : |r - N * T| ≤ |r - x * y| + |x * y - N * T| := by
    have := abs_add_le (r - x * y) (x * y - N * T)
    have e : r - x * y + (x * y - N * T) = r - N * T := by ring
    rw [e] at this; exact this
  have h4 : x * y * u ≤ N * T * (1 + 8 * u + 7 * u ^ 2) * u := mul_le_mul_of_nonneg_right h2 hu0
  have h5 : (1 + 8 * u + 7 * u ^ 2) * u + (8 * u + 7 * u ^ 2) ≤ 10 * u := by nlinarith [mul_nonneg hu0 hu0, mul_nonneg (mul_nonneg hu0 hu0) hu0]
  calc |r - N * T| ≤ x * y * u + N * T * (8 * u + 7 * u ^ 2) := by linarith
    _ ≤ N * T * ((1 + 8 * u + 7 * u ^ 2) * u + (8 * u + 7 * u ^ 2)) := by nlinarith
    _ ≤ N * T * (10 * u) := mul_le_mul_of_nonneg_left h5 hNT.le

theorem valQ_nonneg (bits : Nat) : 0 ≤ valQ bits := by
  unfold valQ; positivity

/-- the negative-scale path of `to_f64`: `n.to_f64() * 10f64.powi(k)` for `k ≤ 308` is infinity or
    within `10 · 2^-53` (relative) of `n · 10^k` -/
theorem powi_path (n k : Nat) (hn : 0 < n) (hk : k ≤ 308) :
    mul (ofNat n) (powi ten k) = inf ∨
    |valQ (mul (ofNat n) (powi ten k)) - (n : ℚ) * (10 : ℚ) ^ k| ≤ (n : ℚ) * (10 : ℚ) ^ k * (10 * (2 : ℚ) ^ (-53 : Int)) := by
  obtain ⟨hPne, hcpos, hPerr⟩ := powi_err k hk
  by_cases hF : ofNat n = inf
  · left; unfold mul; simp [hF]
  have hu53 : (2 : ℚ) ^ (-53 : Int) = 1 / 2 ^ 53 := by
    rw [zpow_neg, show (53 : Int) = ((53 : Nat) : Int) by rfl, zpow_natCast, one_div]
  have hu0 : (0 : ℚ) ≤ (2 : ℚ) ^ (-53 : Int) := (two_zpow_pos _).le
  have hu : (2 : ℚ) ^ (-53 : Int) ≤ 1 / 1000 := by rw [hu53]; norm_num
  have hspecF := rne_spec n 1 hn (by norm_num)
  have hspecM := fun a b ha hb => rne_spec a b ha hb
  clear hu53
  generalize (2 : ℚ) ^ (-53 : Int) = u at *
  have hNq : (1 : ℚ) ≤ (n : ℚ) := by exact_mod_cast hn
  have hTq : (1 : ℚ) ≤ (10 : ℚ) ^ k := one_le_pow₀ (by norm_num)
  have hnu : (n : ℚ) * u ≤ (n : ℚ) * (1 / 1000) := mul_le_mul_of_nonneg_left hu (by linarith)
  have hTu : (10 : ℚ) ^ k * (7 * u) ≤ (10 : ℚ) ^ k * (7 * (1 / 1000)) :=
    mul_le_mul_of_nonneg_left (by linarith) (by linarith)
  -- the integer conversion
  have hFerr : |valQ (ofNat n) - (n : ℚ)| ≤ (n : ℚ) * u := by
    unfold ofNat at hF ⊢
    rcases hspecF with h | ⟨h1, _⟩
    · exact absurd h hF
    · have hq : (2 : ℚ) ^ (-1022 : Int) ≤ ((n : ℚ)) / ((1 : Nat) : ℚ) := by
        have : (2 : ℚ) ^ (-1022 : Int) ≤ 1 := zpow_le_one_of_nonpos₀ (by norm_num) (by norm_num)
        simp only [Nat.cast_one, div_one]; linarith
      have := h1 hq
      simpa only [Nat.cast_one, div_one] using this
  -- numerators positive
  have hbpos := val_den_pos (ofNat n)
  have hdpos := val_den_pos (powi ten k)
  have hapos : 0 < (val (ofNat n)).1 := by
    by_contra h0
    have h0' : (val (ofNat n)).1 = 0 := by omega
    have : valQ (ofNat n) = 0 := by unfold valQ; rw [h0']; simp
    rw [this] at hFerr
    have := (abs_le.mp hFerr).1
    linarith
  unfold mul
  have e1 : (ofNat n == inf) = false := by simpa using hF
  have e2 : (powi ten k == inf) = false := by simpa using hPne
  simp only [e1, e2, Bool.or_self, Bool.false_eq_true, if_false]
  have hprod : (((val (ofNat n)).1 * (val (powi ten k)).1 : Nat) : ℚ) / (((val (ofNat n)).2 * (val (powi ten k)).2 : Nat) : ℚ)
      = valQ (ofNat n) * valQ (powi ten k) := by
    unfold valQ; push_cast; rw [mul_div_mul_comm]
  rcases hspecM ((val (ofNat n)).1 * (val (powi ten k)).1) ((val (ofNat n)).2 * (val (powi ten k)).2)
      (Nat.mul_pos hapos hcpos) (Nat.mul_pos hbpos hdpos) with h | ⟨h1, _⟩
  · exact Or.inl h
  · right
    rw [hprod] at h1
    -- the exact product is at least 1/4
    have hxl : (n : ℚ) * (1 - u) ≤ valQ (ofNat n) := by
      have := (abs_le.mp hFerr).1; linarith
    have hyl : (10 : ℚ) ^ k * (1 - 7 * u) ≤ valQ (powi ten k) := by
      have := (abs_le.mp hPerr).1; linarith
    have hx2 : (1 / 2 : ℚ) ≤ valQ (ofNat n) := by linarith
    have hy2 : (1 / 2 : ℚ) ≤ valQ (powi ten k) := by linarith
    have hbig : (2 : ℚ) ^ (-1022 : Int) ≤ valQ (ofNat n) * valQ (powi ten k) := by
      have h14 : (2 : ℚ) ^ (-1022 : Int) ≤ (2 : ℚ) ^ (-2 : Int) := zpow_le_zpow_right₀ (by norm_num) (by norm_num)
      have h14' : (2 : ℚ) ^ (-2 : Int) = 1 / 4 := by norm_num
      have := mul_le_mul hx2 hy2 (by norm_num) (by linarith)
      calc (2 : ℚ) ^ (-1022 : Int) ≤ (2 : ℚ) ^ (-2 : Int) := h14
        _ = 1 / 2 * (1 / 2) := by rw [h14']; norm_num
        _ ≤ _ := this
    have hr := h1 hbig
    have := err_compose (n : ℚ) ((10 : ℚ) ^ k) (valQ (ofNat n)) (valQ (powi ten k)) _ _
      (by linarith) (by linarith) hu0 hu hFerr hPerr hr
    exact this

end BigDec.F64

namespace BigDec.F64

theorem trim_eq (k : Nat) : ∀ (n : Nat) (s : Int), -(2 ^ 63 : Int) ≤ s - 19 * k →
    trim k n s = (n / 10 ^ (19 * k), s - 19 * k)
  | n, s, h => by
    induction k generalizing n s with
    | zero => simp [trim]
    | succ k ih =>
      unfold trim
      have hmax : max (s - 19) (-(2 ^ 63 : Int)) = s - 19 := by
        apply max_eq_left; push_cast at h; omega
      rw [hmax, ih _ _ (by push_cast at h ⊢; omega)]
      have e1 : (10 : Nat) ^ 19 * 10 ^ (19 * k) = 10 ^ (19 * (k + 1)) := by
        rw [← pow_add, show 19 + 19 * k = 19 * (k + 1) by ring]
      have e2 : s - 19 - 19 * (k : Int) = s - 19 * ((k + 1 : Nat) : Int) := by push_cast; ring
      rw [Nat.div_div_eq_div_mul, e1, e2]

/-- unfolding of `toF64` on the `powi` path: a negative scale whose trimmed exponent stays within
    `0 ..= 308` -/
theorem toF64_powi_unfold (dc : Nat → Nat) (neg : Bool) (n : Nat) (scale : Int) (hn : 0 < n) (hs : scale ≠ 0)
    (hsc0 : scale - 19 * (trimRounds dc n : Int) ≤ 0)
    (hlo : -(2 ^ 63 : Int) ≤ scale) (hk : 19 * (trimRounds dc n : Int) - scale ≤ 308) :
    toF64With dc neg n scale = (if neg then 2 ^ 63 else 0) +
      mul (ofNat (n / 10 ^ (19 * trimRounds dc n))) (powi ten (19 * (trimRounds dc n : Int) - scale).toNat) := by
  unfold toF64With
  have e0 : (n == 0) = false := by simp; omega
  have e1 : (scale == 0) = false := by simpa using hs
  simp only [e0, e1, Bool.false_eq_true, if_false]
  have ht := trim_eq (trimRounds dc n) n scale (by omega)
  unfold trimRounds at ht hk hsc0 ⊢
  rw [ht]
  simp only
  have c1 : (decide (scale - 19 * (((dc (n.log2 + 1) - 25) / 19 : Nat) : Int) < -(2 ^ 31 - 1)) ||
      decide (scale - 19 * (((dc (n.log2 + 1) - 25) / 19 : Nat) : Int) > 2 ^ 31 - 1 + 1)) = false := by
    simp only [Bool.or_eq_false_iff, decide_eq_false_iff_not]
    constructor <;> omega
  rw [c1]
  simp only [Bool.false_eq_true, if_false]
  rw [if_pos (by omega)]
  congr 3
  omega

end BigDec.F64

namespace BigDec.F64

/-- **the `powi` path of `to_f64` meets the 2^-48 tolerance**: for a negative scale whose trimmed
    exponent is at most 308, and provided the trimming (which drops `19·rounds` low digits) leaves at
    least 25 digits, the result is the sign bit plus either infinity or a double within `2^-48`
    (relative) of the exact value `n · 10^(-scale)`. -/
theorem toF64_powi_tolerance (dc : Nat → Nat) (neg : Bool) (n : Nat) (scale : Int) (hn : 0 < n) (hs : scale ≠ 0)
    (hsc0 : scale - 19 * (trimRounds dc n : Int) ≤ 0)
    (hlo : -(2 ^ 63 : Int) ≤ scale) (hk : 19 * (trimRounds dc n : Int) - scale ≤ 308)
    (hkeep : trimRounds dc n = 0 ∨ 10 ^ (19 * trimRounds dc n + 24) ≤ n) :
    ∃ R, toF64With dc neg n scale = (if neg then 2 ^ 63 else 0) + R ∧
      (R = inf ∨ |valQ R - (n : ℚ) * (10 : ℚ) ^ (-scale)| ≤ (n : ℚ) * (10 : ℚ) ^ (-scale) * (2 : ℚ) ^ (-48 : Int)) := by
  rw [toF64_powi_unfold dc neg n scale hn hs hsc0 hlo hk]
  refine ⟨_, rfl, ?_⟩
  generalize hit : trimRounds dc n = it at *
  obtain ⟨K, hK⟩ : ∃ K : Nat, (19 * (it : Int) - scale) = K := ⟨(19 * (it : Int) - scale).toNat, by omega⟩
  rw [hK, Int.toNat_natCast]
  have hK308 : K ≤ 308 := by omega
  have hDpos : 0 < 10 ^ (19 * it) := by positivity
  have hm : 0 < n / 10 ^ (19 * it) := by
    rcases hkeep with h | h
    · rw [h]; simpa using hn
    · apply Nat.div_pos _ hDpos
      calc 10 ^ (19 * it) ≤ 10 ^ (19 * it + 24) := Nat.pow_le_pow_right (by norm_num) (by omega)
        _ ≤ n := h
  rcases powi_path (n / 10 ^ (19 * it)) K hm hK308 with h | h
  · exact Or.inl h
  right
  -- exact value in terms of the trimmed quotient
  have hD : (0 : ℚ) < ((10 ^ (19 * it) : Nat) : ℚ) := by exact_mod_cast hDpos
  have hT : (0 : ℚ) < (10 : ℚ) ^ K := by positivity
  have hV : (n : ℚ) * (10 : ℚ) ^ (-scale) = (n : ℚ) / ((10 ^ (19 * it) : Nat) : ℚ) * (10 : ℚ) ^ K := by
    have : -scale = (K : Int) - ((19 * it : Nat) : Int) := by push_cast; omega
    rw [this, zpow_sub₀ (by norm_num), zpow_natCast, zpow_natCast, Nat.cast_pow, Nat.cast_ofNat]
    ring
  rw [hV]
  set q : ℚ := (n : ℚ) / ((10 ^ (19 * it) : Nat) : ℚ) with hq
  set m : Nat := n / 10 ^ (19 * it) with hmdef
  -- m ≤ q, and q - m ≤ q / 10^24
  have hdm : (n : ℚ) = ((10 ^ (19 * it) : Nat) : ℚ) * (m : ℚ) + ((n % 10 ^ (19 * it) : Nat) : ℚ) := by
    exact_mod_cast (Nat.div_add_mod n (10 ^ (19 * it))).symm
  have hr : ((n % 10 ^ (19 * it) : Nat) : ℚ) < ((10 ^ (19 * it) : Nat) : ℚ) := by
    exact_mod_cast Nat.mod_lt n hDpos
  have hr0 : (0 : ℚ) ≤ ((n % 10 ^ (19 * it) : Nat) : ℚ) := Nat.cast_nonneg _
  have hqm : q = (m : ℚ) + ((n % 10 ^ (19 * it) : Nat) : ℚ) / ((10 ^ (19 * it) : Nat) : ℚ) := by
    rw [hq, hdm]; field_simp
  have hfrac0 : 0 ≤ ((n % 10 ^ (19 * it) : Nat) : ℚ) / ((10 ^ (19 * it) : Nat) : ℚ) := div_nonneg hr0 hD.le
  have hmq : (m : ℚ) ≤ q := by rw [hqm]; linarith
  have hgap : q - (m : ℚ) ≤ q / 10 ^ 24 := by
    rcases hkeep with h | h
    · have : n % 10 ^ (19 * it) = 0 := by rw [h]; simp [Nat.mod_one]
      rw [hqm, this]; simp
      positivity
    · have hm24 : 10 ^ 24 ≤ m := by
        rw [hmdef, Nat.le_div_iff_mul_le hDpos, ← pow_add, Nat.add_comm]; exact h
      have hm24q : (10 : ℚ) ^ 24 ≤ (m : ℚ) := by exact_mod_cast hm24
      have hfrac1 : ((n % 10 ^ (19 * it) : Nat) : ℚ) / ((10 ^ (19 * it) : Nat) : ℚ) < 1 := by
        rw [div_lt_one hD]; exact hr
      have : (1 : ℚ) ≤ q / 10 ^ 24 := by
        rw [le_div_iff₀ (by positivity)]; linarith
      rw [hqm] at this ⊢; linarith
  have hmpos : (0 : ℚ) < (m : ℚ) := by exact_mod_cast hm
  have hqpos : (0 : ℚ) < q := lt_of_lt_of_le hmpos hmq
  -- numbers
  have hu53 : (2 : ℚ) ^ (-53 : Int) = 1 / 2 ^ 53 := by
    rw [zpow_neg, show (53 : Int) = ((53 : Nat) : Int) by rfl, zpow_natCast, one_div]
  have hu0 : (0 : ℚ) ≤ (2 : ℚ) ^ (-53 : Int) := (two_zpow_pos _).le
  have hsmall : (1 : ℚ) / 10 ^ 24 ≤ 22 * (2 : ℚ) ^ (-53 : Int) := by rw [hu53]; norm_num
  have e48 : (32 : ℚ) * (2 : ℚ) ^ (-53 : Int) = (2 : ℚ) ^ (-48 : Int) := by
    rw [show (32 : ℚ) = (2 : ℚ) ^ (5 : Int) by norm_num, ← zpow_add₀ (by norm_num)]; norm_num
  rw [← e48]
  clear hu53 e48
  generalize (2 : ℚ) ^ (-53 : Int) = u at *
  generalize valQ (mul (ofNat m) (powi ten K)) = r at *
  generalize (10 : ℚ) ^ K = T at *
  -- triangle inequality
  have h3 : |r - q * T| ≤ |r - (m : ℚ) * T| + |(m : ℚ) * T - q * T| := by
    have := abs_add_le (r - (m : ℚ) * T) ((m : ℚ) * T - q * T)
    have e : r - (m : ℚ) * T + ((m : ℚ) * T - q * T) = r - q * T := by ring
    rw [e] at this; exact this
  have h4 : |(m : ℚ) * T - q * T| = (q - (m : ℚ)) * T := by
    rw [abs_sub_comm, ← sub_mul, abs_of_nonneg (mul_nonneg (by linarith) hT.le)]
  have h5 : (q - (m : ℚ)) * T ≤ q / 10 ^ 24 * T := mul_le_mul_of_nonneg_right hgap hT.le
  have h6 : (m : ℚ) * T * (10 * u) ≤ q * T * (10 * u) :=
    mul_le_mul_of_nonneg_right (mul_le_mul_of_nonneg_right hmq hT.le) (by linarith)
  have h7 : q / 10 ^ 24 * T ≤ q * T * (22 * u) := by
    have : q / 10 ^ 24 * T = q * T * (1 / 10 ^ 24) := by ring
    rw [this]; exact mul_le_mul_of_nonneg_left hsmall (mul_pos hqpos hT).le
  calc |r - q * T| ≤ (m : ℚ) * T * (10 * u) + (q - (m : ℚ)) * T := by rw [h4] at h3; linarith
    _ ≤ q * T * (10 * u) + q * T * (22 * u) := by linarith
    _ = q * T * (32 * u) := by ring

end BigDec.F64
