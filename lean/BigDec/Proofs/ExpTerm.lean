import BigDec.Proofs.ExpAccuracy
import BigDec.Proofs.InvTerm
/-! Termination of the `exp` series loop: once the terms are below half a grid step of the trimmed
    sum, of three consecutive sums two round to the same `P+5`-digit value, so the loop stops. -/
namespace BigDec
open Generated Finset

/-- the value of a `with_prec` result on a known decade -/
theorem withPrec_value_on_decade {est : Nat → Nat} (hest : EstOK est) (d : Dec) (P : Nat) (hP : 1 ≤ P) (hd : 0 < d.int)
    (sc : Int) (h1 : (10 : ℚ) ^ ((P : Int) - 1 - sc) ≤ d.value) (h2 : d.value < (10 : ℚ) ^ ((P : Int) - sc)) :
    (d.withPrec est P).value = ((⌊d.value * (10 : ℚ) ^ sc + 1 / 2⌋ : Int) : ℚ) * (10 : ℚ) ^ (-sc) := by
  obtain ⟨hs, hi⟩ := withPrec_on_decade hest d P hP hd sc h1 h2
  unfold Dec.value at *
  rw [hs, hi]

/-- **of three close increasing values, two trim to the same value** -/
theorem trim_two_of_three {est : Nat → Nat} (hest : EstOK est) (A B C : Dec) (P : Nat) (hP : 1 ≤ P)
    (hA : 0 < A.int) (hAB : A.value ≤ B.value) (hBC : B.value ≤ C.value)
    (hclose : C.value - A.value ≤ A.value * (10 : ℚ) ^ (-(P : Int)) / 2) :
    (A.withPrec est P).value = (B.withPrec est P).value ∨
    (B.withPrec est P).value = (C.withPrec est P).value := by
  have hAv : 0 < A.value := (value_pos_iff A).mpr hA
  have hB : 0 < B.int := (value_pos_iff B).mp (lt_of_lt_of_le hAv hAB)
  have hC : 0 < C.int := (value_pos_iff C).mp (lt_of_lt_of_le hAv (le_trans hAB hBC))
  obtain ⟨E, hE1, hE2⟩ := exists_mem_Ico_zpow hAv (by norm_num : (1 : ℚ) < 10)
  -- decade of A: sc with P - 1 - sc = E
  obtain ⟨sc, hsc⟩ : ∃ sc : Int, sc = (P : Int) - 1 - E := ⟨_, rfl⟩
  have hEsc : E = (P : Int) - 1 - sc := by omega
  have hE1' : (P : Int) - sc = E + 1 := by omega
  rw [hEsc] at hE1
  rw [← hE1'] at hE2
  obtain ⟨g, hg⟩ : ∃ g : ℚ, g = (10 : ℚ) ^ (-sc) := ⟨_, rfl⟩
  have hg0 : 0 < g := by rw [hg]; exact zpow_pos (by norm_num) _
  obtain ⟨T, hT⟩ : ∃ T : ℚ, T = (10 : ℚ) ^ ((P : Int) - sc) := ⟨_, rfl⟩
  have hTg : T = (10 : ℚ) ^ (P : Int) * g := by
    rw [hT, hg, ← zpow_add₀ (by norm_num)]; congr 1
  have hPpos : (0 : ℚ) < (10 : ℚ) ^ (P : Int) := zpow_pos (by norm_num) _
  -- C - A < g/2
  have hCA : C.value - A.value < g / 2 := by
    have : A.value * (10 : ℚ) ^ (-(P : Int)) < g := by
      have h1 : A.value * (10 : ℚ) ^ (-(P : Int)) < T * (10 : ℚ) ^ (-(P : Int)) := by
        rw [hT]; exact mul_lt_mul_of_pos_right hE2 (zpow_pos (by norm_num) _)
      have h2 : T * (10 : ℚ) ^ (-(P : Int)) = g := by
        rw [hTg, mul_comm ((10 : ℚ) ^ (P : Int)), mul_assoc, ← zpow_add₀ (by norm_num)]
        simp
      rw [h2] at h1; exact h1
    linarith
  have hscale : ∀ y : ℚ, y * (10 : ℚ) ^ sc * g = y := by
    intro y; rw [hg, mul_assoc, ← zpow_add₀ (by norm_num)]; simp
  have hginv : (10 : ℚ) ^ sc = 1 / g := by
    rw [hg, zpow_neg]; field_simp
  by_cases hCT : C.value < T
  · -- all three in the decade of A
    have hBT : B.value < T := lt_of_le_of_lt hBC hCT
    have vA := withPrec_value_on_decade hest A P hP hA sc hE1 (by rw [← hT]; exact lt_of_le_of_lt (le_trans hAB hBC) hCT)
    have vB := withPrec_value_on_decade hest B P hP hB sc (le_trans hE1 hAB) (by rw [← hT]; exact hBT)
    have vC := withPrec_value_on_decade hest C P hP hC sc (le_trans hE1 (le_trans hAB hBC)) (by rw [← hT]; exact hCT)
    rw [vA, vB, vC]
    have h10 : (0 : ℚ) < (10 : ℚ) ^ sc := zpow_pos (by norm_num) _
    have mAB : ⌊A.value * (10 : ℚ) ^ sc + 1 / 2⌋ ≤ ⌊B.value * (10 : ℚ) ^ sc + 1 / 2⌋ :=
      Int.floor_le_floor (by have := mul_le_mul_of_nonneg_right hAB h10.le; linarith)
    have mBC : ⌊B.value * (10 : ℚ) ^ sc + 1 / 2⌋ ≤ ⌊C.value * (10 : ℚ) ^ sc + 1 / 2⌋ :=
      Int.floor_le_floor (by have := mul_le_mul_of_nonneg_right hBC h10.le; linarith)
    have mCA : ⌊C.value * (10 : ℚ) ^ sc + 1 / 2⌋ ≤ ⌊A.value * (10 : ℚ) ^ sc + 1 / 2⌋ + 1 := by
      have : C.value * (10 : ℚ) ^ sc + 1 / 2 ≤ (A.value * (10 : ℚ) ^ sc + 1 / 2) + 1 := by
        have h3 : (C.value - A.value) * (10 : ℚ) ^ sc < g / 2 * (10 : ℚ) ^ sc := mul_lt_mul_of_pos_right hCA h10
        rw [hginv] at h3 ⊢
        have : g / 2 * (1 / g) = 1 / 2 := by field_simp
        rw [this] at h3
        nlinarith
      have h4 := Int.floor_le_floor this
      rw [Int.floor_add_one] at h4
      exact h4
    have : ⌊A.value * (10 : ℚ) ^ sc + 1 / 2⌋ = ⌊B.value * (10 : ℚ) ^ sc + 1 / 2⌋ ∨
        ⌊B.value * (10 : ℚ) ^ sc + 1 / 2⌋ = ⌊C.value * (10 : ℚ) ^ sc + 1 / 2⌋ := by omega
    rcases this with h | h
    · left; rw [h]
    · right; rw [h]
  · -- the values straddle (or sit just below) the decade top T: every one of them trims to T
    push Not at hCT
    have hAT : T - g / 2 < A.value := by linarith
    have h10 : (0 : ℚ) < (10 : ℚ) ^ sc := zpow_pos (by norm_num) _
    have trimT : ∀ Y : Dec, A.value ≤ Y.value → Y.value ≤ C.value → (Y.withPrec est P).value = T := by
      intro Y hAY hYC
      have hY : 0 < Y.int := (value_pos_iff Y).mp (lt_of_lt_of_le hAv hAY)
      by_cases hYT : Y.value < T
      · have vY := withPrec_value_on_decade hest Y P hP hY sc (le_trans hE1 hAY) (by rw [← hT]; exact hYT)
        rw [vY]
        have hfl : ⌊Y.value * (10 : ℚ) ^ sc + 1 / 2⌋ = (10 : Int) ^ P := by
          rw [Int.floor_eq_iff]
          have e1 : Y.value * (10 : ℚ) ^ sc = Y.value / g := by rw [hginv]; ring
          have e2 : T / g = (10 : ℚ) ^ (P : Int) := by rw [hTg]; field_simp
          have hlo : T / g - 1 / 2 < Y.value / g := by
            have : (T - g / 2) / g < Y.value / g := div_lt_div_of_pos_right (lt_of_lt_of_le hAT hAY) hg0
            have e3 : (T - g / 2) / g = T / g - 1 / 2 := by field_simp
            rw [e3] at this; exact this
          have hhi : Y.value / g < T / g := div_lt_div_of_pos_right hYT hg0
          rw [e1]
          rw [e2] at hlo hhi
          push_cast
          rw [zpow_natCast] at hlo hhi
          constructor <;> linarith
        rw [hfl, hTg, hg]
        push_cast
        rw [zpow_natCast]
      · push Not at hYT
        -- next decade, one digit coarser
        have hYhi : Y.value < T + g / 2 := by linarith
        have hd1 : (10 : ℚ) ^ ((P : Int) - 1 - (sc - 1)) ≤ Y.value := by
          have : (P : Int) - 1 - (sc - 1) = (P : Int) - sc := by ring
          rw [this, ← hT]; exact hYT
        have hgT : g ≤ T := by
          rw [hTg]
          have : (1 : ℚ) ≤ (10 : ℚ) ^ (P : Int) := by
            have := zpow_le_zpow_right₀ (by norm_num : (1 : ℚ) ≤ 10) (by omega : (0 : Int) ≤ (P : Int))
            simpa using this
          nlinarith
        have hd2 : Y.value < (10 : ℚ) ^ ((P : Int) - (sc - 1)) := by
          have : (P : Int) - (sc - 1) = ((P : Int) - sc) + 1 := by ring
          rw [this, zpow_add₀ (by norm_num), ← hT, zpow_one]
          have hT0 : 0 < T := by rw [hT]; exact zpow_pos (by norm_num) _
          linarith
        have vY := withPrec_value_on_decade hest Y P hP hY (sc - 1) hd1 hd2
        rw [vY]
        have e10 : (10 : ℚ) ^ (sc - 1) = 1 / (10 * g) := by
          rw [zpow_sub₀ (by norm_num), zpow_one, hginv]; field_simp
        have hfl : ⌊Y.value * (10 : ℚ) ^ (sc - 1) + 1 / 2⌋ = (10 : Int) ^ (P - 1) := by
          rw [Int.floor_eq_iff, e10]
          have e2 : T / (10 * g) = (10 : ℚ) ^ ((P - 1 : Nat) : Int) := by
            rw [hTg]
            have : (10 : ℚ) ^ (P : Int) = 10 * (10 : ℚ) ^ ((P - 1 : Nat) : Int) := by
              rw [← zpow_one_add₀ (by norm_num)]; congr 1; omega
            rw [this]; field_simp
          have hlo : T / (10 * g) ≤ Y.value / (10 * g) := div_le_div_of_nonneg_right hYT (by positivity)
          have hhi : Y.value / (10 * g) < T / (10 * g) + 1 / 20 := by
            have : Y.value / (10 * g) < (T + g / 2) / (10 * g) := div_lt_div_of_pos_right hYhi (by positivity)
            have e3 : (T + g / 2) / (10 * g) = T / (10 * g) + 1 / 20 := by field_simp; ring
            rw [e3] at this; exact this
          rw [e2] at hlo hhi
          push_cast
          rw [zpow_natCast] at hlo hhi
          have e4 : Y.value * (1 / (10 * g)) = Y.value / (10 * g) := by ring
          rw [e4]
          constructor <;> linarith
        rw [hfl, hTg, hg]
        push_cast
        have : -(sc - 1) = -sc + 1 := by ring
        rw [this, zpow_add₀ (by norm_num), zpow_one]
        have : (10 : ℚ) ^ (P : Int) = 10 * (10 : ℚ) ^ (P - 1) := by
          rw [← zpow_natCast, ← zpow_one_add₀ (by norm_num)]; congr 1; omega
        rw [this]; ring
    left
    rw [trimT A (le_refl _) (le_trans hAB hBC), trimT B hAB hBC]


/-- once `2x ≤ k + 1` every further Taylor term at least halves -/
theorem tq_halves (x : ℚ) (hx : 0 ≤ x) (k : Nat) (h : 2 * x ≤ (k : ℚ) + 1) : tq x (k + 1) ≤ tq x k / 2 := by
  unfold tq
  rw [pow_succ, Nat.factorial_succ]
  push_cast
  have hf : (0 : ℚ) < (k.factorial : ℚ) := by exact_mod_cast Nat.factorial_pos k
  have hk : (0 : ℚ) < (k : ℚ) + 1 := by positivity
  have hxk : 0 ≤ x ^ k := pow_nonneg hx k
  rw [div_div, div_le_div_iff₀ (by positivity) (by positivity)]
  nlinarith [mul_nonneg hxk hf.le, mul_nonneg (mul_nonneg hxk hf.le) (by linarith : (0 : ℚ) ≤ (k : ℚ) + 1 - 2 * x)]

theorem tq_nonneg (x : ℚ) (hx : 0 ≤ x) (k : Nat) : 0 ≤ tq x k := by unfold tq; positivity

theorem tq_geometric (x : ℚ) (hx : 0 ≤ x) (n1 : Nat) (h : 2 * x ≤ (n1 : ℚ)) (j : Nat) :
    tq x (n1 + j) ≤ tq x n1 / 2 ^ j := by
  induction j with
  | zero => simp
  | succ j ih =>
    have h1 : tq x (n1 + j + 1) ≤ tq x (n1 + j) / 2 :=
      tq_halves x hx (n1 + j) (by
        push_cast
        have : (0 : ℚ) ≤ (j : ℚ) := by positivity
        linarith)
    calc tq x (n1 + (j + 1)) = tq x (n1 + j + 1) := by rw [Nat.add_assoc]
      _ ≤ tq x (n1 + j) / 2 := h1
      _ ≤ (tq x n1 / 2 ^ j) / 2 := by linarith
      _ = tq x n1 / 2 ^ (j + 1) := by rw [pow_succ]; field_simp

theorem tq_le_Eq' (x : ℚ) (hx : 0 ≤ x) (k m : Nat) (hkm : k ≤ m) : tq x k ≤ Eq' x m := by
  unfold Eq'
  exact Finset.single_le_sum (f := fun i => tq x i) (fun i _ => tq_nonneg x hx i) (Finset.mem_range.mpr (by omega))

theorem sixteen_pow (P : Nat) : (10 : ℚ) ^ P ≤ 16 ^ P := pow_le_pow_left₀ (by norm_num) (by norm_num) P

/-- pure arithmetic: two consecutive late terms add less than half a grid step of the sum -/
theorem close_from_terms (a qn qn1 tn tn1 E η : ℚ) (P k : Nat) (ha : 0 < a) (haE : |a - E| ≤ η * a)
    (hq : |qn - tn| ≤ η * qn) (hq1 : |qn1 - tn1| ≤ η * qn1) (hqn0 : 0 < qn) (hqn10 : 0 < qn1)
    (ht1 : tn1 ≤ tn / 2) (htE : tn ≤ E / 2 ^ k) (hk : 4 * (10 : ℚ) ^ P ≤ 2 ^ k)
    (hη0 : 0 ≤ η) (hη : η ≤ 1 / 100) :
    qn + qn1 ≤ a * (10 : ℚ) ^ (-(P : Int)) / 2 := by
  have h1 := abs_le.mp haE
  have h2 := abs_le.mp hq
  have h3 := abs_le.mp hq1
  have h2k : (0 : ℚ) < 2 ^ k := by positivity
  have hP : (0 : ℚ) < (10 : ℚ) ^ P := by positivity
  -- qn (1-η) ≤ tn, qn1 (1-η) ≤ tn1 ≤ tn/2
  have hsum : (qn + qn1) * (1 - η) ≤ 3 / 2 * tn := by nlinarith
  have hE : E ≤ (1 + η) * a := by linarith
  have htn : tn * 2 ^ k ≤ E := by rwa [le_div_iff₀ h2k] at htE
  -- (qn+qn1)(1-η) 2^k ≤ 3/2 (1+η) a
  have h4 : (qn + qn1) * (1 - η) * 2 ^ k ≤ 3 / 2 * ((1 + η) * a) := by nlinarith
  have e : (10 : ℚ) ^ (-(P : Int)) = 1 / (10 : ℚ) ^ P := by rw [zpow_neg, zpow_natCast]; field_simp
  rw [e]
  have hgoal : (qn + qn1) * 2 * (10 : ℚ) ^ P ≤ a → qn + qn1 ≤ a * (1 / (10 : ℚ) ^ P) / 2 := by
    intro hh
    rw [mul_one_div, le_div_iff₀ (by norm_num : (0 : ℚ) < 2), le_div_iff₀ hP]
    exact hh
  apply hgoal
  have hs0 : 0 < qn + qn1 := by linarith
  have h5 : (qn + qn1) * (1 - η) * (4 * (10 : ℚ) ^ P) ≤ (qn + qn1) * (1 - η) * 2 ^ k :=
    mul_le_mul_of_nonneg_left hk (by nlinarith)
  have h6 : (qn + qn1) * (99 / 100) * (4 * (10 : ℚ) ^ P) ≤ 3 / 2 * ((1 + 1 / 100) * a) := by
    have hm : 0 ≤ (qn + qn1) * (10 : ℚ) ^ P := by positivity
    nlinarith
  nlinarith


/-- the loop invariant at index `n` -/
def ExpInv (cfg : Config) (x : Dec) (xd n : Nat) (term : Dec) (factorial : Nat) (result : Dec) : Prop :=
  2 ≤ n ∧ term.value = x.value ^ (n - 1) ∧ factorial = (n - 1).factorial ∧ 0 < result.value ∧
  |result.value - Eq' x.value (n - 1)| ≤ expEta cfg xd * result.value

/-- one pass of the loop body keeps the invariant; the term added is within relative `η` of `x^n/n!` -/
theorem expStep_inv (cfg : Config) (x : Dec) (hx : 0 < x.int) (xd n : Nat) (term : Dec) (factorial : Nat) (result : Dec)
    (hinv : ExpInv cfg x xd n term factorial result) :
    let term' := mulAssignDec term x
    let q := implDivision term'.int ((factorial * n : Nat) : Int) term'.scale (expTermPrecision cfg xd)
    let result' := addAssignDec result q
    ExpInv cfg x xd (n + 1) term' (factorial * n) result' ∧
    result'.value = result.value + q.value ∧ 0 < q.value ∧ |q.value - tq x.value n| ≤ expEta cfg xd * q.value := by
  obtain ⟨hn, hterm, hfact, hres, hinv⟩ := hinv
  intro term' q result'
  have hxv : 0 < x.value := (value_pos_iff x).mpr hx
  have htermv : term'.value = x.value ^ n := by
    show (mulAssignDec term x).value = _
    rw [value_mulAssignDec, hterm, ← pow_succ]; congr 1; omega
  have hterm' : 0 < term'.int := by
    rw [← value_pos_iff, htermv]; positivity
  have hfact' : factorial * n = n.factorial := by
    rw [hfact]; obtain ⟨m, rfl⟩ : ∃ m, n = m + 1 := ⟨n - 1, by omega⟩
    rw [Nat.add_sub_cancel, Nat.factorial_succ]; ring
  have hfpos : 0 < factorial * n := by rw [hfact']; exact Nat.factorial_pos n
  obtain ⟨hqpos, hqerr⟩ := implDivision_rel_error term'.int ((factorial * n : Nat) : Int)
    hterm' (by exact_mod_cast hfpos) term'.scale (expTermPrecision cfg xd)
  have hqx : (term'.int : ℚ) / ((factorial * n : Nat) : Int) * (10 : ℚ) ^ (-term'.scale) = tq x.value n := by
    unfold tq
    rw [← htermv, hfact']
    unfold Dec.value
    simp only [Int.cast_natCast]
    ring
  rw [hqx] at hqerr
  have hηeq : (1 / 2 * (10 : ℚ) ^ (1 - ((expTermPrecision cfg xd : Nat) : Int))) = expEta cfg xd := rfl
  rw [hηeq] at hqerr
  have hS : result'.value = result.value + q.value := value_addAssignDec _ _
  have hfc : (n + 1 - 1) = n := by omega
  refine ⟨⟨by omega, by rw [hfc]; exact htermv, by rw [hfc]; exact hfact', by rw [hS]; linarith, ?_⟩, hS, hqpos,
    by rw [mul_comm]; exact hqerr⟩
  rw [hfc]
  have e : Eq' x.value n = Eq' x.value (n - 1) + tq x.value n := by
    obtain ⟨m, rfl⟩ : ∃ m, n = m + 1 := ⟨n - 1, by omega⟩
    rw [Nat.add_sub_cancel, Eq'_succ]
  rw [hS, e]
  have : result.value + q.value - (Eq' x.value (n - 1) + tq x.value n) =
      (result.value - Eq' x.value (n - 1)) + (q.value - tq x.value n) := by ring
  rw [this]
  calc _ ≤ |result.value - Eq' x.value (n - 1)| + |q.value - tq x.value n| := abs_add_le _ _
    _ ≤ expEta cfg xd * result.value + q.value * expEta cfg xd := add_le_add hinv hqerr
    _ = _ := by ring


/-- **late enough, the loop stops within two passes**: at an index `n ≥ n1 + 4(P+5) + 3` with
    `2x ≤ n1`, where `prev` is the trimmed current sum -/
theorem expLoopN_stops_late (cfg : Config) {est : Nat → Nat} (hest : EstOK est) (hp : 1 ≤ cfg.precision)
    (x : Dec) (hx : 0 < x.int) (xd n1 : Nat) (hn1 : 2 * x.value ≤ (n1 : ℚ))
    (fuel n : Nat) (term : Dec) (factorial : Nat) (result prev : Dec)
    (hinv : ExpInv cfg x xd n term factorial result)
    (hprev : prev = result.withPrec est (cfg.precision + expGuardDigits))
    (hn : n1 + 4 * (cfg.precision + expGuardDigits) + 3 ≤ n) (hfuel : 2 ≤ fuel) :
    ∃ N r, expLoopN cfg est x xd fuel n term factorial result prev = some (N, r) ∧ N ≤ n + 1 := by
  obtain ⟨f, rfl⟩ : ∃ f, fuel = f + 2 := ⟨fuel - 2, by omega⟩
  have hxv : 0 < x.value := (value_pos_iff x).mpr hx
  obtain ⟨hinv1, hS1, hq1pos, hq1⟩ := expStep_inv cfg x hx xd n term factorial result hinv
  unfold expLoopN
  simp only
  generalize hterm' : mulAssignDec term x = term' at hinv1 hS1 hq1pos hq1 ⊢
  generalize hq : implDivision term'.int ((factorial * n : Nat) : Int) term'.scale (expTermPrecision cfg xd) = q
    at hinv1 hS1 hq1pos hq1 ⊢
  generalize hres' : addAssignDec result q = result' at hinv1 hS1 ⊢
  split
  · exact ⟨n, _, rfl, by omega⟩
  · rename_i hne
    obtain ⟨hinv2, hS2, hq2pos, hq2⟩ := expStep_inv cfg x hx xd (n + 1) term' (factorial * n) result' hinv1
    unfold expLoopN
    simp only
    generalize hterm'' : mulAssignDec term' x = term'' at hinv2 hS2 hq2pos hq2 ⊢
    generalize hq' : implDivision term''.int ((factorial * n * (n + 1) : Nat) : Int) term''.scale (expTermPrecision cfg xd) = q'
      at hinv2 hS2 hq2pos hq2 ⊢
    generalize hres'' : addAssignDec result' q' = result'' at hinv2 hS2 ⊢
    -- two of the three trimmed sums agree
    obtain ⟨hn2, _, _, hrespos, hresE⟩ := hinv
    have hresint : 0 < result.int := (value_pos_iff result).mp hrespos
    obtain ⟨hη0, hηρ⟩ := expEta_le cfg xd
    have hη100 : expEta cfg xd ≤ 1 / 100 := by
      have := expRho_le cfg hp
      have : expRho cfg / 10 ^ 6 ≤ 1 / 100 := by
        rw [div_le_iff₀ (by positivity)]; linarith
      linarith
    obtain ⟨k, hk⟩ : ∃ k, n = n1 + k ∧ 4 * (cfg.precision + expGuardDigits) + 3 ≤ k := ⟨n - n1, by omega, by omega⟩
    have htn : tq x.value n ≤ Eq' x.value (n - 1) / 2 ^ (k - 1) := by
      -- t_n ≤ t_{n1+1}... use geometric decay from n1 and t_{n1} ≤ E_{n-1}
      have h1 := tq_geometric x.value hxv.le n1 hn1 k
      rw [← hk.1] at h1
      have h2 := tq_le_Eq' x.value hxv.le n1 (n - 1) (by omega)
      have h2k : (0 : ℚ) < 2 ^ k := by positivity
      have h2k1 : (0 : ℚ) < 2 ^ (k - 1) := by positivity
      have hE0 : 0 ≤ Eq' x.value (n - 1) := le_trans (tq_nonneg _ hxv.le _) h2
      calc tq x.value n ≤ tq x.value n1 / 2 ^ k := h1
        _ ≤ Eq' x.value (n - 1) / 2 ^ k := div_le_div_of_nonneg_right h2 h2k.le
        _ ≤ Eq' x.value (n - 1) / 2 ^ (k - 1) := by
            apply div_le_div_of_nonneg_left hE0 h2k1
            exact pow_le_pow_right₀ (by norm_num) (by omega)
    have hhalf : tq x.value (n + 1) ≤ tq x.value n / 2 :=
      tq_halves x.value hxv.le n (by
        have : (n1 : ℚ) ≤ (n : ℚ) := by exact_mod_cast (by omega : n1 ≤ n)
        linarith)
    have hpow : 4 * (10 : ℚ) ^ (cfg.precision + expGuardDigits) ≤ 2 ^ (k - 1) := by
      obtain ⟨m, hm⟩ : ∃ m, m = cfg.precision + expGuardDigits := ⟨_, rfl⟩
      rw [← hm] at hk ⊢
      have h16 := sixteen_pow m
      have h2 : (2 : ℚ) ^ (4 * m + 2) = 4 * 16 ^ m := by
        rw [pow_add, pow_mul]; norm_num; ring
      calc 4 * (10 : ℚ) ^ m ≤ 4 * 16 ^ m := by linarith
        _ = 2 ^ (4 * m + 2) := h2.symm
        _ ≤ 2 ^ (k - 1) := pow_le_pow_right₀ (by norm_num) (by omega)
    have hclose := close_from_terms result.value q.value q'.value (tq x.value n) (tq x.value (n + 1))
      (Eq' x.value (n - 1)) (expEta cfg xd) (cfg.precision + expGuardDigits) (k - 1) hrespos hresE hq1 hq2 hq1pos hq2pos
      hhalf htn hpow hη0 hη100
    have htwo := trim_two_of_three hest result result' result'' (cfg.precision + expGuardDigits) (by omega) hresint
      (by rw [hS1]; linarith) (by rw [hS2]; linarith)
      (by rw [hS2, hS1]; push_cast at hclose ⊢; linarith)
    have hne' : prev.value ≠ (result'.withPrec est (cfg.precision + expGuardDigits)).value := by
      intro hc
      apply hne
      exact (Spec.valueEq_iff _ _).mpr hc
    rw [hprev] at hne'
    rcases htwo with h | h
    · exact absurd h hne'
    · rw [if_pos ((Spec.valueEq_iff _ _).mpr h)]
      exact ⟨n + 1, _, rfl, by omega⟩


/-- **the series loop terminates**: from any state satisfying the invariant, with `2x ≤ n1`, the loop
    returns within `n1 + 4(P+5) + 3 - n + 2` passes -/
theorem expLoopN_terminates (cfg : Config) {est : Nat → Nat} (hest : EstOK est) (hp : 1 ≤ cfg.precision)
    (x : Dec) (hx : 0 < x.int) (xd n1 : Nat) (hn1 : 2 * x.value ≤ (n1 : ℚ)) :
    ∀ (d fuel n : Nat) (term : Dec) (factorial : Nat) (result prev : Dec),
      ExpInv cfg x xd n term factorial result →
      (prev = result.withPrec est (cfg.precision + expGuardDigits) ∨ n = 2) →
      n1 + 4 * (cfg.precision + expGuardDigits) + 3 ≤ n + d → d + 2 ≤ fuel →
      ∃ N r, expLoopN cfg est x xd fuel n term factorial result prev = some (N, r) ∧ N ≤ n + d + 1 := by
  intro d
  induction d with
  | zero =>
    intro fuel n term factorial result prev hinv hprev hn hfuel
    have hprev' : prev = result.withPrec est (cfg.precision + expGuardDigits) := by
      rcases hprev with h | h
      · exact h
      · omega
    obtain ⟨N, r, h1, h2⟩ := expLoopN_stops_late cfg hest hp x hx xd n1 hn1 fuel n term factorial result prev hinv hprev'
      (by omega) (by omega)
    exact ⟨N, r, h1, by omega⟩
  | succ d ih =>
    intro fuel n term factorial result prev hinv hprev hn hfuel
    obtain ⟨f, rfl⟩ : ∃ f, fuel = f + 1 := ⟨fuel - 1, by omega⟩
    obtain ⟨hinv1, _⟩ := expStep_inv cfg x hx xd n term factorial result hinv
    unfold expLoopN
    simp only
    split
    · exact ⟨n, _, rfl, by omega⟩
    · obtain ⟨N, r, h1, h2⟩ := ih f (n + 1) _ _ _ _ hinv1 (Or.inl rfl) (by omega) (by omega)
      exact ⟨N, r, h1, by omega⟩

end BigDec
