import BigDec.Proofs.F64Digits
/-! The two other f64 estimates of the crate, through the rounding primitive:
    `(bits as f64 / LOG2_10) as u64` (digit counting, rounding term) and
    `(LOG2_10 * scale as f64) as u64` (bit-length shortcut of the comparison). -/
namespace BigDec.F64

/-- in the normal range below `2^1023`: finite, and within `2^-53` relative on both sides -/
theorem rne_normal (a b : Nat) (ha : 0 < a) (hb : 0 < b)
    (hlo : (2 : ℚ) ^ (-1022 : Int) ≤ (a : ℚ) / b) (hhi : (a : ℚ) / b < (2 : ℚ) ^ (1023 : Int)) :
    rne a b ≠ inf ∧ valQ (rne a b) ≤ (a : ℚ) / b * (1 + 1 / 2 ^ 53) ∧ (a : ℚ) / b * (1 - 1 / 2 ^ 53) ≤ valQ (rne a b) := by
  have hne := rne_ne_inf_normal a b ha hb hlo hhi
  have hu53 : (2 : ℚ) ^ (-53 : Int) = 1 / 2 ^ 53 := by
    rw [zpow_neg, show (53 : Int) = ((53 : Nat) : Int) by rfl, zpow_natCast, one_div]
  rcases rne_spec a b ha hb with h | ⟨h1, _⟩
  · exact absurd h hne
  · rw [hu53] at h1
    obtain ⟨hl, hu⟩ := abs_le.mp (h1 hlo)
    exact ⟨hne, by linarith, by linarith⟩

/-- `f.floor() as u64` of a finite double is at most its value -/
theorem floorU64_le (R : Nat) (hR : R ≠ inf) : (floorU64 R : ℚ) ≤ valQ R := by
  unfold floorU64
  have e2 : (R == inf) = false := by simpa using hR
  simp only [e2, Bool.false_eq_true, if_false]
  have h1 : (min ((val R).1 / (val R).2) (2 ^ 64 - 1) : Nat) ≤ (val R).1 / (val R).2 := Nat.min_le_left _ _
  have h2 : (((val R).1 / (val R).2 : Nat) : ℚ) ≤ ((val R).1 : ℚ) / ((val R).2 : ℚ) := Nat.cast_div_le
  unfold valQ
  exact le_trans (by exact_mod_cast h1) h2

theorem pow41_le : (2 : ℚ) ^ (41 : Nat) ≤ (2 : ℚ) ^ (1023 : Int) := by
  rw [← zpow_natCast]; exact zpow_le_zpow_right₀ (by norm_num) (by norm_num)

theorem tiny_le_eighth : (2 : ℚ) ^ (-1022 : Int) ≤ 1 / 8 := by
  have : (2 : ℚ) ^ (-1022 : Int) ≤ (2 : ℚ) ^ (-3 : Int) := zpow_le_zpow_right₀ (by norm_num) (by norm_num)
  have e : (2 : ℚ) ^ (-3 : Int) = 1 / 8 := by norm_num
  rw [e] at this; exact this

/-- `x as f64` for `1 ≤ x ≤ 2^40` -/
theorem ofNat_small (x : Nat) (hx0 : 0 < x) (hx : x ≤ 2 ^ 40) :
    ofNat x ≠ inf ∧ 0 < (val (ofNat x)).1 ∧ valQ (ofNat x) ≤ (x : ℚ) * (1 + 1 / 2 ^ 53) ∧
    (1 / 2 : ℚ) ≤ valQ (ofNat x) ∧ valQ (ofNat x) ≤ 2 ^ 41 := by
  have hxq1 : (1 : ℚ) ≤ (x : ℚ) := by exact_mod_cast hx0
  have hxq2 : (x : ℚ) ≤ 2 ^ 40 := by exact_mod_cast hx
  have hxdiv : ((x : ℚ)) / ((1 : Nat) : ℚ) = (x : ℚ) := by simp
  have := rne_normal x 1 hx0 (by norm_num)
    (by rw [hxdiv]; have := tiny_le_eighth; linarith)
    (by rw [hxdiv]
        calc (x : ℚ) ≤ 2 ^ 40 := hxq2
          _ < (2 : ℚ) ^ (41 : Nat) := by norm_num
          _ ≤ _ := pow41_le)
  rw [hxdiv] at this
  obtain ⟨hne, hu, hl⟩ := this
  unfold ofNat
  have hxu : (x : ℚ) * (1 / 2 ^ 53) ≤ (x : ℚ) * (1 / 2) := mul_le_mul_of_nonneg_left (by norm_num) (by linarith)
  have hlo : (1 / 2 : ℚ) ≤ valQ (rne x 1) := by linarith
  refine ⟨hne, ?_, hu, hlo, by linarith⟩
  by_contra h0
  have h0' : (val (rne x 1)).1 = 0 := by omega
  have : valQ (rne x 1) = 0 := by unfold valQ; rw [h0']; simp
  linarith

theorem val_log2_10 : val log2_10 = (7480317065143153, 2 ^ 51) := by decide +kernel

/-- the digit estimate is at most `x / C · (1 + 2^-53)^2`, `C` the double `LOG2_10` -/
theorem estCode_le (x : Nat) (hx0 : 0 < x) (hx : x ≤ 2 ^ 40) :
    (estCode x : ℚ) ≤ (x : ℚ) * ((2 : ℚ) ^ 51 / 7480317065143153) * ((1 + 1 / 2 ^ 53) * (1 + 1 / 2 ^ 53)) := by
  obtain ⟨hFne, hapos, hFhi, hFlo, hFhi2⟩ := ofNat_small x hx0 hx
  have hbpos := val_den_pos (ofNat x)
  obtain ⟨D, hD⟩ : ∃ D : ℚ, D = (2 : ℚ) ^ 51 / 7480317065143153 := ⟨_, rfl⟩
  rw [← hD]
  have hD1 : (1 / 4 : ℚ) ≤ D := by rw [hD]; norm_num
  have hD2 : D ≤ 1 / 2 := by rw [hD]; norm_num
  have hlne : (log2_10 == inf) = false := by decide
  have e1 : (ofNat x == inf) = false := by simpa using hFne
  have hdiv : div (ofNat x) log2_10 = rne ((val (ofNat x)).1 * 2 ^ 51) ((val (ofNat x)).2 * 7480317065143153) := by
    have hc : ((7480317065143153 : Nat) == 0) = false := by decide
    unfold div
    simp only [e1, hlne, hc, Bool.false_eq_true, if_false, val_log2_10]
  unfold estCode
  rw [hdiv]
  have hprod : (((val (ofNat x)).1 * 2 ^ 51 : Nat) : ℚ) / (((val (ofNat x)).2 * 7480317065143153 : Nat) : ℚ)
      = valQ (ofNat x) * D := by
    unfold valQ; rw [hD]; push_cast; rw [mul_div_mul_comm]; norm_num
  have hP_lo : (1 / 8 : ℚ) ≤ valQ (ofNat x) * D := by
    have := mul_le_mul hFlo hD1 (by norm_num) (by linarith)
    linarith
  have hP_hi : valQ (ofNat x) * D ≤ 2 ^ 40 := by
    have := mul_le_mul hFhi2 hD2 (by linarith) (by norm_num)
    linarith
  obtain ⟨hRne, hRhi, _⟩ := rne_normal ((val (ofNat x)).1 * 2 ^ 51) ((val (ofNat x)).2 * 7480317065143153)
    (Nat.mul_pos hapos (by positivity)) (Nat.mul_pos hbpos (by norm_num))
    (by rw [hprod]; exact le_trans tiny_le_eighth hP_lo)
    (by rw [hprod]
        calc valQ (ofNat x) * D ≤ 2 ^ 40 := hP_hi
          _ < (2 : ℚ) ^ (41 : Nat) := by norm_num
          _ ≤ _ := pow41_le)
  rw [hprod] at hRhi
  have hDpos : 0 < D := by linarith
  calc (floorU64 _ : ℚ) ≤ valQ _ := floorU64_le _ hRne
    _ ≤ valQ (ofNat x) * D * (1 + 1 / 2 ^ 53) := hRhi
    _ ≤ (x : ℚ) * (1 + 1 / 2 ^ 53) * D * (1 + 1 / 2 ^ 53) := by
        apply mul_le_mul_of_nonneg_right _ (by norm_num)
        exact mul_le_mul_of_nonneg_right hFhi hDpos.le
    _ = (x : ℚ) * D * ((1 + 1 / 2 ^ 53) * (1 + 1 / 2 ^ 53)) := by ring

/-- the bit estimate is at most `k · C · (1 + 2^-53)^2`, `C` the double `LOG2_10` -/
theorem preCode_le (k : Nat) (hk0 : 0 < k) (hk : k ≤ 2 ^ 40) :
    (preCode k : ℚ) ≤ (k : ℚ) * ((7480317065143153 : ℚ) / 2 ^ 51) * ((1 + 1 / 2 ^ 53) * (1 + 1 / 2 ^ 53)) := by
  obtain ⟨hFne, hapos, hFhi, hFlo, hFhi2⟩ := ofNat_small k hk0 hk
  have hbpos := val_den_pos (ofNat k)
  obtain ⟨C, hC⟩ : ∃ C : ℚ, C = (7480317065143153 : ℚ) / 2 ^ 51 := ⟨_, rfl⟩
  rw [← hC]
  have hC1 : (2 : ℚ) ≤ C := by rw [hC]; norm_num
  have hC2 : C ≤ 4 := by rw [hC]; norm_num
  have hlne : (log2_10 == inf) = false := by decide
  have e1 : (ofNat k == inf) = false := by simpa using hFne
  have hmul : mul log2_10 (ofNat k) = rne (7480317065143153 * (val (ofNat k)).1) (2 ^ 51 * (val (ofNat k)).2) := by
    unfold mul
    simp only [e1, hlne, Bool.or_self, Bool.false_eq_true, if_false, val_log2_10]
  unfold preCode
  rw [hmul]
  have hprod : ((7480317065143153 * (val (ofNat k)).1 : Nat) : ℚ) / ((2 ^ 51 * (val (ofNat k)).2 : Nat) : ℚ)
      = C * valQ (ofNat k) := by
    unfold valQ; rw [hC]; push_cast; rw [mul_div_mul_comm]; norm_num
  have hP_lo : (1 : ℚ) ≤ C * valQ (ofNat k) := by
    have := mul_le_mul hC1 hFlo (by norm_num) (by linarith)
    linarith
  have hP_hi : C * valQ (ofNat k) ≤ 2 ^ 43 := by
    have := mul_le_mul hC2 hFhi2 (by linarith) (by norm_num)
    linarith
  have h44 : (2 : ℚ) ^ (44 : Nat) ≤ (2 : ℚ) ^ (1023 : Int) := by
    rw [← zpow_natCast]; exact zpow_le_zpow_right₀ (by norm_num) (by norm_num)
  obtain ⟨hRne, hRhi, _⟩ := rne_normal (7480317065143153 * (val (ofNat k)).1) (2 ^ 51 * (val (ofNat k)).2)
    (Nat.mul_pos (by norm_num) hapos) (Nat.mul_pos (by positivity) hbpos)
    (by rw [hprod]; have := tiny_le_eighth; linarith)
    (by rw [hprod]
        calc C * valQ (ofNat k) ≤ 2 ^ 43 := hP_hi
          _ < (2 : ℚ) ^ (44 : Nat) := by norm_num
          _ ≤ _ := h44)
  rw [hprod] at hRhi
  have hCpos : 0 < C := by linarith
  calc (floorU64 _ : ℚ) ≤ valQ _ := floorU64_le _ hRne
    _ ≤ C * valQ (ofNat k) * (1 + 1 / 2 ^ 53) := hRhi
    _ ≤ C * ((k : ℚ) * (1 + 1 / 2 ^ 53)) * (1 + 1 / 2 ^ 53) := by
        apply mul_le_mul_of_nonneg_right _ (by norm_num)
        exact mul_le_mul_of_nonneg_left hFhi hCpos.le
    _ = (k : ℚ) * C * ((1 + 1 / 2 ^ 53) * (1 + 1 / 2 ^ 53)) := by ring

/-- comparing a power of two with a power of ten through the convergent 6107016/1838395 of `log2 10` -/
theorem two_pow_le_ten_pow_base : (2 : Nat) ^ 6107016 ≤ 10 ^ 1838395 := by decide +kernel

theorem two_pow_le_ten_pow (a b : Nat) (h : 1838395 * a ≤ 6107016 * b) : 2 ^ a ≤ 10 ^ b := by
  have h1 : (2 ^ a) ^ 1838395 ≤ (10 ^ b) ^ 1838395 := by
    calc (2 ^ a) ^ 1838395 = 2 ^ (1838395 * a) := by rw [← pow_mul, Nat.mul_comm]
      _ ≤ 2 ^ (6107016 * b) := Nat.pow_le_pow_right (by norm_num) h
      _ = (2 ^ 6107016) ^ b := by rw [← pow_mul]
      _ ≤ (10 ^ 1838395) ^ b := Nat.pow_le_pow_left two_pow_le_ten_pow_base b
      _ = (10 ^ b) ^ 1838395 := by rw [← pow_mul, ← pow_mul, Nat.mul_comm]
  exact (Nat.pow_le_pow_iff_left (by norm_num)).mp h1

/-- **the digit estimate of the code never exceeds the digit count** (scalar form), for every bit
    length up to 2^40 -/
theorem estCode_ok (b : Nat) (hb : b < 2 ^ 40) : 10 ^ (estCode (b + 1) - 1) ≤ 2 ^ b := by
  have hle := estCode_le (b + 1) (by omega) (by omega)
  generalize estCode (b + 1) = e at hle ⊢
  apply ten_pow_le_two_pow
  -- 325147 e ≤ (b+1) (97879 + 1/6000000)
  have hK : (325147 : ℚ) * ((2 : ℚ) ^ 51 / 7480317065143153 * ((1 + 1 / 2 ^ 53) * (1 + 1 / 2 ^ 53))) ≤ 97879 + 1 / 6000000 := by
    norm_num
  have hxq : (((b + 1 : Nat)) : ℚ) ≤ 2 ^ 40 := by exact_mod_cast (by omega : b + 1 ≤ 2 ^ 40)
  have hx0 : (0 : ℚ) ≤ (((b + 1 : Nat)) : ℚ) := Nat.cast_nonneg _
  generalize hxdef : (((b + 1 : Nat)) : ℚ) = x at hle hxq hx0
  have h1 : (325147 : ℚ) * (e : ℚ) ≤ x * (97879 + 1 / 6000000) := by
    calc (325147 : ℚ) * (e : ℚ) ≤ 325147 * (x * ((2 : ℚ) ^ 51 / 7480317065143153) * ((1 + 1 / 2 ^ 53) * (1 + 1 / 2 ^ 53))) :=
          mul_le_mul_of_nonneg_left hle (by norm_num)
      _ = x * (325147 * ((2 : ℚ) ^ 51 / 7480317065143153 * ((1 + 1 / 2 ^ 53) * (1 + 1 / 2 ^ 53)))) := by ring
      _ ≤ x * (97879 + 1 / 6000000) := mul_le_mul_of_nonneg_left hK hx0
  have h2 : x * (1 / 6000000) ≤ 183252 := by
    have := mul_le_mul_of_nonneg_right hxq (by norm_num : (0 : ℚ) ≤ 1 / 6000000)
    have e' : (2 : ℚ) ^ 40 * (1 / 6000000) ≤ 183252 := by norm_num
    linarith
  have h3 : (325147 : ℚ) * (e : ℚ) ≤ 97879 * (((b + 1 : Nat)) : ℚ) + 183252 := by
    rw [hxdef]; linarith
  have h4 : 325147 * e ≤ 97879 * (b + 1) + 183252 := by exact_mod_cast h3
  omega

/-- **the bit estimate of the code, lowered by one, never exceeds `log2 10^k`**, for every scale
    difference up to 2^40 -/
theorem preCode_ok (k : Nat) (hk : k ≤ 2 ^ 40) : 2 ^ (preCode k - 1) ≤ 10 ^ k := by
  by_cases hk0 : k = 0
  · subst hk0
    have : preCode 0 = 0 := by decide +kernel
    rw [this]; norm_num
  have hle := preCode_le k (by omega) hk
  generalize preCode k = e at hle ⊢
  apply two_pow_le_ten_pow
  have hK : (1838395 : ℚ) * ((7480317065143153 : ℚ) / 2 ^ 51 * ((1 + 1 / 2 ^ 53) * (1 + 1 / 2 ^ 53))) ≤ 6107016 + 1 / 1000000 := by
    norm_num
  have hxq : ((k : Nat) : ℚ) ≤ 2 ^ 40 := by exact_mod_cast hk
  have hx0 : (0 : ℚ) ≤ ((k : Nat) : ℚ) := Nat.cast_nonneg _
  generalize hxdef : ((k : Nat) : ℚ) = x at hle hxq hx0
  have h1 : (1838395 : ℚ) * (e : ℚ) ≤ x * (6107016 + 1 / 1000000) := by
    calc (1838395 : ℚ) * (e : ℚ) ≤ 1838395 * (x * ((7480317065143153 : ℚ) / 2 ^ 51) * ((1 + 1 / 2 ^ 53) * (1 + 1 / 2 ^ 53))) :=
          mul_le_mul_of_nonneg_left hle (by norm_num)
      _ = x * (1838395 * ((7480317065143153 : ℚ) / 2 ^ 51 * ((1 + 1 / 2 ^ 53) * (1 + 1 / 2 ^ 53)))) := by ring
      _ ≤ x * (6107016 + 1 / 1000000) := mul_le_mul_of_nonneg_left hK hx0
  have h2 : x * (1 / 1000000) ≤ 1099512 := by
    have := mul_le_mul_of_nonneg_right hxq (by norm_num : (0 : ℚ) ≤ 1 / 1000000)
    have e' : (2 : ℚ) ^ 40 * (1 / 1000000) ≤ 1099512 := by norm_num
    linarith
  have h3 : (1838395 : ℚ) * (e : ℚ) ≤ 6107016 * ((k : Nat) : ℚ) + 1099512 := by
    rw [hxdef]; linarith
  have h4 : 1838395 * e ≤ 6107016 * k + 1099512 := by exact_mod_cast h3
  omega

end BigDec.F64
