import BigDec.Model.Exp
import BigDec.Props.C08
import BigDec.Proofs.InvAccuracy
import BigDec.Proofs.ExpPos
import BigDec.Proofs.ExpTail
/-! Accuracy of the `exp` series on exit (partial correctness, positive arguments). -/
namespace BigDec
open Generated Finset

/-- the exact Taylor term and partial sum over ℚ -/
def tq (x : ℚ) (k : Nat) : ℚ := x ^ k / (k.factorial : ℚ)
def Eq' (x : ℚ) (n : Nat) : ℚ := ∑ k ∈ range (n + 1), tq x k

theorem Eq'_succ (x : ℚ) (n : Nat) : Eq' x (n + 1) = Eq' x n + tq x (n + 1) := by
  unfold Eq'; rw [sum_range_succ]

/-- relative error of one term division -/
def expEta (cfg : Config) (xd : Nat) : ℚ := 1 / 2 * (10 : ℚ) ^ (1 - (expTermPrecision cfg xd : Int))
/-- relative error of the trimming to `precision + 5` digits -/
def expRho (cfg : Config) : ℚ := 1 / 2 * (10 : ℚ) ^ (1 - ((cfg.precision + expGuardDigits : Nat) : Int))

/-- **`impl_division` has relative error at most half a unit of its `T`-th digit** (positive operands) -/
theorem implDivision_rel_error (num den : Int) (hn : 0 < num) (hd : 0 < den) (scale : Int) (T : Nat) :
    0 < (implDivision num den scale T).value ∧
    |(implDivision num den scale T).value - (num : ℚ) / den * (10 : ℚ) ^ (-scale)| ≤
      (implDivision num den scale T).value * (1 / 2 * (10 : ℚ) ^ (1 - (T : Int))) := by
  obtain ⟨h1, _, h3, h4⟩ := C08_correctly_rounded num den (by omega) (by omega) scale T
  have hxpos : 0 < (num : ℚ) / den * (10 : ℚ) ^ (-scale) := by
    apply mul_pos (div_pos (by exact_mod_cast hn) (by exact_mod_cast hd)) (zpow_pos (by norm_num) _)
  generalize (num : ℚ) / den * (10 : ℚ) ^ (-scale) = x at h1 h3 h4 hxpos ⊢
  generalize implDivision num den scale T = q at h1 h3 h4 ⊢
  have hqpos : 0 < q.value := by
    by_contra hc
    push Not at hc
    nlinarith
  refine ⟨hqpos, ?_⟩
  have hpow : (0 : ℚ) < (10 : ℚ) ^ (1 - (T : Int)) := zpow_pos (by norm_num) _
  by_cases heq : q.value = x
  · rw [heq, sub_self, abs_zero]; positivity
  · have hdig := h3 heq
    have hqint : 0 < q.int := (value_pos_iff q).mp hqpos
    have hn0 : q.int.natAbs ≠ 0 := by omega
    have hlow := pow_numDigits_le q.int.natAbs hn0
    -- 10^(-q.scale) ≤ q.value · 10^(1-T)
    have hunit : (10 : ℚ) ^ (-q.scale) ≤ q.value * (10 : ℚ) ^ (1 - (T : Int)) := by
      unfold Dec.value
      have hnat : (q.int : ℚ) = (q.int.natAbs : ℚ) := by
        rw [← Int.cast_natCast, Int.natAbs_of_nonneg (by omega)]
      rw [hnat]
      have h10 : ((10 ^ (T - 1) : Nat) : ℚ) ≤ (q.int.natAbs : ℚ) := by
        have : 10 ^ (T - 1) ≤ 10 ^ (numDigits q.int.natAbs - 1) := Nat.pow_le_pow_right (by norm_num) (by omega)
        exact_mod_cast le_trans this hlow
      have hu : (0 : ℚ) < (10 : ℚ) ^ (-q.scale) := zpow_pos (by norm_num) _
      by_cases hT : T = 0
      · subst hT
        have h1' : (1 : ℚ) ≤ (q.int.natAbs : ℚ) := by exact_mod_cast Nat.one_le_iff_ne_zero.mpr hn0
        have : (10 : ℚ) ^ (1 - ((0 : Nat) : Int)) = 10 := by norm_num
        rw [this]; nlinarith
      · have e : (10 : ℚ) ^ (1 - (T : Int)) = (((10 ^ (T - 1) : Nat) : ℚ))⁻¹ := by
          push_cast
          rw [← zpow_natCast, ← zpow_neg]; congr 1; omega
        rw [e]
        have hp10 : (0 : ℚ) < ((10 ^ (T - 1) : Nat) : ℚ) := by positivity
        rw [mul_assoc, mul_comm ((10 : ℚ) ^ (-q.scale)), ← mul_assoc, ← div_eq_mul_inv]
        rw [le_mul_iff_one_le_left hu, le_div_iff₀ hp10, one_mul]
        exact h10
    calc |q.value - x| ≤ 1 / 2 * (10 : ℚ) ^ (-q.scale) := h1
      _ ≤ 1 / 2 * (q.value * (10 : ℚ) ^ (1 - (T : Int))) := by linarith
      _ = q.value * (1 / 2 * (10 : ℚ) ^ (1 - (T : Int))) := by ring

/-- **What the series loop has established when it stops.**  Starting from a state that satisfies the
    loop invariant at index `n`, if the loop returns `r` at stop index `N` then there are a sum `S`
    and a last term `q` with: `S` within relative `η` of the exact partial sum `E_N`, `q` within relative
    `η` of the exact term `x^N/N!`, `q ≤ 2ρ'·S` (the stopping rule), and `r` within relative `ρ'` of `S`. -/
theorem expLoop_exit (cfg : Config) {est : Nat → Nat} (hest : EstOK est) (hp : 1 ≤ cfg.precision)
    (x : Dec) (hx : 0 < x.int) (xd : Nat) :
    ∀ (fuel n : Nat) (term : Dec) (factorial : Nat) (result prev r : Dec) (N : Nat),
      2 ≤ n → term.value = x.value ^ (n - 1) → factorial = (n - 1).factorial → 0 < result.value →
      |result.value - Eq' x.value (n - 1)| ≤ expEta cfg xd * result.value →
      |prev.value - result.value| ≤ result.value * expRho cfg →
      expLoopN cfg est x xd fuel n term factorial result prev = some (N, r) →
      ∃ (S q : ℚ), n ≤ N ∧ N < n + fuel ∧ 0 < q ∧ q < S ∧
        |S - Eq' x.value N| ≤ expEta cfg xd * S ∧ |q - tq x.value N| ≤ expEta cfg xd * q ∧
        q ≤ 2 * expRho cfg * S ∧ |r.value - S| ≤ S * expRho cfg ∧ 0 < r.int := by
  intro fuel
  induction fuel with
  | zero => intro n term factorial result prev r N _ _ _ _ _ _ h; simp [expLoopN] at h
  | succ fuel ih =>
    intro n term factorial result prev r N hn hterm hfact hres hinv hprev h
    unfold expLoopN at h
    simp only at h
    have hxv : 0 < x.value := (value_pos_iff x).mpr hx
    have htermv : (mulAssignDec term x).value = x.value ^ n := by
      rw [value_mulAssignDec, hterm, ← pow_succ]; congr 1; omega
    have hterm' : 0 < (mulAssignDec term x).int := by
      rw [← value_pos_iff, htermv]; positivity
    have hfact' : factorial * n = n.factorial := by
      rw [hfact]; obtain ⟨m, rfl⟩ : ∃ m, n = m + 1 := ⟨n - 1, by omega⟩
      rw [Nat.add_sub_cancel, Nat.factorial_succ]; ring
    have hfpos : 0 < factorial * n := by rw [hfact']; exact Nat.factorial_pos n
    obtain ⟨hqpos, hqerr⟩ := implDivision_rel_error (mulAssignDec term x).int ((factorial * n : Nat) : Int)
      hterm' (by exact_mod_cast hfpos) (mulAssignDec term x).scale (expTermPrecision cfg xd)
    have hqx : ((mulAssignDec term x).int : ℚ) / ((factorial * n : Nat) : Int) *
        (10 : ℚ) ^ (-(mulAssignDec term x).scale) = tq x.value n := by
      unfold tq
      rw [← htermv, hfact']
      unfold Dec.value
      simp only [Int.cast_natCast]
      ring
    rw [hqx] at hqerr
    generalize hq : implDivision (mulAssignDec term x).int ((factorial * n : Nat) : Int)
        (mulAssignDec term x).scale (expTermPrecision cfg xd) = q at h hqpos hqerr
    have hS : (addAssignDec result q).value = result.value + q.value := value_addAssignDec _ _
    have hSpos : 0 < (addAssignDec result q).value := by rw [hS]; linarith
    have hSint : 0 < (addAssignDec result q).int := (value_pos_iff _).mp hSpos
    have hηeq : (1 / 2 * (10 : ℚ) ^ (1 - ((expTermPrecision cfg xd : Nat) : Int))) = expEta cfg xd := rfl
    rw [hηeq] at hqerr
    have hinv' : |(addAssignDec result q).value - Eq' x.value n| ≤ expEta cfg xd * (addAssignDec result q).value := by
      have e : Eq' x.value n = Eq' x.value (n - 1) + tq x.value n := by
        obtain ⟨m, rfl⟩ : ∃ m, n = m + 1 := ⟨n - 1, by omega⟩
        rw [Nat.add_sub_cancel, Eq'_succ]
      rw [hS, e]
      have : result.value + q.value - (Eq' x.value (n - 1) + tq x.value n) =
          (result.value - Eq' x.value (n - 1)) + (q.value - tq x.value n) := by ring
      rw [this]
      calc _ ≤ |result.value - Eq' x.value (n - 1)| + |q.value - tq x.value n| := abs_add_le _ _
        _ ≤ expEta cfg xd * result.value + q.value * expEta cfg xd := add_le_add hinv hqerr
        _ = _ := by ring
    have htrimerr := withPrec_rel_error hest (addAssignDec result q) (cfg.precision + expGuardDigits) (by omega) hSint
    have hρeq : (1 / 2 * (10 : ℚ) ^ (1 - ((cfg.precision + expGuardDigits : Nat) : Int))) = expRho cfg := rfl
    rw [hρeq] at htrimerr
    have htrimpos := withPrec_pos hest _ (cfg.precision + expGuardDigits) (by omega) hSint
    split at h
    · rename_i heq
      simp only [Option.some.injEq, Prod.mk.injEq] at h
      obtain ⟨hnN, h⟩ := h
      subst hnN
      have hve : prev.value = ((addAssignDec result q).withPrec est (cfg.precision + expGuardDigits)).value :=
        (Spec.valueEq_iff _ _).mp heq
      refine ⟨(addAssignDec result q).value, q.value, le_refl _, by omega, hqpos, by rw [hS]; linarith,
        hinv', by rw [mul_comm]; exact hqerr, ?_, by rw [← h]; exact htrimerr, by rw [← h]; exact htrimpos⟩
      -- the stopping rule: prev == trimmed
      have hρ : 0 ≤ expRho cfg := by unfold expRho; exact mul_nonneg (by norm_num) (zpow_nonneg (by norm_num) _)
      rw [hve] at hprev
      have h1 := abs_le.mp htrimerr
      have h2 := abs_le.mp hprev
      rw [hS] at h1 ⊢
      nlinarith
    · have hfc : (n + 1 - 1) = n := by omega
      obtain ⟨S, q', hN1, hN2, rest⟩ := ih (n + 1) (mulAssignDec term x) (factorial * n) (addAssignDec result q)
        ((addAssignDec result q).withPrec est (cfg.precision + expGuardDigits)) r N (by omega)
        (by rw [hfc]; exact htermv) (by rw [hfc]; exact hfact') hSpos (by rw [hfc]; exact hinv') htrimerr h
      exact ⟨S, q', by omega, by omega, rest⟩


/-- while `k + 1 ≤ x` the Taylor terms grow -/
theorem tq_mono_step (x : ℚ) (k : Nat) (h : ((k : ℚ) + 1) ≤ x) : tq x k ≤ tq x (k + 1) := by
  unfold tq
  rw [pow_succ, Nat.factorial_succ]
  push_cast
  have hf : (0 : ℚ) < (k.factorial : ℚ) := by exact_mod_cast Nat.factorial_pos k
  have hk : (0 : ℚ) < (k : ℚ) + 1 := by positivity
  have hx : 0 ≤ x := le_trans hk.le h
  rw [div_le_div_iff₀ hf (by positivity)]
  have hxk : 0 ≤ x ^ k := pow_nonneg hx k
  nlinarith [mul_nonneg hxk hf.le, mul_nonneg (mul_nonneg hxk hf.le) (by linarith : (0 : ℚ) ≤ x - ((k : ℚ) + 1))]

theorem tq_le_of_le (x : ℚ) (N : Nat) (h : (N : ℚ) ≤ x) (k : Nat) (hk : k ≤ N) : tq x k ≤ tq x N := by
  induction N with
  | zero => have : k = 0 := by omega
            rw [this]
  | succ N ih =>
    rcases Nat.lt_or_ge k (N + 1) with hlt | hge
    · have hN : (N : ℚ) ≤ x := by push_cast at h; linarith
      exact le_trans (ih hN (by omega)) (tq_mono_step x N (by push_cast at h; exact h))
    · have : k = N + 1 := by omega
      rw [this]

/-- up to `N ≤ x` the partial sum is at most `N + 1` last terms -/
theorem Eq'_le_of_le (x : ℚ) (N : Nat) (h : (N : ℚ) ≤ x) : Eq' x N ≤ ((N : ℚ) + 1) * tq x N := by
  unfold Eq'
  have := Finset.sum_le_card_nsmul (range (N + 1)) (fun k => tq x k) (tq x N)
    (fun k hk => tq_le_of_le x N h k (by have := Finset.mem_range.mp hk; omega))
  rw [Finset.card_range, nsmul_eq_mul] at this
  push_cast at this
  exact this

/-- **the loop cannot stop while the terms are still growing**: with the exit facts of
    `expLoop_exit`, `N ≤ x` is impossible as long as `N + 1 ≤ 90002` -/
theorem no_stop_before_peak (x S q ρ η : ℚ) (N : Nat) (hq0 : 0 < q) (hqS : q < S)
    (hSE : |S - Eq' x N| ≤ η * S) (hqt : |q - tq x N| ≤ η * q) (hstop : q ≤ 2 * ρ * S)
    (hη0 : 0 ≤ η) (hη : η ≤ 1 / 10 ^ 6) (hρ0 : 0 < ρ) (hρ : ρ ≤ 5 / 10 ^ 6) (hN : N + 1 ≤ 90002)
    (hle : (N : ℚ) ≤ x) : False := by
  have hS : 0 < S := lt_trans hq0 hqS
  have h1 := abs_le.mp hSE
  have h2 := abs_le.mp hqt
  have hE := Eq'_le_of_le x N hle
  have hN1 : (0 : ℚ) < (N : ℚ) + 1 := by positivity
  have hNle : (N : ℚ) + 1 ≤ 90002 := by exact_mod_cast hN
  -- S(1-η) ≤ E ≤ (N+1) t ≤ (N+1)(1+η) q ≤ (N+1)(1+η) 2ρ S
  have ht : tq x N ≤ (1 + η) * q := by linarith
  have h3 : S * (1 - η) ≤ ((N : ℚ) + 1) * ((1 + η) * q) := by
    have : ((N : ℚ) + 1) * tq x N ≤ ((N : ℚ) + 1) * ((1 + η) * q) := mul_le_mul_of_nonneg_left ht hN1.le
    linarith
  have h4 : ((N : ℚ) + 1) * ((1 + η) * q) ≤ 90002 * ((1 + 1 / 10 ^ 6) * (2 * (5 / 10 ^ 6) * S)) := by
    have a1 : (1 + η) * q ≤ (1 + 1 / 10 ^ 6) * (2 * (5 / 10 ^ 6) * S) := by
      have : q ≤ 2 * (5 / 10 ^ 6) * S := by nlinarith
      exact mul_le_mul (by linarith) this hq0.le (by norm_num)
    exact mul_le_mul hNle a1 (by positivity) (by norm_num)
  have h5 : S * (1 - 1 / 10 ^ 6) ≤ S * (1 - η) := by nlinarith
  nlinarith

/-- pure real arithmetic: combining the loop's exit facts with a tail bound `e^x − E_N ≤ K·t_N` -/
theorem series_combine (S q r E t ex ρ η K : ℝ) (hq0 : 0 < q) (hqS : q < S) (hSE : |S - E| ≤ η * S)
    (hqt : |q - t| ≤ η * q) (hstop : q ≤ 2 * ρ * S) (hr : |r - S| ≤ S * ρ) (h0 : 0 ≤ ex - E)
    (htail : ex - E ≤ K * t) (hK0 : 0 ≤ K) (hK : K ≤ 1000)
    (hη0 : 0 ≤ η) (hη : η ≤ ρ / 10 ^ 6) (hρ0 : 0 < ρ) (hρ : ρ ≤ 5 / 10 ^ 6) :
    |r - ex| ≤ (2 * K + 3) * ρ * r := by
  have hS : 0 < S := lt_trans hq0 hqS
  have h1 := abs_le.mp hSE
  have h2 := abs_le.mp hqt
  have h3 := abs_le.mp hr
  have ht : t ≤ (1 + η) * (2 * ρ * S) := by
    have : t ≤ (1 + η) * q := by linarith
    exact le_trans this (mul_le_mul_of_nonneg_left hstop (by linarith))
  obtain ⟨A, hA⟩ : ∃ A, A = ρ * S := ⟨_, rfl⟩
  obtain ⟨B, hB⟩ : ∃ B, B = η * ρ * S := ⟨_, rfl⟩
  obtain ⟨C, hC⟩ : ∃ C, C = ρ * ρ * S := ⟨_, rfl⟩
  have hA0 : 0 < A := by rw [hA]; exact mul_pos hρ0 hS
  have hB0 : 0 ≤ B := by rw [hB]; exact mul_nonneg (mul_nonneg hη0 hρ0.le) hS.le
  have hC0 : 0 ≤ C := by rw [hC]; exact mul_nonneg (mul_nonneg hρ0.le hρ0.le) hS.le
  have hηS : η * S ≤ A / 10 ^ 6 := by
    have := mul_le_mul_of_nonneg_right hη hS.le
    rw [hA]; linarith [this]
  have hCA : C ≤ 5 / 10 ^ 6 * A := by
    have := mul_le_mul_of_nonneg_right hρ hA0.le
    rw [hC]; rw [hA] at this; linarith [this]
  have hBC : B ≤ C / 10 ^ 6 := by
    have := mul_le_mul_of_nonneg_right hη hA0.le
    rw [hB, hC]; rw [hA] at this; linarith [this]
  have hKt : K * t ≤ 2 * (K * A) + 2 * (K * B) := by
    have := mul_le_mul_of_nonneg_left ht hK0
    have e : K * ((1 + η) * (2 * ρ * S)) = 2 * (K * A) + 2 * (K * B) := by rw [hA, hB]; ring
    linarith
  have hKB : K * B ≤ 1000 * B := mul_le_mul_of_nonneg_right hK hB0
  have hKC : K * C ≤ 1000 * C := mul_le_mul_of_nonneg_right hK hC0
  have hKA0 : 0 ≤ K * A := mul_nonneg hK0 hA0.le
  -- r ≥ S(1-ρ), so (2K+3)ρ r ≥ (2K+3)(A − C)
  have hlow : (2 * K + 3) * (A - C) ≤ (2 * K + 3) * ρ * r := by
    have hrS : S - S * ρ ≤ r := by linarith
    have := mul_le_mul_of_nonneg_left hrS (by positivity : 0 ≤ (2 * K + 3) * ρ)
    have e : (2 * K + 3) * ρ * (S - S * ρ) = (2 * K + 3) * (A - C) := by rw [hA, hC]; ring
    linarith
  have hexp : (2 * K + 3) * (A - C) = 2 * (K * A) + 3 * A - 2 * (K * C) - 3 * C := by ring
  have hSρ : S * ρ = A := by rw [hA]; ring
  rw [abs_le]
  constructor
  · have : ex - r ≤ A + η * S + (2 * (K * A) + 2 * (K * B)) := by linarith
    linarith
  · have : r - ex ≤ A + η * S := by linarith
    linarith

theorem expRho_pos (cfg : Config) : 0 < expRho cfg := by
  unfold expRho; exact mul_pos (by norm_num) (zpow_pos (by norm_num) _)

/-- what the proofs need from the two literals of `exp_untrimmed` (regenerated from the source):
    at least 5 guard digits, and term divisions at least 6 digits more precise than the trimmed sum -/
theorem expGuard_ge : 5 ≤ expGuardDigits := by decide

theorem expTermPrecision_ge (cfg : Config) (xd : Nat) :
    cfg.precision + expGuardDigits + 6 ≤ expTermPrecision cfg xd := by
  unfold expTermPrecision expGuardDigits; omega

theorem expRho_le (cfg : Config) (hp : 1 ≤ cfg.precision) : expRho cfg ≤ 5 / 10 ^ 6 := by
  unfold expRho
  have hg := expGuard_ge
  have : (10 : ℚ) ^ (1 - ((cfg.precision + expGuardDigits : Nat) : Int)) ≤ (10 : ℚ) ^ (-5 : Int) :=
    zpow_le_zpow_right₀ (by norm_num) (by push_cast; omega)
  have e : (10 : ℚ) ^ (-5 : Int) = 1 / 10 ^ 5 := by norm_num
  rw [e] at this
  linarith

/-- `ρ'·10^P ≤ ½·10^-4`: what 5 guard digits buy relative to the last of the `P` digits -/
theorem expRho_mul_pow_le (cfg : Config) : expRho cfg * (10 : ℚ) ^ cfg.precision ≤ 1 / 2 / 10 ^ 4 := by
  unfold expRho
  have hg := expGuard_ge
  rw [mul_assoc, ← zpow_natCast, ← zpow_add₀ (by norm_num)]
  have : (10 : ℚ) ^ (1 - ((cfg.precision + expGuardDigits : Nat) : Int) + (cfg.precision : Int)) ≤ (10 : ℚ) ^ (-4 : Int) :=
    zpow_le_zpow_right₀ (by norm_num) (by push_cast; omega)
  have e : (10 : ℚ) ^ (-4 : Int) = 1 / 10 ^ 4 := by norm_num
  rw [e] at this
  linarith

theorem expEta_le (cfg : Config) (xd : Nat) : 0 ≤ expEta cfg xd ∧ expEta cfg xd ≤ expRho cfg / 10 ^ 6 := by
  unfold expEta expRho
  refine ⟨mul_nonneg (by norm_num) (zpow_nonneg (by norm_num) _), ?_⟩
  have hT := expTermPrecision_ge cfg xd
  obtain ⟨j, hj⟩ : ∃ j : Nat, expTermPrecision cfg xd = cfg.precision + expGuardDigits + 6 + j :=
    ⟨expTermPrecision cfg xd - (cfg.precision + expGuardDigits + 6), by omega⟩
  rw [hj]
  have e : (1 : Int) - ((cfg.precision + expGuardDigits + 6 + j : Nat) : Int) =
      (1 - ((cfg.precision + expGuardDigits : Nat) : Int)) + (-((6 + j : Nat) : Int)) := by push_cast; ring
  rw [e, zpow_add₀ (by norm_num)]
  have h6 : (10 : ℚ) ^ (-((6 + j : Nat) : Int)) ≤ 1 / 10 ^ 6 := by
    have : (10 : ℚ) ^ (-((6 + j : Nat) : Int)) ≤ (10 : ℚ) ^ (-6 : Int) :=
      zpow_le_zpow_right₀ (by norm_num) (by push_cast; omega)
    have e2 : (10 : ℚ) ^ (-6 : Int) = 1 / 10 ^ 6 := by norm_num
    rw [e2] at this; exact this
  have hpos : (0 : ℚ) < (10 : ℚ) ^ (1 - ((cfg.precision + expGuardDigits : Nat) : Int)) := zpow_pos (by norm_num) _
  nlinarith

theorem Eq'_cast (x : ℚ) (N : Nat) :
    ((Eq' x N : ℚ) : ℝ) = ∑ m ∈ range (N + 1), (x : ℝ) ^ m / (m.factorial : ℝ) := by
  unfold Eq' tq; push_cast; rfl

theorem tq_cast (x : ℚ) (N : Nat) : ((tq x N : ℚ) : ℝ) = (x : ℝ) ^ N / (N.factorial : ℝ) := by
  unfold tq; push_cast; rfl

/-- the exit facts for the loop as `exp_untrimmed` starts it (`n = 2`, `term = x`, `result = x + 1`) -/
theorem expSeries_exit (cfg : Config) {est : Nat → Nat} (hest : EstOK est) (hp : 1 ≤ cfg.precision)
    (x : Dec) (hx : 0 < x.int) (fuel N : Nat) (r : Dec)
    (h : expLoopN cfg est x x.digits fuel 2 x 1 (addBigdecimals x Dec.one) (addBigdecimals x Dec.one) = some (N, r)) :
    ∃ (S q : ℚ), 2 ≤ N ∧ N < 2 + fuel ∧ 0 < q ∧ q < S ∧
        |S - Eq' x.value N| ≤ expEta cfg x.digits * S ∧ |q - tq x.value N| ≤ expEta cfg x.digits * q ∧
        q ≤ 2 * expRho cfg * S ∧ |r.value - S| ≤ S * expRho cfg ∧ 0 < r.int := by
  have hxv : 0 < x.value := (value_pos_iff x).mpr hx
  have h1v : Dec.one.value = 1 := by unfold Dec.value Dec.one; norm_num
  have hr0 : (addBigdecimals x Dec.one).value = x.value + 1 := by rw [value_addBigdecimals, h1v]
  have hE1 : Eq' x.value (2 - 1) = x.value + 1 := by
    unfold Eq' tq; simp [sum_range_succ]; ring
  have hρ0 : 0 < expRho cfg := by unfold expRho; exact mul_pos (by norm_num) (zpow_pos (by norm_num) _)
  have hη0 : 0 ≤ expEta cfg x.digits := by
    unfold expEta; exact mul_nonneg (by norm_num) (zpow_nonneg (by norm_num) _)
  exact expLoop_exit cfg hest hp x hx x.digits fuel 2 x 1 _ _ r N (le_refl _) (by simp) (by simp)
      (by rw [hr0]; linarith) (by rw [hr0, hE1, sub_self, abs_zero]; positivity)
      (by rw [sub_self, abs_zero]; rw [hr0]; positivity) h

/-- **accuracy of the untrimmed series** (positive argument): if the loop returns `r` with stop
    index `N` and `x ≤ K·(N+1−x)` (`K ≤ 1000`), then `|r − e^x| ≤ (2K+3)·ρ'·r` with `ρ' = ½·10^(1−(P+5))`. -/
theorem expSeries_accuracy (cfg : Config) {est : Nat → Nat} (hest : EstOK est) (hp : 1 ≤ cfg.precision)
    (x : Dec) (hx : 0 < x.int) (fuel N : Nat) (r : Dec)
    (h : expLoopN cfg est x x.digits fuel 2 x 1 (addBigdecimals x Dec.one) (addBigdecimals x Dec.one) = some (N, r))
    (K : ℚ) (hK0 : 0 ≤ K) (hK : K ≤ 1000)
    (hprem : x.value ≤ K * ((N : ℚ) + 1 - x.value)) :
    2 ≤ N ∧ 0 < r.int ∧
    |(r.value : ℝ) - Real.exp (x.value : ℝ)| ≤ (2 * (K : ℝ) + 3) * ((expRho cfg : ℚ) : ℝ) * (r.value : ℝ) := by
  have hxv : 0 < x.value := (value_pos_iff x).mpr hx
  have hρ0 := expRho_pos cfg
  obtain ⟨hη0, hηρ⟩ := expEta_le cfg x.digits
  obtain ⟨S, q, hN1, _, hq0, hqS, hSE, hqt, hstop, hr, hrpos⟩ := expSeries_exit cfg hest hp x hx fuel N r h
  refine ⟨hN1, hrpos, ?_⟩
  have hxr : (0 : ℝ) ≤ (x.value : ℝ) := by exact_mod_cast hxv.le
  have hlt : (x.value : ℝ) < (N : ℝ) + 1 := by
    have : x.value < (N : ℚ) + 1 := by
      by_contra hc
      push Not at hc
      have : K * ((N : ℚ) + 1 - x.value) ≤ 0 := mul_nonpos_of_nonneg_of_nonpos hK0 (by linarith)
      linarith
    exact_mod_cast this
  obtain ⟨t0, ttail⟩ := exp_tail_geom (x.value : ℝ) hxr N hlt
  rw [← Eq'_cast, ← tq_cast] at ttail
  rw [← Eq'_cast] at t0
  have htq0 : (0 : ℝ) ≤ ((tq x.value N : ℚ) : ℝ) := by
    have : 0 ≤ tq x.value N := by unfold tq; positivity
    exact_mod_cast this
  have htail : Real.exp (x.value : ℝ) - ((Eq' x.value N : ℚ) : ℝ) ≤ (K : ℝ) * ((tq x.value N : ℚ) : ℝ) := by
    -- (ex − E)(N+1−x) ≤ t x and x ≤ K (N+1−x)
    have hd : (0 : ℝ) < (N : ℝ) + 1 - (x.value : ℝ) := by linarith
    have hxK : (x.value : ℝ) ≤ (K : ℝ) * ((N : ℝ) + 1 - (x.value : ℝ)) := by exact_mod_cast hprem
    have : (Real.exp (x.value : ℝ) - ((Eq' x.value N : ℚ) : ℝ)) * ((N : ℝ) + 1 - (x.value : ℝ)) ≤
        ((K : ℝ) * ((tq x.value N : ℚ) : ℝ)) * ((N : ℝ) + 1 - (x.value : ℝ)) := by
      calc _ ≤ ((tq x.value N : ℚ) : ℝ) * (x.value : ℝ) := ttail
        _ ≤ ((tq x.value N : ℚ) : ℝ) * ((K : ℝ) * ((N : ℝ) + 1 - (x.value : ℝ))) :=
            mul_le_mul_of_nonneg_left hxK htq0
        _ = _ := by ring
    exact le_of_mul_le_mul_right this hd
  have hρle : ((expRho cfg : ℚ) : ℝ) ≤ 5 / 10 ^ 6 := by
    have h2 : ((expRho cfg : ℚ) : ℝ) ≤ ((5 / 10 ^ 6 : ℚ) : ℝ) := Rat.cast_le.mpr (expRho_le cfg hp)
    have e : ((5 / 10 ^ 6 : ℚ) : ℝ) = 5 / 10 ^ 6 := by norm_num
    rw [e] at h2; exact h2
  exact series_combine (S : ℝ) (q : ℝ) (r.value : ℝ) ((Eq' x.value N : ℚ) : ℝ) ((tq x.value N : ℚ) : ℝ)
    (Real.exp (x.value : ℝ)) ((expRho cfg : ℚ) : ℝ) ((expEta cfg x.digits : ℚ) : ℝ) (K : ℝ)
    (by exact_mod_cast hq0) (by exact_mod_cast hqS) (by exact_mod_cast hSE) (by exact_mod_cast hqt)
    (by exact_mod_cast hstop) (by exact_mod_cast hr) t0 htail (by exact_mod_cast hK0) (by exact_mod_cast hK)
    (by exact_mod_cast hη0)
    (by exact_mod_cast hηρ) (by exact_mod_cast hρ0) hρle


/-- **no premise for arguments up to 1000**: the loop cannot stop before the terms shrink
    (`no_stop_before_peak`), so at the stop `x < N` and the tail is at most `x` last terms -/
theorem expSeries_accuracy_bounded (cfg : Config) {est : Nat → Nat} (hest : EstOK est) (hp : 1 ≤ cfg.precision)
    (x : Dec) (hx : 0 < x.int) (fuel N : Nat) (r : Dec)
    (h : expLoopN cfg est x x.digits fuel 2 x 1 (addBigdecimals x Dec.one) (addBigdecimals x Dec.one) = some (N, r))
    (hfuel : fuel ≤ 90000) (hx1000 : x.value ≤ 1000) :
    0 < r.int ∧
    |(r.value : ℝ) - Real.exp (x.value : ℝ)| ≤ ((2003 : ℚ) : ℝ) * ((expRho cfg : ℚ) : ℝ) * (r.value : ℝ) := by
  have hxv : 0 < x.value := (value_pos_iff x).mpr hx
  obtain ⟨hη0, hηρ⟩ := expEta_le cfg x.digits
  have hρle := expRho_le cfg hp
  obtain ⟨S, q, hN1, hN2, hq0, hqS, hSE, hqt, hstop, hr, hrpos⟩ := expSeries_exit cfg hest hp x hx fuel N r h
  have hNx : x.value < (N : ℚ) := by
    by_contra hc
    push Not at hc
    exact no_stop_before_peak x.value S q (expRho cfg) (expEta cfg x.digits) N hq0 hqS hSE hqt hstop hη0
      (by have : expRho cfg / 10 ^ 6 ≤ 1 / 10 ^ 6 := by
            rw [div_le_div_iff_of_pos_right (by positivity)]; linarith
          linarith) (expRho_pos cfg) hρle (by omega) hc
  have hprem : x.value ≤ x.value * ((N : ℚ) + 1 - x.value) := by nlinarith
  obtain ⟨_, _, hacc⟩ := expSeries_accuracy cfg hest hp x hx fuel N r h x.value hxv.le hx1000 hprem
  refine ⟨hrpos, le_trans hacc ?_⟩
  have hrv : (0 : ℝ) < (r.value : ℝ) := by exact_mod_cast (value_pos_iff r).mpr hrpos
  have hρ0 : (0 : ℝ) < ((expRho cfg : ℚ) : ℝ) := by exact_mod_cast expRho_pos cfg
  have hxr : (x.value : ℝ) ≤ 1000 := by exact_mod_cast hx1000
  have : 2 * (x.value : ℝ) + 3 ≤ ((2003 : ℚ) : ℝ) := by push_cast; linarith
  exact mul_le_mul_of_nonneg_right (mul_le_mul_of_nonneg_right this hρ0.le) hrv.le

theorem withPrec_scale {est : Nat → Nat} (hest : EstOK est) (d : Dec) (P : Nat) :
    (d.withPrec est P).scale = d.scale + ((P : Int) - (numDigits d.int.natAbs : Int)) := by
  rw [withPrec_spec hest]
  unfold Spec.roundToPrec Spec.roundToScale
  rw [Spec.numDigits_eq_model]
  split <;> rfl

theorem withPrec_value_of_le {est : Nat → Nat} (hest : EstOK est) (d : Dec) (P : Nat)
    (h : numDigits d.int.natAbs ≤ P) : (d.withPrec est P).value = d.value := by
  rw [withPrec_spec hest]
  unfold Spec.roundToPrec Spec.roundToScale
  rw [Spec.numDigits_eq_model]
  have hcase : d.scale + ((P : Int) - (numDigits d.int.natAbs : Int)) ≥ d.scale := by omega
  rw [if_pos hcase]
  exact value_scale_up _ _ _ hcase

/-- the final `with_prec(P)`: a value within `C·ρ'·r` of `e^x` is, after trimming, within
    `1/2 + C·21/400000` units of the last digit -/
theorem final_trim_accuracy (cfg : Config) {est : Nat → Nat} (hest : EstOK est) (hp : 1 ≤ cfg.precision)
    (r : Dec) (hr : 0 < r.int) (ex : ℝ) (C : ℚ) (hC0 : 0 ≤ C)
    (hacc : |(r.value : ℝ) - ex| ≤ (C : ℝ) * ((expRho cfg : ℚ) : ℝ) * (r.value : ℝ)) :
    |((r.withPrec est cfg.precision).value : ℝ) - ex| ≤
      (1 / 2 + (C : ℝ) * (21 / 400000)) * (10 : ℝ) ^ (-(r.withPrec est cfg.precision).scale) := by
  obtain ⟨h1, h2, h3⟩ := withPrec_abs_error hest r cfg.precision hp hr
  generalize r.withPrec est cfg.precision = out at h1 h2 h3 ⊢
  have hU : (0 : ℚ) < (10 : ℚ) ^ (-out.scale) := zpow_pos (by norm_num) _
  have hout : out.value ≤ (10 : ℚ) ^ cfg.precision * (10 : ℚ) ^ (-out.scale) := by
    unfold Dec.value
    have : (out.int : ℚ) ≤ (10 : ℚ) ^ cfg.precision := by exact_mod_cast h2
    exact mul_le_mul_of_nonneg_right this hU.le
  have hρP := expRho_mul_pow_le cfg
  have hρle := expRho_le cfg hp
  have hρ0 := expRho_pos cfg
  -- r ≤ out + U/2
  have hrle : r.value ≤ out.value + 1 / 2 * (10 : ℚ) ^ (-out.scale) := by
    have := (abs_le.mp h1).1; linarith
  have hbudget : C * expRho cfg * r.value ≤ C * (21 / 400000) * (10 : ℚ) ^ (-out.scale) := by
    have h4 : r.value ≤ ((10 : ℚ) ^ cfg.precision + 1 / 2) * (10 : ℚ) ^ (-out.scale) := by nlinarith
    have h5 : expRho cfg * r.value ≤ expRho cfg * (((10 : ℚ) ^ cfg.precision + 1 / 2) * (10 : ℚ) ^ (-out.scale)) :=
      mul_le_mul_of_nonneg_left h4 hρ0.le
    have e : expRho cfg * (((10 : ℚ) ^ cfg.precision + 1 / 2) * (10 : ℚ) ^ (-out.scale)) =
        (expRho cfg * (10 : ℚ) ^ cfg.precision + expRho cfg / 2) * (10 : ℚ) ^ (-out.scale) := by ring
    rw [e] at h5
    have h6 : (expRho cfg * (10 : ℚ) ^ cfg.precision + expRho cfg / 2) * (10 : ℚ) ^ (-out.scale) ≤
        (1 / 2 / 10 ^ 4 + 5 / 10 ^ 6 / 2) * (10 : ℚ) ^ (-out.scale) :=
      mul_le_mul_of_nonneg_right (by linarith) hU.le
    have h7 : expRho cfg * r.value ≤ 21 / 400000 * (10 : ℚ) ^ (-out.scale) := by
      have e7 : ((1 : ℚ) / 2 / 10 ^ 4 + 5 / 10 ^ 6 / 2) = 21 / 400000 := by norm_num
      rw [e7] at h6
      linarith
    have := mul_le_mul_of_nonneg_left h7 hC0
    linarith
  have h1r : |(out.value : ℝ) - (r.value : ℝ)| ≤ 1 / 2 * (10 : ℝ) ^ (-out.scale) := by
    have := (Rat.cast_le (K := ℝ)).mpr h1
    push_cast at this
    exact this
  have hbr : (C : ℝ) * ((expRho cfg : ℚ) : ℝ) * (r.value : ℝ) ≤ (C : ℝ) * (21 / 400000) * (10 : ℝ) ^ (-out.scale) := by
    have := (Rat.cast_le (K := ℝ)).mpr hbudget
    push_cast at this
    exact this
  calc |(out.value : ℝ) - ex| = |((out.value : ℝ) - (r.value : ℝ)) + ((r.value : ℝ) - ex)| := by ring_nf
    _ ≤ |(out.value : ℝ) - (r.value : ℝ)| + |(r.value : ℝ) - ex| := abs_add_le _ _
    _ ≤ 1 / 2 * (10 : ℝ) ^ (-out.scale) + (C : ℝ) * (21 / 400000) * (10 : ℝ) ^ (-out.scale) := by linarith
    _ = _ := by ring


/-- the reciprocal step for negative arguments: dividing `1` by `pos` at `P` digits and trimming to
    `P` digits lands within `11/20` of a unit of `1/pos` (two roundings: ½ + at most 1/20) -/
theorem recip_round_error (cfg : Config) {est : Nat → Nat} (hest : EstOK est) (hp : 1 ≤ cfg.precision)
    (pos : Dec) (hpos : 0 < pos.int) :
    0 < ((implDivision 1 pos.int (-pos.scale) cfg.precision).withPrec est cfg.precision).int ∧
    ((implDivision 1 pos.int (-pos.scale) cfg.precision).withPrec est cfg.precision).int ≤ 10 ^ cfg.precision ∧
    |((implDivision 1 pos.int (-pos.scale) cfg.precision).withPrec est cfg.precision).value - 1 / pos.value| ≤
      11 / 20 * (10 : ℚ) ^ (-((implDivision 1 pos.int (-pos.scale) cfg.precision).withPrec est cfg.precision).scale) := by
  obtain ⟨h1, _, h3, h4⟩ := C08_correctly_rounded 1 pos.int (by norm_num) (by omega) (-pos.scale) cfg.precision
  have hv : ((1 : Int) : ℚ) / pos.int * (10 : ℚ) ^ (-(-pos.scale)) = 1 / pos.value := by
    unfold Dec.value
    rw [neg_neg, zpow_neg]
    have : (pos.int : ℚ) ≠ 0 := by exact_mod_cast (by omega : pos.int ≠ 0)
    have h10 : (10 : ℚ) ^ pos.scale ≠ 0 := zpow_ne_zero _ (by norm_num)
    rw [Int.cast_one]
    field_simp
  rw [hv] at h1 h3 h4
  have hposv : 0 < pos.value := (value_pos_iff pos).mpr hpos
  have hvpos : 0 < 1 / pos.value := by positivity
  generalize 1 / pos.value = v at h1 h3 h4 hvpos
  generalize implDivision 1 pos.int (-pos.scale) cfg.precision = d at h1 h3 h4 ⊢
  have hdpos : 0 < d.value := by
    by_contra hc; push Not at hc; nlinarith
  have hdint : 0 < d.int := (value_pos_iff d).mp hdpos
  obtain ⟨w1, w2, w3⟩ := withPrec_abs_error hest d cfg.precision hp hdint
  have hsc := withPrec_scale hest d cfg.precision
  refine ⟨w3, w2, ?_⟩
  have hU : (0 : ℚ) < (10 : ℚ) ^ (-(d.withPrec est cfg.precision).scale) := zpow_pos (by norm_num) _
  by_cases heq : d.value = v
  · rw [← heq]
    calc _ ≤ 1 / 2 * (10 : ℚ) ^ (-(d.withPrec est cfg.precision).scale) := w1
      _ ≤ _ := by linarith
  · have hdig := h3 heq
    by_cases hnd : numDigits d.int.natAbs = cfg.precision
    · have hve := withPrec_value_of_le hest d cfg.precision (by omega)
      have hse : (d.withPrec est cfg.precision).scale = d.scale := by rw [hsc]; omega
      rw [hve, hse]
      have hUd : (0 : ℚ) < (10 : ℚ) ^ (-d.scale) := zpow_pos (by norm_num) _
      linarith
    · have hUd : (10 : ℚ) ^ (-d.scale) ≤ 1 / 10 * (10 : ℚ) ^ (-(d.withPrec est cfg.precision).scale) := by
        rw [hsc]
        have e : -(d.scale + ((cfg.precision : Int) - (numDigits d.int.natAbs : Int))) =
            -d.scale + ((numDigits d.int.natAbs : Int) - (cfg.precision : Int)) := by ring
        rw [e, zpow_add₀ (by norm_num)]
        have h10 : (10 : ℚ) ^ (1 : Int) ≤ (10 : ℚ) ^ ((numDigits d.int.natAbs : Int) - (cfg.precision : Int)) :=
          zpow_le_zpow_right₀ (by norm_num) (by omega)
        have hUd0 : (0 : ℚ) < (10 : ℚ) ^ (-d.scale) := zpow_pos (by norm_num) _
        have e1 : (10 : ℚ) ^ (1 : Int) = 10 := by norm_num
        rw [e1] at h10
        nlinarith
      calc |(d.withPrec est cfg.precision).value - v|
          = |((d.withPrec est cfg.precision).value - d.value) + (d.value - v)| := by ring_nf
        _ ≤ |(d.withPrec est cfg.precision).value - d.value| + |d.value - v| := abs_add_le _ _
        _ ≤ 1 / 2 * (10 : ℚ) ^ (-(d.withPrec est cfg.precision).scale) + 1 / 2 * (10 : ℚ) ^ (-d.scale) :=
            add_le_add w1 h1
        _ ≤ _ := by linarith

/-- **negative arguments**: if `pos` is within `C·ρ'·pos` of `e^a` (`a = |x|`, `C ≤ 2003`), the reciprocal
    trimmed to `P` digits is within `11/20 + C·27/500000` of a unit of `1/e^a = e^x` -/
theorem recip_trim_accuracy (cfg : Config) {est : Nat → Nat} (hest : EstOK est) (hp : 1 ≤ cfg.precision)
    (pos : Dec) (hpos : 0 < pos.int) (ea : ℝ) (hea : 0 < ea) (C : ℚ) (hC0 : 0 ≤ C) (hC : C ≤ 2003)
    (hacc : |(pos.value : ℝ) - ea| ≤ (C : ℝ) * ((expRho cfg : ℚ) : ℝ) * (pos.value : ℝ)) :
    |(((implDivision 1 pos.int (-pos.scale) cfg.precision).withPrec est cfg.precision).value : ℝ) - 1 / ea| ≤
      (11 / 20 + (C : ℝ) * (27 / 500000)) *
        (10 : ℝ) ^ (-((implDivision 1 pos.int (-pos.scale) cfg.precision).withPrec est cfg.precision).scale) := by
  obtain ⟨o1, o2, o3⟩ := recip_round_error cfg hest hp pos hpos
  generalize (implDivision 1 pos.int (-pos.scale) cfg.precision).withPrec est cfg.precision = out at o1 o2 o3 ⊢
  have hposv : (0 : ℝ) < (pos.value : ℝ) := by exact_mod_cast (value_pos_iff pos).mpr hpos
  have hρ0 : (0 : ℝ) < ((expRho cfg : ℚ) : ℝ) := by exact_mod_cast expRho_pos cfg
  have hρle : ((expRho cfg : ℚ) : ℝ) ≤ 5 / 10 ^ 6 := by
    have h2 : ((expRho cfg : ℚ) : ℝ) ≤ ((5 / 10 ^ 6 : ℚ) : ℝ) := Rat.cast_le.mpr (expRho_le cfg hp)
    have e : ((5 / 10 ^ 6 : ℚ) : ℝ) = 5 / 10 ^ 6 := by norm_num
    rw [e] at h2; exact h2
  have hρP : ((expRho cfg : ℚ) : ℝ) * (10 : ℝ) ^ cfg.precision ≤ 1 / 2 / 10 ^ 4 := by
    have h' : ((expRho cfg * (10 : ℚ) ^ cfg.precision : ℚ) : ℝ) ≤ ((1 / 2 / 10 ^ 4 : ℚ) : ℝ) :=
      Rat.cast_le.mpr (expRho_mul_pow_le cfg)
    push_cast at h'
    exact h'
  have hCr0 : (0 : ℝ) ≤ (C : ℝ) := by exact_mod_cast hC0
  have hCr : (C : ℝ) ≤ 2003 := by exact_mod_cast hC
  obtain ⟨ρ, hρdef⟩ : ∃ ρ : ℝ, ρ = ((expRho cfg : ℚ) : ℝ) := ⟨_, rfl⟩
  rw [← hρdef] at hacc hρ0 hρle hρP
  obtain ⟨U, hUdef⟩ : ∃ U : ℝ, U = (10 : ℝ) ^ (-out.scale) := ⟨_, rfl⟩
  have hU : 0 < U := by rw [hUdef]; exact zpow_pos (by norm_num) _
  obtain ⟨v, hvdef⟩ : ∃ v : ℝ, v = 1 / (pos.value : ℝ) := ⟨_, rfl⟩
  have hv0 : 0 < v := by rw [hvdef]; positivity
  have o3r : |(out.value : ℝ) - v| ≤ 11 / 20 * U := by
    have := (Rat.cast_le (K := ℝ)).mpr o3
    push_cast at this
    rw [hvdef, hUdef]
    exact this
  have houtU : (out.value : ℝ) ≤ (10 : ℝ) ^ cfg.precision * U := by
    have h : out.value ≤ (10 : ℚ) ^ cfg.precision * (10 : ℚ) ^ (-out.scale) := by
      unfold Dec.value
      have : (out.int : ℚ) ≤ (10 : ℚ) ^ cfg.precision := by exact_mod_cast o2
      exact mul_le_mul_of_nonneg_right this (zpow_pos (by norm_num) _).le
    have := (Rat.cast_le (K := ℝ)).mpr h
    push_cast at this
    rw [hUdef]
    exact this
  -- C ρ ≤ 2003 · 5e-6
  have hCρ : (C : ℝ) * ρ ≤ 2003 * (5 / 10 ^ 6) := mul_le_mul hCr hρle hρ0.le (by norm_num)
  have hCρ0 : 0 ≤ (C : ℝ) * ρ := mul_nonneg hCr0 hρ0.le
  have ha := abs_le.mp hacc
  have hea_lo : (pos.value : ℝ) * (1 - (C : ℝ) * ρ) ≤ ea := by nlinarith
  have hpos_le : (pos.value : ℝ) ≤ 102 / 100 * ea := by
    have : (pos.value : ℝ) ≤ 102 / 100 * ((pos.value : ℝ) * (1 - (C : ℝ) * ρ)) := by
      have : (1 : ℝ) ≤ 102 / 100 * (1 - (C : ℝ) * ρ) := by norm_num at hCρ ⊢; linarith
      nlinarith
    linarith
  have hvea : |v - 1 / ea| ≤ 102 / 100 * ((C : ℝ) * ρ) * v := by
    have e : v - 1 / ea = (ea - (pos.value : ℝ)) / ((pos.value : ℝ) * ea) := by
      rw [hvdef]; field_simp
    rw [e, abs_div, abs_of_pos (mul_pos hposv hea), div_le_iff₀ (mul_pos hposv hea)]
    have h1 : |ea - (pos.value : ℝ)| ≤ (C : ℝ) * ρ * (pos.value : ℝ) := by rw [abs_sub_comm]; exact hacc
    refine le_trans h1 ?_
    have e2 : 102 / 100 * ((C : ℝ) * ρ) * v * ((pos.value : ℝ) * ea) = (C : ℝ) * ρ * (102 / 100 * ea) := by
      rw [hvdef]; field_simp
    rw [e2]
    exact mul_le_mul_of_nonneg_left hpos_le hCρ0
  -- v ≤ out + 11/20 U ≤ (10^P + 11/20) U
  have hvU : v ≤ ((10 : ℝ) ^ cfg.precision + 11 / 20) * U := by
    have := (abs_le.mp o3r).1
    nlinarith
  have hρv : ρ * v ≤ 211 / 4000000 * U := by
    have h5 : ρ * v ≤ ρ * (((10 : ℝ) ^ cfg.precision + 11 / 20) * U) := mul_le_mul_of_nonneg_left hvU hρ0.le
    have e : ρ * (((10 : ℝ) ^ cfg.precision + 11 / 20) * U) = (ρ * (10 : ℝ) ^ cfg.precision + ρ * (11 / 20)) * U := by ring
    rw [e] at h5
    have h6 : (ρ * (10 : ℝ) ^ cfg.precision + ρ * (11 / 20)) * U ≤ (1 / 2 / 10 ^ 4 + 5 / 10 ^ 6 * (11 / 20)) * U :=
      mul_le_mul_of_nonneg_right (by linarith) hU.le
    have e7 : ((1 : ℝ) / 2 / 10 ^ 4 + 5 / 10 ^ 6 * (11 / 20)) = 211 / 4000000 := by norm_num
    rw [e7] at h6
    linarith
  have hbudget : 102 / 100 * ((C : ℝ) * ρ) * v ≤ (C : ℝ) * (27 / 500000) * U := by
    have := mul_le_mul_of_nonneg_left hρv hCr0
    have hCU : 0 ≤ (C : ℝ) * U := mul_nonneg hCr0 hU.le
    nlinarith
  rw [← hUdef]
  calc |(out.value : ℝ) - 1 / ea| = |((out.value : ℝ) - v) + (v - 1 / ea)| := by ring_nf
    _ ≤ |(out.value : ℝ) - v| + |v - 1 / ea| := abs_add_le _ _
    _ ≤ 11 / 20 * U + (C : ℝ) * (27 / 500000) * U := by linarith
    _ = (11 / 20 + (C : ℝ) * (27 / 500000)) * U := by ring

end BigDec
