import BigDec.Model.Round
import BigDec.Spec.Round
import BigDec.Proofs.Digits
import Mathlib.Tactic.IntervalCases
/-! L2: the digit-level rounding of `with_scale_round` equals the declarative `Spec.roundNat`
    for every magnitude, every cut position and all seven modes; `Generated.roundPair` is the
    table translated from the current source. -/
namespace BigDec
open Generated Spec

theorem ofDigitsLE_digitsLE (n : Nat) : ofDigitsLE (digitsLE n) = n := by
  induction n using Nat.strong_induction_on with
  | _ n ih =>
    cases n with
    | zero => simp [digitsLE, ofDigitsLE]
    | succ n =>
      rw [digitsLE, ofDigitsLE, ih _ (by omega)]; omega

theorem digitsLE_lt (n : Nat) : ∀ d ∈ digitsLE n, d < 10 := by
  induction n using Nat.strong_induction_on with
  | _ n ih =>
    cases n with
    | zero => simp [digitsLE]
    | succ n =>
      rw [digitsLE]; intro d hd
      rcases List.mem_cons.mp hd with h | h
      · omega
      · exact ih _ (by omega) d h

theorem ofDigitsLE_incr (ds : List Nat) (h : ∀ d ∈ ds, d < 10) :
    ofDigitsLE (incrDigits ds) = ofDigitsLE ds + 1 := by
  induction ds with
  | nil => simp [incrDigits, ofDigitsLE]
  | cons d ds ih =>
    have hd : d < 10 := h d (by simp)
    have hds : ∀ x ∈ ds, x < 10 := fun x hx => h x (by simp [hx])
    unfold incrDigits
    split
    · simp [ofDigitsLE]; omega
    · simp only [ofDigitsLE, ih hds]; omega

theorem digitsLE_drop (k n : Nat) : (digitsLE n).drop k = digitsLE (n / 10 ^ k) := by
  induction k generalizing n with
  | zero => simp
  | succ k ih =>
    cases n with
    | zero => simp [digitsLE]
    | succ n =>
      rw [digitsLE, List.drop_succ_cons, ih, pow_succ', Nat.div_div_eq_div_mul]

theorem digitsLE_head_tail (q : Nat) :
    (digitsLE q).tail = digitsLE (q / 10) ∧ (digitsLE q).getD 0 0 = q % 10 := by
  cases q with
  | zero => simp [digitsLE]
  | succ q => rw [digitsLE]; simp

theorem digitsLE_getD (n i : Nat) : (digitsLE n).getD i 0 = n / 10 ^ i % 10 := by
  have := digitsLE_drop i n
  have h2 : (digitsLE n).getD i 0 = ((digitsLE n).drop i).getD 0 0 := by
    simp [List.getD_eq_getElem?_getD]
  rw [h2, this, (digitsLE_head_tail _).2]

theorem take_all_zero (n j : Nat) :
    ((digitsLE n).take j).all (· == 0) = decide (n % 10 ^ j = 0) := by
  induction j generalizing n with
  | zero => simp [Nat.mod_one]
  | succ j ih =>
    cases n with
    | zero => simp [digitsLE]
    | succ n =>
      rw [digitsLE, List.take_succ_cons, List.all_cons, ih]
      have h1 : (n + 1) % 10 ^ (j + 1) = (n + 1) % 10 + 10 * ((n + 1) / 10 % 10 ^ j) := by
        rw [pow_succ', Nat.mod_mul, ]
      rw [h1]
      by_cases h : (n + 1) % 10 = 0 <;> by_cases h' : (n + 1) / 10 % 10 ^ j = 0 <;> simp [h, h'] <;> omega

theorem digitsLE_length (n : Nat) (h : n ≠ 0) : (digitsLE n).length = numDigits n := by
  induction n using Nat.strong_induction_on with
  | _ n ih =>
    cases n with
    | zero => exact absurd rfl h
    | succ n =>
      rw [digitsLE, numDigits]
      split
      · rename_i hlt
        have : (n + 1) / 10 = 0 := by omega
        rw [this]; simp [digitsLE]
      · rename_i hge
        rw [List.length_cons, ih ((n + 1) / 10) (by omega) (by omega)]

/-- **the digit-pair primitive, abstracted over the tail.**  For a kept part `q`, the first
    discarded digit `low` and the rest `t < P` of the tail, `round_pair (q%10, low)` with
    `trailing_zeros = (t = 0)` is `q%10` plus the declarative round-up decision on the whole tail
    `low·P + t` of modulus `10·P`. -/
theorem roundPair_tail (m : Mode) (neg : Bool) (q low t P : Nat) (hP : 0 < P) (ht : t < P)
    (hlow : low < 10) :
    roundPair m neg (q % 10) low (decide (t = 0))
      = q % 10 + if roundUpM m neg q (low * P + t) (10 * P) then 1 else 0 := by
  have hq2 : q % 10 % 2 = q % 2 := by omega
  by_cases ht0 : t = 0
  · subst ht0
    interval_cases low <;> cases m <;> cases neg <;>
      simp [roundPair, roundUpM, compare, compareOfLessAndEq, hq2] <;> (try split_ifs) <;> omega
  · interval_cases low <;> cases m <;> cases neg <;>
      simp [roundPair, roundUpM, compare, compareOfLessAndEq, ht0, hq2] <;> (try split_ifs) <;> omega

/-- the digit-pair primitive agrees with the mode table for all 4200 arguments
    (7 modes × sign × 10 × 10 digits × tail flag), on the table regenerated from the source -/
theorem roundPair_table : ∀ (m : Mode) (neg : Bool) (l r : Fin 10) (tz : Bool),
    roundPair m neg l r tz = l + (if pairUp m neg l r tz then 1 else 0) := by
  intro m neg l r tz
  cases m <;> cases neg <;> cases tz <;> revert l r <;> decide

/-- the trailing-zeros flag only matters where `needs_trailing_zeros` says so -/
theorem roundPair_tz_guard : ∀ (m : Mode) (neg : Bool) (l low : Fin 10) (x : Bool),
    roundPair m neg l low (needsTrailingZeros m low && x) = roundPair m neg l low x := by
  intro m neg l low x
  cases m <;> cases neg <;> cases x <;> revert l low <;> decide

theorem wsrGreater_spec (m : Mode) (neg : Bool) (n k : Nat) (hk : 1 ≤ k) :
    ofDigitsLE (wsrGreater m neg (digitsLE n) k) = roundNat m neg n k := by
  obtain ⟨j, rfl⟩ : ∃ j, k = j + 1 := ⟨k - 1, by omega⟩
  unfold wsrGreater roundNat
  simp only [Nat.add_sub_cancel, digitsLE_getD, take_all_zero, digitsLE_drop, (digitsLE_head_tail _).1]
  set P := 10 ^ j with hPdef
  have hP : 0 < P := by positivity
  have hpow : 10 ^ (j + 1) = 10 * P := by rw [pow_succ']
  set q := n / 10 ^ (j + 1) with hq
  set low := n / P % 10 with hlow
  set t := n % P with ht
  have hlow10 : low < 10 := Nat.mod_lt _ (by norm_num)
  have htP : t < P := Nat.mod_lt _ hP
  have hr : n % 10 ^ (j + 1) = low * P + t := by
    rw [hpow, mul_comm 10 P, Nat.mod_mul]; ring
  rw [hr, hpow, roundPair_tail m neg q low t P hP htP hlow10]
  have hq10 : q % 10 + 10 * (q / 10) = q := Nat.mod_add_div q 10
  have hb : (if roundUpM m neg q (low * P + t) (10 * P) = true then 1 else 0) ≤ 1 := by
    split <;> omega
  generalize (if roundUpM m neg q (low * P + t) (10 * P) = true then 1 else 0) = b at hb ⊢
  have hq9 : q % 10 < 10 := Nat.mod_lt _ (by norm_num)
  split
  · simp only [ofDigitsLE, ofDigitsLE_digitsLE]; omega
  · simp only [ofDigitsLE, ofDigitsLE_incr _ (digitsLE_lt _), ofDigitsLE_digitsLE]; omega

end BigDec

namespace BigDec
open Generated Spec

theorem getLastD_eq_getD (l : List Nat) : l.getLastD 0 = l.getD (l.length - 1) 0 := by
  rw [List.getLastD_eq_getLast?, List.getLast?_eq_getElem?, List.getD_eq_getElem?_getD]

theorem roundUpM_zero_tail (m : Mode) (neg : Bool) (q M : Nat) (hM : 0 < M) :
    roundUpM m neg q 0 M = false := by
  cases m <;> simp [roundUpM] <;> omega

/-- all three regimes of the `Less` branch of `with_scale_round` compute `roundNat` -/
theorem wsrMagnitude_spec (m : Mode) (neg : Bool) (n : Nat) (hn : n ≠ 0) (scale ns : Int) (h : ns < scale) :
    wsrMagnitude m neg n scale ns = roundNat m neg n (scale - ns).toNat := by
  have hlen := digitsLE_length n hn
  have hpos := numDigits_pos n
  have hlo := pow_numDigits_le n hn
  have hhi := lt_pow_numDigits n
  unfold wsrMagnitude
  rw [hlen]
  split
  · -- Equal: k = numDigits n
    rename_i heq
    have hk : (scale - ns).toNat = (numDigits n - 1) + 1 := by omega
    rw [getLastD_eq_getD, hlen, digitsLE_getD, List.dropLast_eq_take, hlen, take_all_zero]
    unfold roundNat
    rw [hk]
    set P := 10 ^ (numDigits n - 1) with hP
    have hPpos : 0 < P := by positivity
    have hpow : 10 ^ (numDigits n - 1 + 1) = 10 * P := by rw [pow_succ']
    have hn10 : n < 10 * P := by rw [← hpow]; have : numDigits n - 1 + 1 = numDigits n := by omega
                                 rw [this]; exact hhi
    have hq : n / (10 * P) = 0 := Nat.div_eq_of_lt hn10
    have hlow : n / P < 10 := by rw [Nat.div_lt_iff_lt_mul hPpos]; omega
    rw [hpow, hq, Nat.mod_eq_of_lt hn10, Nat.mod_eq_of_lt hlow]
    have key := roundPair_tail m neg 0 (n / P) (n % P) P hPpos (Nat.mod_lt _ hPpos) hlow
    have hsplit : n / P * P + n % P = n := Nat.div_add_mod' n P
    rw [hsplit] at key
    simpa using key
  · split
    · -- Less: n < 10^(k-1)
      rename_i hne hlt
      have hk : (scale - ns).toNat = ((scale - ns).toNat - 1) + 1 := by omega
      have hkd : numDigits n ≤ (scale - ns).toNat - 1 := by omega
      unfold roundNat
      rw [hk]
      set P := 10 ^ ((scale - ns).toNat - 1) with hP
      have hPpos : 0 < P := by positivity
      have hpow : 10 ^ ((scale - ns).toNat - 1 + 1) = 10 * P := by rw [pow_succ']
      have hnP : n < P := lt_of_lt_of_le hhi (Nat.pow_le_pow_right (by norm_num) hkd)
      have hq : n / (10 * P) = 0 := Nat.div_eq_of_lt (by omega)
      rw [hpow, hq, Nat.mod_eq_of_lt (by omega : n < 10 * P)]
      have key := roundPair_tail m neg 0 0 n P hPpos hnP (by norm_num)
      simpa [hn] using key
    · -- Greater
      rename_i hne hge
      exact wsrGreater_spec m neg n _ (by omega)

theorem roundNat_zero (m : Mode) (neg : Bool) (k : Nat) : roundNat m neg 0 k = 0 := by
  unfold roundNat
  simp [roundUpM_zero_tail m neg 0 (10 ^ k) (by positivity)]

/-- **`with_scale_round` equals the declarative rounding to a scale**, for every decimal, every
    target scale and all seven modes. -/
theorem withScaleRound_spec (d : Dec) (ns : Int) (m : Mode) :
    d.withScaleRound ns m = Spec.roundToScale d ns m := by
  unfold Dec.withScaleRound Spec.roundToScale
  split
  · rename_i h0
    split
    · simp [h0]
    · simp [h0, sgn, roundNat_zero]
  · rename_i h0
    split
    · rename_i heq
      subst heq
      simp
    · split
      · rename_i hne hgt
        rw [tenToTheUint_eq, if_pos (by omega)]
      · rename_i hne hle
        have hge : ¬ (ns ≥ d.scale) := by omega
        simp only [hge, if_false, sgn]
        rw [wsrMagnitude_spec m _ _ (Int.natAbs_ne_zero.mpr h0) _ _ (by omega)]

end BigDec
