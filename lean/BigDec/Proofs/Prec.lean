import BigDec.Proofs.Round
import BigDec.Proofs.Value
/-! rounding to a precision: `with_precision_round`, `with_prec` -/
namespace BigDec
open Generated Spec

theorem specNumDigits_eq (n : Nat) : Spec.numDigits n = numDigits n := by
  induction n using Nat.strong_induction_on with
  | _ n ih =>
    unfold Spec.numDigits numDigits
    split
    · rfl
    · rw [ih (n / 10) (by omega)]

/-- the HalfUp decision, as computed by `with_prec`: compare `p` with `10 r`, then the leading
    digit of `r` -/
theorem withPrec_term (r k : Nat) (hk : 1 ≤ k) (hr : r < 10 ^ k) :
    (if 10 ^ k < 10 * r then roundTerm r else 0) = (if roundUpM .HalfUp false 0 r (10 ^ k) then 1 else 0) := by
  obtain ⟨j, rfl⟩ : ∃ j, k = j + 1 := ⟨k - 1, by omega⟩
  have hpow : 10 ^ (j + 1) = 10 * 10 ^ j := by rw [pow_succ']
  simp only [roundUpM, ge_iff_le, decide_eq_true_eq]
  by_cases h2 : 10 ^ (j + 1) ≤ 2 * r
  · have hlt : 10 ^ (j + 1) < 10 * r := by omega
    have hr0 : r ≠ 0 := by
      intro h; subst h; have : 0 < 10 ^ (j+1) := by positivity
      omega
    have hnd : numDigits r = j + 1 := numDigits_unique r (j + 1) hr0 (by simp; omega) hr
    simp only [hlt, if_true, h2]
    unfold roundTerm
    rw [hnd]; simp only [Nat.add_sub_cancel]
    rw [if_pos ⟨hr0, by omega⟩]
  · simp only [h2, if_false]
    split
    · rename_i hlt
      have hr0 : r ≠ 0 := by intro h; subst h; simp at hlt
      have hnd : numDigits r = j + 1 := numDigits_unique r (j + 1) hr0 (by simp; omega) hr
      unfold roundTerm
      rw [hnd]; simp only [Nat.add_sub_cancel]
      rw [if_neg]; intro ⟨_, h⟩; omega
    · rfl

/-- **`with_prec(p)` is rounding to `p` significant digits with ties away from zero**, for both
    signs, for every estimate satisfying `EstOK`. -/
theorem withPrec_spec {est : Nat → Nat} (h : EstOK est) (d : Dec) (prec : Nat) :
    d.withPrec est prec = Spec.roundToPrec d prec .HalfUp := by
  unfold Dec.withPrec Spec.roundToPrec Spec.roundToScale
  rw [specNumDigits_eq]
  unfold Dec.digits
  set n := d.int.natAbs with hn
  set nd := numDigits n with hnd
  split
  · rename_i hgt
    have hns : ¬ (d.scale + ((prec:Int) - (nd:Int)) ≥ d.scale) := by omega
    rw [if_neg hns]
    have hk : (d.scale - (d.scale + ((prec:Int) - (nd:Int)))).toNat = nd - prec := by omega
    rw [hk, tenToTheUint_eq]
    have hk1 : 1 ≤ nd - prec := by omega
    have hP : 0 < 10 ^ (nd - prec) := by positivity
    have hsc : d.scale - ((nd - prec : Nat) : Int) = d.scale + ((prec:Int) - (nd:Int)) := by omega
    rw [hsc, tmod_natCast_eq, tdiv_natCast_eq, getRoundingTerm_spec h]
    simp only [← hn]
    have hr : n % 10 ^ (nd - prec) < 10 ^ (nd - prec) := Nat.mod_lt _ hP
    have habs : ((if d.int < 0 then (-1:Int) else 1) * ((n % 10 ^ (nd - prec) : Nat) : Int)).natAbs = n % 10 ^ (nd - prec) := by
      split <;> simp only [neg_one_mul, one_mul, Int.natAbs_neg, Int.natAbs_natCast]
    rw [habs]
    have key := withPrec_term (n % 10 ^ (nd - prec)) (nd - prec) hk1 hr
    have hup : roundUpM .HalfUp (decide (d.int < 0)) (n / 10 ^ (nd - prec)) (n % 10 ^ (nd - prec)) (10 ^ (nd - prec))
        = roundUpM .HalfUp false 0 (n % 10 ^ (nd - prec)) (10 ^ (nd - prec)) := by
      simp [roundUpM]
    unfold roundNat
    rw [hup, ← key]
    unfold sgn
    clear_value nd n
    by_cases hneg : d.int < 0
    · simp only [hneg, if_true]
      split
      · congr 1; rw [Nat.cast_add]; ring
      · simp
    · simp only [hneg, if_false]
      split
      · congr 1; rw [Nat.cast_add]; ring
      · simp
  · rename_i hle
    split
    · rename_i hlt
      have hns : d.scale + ((prec:Int) - (nd:Int)) ≥ d.scale := by omega
      rw [if_pos hns, tenToTheUint_eq]
      have : (d.scale + ((prec:Int) - (nd:Int)) - d.scale).toNat = prec - nd := by omega
      rw [this]
      congr 1; omega
    · have : prec = nd := by omega
      subst this
      simp

/-- `with_precision_round` rounds at the p-th significant digit (no overflow in range) -/
theorem withPrecisionRound_spec (d : Dec) (prec : Nat) (m : Mode) (r : Dec)
    (h : d.withPrecisionRound prec m = some r) : r = Spec.roundToPrec d prec m := by
  unfold Dec.withPrecisionRound at h
  split at h
  · simp at h
  · simp only [] at h
    split at h
    · simp at h
    · simp only [Option.some.injEq] at h
      rw [← h, withScaleRound_spec]
      unfold Spec.roundToPrec Dec.digits
      rw [specNumDigits_eq]

end BigDec
