import BigDec.Model.Serde
import BigDec.Proofs.Render
/-! JSON-number grammar of the texts the adapters emit: building blocks and the dotless notation. -/
namespace BigDec
open Fmt Serde

theorem isDigit_digitChar (d : Nat) (h : d < 10) : isDigit (digitChar d) = true := by
  interval_cases d <;> decide

theorem digitChar_ne_zero (d : Nat) (h : d < 10) (h0 : d ≠ 0) : digitChar d ≠ '0' := by
  interval_cases d <;> first | contradiction | decide

theorem isDigit_ne_minus (c : Char) (h : isDigit c = true) : c ≠ '-' := by
  intro e; subst e; revert h; decide

theorem dropWhile_digits (r t : List Char) (c : Char) (hr : ∀ x ∈ r, isDigit x = true) (hc : isDigit c = false) :
    (r ++ c :: t).dropWhile isDigit = c :: t := by
  induction r with
  | nil => simp [List.dropWhile, hc]
  | cons a r ih =>
    have ha := hr a (by simp)
    simp only [List.cons_append, List.dropWhile_cons, ha, if_true]
    exact ih (fun x hx => hr x (by simp [hx]))

theorem digitsLE_reverse_shape (n : Nat) (h : n ≠ 0) :
    ∃ d l, (digitsLE n).reverse = d :: l ∧ d ≠ 0 ∧ d < 10 ∧ ∀ x ∈ l, x < 10 := by
  induction n using Nat.strong_induction_on with
  | _ n ih =>
    obtain ⟨m, rfl⟩ : ∃ m, n = m + 1 := ⟨n - 1, by omega⟩
    rw [digitsLE]
    by_cases hq : (m + 1) / 10 = 0
    · rw [hq, digitsLE]
      refine ⟨(m + 1) % 10, [], by simp, ?_, by omega, by simp⟩
      omega
    · obtain ⟨d, l, hl, hd0, hd, hlt⟩ := ih ((m + 1) / 10) (by omega) hq
      refine ⟨d, l ++ [(m + 1) % 10], ?_, hd0, hd, ?_⟩
      · rw [List.reverse_cons, hl]; rfl
      · intro x hx
        rcases List.mem_append.mp hx with hx | hx
        · exact hlt x hx
        · simp at hx; omega

/-- `natStr n` is `0` or a digit string without a leading zero -/
theorem natStr_shape (n : Nat) :
    ∃ c r, natStr n = c :: r ∧ isDigit c = true ∧ (∀ x ∈ r, isDigit x = true) ∧ (c = '0' → r = []) := by
  unfold natStr
  by_cases h : n = 0
  · simp [h]; decide
  · rw [if_neg h]
    obtain ⟨d, l, hl, hd0, hd, hlt⟩ := digitsLE_reverse_shape n h
    rw [hl]
    refine ⟨digitChar d, l.map digitChar, by simp, isDigit_digitChar d hd, ?_, ?_⟩
    · intro x hx
      obtain ⟨y, hy, rfl⟩ := List.mem_map.mp hx
      exact isDigit_digitChar y (hlt y hy)
    · intro e; exact absurd e (digitChar_ne_zero d hd hd0)
theorem all_digits (c : Char) (r : List Char) (hc : isDigit c = true) (hr : ∀ x ∈ r, isDigit x = true) :
    (c :: r).all isDigit = true := by
  simp only [List.all_cons, hc, Bool.true_and, List.all_eq_true]; exact hr

/-- the dotless notation `<digits>e±<digits>` is a JSON number -/
theorem isJsonNumber_dotless (n : Nat) (x : Int) : isJsonNumber (dotlessText n x) = true := by
  unfold dotlessText intStrPlus
  obtain ⟨c, r, hn, hc, hr, hz⟩ := natStr_shape n
  obtain ⟨c2, r2, hn2, hc2, hr2, -⟩ := natStr_shape (-x).natAbs
  rw [hn, hn2]
  have hcm := isDigit_ne_minus c hc
  have he : isDigit 'e' = false := by decide
  by_cases h0 : c = '0'
  · have := hz h0; subst this; subst h0
    split <;> simp [isJsonNumber, hc2, all_digits c2 r2 hc2 hr2]
  · have hd : ∀ t, (r ++ 'e' :: t).dropWhile isDigit = 'e' :: t := fun t => dropWhile_digits r t 'e' hr he
    split
    · simp only [List.cons_append, List.append_assoc, List.nil_append]
      unfold isJsonNumber
      simp [hcm, h0, hc, hd, hc2, all_digits c2 r2 hc2 hr2]
    · simp only [List.cons_append, List.append_assoc, List.nil_append]
      unfold isJsonNumber
      simp [hcm, h0, hc, hd, hc2, all_digits c2 r2 hc2 hr2]
/-- the `E` notation without a precision, `d[.ddd]E±n`, is a JSON number -/
theorem isJsonNumber_exponential (cfg : Config) (neg : Bool) (n : Nat) (scale : Int) :
    isJsonNumber (exponentialText cfg neg n scale none 'E') = true := by
  unfold exponentialText
  obtain ⟨c, r, hn, hc, hr, hz⟩ := natStr_shape n
  simp only [hn, List.length_cons, Nat.lt_irrefl, gt_iff_lt, decide_false, Bool.or_false, zeros,
    List.replicate_zero, List.append_nil, List.take_succ_cons, List.take_zero, List.drop_succ_cons, List.drop_zero]
  generalize ((r.length + 1 : Nat) : Int) + -scale - 1 = ex
  unfold intStrPlus
  obtain ⟨c2, r2, hn2, hc2, hr2, -⟩ := natStr_shape ex.natAbs
  rw [hn2]
  have hcm := isDigit_ne_minus c hc
  have hE : isDigit 'E' = false := by decide
  have hdot : isDigit '.' = false := by decide
  have hall := all_digits c2 r2 hc2 hr2
  by_cases hx : ex < 0
  · cases r with
    | nil =>
      by_cases h0 : c = '0'
      · subst h0
        simp [isJsonNumber, hc2, hall, hx]
      · simp only [List.length_nil]
        unfold isJsonNumber; simp [hcm, h0, hc, hE, hc2, hall, hx]
    | cons f fr =>
      have h0 : c ≠ '0' := fun e => by have := hz e; cases this
      have hf : isDigit f = true := hr f (by simp)
      have hfr : ∀ x ∈ fr, isDigit x = true := fun x hx => hr x (by simp [hx])
      have hd : ∀ t, (fr ++ 'E' :: t).dropWhile isDigit = 'E' :: t := fun t => dropWhile_digits fr t 'E' hfr hE
      unfold isJsonNumber; simp [hcm, h0, hc, hE, hdot, hf, hd, hc2, hall, hx]
  · cases r with
    | nil =>
      by_cases h0 : c = '0'
      · subst h0
        simp [isJsonNumber, hc2, hall, hx]
      · simp only [List.length_nil]
        unfold isJsonNumber; simp [hcm, h0, hc, hE, hc2, hall, hx]
    | cons f fr =>
      have h0 : c ≠ '0' := fun e => by have := hz e; cases this
      have hf : isDigit f = true := hr f (by simp)
      have hfr : ∀ x ∈ fr, isDigit x = true := fun x hx => hr x (by simp [hx])
      have hd : ∀ t, (fr ++ 'E' :: t).dropWhile isDigit = 'E' :: t := fun t => dropWhile_digits fr t 'E' hfr hE
      unfold isJsonNumber; simp [hcm, h0, hc, hE, hdot, hf, hd, hc2, hall, hx]

/-- a leading minus sign in front of a digit is accepted and changes nothing else -/
theorem isJsonNumber_neg (c : Char) (r : List Char) (hc : isDigit c = true) :
    isJsonNumber ('-' :: c :: r) = isJsonNumber (c :: r) := by
  have hcm := isDigit_ne_minus c hc
  unfold isJsonNumber
  simp [hcm]

theorem dotlessText_head (n : Nat) (x : Int) : ∃ c r, dotlessText n x = c :: r ∧ isDigit c = true := by
  obtain ⟨c, r, hn, hc, -, -⟩ := natStr_shape n
  exact ⟨c, r ++ ['e'] ++ intStrPlus (-x), by simp [dotlessText, hn], hc⟩

/-- the JSON-number adapter's text is inside serde_json's number grammar whenever `Display` picks the
    dotless notation, and for the special-cased zero of negative scale -/
theorem jsonNumText_grammar_dotless (cfg : Config) (npl : Nat) (d : Dec)
    (h : chooseNotation cfg d.int.natAbs d.scale none = .dotless ∨ (d.int = 0 ∧ d.scale < 0)) :
    isJsonNumber (jsonNumText cfg npl d) = true := by
  unfold jsonNumText
  by_cases hz : d.int = 0 ∧ d.scale < 0
  · rw [if_pos hz]; decide
  · rw [if_neg hz]
    have hd : chooseNotation cfg d.int.natAbs d.scale none = .dotless := by
      rcases h with h | h
      · exact h
      · exact absurd h hz
    unfold display
    simp only [padIntegral_default]
    rw [hd]
    simp only
    obtain ⟨c, r, he, hc⟩ := dotlessText_head d.int.natAbs d.scale
    cases hneg : decide (d.int < 0)
    · simpa using isJsonNumber_dotless d.int.natAbs d.scale
    · have := isJsonNumber_dotless d.int.natAbs d.scale
      rw [he] at this ⊢
      simpa [isJsonNumber_neg c r hc] using this
theorem exponentialText_head (cfg : Config) (neg : Bool) (n : Nat) (scale : Int) :
    ∃ c r, exponentialText cfg neg n scale none 'E' = c :: r ∧ isDigit c = true := by
  unfold exponentialText
  obtain ⟨c, r, hn, hc, -, -⟩ := natStr_shape n
  simp only [hn]
  by_cases hnp : (decide ((c :: r).length > 1) || decide (0 > 0)) = true
  · simp only [hnp, if_true, List.take_succ_cons, List.take_zero, List.cons_append, List.nil_append]
    exact ⟨c, _, rfl, hc⟩
  · simp only [hnp, List.cons_append]
    exact ⟨c, _, rfl, hc⟩

/-- the JSON-number adapter's text is inside serde_json's number grammar whenever `Display` picks the `E` or
    the dotless notation, and for the special-cased zero of negative scale -/
theorem jsonNumText_grammar_exp (cfg : Config) (npl : Nat) (d : Dec)
    (h : chooseNotation cfg d.int.natAbs d.scale none ≠ .full ∨ (d.int = 0 ∧ d.scale < 0)) :
    isJsonNumber (jsonNumText cfg npl d) = true := by
  cases hnot : chooseNotation cfg d.int.natAbs d.scale none with
  | dotless => exact jsonNumText_grammar_dotless cfg npl d (Or.inl hnot)
  | full =>
    rcases h with h | h
    · exact absurd hnot h
    · exact jsonNumText_grammar_dotless cfg npl d (Or.inr h)
  | exponential =>
    unfold jsonNumText
    by_cases hz : d.int = 0 ∧ d.scale < 0
    · rw [if_pos hz]; decide
    · rw [if_neg hz]
      unfold display
      simp only [padIntegral_default]
      rw [hnot]
      simp only
      obtain ⟨c, r, he, hc⟩ := exponentialText_head cfg (decide (d.int < 0)) d.int.natAbs d.scale
      have := isJsonNumber_exponential cfg (decide (d.int < 0)) d.int.natAbs d.scale
      cases hneg : decide (d.int < 0)
      · rw [hneg] at this; simpa using this
      · rw [hneg] at this he
        rw [he] at this ⊢
        simpa [isJsonNumber_neg c r hc] using this

theorem natStr_head_ne_zero (n : Nat) (h : n ≠ 0) :
    ∃ c r, natStr n = c :: r ∧ isDigit c = true ∧ (∀ x ∈ r, isDigit x = true) ∧ c ≠ '0' := by
  unfold natStr
  rw [if_neg h]
  obtain ⟨d, l, hl, hd0, hd, hlt⟩ := digitsLE_reverse_shape n h
  rw [hl]
  refine ⟨digitChar d, l.map digitChar, by simp, isDigit_digitChar d hd, ?_, digitChar_ne_zero d hd hd0⟩
  intro x hx
  obtain ⟨y, hy, rfl⟩ := List.mem_map.mp hx
  exact isDigit_digitChar y (hlt y hy)

/-- a plain integer text: digits without a leading zero (or the single digit `0`) -/
theorem isJsonNumber_int (c : Char) (r : List Char) (hc : isDigit c = true) (hr : ∀ x ∈ r, isDigit x = true)
    (hz : c = '0' → r = []) : isJsonNumber (c :: r) = true := by
  have hcm := isDigit_ne_minus c hc
  have hdw : r.dropWhile isDigit = [] := by
    clear hz
    induction r with
    | nil => rfl
    | cons a r ih =>
      have ha := hr a (by simp)
      simp only [List.dropWhile_cons, ha, if_true]
      exact ih (fun x hx => hr x (by simp [hx]))
  by_cases h0 : c = '0'
  · have := hz h0; subst this; subst h0; decide
  · unfold isJsonNumber; simp [hcm, h0, hc, hdw]

/-- integers (scale ≤ 0) in every layout `Display` can choose -/
theorem jsonNumText_grammar_int (cfg : Config) (npl : Nat) (d : Dec) (hs : d.scale ≤ 0) :
    isJsonNumber (jsonNumText cfg npl d) = true := by
  cases hnot : chooseNotation cfg d.int.natAbs d.scale none with
  | dotless => exact jsonNumText_grammar_exp cfg npl d (Or.inl (by rw [hnot]; decide))
  | exponential => exact jsonNumText_grammar_exp cfg npl d (Or.inl (by rw [hnot]; decide))
  | full =>
    unfold jsonNumText
    by_cases hz : d.int = 0 ∧ d.scale < 0
    · rw [if_pos hz]; decide
    · rw [if_neg hz]
      unfold display
      simp only [padIntegral_default]
      rw [hnot]
      simp only
      unfold fullScaleText
      simp only [hs, if_true]
      -- the text without the sign starts with a digit and is a JSON number
      have key : ∃ c r, (if (zeroRightPad cfg npl (natStr d.int.natAbs) (-d.scale).toNat none).2 ≠ 0 then
            (zeroRightPad cfg npl (natStr d.int.natAbs) (-d.scale).toNat none).1 ++ ['e'] ++
              intStrPlus (zeroRightPad cfg npl (natStr d.int.natAbs) (-d.scale).toNat none).2
          else (zeroRightPad cfg npl (natStr d.int.natAbs) (-d.scale).toNat none).1) = c :: r ∧
          isDigit c = true ∧ isJsonNumber (c :: r) = true := by
        rcases zeroRightPad_none cfg npl (natStr d.int.natAbs) (-d.scale).toNat with ⟨h1, hne⟩ | h1
        · rw [h1]
          simp only [ne_eq, hne, not_false_eq_true, if_true]
          obtain ⟨c, r, he, hc⟩ := dotlessText_head d.int.natAbs (-(((-d.scale).toNat : Nat) : Int))
          have hj := isJsonNumber_dotless d.int.natAbs (-(((-d.scale).toNat : Nat) : Int))
          unfold dotlessText at he hj
          rw [neg_neg] at he hj
          exact ⟨c, r, he, hc, by rw [← he]; exact hj⟩
        · rw [h1]
          simp only [ne_eq, not_true_eq_false, if_false]
          by_cases hn0 : d.int.natAbs = 0
          · have hi : d.int = 0 := Int.natAbs_eq_zero.mp hn0
            have hsc : d.scale = 0 := by
              by_contra hne; exact hz ⟨hi, by omega⟩
            refine ⟨'0', [], ?_, by decide, by decide⟩
            simp [hn0, hsc, natStr, zeros]
          · obtain ⟨c, r, hn, hc, hr, hc0⟩ := natStr_head_ne_zero d.int.natAbs hn0
            refine ⟨c, r ++ zeros (-d.scale).toNat, by simp [hn], hc, ?_⟩
            apply isJsonNumber_int c _ hc
            · intro x hx
              rcases List.mem_append.mp hx with hx | hx
              · exact hr x hx
              · have : x = '0' := by
                  unfold zeros at hx; exact (List.mem_replicate.mp hx).2
                subst this; decide
            · intro e; exact absurd e hc0
      obtain ⟨c, r, he, hc, hj⟩ := key
      rw [he]
      cases hneg : decide (d.int < 0)
      · simpa using hj
      · simpa [isJsonNumber_neg c r hc] using hj

theorem dropWhile_all_digits (r : List Char) (hr : ∀ x ∈ r, isDigit x = true) : r.dropWhile isDigit = [] := by
  induction r with
  | nil => rfl
  | cons a r ih =>
    have ha := hr a (by simp)
    simp only [List.dropWhile_cons, ha, if_true]
    exact ih (fun x hx => hr x (by simp [hx]))

/-- integer part, a point and at least one fraction digit -/
theorem isJsonNumber_frac (c : Char) (ri : List Char) (f : Char) (fr : List Char)
    (hc : isDigit c = true) (hri : ∀ x ∈ ri, isDigit x = true) (hz : c = '0' → ri = [])
    (hf : isDigit f = true) (hfr : ∀ x ∈ fr, isDigit x = true) :
    isJsonNumber (c :: (ri ++ '.' :: f :: fr)) = true := by
  have hcm := isDigit_ne_minus c hc
  have hdot : isDigit '.' = false := by decide
  have hd := dropWhile_digits ri (f :: fr) '.' hri hdot
  have hdf := dropWhile_all_digits fr hfr
  by_cases h0 : c = '0'
  · have := hz h0; subst this; subst h0
    unfold isJsonNumber; simp [hf, hdf]
  · unfold isJsonNumber; simp [hcm, h0, hc, hd, hf, hdf]

/-- the plain layout with a decimal point (scale > 0, no precision) -/
theorem fullScaleText_frac_grammar (cfg : Config) (npl : Nat) (neg : Bool) (n : Nat) (scale : Int) (hs : 0 < scale) :
    ∃ c r, fullScaleText cfg npl neg n scale none = c :: r ∧ isDigit c = true ∧ isJsonNumber (c :: r) = true := by
  unfold fullScaleText
  have hs' : ¬ scale ≤ 0 := by omega
  simp only [hs', if_false, Option.getD_none]
  obtain ⟨sc, hsc⟩ : ∃ sc : Nat, scale.toNat = sc := ⟨_, rfl⟩
  have hscpos : 0 < sc := by omega
  rw [hsc]
  by_cases hlt : sc < (natStr n).length
  · rw [if_pos hlt]
    unfold fmtIntFrac
    have hn0 : n ≠ 0 := by
      intro e; subst e; simp [natStr] at hlt; omega
    obtain ⟨c, r, hn, hc, hr, hc0⟩ := natStr_head_ne_zero n hn0
    rw [hn] at hlt ⊢
    simp only [List.length_cons] at hlt
    simp only [Nat.lt_irrefl, if_false, List.length_cons, ne_eq, Nat.pos_iff_ne_zero.mp hscpos, not_false_eq_true, if_true]
    have hk : r.length + 1 - sc = (r.length - sc) + 1 := by omega
    rw [hk, List.take_succ_cons, List.drop_succ_cons]
    have hdne : r.drop (r.length - sc) ≠ [] := by
      intro e
      have := congrArg List.length e
      simp at this; omega
    obtain ⟨f, fr, hfe⟩ := List.exists_cons_of_ne_nil hdne
    refine ⟨c, r.take (r.length - sc) ++ '.' :: r.drop (r.length - sc), by simp, hc, ?_⟩
    rw [hfe]
    have hmem : ∀ x ∈ f :: fr, isDigit x = true := by
      intro x hx; rw [← hfe] at hx; exact hr x (List.mem_of_mem_drop hx)
    exact isJsonNumber_frac c _ f fr hc (fun x hx => hr x (List.mem_of_mem_take hx))
      (fun e => absurd e hc0) (hmem f (by simp)) (fun x hx => hmem x (by simp [hx]))
  · rw [if_neg hlt]
    unfold fmtNoInt
    obtain ⟨c, r, hn, hc, hr, -⟩ := natStr_shape n
    rw [hn] at hlt ⊢
    simp only [List.length_cons] at hlt
    have h1 : ¬ sc ≤ sc - (r.length + 1) := by omega
    have h2 : ¬ sc - (sc - (r.length + 1)) < r.length + 1 := by omega
    simp only [List.length_cons, h1, if_false, h2, ne_eq, Nat.pos_iff_ne_zero.mp hscpos, not_false_eq_true, if_true,
      Nat.sub_self, zeros, List.replicate_zero, List.append_nil]
    refine ⟨'0', _, rfl, by decide, ?_⟩
    have hall : ∀ x ∈ List.replicate (sc + 2 - 0 - (r.length + 1) - 2) '0' ++ c :: r, isDigit x = true := by
      intro x hx
      rcases List.mem_append.mp hx with hx | hx
      · have : x = '0' := (List.mem_replicate.mp hx).2
        subst this; decide
      · rcases List.mem_cons.mp hx with hx | hx
        · subst hx; exact hc
        · exact hr x hx
    have hne : List.replicate (sc + 2 - 0 - (r.length + 1) - 2) '0' ++ c :: r ≠ [] := by simp
    obtain ⟨f, fr, hfe⟩ := List.exists_cons_of_ne_nil hne
    have := isJsonNumber_frac '0' [] f fr (by decide) (by simp) (fun _ => rfl)
      (by apply hall; rw [hfe]; simp) (fun x hx => by apply hall; rw [hfe]; simp [hx])
    rw [← hfe] at this
    simpa using this

/-- **every** text the JSON-number adapter emits is inside serde_json's number grammar -/
theorem jsonNumText_grammar (cfg : Config) (npl : Nat) (d : Dec) :
    isJsonNumber (jsonNumText cfg npl d) = true := by
  by_cases hs : d.scale ≤ 0
  · exact jsonNumText_grammar_int cfg npl d hs
  · cases hnot : chooseNotation cfg d.int.natAbs d.scale none with
    | dotless => exact jsonNumText_grammar_exp cfg npl d (Or.inl (by rw [hnot]; decide))
    | exponential => exact jsonNumText_grammar_exp cfg npl d (Or.inl (by rw [hnot]; decide))
    | full =>
      unfold jsonNumText
      have hz : ¬ (d.int = 0 ∧ d.scale < 0) := by omega
      rw [if_neg hz]
      unfold display
      simp only [padIntegral_default]
      rw [hnot]
      simp only
      obtain ⟨c, r, he, hc, hj⟩ := fullScaleText_frac_grammar cfg npl (decide (d.int < 0)) d.int.natAbs d.scale (by omega)
      rw [he]
      cases hneg : decide (d.int < 0)
      · simpa using hj
      · simpa [isJsonNumber_neg c r hc] using hj

end BigDec
