import BigDec.Model.Fmt
/-! Width, fill, alignment, zero-padding and `+` only add padding characters or a sign around the
    numeral printed without them. -/
namespace BigDec
open Fmt

/-- `pad_integral`: the digits `buf` appear unchanged, preceded by the sign (`-`, or `+` when asked),
    surrounded only by fill characters (outside the sign) or zeros (between sign and digits) -/
theorem padIntegral_shape (fl : Flags) (nonneg : Bool) (buf : List Char) :
    ∃ pre mid post : List Char,
      padIntegral fl nonneg buf =
        pre ++ (if !nonneg then ['-'] else if fl.plus then ['+'] else []) ++ mid ++ buf ++ post ∧
      (∀ c ∈ pre, c = fl.fill) ∧ (∀ c ∈ post, c = fl.fill) ∧ (∀ c ∈ mid, c = '0') := by
  unfold padIntegral
  simp only
  generalize (if (!nonneg) = true then ['-'] else if fl.plus = true then ['+'] else []) = S
  cases hw : fl.width with
  | none => exact ⟨[], [], [], by simp, by simp, by simp, by simp⟩
  | some mn =>
    simp only
    by_cases h1 : buf.length + S.length ≥ mn
    · rw [if_pos h1]; exact ⟨[], [], [], by simp, by simp, by simp, by simp⟩
    · rw [if_neg h1]
      by_cases h2 : fl.zero = true
      · rw [if_pos h2]
        refine ⟨[], zeros (mn - (buf.length + S.length)), [], by simp, by simp, by simp, ?_⟩
        intro c hc; unfold zeros at hc; exact (List.mem_replicate.mp hc).2
      · rw [if_neg h2]
        have key : ∀ (a b : Nat), ∃ pre mid post : List Char,
            List.replicate a fl.fill ++ S ++ buf ++ List.replicate b fl.fill = pre ++ S ++ mid ++ buf ++ post ∧
            (∀ c ∈ pre, c = fl.fill) ∧ (∀ c ∈ post, c = fl.fill) ∧ (∀ c ∈ mid, c = '0') := by
          intro a b
          refine ⟨List.replicate a fl.fill, [], List.replicate b fl.fill, by simp, ?_, ?_, by simp⟩
          · intro c hc; exact (List.mem_replicate.mp hc).2
          · intro c hc; exact (List.mem_replicate.mp hc).2
        cases ha : (if fl.align = Align.Unknown then Align.Right else fl.align) <;> exact key _ _

/-- the numeral itself depends on the flags only through the precision -/
theorem display_flags (cfg : Config) (npl : Nat) (fl : Flags) (d : Dec) :
    ∃ body : List Char,
      display cfg npl fl d = padIntegral fl (!decide (d.int < 0)) body ∧
      display cfg npl {precision := fl.precision} d = padIntegral {precision := fl.precision} (!decide (d.int < 0)) body :=
  ⟨_, rfl, rfl⟩

theorem lowerExp_flags (cfg : Config) (fl : Flags) (d : Dec) (eSym : Char) :
    ∃ body : List Char,
      lowerExp cfg fl d eSym = padIntegral fl (!decide (d.int < 0)) body ∧
      lowerExp cfg {precision := fl.precision} d eSym = padIntegral {precision := fl.precision} (!decide (d.int < 0)) body :=
  ⟨_, rfl, rfl⟩

end BigDec
