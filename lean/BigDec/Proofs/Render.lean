import BigDec.Model.Fmt
import BigDec.Spec.Numeral
import BigDec.Proofs.Round
import BigDec.Proofs.Digits
import BigDec.Proofs.Parse
/-! Reading rendered text back with the grammar specification: the general "canonical numeral"
    lemma and the facts about decimal digit strings it needs. -/
namespace BigDec
open Fmt Spec.Numeral

/-- the UTF-8 bytes of an ASCII text -/
def toBytes (cs : List Char) : List Nat := cs.map Char.toNat

@[simp] theorem toBytes_append (a b : List Char) : toBytes (a ++ b) = toBytes a ++ toBytes b := by
  simp [toBytes]
@[simp] theorem toBytes_nil : toBytes [] = [] := rfl
@[simp] theorem toBytes_cons (c : Char) (cs : List Char) : toBytes (c :: cs) = c.toNat :: toBytes cs := rfl

/-- big-endian decimal digits, `[0]` for zero -/
def digitsBE (n : Nat) : List Nat := if n = 0 then [0] else (digitsLE n).reverse

theorem digitChar_toNat (d : Nat) (h : d < 10) : (digitChar d).toNat = d + 48 := by
  have : ∀ k : Fin 10, (digitChar k.val).toNat = k.val + 48 := by decide
  exact this ⟨d, h⟩

theorem digitsBE_lt (n : Nat) : ∀ d ∈ digitsBE n, d < 10 := by
  intro d hd
  unfold digitsBE at hd
  split at hd
  · simp at hd; omega
  · exact digitsLE_lt n d (by simpa using hd)

theorem natStr_bytes (n : Nat) : toBytes (natStr n) = (digitsBE n).map (· + 48) := by
  unfold natStr digitsBE toBytes
  split
  · rfl
  · rw [List.map_map]
    apply List.map_congr_left
    intro d hd
    exact digitChar_toNat d (digitsLE_lt n d (by simpa using hd))

theorem foldl_reverse_digits (l : List Nat) :
    (l.reverse).foldl (fun a d => a * 10 + d) 0 = ofDigitsLE l := by
  induction l with
  | nil => rfl
  | cons d ds ih =>
    rw [List.reverse_cons, List.foldl_append, ih]
    simp only [List.foldl_cons, List.foldl_nil, ofDigitsLE]
    omega

theorem digitsToNat_digitsBE (n : Nat) : digitsToNat (digitsBE n) = n := by
  unfold digitsBE digitsToNat
  split
  · subst_vars; rfl
  · rw [foldl_reverse_digits, ofDigitsLE_digitsLE]

theorem digitsBE_length (n : Nat) : (digitsBE n).length = numDigits n := by
  unfold digitsBE
  split
  · subst_vars; rw [numDigits_zero]; rfl
  · rename_i h
    rw [List.length_reverse, digitsLE_length n h]

theorem digitsBE_ne_nil (n : Nat) : digitsBE n ≠ [] := by
  unfold digitsBE; split
  · simp
  · rename_i h
    intro hn
    have := digitsLE_length n h
    rw [List.reverse_eq_nil_iff] at hn
    rw [hn] at this
    have h1 := numDigits_pos n
    simp at this; omega

/-- digit bytes: all ASCII digits, and they read back as the digits -/
theorem digitBytes_all (ds : List Nat) (h : ∀ d ∈ ds, d < 10) :
    (ds.map (· + 48)).all Spec.Numeral.isDigit = true := by
  rw [List.all_eq_true]
  intro b hb
  obtain ⟨d, hd, rfl⟩ := List.mem_map.mp hb
  have := h d hd
  unfold Spec.Numeral.isDigit
  simp only [Bool.and_eq_true, decide_eq_true_eq]; omega

theorem segDigits_digitBytes (ds : List Nat) (h : ∀ d ∈ ds, d < 10) :
    segDigits (ds.map (· + 48)) = some ds := by
  rw [segDigits_of_all_digits _ (digitBytes_all ds h), List.map_map]
  congr 1
  conv => rhs; rw [← List.map_id ds]
  apply List.map_congr_left
  intro d _; simp

end BigDec

namespace BigDec
open Fmt Spec.Numeral Parse

theorem cut_no_sep (seps a : List Nat) (h : ∀ x ∈ a, seps.contains x = false) : cut seps a = (a, none) := by
  induction a with
  | nil => rfl
  | cons b bs ih =>
    unfold cut
    rw [h b (by simp)]
    simp only [Bool.false_eq_true, if_false]
    rw [ih (fun x hx => h x (by simp [hx]))]

theorem cut_at_sep (seps a b : List Nat) (s : Nat) (h : ∀ x ∈ a, seps.contains x = false)
    (hs : seps.contains s = true) : cut seps (a ++ s :: b) = (a, some b) := by
  induction a with
  | nil => unfold cut; rw [List.nil_append]; simp only [hs, if_true]
  | cons c cs ih =>
    rw [List.cons_append]
    unfold cut
    rw [h c (by simp)]
    simp only [Bool.false_eq_true, if_false]
    rw [ih (fun x hx => h x (by simp [hx]))]

/-- digits never contain an exponent marker or a point -/
theorem digit_not_eE (b : Nat) (h : Spec.Numeral.isDigit b = true) : ([101, 69] : List Nat).contains b = false := by
  unfold Spec.Numeral.isDigit at h
  simp only [Bool.and_eq_true, decide_eq_true_eq] at h
  rw [contains_eE]; simp [ce, cE]; omega

theorem digit_not_dot (b : Nat) (h : Spec.Numeral.isDigit b = true) : ([46] : List Nat).contains b = false := by
  unfold Spec.Numeral.isDigit at h
  simp only [Bool.and_eq_true, decide_eq_true_eq] at h
  rw [contains_dot]; simp [cDot]; omega

theorem noSign_of_digit_head (s : List Nat) (c : Nat) (r : List Nat) (hs : s = c :: r)
    (h : Spec.Numeral.isDigit c = true) : NoSign s := by
  subst hs
  unfold Spec.Numeral.isDigit at h
  simp only [Bool.and_eq_true, decide_eq_true_eq] at h
  unfold NoSign
  simp only [List.head?_cons]
  constructor <;> (intro hh; injection hh with hh; omega)

/-- the exponent field written by the formatter reads back -/
theorem exponentValue_digits (neg : Bool) (plus : Bool) (ds : List Nat) (h : ∀ d ∈ ds, d < 10) (hne : ds ≠ []) :
    exponentValue ((if neg then [45] else if plus then [43] else []) ++ ds.map (· + 48)) =
      some (if neg then -(digitsToNat ds : Int) else digitsToNat ds) := by
  have hall := digitBytes_all ds h
  have hseg := segDigits_digitBytes ds h
  have hne' : (ds.map (· + 48)).isEmpty = false := by
    cases ds with
    | nil => exact absurd rfl hne
    | cons _ _ => rfl
  unfold exponentValue
  cases neg with
  | true =>
    simp only [if_true, List.cons_append, List.nil_append]
    show (match takeSign (45 :: ds.map (· + 48)) with | (neg, body) => _) = _
    have : takeSign (45 :: ds.map (· + 48)) = (true, ds.map (· + 48)) := rfl
    rw [this]
    simp only [hne', Bool.false_eq_true, if_false, hseg, hall, if_true]
  | false =>
    cases plus with
    | true =>
      simp only [Bool.false_eq_true, if_false, if_true, List.cons_append, List.nil_append]
      have : takeSign (43 :: ds.map (· + 48)) = (false, ds.map (· + 48)) := rfl
      rw [this]
      simp only [hne', Bool.false_eq_true, if_false, hseg, hall, if_true]
    | false =>
      simp only [Bool.false_eq_true, if_false, List.nil_append]
      have hns : NoSign (ds.map (· + 48)) := by
        cases ds with
        | nil => exact absurd rfl hne
        | cons d r =>
          apply noSign_of_digit_head _ (d + 48) (r.map (· + 48)) rfl
          have := h d (by simp)
          unfold Spec.Numeral.isDigit
          simp only [Bool.and_eq_true, decide_eq_true_eq]; omega
      rw [takeSign_noSign _ hns]
      simp only [hne', Bool.false_eq_true, if_false, hseg, hall, if_true]

end BigDec

namespace BigDec
open Fmt Spec.Numeral Parse

theorem tailSpec_digits (neg : Bool) (di df : List Nat) (e : Int)
    (hdi : ∀ d ∈ di, d < 10) (hdf : ∀ d ∈ df, d < 10) (hne : di ≠ [])
    (hs : -(2 ^ 63 : Int) ≤ (df.length : Int) - e ∧ (df.length : Int) - e < 2 ^ 63) :
    tailSpec neg (di.map (· + 48)) (df.map (· + 48)) e =
      some ⟨(if neg then -1 else 1) * (digitsToNat (di ++ df) : Int), (df.length : Int) - e⟩ := by
  unfold tailSpec
  cases di with
  | nil => exact absurd rfl hne
  | cons d r =>
    have hd : Spec.Numeral.isDigit (d + 48) = true := by
      have := hdi d (by simp)
      unfold Spec.Numeral.isDigit
      simp only [Bool.and_eq_true, decide_eq_true_eq]; omega
    have h1 := segDigits_digitBytes (d :: r) hdi
    have h2 := segDigits_digitBytes df hdf
    simp only [List.map_cons, List.cons_append] at h1 ⊢
    simp only [hd, Bool.not_true, Bool.false_eq_true, if_false]
    rw [h1, h2]
    simp only
    have : ¬ ((df.length : Int) - e < -(2 ^ 63 : Int) ∨ (df.length : Int) - e ≥ (2 ^ 63 : Int)) := by omega
    rw [if_neg this]
    rfl

/-- the mantissa part of a canonical numeral -/
theorem mantSpec_canonical (neg : Bool) (di df : List Nat) (dp : List Nat) (e : Int)
    (hdi : ∀ d ∈ di, d < 10) (hdf : ∀ d ∈ df, d < 10) (hne : di ≠ [])
    (hdp : (dp = [] ∧ df = []) ∨ dp = 46 :: df.map (· + 48))
    (hs : -(2 ^ 63 : Int) ≤ (df.length : Int) - e ∧ (df.length : Int) - e < 2 ^ 63) :
    mantSpec ((if neg then [45] else []) ++ di.map (· + 48) ++ dp) e =
      some ⟨(if neg then -1 else 1) * (digitsToNat (di ++ df) : Int), (df.length : Int) - e⟩ := by
  have hI := digitBytes_all di hdi
  rw [List.all_eq_true] at hI
  unfold mantSpec
  have hts : takeSign ((if neg then [45] else []) ++ di.map (· + 48) ++ dp) = (neg, di.map (· + 48) ++ dp) := by
    cases neg with
    | true => rfl
    | false =>
      simp only [Bool.false_eq_true, if_false, List.nil_append]
      apply takeSign_noSign
      cases di with
      | nil => exact absurd rfl hne
      | cons d r =>
        apply noSign_of_digit_head _ (d + 48) (r.map (· + 48) ++ dp) (by simp)
        exact hI (d + 48) (by simp)
  rw [hts]
  simp only
  unfold bodySpec
  have hIdot : ∀ x ∈ di.map (· + 48), ([46] : List Nat).contains x = false :=
    fun x hx => digit_not_dot x (hI x hx)
  rcases hdp with ⟨h1, h2⟩ | h
  · rw [h1, List.append_nil, cut_no_sep _ _ hIdot]
    simp only [Option.getD_none]
    subst h2
    have := tailSpec_digits neg di [] e hdi (by simp) hne (by simpa using hs)
    simpa using this
  · rw [h, cut_at_sep _ _ _ _ hIdot (by decide)]
    simp only [Option.getD_some]
    exact tailSpec_digits neg di df e hdi hdf hne hs

/-- **Canonical numeral lemma.**  A text of the shape `-? digits (. digits)? ([eE] exponent)?`
    is read by the grammar as exactly those digits with scale `#fraction digits − exponent`. -/
theorem specParse_canonical (neg : Bool) (di df : List Nat) (dp ep : List Nat) (e : Int)
    (hdi : ∀ d ∈ di, d < 10) (hdf : ∀ d ∈ df, d < 10) (hne : di ≠ [])
    (hdp : (dp = [] ∧ df = []) ∨ dp = 46 :: df.map (· + 48))
    (hep : (ep = [] ∧ e = 0) ∨ ∃ s E, (s = 101 ∨ s = 69) ∧ ep = s :: E ∧ exponentValue E = some e)
    (he : -(2 ^ 127 : Int) ≤ e ∧ e < 2 ^ 127)
    (hs : -(2 ^ 63 : Int) ≤ (df.length : Int) - e ∧ (df.length : Int) - e < 2 ^ 63) :
    specParse ((if neg then [45] else []) ++ di.map (· + 48) ++ dp ++ ep) =
      some ⟨(if neg then -1 else 1) * (digitsToNat (di ++ df) : Int), (df.length : Int) - e⟩ := by
  have hI := digitBytes_all di hdi
  have hF := digitBytes_all df hdf
  rw [List.all_eq_true] at hI hF
  -- no exponent marker inside the mantissa
  have hM : ∀ x ∈ (if neg then [45] else []) ++ di.map (· + 48) ++ dp, ([101, 69] : List Nat).contains x = false := by
    intro x hx
    simp only [List.mem_append] at hx
    rcases hx with (hx | hx) | hx
    · cases neg <;> simp at hx; subst hx; decide
    · exact digit_not_eE x (hI x hx)
    · rcases hdp with ⟨h, _⟩ | h
      · rw [h] at hx; simp at hx
      · rw [h] at hx
        rcases List.mem_cons.mp hx with hx | hx
        · subst hx; decide
        · exact digit_not_eE x (hF x hx)
  have hr : ¬ (e < -(2 ^ 127 : Int) ∨ e ≥ (2 ^ 127 : Int)) := by omega
  rw [specParse_staged]
  rcases hep with ⟨h, h0⟩ | ⟨s, E, hsE, h, hE⟩
  · rw [h, List.append_nil, cut_no_sep _ _ hM]
    subst h0
    simp only
    rw [if_neg hr]
    exact mantSpec_canonical neg di df dp 0 hdi hdf hne hdp hs
  · rw [h, cut_at_sep _ _ _ _ hM (by rcases hsE with h | h <;> subst h <;> decide)]
    simp only [hE]
    rw [if_neg hr]
    exact mantSpec_canonical neg di df dp e hdi hdf hne hdp hs

end BigDec

namespace BigDec
open Fmt Spec.Numeral Parse

theorem toBytes_take (l : List Char) (k : Nat) : toBytes (l.take k) = (toBytes l).take k := by
  simp [toBytes, List.map_take]
theorem toBytes_drop (l : List Char) (k : Nat) : toBytes (l.drop k) = (toBytes l).drop k := by
  simp [toBytes, List.map_drop]

theorem natStr_length (n : Nat) : (natStr n).length = numDigits n := by
  have := congrArg List.length (natStr_bytes n)
  simpa [toBytes, digitsBE_length] using this

theorem toBytes_zeros (k : Nat) : toBytes (zeros k) = (List.replicate k 0).map (· + 48) := by
  simp [toBytes, zeros]

theorem toBytes_intStr (x : Int) :
    toBytes (intStr x) = (if x < 0 then [45] else []) ++ (digitsBE x.natAbs).map (· + 48) := by
  unfold intStr
  split <;> simp [natStr_bytes]

theorem toBytes_intStrPlus (x : Int) :
    toBytes (intStrPlus x) = (if x < 0 then [45] else [43]) ++ (digitsBE x.natAbs).map (· + 48) := by
  unfold intStrPlus
  split <;> simp [natStr_bytes]

theorem exponentValue_intStr (x : Int) : exponentValue (toBytes (intStr x)) = some x := by
  rw [toBytes_intStr]
  have := exponentValue_digits (decide (x < 0)) false (digitsBE x.natAbs) (digitsBE_lt _) (digitsBE_ne_nil _)
  simp only [decide_eq_true_eq, Bool.false_eq_true, if_false, digitsToNat_digitsBE] at this
  rw [this]
  congr 1
  split <;> omega

theorem exponentValue_intStrPlus (x : Int) : exponentValue (toBytes (intStrPlus x)) = some x := by
  rw [toBytes_intStrPlus]
  have := exponentValue_digits (decide (x < 0)) true (digitsBE x.natAbs) (digitsBE_lt _) (digitsBE_ne_nil _)
  simp only [decide_eq_true_eq, if_true, digitsToNat_digitsBE] at this
  rw [this]
  congr 1
  split <;> omega

theorem signDec_mul_natAbs (i : Int) : (if decide (i < 0) = true then (-1 : Int) else 1) * (i.natAbs : Int) = i := by
  by_cases h : i < 0
  · rw [if_pos (by simpa using h)]; omega
  · rw [if_neg (by simpa using h)]; omega

/-- `to_scientific_notation` reads back as the very same decimal -/
theorem scientific_roundtrip (d : Dec) (hsc : -(2 ^ 63 : Int) ≤ d.scale ∧ d.scale < 2 ^ 63)
    (hlen : numDigits d.int.natAbs < 2 ^ 64) :
    specParse (toBytes (scientific d)) = some d := by
  unfold scientific
  by_cases h0 : d.int = 0
  · rw [if_pos h0]
    have := specParse_canonical false [0] [] [] (101 :: toBytes (intStr (-d.scale))) (-d.scale)
      (by simp) (by simp) (by simp) (Or.inl ⟨rfl, rfl⟩)
      (Or.inr ⟨101, _, Or.inl rfl, rfl, exponentValue_intStr _⟩) (by omega) (by simp; omega)
    simp only [Bool.false_eq_true, if_false, List.map_cons, List.map_nil, List.nil_append, List.append_nil,
      List.length_nil] at this
    have hb : toBytes (['0', 'e'] ++ intStr (-d.scale)) = [0 + 48] ++ 101 :: toBytes (intStr (-d.scale)) := by
      simp [toBytes]
    rw [hb, this]
    cases d with
    | mk i s => simp only at h0; subst h0; simp [digitsToNat]
  · rw [if_neg h0]
    set n := d.int.natAbs with hn
    have hlen1 : (natStr n).length = numDigits n := natStr_length n
    have hpos := numDigits_pos n
    -- split the digits
    have hsplit : digitsBE n = (digitsBE n).take 1 ++ (digitsBE n).drop 1 := (List.take_append_drop 1 _).symm
    have hdl : ((digitsBE n).drop 1).length = numDigits n - 1 := by simp [digitsBE_length]
    have htl : (digitsBE n).take 1 ≠ [] := by
      intro hh
      have := congrArg List.length hh
      simp [digitsBE_length] at this; omega
    have hlt1 : ∀ x ∈ (digitsBE n).take 1, x < 10 := fun x hx => digitsBE_lt n x (List.mem_of_mem_take hx)
    have hlt2 : ∀ x ∈ (digitsBE n).drop 1, x < 10 := fun x hx => digitsBE_lt n x (List.mem_of_mem_drop hx)
    have key := specParse_canonical (decide (d.int < 0)) ((digitsBE n).take 1) ((digitsBE n).drop 1)
      (if (natStr n).length > 1 then 46 :: ((digitsBE n).drop 1).map (· + 48) else [])
      (101 :: toBytes (intStr (((numDigits n - 1 : Nat) : Int) - d.scale))) (((numDigits n - 1 : Nat) : Int) - d.scale)
      hlt1 hlt2 htl
      (by
        by_cases hl : (natStr n).length > 1
        · rw [if_pos hl]; exact Or.inr rfl
        · rw [if_neg hl]; left
          refine ⟨rfl, ?_⟩
          apply List.eq_nil_of_length_eq_zero
          rw [hdl]; omega)
      (Or.inr ⟨101, _, Or.inl rfl, rfl, exponentValue_intStr _⟩)
      (by constructor <;> omega) (by rw [hdl]; constructor <;> omega)
    rw [← hsplit, digitsToNat_digitsBE, hdl] at key
    have hres : (⟨(if decide (d.int < 0) = true then -1 else 1) * (n : Int), ((numDigits n - 1 : Nat) : Int) - (((numDigits n - 1 : Nat) : Int) - d.scale)⟩ : Dec) = d := by
      cases d with
      | mk i s =>
        simp only at hn ⊢
        rw [hn, signDec_mul_natAbs]
        congr 1; omega
    rw [hres] at key
    rw [← key]
    congr 1
    simp only [toBytes_append, toBytes_take, natStr_bytes, hlen1, toBytes_intStr]
    have hnb : List.map Char.toNat (natStr n) = (digitsBE n).map (· + 48) := natStr_bytes n
    by_cases hneg : d.int < 0 <;> by_cases hl : numDigits n > 1 <;>
      simp [hneg, hl, toBytes, List.map_take, List.map_drop, hnb, hlen1]

end BigDec

namespace BigDec
open Fmt Spec.Numeral Parse

theorem foldDigits_zeros (k acc : Nat) : foldDigits (List.replicate k 0) acc = acc * 10 ^ k := by
  induction k generalizing acc with
  | zero => simp [foldDigits]
  | succ k ih =>
    rw [List.replicate_succ]
    show foldDigits (List.replicate k 0) (acc * 10 + 0) = _
    rw [ih, Nat.pow_succ]; ring

theorem digitsToNat_leading_zeros (k : Nat) (ds : List Nat) :
    digitsToNat (List.replicate k 0 ++ ds) = digitsToNat ds := by
  rw [digitsToNat_eq, foldDigits_append, foldDigits_zeros, Nat.zero_mul, digitsToNat_eq]

theorem digitsToNat_trailing_zeros (k : Nat) (ds : List Nat) :
    digitsToNat (ds ++ List.replicate k 0) = digitsToNat ds * 10 ^ k := by
  rw [digitsToNat_eq, foldDigits_append, foldDigits_zeros, digitsToNat_eq]

theorem replicate_lt (k : Nat) : ∀ x ∈ List.replicate k 0, x < 10 := by
  intro x hx; rw [List.mem_replicate] at hx; omega

theorem mem_append_lt {a b : List Nat} (ha : ∀ x ∈ a, x < 10) (hb : ∀ x ∈ b, x < 10) : ∀ x ∈ a ++ b, x < 10 := by
  intro x hx; rcases List.mem_append.mp hx with h | h
  · exact ha x h
  · exact hb x h

theorem signDec_mul_natAbs' (i : Int) : (if decide (i < 0) = true then (-1 : Int) else 1) * (i.natAbs : Int) = i :=
  signDec_mul_natAbs i

/-- `to_plain_string` of a decimal with a non-negative scale reads back as the very same decimal -/
theorem plain_roundtrip (d : Dec) (hsc : 0 ≤ d.scale ∧ d.scale < 2 ^ 63) :
    specParse (toBytes (plain d)) = some d := by
  obtain ⟨n, hn⟩ : ∃ n, n = d.int.natAbs := ⟨_, rfl⟩
  have hlen1 : (natStr n).length = numDigits n := natStr_length n
  have hpos := numDigits_pos n
  have hnb : List.map Char.toNat (natStr n) = (digitsBE n).map (· + 48) := natStr_bytes n
  have hdd : (⟨(if decide (d.int < 0) = true then -1 else 1) * (n : Int), d.scale⟩ : Dec) = d := by
    cases d with
    | mk i s => simp only at hn ⊢; rw [hn, signDec_mul_natAbs]
  obtain ⟨k, hk⟩ : ∃ k : Nat, d.scale = k := ⟨d.scale.toNat, by omega⟩
  unfold plain
  simp only [← hn]
  by_cases h0 : d.scale ≤ 0
  · -- scale = 0: just the digits
    have hk0 : k = 0 := by omega
    have key := specParse_canonical (decide (d.int < 0)) (digitsBE n) [] [] [] 0
      (digitsBE_lt n) (by simp) (digitsBE_ne_nil n) (Or.inl ⟨rfl, rfl⟩) (Or.inl ⟨rfl, rfl⟩) (by omega) (by simp)
    simp only [List.append_nil, digitsToNat_digitsBE, List.length_nil] at key
    have : (⟨(if decide (d.int < 0) = true then -1 else 1) * (n : Int), ((0 : Nat) : Int) - 0⟩ : Dec) = d := by
      rw [show (((0 : Nat) : Int) - 0) = d.scale by omega]; exact hdd
    rw [this] at key
    rw [← key]
    congr 1
    have hz : (-d.scale).toNat = 0 := by omega
    by_cases hneg : d.int < 0 <;> simp [h0, hneg, hz, zeros, toBytes, hnb]
  · rw [if_neg h0]
    by_cases h1 : d.scale.toNat < (natStr n).length
    · rw [if_pos h1]
      rw [hlen1] at h1
      have hkk : d.scale.toNat = k := by omega
      have hsplit : digitsBE n = (digitsBE n).take (numDigits n - k) ++ (digitsBE n).drop (numDigits n - k) :=
        (List.take_append_drop _ _).symm
      have hdl : ((digitsBE n).drop (numDigits n - k)).length = k := by simp [digitsBE_length]; omega
      have htl : (digitsBE n).take (numDigits n - k) ≠ [] := by
        intro hh
        have := congrArg List.length hh
        simp [digitsBE_length] at this; omega
      have key := specParse_canonical (decide (d.int < 0)) ((digitsBE n).take (numDigits n - k)) ((digitsBE n).drop (numDigits n - k))
        (46 :: ((digitsBE n).drop (numDigits n - k)).map (· + 48)) [] 0
        (fun x hx => digitsBE_lt n x (List.mem_of_mem_take hx)) (fun x hx => digitsBE_lt n x (List.mem_of_mem_drop hx)) htl
        (Or.inr rfl) (Or.inl ⟨rfl, rfl⟩) (by omega) (by rw [hdl]; omega)
      rw [← hsplit, digitsToNat_digitsBE, hdl] at key
      have : (⟨(if decide (d.int < 0) = true then -1 else 1) * (n : Int), (k : Int) - 0⟩ : Dec) = d := by
        rw [show ((k : Int) - 0) = d.scale by omega]; exact hdd
      rw [this] at key
      rw [← key]
      congr 1
      by_cases hneg : d.int < 0 <;> simp [hneg, hkk, hlen1, toBytes, hnb, List.map_take, List.map_drop]
    · rw [if_neg h1]
      rw [hlen1] at h1
      have hkk : d.scale.toNat = k := by omega
      have key := specParse_canonical (decide (d.int < 0)) [0] (List.replicate (k - numDigits n) 0 ++ digitsBE n)
        (46 :: (List.replicate (k - numDigits n) 0 ++ digitsBE n).map (· + 48)) [] 0
        (by simp) (mem_append_lt (replicate_lt _) (digitsBE_lt n)) (by simp)
        (Or.inr rfl) (Or.inl ⟨rfl, rfl⟩) (by omega)
        (by simp [digitsBE_length]; omega)
      have hval : digitsToNat ([0] ++ (List.replicate (k - numDigits n) 0 ++ digitsBE n)) = n := by
        have : ([0] : List Nat) = List.replicate 1 0 := rfl
        rw [this, digitsToNat_leading_zeros, digitsToNat_leading_zeros, digitsToNat_digitsBE]
      rw [hval] at key
      have hl : ((List.replicate (k - numDigits n) 0 ++ digitsBE n).length : Int) - 0 = d.scale := by
        simp [digitsBE_length]; omega
      rw [hl, hdd] at key
      rw [← key]
      congr 1
      by_cases hneg : d.int < 0 <;> simp [hneg, hkk, hlen1, toBytes, hnb, zeros]

end BigDec

namespace BigDec
open Fmt Spec.Numeral Parse

/-- the scientific shape `-? d [. ddd] (e|E) exponent` with exponent `#digits − 1 − scale` -/
theorem sciShape_parse (d : Dec) (n : Nat) (hn : n = d.int.natAbs) (esym : Nat) (E : List Nat)
    (hes : esym = 101 ∨ esym = 69)
    (hE : exponentValue E = some (((numDigits n - 1 : Nat) : Int) - d.scale))
    (hsc : -(2 ^ 63 : Int) ≤ d.scale ∧ d.scale < 2 ^ 63) (hlen : numDigits n < 2 ^ 64) :
    specParse ((if decide (d.int < 0) = true then [45] else []) ++ ((digitsBE n).take 1).map (· + 48) ++
      (if numDigits n > 1 then 46 :: ((digitsBE n).drop 1).map (· + 48) else []) ++ esym :: E) = some d := by
  have hpos := numDigits_pos n
  have hsplit : digitsBE n = (digitsBE n).take 1 ++ (digitsBE n).drop 1 := (List.take_append_drop 1 _).symm
  have hdl : ((digitsBE n).drop 1).length = numDigits n - 1 := by simp [digitsBE_length]
  have htl : (digitsBE n).take 1 ≠ [] := by
    intro hh
    have := congrArg List.length hh
    simp [digitsBE_length] at this; omega
  have key := specParse_canonical (decide (d.int < 0)) ((digitsBE n).take 1) ((digitsBE n).drop 1)
    (if numDigits n > 1 then 46 :: ((digitsBE n).drop 1).map (· + 48) else [])
    (esym :: E) (((numDigits n - 1 : Nat) : Int) - d.scale)
    (fun x hx => digitsBE_lt n x (List.mem_of_mem_take hx)) (fun x hx => digitsBE_lt n x (List.mem_of_mem_drop hx)) htl
    (by
      by_cases hl : numDigits n > 1
      · rw [if_pos hl]; exact Or.inr rfl
      · rw [if_neg hl]; left
        refine ⟨rfl, ?_⟩
        apply List.eq_nil_of_length_eq_zero
        rw [hdl]; omega)
    (Or.inr ⟨esym, E, hes, rfl, hE⟩)
    (by constructor <;> omega) (by rw [hdl]; constructor <;> omega)
  rw [← hsplit, digitsToNat_digitsBE, hdl] at key
  have hres : (⟨(if decide (d.int < 0) = true then -1 else 1) * (n : Int), ((numDigits n - 1 : Nat) : Int) - (((numDigits n - 1 : Nat) : Int) - d.scale)⟩ : Dec) = d := by
    cases d with
    | mk i s =>
      simp only at hn ⊢
      rw [hn, signDec_mul_natAbs]
      congr 1; omega
  rw [hres] at key
  exact key

/-- `{:e}` / `{:E}` without flags reads back as the very same decimal -/
theorem lowerExp_roundtrip (cfg : Config) (d : Dec) (eSym : Char) (hes : eSym = 'e' ∨ eSym = 'E')
    (hsc : -(2 ^ 63 : Int) ≤ d.scale ∧ d.scale < 2 ^ 63) (hlen : numDigits d.int.natAbs < 2 ^ 64) :
    specParse (toBytes (lowerExp cfg {} d eSym)) = some d := by
  obtain ⟨n, hn⟩ : ∃ n, n = d.int.natAbs := ⟨_, rfl⟩
  rw [← hn] at hlen
  have hlen1 : (natStr n).length = numDigits n := natStr_length n
  have hnb : List.map Char.toNat (natStr n) = (digitsBE n).map (· + 48) := natStr_bytes n
  have hpos := numDigits_pos n
  have hexp : (((natStr n).length : Int) + -d.scale - 1) = ((numDigits n - 1 : Nat) : Int) - d.scale := by
    rw [hlen1]; omega
  have key := sciShape_parse d n hn eSym.toNat (toBytes (intStrPlus (((numDigits n - 1 : Nat) : Int) - d.scale)))
    (by rcases hes with h | h <;> subst h <;> decide) (exponentValue_intStrPlus _) hsc hlen
  rw [← key]
  congr 1
  unfold lowerExp exponentialText padIntegral
  simp only [← hn, hexp]
  by_cases hl : numDigits n > 1
  · by_cases hneg : d.int < 0 <;>
      simp [hneg, hl, hlen1, toBytes, hnb, zeros, List.map_take, List.map_drop]
  · have ht : List.take 1 (digitsBE n) = digitsBE n :=
      List.take_of_length_le (by rw [digitsBE_length]; omega)
    by_cases hneg : d.int < 0 <;>
      simp [hneg, hl, hlen1, toBytes, hnb, zeros, ht]

/-- the dotless exponent form `ddd e±x` -/
theorem dotless_parse (d : Dec) (n : Nat) (hn : n = d.int.natAbs)
    (hsc : -(2 ^ 63 : Int) ≤ d.scale ∧ d.scale < 2 ^ 63) :
    specParse ((if decide (d.int < 0) = true then [45] else []) ++ toBytes (dotlessText n d.scale)) = some d := by
  have hnb : List.map Char.toNat (natStr n) = (digitsBE n).map (· + 48) := natStr_bytes n
  have key := specParse_canonical (decide (d.int < 0)) (digitsBE n) [] [] (101 :: toBytes (intStrPlus (-d.scale))) (-d.scale)
    (digitsBE_lt n) (by simp) (digitsBE_ne_nil n) (Or.inl ⟨rfl, rfl⟩)
    (Or.inr ⟨101, _, Or.inl rfl, rfl, exponentValue_intStrPlus _⟩) (by constructor <;> omega) (by simp; omega)
  simp only [List.append_nil, digitsToNat_digitsBE, List.length_nil] at key
  have : (⟨(if decide (d.int < 0) = true then -1 else 1) * (n : Int), ((0 : Nat) : Int) - -d.scale⟩ : Dec) = d := by
    cases d with
    | mk i s => simp only at hn ⊢; rw [hn, signDec_mul_natAbs]; congr 1; omega
  rw [this] at key
  rw [← key]
  congr 1
  unfold dotlessText
  simp [toBytes, hnb]

end BigDec

namespace BigDec
open Fmt Spec.Numeral Parse

theorem padIntegral_default (nonneg : Bool) (buf : List Char) :
    padIntegral {} nonneg buf = (if nonneg then [] else ['-']) ++ buf := by
  unfold padIntegral
  cases nonneg <;> simp

theorem zeroRightPad_none (cfg : Config) (npl : Nat) (digits : List Char) (e : Nat) :
    (zeroRightPad cfg npl digits e none = (digits, e) ∧ e ≠ 0) ∨
    zeroRightPad cfg npl digits e none = (digits ++ zeros e, 0) := by
  unfold zeroRightPad
  by_cases h1 : e ≥ 2 ^ 64
  · left; rw [if_pos h1]; exact ⟨rfl, by omega⟩
  · rw [if_neg h1]
    by_cases h2 : (none : Option Nat).isNone ∧ e > npl
    · left; rw [if_pos h2]; exact ⟨rfl, by omega⟩
    · rw [if_neg h2]
      simp only [Nat.add_zero]
      by_cases h3 : e > cfg.maxPadding
      · left; rw [if_pos h3]; exact ⟨rfl, by omega⟩
      · right; rw [if_neg h3]

/-- full-scale text of a decimal with positive scale and no precision = the plain body -/
theorem fullScale_pos (cfg : Config) (npl : Nat) (neg : Bool) (n : Nat) (scale : Int) (hs : 0 < scale) :
    fullScaleText cfg npl neg n scale none =
      (if scale.toNat < (natStr n).length then
        (natStr n).take ((natStr n).length - scale.toNat) ++ ['.'] ++ (natStr n).drop ((natStr n).length - scale.toNat)
      else ['0', '.'] ++ zeros (scale.toNat - (natStr n).length) ++ natStr n) := by
  have hl : 0 < (natStr n).length := by rw [natStr_length]; exact numDigits_pos n
  have hsc : 0 < scale.toNat := by omega
  unfold fullScaleText
  rw [if_neg (by omega)]
  simp only [Option.getD_none]
  by_cases h : scale.toNat < (natStr n).length
  · rw [if_pos h, if_pos h]
    unfold fmtIntFrac
    simp only [Nat.lt_irrefl, if_false]
    rw [if_pos (by omega)]
  · rw [if_neg h, if_neg h]
    unfold fmtNoInt
    have h1 : ¬ scale.toNat ≤ scale.toNat - (natStr n).length := by omega
    rw [if_neg h1]
    have h2 : scale.toNat - (scale.toNat - (natStr n).length) = (natStr n).length := by omega
    simp only [h2, Nat.lt_irrefl, if_false, Nat.sub_self]
    rw [if_pos (by omega)]
    have h3 : scale.toNat + 2 - (natStr n).length - 2 = scale.toNat - (natStr n).length := by omega
    simp [h3, zeros]

end BigDec

namespace BigDec
open Fmt Spec.Numeral Parse

theorem toBytes_sign (neg : Bool) : toBytes (if (!neg) = true then [] else ['-']) = (if neg = true then [45] else []) := by
  cases neg <;> rfl

/-- digits followed by written-out zeros: the value with scale 0 -/
theorem zerosShape_parse (d : Dec) (n : Nat) (hn : n = d.int.natAbs) (e : Nat) :
    specParse ((if decide (d.int < 0) = true then [45] else []) ++ toBytes (natStr n ++ zeros e)) =
      some ⟨d.int * (10 ^ e : Nat), 0⟩ := by
  have hnb : List.map Char.toNat (natStr n) = (digitsBE n).map (· + 48) := natStr_bytes n
  have key := specParse_canonical (decide (d.int < 0)) (digitsBE n ++ List.replicate e 0) [] [] [] 0
    (mem_append_lt (digitsBE_lt n) (replicate_lt e)) (by simp)
    (by intro h; exact digitsBE_ne_nil n (List.append_eq_nil_iff.mp h).1)
    (Or.inl ⟨rfl, rfl⟩) (Or.inl ⟨rfl, rfl⟩) (by omega) (by simp)
  simp only [List.append_nil, digitsToNat_trailing_zeros, digitsToNat_digitsBE, List.length_nil] at key
  have : (⟨(if decide (d.int < 0) = true then -1 else 1) * ((n * 10 ^ e : Nat) : Int), ((0 : Nat) : Int) - 0⟩ : Dec)
      = ⟨d.int * (10 ^ e : Nat), 0⟩ := by
    congr 1
    · rw [Nat.cast_mul, ← mul_assoc, hn, signDec_mul_natAbs]
  rw [this] at key
  rw [← key]
  congr 1
  simp [toBytes, hnb, zeros]

theorem fullScale_nonpos (cfg : Config) (npl : Nat) (neg : Bool) (n : Nat) (scale : Int) (hs : scale ≤ 0) :
    fullScaleText cfg npl neg n scale none =
      (if (zeroRightPad cfg npl (natStr n) (-scale).toNat none).2 ≠ 0 then
        (zeroRightPad cfg npl (natStr n) (-scale).toNat none).1 ++ ['e'] ++
          intStrPlus ((zeroRightPad cfg npl (natStr n) (-scale).toNat none).2 : Nat)
      else (zeroRightPad cfg npl (natStr n) (-scale).toNat none).1) := by
  unfold fullScaleText
  rw [if_pos hs]

/-- **Display without flags reads back**: as the very same decimal, except that an integer with a
    negative scale written out with its zeros reads back with scale 0 (the same value). -/
theorem display_roundtrip (cfg : Config) (npl : Nat) (d : Dec)
    (hsc : -(2 ^ 63 : Int) ≤ d.scale ∧ d.scale < 2 ^ 63) (hlen : numDigits d.int.natAbs < 2 ^ 64) :
    specParse (toBytes (display cfg npl {} d)) = some d ∨
    (d.scale < 0 ∧ specParse (toBytes (display cfg npl {} d)) = some ⟨d.int * (10 ^ (-d.scale).toNat : Nat), 0⟩) := by
  obtain ⟨n, hn⟩ : ∃ n, n = d.int.natAbs := ⟨_, rfl⟩
  unfold display
  simp only [← hn, padIntegral_default, toBytes_append, toBytes_sign]
  cases hnot : chooseNotation cfg n d.scale none with
  | exponential =>
    left
    have := lowerExp_roundtrip cfg d 'E' (Or.inr rfl) hsc hlen
    unfold lowerExp at this
    simp only [← hn, padIntegral_default, toBytes_append, toBytes_sign] at this
    simpa using this
  | dotless =>
    left
    simpa using dotless_parse d n hn hsc
  | full =>
    simp only
    by_cases hpos : 0 < d.scale
    · left
      rw [fullScale_pos cfg npl _ n d.scale hpos]
      have := plain_roundtrip d ⟨by omega, hsc.2⟩
      unfold plain at this
      simp only [← hn, if_neg (show ¬ d.scale ≤ 0 by omega), toBytes_append] at this
      rw [← this]
      congr 1
      by_cases hneg : d.int < 0 <;> simp [hneg, toBytes]
    · rw [fullScale_nonpos cfg npl _ n d.scale (by omega)]
      rcases zeroRightPad_none cfg npl (natStr n) (-d.scale).toNat with ⟨h, hne⟩ | h
      · left
        rw [h]
        simp only [hne, ne_eq, not_false_eq_true, if_true]
        have := dotless_parse d n hn hsc
        unfold dotlessText at this
        have hcast : (((-d.scale).toNat : Nat) : Int) = -d.scale := by omega
        rw [hcast]
        exact this
      · rw [h]
        simp only [ne_eq, not_true_eq_false, if_false]
        have := zerosShape_parse d n hn (-d.scale).toNat
        by_cases hz : d.scale = 0
        · left
          rw [this]
          cases d with
          | mk i s => simp only at hz; subst hz; simp
        · right
          exact ⟨by omega, this⟩

end BigDec
