import BigDec.Proofs.Pow10
import Mathlib.Tactic.Ring
import Mathlib.Tactic.Linarith
import Mathlib.Tactic.NormNum
import Mathlib.Data.Nat.Log
/-! L0: digit counting.  `numDigits` is characterised by `10^(d-1) ≤ n < 10^d`; the estimate-and-
    correct loops of `count_decimal_digits_uint` and `get_rounding_term` compute the right answer
    for every `n` whenever the estimate satisfies the scalar condition `10^(est b) ≤ 2^b`. -/
namespace BigDec
open Generated

theorem numDigits_pos (n : Nat) : 0 < numDigits n := by
  unfold numDigits; split <;> omega

theorem lt_pow_numDigits (n : Nat) : n < 10 ^ numDigits n := by
  induction n using Nat.strong_induction_on with
  | _ n ih =>
    unfold numDigits
    split
    · simpa using ‹n < 10›
    · rename_i h
      have := ih (n / 10) (by omega)
      rw [pow_succ]; omega

theorem pow_numDigits_le (n : Nat) (h : n ≠ 0) : 10 ^ (numDigits n - 1) ≤ n := by
  induction n using Nat.strong_induction_on with
  | _ n ih =>
    unfold numDigits
    split
    · simp; omega
    · rename_i h10
      have hq : n / 10 ≠ 0 := by omega
      have := ih (n / 10) (by omega) hq
      have hp := numDigits_pos (n / 10)
      have e : numDigits (n / 10) + 1 - 1 = (numDigits (n / 10) - 1) + 1 := by omega
      rw [e, pow_succ]; omega

/-- `numDigits` is the unique `d` with `10^(d-1) ≤ n < 10^d` -/
theorem numDigits_unique (n d : Nat) (h0 : n ≠ 0) (h1 : 10 ^ (d - 1) ≤ n) (h2 : n < 10 ^ d) :
    numDigits n = d := by
  have a := lt_pow_numDigits n
  have b := pow_numDigits_le n h0
  have hp := numDigits_pos n
  by_contra hne
  rcases Nat.lt_or_gt_of_ne hne with hlt | hgt
  · have : 10 ^ numDigits n ≤ 10 ^ (d - 1) := Nat.pow_le_pow_right (by norm_num) (by omega)
    omega
  · have hd : d ≤ numDigits n - 1 := by omega
    have : 10 ^ d ≤ 10 ^ (numDigits n - 1) := Nat.pow_le_pow_right (by norm_num) hd
    omega

theorem numDigits_zero : numDigits 0 = 1 := by unfold numDigits; simp

theorem numDigits_pow (k : Nat) : numDigits (10 ^ k) = k + 1 := by
  apply numDigits_unique
  · positivity
  · simp
  · exact Nat.pow_lt_pow_right (by norm_num) (by omega)

theorem numDigits_mul_pow (n k : Nat) (h : n ≠ 0) : numDigits (n * 10 ^ k) = numDigits n + k := by
  apply numDigits_unique
  · positivity
  · have := pow_numDigits_le n h
    have hp := numDigits_pos n
    have e : numDigits n + k - 1 = (numDigits n - 1) + k := by omega
    rw [e, pow_add]; exact Nat.mul_le_mul_right _ this
  · have := lt_pow_numDigits n
    rw [pow_add]; exact Nat.mul_lt_mul_of_pos_right this (by positivity)

theorem numDigits_mono {a b : Nat} (h : a ≤ b) : numDigits a ≤ numDigits b := by
  by_cases ha : a = 0
  · subst ha; rw [numDigits_zero]; exact numDigits_pos b
  · by_contra hlt
    push Not at hlt
    have h1 := pow_numDigits_le a ha
    have h2 := lt_pow_numDigits b
    have : 10 ^ numDigits b ≤ 10 ^ (numDigits a - 1) := Nat.pow_le_pow_right (by norm_num) (by omega)
    omega

/-- bit length bounds: `2^(log2 n) ≤ n < 2^(log2 n + 1)` -/
theorem lt_two_pow_bits (n : Nat) : n < 2 ^ (n.log2 + 1) := Nat.lt_log2_self

theorem two_pow_log2_le (n : Nat) (h : n ≠ 0) : 2 ^ n.log2 ≤ n := Nat.log2_self_le h

/-- the scalar condition on the digit estimate (a function of the bit length): one less than the
    estimate for `b + 1` bits is at most `log10 (2^b)`, i.e. the estimate never exceeds the digit
    count of a number with that many bits.  (The stronger `10^est(b) ≤ 2^b` is FALSE for the code's
    f64 quotient: at 146 964 308 bits it gives 44 240 665 although 2^146964308 < 10^44240665.) -/
def EstOK (est : Nat → Nat) : Prop := ∀ b, 10 ^ (est (b + 1) - 1) ≤ 2 ^ b

/-- under `EstOK` the estimate never exceeds the digit count -/
theorem est_le_numDigits {est : Nat → Nat} (h : EstOK est) (n : Nat) (h0 : n ≠ 0) :
    est (n.log2 + 1) ≤ numDigits n := by
  have h1 := h n.log2
  have h2 := two_pow_log2_le n h0
  have h3 := lt_pow_numDigits n
  by_contra hlt
  push Not at hlt
  -- 10^(numDigits n) ≤ 10^(est - 1) ≤ 2^log2 ≤ n < 10^(numDigits n)
  have : 10 ^ numDigits n ≤ 10 ^ (est (n.log2 + 1) - 1) := Nat.pow_le_pow_right (by norm_num) (by omega)
  omega

/-- the counting loop started at `10^d₀` with `d₀ ≤ numDigits n` and enough fuel stops at `numDigits n` -/
theorem countLoop_spec (n : Nat) (h0 : n ≠ 0) (fuel d0 : Nat) (hd : d0 ≤ numDigits n)
    (hf : numDigits n - d0 < fuel) : countLoop n fuel (10 ^ d0) d0 = numDigits n := by
  induction fuel generalizing d0 with
  | zero => omega
  | succ f ih =>
    unfold countLoop
    split
    · rename_i hge
      have hlt : d0 < numDigits n := by
        by_contra hc
        have : d0 = numDigits n := by omega
        have := lt_pow_numDigits n
        subst_vars; omega
      rw [← pow_succ]
      exact ih (d0 + 1) (by omega) (by omega)
    · rename_i hlt
      push Not at hlt
      have h1 := pow_numDigits_le n h0
      by_contra hne
      have : d0 ≤ numDigits n - 1 := by omega
      have : 10 ^ d0 ≤ 10 ^ (numDigits n - 1) := Nat.pow_le_pow_right (by norm_num) this
      omega

theorem numDigits_le_bits (n : Nat) (h0 : n ≠ 0) : numDigits n ≤ n.log2 + 1 := by
  have h1 := pow_numDigits_le n h0
  have h2 := lt_two_pow_bits n
  by_contra hlt
  push Not at hlt
  have : 2 ^ (n.log2 + 1) ≤ 2 ^ (numDigits n - 1) := Nat.pow_le_pow_right (by norm_num) (by omega)
  have : 2 ^ (numDigits n - 1) ≤ 10 ^ (numDigits n - 1) := Nat.pow_le_pow_left (by norm_num) _
  omega

/-- **`count_decimal_digits_uint` is exact** for every `n`, for any estimate satisfying `EstOK` -/
theorem countDigitsUint_spec {est : Nat → Nat} (h : EstOK est) (n : Nat) :
    countDigitsUint est n = numDigits n := by
  unfold countDigitsUint
  split
  · rename_i h0; subst h0; exact numDigits_zero.symm
  · rename_i h0
    simp only []
    rw [tenToTheUint_eq]
    have := numDigits_le_bits n h0
    exact countLoop_spec n h0 _ _ (le_trans (Nat.sub_le _ _) (est_le_numDigits h n h0)) (by omega)

/-- specification of `get_rounding_term`: 1 iff the leading decimal digit is ≥ 5 -/
def roundTerm (num : Nat) : Nat := if num ≠ 0 ∧ 5 * 10 ^ (numDigits num - 1) ≤ num then 1 else 0

theorem roundingTermLoop_spec (num : Nat) (h0 : num ≠ 0) (fuel d0 : Nat)
    (hd : d0 ≤ numDigits num) (hedge : d0 = numDigits num → 5 * 10 ^ (numDigits num - 1) ≤ num)
    (hf : numDigits num - d0 < fuel) :
    roundingTermLoop num fuel (10 ^ d0) = roundTerm num := by
  induction fuel generalizing d0 with
  | zero => omega
  | succ f ih =>
    have hlo := pow_numDigits_le num h0
    have hhi := lt_pow_numDigits num
    have hp := numDigits_pos num
    unfold roundingTermLoop
    split
    · rename_i hlt
      -- num < 10^d0 : then d0 = numDigits num and the leading digit is ≥ 5
      have hd0 : d0 = numDigits num := by
        by_contra hne
        have : d0 ≤ numDigits num - 1 := by omega
        have : 10 ^ d0 ≤ 10 ^ (numDigits num - 1) := Nat.pow_le_pow_right (by norm_num) this
        omega
      simp [roundTerm, h0, hedge hd0]
    · rename_i hge
      push Not at hge
      have hlt : d0 < numDigits num := by
        by_contra hc
        have : d0 = numDigits num := by omega
        subst_vars; omega
      split
      · rename_i h5
        -- 10^d0 ≤ num < 5·10^d0 : d0 = numDigits - 1 and leading digit < 5
        have hd0 : d0 = numDigits num - 1 := by
          by_contra hne
          have : d0 + 1 ≤ numDigits num - 1 := by omega
          have : 10 ^ (d0 + 1) ≤ 10 ^ (numDigits num - 1) := Nat.pow_le_pow_right (by norm_num) this
          rw [pow_succ] at this; omega
        have : ¬ (5 * 10 ^ (numDigits num - 1) ≤ num) := by rw [← hd0]; omega
        simp [roundTerm, this]
      · rename_i h5
        push Not at h5
        rw [← pow_succ]
        apply ih (d0 + 1) (by omega) _ (by omega)
        intro he
        have : d0 = numDigits num - 1 := by omega
        rw [← this]; omega

/-- the code lowers the estimate before starting the loop (regenerated from the source) -/
theorem roundingTermEstSub_pos : 1 ≤ roundingTermEstSub := by decide

/-- **`get_rounding_term` is exact** for every `num`, for any estimate satisfying `EstOK` -/
theorem getRoundingTerm_spec {est : Nat → Nat} (h : EstOK est) (num : Nat) :
    getRoundingTerm est num = roundTerm num := by
  unfold getRoundingTerm
  split
  · rename_i h0; simp [roundTerm, h0]
  · rename_i h0
    rw [tenToTheUint_eq]
    have hb := numDigits_le_bits num h0
    have he := est_le_numDigits h num h0
    have hs := roundingTermEstSub_pos
    have hp := numDigits_pos num
    apply roundingTermLoop_spec num h0 _ _ (by omega) _ (by omega)
    intro he'
    -- the lowered estimate is strictly below the digit count
    omega

/-- the real-valued estimate `⌊b · log₁₀ 2⌋`, written with `Nat.log`, satisfies `EstOK` -/
theorem estLog_ok : EstOK (fun b => Nat.log 10 (2 ^ b)) := by
  intro b
  show 10 ^ (Nat.log 10 (2 ^ (b + 1)) - 1) ≤ 2 ^ b
  have h1 : 10 ^ Nat.log 10 (2 ^ (b + 1)) ≤ 2 ^ (b + 1) := Nat.pow_log_le_self 10 (by positivity)
  generalize Nat.log 10 (2 ^ (b + 1)) = L at h1 ⊢
  cases L with
  | zero => exact Nat.one_le_pow _ _ (by norm_num)
  | succ m =>
    rw [pow_succ, pow_succ] at h1
    simp only [Nat.add_sub_cancel]
    omega

end BigDec
