import BigDec.Proofs.F64Powi
/-! The positive-scale path of `to_f64`: the trimmed coefficient and exponent are handed to the float
    parser (`rne m (10^sc)`), with the underflow shortcut of the model. -/
namespace BigDec.F64

theorem toF64_parse_unfold (dc : Nat → Nat) (neg : Bool) (n : Nat) (scale : Int) (hn : 0 < n)
    (hsc : 0 < scale - 19 * (trimRounds dc n : Int)) (hhi : scale - 19 * (trimRounds dc n : Int) ≤ 2 ^ 31) :
    toF64With dc neg n scale = (if neg then 2 ^ 63 else 0) +
      (if ((n / 10 ^ (19 * trimRounds dc n)).log2 : Int) + 1 < 3 * (scale - 19 * (trimRounds dc n : Int) - 330) then 0
       else rne (n / 10 ^ (19 * trimRounds dc n)) (10 ^ (scale - 19 * (trimRounds dc n : Int)).toNat)) := by
  unfold toF64With
  have e0 : (n == 0) = false := by simp; omega
  have e1 : (scale == 0) = false := by simp; omega
  simp only [e0, e1, Bool.false_eq_true, if_false]
  have ht := trim_eq (trimRounds dc n) n scale (by omega)
  unfold trimRounds at ht hsc hhi ⊢
  rw [ht]
  simp only
  have c1 : (decide (scale - 19 * (((dc (n.log2 + 1) - 25) / 19 : Nat) : Int) < -(2 ^ 31 - 1)) ||
      decide (scale - 19 * (((dc (n.log2 + 1) - 25) / 19 : Nat) : Int) > 2 ^ 31 - 1 + 1)) = false := by
    simp only [Bool.or_eq_false_iff, decide_eq_false_iff_not]
    constructor <;> omega
  rw [c1]
  simp only [Bool.false_eq_true, if_false]
  rw [if_neg (by omega)]
  by_cases hg : ((n / 10 ^ (19 * ((dc (n.log2 + 1) - 25) / 19))).log2 : Int) + 1 <
      3 * (scale - 19 * (((dc (n.log2 + 1) - 25) / 19 : Nat) : Int) - 330)
  · rw [if_pos hg, if_pos hg]; simp
  · rw [if_neg hg, if_neg hg]

/-- numerals: `2^1073 ≤ 10^330` -/
theorem two_1073_le : (2 : Nat) ^ 1073 ≤ 10 ^ 330 := by decide +kernel

/-- the underflow shortcut is sound: `m + 1 ≤ 2^L`, `L + 1 ≤ 3 (S - 330)` give `(m+1) · 2^1074 ≤ 10^S` -/
theorem guard_small (m L S : Nat) (hm : m + 1 ≤ 2 ^ L) (hL : (L : Int) < 3 * ((S : Int) - 330)) :
    (m + 1) * 2 ^ 1074 ≤ 10 ^ S := by
  obtain ⟨j, hj⟩ : ∃ j, S = j + 330 := ⟨S - 330, by omega⟩
  subst hj
  have hL' : L + 1 ≤ 3 * j := by push_cast at hL; omega
  have h8 : 2 ^ (L + 1) ≤ 10 ^ j := by
    calc 2 ^ (L + 1) ≤ 2 ^ (3 * j) := Nat.pow_le_pow_right (by norm_num) hL'
      _ = 8 ^ j := by rw [pow_mul]; norm_num
      _ ≤ 10 ^ j := Nat.pow_le_pow_left (by norm_num) j
  calc (m + 1) * 2 ^ 1074 ≤ 2 ^ L * 2 ^ 1074 := Nat.mul_le_mul_right _ hm
    _ = 2 ^ (L + 1) * 2 ^ 1073 := by rw [← pow_add, ← pow_add]
    _ ≤ 10 ^ j * 10 ^ 330 := Nat.mul_le_mul h8 two_1073_le
    _ = 10 ^ (j + 330) := by rw [← pow_add]

/-- the trimmed coefficient `m = n / 10^(19 it)` against the exact quotient `q = n / 10^(19 it)` -/
theorem trim_quot (n it : Nat) (hn : 0 < n) (hkeep : it = 0 ∨ 10 ^ (19 * it + 24) ≤ n) :
    0 < n / 10 ^ (19 * it) ∧
    ((n / 10 ^ (19 * it) : Nat) : ℚ) ≤ (n : ℚ) / ((10 ^ (19 * it) : Nat) : ℚ) ∧
    (n : ℚ) / ((10 ^ (19 * it) : Nat) : ℚ) - ((n / 10 ^ (19 * it) : Nat) : ℚ) ≤ (n : ℚ) / ((10 ^ (19 * it) : Nat) : ℚ) / 10 ^ 24 ∧
    (n : ℚ) / ((10 ^ (19 * it) : Nat) : ℚ) < ((n / 10 ^ (19 * it) : Nat) : ℚ) + 1 := by
  have hDpos : 0 < 10 ^ (19 * it) := by positivity
  have hm : 0 < n / 10 ^ (19 * it) := by
    rcases hkeep with h | h
    · rw [h]; simpa using hn
    · apply Nat.div_pos _ hDpos
      calc 10 ^ (19 * it) ≤ 10 ^ (19 * it + 24) := Nat.pow_le_pow_right (by norm_num) (by omega)
        _ ≤ n := h
  have hD : (0 : ℚ) < ((10 ^ (19 * it) : Nat) : ℚ) := by exact_mod_cast hDpos
  set q : ℚ := (n : ℚ) / ((10 ^ (19 * it) : Nat) : ℚ) with hq
  set m : Nat := n / 10 ^ (19 * it) with hmdef
  have hdm : (n : ℚ) = ((10 ^ (19 * it) : Nat) : ℚ) * (m : ℚ) + ((n % 10 ^ (19 * it) : Nat) : ℚ) := by
    exact_mod_cast (Nat.div_add_mod n (10 ^ (19 * it))).symm
  have hr : ((n % 10 ^ (19 * it) : Nat) : ℚ) < ((10 ^ (19 * it) : Nat) : ℚ) := by
    exact_mod_cast Nat.mod_lt n hDpos
  have hr0 : (0 : ℚ) ≤ ((n % 10 ^ (19 * it) : Nat) : ℚ) := Nat.cast_nonneg _
  have hqm : q = (m : ℚ) + ((n % 10 ^ (19 * it) : Nat) : ℚ) / ((10 ^ (19 * it) : Nat) : ℚ) := by
    rw [hq, hdm]; field_simp
  have hfrac0 : 0 ≤ ((n % 10 ^ (19 * it) : Nat) : ℚ) / ((10 ^ (19 * it) : Nat) : ℚ) := div_nonneg hr0 hD.le
  have hfrac1 : ((n % 10 ^ (19 * it) : Nat) : ℚ) / ((10 ^ (19 * it) : Nat) : ℚ) < 1 := by
    rw [div_lt_one hD]; exact hr
  have hmq : (m : ℚ) ≤ q := by rw [hqm]; linarith
  refine ⟨hm, hmq, ?_, by rw [hqm]; linarith⟩
  rcases hkeep with h | h
  · have : n % 10 ^ (19 * it) = 0 := by rw [h]; simp [Nat.mod_one]
    rw [hqm, this]; simp
    positivity
  · have hm24 : 10 ^ 24 ≤ m := by
      rw [hmdef, Nat.le_div_iff_mul_le hDpos, ← pow_add, Nat.add_comm]; exact h
    have hm24q : (10 : ℚ) ^ 24 ≤ (m : ℚ) := by exact_mod_cast hm24
    have : (1 : ℚ) ≤ q / 10 ^ 24 := by
      rw [le_div_iff₀ (by positivity)]; linarith
    rw [hqm] at this ⊢; linarith

/-- **the parser path of `to_f64` meets the tolerance**: for a scale whose trimmed exponent is
    positive and at most 2^31, provided the trimming leaves at least 25 digits, the result is the sign
    bit plus infinity or a double within `2^-48` (relative) of `n · 10^(-scale)` when that is at
    least `2^-1022`, and within one subnormal step `2^-1074` below. -/
theorem toF64_parse_tolerance (dc : Nat → Nat) (neg : Bool) (n : Nat) (scale : Int) (hn : 0 < n)
    (hsc : 0 < scale - 19 * (trimRounds dc n : Int)) (hhi : scale - 19 * (trimRounds dc n : Int) ≤ 2 ^ 31)
    (hkeep : trimRounds dc n = 0 ∨ 10 ^ (19 * trimRounds dc n + 24) ≤ n) :
    ∃ R, toF64With dc neg n scale = (if neg then 2 ^ 63 else 0) + R ∧
      (R = inf ∨
        (((2 : ℚ) ^ (-1022 : Int) ≤ (n : ℚ) * (10 : ℚ) ^ (-scale) →
            |valQ R - (n : ℚ) * (10 : ℚ) ^ (-scale)| ≤ (n : ℚ) * (10 : ℚ) ^ (-scale) * (2 : ℚ) ^ (-48 : Int)) ∧
         ((n : ℚ) * (10 : ℚ) ^ (-scale) < (2 : ℚ) ^ (-1022 : Int) →
            |valQ R - (n : ℚ) * (10 : ℚ) ^ (-scale)| ≤ (2 : ℚ) ^ (-1074 : Int)))) := by
  rw [toF64_parse_unfold dc neg n scale hn hsc hhi]
  refine ⟨_, rfl, ?_⟩
  generalize hit : trimRounds dc n = it at *
  obtain ⟨S, hS⟩ : ∃ S : Nat, (scale - 19 * (it : Int)) = S := ⟨(scale - 19 * (it : Int)).toNat, by omega⟩
  rw [hS, Int.toNat_natCast]
  obtain ⟨hm, hmq, hgap, hq1⟩ := trim_quot n it hn hkeep
  have hD : (0 : ℚ) < ((10 ^ (19 * it) : Nat) : ℚ) := by positivity
  have hE : (0 : ℚ) < (10 : ℚ) ^ S := by positivity
  have hV : (n : ℚ) * (10 : ℚ) ^ (-scale) = (n : ℚ) / ((10 ^ (19 * it) : Nat) : ℚ) / (10 : ℚ) ^ S := by
    have : -scale = -((S : Int) + ((19 * it : Nat) : Int)) := by push_cast; omega
    rw [this, zpow_neg, zpow_add₀ (by norm_num), zpow_natCast, zpow_natCast, Nat.cast_pow, Nat.cast_ofNat]
    field_simp
  rw [hV]
  set q : ℚ := (n : ℚ) / ((10 ^ (19 * it) : Nat) : ℚ) with hq
  set m : Nat := n / 10 ^ (19 * it) with hmdef
  have hmpos : (0 : ℚ) < (m : ℚ) := by exact_mod_cast hm
  have hqpos : (0 : ℚ) < q := lt_of_lt_of_le hmpos hmq
  -- powers of two
  have two_ne : (2 : ℚ) ≠ 0 := by norm_num
  have hu53 : (2 : ℚ) ^ (-53 : Int) = 1 / 2 ^ 53 := by
    rw [zpow_neg, show (53 : Int) = ((53 : Nat) : Int) by rfl, zpow_natCast, one_div]
  have hu0 : (0 : ℚ) < (2 : ℚ) ^ (-53 : Int) := two_zpow_pos _
  have hA0 : (0 : ℚ) < (2 : ℚ) ^ (-1022 : Int) := two_zpow_pos _
  have hsmall : (1 : ℚ) / 10 ^ 24 ≤ (2 : ℚ) ^ (-53 : Int) := by rw [hu53]; norm_num
  have e48 : (32 : ℚ) * (2 : ℚ) ^ (-53 : Int) = (2 : ℚ) ^ (-48 : Int) := by
    rw [show (32 : ℚ) = (2 : ℚ) ^ (5 : Int) by norm_num, ← zpow_add₀ two_ne]; norm_num
  have e1075 : (2 : ℚ) ^ (-1075 : Int) = (2 : ℚ) ^ (-1022 : Int) * (2 : ℚ) ^ (-53 : Int) := by
    rw [← zpow_add₀ two_ne]; norm_num
  have e1074 : (2 : ℚ) ^ (-1074 : Int) = 2 * ((2 : ℚ) ^ (-1022 : Int) * (2 : ℚ) ^ (-53 : Int)) := by
    rw [← zpow_add₀ two_ne, show (2 : ℚ) * (2 : ℚ) ^ ((-1022 : Int) + -53) = (2 : ℚ) ^ (1 : Int) * (2 : ℚ) ^ ((-1022 : Int) + -53) by norm_num,
      ← zpow_add₀ two_ne]; norm_num
  by_cases hg : ((m.log2 : Int) + 1 < 3 * ((S : Int) - 330))
  · -- underflow shortcut: the value is below half the smallest subnormal
    rw [if_pos hg]
    right
    have hv0 : valQ 0 = 0 := by rw [val_subnormal 0 (by norm_num)]; simp
    rw [hv0]
    have hm2 : m + 1 ≤ 2 ^ (m.log2 + 1) := (log2_bounds m hm).2
    have hnat := guard_small m (m.log2 + 1) S hm2 (by push_cast; omega)
    have hq2 : q / (10 : ℚ) ^ S ≤ (2 : ℚ) ^ (-1074 : Int) := by
      have hcast : ((m : ℚ) + 1) * 2 ^ 1074 ≤ (10 : ℚ) ^ S := by exact_mod_cast hnat
      have e : (2 : ℚ) ^ (-1074 : Int) = 1 / 2 ^ 1074 := by
        rw [zpow_neg, show (1074 : Int) = ((1074 : Nat) : Int) by rfl, zpow_natCast, one_div]
      rw [e, div_le_div_iff₀ hE (by positivity)]
      have hP : (0 : ℚ) < 2 ^ 1074 := by positivity
      calc q * 2 ^ 1074 ≤ ((m : ℚ) + 1) * 2 ^ 1074 := mul_le_mul_of_nonneg_right hq1.le hP.le
        _ ≤ (10 : ℚ) ^ S := hcast
        _ = 1 * (10 : ℚ) ^ S := (one_mul _).symm
    have hVpos : 0 < q / (10 : ℚ) ^ S := div_pos hqpos hE
    constructor
    · intro hbig
      exfalso
      have h1 : (2 : ℚ) ^ (-1074 : Int) < (2 : ℚ) ^ (-1022 : Int) := zpow_lt_zpow_right₀ (by norm_num) (by norm_num)
      exact absurd (lt_of_le_of_lt (le_trans hbig hq2) h1) (lt_irrefl _)
    · intro _
      rw [zero_sub, abs_neg, abs_of_pos hVpos]; exact hq2
  · rw [if_neg hg]
    rcases rne_spec m (10 ^ S) hm (by positivity) with h | ⟨hnorm, hsub⟩
    · exact Or.inl h
    right
    have hcastE : (((10 ^ S : Nat)) : ℚ) = (10 : ℚ) ^ S := by push_cast; rfl
    rw [hcastE] at hnorm hsub
    -- q' = m / E ≤ V = q / E, and V - q' ≤ V / 10^24
    have hq'V : (m : ℚ) / (10 : ℚ) ^ S ≤ q / (10 : ℚ) ^ S := div_le_div_of_nonneg_right hmq hE.le
    have hgapV : q / (10 : ℚ) ^ S - (m : ℚ) / (10 : ℚ) ^ S ≤ q / (10 : ℚ) ^ S * (1 / 10 ^ 24) := by
      have : q / (10 : ℚ) ^ S - (m : ℚ) / (10 : ℚ) ^ S = (q - (m : ℚ)) / (10 : ℚ) ^ S := by ring
      rw [this]
      have : q / (10 : ℚ) ^ S * (1 / 10 ^ 24) = q / 10 ^ 24 / (10 : ℚ) ^ S := by ring
      rw [this]
      exact div_le_div_of_nonneg_right hgap hE.le
    have hq'pos : 0 < (m : ℚ) / (10 : ℚ) ^ S := div_pos hmpos hE
    rw [← e48, e1074]
    rw [e1075] at hsub
    clear hu53 e48 e1075 e1074 hV hq1 hgap hmq
    generalize (2 : ℚ) ^ (-53 : Int) = u at *
    generalize (2 : ℚ) ^ (-1022 : Int) = A at *
    generalize valQ (rne m (10 ^ S)) = r at *
    generalize q / (10 : ℚ) ^ S = V at *
    generalize (m : ℚ) / (10 : ℚ) ^ S = q' at *
    have hVpos : 0 < V := lt_of_lt_of_le hq'pos hq'V
    have hgapu : V - q' ≤ V * u := le_trans hgapV (mul_le_mul_of_nonneg_left hsmall hVpos.le)
    have htri : |r - V| ≤ |r - q'| + (V - q') := by
      have := abs_add_le (r - q') (q' - V)
      have e : r - q' + (q' - V) = r - V := by ring
      rw [e] at this
      have e2 : |q' - V| = V - q' := by rw [abs_sub_comm, abs_of_nonneg (by linarith)]
      rw [e2] at this; exact this
    constructor
    · intro hbig
      have hrq : |r - q'| ≤ V * u := by
        by_cases hn' : A ≤ q'
        · exact le_trans (hnorm hn') (mul_le_mul_of_nonneg_right hq'V hu0.le)
        · exact le_trans (hsub (not_le.mp hn')) (mul_le_mul_of_nonneg_right hbig hu0.le)
      have : V * u + V * u ≤ V * (32 * u) := by nlinarith [mul_pos hVpos hu0]
      linarith
    · intro hlt
      have hrq : |r - q'| ≤ A * u := hsub (lt_of_le_of_lt hq'V hlt)
      have : V * u ≤ A * u := mul_le_mul_of_nonneg_right hlt.le hu0.le
      linarith

end BigDec.F64
