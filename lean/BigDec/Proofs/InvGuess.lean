import BigDec.Model.InvGuess
import BigDec.Proofs.F64Inf
/-! The initial guess of the reciprocal iteration (main path) is within 94% of `1/x`. -/
namespace BigDec
open Generated F64

theorem val_ln2 : val ln2Bits = (6243314768165359, 2 ^ 53) := by decide +kernel

theorem valQ_ln2 : valQ ln2Bits = (6243314768165359 : ℚ) / 2 ^ 53 := by
  unfold valQ; rw [val_ln2]; norm_num

/-- `exp2(-b)` is the exact power of two -/
theorem valQ_exp2Neg (b : Nat) (hb : b ≤ 1074) : valQ (exp2NegBits b) = (2 : ℚ) ^ (-(b : Int)) := by
  unfold exp2NegBits
  by_cases h1 : b ≤ 1022
  · rw [if_pos h1]
    have := val_normal (1023 - b) 0 (by omega) (by omega) (by norm_num)
    simp only [Nat.add_zero] at this
    rw [this]
    rw [show ((1023 - b : Nat) : Int) = 1023 - (b : Int) by omega]
    have e52 : (((2 ^ 52 : Nat) : ℚ)) = (2 : ℚ) ^ (52 : Int) := by norm_num
    rw [e52, ← zpow_add₀ (by norm_num : (2 : ℚ) ≠ 0)]
    congr 1; ring
  · rw [if_neg h1, if_pos hb]
    rw [val_subnormal _ (Nat.pow_le_pow_right (by norm_num) (by omega))]
    push_cast
    rw [← zpow_natCast, ← zpow_natCast, ← zpow_sub₀ (by norm_num : (2 : ℚ) ≠ 0)]
    congr 1; omega

theorem exp2Neg_ne_inf (b : Nat) : exp2NegBits b ≠ inf := by
  unfold exp2NegBits inf
  split
  · have : (1023 - b) * 2 ^ 52 ≤ 1023 * 2 ^ 52 := Nat.mul_le_mul_right _ (by omega)
    omega
  · split
    · rename_i h1 h2
      have : 2 ^ (1074 - b) ≤ 2 ^ 51 := Nat.pow_le_pow_right (by norm_num) (by omega)
      omega
    · norm_num

/-- the f64 guess `LN_2 * exp2(-b)` is finite, positive and within a factor `[0.27, 1.73]` of
    `ln2 · 2^-b` (half a subnormal step is the worst case) -/
theorem invGuessF64_bounds (b : Nat) (hb : b ≤ 1074) :
    invGuessF64 b ≠ inf ∧
    27 / 100 * (valQ ln2Bits * (2 : ℚ) ^ (-(b : Int))) ≤ valQ (invGuessF64 b) ∧
    valQ (invGuessF64 b) ≤ 173 / 100 * (valQ ln2Bits * (2 : ℚ) ^ (-(b : Int))) := by
  have hx := valQ_exp2Neg b hb
  have hxne := exp2Neg_ne_inf b
  have hlne : (ln2Bits == inf) = false := by decide
  have hxne' : (exp2NegBits b == inf) = false := by simpa using hxne
  have h2b : (0 : ℚ) < (2 : ℚ) ^ (-(b : Int)) := zpow_pos (by norm_num) _
  have hdpos := val_den_pos (exp2NegBits b)
  have hcpos : 0 < (val (exp2NegBits b)).1 := by
    by_contra h0
    have h0' : (val (exp2NegBits b)).1 = 0 := by omega
    have : valQ (exp2NegBits b) = 0 := by unfold valQ; rw [h0']; simp
    rw [this] at hx; linarith
  have hmul : invGuessF64 b = rne (6243314768165359 * (val (exp2NegBits b)).1) (2 ^ 53 * (val (exp2NegBits b)).2) := by
    unfold invGuessF64 mul
    simp only [hlne, hxne', Bool.or_self, Bool.false_eq_true, if_false, val_ln2]
  rw [hmul]
  have hprod : ((6243314768165359 * (val (exp2NegBits b)).1 : Nat) : ℚ) / ((2 ^ 53 * (val (exp2NegBits b)).2 : Nat) : ℚ)
      = valQ ln2Bits * (2 : ℚ) ^ (-(b : Int)) := by
    rw [← hx, valQ_ln2]; unfold valQ; push_cast; rw [mul_div_mul_comm]; norm_num
  have hapos : 0 < 6243314768165359 * (val (exp2NegBits b)).1 := Nat.mul_pos (by norm_num) hcpos
  have hbpos : 0 < 2 ^ 53 * (val (exp2NegBits b)).2 := Nat.mul_pos (by positivity) hdpos
  have hvL1 : (693 / 1000 : ℚ) ≤ valQ ln2Bits := by rw [valQ_ln2]; norm_num
  have hvL2 : valQ ln2Bits ≤ 6932 / 10000 := by rw [valQ_ln2]; norm_num
  generalize hP : valQ ln2Bits * (2 : ℚ) ^ (-(b : Int)) = P at hprod ⊢
  have hPpos : 0 < P := by rw [← hP]; exact mul_pos (by linarith) h2b
  have hPlt1 : P < 1 := by
    rw [← hP]
    have : (2 : ℚ) ^ (-(b : Int)) ≤ 1 := zpow_le_one_of_nonpos₀ (by norm_num) (by omega)
    nlinarith
  -- not infinite
  have hne : rne (6243314768165359 * (val (exp2NegBits b)).1) (2 ^ 53 * (val (exp2NegBits b)).2) ≠ inf := by
    intro hinf
    have := rne_inf_large _ _ hapos hbpos hinf
    rw [hprod] at this
    have hovf : (1 : ℚ) ≤ ovf := by
      unfold ovf
      have e : (2 : ℚ) ^ (1024 : Int) = (2 : ℚ) ^ (970 : Int) * (2 : ℚ) ^ (54 : Int) := by
        rw [← zpow_add₀ (by norm_num : (2 : ℚ) ≠ 0)]; norm_num
      have h54 : (2 : ℚ) ≤ (2 : ℚ) ^ (54 : Int) := by norm_num
      have h970 : (1 : ℚ) ≤ (2 : ℚ) ^ (970 : Int) := one_le_zpow₀ (by norm_num) (by norm_num)
      rw [e]
      generalize (2 : ℚ) ^ (970 : Int) = t at h970 ⊢
      generalize (2 : ℚ) ^ (54 : Int) = w at h54 ⊢
      nlinarith
    linarith
  refine ⟨hne, ?_⟩
  rcases rne_spec _ _ hapos hbpos with hinf | ⟨hnorm, hsub⟩
  · exact absurd hinf hne
  rw [hprod] at hnorm hsub
  generalize valQ (rne (6243314768165359 * (val (exp2NegBits b)).1) (2 ^ 53 * (val (exp2NegBits b)).2)) = v at hnorm hsub ⊢
  by_cases hcase : (2 : ℚ) ^ (-1022 : Int) ≤ P
  · have hb2 := abs_le.mp (hnorm hcase)
    have hu : (2 : ℚ) ^ (-53 : Int) ≤ 1 / 100 := by
      have h7 : (2 : ℚ) ^ (-53 : Int) ≤ (2 : ℚ) ^ (-7 : Int) := zpow_le_zpow_right₀ (by norm_num) (by norm_num)
      have e : (2 : ℚ) ^ (-7 : Int) = 1 / 128 := by norm_num
      rw [e] at h7; linarith
    have hu0 : (0 : ℚ) < (2 : ℚ) ^ (-53 : Int) := zpow_pos (by norm_num) _
    generalize (2 : ℚ) ^ (-53 : Int) = u at hb2 hu hu0
    have hPu : P * u ≤ P * (1 / 100) := mul_le_mul_of_nonneg_left hu hPpos.le
    have hPu0 : 0 ≤ P * u := mul_nonneg hPpos.le hu0.le
    constructor <;> linarith [hb2.1, hb2.2]
  · push Not at hcase
    have hb2 := abs_le.mp (hsub hcase)
    have hPlow : 693 / 1000 * (2 : ℚ) ^ (-1074 : Int) ≤ P := by
      rw [← hP]
      have h1 : (2 : ℚ) ^ (-1074 : Int) ≤ (2 : ℚ) ^ (-(b : Int)) := zpow_le_zpow_right₀ (by norm_num) (by omega)
      have h74 : (0 : ℚ) < (2 : ℚ) ^ (-1074 : Int) := zpow_pos (by norm_num) _
      calc 693 / 1000 * (2 : ℚ) ^ (-1074 : Int) ≤ valQ ln2Bits * (2 : ℚ) ^ (-1074 : Int) := mul_le_mul_of_nonneg_right hvL1 h74.le
        _ ≤ valQ ln2Bits * (2 : ℚ) ^ (-(b : Int)) := mul_le_mul_of_nonneg_left h1 (by linarith)
    have hhalf : (2 : ℚ) ^ (-1 : Int) = 1 / 2 := by norm_num
    have e75 : (2 : ℚ) ^ (-1075 : Int) = 1 / 2 * (2 : ℚ) ^ (-1074 : Int) := by
      rw [show (-1075 : Int) = -1 + -1074 by norm_num, zpow_add₀ (by norm_num : (2 : ℚ) ≠ 0), hhalf]
    rw [e75] at hb2
    have h74 : (0 : ℚ) < (2 : ℚ) ^ (-1074 : Int) := zpow_pos (by norm_num) _
    generalize (2 : ℚ) ^ (-1074 : Int) = w at hb2 hPlow h74
    constructor <;> linarith [hb2.1, hb2.2]

/-- a finite result of the rounding primitive is below the bit pattern of infinity -/
theorem rne_lt_inf (a b : Nat) (ha : 0 < a) (hb : 0 < b) (h : rne a b ≠ inf) : rne a b < inf := by
  obtain ⟨h1, h2⟩ := ilog2Ratio_bounds a b ha hb
  obtain ⟨s1, s2⟩ := sigOf_range a b ha hb
  have hbq : (0 : ℚ) < b := by exact_mod_cast hb
  rw [rne_unfold a b ha] at h ⊢
  by_cases hsub : ilog2Ratio a b < -1022
  · rw [if_pos hsub] at h ⊢
    have hqlt : (a : ℚ) / b < (2 : ℚ) ^ (-1022 : Int) :=
      lt_of_lt_of_le h2 (zpow_le_zpow_right₀ (by norm_num) (by omega))
    have hab : a * 2 ^ 1022 < b := by
      have e : (2 : ℚ) ^ (-1022 : Int) = 1 / ((2 ^ 1022 : Nat) : ℚ) := by
        rw [zpow_neg, show (1022 : Int) = ((1022 : Nat) : Int) by rfl, zpow_natCast, one_div, Nat.cast_pow, Nat.cast_ofNat]
      rw [e, div_lt_div_iff₀ hbq (by positivity), one_mul] at hqlt
      exact_mod_cast hqlt
    obtain ⟨r1, _⟩ := rneInt_spec (a * 2 ^ 1074) b hb
    have e74 : a * 2 ^ 1074 = a * 2 ^ 1022 * 2 ^ 52 := by rw [Nat.mul_assoc, ← pow_add]
    rw [e74] at r1 ⊢
    generalize a * 2 ^ 1022 = A at hab r1 ⊢
    generalize rneInt (A * 2 ^ 52) b = M at r1 ⊢
    have hMle : M ≤ 2 ^ 52 := by
      by_contra hc
      have h4 : (2 ^ 52 + 1) * b ≤ M * b := Nat.mul_le_mul_right b (by omega)
      have h3 : A * 2 ^ 52 < b * 2 ^ 52 := Nat.mul_lt_mul_of_pos_right hab (by positivity)
      generalize (2 : Nat) ^ 52 = P at h4 h3 r1
      have e : (P + 1) * b = b * P + b := by ring
      rw [e] at h4
      generalize M * b = X at h4 r1
      generalize A * P = Y at h3 r1
      generalize b * P = Z at h3 h4
      omega
    unfold inf; omega
  · rw [if_neg hsub] at h ⊢
    generalize ilog2Ratio a b = e at *
    generalize sigOf a b e = sg at *
    by_cases hs : sg = 2 ^ 53
    · have hb1 : (sg == 2 ^ 53) = true := by simpa using hs
      simp only [hb1, if_true] at h ⊢
      by_cases hbig : e + 1 > 1023
      · rw [if_pos hbig] at h; exact absurd rfl h
      · rw [if_neg hbig]
        obtain ⟨E, hEE⟩ : ∃ E : Nat, e + 1 + 1023 = E := ⟨(e + 1 + 1023).toNat, by omega⟩
        have : (e + 1 + 1023).toNat = E := by omega
        rw [this]; unfold inf; omega
    · have hb1 : (sg == 2 ^ 53) = false := by simpa using hs
      simp only [hb1, Bool.false_eq_true, if_false] at h ⊢
      by_cases hbig : e > 1023
      · rw [if_pos hbig] at h; exact absurd rfl h
      · rw [if_neg hbig]
        obtain ⟨E, hEE⟩ : ∃ E : Nat, e + 1023 = E := ⟨(e + 1023).toNat, by omega⟩
        have : (e + 1023).toNat = E := by omega
        rw [this]; unfold inf; omega

end BigDec
