import BigDec.Model.Basic
import Mathlib.Tactic.Ring
import Mathlib.Tactic.Linarith
/-! L0: `ten_to_the_uint` computes `10^pow` for every exponent, through all three algorithms,
    for the thresholds currently present in the source (`BigDec.Generated`). -/
namespace BigDec
open Generated

theorem foldl_mul_pow (c init k : Nat) :
    (List.range c).foldl (fun r _ => r * k) init = init * k ^ c := by
  induction c generalizing init with
  | zero => simp
  | succ n ih =>
    rw [List.range_succ, List.foldl_append]
    simp [ih, pow_succ, Nat.mul_assoc]

/-- `10u64.pow(k)` does not wrap for `k < 20` -/
theorem tenPowU64_eq {k : Nat} (h : k < 20) : tenPowU64 k = 10 ^ k := by
  unfold tenPowU64
  apply Nat.mod_eq_of_lt
  calc 10 ^ k ≤ 10 ^ 19 := Nat.pow_le_pow_right (by norm_num) (by omega)
    _ < 2 ^ 64 := by norm_num

/-- every u64 fast-path bound in the source stays within the range where `10u64.pow` is exact -/
theorem fast_bounds_ok :
    tenPowSmall ≤ 20 ∧ tenPowChunkExp < 20 ∧ tenPowChunkDiv ≤ 20 ∧ tenPowSquareDiv ≤ 20 ∧
    setScaleFastUp ≤ 20 ∧ setScaleFastDown ≤ 20 ∧ toOwnedFastUp ≤ 20 ∧ toOwnedFastDown ≤ 20 ∧
    mulTenFast ≤ 20 := by decide

theorem tenToTheUint_eq (pow : Nat) : tenToTheUint pow = 10 ^ pow := by
  induction pow using Nat.strong_induction_on with
  | _ pow ih =>
    unfold tenToTheUint
    have hb := fast_bounds_ok
    split
    · rename_i h; exact tenPowU64_eq (by omega)
    · split
      · rename_i h1 h2
        simp only [foldl_mul_pow]
        have hdiv : tenPowChunkDiv = tenPowChunkExp := by decide
        have hd0 : 0 < tenPowChunkDiv := by decide
        have hsm : tenPowChunkDiv ≤ tenPowSmall := by decide
        have h19 : tenPowU64 tenPowChunkExp = 10 ^ tenPowChunkExp := tenPowU64_eq (by omega)
        rw [h19, ← hdiv]
        have hc : 1 ≤ pow / tenPowChunkDiv := by
          rw [Nat.one_le_div_iff hd0]; omega
        have hp : pow = tenPowChunkDiv * (pow / tenPowChunkDiv) + pow % tenPowChunkDiv :=
          (Nat.div_add_mod pow tenPowChunkDiv).symm
        have hrem : pow % tenPowChunkDiv < 20 := by
          have := Nat.mod_lt pow hd0; omega
        have e : (10:Nat) ^ tenPowChunkDiv * (10 ^ tenPowChunkDiv) ^ (pow / tenPowChunkDiv - 1)
            = 10 ^ (tenPowChunkDiv * (pow / tenPowChunkDiv)) := by
          rw [← pow_succ', ← pow_mul]; congr 2; omega
        split
        · rw [e, tenPowU64_eq hrem, ← pow_add]; congr 1; omega
        · rename_i h3
          simp at h3
          rw [e]; congr 1; omega
      · rename_i h1 h2
        have hsq : tenPowSquareDiv = 16 := by decide
        have hpos : 0 < pow := by
          have : 0 < tenPowLinear := by decide
          omega
        simp only [hsq]
        have hq : pow / 16 < pow := by omega
        simp only [hq, if_true]
        rw [ih _ hq]
        have hp : pow = 16 * (pow / 16) + pow % 16 := (Nat.div_add_mod pow 16).symm
        have hrem : pow % 16 < 20 := by omega
        have e : ∀ x : Nat, x * x * (x * x) * (x * x * (x * x)) * (x * x * (x * x) * (x * x * (x * x))) = x ^ 16 := by
          intro x; ring
        rw [e, ← pow_mul]
        split
        · rename_i h3; simp at h3; congr 1; omega
        · rw [tenPowU64_eq hrem, ← pow_add]; congr 1; omega

end BigDec
