import Mathlib.Analysis.Complex.Exponential
import Mathlib.Analysis.SpecialFunctions.Exponential
/-! The Taylor tail of the real exponential once `2·x ≤ N + 1`: `0 ≤ e^x − E_N ≤ x^N/N!`. -/
namespace BigDec
open Finset

theorem exp_tail_abs (x : ℝ) (hx : 0 ≤ x) (n : ℕ) (h : x / (n.succ : ℝ) ≤ 1 / 2) :
    |Real.exp x - ∑ m ∈ range n, x ^ m / (m.factorial : ℝ)| ≤ x ^ n / (n.factorial : ℝ) * 2 := by
  have hxc : ‖(x : ℂ)‖ / (n.succ : ℝ) ≤ 1 / 2 := by
    rw [Complex.norm_real, Real.norm_eq_abs, abs_of_nonneg hx]; exact h
  have hb := Complex.exp_bound' hxc
  rw [Complex.norm_real, Real.norm_eq_abs, abs_of_nonneg hx] at hb
  have e : Complex.exp (x : ℂ) - ∑ m ∈ range n, (x : ℂ) ^ m / (m.factorial : ℂ) =
      ((Real.exp x - ∑ m ∈ range n, x ^ m / (m.factorial : ℝ) : ℝ) : ℂ) := by
    push_cast
    rfl
  rw [e, Complex.norm_real, Real.norm_eq_abs] at hb
  exact hb

theorem exp_tail_real (x : ℝ) (hx : 0 ≤ x) (N : ℕ) (h : 2 * x ≤ (N : ℝ) + 1) :
    0 ≤ Real.exp x - ∑ m ∈ range (N + 1), x ^ m / (m.factorial : ℝ) ∧
    Real.exp x - ∑ m ∈ range (N + 1), x ^ m / (m.factorial : ℝ) ≤ x ^ N / (N.factorial : ℝ) := by
  constructor
  · have := Real.sum_le_exp_of_nonneg hx (N + 1)
    linarith
  · have h1 : x / ((N + 1).succ : ℝ) ≤ 1 / 2 := by
      rw [div_le_iff₀ (by positivity)]
      push_cast
      linarith
    have hb := exp_tail_abs x hx (N + 1) h1
    have hb' := (abs_le.mp hb).2
    refine le_trans hb' ?_
    rw [pow_succ, Nat.factorial_succ]
    have hf : (0 : ℝ) < (N.factorial : ℝ) := by exact_mod_cast Nat.factorial_pos N
    have hN : (0 : ℝ) < (N : ℝ) + 1 := by positivity
    push_cast
    rw [div_mul_eq_mul_div, div_le_div_iff₀ (by positivity) hf]
    have hxN : 0 ≤ x ^ N := pow_nonneg hx N
    nlinarith [mul_nonneg hxN hf.le, mul_nonneg (mul_nonneg hxN hf.le) (by linarith : (0:ℝ) ≤ (N:ℝ) + 1 - 2 * x)]

end BigDec

namespace BigDec
open Finset

/-- geometric bound on the Taylor tail: for `0 ≤ x < N + 1`,
    `0 ≤ e^x − E_N` and `(e^x − E_N)·(N + 1 − x) ≤ x^N/N! · x`. -/
theorem exp_tail_geom (x : ℝ) (hx : 0 ≤ x) (N : ℕ) (h : x < (N : ℝ) + 1) :
    0 ≤ Real.exp x - ∑ m ∈ range (N + 1), x ^ m / (m.factorial : ℝ) ∧
    (Real.exp x - ∑ m ∈ range (N + 1), x ^ m / (m.factorial : ℝ)) * ((N : ℝ) + 1 - x) ≤
      x ^ N / (N.factorial : ℝ) * x := by
  constructor
  · have := Real.sum_le_exp_of_nonneg hx (N + 1)
    linarith
  · have hs : HasSum (fun n : ℕ => x ^ n / (n.factorial : ℝ)) (Real.exp x) := by
      rw [Real.exp_eq_exp_ℝ]; exact NormedSpace.expSeries_div_hasSum_exp x
    have hs' := (hasSum_nat_add_iff' (N + 1)).mpr hs
    have hN1 : (0 : ℝ) < (N : ℝ) + 1 := by positivity
    set r : ℝ := x / ((N : ℝ) + 1) with hr
    have hr0 : 0 ≤ r := div_nonneg hx hN1.le
    have hr1 : r < 1 := by rw [hr, div_lt_one hN1]; exact h
    set t : ℝ := x ^ N / (N.factorial : ℝ) with ht
    have ht0 : 0 ≤ t := by positivity
    have hterm : ∀ i : ℕ, x ^ (i + (N + 1)) / ((i + (N + 1)).factorial : ℝ) ≤ t * r * r ^ i := by
      intro i
      induction i with
      | zero =>
        simp only [zero_add, pow_zero, mul_one]
        rw [ht, hr, pow_succ, Nat.factorial_succ]
        push_cast
        have hf : (0 : ℝ) < (N.factorial : ℝ) := by exact_mod_cast Nat.factorial_pos N
        rw [div_mul_div_comm, mul_comm ((N : ℝ) + 1)]
      | succ i ih =>
        have e : i + 1 + (N + 1) = (i + (N + 1)) + 1 := by ring
        rw [e, pow_succ, Nat.factorial_succ]
        push_cast
        have hf : (0 : ℝ) < ((i + (N + 1)).factorial : ℝ) := by exact_mod_cast Nat.factorial_pos _
        have hden : (0 : ℝ) < (i : ℝ) + ((N : ℝ) + 1) + 1 := by positivity
        have e2 : x ^ (i + (N + 1)) * x / (((i : ℝ) + ((N : ℝ) + 1) + 1) * ((i + (N + 1)).factorial : ℝ)) =
            x ^ (i + (N + 1)) / ((i + (N + 1)).factorial : ℝ) * (x / ((i : ℝ) + ((N : ℝ) + 1) + 1)) := by
          field_simp
        rw [e2]
        have hq : x / ((i : ℝ) + ((N : ℝ) + 1) + 1) ≤ r := by
          rw [hr]
          apply div_le_div_of_nonneg_left hx hN1
          have : (0 : ℝ) ≤ (i : ℝ) := by positivity
          linarith
        have hq0 : 0 ≤ x / ((i : ℝ) + ((N : ℝ) + 1) + 1) := div_nonneg hx hden.le
        calc _ ≤ (t * r * r ^ i) * r := by
              apply mul_le_mul ih hq hq0
              positivity
          _ = t * r * r ^ (i + 1) := by ring
    have hg : HasSum (fun i : ℕ => t * r * r ^ i) (t * r * (1 - r)⁻¹) :=
      (hasSum_geometric_of_lt_one hr0 hr1).mul_left (t * r)
    have hle := hasSum_le hterm hs' hg
    have h1r : 0 < 1 - r := by linarith
    have e3 : (N : ℝ) + 1 - x = ((N : ℝ) + 1) * (1 - r) := by
      rw [hr]; field_simp
    rw [e3]
    calc _ ≤ (t * r * (1 - r)⁻¹) * (((N : ℝ) + 1) * (1 - r)) :=
          mul_le_mul_of_nonneg_right hle (by positivity)
      _ = t * (r * ((N : ℝ) + 1)) := by field_simp
      _ = t * x := by rw [hr]; congr 1; field_simp

end BigDec
