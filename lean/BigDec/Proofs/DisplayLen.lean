import BigDec.Proofs.Render
/-! Length of the default `Display` text: within a small constant of the digit count plus the two
    thresholds, because long runs of zeros switch to exponent notation. -/
namespace BigDec
open Fmt

theorem numDigits_le_of_lt_pow (n d : Nat) (hd : 1 ≤ d) (h : n < 10 ^ d) : numDigits n ≤ d := by
  by_cases h0 : n = 0
  · subst h0; rw [numDigits_zero]; exact hd
  · have h1 := pow_numDigits_le n h0
    by_contra hgt
    have : d ≤ numDigits n - 1 := by omega
    have : 10 ^ d ≤ 10 ^ (numDigits n - 1) := Nat.pow_le_pow_right (by norm_num) this
    omega

theorem intStrPlus_length (x : Int) (h : x.natAbs < 10 ^ 20) : (intStrPlus x).length ≤ 21 := by
  unfold intStrPlus
  have := numDigits_le_of_lt_pow x.natAbs 20 (by norm_num) h
  split <;> simp [natStr_length] <;> omega

theorem display_length_bound (cfg : Config) (npl : Nat) (d : Dec)
    (hsc : -(2 ^ 63 : Int) ≤ d.scale ∧ d.scale < 2 ^ 63) (hlen : numDigits d.int.natAbs < 2 ^ 64) :
    (display cfg npl {} d).length ≤ numDigits d.int.natAbs + cfg.lowThreshold + cfg.highThreshold + 30 := by
  obtain ⟨n, hn⟩ : ∃ n, n = d.int.natAbs := ⟨_, rfl⟩
  rw [← hn] at hlen ⊢
  have hL : (natStr n).length = numDigits n := natStr_length n
  have hpos := numDigits_pos n
  unfold display
  rw [padIntegral_default]
  simp only [← hn]
  have hsign : ∀ b : Bool, (if b = true then ([] : List Char) else ['-']).length ≤ 1 := by
    intro b; cases b <;> simp
  have hs := hsign (!decide (d.int < 0))
  rw [List.length_append]
  cases hnot : chooseNotation cfg n d.scale none with
  | exponential =>
    simp only
    unfold exponentialText
    simp only [hL]
    have hx : (((numDigits n : Int) + -d.scale - 1)).natAbs < 10 ^ 20 := by
      have : (((numDigits n : Int) + -d.scale - 1)).natAbs < 2 ^ 65 := by omega
      calc _ < 2 ^ 65 := this
        _ < 10 ^ 20 := by norm_num
    have hi := intStrPlus_length _ hx
    by_cases hl : (numDigits n > 1 || (0:Nat) > 0) = true
    · simp only [hl, if_true, List.length_append, List.length_take, List.length_drop, hL, zeros, List.length_replicate,
        List.length_cons, List.length_nil]
      omega
    · simp only [hl, if_false, Bool.false_eq_true, List.length_append, hL, zeros, List.length_replicate,
        List.length_cons, List.length_nil]
      omega
  | dotless =>
    simp only
    unfold dotlessText
    have hx : (-d.scale).natAbs < 10 ^ 20 := by
      have : (-d.scale).natAbs < 2 ^ 64 := by omega
      calc _ < 2 ^ 64 := this
        _ < 10 ^ 20 := by norm_num
    have hi := intStrPlus_length _ hx
    simp only [List.length_append, hL, List.length_cons, List.length_nil]
    omega
  | full =>
    simp only
    unfold chooseNotation at hnot
    simp only [hL, Option.isNone_none, Option.isSome_none, Bool.false_eq_true, if_false, true_and] at hnot
    by_cases hpos' : 0 < d.scale
    · rw [fullScale_pos cfg npl _ n d.scale hpos']
      by_cases h1 : d.scale.toNat < (natStr n).length
      · rw [if_pos h1]
        rw [hL] at h1
        simp only [List.length_append, List.length_take, List.length_drop, hL, List.length_cons, List.length_nil]
        omega
      · rw [if_neg h1]
        rw [hL] at h1
        have hlz : d.scale.toNat - numDigits n ≤ cfg.lowThreshold := by
          by_contra hgt
          have hc : d.scale ≥ 0 ∧ d.scale.toNat ≥ numDigits n := ⟨by omega, by omega⟩
          rw [if_pos hc] at hnot
          rw [if_pos (by omega)] at hnot
          exact absurd hnot (by decide)
        simp only [List.length_append, hL, zeros, List.length_replicate, List.length_cons, List.length_nil]
        omega
    · rw [fullScale_nonpos cfg npl _ n d.scale (by omega)]
      have hhigh : (-d.scale).toNat ≤ cfg.highThreshold := by
        by_contra hgt
        have hc : ¬ (d.scale ≥ 0 ∧ d.scale.toNat ≥ numDigits n) := by omega
        rw [if_neg hc] at hnot
        simp only [Nat.not_lt_zero, if_false] at hnot
        rw [if_pos (show d.scale ≤ 0 by omega)] at hnot
        rw [if_pos (by omega)] at hnot
        exact absurd hnot (by decide)
      rcases zeroRightPad_none cfg npl (natStr n) (-d.scale).toNat with ⟨h, hne⟩ | h
      · rw [h]
        simp only [hne, ne_eq, not_false_eq_true, if_true]
        have hx : (((-d.scale).toNat : Nat) : Int).natAbs < 10 ^ 20 := by
          have : (((-d.scale).toNat : Nat) : Int).natAbs < 2 ^ 64 := by omega
          calc _ < 2 ^ 64 := this
            _ < 10 ^ 20 := by norm_num
        have hi := intStrPlus_length _ hx
        simp only [List.length_append, hL, List.length_cons, List.length_nil]
        omega
      · rw [h]
        simp only [ne_eq, not_true_eq_false, if_false, List.length_append, hL, zeros, List.length_replicate]
        omega

end BigDec
