import BigDec.Proofs.F64Est
import BigDec.Model.InvGuess
import BigDec.Proofs.F64Digits
import Mathlib.Analysis.Complex.ExponentialBounds
import Mathlib.Analysis.SpecialFunctions.Log.Basic
/-! The back-up path of `make_inv_guess` (magnitudes above 1074 bits): `bits · LOG10_2` in f64, split
    into integer and fractional part, `10^-frac` through libm, times `LN_2`, as `f32`.  Here: the real
    analysis that turns "the f32 factor is within 2% of `ln2 · 10^-frac`" into "the guess is within
    94% of `1/x`". -/
namespace BigDec
open Real

/-- `log 10` from the two power inequalities and Mathlib's nine digits of `log 2` -/
theorem log_ten_bounds : (23 / 10 : ℝ) ≤ Real.log 10 ∧ Real.log 10 ≤ 2303 / 1000 := by
  have h2lo := Real.log_two_gt_d9
  have h2hi := Real.log_two_lt_d9
  have h1 : (97879 : ℝ) * Real.log 10 ≤ 325147 * Real.log 2 := by
    have hnat : ((10 : ℝ)) ^ 97879 ≤ (2 : ℝ) ^ 325147 := by exact_mod_cast F64.ten_pow_le_two_pow_base
    have := Real.log_le_log (by positivity) hnat
    rw [Real.log_pow, Real.log_pow] at this
    exact_mod_cast this
  have h3 : (6107016 : ℝ) * Real.log 2 ≤ 1838395 * Real.log 10 := by
    have hnat : ((2 : ℝ)) ^ 6107016 ≤ (10 : ℝ) ^ 1838395 := by exact_mod_cast F64.two_pow_le_ten_pow_base
    have := Real.log_le_log (by positivity) hnat
    rw [Real.log_pow, Real.log_pow] at this
    exact_mod_cast this
  constructor
  · norm_num at h2lo h2hi ⊢; nlinarith
  · norm_num at h2lo h2hi ⊢; nlinarith

/-- `log10 2` lies between the two convergents -/
theorem log10_two_bounds :
    (97879 / 325147 : ℝ) * Real.log 10 ≤ Real.log 2 ∧ Real.log 2 ≤ (1838395 / 6107016 : ℝ) * Real.log 10 := by
  have h1 : (97879 : ℝ) * Real.log 10 ≤ 325147 * Real.log 2 := by
    have hnat : ((10 : ℝ)) ^ 97879 ≤ (2 : ℝ) ^ 325147 := by exact_mod_cast F64.ten_pow_le_two_pow_base
    have := Real.log_le_log (by positivity) hnat
    rw [Real.log_pow, Real.log_pow] at this
    exact_mod_cast this
  have h3 : (6107016 : ℝ) * Real.log 2 ≤ 1838395 * Real.log 10 := by
    have hnat : ((2 : ℝ)) ^ 6107016 ≤ (10 : ℝ) ^ 1838395 := by exact_mod_cast F64.two_pow_le_ten_pow_base
    have := Real.log_le_log (by positivity) hnat
    rw [Real.log_pow, Real.log_pow] at this
    exact_mod_cast this
  constructor
  · rw [div_mul_eq_mul_div, div_le_iff₀ (by norm_num)]; linarith
  · rw [div_mul_eq_mul_div, le_div_iff₀ (by norm_num)]; linarith

/-- `10^d` for a tiny real exponent -/
theorem exp_small (t : ℝ) (ht : |t| ≤ 7 / 1000) : 993 / 1000 ≤ Real.exp t ∧ Real.exp t ≤ 1008 / 1000 := by
  obtain ⟨h1, h2⟩ := abs_le.mp ht
  constructor
  · have := Real.add_one_le_exp t; linarith
  · have hneg := Real.add_one_le_exp (-t)
    have hpos : 0 < Real.exp (-t) := Real.exp_pos _
    have e : Real.exp t = 1 / Real.exp (-t) := by rw [Real.exp_neg]; field_simp
    rw [e, div_le_iff₀ hpos]
    nlinarith


/-- the f64 product `bits · LOG10_2`: finite, within two roundings of `bits · C` -/
theorem backupApprox_bounds (b : Nat) (hb1 : 1 ≤ b) (hb2 : b ≤ 2 ^ 32) :
    backupApprox b ≠ F64.inf ∧
    (b : ℚ) * (5422874305198591 / 2 ^ 54) * ((1 - 1 / 2 ^ 53) * (1 - 1 / 2 ^ 53)) ≤ F64.valQ (backupApprox b) ∧
    F64.valQ (backupApprox b) ≤ (b : ℚ) * (5422874305198591 / 2 ^ 54) * ((1 + 1 / 2 ^ 53) * (1 + 1 / 2 ^ 53)) := by
  have hbq1 : (1 : ℚ) ≤ (b : ℚ) := by exact_mod_cast hb1
  have hbq2 : (b : ℚ) ≤ 2 ^ 32 := by exact_mod_cast hb2
  have hxdiv : ((b : ℚ)) / ((1 : Nat) : ℚ) = (b : ℚ) := by simp
  have hA1 := F64.tiny_le_eighth
  have hB1 := F64.pow41_le
  obtain ⟨hFne, hFhi, hFlo⟩ := F64.rne_normal b 1 (by omega) (by norm_num)
    (by rw [hxdiv]; linarith)
    (by rw [hxdiv]
        calc (b : ℚ) ≤ 2 ^ 32 := hbq2
          _ < (2 : ℚ) ^ (41 : Nat) := by norm_num
          _ ≤ _ := hB1)
  rw [hxdiv] at hFhi hFlo
  have hF_lo : (1 / 2 : ℚ) ≤ F64.valQ (F64.ofNat b) := by
    unfold F64.ofNat
    have : (b : ℚ) * (1 / 2 ^ 53) ≤ (b : ℚ) * (1 / 2) := mul_le_mul_of_nonneg_left (by norm_num) (by linarith)
    linarith
  have hF_hi2 : F64.valQ (F64.ofNat b) ≤ 2 ^ 33 := by
    unfold F64.ofNat
    have : (b : ℚ) * (1 / 2 ^ 53) ≤ (b : ℚ) * 1 := mul_le_mul_of_nonneg_left (by norm_num) (by linarith)
    linarith
  have hbpos := F64.val_den_pos (F64.ofNat b)
  have hapos : 0 < (F64.val (F64.ofNat b)).1 := by
    by_contra h0
    have h0' : (F64.val (F64.ofNat b)).1 = 0 := by omega
    have : F64.valQ (F64.ofNat b) = 0 := by unfold F64.valQ; rw [h0']; simp
    linarith
  obtain ⟨C, hCdef⟩ : ∃ C : ℚ, C = (5422874305198591 : ℚ) / 2 ^ 54 := ⟨_, rfl⟩
  rw [← hCdef]
  have hC1 : (1 / 4 : ℚ) ≤ C := by rw [hCdef]; norm_num
  have hC2 : C ≤ 1 / 2 := by rw [hCdef]; norm_num
  have hlne : (F64.log10_2 == F64.inf) = false := by decide
  have e1 : (F64.ofNat b == F64.inf) = false := by
    unfold F64.ofNat; simpa using hFne
  have hmul : backupApprox b = F64.rne ((F64.val (F64.ofNat b)).1 * 5422874305198591) ((F64.val (F64.ofNat b)).2 * 2 ^ 54) := by
    unfold backupApprox F64.mul
    simp only [e1, hlne, Bool.or_self, Bool.false_eq_true, if_false, F64.val_log10_2]
  rw [hmul]
  have hprod : (((F64.val (F64.ofNat b)).1 * 5422874305198591 : Nat) : ℚ) / (((F64.val (F64.ofNat b)).2 * 2 ^ 54 : Nat) : ℚ)
      = F64.valQ (F64.ofNat b) * C := by
    unfold F64.valQ; rw [hCdef]; push_cast; rw [mul_div_mul_comm]; norm_num
  have hP_lo : (1 / 8 : ℚ) ≤ F64.valQ (F64.ofNat b) * C := by
    have := mul_le_mul hF_lo hC1 (by norm_num) (by linarith)
    linarith
  have hP_hi : F64.valQ (F64.ofNat b) * C ≤ 2 ^ 33 := by
    have := mul_le_mul hF_hi2 hC2 (by linarith) (by norm_num)
    linarith
  obtain ⟨hRne, hRhi, hRlo⟩ := F64.rne_normal ((F64.val (F64.ofNat b)).1 * 5422874305198591) ((F64.val (F64.ofNat b)).2 * 2 ^ 54)
    (Nat.mul_pos hapos (by norm_num)) (Nat.mul_pos hbpos (by positivity))
    (by rw [hprod]; exact le_trans hA1 hP_lo)
    (by rw [hprod]
        calc F64.valQ (F64.ofNat b) * C ≤ 2 ^ 33 := hP_hi
          _ < (2 : ℚ) ^ (41 : Nat) := by norm_num
          _ ≤ _ := hB1)
  rw [hprod] at hRhi hRlo
  unfold F64.ofNat at hRhi hRlo
  have hC0 : 0 < C := by linarith
  refine ⟨hRne, le_trans ?_ hRlo, le_trans hRhi ?_⟩
  · have : (b : ℚ) * (1 - 1 / 2 ^ 53) * C ≤ F64.valQ (F64.rne b 1) * C := mul_le_mul_of_nonneg_right hFlo hC0.le
    have h2 : (b : ℚ) * C * ((1 - 1 / 2 ^ 53) * (1 - 1 / 2 ^ 53)) = (b : ℚ) * (1 - 1 / 2 ^ 53) * C * (1 - 1 / 2 ^ 53) := by ring
    rw [h2]
    exact mul_le_mul_of_nonneg_right this (by norm_num)
  · have : F64.valQ (F64.rne b 1) * C ≤ (b : ℚ) * (1 + 1 / 2 ^ 53) * C := mul_le_mul_of_nonneg_right hFhi hC0.le
    have h2 : (b : ℚ) * C * ((1 + 1 / 2 ^ 53) * (1 + 1 / 2 ^ 53)) = (b : ℚ) * (1 + 1 / 2 ^ 53) * C * (1 + 1 / 2 ^ 53) := by ring
    rw [h2]
    exact mul_le_mul_of_nonneg_right this (by norm_num)

/-- **`approx · log 10` is within 0.007 of `bits · log 2`** (up to 2^32 bits): the f64 constant
    `LOG10_2`, its two roundings and the distance of `log10 2` to its convergents all fit -/
theorem backupApprox_log (b : Nat) (hb1 : 1 ≤ b) (hb2 : b ≤ 2 ^ 32) :
    |((F64.valQ (backupApprox b) : ℚ) : ℝ) * Real.log 10 - (b : ℝ) * Real.log 2| ≤ 7 / 1000 := by
  obtain ⟨_, hlo, hhi⟩ := backupApprox_bounds b hb1 hb2
  obtain ⟨l1, l2⟩ := log10_two_bounds
  obtain ⟨t1, t2⟩ := log_ten_bounds
  have hbr1 : (1 : ℝ) ≤ (b : ℝ) := by exact_mod_cast hb1
  have hbr2 : (b : ℝ) ≤ 2 ^ 32 := by exact_mod_cast hb2
  have hloR := (Rat.cast_le (K := ℝ)).mpr hlo
  have hhiR := (Rat.cast_le (K := ℝ)).mpr hhi
  push_cast at hloR hhiR
  generalize ((F64.valQ (backupApprox b) : ℚ) : ℝ) = A at hloR hhiR ⊢
  have hlog10 : 0 < Real.log 10 := by linarith
  rw [abs_le]
  constructor
  · -- b log 2 - A log 10 ≤ b log10 (L2 - C(1-u)^2)
    have h1 : (b : ℝ) * Real.log 2 ≤ (b : ℝ) * ((1838395 / 6107016 : ℝ) * Real.log 10) :=
      mul_le_mul_of_nonneg_left l2 (by linarith)
    have h2 : (b : ℝ) * (5422874305198591 / 2 ^ 54) * ((1 - 1 / 2 ^ 53) * (1 - 1 / 2 ^ 53)) * Real.log 10 ≤ A * Real.log 10 :=
      mul_le_mul_of_nonneg_right hloR hlog10.le
    have hK : (1838395 / 6107016 : ℝ) - (5422874305198591 / 2 ^ 54) * ((1 - 1 / 2 ^ 53) * (1 - 1 / 2 ^ 53)) ≤ 1 / 10 ^ 13 := by norm_num
    have hK0 : (0 : ℝ) ≤ (1838395 / 6107016 : ℝ) - (5422874305198591 / 2 ^ 54) * ((1 - 1 / 2 ^ 53) * (1 - 1 / 2 ^ 53)) := by norm_num
    have h3 : (b : ℝ) * Real.log 10 * ((1838395 / 6107016 : ℝ) - (5422874305198591 / 2 ^ 54) * ((1 - 1 / 2 ^ 53) * (1 - 1 / 2 ^ 53))) ≤
        2 ^ 32 * (2303 / 1000) * (1 / 10 ^ 13) := by
      apply mul_le_mul _ hK hK0 (by positivity)
      exact mul_le_mul hbr2 t2 hlog10.le (by positivity)
    have h4 : (2 : ℝ) ^ 32 * (2303 / 1000) * (1 / 10 ^ 13) ≤ 7 / 1000 := by norm_num
    nlinarith
  · have h1 : (b : ℝ) * ((97879 / 325147 : ℝ) * Real.log 10) ≤ (b : ℝ) * Real.log 2 :=
      mul_le_mul_of_nonneg_left l1 (by linarith)
    have h2 : A * Real.log 10 ≤ (b : ℝ) * (5422874305198591 / 2 ^ 54) * ((1 + 1 / 2 ^ 53) * (1 + 1 / 2 ^ 53)) * Real.log 10 :=
      mul_le_mul_of_nonneg_right hhiR hlog10.le
    have hK : (5422874305198591 / 2 ^ 54 : ℝ) * ((1 + 1 / 2 ^ 53) * (1 + 1 / 2 ^ 53)) - 97879 / 325147 ≤ 5 / 10 ^ 13 := by norm_num
    have hK0 : (0 : ℝ) ≤ (5422874305198591 / 2 ^ 54 : ℝ) * ((1 + 1 / 2 ^ 53) * (1 + 1 / 2 ^ 53)) - 97879 / 325147 := by norm_num
    have h3 : (b : ℝ) * Real.log 10 * ((5422874305198591 / 2 ^ 54 : ℝ) * ((1 + 1 / 2 ^ 53) * (1 + 1 / 2 ^ 53)) - 97879 / 325147) ≤
        2 ^ 32 * (2303 / 1000) * (5 / 10 ^ 13) := by
      apply mul_le_mul _ hK hK0 (by positivity)
      exact mul_le_mul hbr2 t2 hlog10.le (by positivity)
    have h4 : (2 : ℝ) ^ 32 * (2303 / 1000) * (5 / 10 ^ 13) ≤ 7 / 1000 := by norm_num
    nlinarith

end BigDec
