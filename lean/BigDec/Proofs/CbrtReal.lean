import BigDec.Proofs.SqrtReal
/-! The real-number reading of the cube-root rounding: the floor root `r` of `D` with its half-unit
    sticky tail and the real cube root both lie strictly between `r` and `r + 1`, so every rounding
    decision at a position at least one digit to the left is the same. -/
namespace BigDec.Spec
open BigDec

/-- what each mode returns on the magnitude `y > 0` of a number with sign `neg` (no ties) -/
noncomputable def magRound (m : Mode) (neg : Bool) (y : ℝ) : Int :=
  match m with
  | .Down => ⌊y⌋
  | .Up => ⌈y⌉
  | .Floor => if neg then ⌈y⌉ else ⌊y⌋
  | .Ceiling => if neg then ⌊y⌋ else ⌈y⌉
  | .HalfUp => ⌊y + 1 / 2⌋
  | .HalfDown => ⌊y + 1 / 2⌋
  | .HalfEven => ⌊y + 1 / 2⌋

/-- **the half-unit sticky tail decides like the real root**: for any real `Y` strictly between `r`
    and `r + 1`, cutting `r` at `10^t` (`t ≥ 1`) and bumping by `roundUpM` on the virtual tail
    `2·(r mod 10^t) + 1` of modulus `2·10^t` gives the rounding of the magnitude `Y / 10^t` -/
theorem cell_round_real (m : Mode) (neg : Bool) (r t : Nat) (ht : 1 ≤ t) (Y : ℝ)
    (h1 : (r : ℝ) < Y) (h2 : Y < (r : ℝ) + 1) :
    ((r / 10 ^ t + (if roundUpM m neg (r / 10 ^ t) (2 * (r % 10 ^ t) + 1) (2 * 10 ^ t) then 1 else 0) : Nat) : Int)
      = magRound m neg (Y / (10 : ℝ) ^ t) := by
  have hM : (0 : ℝ) < (10 : ℝ) ^ t := by positivity
  have hMn : 0 < 10 ^ t := by positivity
  have hk1 : (10 : Nat) ^ t = 10 * 10 ^ (t - 1) := by
    rw [show t = (t - 1) + 1 by omega, pow_succ]; simp; ring
  have hd := Nat.div_add_mod r (10 ^ t)
  have hm := Nat.mod_lt r hMn
  generalize hq : r / 10 ^ t = q at hd
  generalize hrem : r % 10 ^ t = rem at hd hm
  have hdR : (r : ℝ) = (10 : ℝ) ^ t * q + rem := by exact_mod_cast hd.symm
  have hmR : (rem : ℝ) + 1 ≤ (10 : ℝ) ^ t := by exact_mod_cast hm
  have f1 : (q : ℝ) < Y / (10 : ℝ) ^ t := by
    rw [lt_div_iff₀ hM]
    have : (0 : ℝ) ≤ (rem : ℝ) := Nat.cast_nonneg _
    nlinarith
  have f2 : Y / (10 : ℝ) ^ t < (q : ℝ) + 1 := by
    rw [div_lt_iff₀ hM]; nlinarith
  have hfloor : ⌊Y / (10 : ℝ) ^ t⌋ = (q : Int) := by
    rw [Int.floor_eq_iff]; push_cast; exact ⟨f1.le, f2⟩
  have hceil : ⌈Y / (10 : ℝ) ^ t⌉ = (q : Int) + 1 := by
    rw [Int.ceil_eq_iff]; push_cast; constructor <;> linarith
  have hMk : (10 : ℝ) ^ t = 10 * (10 : ℝ) ^ (t - 1) := by exact_mod_cast hk1
  have hhalf : ⌊Y / (10 : ℝ) ^ t + 1 / 2⌋ = (if 10 ^ t ≤ 2 * rem then (q : Int) + 1 else q) := by
    by_cases hc : 10 ^ t ≤ 2 * rem
    · rw [if_pos hc]
      have hcR : (10 : ℝ) ^ t ≤ 2 * (rem : ℝ) := by exact_mod_cast hc
      have hgt : (q : ℝ) + 1 / 2 < Y / (10 : ℝ) ^ t := by
        rw [lt_div_iff₀ hM]; nlinarith
      rw [Int.floor_eq_iff]; push_cast; constructor <;> linarith
    · rw [if_neg hc]
      -- 2 rem < 10^t, both even: 2 rem + 2 ≤ 10^t
      have hc2 : 2 * rem + 2 ≤ 10 ^ t := by omega
      have hcR : 2 * (rem : ℝ) + 2 ≤ (10 : ℝ) ^ t := by exact_mod_cast hc2
      have hlt : Y / (10 : ℝ) ^ t < (q : ℝ) + 1 / 2 := by
        rw [div_lt_iff₀ hM]; nlinarith
      rw [Int.floor_eq_iff]; push_cast; constructor <;> linarith
  have hv : (2 * rem + 1 != 0) = true := by simp
  cases m <;> simp only [magRound, roundUpM]
  · -- Up
    simp only [hv, if_true]; rw [hceil]; push_cast; rfl
  · -- Down
    simp only [Bool.false_eq_true, if_false, Nat.add_zero]; exact hfloor.symm
  · -- Ceiling
    cases neg
    · simp only [hv, Bool.not_false, Bool.and_self, if_true, Bool.false_eq_true, if_false]; rw [hceil]; push_cast; rfl
    · simp only [Bool.not_true, Bool.and_false, Bool.false_eq_true, if_false, Nat.add_zero, if_true]; exact hfloor.symm
  · -- Floor
    cases neg
    · simp only [Bool.and_false, Bool.false_eq_true, if_false, Nat.add_zero]; exact hfloor.symm
    · simp only [hv, Bool.and_self, if_true]; rw [hceil]; push_cast; rfl
  · -- HalfUp
    rw [hhalf]
    by_cases hc : 10 ^ t ≤ 2 * rem
    · have : decide (2 * (2 * rem + 1) ≥ 2 * 10 ^ t) = true := by simp; omega
      simp only [this, if_true, if_pos hc]; push_cast; rfl
    · have : decide (2 * (2 * rem + 1) ≥ 2 * 10 ^ t) = false := by simp; omega
      simp only [this, Bool.false_eq_true, if_false, if_neg hc, Nat.add_zero]
  · -- HalfDown
    rw [hhalf]
    by_cases hc : 10 ^ t ≤ 2 * rem
    · have : decide (2 * (2 * rem + 1) > 2 * 10 ^ t) = true := by simp; omega
      simp only [this, if_true, if_pos hc]; push_cast; rfl
    · have : decide (2 * (2 * rem + 1) > 2 * 10 ^ t) = false := by simp; omega
      simp only [this, Bool.false_eq_true, if_false, if_neg hc, Nat.add_zero]
  · -- HalfEven
    rw [hhalf]
    have he : (2 * (2 * rem + 1) == 2 * 10 ^ t) = false := by simp; omega
    by_cases hc : 10 ^ t ≤ 2 * rem
    · have : decide (2 * (2 * rem + 1) > 2 * 10 ^ t) = true := by simp; omega
      simp only [this, Bool.true_or, if_true, if_pos hc]; push_cast; rfl
    · have : decide (2 * (2 * rem + 1) > 2 * 10 ^ t) = false := by simp; omega
      simp only [this, he, Bool.false_and, Bool.or_self, Bool.false_eq_true, if_false, if_neg hc, Nat.add_zero]

end BigDec.Spec
