import BigDec.Proofs.F64Parse
import Mathlib.Data.Nat.Cast.Order.Field
/-! The digit estimate of `to_f64`, `floor((bits + 1) as f64 * LOG10_2) as u64`, never exceeds the
    number of decimal digits of the coefficient, so the trimming loop always leaves at least 25. -/
namespace BigDec.F64

/-- in the normal range below `2^1023` the rounding primitive is finite -/
theorem rne_ne_inf_normal (a b : Nat) (ha : 0 < a) (hb : 0 < b)
    (hlo : (2 : ℚ) ^ (-1022 : Int) ≤ (a : ℚ) / b) (hhi : (a : ℚ) / b < (2 : ℚ) ^ (1023 : Int)) :
    rne a b ≠ inf := by
  obtain ⟨h1, h2⟩ := ilog2Ratio_bounds a b ha hb
  obtain ⟨s1, s2⟩ := sigOf_range a b ha hb
  have he_lo : -1022 ≤ ilog2Ratio a b := by
    by_contra hc
    have : (2 : ℚ) ^ (ilog2Ratio a b + 1) ≤ (2 : ℚ) ^ (-1022 : Int) := zpow_le_zpow_right₀ (by norm_num) (by omega)
    exact absurd (lt_of_lt_of_le h2 this) (not_lt.mpr hlo)
  have he_hi : ilog2Ratio a b ≤ 1022 := by
    by_contra hc
    have : (2 : ℚ) ^ (1023 : Int) ≤ (2 : ℚ) ^ (ilog2Ratio a b) := zpow_le_zpow_right₀ (by norm_num) (by omega)
    exact absurd (lt_of_lt_of_le hhi (le_trans this h1)) (lt_irrefl _)
  rw [rne_unfold a b ha, if_neg (by omega)]
  generalize ilog2Ratio a b = e at *
  generalize sigOf a b e = sg at *
  obtain ⟨E, hE⟩ : ∃ E : Nat, e + 1023 = E := ⟨(e + 1023).toNat, by omega⟩
  unfold inf
  by_cases hs : sg = 2 ^ 53
  · have hb1 : (sg == 2 ^ 53) = true := by simpa using hs
    simp only [hb1, if_true]
    rw [if_neg (by omega)]
    have : (e + 1 + 1023).toNat = E + 1 := by omega
    rw [this]; omega
  · have hb1 : (sg == 2 ^ 53) = false := by simpa using hs
    simp only [hb1, Bool.false_eq_true, if_false]
    rw [if_neg (by omega)]
    have : (e + 1023).toNat = E := by omega
    rw [this]; omega

/-- comparing a power of ten with a power of two through the convergent 97879/325147 of `log10 2` -/
theorem ten_pow_le_two_pow_base : (10 : Nat) ^ 97879 ≤ 2 ^ 325147 := by decide +kernel

theorem ten_pow_le_two_pow (a b : Nat) (h : 325147 * a ≤ 97879 * b) : 10 ^ a ≤ 2 ^ b := by
  have h1 : (10 ^ a) ^ 97879 ≤ (2 ^ b) ^ 97879 := by
    calc (10 ^ a) ^ 97879 = (10 ^ 97879) ^ a := by rw [← pow_mul, ← pow_mul, Nat.mul_comm]
      _ ≤ (2 ^ 325147) ^ a := Nat.pow_le_pow_left ten_pow_le_two_pow_base a
      _ = 2 ^ (325147 * a) := by rw [← pow_mul]
      _ ≤ 2 ^ (97879 * b) := Nat.pow_le_pow_right (by norm_num) h
      _ = (2 ^ b) ^ 97879 := by rw [← pow_mul, Nat.mul_comm]
  exact (Nat.pow_le_pow_iff_left (by norm_num)).mp h1

theorem val_log10_2 : val log10_2 = (5422874305198591, 2 ^ 54) := by decide +kernel

/-- the estimate is at most `x · C · (1 + 2^-53)^2` for `x = bits + 1`, `C` the double `LOG10_2` -/
theorem digitCount_le (bits : Nat) (hx : bits + 1 ≤ 2 ^ 39) :
    (digitCount bits : ℚ) ≤ ((bits + 1 : Nat) : ℚ) * ((5422874305198591 : ℚ) / 2 ^ 54) * ((1 + 1 / 2 ^ 53) * (1 + 1 / 2 ^ 53)) := by
  unfold digitCount
  generalize hxdef : bits + 1 = x at *
  have hx0 : 0 < x := by omega
  have hxq1 : (1 : ℚ) ≤ (x : ℚ) := by exact_mod_cast hx0
  have hxq2 : (x : ℚ) ≤ 2 ^ 39 := by exact_mod_cast hx
  have hu53 : (2 : ℚ) ^ (-53 : Int) = 1 / 2 ^ 53 := by
    rw [zpow_neg, show (53 : Int) = ((53 : Nat) : Int) by rfl, zpow_natCast, one_div]
  have hA1 : (2 : ℚ) ^ (-1022 : Int) ≤ 1 / 8 := by
    have : (2 : ℚ) ^ (-1022 : Int) ≤ (2 : ℚ) ^ (-3 : Int) := zpow_le_zpow_right₀ (by norm_num) (by norm_num)
    have e : (2 : ℚ) ^ (-3 : Int) = 1 / 8 := by norm_num
    rw [e] at this; exact this
  have hB1 : (2 : ℚ) ^ (41 : Nat) ≤ (2 : ℚ) ^ (1023 : Int) := by
    rw [← zpow_natCast]; exact zpow_le_zpow_right₀ (by norm_num) (by norm_num)
  -- the integer conversion
  have hxdiv : ((x : ℚ)) / ((1 : Nat) : ℚ) = (x : ℚ) := by simp
  have hFne : ofNat x ≠ inf := by
    unfold ofNat
    apply rne_ne_inf_normal x 1 hx0 (by norm_num)
    · rw [hxdiv]; linarith
    · rw [hxdiv]
      calc (x : ℚ) ≤ 2 ^ 39 := hxq2
        _ < (2 : ℚ) ^ (41 : Nat) := by norm_num
        _ ≤ _ := hB1
  have hFerr : |valQ (ofNat x) - (x : ℚ)| ≤ (x : ℚ) * (1 / 2 ^ 53) := by
    unfold ofNat at hFne ⊢
    rcases rne_spec x 1 hx0 (by norm_num) with h | ⟨h1, _⟩
    · exact absurd h hFne
    · rw [hxdiv, hu53] at h1
      exact h1 (by linarith)
  obtain ⟨hFl, hFu⟩ := abs_le.mp hFerr
  have hxu : (x : ℚ) * (1 / 2 ^ 53) ≤ (x : ℚ) * (1 / 2) := mul_le_mul_of_nonneg_left (by norm_num) (by linarith)
  have hF_lo : (1 / 2 : ℚ) ≤ valQ (ofNat x) := by linarith
  have hF_hi : valQ (ofNat x) ≤ (x : ℚ) * (1 + 1 / 2 ^ 53) := by linarith
  have hF_hi2 : valQ (ofNat x) ≤ 2 ^ 40 := by linarith
  -- the product
  have hbpos := val_den_pos (ofNat x)
  have hapos : 0 < (val (ofNat x)).1 := by
    by_contra h0
    have h0' : (val (ofNat x)).1 = 0 := by omega
    have : valQ (ofNat x) = 0 := by unfold valQ; rw [h0']; simp
    linarith
  have hC : valQ log10_2 = (5422874305198591 : ℚ) / 2 ^ 54 := by
    unfold valQ; rw [val_log10_2]; norm_num
  obtain ⟨C, hCdef⟩ : ∃ C : ℚ, C = (5422874305198591 : ℚ) / 2 ^ 54 := ⟨_, rfl⟩
  rw [← hCdef] at hC ⊢
  have hC1 : (1 / 4 : ℚ) ≤ C := by rw [hCdef]; norm_num
  have hC2 : C ≤ 1 / 2 := by rw [hCdef]; norm_num
  have hlne : (log10_2 == inf) = false := by decide
  have e1 : (ofNat x == inf) = false := by simpa using hFne
  have hmul : mul (ofNat x) log10_2 = rne ((val (ofNat x)).1 * 5422874305198591) ((val (ofNat x)).2 * 2 ^ 54) := by
    unfold mul
    simp only [e1, hlne, Bool.or_self, Bool.false_eq_true, if_false, val_log10_2]
  rw [hmul]
  have hprod : (((val (ofNat x)).1 * 5422874305198591 : Nat) : ℚ) / (((val (ofNat x)).2 * 2 ^ 54 : Nat) : ℚ)
      = valQ (ofNat x) * C := by
    unfold valQ; rw [hCdef]; push_cast; rw [mul_div_mul_comm]; norm_num
  have hP_lo : (1 / 8 : ℚ) ≤ valQ (ofNat x) * C := by
    have := mul_le_mul hF_lo hC1 (by norm_num) (by linarith)
    linarith
  have hP_hi : valQ (ofNat x) * C ≤ 2 ^ 40 := by
    have := mul_le_mul hF_hi2 hC2 (by linarith) (by norm_num)
    linarith
  have hRne : rne ((val (ofNat x)).1 * 5422874305198591) ((val (ofNat x)).2 * 2 ^ 54) ≠ inf := by
    apply rne_ne_inf_normal _ _ (Nat.mul_pos hapos (by norm_num)) (Nat.mul_pos hbpos (by positivity))
    · rw [hprod]; exact le_trans hA1 hP_lo
    · rw [hprod]
      calc valQ (ofNat x) * C ≤ 2 ^ 40 := hP_hi
        _ < (2 : ℚ) ^ (41 : Nat) := by norm_num
        _ ≤ _ := hB1
  have hRerr : valQ (rne ((val (ofNat x)).1 * 5422874305198591) ((val (ofNat x)).2 * 2 ^ 54)) ≤
      valQ (ofNat x) * C * (1 + 1 / 2 ^ 53) := by
    rcases rne_spec ((val (ofNat x)).1 * 5422874305198591) ((val (ofNat x)).2 * 2 ^ 54)
        (Nat.mul_pos hapos (by norm_num)) (Nat.mul_pos hbpos (by positivity)) with h | ⟨h1, _⟩
    · exact absurd h hRne
    · rw [hprod, hu53] at h1
      have := (abs_le.mp (h1 (le_trans hA1 hP_lo))).2
      linarith
  generalize rne ((val (ofNat x)).1 * 5422874305198591) ((val (ofNat x)).2 * 2 ^ 54) = R at hRne hRerr ⊢
  unfold floorU64
  have e2 : (R == inf) = false := by simpa using hRne
  simp only [e2, Bool.false_eq_true, if_false]
  have hfloor : ((min ((val R).1 / (val R).2) (2 ^ 64 - 1) : Nat) : ℚ) ≤ valQ R := by
    have h1 : (min ((val R).1 / (val R).2) (2 ^ 64 - 1) : Nat) ≤ (val R).1 / (val R).2 := Nat.min_le_left _ _
    have h2 : (((val R).1 / (val R).2 : Nat) : ℚ) ≤ ((val R).1 : ℚ) / ((val R).2 : ℚ) := Nat.cast_div_le
    unfold valQ
    exact le_trans (by exact_mod_cast h1) h2
  have hCpos : 0 < C := by linarith
  calc ((min ((val R).1 / (val R).2) (2 ^ 64 - 1) : Nat) : ℚ) ≤ valQ R := hfloor
    _ ≤ valQ (ofNat x) * C * (1 + 1 / 2 ^ 53) := hRerr
    _ ≤ (x : ℚ) * (1 + 1 / 2 ^ 53) * C * (1 + 1 / 2 ^ 53) := by
        apply mul_le_mul_of_nonneg_right _ (by norm_num)
        exact mul_le_mul_of_nonneg_right hF_hi hCpos.le
    _ = (x : ℚ) * C * ((1 + 1 / 2 ^ 53) * (1 + 1 / 2 ^ 53)) := by ring

/-- **the digit estimate never exceeds the true digit count by enough to matter**: for every
    coefficient below `2^(2^39 - 2)` the trimming loop of `to_f64` leaves at least 25 digits -/
theorem digitCount_keeps25 (n : Nat) (hn : 0 < n) (hsize : n.log2 + 2 ≤ 2 ^ 39) :
    trimKeeps25 digitCount n = true := by
  unfold trimKeeps25
  by_cases hit : trimRounds digitCount n = 0
  · simp [hit]
  have hdc := digitCount_le (n.log2 + 1) (by omega)
  unfold trimRounds at hit ⊢
  generalize hd : digitCount (n.log2 + 1) = dc at *
  have hit1 : 1 ≤ (dc - 25) / 19 := by omega
  have hmul : 19 * ((dc - 25) / 19) ≤ dc - 25 := Nat.mul_div_le _ _
  have hdc44 : 44 ≤ dc := by omega
  -- 325147 (dc - 1) ≤ 97879 log2 n
  have hK : (325147 : ℚ) * ((5422874305198591 : ℚ) / 2 ^ 54 * ((1 + 1 / 2 ^ 53) * (1 + 1 / 2 ^ 53))) ≤ 97879 + 129389 / 2 ^ 39 := by
    norm_num
  have hxq : (((n.log2 + 1 + 1 : Nat)) : ℚ) ≤ 2 ^ 39 := by exact_mod_cast (by omega : n.log2 + 1 + 1 ≤ 2 ^ 39)
  have hx0 : (0 : ℚ) ≤ (((n.log2 + 1 + 1 : Nat)) : ℚ) := Nat.cast_nonneg _
  generalize hxdef : (((n.log2 + 1 + 1 : Nat)) : ℚ) = x at hdc hxq hx0
  have h1 : (325147 : ℚ) * (dc : ℚ) ≤ x * (97879 + 129389 / 2 ^ 39) := by
    calc (325147 : ℚ) * (dc : ℚ) ≤ 325147 * (x * ((5422874305198591 : ℚ) / 2 ^ 54) * ((1 + 1 / 2 ^ 53) * (1 + 1 / 2 ^ 53))) :=
          mul_le_mul_of_nonneg_left hdc (by norm_num)
      _ = x * (325147 * ((5422874305198591 : ℚ) / 2 ^ 54 * ((1 + 1 / 2 ^ 53) * (1 + 1 / 2 ^ 53)))) := by ring
      _ ≤ x * (97879 + 129389 / 2 ^ 39) := mul_le_mul_of_nonneg_left hK hx0
  have h2 : x * (129389 / 2 ^ 39) ≤ 129389 := by
    have := mul_le_mul_of_nonneg_right hxq (by norm_num : (0 : ℚ) ≤ 129389 / 2 ^ 39)
    have e : (2 : ℚ) ^ 39 * (129389 / 2 ^ 39) = 129389 := by norm_num
    linarith
  have h3 : (325147 : ℚ) * (dc : ℚ) ≤ 97879 * (((n.log2 + 1 + 1 : Nat)) : ℚ) + 129389 := by
    rw [hxdef]; linarith
  have h4 : 325147 * dc ≤ 97879 * (n.log2 + 1 + 1) + 129389 := by exact_mod_cast h3
  have h5 : 325147 * (dc - 1) ≤ 97879 * n.log2 := by omega
  have h6 : 10 ^ (dc - 1) ≤ 2 ^ n.log2 := ten_pow_le_two_pow _ _ h5
  have h7 : 2 ^ n.log2 ≤ n := (log2_bounds n hn).1
  have h8 : 10 ^ (19 * ((dc - 25) / 19) + 24) ≤ 10 ^ (dc - 1) := Nat.pow_le_pow_right (by norm_num) (by omega)
  have : 10 ^ (19 * ((dc - 25) / 19) + 24) ≤ n := le_trans h8 (le_trans h6 h7)
  simp [this]

end BigDec.F64
