import BigDec.Spec.ExpEnclosure
import Mathlib.Analysis.Complex.Exponential
import Mathlib.Tactic.Ring
import Mathlib.Tactic.Linarith
import Mathlib.Tactic.Positivity
import Mathlib.Tactic.FieldSimp
/-! Soundness of the interval oracle for `e^x` with respect to `Real.exp`. -/
namespace BigDec.Spec
open Finset

theorem ceilDiv_ge (a b : Nat) (hb : 0 < b) : (a : ℝ) / b ≤ (ceilDiv a b : ℝ) := by
  unfold ceilDiv
  rw [div_le_iff₀ (by exact_mod_cast hb)]
  have h1 := Nat.div_add_mod (a + b - 1) b
  have h2 := Nat.mod_lt (a + b - 1) hb
  have : a ≤ (a + b - 1) / b * b := by
    have : (a + b - 1) / b * b = b * ((a + b - 1) / b) := Nat.mul_comm _ _
    omega
  exact_mod_cast this

theorem floorDiv_le (a b : Nat) (hb : 0 < b) : ((a / b : Nat) : ℝ) ≤ (a : ℝ) / b := by
  rw [le_div_iff₀ (by exact_mod_cast hb)]
  exact_mod_cast Nat.div_mul_le_self a b

/-- the Taylor term and partial sum -/
noncomputable def term (y : ℝ) (k : Nat) : ℝ := y ^ k / (k.factorial : ℝ)
noncomputable def psum (y : ℝ) (k : Nat) : ℝ := ∑ i ∈ range k, y ^ i / (i.factorial : ℝ)

theorem term_succ (y : ℝ) (k : Nat) : term y (k + 1) = term y k * y / (k + 1 : ℝ) := by
  unfold term
  rw [pow_succ, Nat.factorial_succ]
  push_cast
  field_simp

theorem psum_succ (y : ℝ) (k : Nat) : psum y (k + 1) = psum y k + term y k := by
  unfold psum term; rw [sum_range_succ]

/-- invariant of the series loop: the last term `y^(k-1)/(k-1)!` and the partial sum of `k` terms are
    enclosed (in units of `10^-D`) -/
theorem expSeries_inv (yn yd : Nat) (hyd : 0 < yd) (P : ℝ) (hP : 0 ≤ P) (fuel : Nat) :
    ∀ (k tlo thi slo shi : Nat), 1 ≤ k →
      (tlo : ℝ) ≤ P * term ((yn : ℝ) / yd) (k - 1) → P * term ((yn : ℝ) / yd) (k - 1) ≤ (thi : ℝ) →
      (slo : ℝ) ≤ P * psum ((yn : ℝ) / yd) k → P * psum ((yn : ℝ) / yd) k ≤ (shi : ℝ) →
      ∃ K : Nat, 1 ≤ K ∧
        ((expSeries yn yd fuel k tlo thi slo shi).1 : ℝ) ≤ P * psum ((yn : ℝ) / yd) K ∧
        P * psum ((yn : ℝ) / yd) K ≤ ((expSeries yn yd fuel k tlo thi slo shi).2.1 : ℝ) ∧
        P * term ((yn : ℝ) / yd) (K - 1) ≤ ((expSeries yn yd fuel k tlo thi slo shi).2.2 : ℝ) ∧
        slo ≤ (expSeries yn yd fuel k tlo thi slo shi).1 := by
  induction fuel with
  | zero =>
    intro k tlo thi slo shi hk h1 h2 h3 h4
    exact ⟨k, hk, by simpa [expSeries] using h3, by simpa [expSeries] using h4, by simpa [expSeries] using h2, by simp [expSeries]⟩
  | succ f ih =>
    intro k tlo thi slo shi hk h1 h2 h3 h4
    have hy0 : (0 : ℝ) ≤ (yn : ℝ) / yd := by positivity
    have hkpos : (0 : ℝ) < (k : ℝ) := by exact_mod_cast hk
    have hden : 0 < yd * k := Nat.mul_pos hyd (by omega)
    have hdenR : ((yd * k : Nat) : ℝ) = (yd : ℝ) * k := by push_cast; ring
    have hydR : (0 : ℝ) < (yd : ℝ) := by exact_mod_cast hyd
    -- the next term
    have hts : term ((yn : ℝ) / yd) k = term ((yn : ℝ) / yd) (k - 1) * ((yn : ℝ) / yd) / k := by
      have := term_succ ((yn : ℝ) / yd) (k - 1)
      have e : k - 1 + 1 = k := by omega
      rw [e] at this
      rw [this]
      congr 1
      have : ((k - 1 : Nat) : ℝ) + 1 = k := by
        have : ((k - 1 + 1 : Nat) : ℝ) = k := by rw [e]
        push_cast at this; exact this
      exact this
    have hlo' : (((tlo * yn) / (yd * k) : Nat) : ℝ) ≤ P * term ((yn : ℝ) / yd) k := by
      have := floorDiv_le (tlo * yn) (yd * k) hden
      rw [hdenR] at this
      refine le_trans this ?_
      rw [hts]
      have : ((tlo * yn : Nat) : ℝ) / ((yd : ℝ) * k) = (tlo : ℝ) * ((yn : ℝ) / yd) / k := by push_cast; field_simp
      rw [this]
      have h5 : (tlo : ℝ) * ((yn : ℝ) / yd) ≤ P * term ((yn : ℝ) / yd) (k - 1) * ((yn : ℝ) / yd) :=
        mul_le_mul_of_nonneg_right h1 hy0
      have := div_le_div_of_nonneg_right h5 hkpos.le
      calc (tlo : ℝ) * ((yn : ℝ) / yd) / k ≤ P * term ((yn : ℝ) / yd) (k - 1) * ((yn : ℝ) / yd) / k := this
        _ = P * (term ((yn : ℝ) / yd) (k - 1) * ((yn : ℝ) / yd) / k) := by ring
    have hhi' : P * term ((yn : ℝ) / yd) k ≤ ((ceilDiv (thi * yn) (yd * k) : Nat) : ℝ) := by
      have := ceilDiv_ge (thi * yn) (yd * k) hden
      rw [hdenR] at this
      refine le_trans ?_ this
      rw [hts]
      have e : ((thi * yn : Nat) : ℝ) / ((yd : ℝ) * k) = (thi : ℝ) * ((yn : ℝ) / yd) / k := by push_cast; field_simp
      rw [e]
      have h5 : P * term ((yn : ℝ) / yd) (k - 1) * ((yn : ℝ) / yd) ≤ (thi : ℝ) * ((yn : ℝ) / yd) :=
        mul_le_mul_of_nonneg_right h2 hy0
      have := div_le_div_of_nonneg_right h5 hkpos.le
      calc P * (term ((yn : ℝ) / yd) (k - 1) * ((yn : ℝ) / yd) / k) = P * term ((yn : ℝ) / yd) (k - 1) * ((yn : ℝ) / yd) / k := by ring
        _ ≤ _ := this
    have hs1 : ((slo + (tlo * yn) / (yd * k) : Nat) : ℝ) ≤ P * psum ((yn : ℝ) / yd) (k + 1) := by
      rw [psum_succ]; push_cast; push_cast at hlo'; linarith
    have hs2 : P * psum ((yn : ℝ) / yd) (k + 1) ≤ ((shi + ceilDiv (thi * yn) (yd * k) : Nat) : ℝ) := by
      rw [psum_succ]; push_cast; push_cast at hhi'; linarith
    unfold expSeries
    simp only
    split
    · exact ⟨k + 1, by omega, hs1, hs2, by simpa using hhi', by simp⟩
    · obtain ⟨K, hK, r1, r2, r3, r4⟩ := ih (k + 1) _ _ _ _ (by omega) (by simpa using hlo') (by simpa using hhi') hs1 hs2
      exact ⟨K, hK, r1, r2, r3, le_trans (Nat.le_add_right _ _) r4⟩

/-- the remainder after `K ≥ 1` terms is at most the last term, for `0 ≤ y ≤ 1/2` -/
theorem exp_le_psum_add_term (y : ℝ) (hy0 : 0 ≤ y) (hy : y ≤ 1 / 2) (K : Nat) (hK : 1 ≤ K) :
    Real.exp y ≤ psum y K + term y (K - 1) := by
  obtain ⟨m, rfl⟩ : ∃ m, K = m + 1 := ⟨K - 1, by omega⟩
  have hb := Real.exp_bound' hy0 (by linarith) (n := m + 1) (by omega)
  unfold psum term
  simp only [Nat.add_sub_cancel]
  refine le_trans hb ?_
  have hfac : (0 : ℝ) < (m.factorial : ℝ) := by exact_mod_cast Nat.factorial_pos m
  have hm1 : (0 : ℝ) < (m : ℝ) + 1 := by positivity
  have hrem : y ^ (m + 1) * (((m + 1 : Nat) : ℝ) + 1) / (((m + 1).factorial : ℝ) * ((m + 1 : Nat) : ℝ)) ≤ y ^ m / (m.factorial : ℝ) := by
    rw [Nat.factorial_succ]
    push_cast
    rw [div_le_div_iff₀ (by positivity) hfac]
    have hym : 0 ≤ y ^ m := pow_nonneg hy0 m
    -- y (m+2) ≤ (m+1)^2
    have hkey : y * ((m : ℝ) + 1 + 1) ≤ ((m : ℝ) + 1) * ((m : ℝ) + 1) := by
      have hmm : (0 : ℝ) ≤ (m : ℝ) := Nat.cast_nonneg m
      nlinarith
    calc y ^ (m + 1) * ((m : ℝ) + 1 + 1) * (m.factorial : ℝ)
        = y ^ m * (m.factorial : ℝ) * (y * ((m : ℝ) + 1 + 1)) := by rw [pow_succ]; ring
      _ ≤ y ^ m * (m.factorial : ℝ) * (((m : ℝ) + 1) * ((m : ℝ) + 1)) :=
          mul_le_mul_of_nonneg_left hkey (mul_nonneg hym hfac.le)
      _ = y ^ m * (((m : ℝ) + 1) * (m.factorial : ℝ) * ((m : ℝ) + 1)) := by ring
  linarith

/-- **the small-argument enclosure is sound**: for `0 ≤ yn/yd ≤ 1/2` -/
theorem expSmall_sound (yn yd D : Nat) (hyd : 0 < yd) (hy : 2 * yn ≤ yd) :
    ((expSmall yn yd D).lo : ℝ) / 10 ^ D ≤ Real.exp ((yn : ℝ) / yd) ∧
    Real.exp ((yn : ℝ) / yd) ≤ ((expSmall yn yd D).hi : ℝ) / 10 ^ D ∧
    10 ^ D ≤ (expSmall yn yd D).lo := by
  have hP : (0 : ℝ) < (10 : ℝ) ^ D := by positivity
  have hy0 : (0 : ℝ) ≤ (yn : ℝ) / yd := by positivity
  have hyh : (yn : ℝ) / yd ≤ 1 / 2 := by
    rw [div_le_iff₀ (by exact_mod_cast hyd)]
    have : ((2 * yn : Nat) : ℝ) ≤ (yd : ℝ) := by exact_mod_cast hy
    push_cast at this; linarith
  have hcast : ((10 ^ D : Nat) : ℝ) = (10 : ℝ) ^ D := by push_cast; rfl
  obtain ⟨K, hK, r1, r2, r3, r4⟩ := expSeries_inv yn yd hyd ((10 : ℝ) ^ D) hP.le 400 1 (10 ^ D) (10 ^ D) (10 ^ D) (10 ^ D) (by omega)
    (by simp [term, hcast]) (by simp [term, hcast]) (by simp [psum, hcast]) (by simp [psum, hcast])
  unfold expSmall
  simp only
  generalize expSeries yn yd 400 1 (10 ^ D) (10 ^ D) (10 ^ D) (10 ^ D) = res at r1 r2 r3 r4
  obtain ⟨slo, shi, thi⟩ := res
  simp only at r1 r2 r3 r4 ⊢
  have hlow := Real.sum_le_exp_of_nonneg hy0 K
  have hup := exp_le_psum_add_term _ hy0 hyh K hK
  have hps : psum ((yn : ℝ) / yd) K = ∑ i ∈ range K, ((yn : ℝ) / yd) ^ i / (i.factorial : ℝ) := rfl
  refine ⟨?_, ?_, r4⟩
  · rw [div_le_iff₀ hP]
    calc (slo : ℝ) ≤ (10 : ℝ) ^ D * psum ((yn : ℝ) / yd) K := r1
      _ ≤ (10 : ℝ) ^ D * Real.exp ((yn : ℝ) / yd) := mul_le_mul_of_nonneg_left (by rw [hps]; exact hlow) hP.le
      _ = Real.exp ((yn : ℝ) / yd) * (10 : ℝ) ^ D := by ring
  · rw [le_div_iff₀ hP]
    have h1 : Real.exp ((yn : ℝ) / yd) * (10 : ℝ) ^ D ≤ (10 : ℝ) ^ D * psum ((yn : ℝ) / yd) K + (10 : ℝ) ^ D * term ((yn : ℝ) / yd) (K - 1) := by
      have := mul_le_mul_of_nonneg_left hup hP.le
      linarith
    have hthi : (0 : ℝ) ≤ (thi : ℝ) := Nat.cast_nonneg _
    push_cast
    linarith

/-- squaring an enclosure of a positive number encloses its square; lower ends stay at least one -/
theorem sqIval_sound (v : Ival) (D : Nat) (a : ℝ) (ha : 0 ≤ a)
    (h1 : (v.lo : ℝ) / 10 ^ D ≤ a) (h2 : a ≤ (v.hi : ℝ) / 10 ^ D) (h3 : 10 ^ D ≤ v.lo) :
    ((sqIval v D).lo : ℝ) / 10 ^ D ≤ a ^ 2 ∧ a ^ 2 ≤ ((sqIval v D).hi : ℝ) / 10 ^ D ∧ 10 ^ D ≤ (sqIval v D).lo := by
  have hP : (0 : ℝ) < (10 : ℝ) ^ D := by positivity
  have hPn : 0 < 10 ^ D := by positivity
  have hcast : ((10 ^ D : Nat) : ℝ) = (10 : ℝ) ^ D := by push_cast; rfl
  unfold sqIval
  simp only
  have hlo0 : (0 : ℝ) ≤ (v.lo : ℝ) / 10 ^ D := by positivity
  refine ⟨?_, ?_, ?_⟩
  · have := floorDiv_le (v.lo * v.lo) (10 ^ D) hPn
    rw [hcast] at this
    calc ((v.lo * v.lo / 10 ^ D : Nat) : ℝ) / 10 ^ D ≤ ((v.lo * v.lo : Nat) : ℝ) / 10 ^ D / 10 ^ D :=
          div_le_div_of_nonneg_right this hP.le
      _ = ((v.lo : ℝ) / 10 ^ D) ^ 2 := by push_cast; field_simp
      _ ≤ a ^ 2 := pow_le_pow_left₀ hlo0 h1 2
  · have := ceilDiv_ge (v.hi * v.hi) (10 ^ D) hPn
    rw [hcast] at this
    calc a ^ 2 ≤ ((v.hi : ℝ) / 10 ^ D) ^ 2 := pow_le_pow_left₀ ha h2 2
      _ = ((v.hi * v.hi : Nat) : ℝ) / 10 ^ D / 10 ^ D := by push_cast; field_simp
      _ ≤ (ceilDiv (v.hi * v.hi) (10 ^ D) : ℝ) / 10 ^ D := div_le_div_of_nonneg_right this hP.le
  · rw [Nat.le_div_iff_mul_le hPn]
    exact Nat.mul_le_mul h3 h3

theorem sqTimes_sound (D : Nat) (j : Nat) : ∀ (v : Ival) (a : ℝ), 0 ≤ a →
    (v.lo : ℝ) / 10 ^ D ≤ a → a ≤ (v.hi : ℝ) / 10 ^ D → 10 ^ D ≤ v.lo →
    ((sqTimes D j v).lo : ℝ) / 10 ^ D ≤ a ^ (2 ^ j) ∧ a ^ (2 ^ j) ≤ ((sqTimes D j v).hi : ℝ) / 10 ^ D ∧
    10 ^ D ≤ (sqTimes D j v).lo := by
  induction j with
  | zero => intro v a _ h1 h2 h3; simpa [sqTimes] using ⟨h1, h2, h3⟩
  | succ j ih =>
    intro v a ha h1 h2 h3
    obtain ⟨s1, s2, s3⟩ := sqIval_sound v D a ha h1 h2 h3
    have := ih (sqIval v D) (a ^ 2) (by positivity) s1 s2 s3
    unfold sqTimes
    rw [pow_succ, pow_mul'] 
    exact this

/-- the halving loop: the denominator is multiplied by `2^j` until the fraction is at most one half -/
theorem halvings_spec (num : Nat) (fuel : Nat) : ∀ (d j : Nat), 2 * num ≤ d * 2 ^ fuel →
    ∃ e, (halvings num fuel d j).1 = d * 2 ^ e ∧ (halvings num fuel d j).2 = j + e ∧ 2 * num ≤ (halvings num fuel d j).1 := by
  induction fuel with
  | zero => intro d j h; exact ⟨0, by simp [halvings], by simp [halvings], by simpa [halvings] using h⟩
  | succ f ih =>
    intro d j h
    unfold halvings
    split
    · obtain ⟨e, h1, h2, h3⟩ := ih (d * 2) (j + 1) (by rw [pow_succ] at h; linarith)
      exact ⟨e + 1, by rw [h1, pow_succ]; ring, by rw [h2]; ring, h3⟩
    · rename_i hc
      exact ⟨0, by simp, by simp, by omega⟩

/-- the magnitude of the argument as the fraction the oracle works with -/
theorem abs_arg (xi xs : Int) :
    |(xi : ℝ) * (10 : ℝ) ^ (-xs)| =
      ((if xs ≥ 0 then (xi.natAbs, 10 ^ xs.toNat) else (xi.natAbs * 10 ^ (-xs).toNat, 1) : Nat × Nat).1 : ℝ) /
      ((if xs ≥ 0 then (xi.natAbs, 10 ^ xs.toNat) else (xi.natAbs * 10 ^ (-xs).toNat, 1) : Nat × Nat).2 : ℝ) := by
  have habs : |(xi : ℝ)| = (xi.natAbs : ℝ) := by
    rw [← Int.cast_abs, Int.abs_eq_natAbs]; simp
  have hpos : (0 : ℝ) < (10 : ℝ) ^ (-xs) := zpow_pos (by norm_num) _
  rw [abs_mul, abs_of_pos hpos, habs]
  by_cases h : xs ≥ 0
  · rw [if_pos h]
    obtain ⟨k, hk⟩ : ∃ k : Nat, xs = k := ⟨xs.toNat, by omega⟩
    subst hk
    simp only [Int.toNat_natCast, zpow_neg, zpow_natCast]
    push_cast
    rw [div_eq_mul_inv]
  · rw [if_neg h]
    obtain ⟨k, hk⟩ : ∃ k : Nat, -xs = k := ⟨(-xs).toNat, by omega⟩
    rw [hk]
    simp only [Int.toNat_natCast, zpow_natCast]
    push_cast
    simp

/-- **the oracle is sound**: the interval it returns (in units of `10^-D`) contains `e^x` for the
    decimal `x = xi · 10^-xs`, for every argument and every working precision -/
theorem expEnclosure_sound (xi xs : Int) (D : Nat) :
    ((expEnclosure xi xs D).lo : ℝ) / 10 ^ D ≤ Real.exp ((xi : ℝ) * (10 : ℝ) ^ (-xs)) ∧
    Real.exp ((xi : ℝ) * (10 : ℝ) ^ (-xs)) ≤ ((expEnclosure xi xs D).hi : ℝ) / 10 ^ D := by
  have hP : (0 : ℝ) < (10 : ℝ) ^ D := by positivity
  have habs := abs_arg xi xs
  unfold expEnclosure
  simp only
  generalize hnd : (if xs ≥ 0 then (xi.natAbs, 10 ^ xs.toNat) else (xi.natAbs * 10 ^ (-xs).toNat, 1) : Nat × Nat) = nd at habs
  obtain ⟨num, den⟩ := nd
  simp only at habs ⊢
  have hden : 0 < den := by
    by_cases h : xs ≥ 0
    · rw [if_pos h] at hnd; have := (Prod.mk.inj hnd).2; rw [← this]; positivity
    · rw [if_neg h] at hnd; have := (Prod.mk.inj hnd).2; omega
  have hfuel : 2 * num ≤ den * 2 ^ (num.log2 + 2) := by
    have h1 : num < 2 ^ (num.log2 + 1) := Nat.lt_log2_self
    have h2 : 2 ^ (num.log2 + 2) = 2 * 2 ^ (num.log2 + 1) := by rw [pow_succ]; ring
    have h3 : 2 ^ (num.log2 + 2) ≤ den * 2 ^ (num.log2 + 2) := Nat.le_mul_of_pos_left _ hden
    omega
  obtain ⟨e, hd, hj, hhalf⟩ := halvings_spec num (num.log2 + 2) den 0 hfuel
  generalize halvings num (num.log2 + 2) den 0 = dj at hd hj hhalf
  obtain ⟨d, j⟩ := dj
  simp only at hd hj hhalf ⊢
  have hj' : j = e := by omega
  subst hj'
  have hdpos : 0 < d := by rw [hd]; positivity
  obtain ⟨s1, s2, s3⟩ := expSmall_sound num d D hdpos hhalf
  obtain ⟨t1, t2, t3⟩ := sqTimes_sound D j (expSmall num d D) (Real.exp ((num : ℝ) / d)) (Real.exp_pos _).le s1 s2 s3
  -- exp(y)^(2^j) = exp(num/den)
  have hpow : Real.exp ((num : ℝ) / d) ^ (2 ^ j) = Real.exp ((num : ℝ) / den) := by
    rw [← Real.exp_nat_mul]
    congr 1
    rw [hd]; push_cast
    have : (den : ℝ) ≠ 0 := by exact_mod_cast hden.ne'
    field_simp
  rw [hpow] at t1 t2
  generalize sqTimes D j (expSmall num d D) = v at t1 t2 t3
  have hEpos := Real.exp_pos ((num : ℝ) / den)
  by_cases hneg : xi < 0
  · rw [if_pos hneg]
    simp only
    -- x = -(num/den)
    have hx : (xi : ℝ) * (10 : ℝ) ^ (-xs) = -((num : ℝ) / den) := by
      have hpos : (0 : ℝ) < (10 : ℝ) ^ (-xs) := zpow_pos (by norm_num) _
      have hxi : (xi : ℝ) < 0 := by exact_mod_cast hneg
      have : (xi : ℝ) * (10 : ℝ) ^ (-xs) < 0 := mul_neg_of_neg_of_pos hxi hpos
      rw [abs_of_neg this] at habs
      linarith
    rw [hx, Real.exp_neg]
    have hlo_pos : (0 : ℝ) < (v.lo : ℝ) := by
      have : 0 < v.lo := lt_of_lt_of_le (by positivity) t3
      exact_mod_cast this
    have hhi_pos : (0 : ℝ) < (v.hi : ℝ) := by
      have := lt_of_lt_of_le hEpos t2
      rw [lt_div_iff₀ hP] at this
      linarith
    have hhin : 0 < v.hi := by exact_mod_cast hhi_pos
    have hlon : 0 < v.lo := by exact_mod_cast hlo_pos
    have hP2 : ((10 ^ (2 * D) : Nat) : ℝ) = (10 : ℝ) ^ D * (10 : ℝ) ^ D := by push_cast; rw [two_mul, pow_add]
    constructor
    · have := floorDiv_le (10 ^ (2 * D)) v.hi hhin
      rw [hP2] at this
      calc ((10 ^ (2 * D) / v.hi : Nat) : ℝ) / 10 ^ D ≤ (10 : ℝ) ^ D * (10 : ℝ) ^ D / v.hi / 10 ^ D :=
            div_le_div_of_nonneg_right this hP.le
        _ = ((v.hi : ℝ) / 10 ^ D)⁻¹ := by field_simp
        _ ≤ (Real.exp ((num : ℝ) / den))⁻¹ := inv_anti₀ hEpos t2
    · have := ceilDiv_ge (10 ^ (2 * D)) v.lo hlon
      rw [hP2] at this
      have hlo_div : (0 : ℝ) < (v.lo : ℝ) / 10 ^ D := by positivity
      calc (Real.exp ((num : ℝ) / den))⁻¹ ≤ ((v.lo : ℝ) / 10 ^ D)⁻¹ := inv_anti₀ hlo_div t1
        _ = (10 : ℝ) ^ D * (10 : ℝ) ^ D / v.lo / 10 ^ D := by field_simp
        _ ≤ (ceilDiv (10 ^ (2 * D)) v.lo : ℝ) / 10 ^ D := div_le_div_of_nonneg_right this hP.le
  · rw [if_neg hneg]
    have hx : (xi : ℝ) * (10 : ℝ) ^ (-xs) = (num : ℝ) / den := by
      have hpos : (0 : ℝ) < (10 : ℝ) ^ (-xs) := zpow_pos (by norm_num) _
      have hxi : (0 : ℝ) ≤ (xi : ℝ) := by exact_mod_cast (by omega : 0 ≤ xi)
      have : 0 ≤ (xi : ℝ) * (10 : ℝ) ^ (-xs) := mul_nonneg hxi hpos.le
      rw [abs_of_nonneg this] at habs
      exact habs
    rw [hx]
    exact ⟨t1, t2⟩

end BigDec.Spec
