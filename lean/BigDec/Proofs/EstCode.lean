import BigDec.Proofs.Digits
import BigDec.Proofs.Prec
import BigDec.Proofs.Cmp
import BigDec.Proofs.F64Est
/-! The f64 estimates of the code, modelled through the rounding primitive (`F64.estCode`,
    `F64.preCode`), satisfy the scalar conditions the digit-count and comparison theorems need. -/
namespace BigDec
open Generated

/-- the code's estimate up to 2^40 bits, the exact floor above (where nothing is proved about the
    f64 computation) -/
def estGuard (b : Nat) : Nat := if b ≤ 2 ^ 40 then F64.estCode b else Nat.log 10 (2 ^ b)

theorem estGuard_eq (b : Nat) (h : b ≤ 2 ^ 40) : estGuard b = F64.estCode b := by
  unfold estGuard; rw [if_pos h]

theorem estGuard_ok : EstOK estGuard := by
  intro b
  unfold estGuard
  by_cases h : b + 1 ≤ 2 ^ 40
  · rw [if_pos h]; exact F64.estCode_ok b (by omega)
  · rw [if_neg h]; exact estLog_ok b

theorem countDigitsUint_congr (e1 e2 : Nat → Nat) (n : Nat) (h : e1 (n.log2 + 1) = e2 (n.log2 + 1)) :
    countDigitsUint e1 n = countDigitsUint e2 n := by
  unfold countDigitsUint; rw [h]

theorem getRoundingTerm_congr (e1 e2 : Nat → Nat) (n : Nat) (h : e1 (n.log2 + 1) = e2 (n.log2 + 1)) :
    getRoundingTerm e1 n = getRoundingTerm e2 n := by
  unfold getRoundingTerm; rw [h]

/-- `count_decimal_digits_uint` with the code's own f64 estimate is exact below 2^40 bits -/
theorem countDigitsUint_code (n : Nat) (h : n.log2 + 1 ≤ 2 ^ 40) :
    countDigitsUint F64.estCode n = numDigits n := by
  rw [countDigitsUint_congr F64.estCode estGuard n (estGuard_eq _ h).symm]
  exact countDigitsUint_spec estGuard_ok n

/-- `get_rounding_term` with the code's own f64 estimate is exact below 2^40 bits -/
theorem getRoundingTerm_code (n : Nat) (h : n.log2 + 1 ≤ 2 ^ 40) :
    getRoundingTerm F64.estCode n = roundTerm n := by
  rw [getRoundingTerm_congr F64.estCode estGuard n (estGuard_eq _ h).symm]
  exact getRoundingTerm_spec estGuard_ok n

theorem log2_mono {a b : Nat} (h : a ≤ b) : a.log2 ≤ b.log2 := by
  by_cases ha : a = 0
  · subst ha; simp
  · have hb : b ≠ 0 := by omega
    rw [Nat.le_log2 hb]
    exact le_trans (Nat.log2_self_le ha) h

/-- `with_prec` with the code's own estimate = ties-away rounding to `p` digits, below 2^40 bits -/
theorem withPrec_code (d : Dec) (p : Nat) (h : d.int.natAbs.log2 + 1 ≤ 2 ^ 40) :
    d.withPrec F64.estCode p = Spec.roundToPrec d p .HalfUp := by
  rw [← withPrec_spec estGuard_ok d p]
  have hr : ∀ k : Nat, getRoundingTerm F64.estCode (d.int.tmod (k : Int)).natAbs
      = getRoundingTerm estGuard (d.int.tmod (k : Int)).natAbs := by
    intro k
    apply getRoundingTerm_congr
    symm; apply estGuard_eq
    have : (d.int.tmod (k : Int)).natAbs ≤ d.int.natAbs := by
      rw [Int.natAbs_tmod]
      exact Nat.mod_le _ _
    have := log2_mono this
    omega
  unfold Dec.withPrec
  simp only [hr]

/-- the bit-length shortcut with the code's own f64 product -/
theorem preCode_PreOK : PreOK F64.preCode := fun k hk => F64.preCode_ok k hk

end BigDec
