import BigDec.Model.Inverse
import BigDec.Proofs.Prec
import BigDec.Proofs.RoundQ
import BigDec.Proofs.Arith
import BigDec.Proofs.ExpPos
/-! Accuracy of the reciprocal iteration on exit (partial correctness). -/
namespace BigDec
open Generated

/-- **`with_prec` has relative error at most half a unit of the `P`-th digit**: for a positive
    decimal, `|with_prec(d, P) − d| ≤ d · ½·10^(1−P)`, and the result is positive -/
theorem withPrec_rel_error {est : Nat → Nat} (hest : EstOK est) (d : Dec) (P : Nat) (hP : 1 ≤ P) (hd : 0 < d.int) :
    |(d.withPrec est P).value - d.value| ≤ d.value * (1 / 2 * (10 : ℚ) ^ (1 - (P : Int))) := by
  rw [withPrec_spec hest]
  have hn0 : d.int.natAbs ≠ 0 := by omega
  have hnd := pow_numDigits_le d.int.natAbs hn0
  have hdv : 0 < d.value := by
    unfold Dec.value
    exact mul_pos (by exact_mod_cast hd) (zpow_pos (by norm_num) _)
  have hpow : (0 : ℚ) < (10 : ℚ) ^ (1 - (P : Int)) := zpow_pos (by norm_num) _
  unfold Spec.roundToPrec Spec.roundToScale
  rw [Spec.numDigits_eq_model]
  by_cases hcase : d.scale + ((P : Int) - (numDigits d.int.natAbs : Int)) ≥ d.scale
  · rw [if_pos hcase]
    have hv : (Dec.mk (d.int * ((10 ^ (d.scale + ((P : Int) - (numDigits d.int.natAbs : Int)) - d.scale).toNat : Nat) : Int))
        (d.scale + ((P : Int) - (numDigits d.int.natAbs : Int)))).value = d.value := value_scale_up _ _ _ hcase
    rw [hv, sub_self, abs_zero]
    positivity
  · rw [if_neg hcase]
    obtain ⟨k, hk⟩ : ∃ k : Nat, (numDigits d.int.natAbs : Int) - P = k ∧ 1 ≤ k := ⟨numDigits d.int.natAbs - P, by omega, by omega⟩
    have hkk : (d.scale - (d.scale + ((P : Int) - (numDigits d.int.natAbs : Int)))).toNat = k := by omega
    rw [hkk]
    have hneg : decide (d.int < 0) = false := by simp; omega
    have hsg : Spec.sgn d.int = 1 := by unfold Spec.sgn; rw [if_neg (by omega)]
    rw [hneg, hsg, one_mul]
    obtain ⟨r1, r2⟩ := Spec.roundNat_halfUp false d.int.natAbs k
    generalize Spec.roundNat .HalfUp false d.int.natAbs k = R at r1 r2
    have hns : d.scale + ((P : Int) - (numDigits d.int.natAbs : Int)) = d.scale - k := by omega
    rw [hns]
    unfold Dec.value
    simp only
    -- d.value = (n / 10^k) · 10^-(scale - k)
    have hnat : (d.int : ℚ) = (d.int.natAbs : ℚ) := by
      rw [← Int.cast_natCast, Int.natAbs_of_nonneg (by omega)]
    have hsplit : (d.int : ℚ) * (10 : ℚ) ^ (-d.scale) = (d.int.natAbs : ℚ) / (10 : ℚ) ^ k * (10 : ℚ) ^ (-(d.scale - (k : Int))) := by
      rw [hnat]
      have : -(d.scale - (k : Int)) = -d.scale + (k : Int) := by ring
      rw [this, zpow_add₀ (by norm_num : (10 : ℚ) ≠ 0), zpow_natCast]
      field_simp
    rw [hsplit]
    have hu : (0 : ℚ) < (10 : ℚ) ^ (-(d.scale - (k : Int))) := zpow_pos (by norm_num) _
    rw [← sub_mul, abs_mul, abs_of_pos hu]
    push_cast
    have habs : |(R : ℚ) - (d.int.natAbs : ℚ) / (10 : ℚ) ^ k| ≤ 1 / 2 := by
      rw [abs_le]; constructor <;> linarith
    -- 10^k ≤ n · 10^(1 - P)·… : the unit against the value
    have hunit : (1 : ℚ) ≤ (d.int.natAbs : ℚ) / (10 : ℚ) ^ k * (10 : ℚ) ^ (1 - (P : Int)) := by
      have h1 : ((10 ^ (numDigits d.int.natAbs - 1) : Nat) : ℚ) ≤ (d.int.natAbs : ℚ) := by exact_mod_cast hnd
      have h2 : ((10 ^ (numDigits d.int.natAbs - 1) : Nat) : ℚ) = (10 : ℚ) ^ k * (10 : ℚ) ^ ((P : Int) - 1) := by
        push_cast
        rw [← zpow_natCast, ← zpow_natCast, ← zpow_add₀ (by norm_num : (10 : ℚ) ≠ 0)]
        congr 1
        have := numDigits_pos d.int.natAbs
        omega
      rw [h2] at h1
      have hk10 : (0 : ℚ) < (10 : ℚ) ^ k := by positivity
      have hp1 : (0 : ℚ) < (10 : ℚ) ^ ((P : Int) - 1) := zpow_pos (by norm_num) _
      rw [div_mul_eq_mul_div, le_div_iff₀ hk10, one_mul]
      have e : (10 : ℚ) ^ (1 - (P : Int)) = ((10 : ℚ) ^ ((P : Int) - 1))⁻¹ := by
        rw [← zpow_neg]; congr 1; ring
      rw [e, ← div_eq_mul_inv, le_div_iff₀ hp1]
      exact h1
    calc |(R : ℚ) - (d.int.natAbs : ℚ) / (10 : ℚ) ^ k| * (10 : ℚ) ^ (-(d.scale - (k : Int)))
        ≤ 1 / 2 * (10 : ℚ) ^ (-(d.scale - (k : Int))) := mul_le_mul_of_nonneg_right habs hu.le
      _ ≤ (d.int.natAbs : ℚ) / (10 : ℚ) ^ k * (10 : ℚ) ^ (-(d.scale - (k : Int))) * (1 / 2 * (10 : ℚ) ^ (1 - (P : Int))) := by
          have := mul_le_mul_of_nonneg_right hunit (by positivity : (0 : ℚ) ≤ 1 / 2 * (10 : ℚ) ^ (-(d.scale - (k : Int))))
          linarith [this]

/-! ### the Newton recurrence on residuals, over ℚ -/

theorem invNext_value (s r : Dec) : (invNext s r).value = r.value * (2 - s.value * r.value) := by
  unfold invNext
  rw [value_mulDD, value_subRDT, value_mulRDRD]
  simp [Dec.value]

/-- a value within relative `ρ` of the Newton step of `r` has residual within `ρ` of the squared
    residual of `r` -/
theorem residual_step (x r nx ρ : ℚ) (hx : 0 < x) (hr : 0 < r) (he : |1 - x * r| ≤ 9 / 10) (hρ : 0 ≤ ρ)
    (h : |nx - r * (2 - x * r)| ≤ r * (2 - x * r) * ρ) :
    |(1 - x * nx) - (1 - x * r) ^ 2| ≤ ρ ∧ 0 < nx ∨ ρ ≥ 1 := by
  by_cases hρ1 : ρ ≥ 1
  · right; exact hρ1
  left
  push Not at hρ1
  obtain ⟨e1, e2⟩ := abs_le.mp he
  have hf : r * (2 - x * r) = (1 - (1 - x * r) ^ 2) / x := by field_simp; ring
  have hfpos : 0 < r * (2 - x * r) := by
    apply mul_pos hr; linarith
  have hxf : x * (r * (2 - x * r)) = 1 - (1 - x * r) ^ 2 := by ring
  have hxf1 : x * (r * (2 - x * r)) ≤ 1 := by rw [hxf]; nlinarith [sq_nonneg (1 - x * r)]
  obtain ⟨h1, h2⟩ := abs_le.mp h
  constructor
  · have e : (1 - x * nx) - (1 - x * r) ^ 2 = -(x * (nx - r * (2 - x * r))) := by ring
    rw [e, abs_neg, abs_mul, abs_of_pos hx]
    calc x * |nx - r * (2 - x * r)| ≤ x * (r * (2 - x * r) * ρ) := mul_le_mul_of_nonneg_left h hx.le
      _ = x * (r * (2 - x * r)) * ρ := by ring
      _ ≤ 1 * ρ := mul_le_mul_of_nonneg_right hxf1 hρ
      _ = ρ := one_mul ρ
  · have : r * (2 - x * r) * (1 - ρ) ≤ nx := by linarith
    have hp : 0 < r * (2 - x * r) * (1 - ρ) := mul_pos hfpos (by linarith)
    linarith

/-- a fixed point of the rounded step has a residual of at most `2ρ` -/
theorem fixed_point_residual (x r ρ : ℚ) (hx : 0 < x) (hr : 0 < r) (he : |1 - x * r| ≤ 9 / 10)
    (hρ0 : 0 ≤ ρ) (hρ : ρ ≤ 1 / 4)
    (h : |r - r * (2 - x * r)| ≤ r * (2 - x * r) * ρ) : |1 - x * r| ≤ 2 * ρ := by
  -- r - f(r) = -r e ,  f(r) = r (1 + e)
  have e1 : r - r * (2 - x * r) = -(r * (1 - x * r)) := by ring
  have e2 : r * (2 - x * r) = r * (1 + (1 - x * r)) := by ring
  rw [e1, abs_neg, abs_mul, abs_of_pos hr, e2] at h
  generalize 1 - x * r = e at he h ⊢
  have h' : |e| ≤ (1 + e) * ρ := by
    have := (mul_le_mul_iff_right₀ hr).mp (by linarith [h] : r * |e| ≤ r * ((1 + e) * ρ))
    exact this
  have hle : e ≤ |e| := le_abs_self e
  nlinarith [abs_nonneg e]

/-- a two-cycle of the rounded step: both residuals are at most `2ρ` -/
theorem two_cycle_residual (ea eb ρ : ℚ) (ha : |ea| ≤ 9 / 10) (hb : |eb| ≤ 9 / 10) (hρ0 : 0 ≤ ρ) (hρ : ρ ≤ 1 / 200)
    (h1 : |eb - ea ^ 2| ≤ ρ) (h2 : |ea - eb ^ 2| ≤ ρ) : |ea| ≤ 2 * ρ := by
  have hb' : |eb| ≤ ea ^ 2 + ρ := by
    have := abs_sub_abs_le_abs_sub eb (ea ^ 2)
    rw [abs_of_nonneg (sq_nonneg ea)] at this; linarith
  have ha' : |ea| ≤ eb ^ 2 + ρ := by
    have := abs_sub_abs_le_abs_sub ea (eb ^ 2)
    rw [abs_of_nonneg (sq_nonneg eb)] at this; linarith
  have hsa : ea ^ 2 = |ea| ^ 2 := (sq_abs ea).symm
  have hsb : eb ^ 2 = |eb| ^ 2 := (sq_abs eb).symm
  rw [hsa] at hb'
  rw [hsb] at ha'
  have hA0 := abs_nonneg ea
  have hB0 := abs_nonneg eb
  generalize |ea| = A at *
  generalize |eb| = B at *
  -- first stage: A, B ≤ 10ρ ≤ 1/20
  have hB1 : B ≤ 9 / 10 * A + ρ := by nlinarith
  have hA1 : A ≤ 9 / 10 * B + ρ := by nlinarith
  have hA2 : A ≤ 10 * ρ := by linarith
  have hB2 : B ≤ 10 * ρ := by linarith
  -- second stage
  have hB3 : B ≤ A / 20 + ρ := by nlinarith
  have hA3 : A ≤ B / 20 + ρ := by nlinarith
  linarith

/-- half a unit of the last digit of the running iterate, relative -/
def invRho (p : Nat) : ℚ := 1 / 2 * (10 : ℚ) ^ (1 - ((p + inverseExtraPrec : Nat) : Int))

theorem invRho_small (p : Nat) (hp : 1 ≤ p) : 0 ≤ invRho p ∧ invRho p ≤ 1 / 200 := by
  unfold invRho
  have hextra : inverseExtraPrec = 2 := rfl
  constructor
  · exact mul_nonneg (by norm_num) (zpow_pos (by norm_num) _).le
  · have : (10 : ℚ) ^ (1 - ((p + inverseExtraPrec : Nat) : Int)) ≤ (10 : ℚ) ^ (-2 : Int) :=
      zpow_le_zpow_right₀ (by norm_num) (by rw [hextra]; push_cast; omega)
    have e : (10 : ℚ) ^ (-2 : Int) = 1 / 100 := by norm_num
    rw [e] at this
    linarith

/-- **exit accuracy of the loop** (partial correctness): whenever the iteration stops, the returned
    iterate is positive and its residual `1 − x·R` is at most `2ρ = 10^(1 − (p+2))` in magnitude -/
theorem invLoop_exit {est : Nat → Nat} (hest : EstOK est) (s : Dec) (hs : 0 < s.value) (p : Nat) (hp : 1 ≤ p) :
    ∀ (fuel : Nat) (prev running R : Dec),
      0 < running.value → |1 - s.value * running.value| ≤ 9 / 10 →
      (prev.value = 0 ∨ (0 < prev.value ∧ |1 - s.value * prev.value| ≤ 9 / 10 ∧
        |(1 - s.value * running.value) - (1 - s.value * prev.value) ^ 2| ≤ invRho p)) →
      invLoop est s p fuel prev running = some R →
      0 < R.value ∧ |1 - s.value * R.value| ≤ 2 * invRho p ∧
      ∃ b : Dec, 0 < b.value ∧ |1 - s.value * b.value| ≤ 2 * invRho p ∧
        R = (invNext s b).withPrec est (p + inverseExtraPrec) := by
  obtain ⟨hρ0, hρ⟩ := invRho_small p hp
  intro fuel
  induction fuel with
  | zero => intro prev running R _ _ _ h; simp [invLoop] at h
  | succ f ih =>
    intro prev running R hrpos hre hprev h
    unfold invLoop at h
    simp only at h
    -- the rounded Newton step
    have hdv : (invNext s running).value = running.value * (2 - s.value * running.value) := invNext_value s running
    obtain ⟨e1, e2⟩ := abs_le.mp hre
    have hdpos : 0 < (invNext s running).value := by
      rw [hdv]; apply mul_pos hrpos; linarith
    have hdint : 0 < (invNext s running).int := (value_pos_iff _).mp hdpos
    have hP1 : 1 ≤ p + inverseExtraPrec := by omega
    have hL1 := withPrec_rel_error hest (invNext s running) (p + inverseExtraPrec) hP1 hdint
    rw [hdv] at hL1
    have hρeq : (1 / 2 * (10 : ℚ) ^ (1 - ((p + inverseExtraPrec : Nat) : Int))) = invRho p := rfl
    rw [hρeq] at hL1
    generalize hnext : (invNext s running).withPrec est (p + inverseExtraPrec) = nx at h hL1
    have hstep := residual_step s.value running.value nx.value (invRho p) hs hrpos hre hρ0 hL1
    rcases hstep with ⟨hres, hnpos⟩ | hbad
    swap
    · exfalso; linarith
    have hne : |1 - s.value * nx.value| ≤ 9 / 10 := by
      have h1 := abs_sub_abs_le_abs_sub (1 - s.value * nx.value) ((1 - s.value * running.value) ^ 2)
      have h1' : |(1 - s.value * running.value) ^ 2| = (1 - s.value * running.value) ^ 2 := abs_of_nonneg (sq_nonneg _)
      rw [h1'] at h1
      have hsq : (1 - s.value * running.value) ^ 2 ≤ 81 / 100 := by
        have := abs_le.mp hre
        nlinarith
      linarith
    by_cases hexit : (Spec.valueEq nx running || Spec.valueEq nx prev) = true
    · rw [if_pos hexit] at h
      have hR : R = nx := (Option.some.inj h).symm
      rw [hR]
      rcases Bool.or_eq_true _ _ |>.mp hexit with hA | hB
      · -- fixed point
        have hv : nx.value = running.value := (Spec.valueEq_iff _ _).mp hA
        have hfix : |1 - s.value * running.value| ≤ 2 * invRho p := by
          rw [hv] at hL1
          exact fixed_point_residual s.value running.value (invRho p) hs hrpos hre hρ0 (by linarith) hL1
        exact ⟨hnpos, by rw [hv]; exact hfix, running, hrpos, hfix, hnext.symm⟩
      · -- two-cycle
        have hv : nx.value = prev.value := (Spec.valueEq_iff _ _).mp hB
        rcases hprev with h0 | ⟨hppos, hpe, hpr⟩
        · rw [hv, h0] at hnpos; exact absurd hnpos (lt_irrefl _)
        · rw [hv] at hres
          have ha2 := two_cycle_residual _ _ (invRho p) hpe hre hρ0 hρ hpr hres
          have hb2 := two_cycle_residual _ _ (invRho p) hre hpe hρ0 hρ hres hpr
          exact ⟨hnpos, by rw [hv]; exact ha2, running, hrpos, hb2, hnext.symm⟩
    · rw [if_neg hexit] at h
      exact ih running nx R hnpos hne (Or.inr ⟨hrpos, hre, hres⟩) h

/-! ### absolute form: the rounded value against its own last digit -/

/-- `with_prec` in absolute terms: the error is at most half a unit of the result's last digit, and
    the result's integer is at most `10^P` -/
theorem withPrec_abs_error {est : Nat → Nat} (hest : EstOK est) (d : Dec) (P : Nat) (hP : 1 ≤ P) (hd : 0 < d.int) :
    |(d.withPrec est P).value - d.value| ≤ 1 / 2 * (10 : ℚ) ^ (-(d.withPrec est P).scale) ∧
    (d.withPrec est P).int ≤ 10 ^ P ∧ 0 < (d.withPrec est P).int := by
  rw [withPrec_spec hest]
  have hn0 : d.int.natAbs ≠ 0 := by omega
  have hlt := lt_pow_numDigits d.int.natAbs
  have hndpos := numDigits_pos d.int.natAbs
  unfold Spec.roundToPrec Spec.roundToScale
  rw [Spec.numDigits_eq_model]
  by_cases hcase : d.scale + ((P : Int) - (numDigits d.int.natAbs : Int)) ≥ d.scale
  · rw [if_pos hcase]
    have hv : (Dec.mk (d.int * ((10 ^ (d.scale + ((P : Int) - (numDigits d.int.natAbs : Int)) - d.scale).toNat : Nat) : Int))
        (d.scale + ((P : Int) - (numDigits d.int.natAbs : Int)))).value = d.value := value_scale_up _ _ _ hcase
    refine ⟨?_, ?_, ?_⟩
    · rw [hv, sub_self, abs_zero]
      exact mul_nonneg (by norm_num) (zpow_pos (by norm_num) _).le
    · simp only
      obtain ⟨j, hj⟩ : ∃ j : Nat, (d.scale + ((P : Int) - (numDigits d.int.natAbs : Int)) - d.scale).toNat = j ∧ numDigits d.int.natAbs + j = P :=
        ⟨(d.scale + ((P : Int) - (numDigits d.int.natAbs : Int)) - d.scale).toNat, rfl, by omega⟩
      rw [hj.1]
      have h1 : d.int.natAbs * 10 ^ j ≤ 10 ^ numDigits d.int.natAbs * 10 ^ j := Nat.mul_le_mul_right _ hlt.le
      rw [← pow_add, hj.2] at h1
      have : d.int = (d.int.natAbs : Int) := by omega
      rw [this]
      exact_mod_cast h1
    · simp only
      have : (0 : Int) < ((10 ^ (d.scale + ((P : Int) - (numDigits d.int.natAbs : Int)) - d.scale).toNat : Nat) : Int) := by positivity
      exact Int.mul_pos hd this
  · rw [if_neg hcase]
    obtain ⟨k, hk⟩ : ∃ k : Nat, (numDigits d.int.natAbs : Int) - P = k ∧ 1 ≤ k := ⟨numDigits d.int.natAbs - P, by omega, by omega⟩
    have hkk : (d.scale - (d.scale + ((P : Int) - (numDigits d.int.natAbs : Int)))).toNat = k := by omega
    rw [hkk]
    have hneg : decide (d.int < 0) = false := by simp; omega
    have hsg : Spec.sgn d.int = 1 := by unfold Spec.sgn; rw [if_neg (by omega)]
    rw [hneg, hsg, one_mul]
    obtain ⟨r1, r2⟩ := Spec.roundNat_halfUp false d.int.natAbs k
    -- the rounded integer is between 1 and 10^P
    have hq : d.int.natAbs / 10 ^ k < 10 ^ P := by
      rw [Nat.div_lt_iff_lt_mul (by positivity)]
      have : numDigits d.int.natAbs = P + k := by omega
      rw [← pow_add, ← this]; exact hlt
    have hqpos : 1 ≤ d.int.natAbs / 10 ^ k := by
      have h1 := pow_numDigits_le d.int.natAbs hn0
      have : 10 ^ k ≤ 10 ^ (numDigits d.int.natAbs - 1) := Nat.pow_le_pow_right (by norm_num) (by omega)
      exact (Nat.one_le_div_iff (by positivity)).mpr (le_trans this h1)
    have hRle : Spec.roundNat .HalfUp false d.int.natAbs k ≤ 10 ^ P := by
      unfold Spec.roundNat; split <;> omega
    have hRpos : 1 ≤ Spec.roundNat .HalfUp false d.int.natAbs k := by
      unfold Spec.roundNat; split <;> omega
    generalize Spec.roundNat .HalfUp false d.int.natAbs k = R at r1 r2 hRle hRpos
    have hns : d.scale + ((P : Int) - (numDigits d.int.natAbs : Int)) = d.scale - k := by omega
    rw [hns]
    refine ⟨?_, by simp only; exact_mod_cast hRle, by simp only; exact_mod_cast hRpos⟩
    unfold Dec.value
    simp only
    have hnat : (d.int : ℚ) = (d.int.natAbs : ℚ) := by
      rw [← Int.cast_natCast, Int.natAbs_of_nonneg (by omega)]
    have hsplit : (d.int : ℚ) * (10 : ℚ) ^ (-d.scale) = (d.int.natAbs : ℚ) / (10 : ℚ) ^ k * (10 : ℚ) ^ (-(d.scale - (k : Int))) := by
      rw [hnat]
      have : -(d.scale - (k : Int)) = -d.scale + (k : Int) := by ring
      rw [this, zpow_add₀ (by norm_num : (10 : ℚ) ≠ 0), zpow_natCast]
      field_simp
    rw [hsplit]
    have hu : (0 : ℚ) < (10 : ℚ) ^ (-(d.scale - (k : Int))) := zpow_pos (by norm_num) _
    rw [← sub_mul, abs_mul, abs_of_pos hu]
    push_cast
    have habs : |(R : ℚ) - (d.int.natAbs : ℚ) / (10 : ℚ) ^ k| ≤ 1 / 2 := by
      rw [abs_le]; constructor <;> linarith
    exact mul_le_mul_of_nonneg_right habs hu.le

/-- pure arithmetic behind the sharp bound: a value `Rv` within half a unit `U` of the Newton step
    of `bv`, with both residuals at most `t`, is within `0.61·U` of `1/x` -/
theorem sharp_arith (x bv Rv U k t : ℚ) (hx : 0 < x) (hU : 0 < U) (ht0 : 0 < t) (ht : t ≤ 1 / 100)
    (hk : Rv ≤ k * U) (hk0 : 0 < k) (hkt : k * t * t ≤ 1 / 10)
    (heb : |1 - x * bv| ≤ t) (heR : |1 - x * Rv| ≤ t)
    (hnear : |Rv - bv * (2 - x * bv)| ≤ 1 / 2 * U) :
    |Rv - 1 / x| ≤ 61 / 100 * U := by
  have hxne : x ≠ 0 := hx.ne'
  obtain ⟨y, hy⟩ : ∃ y : ℚ, y = 1 / x := ⟨_, rfl⟩
  have hxy : x * y = 1 := by rw [hy]; field_simp
  have hypos : 0 < y := by rw [hy]; positivity
  rw [← hy]
  -- the Newton step in terms of y
  have hd : bv * (2 - x * bv) = y * (1 - (1 - x * bv) ^ 2) := by
    have : bv * (2 - x * bv) = (x * y) * (bv * (2 - x * bv)) := by rw [hxy, one_mul]
    rw [this]; ring
  have hRy : Rv = y * (1 - (1 - x * Rv)) := by
    have : Rv = (x * y) * Rv := by rw [hxy, one_mul]
    rw [this]; ring_nf; rw [mul_comm x y] at *; nlinarith [hxy]
  obtain ⟨r1, r2⟩ := abs_le.mp heR
  obtain ⟨b1, b2⟩ := abs_le.mp heb
  have hsq : (1 - x * bv) ^ 2 ≤ t * t := by nlinarith
  have hsq0 : 0 ≤ (1 - x * bv) ^ 2 := sq_nonneg _
  -- y ≤ (100/99) Rv
  have hyR : y * (99 / 100) ≤ Rv := by
    have : y * (1 - t) ≤ y * (1 - (1 - x * Rv)) := mul_le_mul_of_nonneg_left (by linarith) hypos.le
    have h2 : y * (99 / 100) ≤ y * (1 - t) := mul_le_mul_of_nonneg_left (by linarith) hypos.le
    linarith [hRy]
  -- y e_b² ≤ (10/99) U
  have hterm : y * (1 - x * bv) ^ 2 ≤ 11 / 100 * U := by
    have h1 : y * (1 - x * bv) ^ 2 ≤ y * (t * t) := mul_le_mul_of_nonneg_left hsq hypos.le
    have h2 : y * (99 / 100) ≤ k * U := le_trans hyR hk
    have h3 : y * (t * t) * (99 / 100) ≤ k * U * (t * t) := by
      have := mul_le_mul_of_nonneg_right h2 (by positivity : 0 ≤ t * t)
      linarith
    have h4 : k * U * (t * t) = (k * t * t) * U := by ring
    have h5 : (k * t * t) * U ≤ 1 / 10 * U := mul_le_mul_of_nonneg_right hkt hU.le
    nlinarith
  -- triangle
  have hdy : |bv * (2 - x * bv) - y| = y * (1 - x * bv) ^ 2 := by
    rw [hd]
    have : y * (1 - (1 - x * bv) ^ 2) - y = -(y * (1 - x * bv) ^ 2) := by ring
    rw [this, abs_neg, abs_of_nonneg (mul_nonneg hypos.le hsq0)]
  have htri : |Rv - y| ≤ |Rv - bv * (2 - x * bv)| + |bv * (2 - x * bv) - y| := by
    have := abs_add_le (Rv - bv * (2 - x * bv)) (bv * (2 - x * bv) - y)
    have e : Rv - bv * (2 - x * bv) + (bv * (2 - x * bv) - y) = Rv - y := by ring
    rw [e] at this; exact this
  rw [hdy] at htri
  linarith

/-- `with_prec(P)` of a positive decimal has at least `P` digits -/
theorem withPrec_int_lower {est : Nat → Nat} (hest : EstOK est) (d : Dec) (P : Nat) (hP : 1 ≤ P) (hd : 0 < d.int) :
    (10 : Int) ^ (P - 1) ≤ (d.withPrec est P).int := by
  rw [withPrec_spec hest]
  have hn0 : d.int.natAbs ≠ 0 := by omega
  have hlow := pow_numDigits_le d.int.natAbs hn0
  have hndpos := numDigits_pos d.int.natAbs
  unfold Spec.roundToPrec Spec.roundToScale
  rw [Spec.numDigits_eq_model]
  by_cases hcase : d.scale + ((P : Int) - (numDigits d.int.natAbs : Int)) ≥ d.scale
  · rw [if_pos hcase]
    simp only
    obtain ⟨j, hj⟩ : ∃ j : Nat, (d.scale + ((P : Int) - (numDigits d.int.natAbs : Int)) - d.scale).toNat = j ∧ numDigits d.int.natAbs + j = P :=
      ⟨(d.scale + ((P : Int) - (numDigits d.int.natAbs : Int)) - d.scale).toNat, rfl, by omega⟩
    rw [hj.1]
    have h1 : 10 ^ (numDigits d.int.natAbs - 1) * 10 ^ j ≤ d.int.natAbs * 10 ^ j := Nat.mul_le_mul_right _ hlow
    rw [← pow_add, show numDigits d.int.natAbs - 1 + j = P - 1 by omega] at h1
    have : d.int = (d.int.natAbs : Int) := by omega
    rw [this]
    exact_mod_cast h1
  · rw [if_neg hcase]
    obtain ⟨k, hk⟩ : ∃ k : Nat, (numDigits d.int.natAbs : Int) - P = k ∧ 1 ≤ k := ⟨numDigits d.int.natAbs - P, by omega, by omega⟩
    have hkk : (d.scale - (d.scale + ((P : Int) - (numDigits d.int.natAbs : Int)))).toNat = k := by omega
    rw [hkk]
    have hneg : decide (d.int < 0) = false := by simp; omega
    have hsg : Spec.sgn d.int = 1 := by unfold Spec.sgn; rw [if_neg (by omega)]
    rw [hneg, hsg, one_mul]
    simp only
    have hq : 10 ^ (P - 1) ≤ d.int.natAbs / 10 ^ k := by
      rw [Nat.le_div_iff_mul_le (by positivity), ← pow_add, show P - 1 + k = numDigits d.int.natAbs - 1 by omega]
      exact hlow
    have hR : 10 ^ (P - 1) ≤ Spec.roundNat .HalfUp false d.int.natAbs k := by
      unfold Spec.roundNat; split <;> omega
    exact_mod_cast hR

/-- **the sharp exit bound**: the iterate produced from a `b` with small residual lies within `0.61`
    units of its own last digit of `1/x` -/
theorem exit_sharp {est : Nat → Nat} (hest : EstOK est) (s : Dec) (hs : 0 < s.value) (p : Nat) (hp : 1 ≤ p)
    (b : Dec) (hb : 0 < b.value) (heb : |1 - s.value * b.value| ≤ 2 * invRho p)
    (heR : |1 - s.value * ((invNext s b).withPrec est (p + inverseExtraPrec)).value| ≤ 2 * invRho p) :
    |((invNext s b).withPrec est (p + inverseExtraPrec)).value - 1 / s.value| ≤
      61 / 100 * (10 : ℚ) ^ (-((invNext s b).withPrec est (p + inverseExtraPrec)).scale) := by
  obtain ⟨hρ0, hρ⟩ := invRho_small p hp
  have hextra : inverseExtraPrec = 2 := rfl
  have hdv := invNext_value s b
  obtain ⟨e1, e2⟩ := abs_le.mp heb
  have hdpos : 0 < (invNext s b).value := by rw [hdv]; apply mul_pos hb; linarith
  have hdint : 0 < (invNext s b).int := (value_pos_iff _).mp hdpos
  obtain ⟨a1, a2, a3⟩ := withPrec_abs_error hest (invNext s b) (p + inverseExtraPrec) (by omega) hdint
  rw [hdv] at a1
  generalize (invNext s b).withPrec est (p + inverseExtraPrec) = R at a1 a2 a3 heR ⊢
  have hU : (0 : ℚ) < (10 : ℚ) ^ (-R.scale) := zpow_pos (by norm_num) _
  -- R.value ≤ 10^P · U
  have hk : R.value ≤ (10 : ℚ) ^ (p + inverseExtraPrec) * (10 : ℚ) ^ (-R.scale) := by
    unfold Dec.value
    have : (R.int : ℚ) ≤ (10 : ℚ) ^ (p + inverseExtraPrec) := by exact_mod_cast a2
    exact mul_le_mul_of_nonneg_right this hU.le
  -- t = 2ρ = 10^(1-P)
  have ht : 2 * invRho p = (10 : ℚ) ^ (1 - ((p + inverseExtraPrec : Nat) : Int)) := by unfold invRho; ring
  have ht0 : (0 : ℚ) < 2 * invRho p := by rw [ht]; exact zpow_pos (by norm_num) _
  have hkt : (10 : ℚ) ^ (p + inverseExtraPrec) * (2 * invRho p) * (2 * invRho p) ≤ 1 / 10 := by
    rw [ht, ← zpow_natCast, ← zpow_add₀ (by norm_num : (10 : ℚ) ≠ 0), ← zpow_add₀ (by norm_num : (10 : ℚ) ≠ 0)]
    have : ((p + inverseExtraPrec : Nat) : Int) + (1 - ((p + inverseExtraPrec : Nat) : Int)) + (1 - ((p + inverseExtraPrec : Nat) : Int))
        = 2 - ((p + inverseExtraPrec : Nat) : Int) := by ring
    rw [this]
    have h1 : (10 : ℚ) ^ (2 - ((p + inverseExtraPrec : Nat) : Int)) ≤ (10 : ℚ) ^ (-1 : Int) :=
      zpow_le_zpow_right₀ (by norm_num) (by rw [hextra]; push_cast; omega)
    have e : (10 : ℚ) ^ (-1 : Int) = 1 / 10 := by norm_num
    rw [e] at h1; exact h1
  exact sharp_arith s.value b.value R.value _ _ (2 * invRho p) hs hU ht0 (by linarith) hk (by positivity) hkt heb heR a1

/-- rounding a positive decimal to `p < digits` significant digits, under any mode, moves it by at
    most `1 − 10^-k` units of the result's last digit (`k` = number of dropped digits) -/
theorem roundToPrec_abs_error (d : Dec) (p : Nat) (m : Mode) (hd : 0 < d.int) (hp : p < numDigits d.int.natAbs) :
    (Spec.roundToPrec d p m).scale = d.scale - ((numDigits d.int.natAbs - p : Nat) : Int) ∧
    |(Spec.roundToPrec d p m).value - d.value| ≤
      (1 - (10 : ℚ) ^ (-((numDigits d.int.natAbs - p : Nat) : Int))) * (10 : ℚ) ^ (-(Spec.roundToPrec d p m).scale) := by
  unfold Spec.roundToPrec Spec.roundToScale
  rw [Spec.numDigits_eq_model]
  obtain ⟨k, hk⟩ : ∃ k : Nat, numDigits d.int.natAbs - p = k ∧ 1 ≤ k := ⟨numDigits d.int.natAbs - p, rfl, by omega⟩
  rw [hk.1]
  have hcase : ¬ (d.scale + ((p : Int) - (numDigits d.int.natAbs : Int)) ≥ d.scale) := by omega
  rw [if_neg hcase]
  have hkk : (d.scale - (d.scale + ((p : Int) - (numDigits d.int.natAbs : Int)))).toNat = k := by omega
  rw [hkk]
  have hns : d.scale + ((p : Int) - (numDigits d.int.natAbs : Int)) = d.scale - k := by omega
  rw [hns]
  have hneg : decide (d.int < 0) = false := by simp; omega
  have hsg : Spec.sgn d.int = 1 := by unfold Spec.sgn; rw [if_neg (by omega)]
  rw [hneg, hsg, one_mul]
  refine ⟨rfl, ?_⟩
  simp only
  -- the rounded integer is a neighbour of n / 10^k
  have hM : 0 < 10 ^ k := by positivity
  have hdm := Nat.div_add_mod d.int.natAbs (10 ^ k)
  have hml := Nat.mod_lt d.int.natAbs hM
  have hnb : Spec.roundNat m false d.int.natAbs k = d.int.natAbs / 10 ^ k ∨
      (Spec.roundNat m false d.int.natAbs k = d.int.natAbs / 10 ^ k + 1 ∧ d.int.natAbs % 10 ^ k ≠ 0) := by
    unfold Spec.roundNat
    split
    · rename_i h
      right; refine ⟨rfl, ?_⟩
      intro h0
      rw [h0, roundUpM_zero_tail m false _ _ (by positivity)] at h
      exact Bool.false_ne_true h
    · left; rfl
  unfold Dec.value
  simp only
  have hnat : (d.int : ℚ) = (d.int.natAbs : ℚ) := by
    rw [← Int.cast_natCast, Int.natAbs_of_nonneg (by omega)]
  have hsplit : (d.int : ℚ) * (10 : ℚ) ^ (-d.scale) = (d.int.natAbs : ℚ) / (10 : ℚ) ^ k * (10 : ℚ) ^ (-(d.scale - (k : Int))) := by
    rw [hnat]
    have : -(d.scale - (k : Int)) = -d.scale + (k : Int) := by ring
    rw [this, zpow_add₀ (by norm_num : (10 : ℚ) ≠ 0), zpow_natCast]
    field_simp
  rw [hsplit]
  have hu : (0 : ℚ) < (10 : ℚ) ^ (-(d.scale - (k : Int))) := zpow_pos (by norm_num) _
  rw [← sub_mul, abs_mul, abs_of_pos hu]
  apply mul_le_mul_of_nonneg_right _ hu.le
  push_cast
  -- n / 10^k = q + t / 10^k
  have hMq : (0 : ℚ) < (10 : ℚ) ^ k := by positivity
  have hnq : (d.int.natAbs : ℚ) / (10 : ℚ) ^ k = ((d.int.natAbs / 10 ^ k : Nat) : ℚ) + ((d.int.natAbs % 10 ^ k : Nat) : ℚ) / (10 : ℚ) ^ k := by
    have : (d.int.natAbs : ℚ) = ((10 ^ k : Nat) : ℚ) * ((d.int.natAbs / 10 ^ k : Nat) : ℚ) + ((d.int.natAbs % 10 ^ k : Nat) : ℚ) := by
      exact_mod_cast hdm.symm
    rw [this]; push_cast; field_simp
  have hinv : (10 : ℚ) ^ (-(k : Int)) = 1 / (10 : ℚ) ^ k := by rw [zpow_neg, zpow_natCast, one_div]
  rw [hinv, hnq]
  have ht0 : (0 : ℚ) ≤ ((d.int.natAbs % 10 ^ k : Nat) : ℚ) := Nat.cast_nonneg _
  have ht1 : ((d.int.natAbs % 10 ^ k : Nat) : ℚ) + 1 ≤ (10 : ℚ) ^ k := by exact_mod_cast hml
  rcases hnb with h | ⟨h, hne⟩
  · rw [h]
    have : ((d.int.natAbs % 10 ^ k : Nat) : ℚ) / (10 : ℚ) ^ k ≤ 1 - 1 / (10 : ℚ) ^ k := by
      rw [div_le_iff₀ hMq]; field_simp; linarith
    rw [abs_le]; constructor
    · have : 0 ≤ ((d.int.natAbs % 10 ^ k : Nat) : ℚ) / (10 : ℚ) ^ k := by positivity
      have h1 : (0 : ℚ) ≤ 1 - 1 / (10 : ℚ) ^ k := by
        rw [sub_nonneg, div_le_one hMq]; exact_mod_cast (Nat.one_le_pow _ _ (by norm_num))
      linarith
    · have : 0 ≤ ((d.int.natAbs % 10 ^ k : Nat) : ℚ) / (10 : ℚ) ^ k := by positivity
      have h1 : (0 : ℚ) ≤ 1 - 1 / (10 : ℚ) ^ k := by
        rw [sub_nonneg, div_le_one hMq]; exact_mod_cast (Nat.one_le_pow _ _ (by norm_num))
      linarith
  · rw [h]
    have ht2 : (1 : ℚ) ≤ ((d.int.natAbs % 10 ^ k : Nat) : ℚ) := by
      exact_mod_cast (Nat.one_le_iff_ne_zero.mpr hne)
    have hlow : 1 / (10 : ℚ) ^ k ≤ ((d.int.natAbs % 10 ^ k : Nat) : ℚ) / (10 : ℚ) ^ k :=
      div_le_div_of_nonneg_right ht2 hMq.le
    have hup : ((d.int.natAbs % 10 ^ k : Nat) : ℚ) / (10 : ℚ) ^ k ≤ 1 := by
      rw [div_le_one hMq]; linarith
    push_cast
    rw [abs_le]; constructor <;> linarith

end BigDec
