import BigDec.Model.Inverse
import BigDec.Proofs.Prec
import BigDec.Proofs.RoundQ
import BigDec.Proofs.Arith
import BigDec.Proofs.ExpPos
/-! Accuracy of the reciprocal iteration on exit (partial correctness). -/
namespace BigDec
open Generated

/-- **`with_prec` has relative error at most half a unit of the `P`-th digit**: for a positive
    decimal, `|with_prec(d, P) − d| ≤ d · ½·10^(1−P)`, and the result is positive -/
theorem withPrec_rel_error {est : Nat → Nat} (hest : EstOK est) (d : Dec) (P : Nat) (hP : 1 ≤ P) (hd : 0 < d.int) :
    |(d.withPrec est P).value - d.value| ≤ d.value * (1 / 2 * (10 : ℚ) ^ (1 - (P : Int))) := by
  rw [withPrec_spec hest]
  have hn0 : d.int.natAbs ≠ 0 := by omega
  have hnd := pow_numDigits_le d.int.natAbs hn0
  have hdv : 0 < d.value := by
    unfold Dec.value
    exact mul_pos (by exact_mod_cast hd) (zpow_pos (by norm_num) _)
  have hpow : (0 : ℚ) < (10 : ℚ) ^ (1 - (P : Int)) := zpow_pos (by norm_num) _
  unfold Spec.roundToPrec Spec.roundToScale
  rw [Spec.numDigits_eq_model]
  by_cases hcase : d.scale + ((P : Int) - (numDigits d.int.natAbs : Int)) ≥ d.scale
  · rw [if_pos hcase]
    have hv : (Dec.mk (d.int * ((10 ^ (d.scale + ((P : Int) - (numDigits d.int.natAbs : Int)) - d.scale).toNat : Nat) : Int))
        (d.scale + ((P : Int) - (numDigits d.int.natAbs : Int)))).value = d.value := value_scale_up _ _ _ hcase
    rw [hv, sub_self, abs_zero]
    positivity
  · rw [if_neg hcase]
    obtain ⟨k, hk⟩ : ∃ k : Nat, (numDigits d.int.natAbs : Int) - P = k ∧ 1 ≤ k := ⟨numDigits d.int.natAbs - P, by omega, by omega⟩
    have hkk : (d.scale - (d.scale + ((P : Int) - (numDigits d.int.natAbs : Int)))).toNat = k := by omega
    rw [hkk]
    have hneg : decide (d.int < 0) = false := by simp; omega
    have hsg : Spec.sgn d.int = 1 := by unfold Spec.sgn; rw [if_neg (by omega)]
    rw [hneg, hsg, one_mul]
    obtain ⟨r1, r2⟩ := Spec.roundNat_halfUp false d.int.natAbs k
    generalize Spec.roundNat .HalfUp false d.int.natAbs k = R at r1 r2
    have hns : d.scale + ((P : Int) - (numDigits d.int.natAbs : Int)) = d.scale - k := by omega
    rw [hns]
    unfold Dec.value
    simp only
    -- d.value = (n / 10^k) · 10^-(scale - k)
    have hnat : (d.int : ℚ) = (d.int.natAbs : ℚ) := by
      rw [← Int.cast_natCast, Int.natAbs_of_nonneg (by omega)]
    have hsplit : (d.int : ℚ) * (10 : ℚ) ^ (-d.scale) = (d.int.natAbs : ℚ) / (10 : ℚ) ^ k * (10 : ℚ) ^ (-(d.scale - (k : Int))) := by
      rw [hnat]
      have : -(d.scale - (k : Int)) = -d.scale + (k : Int) := by ring
      rw [this, zpow_add₀ (by norm_num : (10 : ℚ) ≠ 0), zpow_natCast]
      field_simp
    rw [hsplit]
    have hu : (0 : ℚ) < (10 : ℚ) ^ (-(d.scale - (k : Int))) := zpow_pos (by norm_num) _
    rw [← sub_mul, abs_mul, abs_of_pos hu]
    push_cast
    have habs : |(R : ℚ) - (d.int.natAbs : ℚ) / (10 : ℚ) ^ k| ≤ 1 / 2 := by
      rw [abs_le]; constructor <;> linarith
    -- 10^k ≤ n · 10^(1 - P)·… : the unit against the value
    have hunit : (1 : ℚ) ≤ (d.int.natAbs : ℚ) / (10 : ℚ) ^ k * (10 : ℚ) ^ (1 - (P : Int)) := by
      have h1 : ((10 ^ (numDigits d.int.natAbs - 1) : Nat) : ℚ) ≤ (d.int.natAbs : ℚ) := by exact_mod_cast hnd
      have h2 : ((10 ^ (numDigits d.int.natAbs - 1) : Nat) : ℚ) = (10 : ℚ) ^ k * (10 : ℚ) ^ ((P : Int) - 1) := by
        push_cast
        rw [← zpow_natCast, ← zpow_natCast, ← zpow_add₀ (by norm_num : (10 : ℚ) ≠ 0)]
        congr 1
        have := numDigits_pos d.int.natAbs
        omega
      rw [h2] at h1
      have hk10 : (0 : ℚ) < (10 : ℚ) ^ k := by positivity
      have hp1 : (0 : ℚ) < (10 : ℚ) ^ ((P : Int) - 1) := zpow_pos (by norm_num) _
      rw [div_mul_eq_mul_div, le_div_iff₀ hk10, one_mul]
      have e : (10 : ℚ) ^ (1 - (P : Int)) = ((10 : ℚ) ^ ((P : Int) - 1))⁻¹ := by
        rw [← zpow_neg]; congr 1; ring
      rw [e, ← div_eq_mul_inv, le_div_iff₀ hp1]
      exact h1
    calc |(R : ℚ) - (d.int.natAbs : ℚ) / (10 : ℚ) ^ k| * (10 : ℚ) ^ (-(d.scale - (k : Int)))
        ≤ 1 / 2 * (10 : ℚ) ^ (-(d.scale - (k : Int))) := mul_le_mul_of_nonneg_right habs hu.le
      _ ≤ (d.int.natAbs : ℚ) / (10 : ℚ) ^ k * (10 : ℚ) ^ (-(d.scale - (k : Int))) * (1 / 2 * (10 : ℚ) ^ (1 - (P : Int))) := by
          have := mul_le_mul_of_nonneg_right hunit (by positivity : (0 : ℚ) ≤ 1 / 2 * (10 : ℚ) ^ (-(d.scale - (k : Int))))
          linarith [this]

/-! ### the Newton recurrence on residuals, over ℚ -/

theorem invNext_value (s r : Dec) : (invNext s r).value = r.value * (2 - s.value * r.value) := by
  unfold invNext
  rw [value_mulDD, value_subRDT, value_mulRDRD]
  simp [Dec.value]

/-- a value within relative `ρ` of the Newton step of `r` has residual within `ρ` of the squared
    residual of `r` -/
theorem residual_step (x r nx ρ : ℚ) (hx : 0 < x) (hr : 0 < r) (he : |1 - x * r| ≤ 9 / 10) (hρ : 0 ≤ ρ)
    (h : |nx - r * (2 - x * r)| ≤ r * (2 - x * r) * ρ) :
    |(1 - x * nx) - (1 - x * r) ^ 2| ≤ ρ ∧ 0 < nx ∨ ρ ≥ 1 := by
  by_cases hρ1 : ρ ≥ 1
  · right; exact hρ1
  left
  push Not at hρ1
  obtain ⟨e1, e2⟩ := abs_le.mp he
  have hf : r * (2 - x * r) = (1 - (1 - x * r) ^ 2) / x := by field_simp; ring
  have hfpos : 0 < r * (2 - x * r) := by
    apply mul_pos hr; linarith
  have hxf : x * (r * (2 - x * r)) = 1 - (1 - x * r) ^ 2 := by ring
  have hxf1 : x * (r * (2 - x * r)) ≤ 1 := by rw [hxf]; nlinarith [sq_nonneg (1 - x * r)]
  obtain ⟨h1, h2⟩ := abs_le.mp h
  constructor
  · have e : (1 - x * nx) - (1 - x * r) ^ 2 = -(x * (nx - r * (2 - x * r))) := by ring
    rw [e, abs_neg, abs_mul, abs_of_pos hx]
    calc x * |nx - r * (2 - x * r)| ≤ x * (r * (2 - x * r) * ρ) := mul_le_mul_of_nonneg_left h hx.le
      _ = x * (r * (2 - x * r)) * ρ := by ring
      _ ≤ 1 * ρ := mul_le_mul_of_nonneg_right hxf1 hρ
      _ = ρ := one_mul ρ
  · have : r * (2 - x * r) * (1 - ρ) ≤ nx := by linarith
    have hp : 0 < r * (2 - x * r) * (1 - ρ) := mul_pos hfpos (by linarith)
    linarith

/-- a fixed point of the rounded step has a residual of at most `2ρ` -/
theorem fixed_point_residual (x r ρ : ℚ) (hx : 0 < x) (hr : 0 < r) (he : |1 - x * r| ≤ 9 / 10)
    (hρ0 : 0 ≤ ρ) (hρ : ρ ≤ 1 / 4)
    (h : |r - r * (2 - x * r)| ≤ r * (2 - x * r) * ρ) : |1 - x * r| ≤ 2 * ρ := by
  -- r - f(r) = -r e ,  f(r) = r (1 + e)
  have e1 : r - r * (2 - x * r) = -(r * (1 - x * r)) := by ring
  have e2 : r * (2 - x * r) = r * (1 + (1 - x * r)) := by ring
  rw [e1, abs_neg, abs_mul, abs_of_pos hr, e2] at h
  generalize 1 - x * r = e at he h ⊢
  have h' : |e| ≤ (1 + e) * ρ := by
    have := (mul_le_mul_iff_right₀ hr).mp (by linarith [h] : r * |e| ≤ r * ((1 + e) * ρ))
    exact this
  have hle : e ≤ |e| := le_abs_self e
  nlinarith [abs_nonneg e]

/-- a two-cycle of the rounded step: both residuals are at most `2ρ` -/
theorem two_cycle_residual (ea eb ρ : ℚ) (ha : |ea| ≤ 9 / 10) (hb : |eb| ≤ 9 / 10) (hρ0 : 0 ≤ ρ) (hρ : ρ ≤ 1 / 200)
    (h1 : |eb - ea ^ 2| ≤ ρ) (h2 : |ea - eb ^ 2| ≤ ρ) : |ea| ≤ 2 * ρ := by
  have hb' : |eb| ≤ ea ^ 2 + ρ := by
    have := abs_sub_abs_le_abs_sub eb (ea ^ 2)
    rw [abs_of_nonneg (sq_nonneg ea)] at this; linarith
  have ha' : |ea| ≤ eb ^ 2 + ρ := by
    have := abs_sub_abs_le_abs_sub ea (eb ^ 2)
    rw [abs_of_nonneg (sq_nonneg eb)] at this; linarith
  have hsa : ea ^ 2 = |ea| ^ 2 := (sq_abs ea).symm
  have hsb : eb ^ 2 = |eb| ^ 2 := (sq_abs eb).symm
  rw [hsa] at hb'
  rw [hsb] at ha'
  have hA0 := abs_nonneg ea
  have hB0 := abs_nonneg eb
  generalize |ea| = A at *
  generalize |eb| = B at *
  -- first stage: A, B ≤ 10ρ ≤ 1/20
  have hB1 : B ≤ 9 / 10 * A + ρ := by nlinarith
  have hA1 : A ≤ 9 / 10 * B + ρ := by nlinarith
  have hA2 : A ≤ 10 * ρ := by linarith
  have hB2 : B ≤ 10 * ρ := by linarith
  -- second stage
  have hB3 : B ≤ A / 20 + ρ := by nlinarith
  have hA3 : A ≤ B / 20 + ρ := by nlinarith
  linarith

/-- half a unit of the last digit of the running iterate, relative -/
def invRho (p : Nat) : ℚ := 1 / 2 * (10 : ℚ) ^ (1 - ((p + inverseExtraPrec : Nat) : Int))

theorem invRho_small (p : Nat) (hp : 1 ≤ p) : 0 ≤ invRho p ∧ invRho p ≤ 1 / 200 := by
  unfold invRho
  have hextra : inverseExtraPrec = 2 := rfl
  constructor
  · exact mul_nonneg (by norm_num) (zpow_pos (by norm_num) _).le
  · have : (10 : ℚ) ^ (1 - ((p + inverseExtraPrec : Nat) : Int)) ≤ (10 : ℚ) ^ (-2 : Int) :=
      zpow_le_zpow_right₀ (by norm_num) (by rw [hextra]; push_cast; omega)
    have e : (10 : ℚ) ^ (-2 : Int) = 1 / 100 := by norm_num
    rw [e] at this
    linarith

/-- **exit accuracy of the loop** (partial correctness): whenever the iteration stops, the returned
    iterate is positive and its residual `1 − x·R` is at most `2ρ = 10^(1 − (p+2))` in magnitude -/
theorem invLoop_exit {est : Nat → Nat} (hest : EstOK est) (s : Dec) (hs : 0 < s.value) (p : Nat) (hp : 1 ≤ p) :
    ∀ (fuel : Nat) (prev running R : Dec),
      0 < running.value → |1 - s.value * running.value| ≤ 9 / 10 →
      (prev.value = 0 ∨ (0 < prev.value ∧ |1 - s.value * prev.value| ≤ 9 / 10 ∧
        |(1 - s.value * running.value) - (1 - s.value * prev.value) ^ 2| ≤ invRho p)) →
      invLoop est s p fuel prev running = some R →
      0 < R.value ∧ |1 - s.value * R.value| ≤ 2 * invRho p := by
  obtain ⟨hρ0, hρ⟩ := invRho_small p hp
  intro fuel
  induction fuel with
  | zero => intro prev running R _ _ _ h; simp [invLoop] at h
  | succ f ih =>
    intro prev running R hrpos hre hprev h
    unfold invLoop at h
    simp only at h
    -- the rounded Newton step
    have hdv : (invNext s running).value = running.value * (2 - s.value * running.value) := invNext_value s running
    obtain ⟨e1, e2⟩ := abs_le.mp hre
    have hdpos : 0 < (invNext s running).value := by
      rw [hdv]; apply mul_pos hrpos; linarith
    have hdint : 0 < (invNext s running).int := (value_pos_iff _).mp hdpos
    have hP1 : 1 ≤ p + inverseExtraPrec := by omega
    have hL1 := withPrec_rel_error hest (invNext s running) (p + inverseExtraPrec) hP1 hdint
    rw [hdv] at hL1
    have hρeq : (1 / 2 * (10 : ℚ) ^ (1 - ((p + inverseExtraPrec : Nat) : Int))) = invRho p := rfl
    rw [hρeq] at hL1
    generalize hnext : (invNext s running).withPrec est (p + inverseExtraPrec) = nx at h hL1
    have hstep := residual_step s.value running.value nx.value (invRho p) hs hrpos hre hρ0 hL1
    rcases hstep with ⟨hres, hnpos⟩ | hbad
    swap
    · exfalso; linarith
    have hne : |1 - s.value * nx.value| ≤ 9 / 10 := by
      have h1 := abs_sub_abs_le_abs_sub (1 - s.value * nx.value) ((1 - s.value * running.value) ^ 2)
      have h1' : |(1 - s.value * running.value) ^ 2| = (1 - s.value * running.value) ^ 2 := abs_of_nonneg (sq_nonneg _)
      rw [h1'] at h1
      have hsq : (1 - s.value * running.value) ^ 2 ≤ 81 / 100 := by
        have := abs_le.mp hre
        nlinarith
      linarith
    by_cases hexit : (Spec.valueEq nx running || Spec.valueEq nx prev) = true
    · rw [if_pos hexit] at h
      have hR : R = nx := (Option.some.inj h).symm
      rw [hR]
      refine ⟨hnpos, ?_⟩
      rcases Bool.or_eq_true _ _ |>.mp hexit with hA | hB
      · -- fixed point
        have hv : nx.value = running.value := (Spec.valueEq_iff _ _).mp hA
        rw [hv] at hL1 ⊢
        exact fixed_point_residual s.value running.value (invRho p) hs hrpos hre hρ0 (by linarith) hL1
      · -- two-cycle
        have hv : nx.value = prev.value := (Spec.valueEq_iff _ _).mp hB
        rcases hprev with h0 | ⟨hppos, hpe, hpr⟩
        · rw [hv, h0] at hnpos; exact absurd hnpos (lt_irrefl _)
        · rw [hv] at hres ⊢
          exact two_cycle_residual _ _ (invRho p) hpe hre hρ0 hρ hpr hres
    · rw [if_neg hexit] at h
      exact ih running nx R hnpos hne (Or.inr ⟨hrpos, hre, hres⟩) h

end BigDec
