import BigDec.Model.Cmp
import BigDec.Proofs.Round
import BigDec.Proofs.Value
/-! Correctness of the comparison routines of src/impl_cmp.rs. -/
namespace BigDec
open Generated

/-- the scalar condition on `(LOG2_10 * k as f64) as u64`: one less than the estimate is at most
    `log2 (10^k)`.  (The stronger `2^pre(k) ≤ 10^k` is FALSE for the code's f64 product: at
    k = 178 898 934 it gives 594 289 395 although 10^k < 2^594289395.)  Demanded for scale
    differences up to 2^40: beyond that every operand of at most 2^40 bits is below `10^k` anyway. -/
def PreOK (pre : Nat → Nat) : Prop := ∀ k, k ≤ 2 ^ 40 → 2 ^ (pre k - 1) ≤ 10 ^ k

/-- the code lowers the estimate by at least one bit (regenerated from the source) -/
theorem highestBitPreSub_pos : 1 ≤ highestBitPreSub := by decide

theorem lt_two_pow_bits' (a : Nat) : a < 2 ^ bits a := by
  unfold bits; split
  · rename_i h; subst h; simp
  · exact Nat.lt_log2_self

theorem two_pow_bits_le (b : Nat) (h : b ≠ 0) : 2 ^ (bits b - 1) ≤ b := by
  unfold bits; rw [if_neg h]; simpa using Nat.log2_self_le h

theorem bits_pos (b : Nat) (h : b ≠ 0) : 1 ≤ bits b := by unfold bits; rw [if_neg h]; omega

/-- the bit-length prefilter never claims "less" wrongly -/
theorem highestBitLess_sound {pre : Nat → Nat} (hp : PreOK pre) (a b k : Nat) (hb : b ≠ 0)
    (hbits : bits a < 2 ^ 40) (h : highestBitLess pre a b k = true) : a < b * 10 ^ k := by
  have ha := lt_two_pow_bits' a
  have hb2 := two_pow_bits_le b hb
  have hb1 := bits_pos b hb
  have hk : 1 ≤ 10 ^ k := Nat.one_le_pow _ _ (by norm_num)
  by_cases hkbig : k ≤ 2 ^ 40
  · unfold highestBitLess at h
    split at h
    · rename_i hlt
      have : 2 ^ bits a ≤ 2 ^ (bits b - 1) := Nat.pow_le_pow_right (by norm_num) (by omega)
      calc a < 2 ^ bits a := ha
        _ ≤ 2 ^ (bits b - 1) := this
        _ ≤ b := hb2
        _ ≤ b * 10 ^ k := Nat.le_mul_of_pos_right _ (by omega)
    · rename_i hnlt
      have hs := highestBitPreSub_pos
      have hlt : bits a < bits b + (pre k - highestBitPreSub) := by
        split at h
        · simpa using h
        · rename_i hnfit; omega
      have h1 : 2 ^ bits a ≤ 2 ^ (bits b - 1 + (pre k - 1)) := Nat.pow_le_pow_right (by norm_num) (by omega)
      calc a < 2 ^ bits a := ha
        _ ≤ 2 ^ (bits b - 1 + (pre k - 1)) := h1
        _ = 2 ^ (bits b - 1) * 2 ^ (pre k - 1) := by rw [pow_add]
        _ ≤ b * 10 ^ k := Nat.mul_le_mul hb2 (hp k hkbig)
  · -- a scale difference beyond 2^40: any operand of fewer than 2^40 bits is below 10^k
    have h1 : 2 ^ bits a ≤ 2 ^ k := Nat.pow_le_pow_right (by norm_num) (by omega)
    have h2 : 2 ^ k ≤ 10 ^ k := Nat.pow_le_pow_left (by norm_num) k
    have hb0 : 1 ≤ b := by omega
    calc a < 2 ^ bits a := ha
      _ ≤ 10 ^ k := le_trans h1 h2
      _ ≤ b * 10 ^ k := Nat.le_mul_of_pos_left _ hb0

/-! ### u32 limbs -/

/-- a normalised little-endian limb list (what `iter_u32_digits` yields) -/
def NormL : List Nat → Prop
  | [] => True
  | a :: as => a < 2 ^ 32 ∧ NormL as ∧ (as = [] → a ≠ 0)

theorem ofLimbsLE_limbsLE (n : Nat) : ofLimbsLE (limbsLE n) = n := by
  induction n using Nat.strong_induction_on with
  | _ n ih =>
    cases n with
    | zero => simp [limbsLE, ofLimbsLE]
    | succ n =>
      have hB : (2:Nat) ^ 32 = 4294967296 := by norm_num
      rw [limbsLE, ofLimbsLE, ih _ (by omega)]; omega

theorem normL_limbsLE (n : Nat) : NormL (limbsLE n) := by
  induction n using Nat.strong_induction_on with
  | _ n ih =>
    cases n with
    | zero => simp [limbsLE, NormL]
    | succ n =>
      have hB : (2:Nat) ^ 32 = 4294967296 := by norm_num
      rw [limbsLE]
      refine ⟨Nat.mod_lt _ (by positivity), ih _ (by omega), ?_⟩
      intro hnil
      have h0 : (n + 1) / 2 ^ 32 = 0 := by
        have := ofLimbsLE_limbsLE ((n + 1) / 2 ^ 32)
        rw [hnil] at this; simpa [ofLimbsLE] using this.symm
      have : n + 1 < 2 ^ 32 := by
        by_contra hc
        have : 1 ≤ (n + 1) / 2 ^ 32 := Nat.div_pos (by omega) (by positivity)
        omega
      rw [Nat.mod_eq_of_lt this]; omega

theorem normL_zero_iff (l : List Nat) (h : NormL l) : ofLimbsLE l = 0 ↔ l = [] := by
  induction l with
  | nil => simp [ofLimbsLE]
  | cons a as ih =>
    obtain ⟨ha, hn, hz⟩ := h
    simp only [ofLimbsLE, reduceCtorEq, iff_false]
    intro h0
    have h1 : a = 0 := by omega
    have h2 : ofLimbsLE as = 0 := by
      have : 2 ^ 32 * ofLimbsLE as = 0 := by omega
      rcases Nat.mul_eq_zero.mp this with h | h
      · norm_num at h
      · exact h
    exact hz ((ih hn).mp h2) h1

/-- **the limb loop decides `A = B·pow + carry`** whenever it does not bail out -/
theorem limbLoop_spec (pow : Nat) (hpow : 1 ≤ pow) (as bs : List Nat) (c : Nat) (r : Bool)
    (ha : NormL as) (hb : NormL bs) (hc : c < 2 ^ 32)
    (h : limbLoop pow as bs c = .decided r) :
    r = true ↔ ofLimbsLE as = ofLimbsLE bs * pow + c := by
  have hB : (2:Nat) ^ 32 = 4294967296 := by norm_num
  have hB64 : (2:Nat) ^ 64 = 4294967296 * 4294967296 := by norm_num
  induction as generalizing bs c with
  | nil =>
    cases bs with
    | nil =>
      simp only [limbLoop, LimbLoop.decided.injEq] at h
      rw [← h]
      simp only [ofLimbsLE, beq_iff_eq, Nat.zero_mul, Nat.zero_add]
      constructor <;> intro hh <;> omega
    | cons b bs =>
      simp only [limbLoop, LimbLoop.decided.injEq] at h
      rw [← h]
      have hne : ofLimbsLE (b :: bs) ≠ 0 := by
        intro h0; exact absurd ((normL_zero_iff _ hb).mp h0) (by simp)
      have : 0 < ofLimbsLE (b :: bs) * pow := Nat.mul_pos (Nat.pos_of_ne_zero hne) (by omega)
      simp only [Bool.false_eq_true, false_iff]
      show ¬ (0 = ofLimbsLE (b :: bs) * pow + c)
      omega
  | cons a as ih =>
    obtain ⟨ha1, ha2, ha3⟩ := ha
    cases bs with
    | nil =>
      simp only [limbLoop] at h
      split at h
      · rename_i hne
        simp only [LimbLoop.decided.injEq] at h
        rw [← h]
        rw [Nat.mod_eq_of_lt hc] at hne
        simp only [ofLimbsLE, Bool.false_eq_true, false_iff]
        omega
      · rename_i heq
        simp only [ne_eq, not_not] at heq
        rw [Nat.mod_eq_of_lt hc] at heq
        have := ih [] 0 ha2 (by simp [NormL]) (by omega) h
        refine this.trans ?_
        simp only [ofLimbsLE]
        constructor <;> intro hh <;> omega
    | cons b bs =>
      obtain ⟨hb1, hb2, hb3⟩ := hb
      simp only [limbLoop] at h
      split at h
      · rename_i hfit
        split at h
        · rename_i hne
          simp only [LimbLoop.decided.injEq] at h
          rw [← h]
          simp only [ofLimbsLE, Bool.false_eq_true, false_iff]
          intro heq
          apply hne
          have : (a + 2 ^ 32 * ofLimbsLE as) % 2 ^ 32 = ((b + 2 ^ 32 * ofLimbsLE bs) * pow + c) % 2 ^ 32 := by rw [heq]
          have e1 : (a + 2 ^ 32 * ofLimbsLE as) % 2 ^ 32 = a := by
            rw [Nat.add_mul_mod_self_left]; exact Nat.mod_eq_of_lt ha1
          have e2 : ((b + 2 ^ 32 * ofLimbsLE bs) * pow + c) % 2 ^ 32 = (b * pow + c) % 2 ^ 32 := by
            have : (b + 2 ^ 32 * ofLimbsLE bs) * pow + c = (b * pow + c) + 2 ^ 32 * (ofLimbsLE bs * pow) := by ring
            rw [this, Nat.add_mul_mod_self_left]
          rw [e1, e2] at this; exact this
        · rename_i heq
          simp only [ne_eq, not_not] at heq
          have hcarry : (b * pow + c) / 2 ^ 32 < 2 ^ 32 := by
            rw [Nat.div_lt_iff_lt_mul (by positivity)]; omega
          have := ih bs ((b * pow + c) / 2 ^ 32) ha2 hb2 hcarry h
          refine this.trans ?_
          simp only [ofLimbsLE]
          have hdm := Nat.div_add_mod (b * pow + c) (2 ^ 32)
          have e : (b + 2 ^ 32 * ofLimbsLE bs) * pow + c = (b * pow + c) + 2 ^ 32 * (ofLimbsLE bs * pow) := by ring
          rw [e]
          have e3 : 2 ^ 32 * (ofLimbsLE bs * pow + (b * pow + c) / 2 ^ 32) = 2 ^ 32 * (ofLimbsLE bs * pow) + 2 ^ 32 * ((b * pow + c) / 2 ^ 32) := by ring
          constructor
          · intro hh; rw [hh, heq]; omega
          · intro hh
            rw [heq] at hh
            have : 2 ^ 32 * ofLimbsLE as = 2 ^ 32 * (ofLimbsLE bs * pow + (b * pow + c) / 2 ^ 32) := by omega
            exact Nat.eq_of_mul_eq_mul_left (by positivity) this
      · simp at h

end BigDec

namespace BigDec
open Generated

/-! ### digit-wise equality -/

theorem zip_all_eq_iff (l1 l2 : List Nat) (hlen : l1.length = l2.length) :
    (l1.zip l2).all (fun p => p.1 == p.2) = true ↔ l1 = l2 := by
  induction l1 generalizing l2 with
  | nil => cases l2 with
    | nil => simp
    | cons => simp at hlen
  | cons a as ih =>
    cases l2 with
    | nil => simp at hlen
    | cons b bs =>
      simp only [List.length_cons, Nat.add_right_cancel_iff] at hlen
      simp only [List.zip_cons_cons, List.all_cons, Bool.and_eq_true, beq_iff_eq, List.cons.injEq]
      rw [ih bs hlen]

theorem digitsLE_injective {a b : Nat} (h : digitsLE a = digitsLE b) : a = b := by
  rw [← ofDigitsLE_digitsLE a, ← ofDigitsLE_digitsLE b, h]

theorem any_ne_zero_iff (l : List Nat) : l.any (· != 0) = !(l.all (· == 0)) := by
  induction l with
  | nil => simp
  | cons a as ih =>
    simp only [List.any_cons, List.all_cons, ih, Bool.not_and]
    cases h : (a == 0) <;> simp [bne, h]

theorem eqDigitwise_spec (A B k : Nat) (hA : A ≠ 0) (hB : B ≠ 0) :
    eqDigitwise A B k = true ↔ A = B * 10 ^ k := by
  unfold eqDigitwise
  rw [digitsLE_length A hA, any_ne_zero_iff, take_all_zero, digitsLE_drop]
  have hhi := lt_pow_numDigits A
  have hP : 0 < 10 ^ k := by positivity
  have hdm := Nat.div_add_mod A (10 ^ k)
  split
  · rename_i hgt
    simp only [Bool.false_eq_true, false_iff]
    intro heq
    have : 10 ^ numDigits A ≤ 10 ^ k := Nat.pow_le_pow_right (by norm_num) (by omega)
    have : 10 ^ k ≤ B * 10 ^ k := Nat.le_mul_of_pos_left _ (by omega)
    omega
  · split
    · rename_i h1 h2
      simp only [Bool.false_eq_true, false_iff]
      intro heq
      have : A % 10 ^ k = 0 := by rw [heq]; exact Nat.mul_mod_left _ _
      simp [this] at h2
    · rename_i h1 h2
      have hmod : A % 10 ^ k = 0 := by simpa using h2
      split
      · rename_i h3
        simp only [Bool.false_eq_true, false_iff]
        intro heq
        apply (by simpa using h3 : ¬ (digitsLE (A / 10 ^ k)).length = (digitsLE B).length)
        have : A / 10 ^ k = B := by rw [heq]; exact Nat.mul_div_cancel _ hP
        rw [this]
      · rename_i h3
        have hlen : (digitsLE (A / 10 ^ k)).length = (digitsLE B).length := by simpa using h3
        rw [zip_all_eq_iff _ _ hlen]
        constructor
        · intro h
          have := digitsLE_injective h
          rw [← this]; rw [hmod] at hdm; rw [Nat.mul_comm]; omega
        · intro heq
          have : A / 10 ^ k = B := by rw [heq]; exact Nat.mul_div_cancel _ hP
          rw [this]

/-- **scaled equality of magnitudes**: all three paths decide `A = B · 10^k` -/
theorem eqScaled_spec {pre : Nat → Nat} (hp : PreOK pre) (A B k : Nat) (hA : A ≠ 0) (hB : B ≠ 0)
    (hbits : bits A < 2 ^ 40) : eqScaled pre A B k = true ↔ A = B * 10 ^ k := by
  unfold eqScaled
  split
  · rename_i h
    have := highestBitLess_sound hp A B k hB hbits h
    simp only [Bool.false_eq_true, false_iff]; omega
  · split
    · rename_i hnb hk
      rw [tenPowU64_eq hk]
      have hpow : 1 ≤ 10 ^ k := Nat.one_le_pow _ _ (by norm_num)
      split
      · rename_i r hr
        have := limbLoop_spec (10 ^ k) hpow _ _ 0 r (normL_limbsLE A) (normL_limbsLE B) (by norm_num) hr
        rw [ofLimbsLE_limbsLE, ofLimbsLE_limbsLE] at this
        simpa using this
      · simp only [decide_eq_true_eq]; exact eq_comm
    · exact eqDigitwise_spec A B k hA hB

end BigDec

namespace BigDec
open Generated

/-! ### from magnitudes to decimals -/

theorem value_eq_iff_ge (l r : Dec) (h : r.scale ≤ l.scale) :
    l.value = r.value ↔ l.int = r.int * ((10 ^ (l.scale - r.scale).toNat : Nat) : Int) := by
  rw [← Spec.valueEq_iff]
  unfold Spec.valueEq Spec.alignTo
  simp only [beq_iff_eq, max_eq_left h, sub_self, Int.toNat_zero, pow_zero, Nat.cast_one, mul_one]

theorem sgnOrd_mul_pos (i : Int) (P : Nat) (hP : 0 < P) : sgnOrd (i * (P : Int)) = sgnOrd i := by
  have hPi : (0:Int) < P := by exact_mod_cast hP
  unfold sgnOrd
  rcases lt_trichotomy i 0 with h | h | h
  · have : i * (P:Int) < 0 := Int.mul_neg_of_neg_of_pos h hPi
    simp [h, this]
  · subst h; simp
  · have : 0 < i * (P:Int) := Int.mul_pos h hPi
    have h1 : ¬ i < 0 := by omega
    have h2 : ¬ i = 0 := by omega
    have h3 : ¬ i * (P:Int) < 0 := by omega
    have h4 : ¬ i * (P:Int) = 0 := by omega
    simp [h1, h2, h3, h4]

theorem int_eq_mul_iff_natAbs (x y : Int) (P : Nat) (hP : 0 < P) (hs : sgnOrd x = sgnOrd y) :
    x = y * (P : Int) ↔ x.natAbs = y.natAbs * P := by
  constructor
  · intro h; rw [h, Int.natAbs_mul, Int.natAbs_natCast]
  · intro h
    unfold sgnOrd at hs
    have hcast : ((x.natAbs : Nat) : Int) = ((y.natAbs : Nat) : Int) * (P : Int) := by exact_mod_cast h
    rcases lt_trichotomy x 0 with hx | hx | hx
    · have hy : y < 0 := by
        by_contra hc; rw [if_pos hx] at hs; split at hs <;> [omega; (split at hs <;> omega)]
      rw [Int.ofNat_natAbs_of_nonpos (le_of_lt hx), Int.ofNat_natAbs_of_nonpos (le_of_lt hy)] at hcast
      have : -x = -(y * P) := by rw [hcast]; ring
      omega
    · subst hx
      have hy : y = 0 := by
        simp only [lt_self_iff_false, if_false, if_true] at hs
        split at hs
        · omega
        · split at hs <;> omega
      subst hy; simp
    · have hy : 0 < y := by
        have h1 : ¬ x < 0 := by omega
        have h2 : ¬ x = 0 := by omega
        rw [if_neg h1, if_neg h2] at hs
        split at hs
        · omega
        · split at hs <;> omega
      rw [Int.natAbs_of_nonneg (le_of_lt hx), Int.natAbs_of_nonneg (le_of_lt hy)] at hcast
      exact hcast

theorem sgnOrd_eq_of_value_eq (l r : Dec) (h : l.value = r.value) : sgnOrd l.int = sgnOrd r.int := by
  rcases le_total r.scale l.scale with hle | hle
  · have := (value_eq_iff_ge l r hle).mp h
    rw [this]; exact sgnOrd_mul_pos _ _ (by positivity)
  · have := (value_eq_iff_ge r l hle).mp h.symm
    rw [this]; exact (sgnOrd_mul_pos _ _ (by positivity)).symm

theorem sgnOrd_eq_one_iff (i : Int) : sgnOrd i = 1 ↔ i = 0 := by
  unfold sgnOrd
  constructor
  · intro h
    split at h
    · omega
    · split at h <;> omega
  · intro h; subst h; simp

/-- operands the theorems speak about: fewer than 2^40 bits (128 GiB of digits) -/
def Small (d : Dec) : Prop := bits d.int.natAbs < 2 ^ 40 ∧ numDigits d.int.natAbs < 2 ^ 63

theorem eqDec_gt_case {pre : Nat → Nat} (hp : PreOK pre) (l r : Dec) (hl0 : l.int ≠ 0) (hr0 : r.int ≠ 0)
    (hs : sgnOrd l.int = sgnOrd r.int) (hsm : Small l) (hgt : r.scale < l.scale) :
    (match checkedDiff l.scale r.scale with
      | (.eq, _) => l.int.natAbs == r.int.natAbs
      | (.gt, some d) => eqScaled pre l.int.natAbs r.int.natAbs d
      | (.lt, some d) => eqScaled pre r.int.natAbs l.int.natAbs d
      | _ => false) = true ↔ l.value = r.value := by
  rw [value_eq_iff_ge l r (le_of_lt hgt), int_eq_mul_iff_natAbs _ _ _ (by positivity) hs]
  unfold checkedDiff
  rw [if_neg (by omega), if_pos hgt]
  have hln : l.int.natAbs ≠ 0 := Int.natAbs_ne_zero.mpr hl0
  have hrn : r.int.natAbs ≠ 0 := Int.natAbs_ne_zero.mpr hr0
  by_cases hfit : l.scale - r.scale < 2 ^ 63
  · rw [if_pos hfit]
    exact eqScaled_spec hp _ _ _ hln hrn hsm.1
  · rw [if_neg hfit]
    simp only [Bool.false_eq_true, false_iff]
    intro heq
    have := numDigits_mul_pow r.int.natAbs (l.scale - r.scale).toNat hrn
    rw [← heq] at this
    have h2 := hsm.2
    have : (2:Int)^63 ≤ ((l.scale - r.scale).toNat : Int) := by omega
    have : (2:Nat)^63 ≤ (l.scale - r.scale).toNat := by exact_mod_cast this
    omega

/-- **`==` is numeric equality** -/
theorem eqDec_spec {pre : Nat → Nat} (hp : PreOK pre) (l r : Dec) (hl : Small l) (hr : Small r) :
    eqDec pre l r = true ↔ l.value = r.value := by
  unfold eqDec
  split
  · rename_i h0
    simp only [true_iff]
    rw [Dec.value_zero_int h0.1, Dec.value_zero_int h0.2]
  · rename_i h0
    split
    · rename_i hs
      simp only [Bool.false_eq_true, false_iff]
      intro heq; exact hs (sgnOrd_eq_of_value_eq l r heq)
    · rename_i hs
      have hs : sgnOrd l.int = sgnOrd r.int := by simpa using hs
      have hl0 : l.int ≠ 0 := by
        intro h; apply h0; refine ⟨h, ?_⟩
        have h1 := (sgnOrd_eq_one_iff l.int).mpr h
        exact (sgnOrd_eq_one_iff r.int).mp (by omega)
      have hr0 : r.int ≠ 0 := by
        intro h; apply h0; refine ⟨?_, h⟩
        have h1 := (sgnOrd_eq_one_iff r.int).mpr h
        exact (sgnOrd_eq_one_iff l.int).mp (by omega)
      rcases lt_trichotomy l.scale r.scale with hlt | heq | hgt
      · -- symmetric case: swap the roles
        have key := eqDec_gt_case hp r l hr0 hl0 hs.symm hr hlt
        have hcd : checkedDiff l.scale r.scale = (.lt, if r.scale - l.scale < 2 ^ 63 then some (r.scale - l.scale).toNat else none) := by
          unfold checkedDiff; rw [if_pos hlt]
        have hcd' : checkedDiff r.scale l.scale = (.gt, if r.scale - l.scale < 2 ^ 63 then some (r.scale - l.scale).toNat else none) := by
          unfold checkedDiff; rw [if_neg (by omega), if_pos hlt]
        rw [hcd'] at key
        rw [hcd]
        by_cases hfit : r.scale - l.scale < 2 ^ 63
        · rw [if_pos hfit] at key ⊢
          simp only [] at key ⊢
          rw [key]; exact eq_comm
        · rw [if_neg hfit] at key ⊢
          simp only [] at key ⊢
          rw [key]; exact eq_comm
      · have hcd : checkedDiff l.scale r.scale = (.eq, some 0) := by
          unfold checkedDiff; rw [if_neg (by omega), if_neg (by omega)]
        rw [hcd]
        simp only [beq_iff_eq]
        rw [value_eq_iff_ge l r (by omega), int_eq_mul_iff_natAbs _ _ _ (by positivity) hs]
        have : (l.scale - r.scale).toNat = 0 := by omega
        rw [this]; simp
      · exact eqDec_gt_case hp l r hl0 hr0 hs hl hgt

end BigDec

namespace BigDec
open Generated

/-! ### ordering of scaled magnitudes -/

/-- value of a big-endian digit list -/
def valBE : List Nat → Nat
  | [] => 0
  | a :: as => a * 10 ^ as.length + valBE as

theorem valBE_append_singleton (xs : List Nat) (d : Nat) : valBE (xs ++ [d]) = valBE xs * 10 + d := by
  induction xs with
  | nil => simp [valBE]
  | cons a as ih =>
    simp only [List.cons_append, valBE, ih, List.length_append, List.length_cons, List.length_nil]
    rw [pow_succ]; ring

theorem valBE_reverse (l : List Nat) : valBE l.reverse = ofDigitsLE l := by
  induction l with
  | nil => rfl
  | cons d ds ih => rw [List.reverse_cons, valBE_append_singleton, ih, ofDigitsLE]; ring

theorem valBE_lt (l : List Nat) (h : ∀ d ∈ l, d < 10) : valBE l < 10 ^ l.length := by
  induction l with
  | nil => simp [valBE]
  | cons a as ih =>
    have ha : a < 10 := h a (by simp)
    have := ih (fun d hd => h d (by simp [hd]))
    simp only [valBE, List.length_cons]
    rw [pow_succ]
    have hp : 0 < 10 ^ as.length := by positivity
    nlinarith

theorem valBE_zero_iff (l : List Nat) : valBE l = 0 ↔ l.all (· == 0) = true := by
  induction l with
  | nil => simp [valBE]
  | cons a as ih =>
    simp only [valBE, List.all_cons, Bool.and_eq_true, beq_iff_eq]
    rw [← ih]
    have hp : 0 < 10 ^ as.length := by positivity
    constructor
    · intro h
      have h1 : a * 10 ^ as.length = 0 := by omega
      have h2 : valBE as = 0 := by omega
      rcases Nat.mul_eq_zero.mp h1 with h3 | h3
      · exact ⟨h3, h2⟩
      · omega
    · intro ⟨h1, h2⟩; rw [h1, h2]; simp

theorem cmpDigitsBE_spec (as bs : List Nat) (k : Nat) (ha : ∀ d ∈ as, d < 10) (hb : ∀ d ∈ bs, d < 10)
    (hlen : as.length = bs.length + k) :
    cmpDigitsBE as bs = compare (valBE as) (valBE bs * 10 ^ k) := by
  induction bs generalizing as with
  | nil =>
    cases as with
    | nil => simp [cmpDigitsBE, valBE]
    | cons a as =>
      simp only [cmpDigitsBE, valBE, Nat.zero_mul]
      have hz := valBE_zero_iff (a :: as)
      simp only [valBE, List.all_cons, Bool.and_eq_true, beq_iff_eq] at hz
      split
      · rename_i h
        have : a * 10 ^ as.length + valBE as = 0 := hz.mpr h
        rw [this]; simp
      · rename_i h
        have : a * 10 ^ as.length + valBE as ≠ 0 := fun h0 => h (hz.mp h0)
        symm; rw [Nat.compare_eq_gt]; omega
  | cons b bs ih =>
    cases as with
    | nil => simp only [List.length_nil, List.length_cons] at hlen; omega
    | cons a as =>
      simp only [List.length_cons] at hlen
      have hlen' : as.length = bs.length + k := by omega
      have ha' : ∀ d ∈ as, d < 10 := fun d hd => ha d (by simp [hd])
      have hb' : ∀ d ∈ bs, d < 10 := fun d hd => hb d (by simp [hd])
      have hA := valBE_lt as ha'
      have hBv := valBE_lt bs hb'
      have hP : 0 < 10 ^ as.length := by positivity
      have e : valBE (b :: bs) * 10 ^ k = b * 10 ^ as.length + valBE bs * 10 ^ k := by
        simp only [valBE]; rw [hlen', pow_add]; ring
      have hB2 : valBE bs * 10 ^ k < 10 ^ as.length := by
        rw [hlen', pow_add]; exact Nat.mul_lt_mul_of_pos_right hBv (by positivity)
      simp only [cmpDigitsBE]
      rw [e]
      simp only [valBE]
      split
      · rename_i hab
        subst hab
        rw [ih as ha' hb' hlen']
        rcases lt_trichotomy (valBE as) (valBE bs * 10 ^ k) with h | h | h
        · rw [Nat.compare_eq_lt.mpr h]; symm; rw [Nat.compare_eq_lt]; omega
        · rw [Nat.compare_eq_eq.mpr h]; symm; rw [Nat.compare_eq_eq]; omega
        · rw [Nat.compare_eq_gt.mpr h]; symm; rw [Nat.compare_eq_gt]; omega
      · rename_i hab
        rcases Nat.lt_or_gt_of_ne hab with hlt | hgt
        · rw [Nat.compare_eq_lt.mpr hlt]
          symm; rw [Nat.compare_eq_lt]
          have h1 : (a + 1) * 10 ^ as.length ≤ b * 10 ^ as.length := Nat.mul_le_mul_right _ hlt
          rw [Nat.add_mul, Nat.one_mul] at h1
          omega
        · rw [Nat.compare_eq_gt.mpr hgt]
          symm; rw [Nat.compare_eq_gt]
          have h1 : (b + 1) * 10 ^ as.length ≤ a * 10 ^ as.length := Nat.mul_le_mul_right _ hgt
          rw [Nat.add_mul, Nat.one_mul] at h1
          omega

theorem numDigits_lt_imp_lt {x y : Nat} (h : numDigits x < numDigits y) : x < y := by
  by_contra hc
  have := numDigits_mono (Nat.le_of_not_lt hc)
  omega

theorem compareScaledUints_spec (w a b k : Nat) (hb : b ≠ 0) (r : Ordering)
    (h : compareScaledUints w a b k = some r) : r = compare a (b * 10 ^ k) := by
  unfold compareScaledUints at h
  simp only [] at h
  have hk : 1 ≤ 10 ^ k := Nat.one_le_pow _ _ (by norm_num)
  have hb1 : 1 ≤ b := by omega
  by_cases ha : a < 2 ^ w
  · rw [if_pos ha] at h
    by_cases hfit : b < 2 ^ w ∧ 10 ^ k < 2 ^ w ∧ b * 10 ^ k < 2 ^ w
    · rw [if_pos hfit] at h
      simpa using h.symm
    · rw [if_neg hfit] at h
      simp only [Option.some.injEq] at h
      rw [← h]; symm; rw [Nat.compare_eq_lt]
      have hge : 2 ^ w ≤ b * 10 ^ k := by
        by_contra hc
        apply hfit
        have h1 : b * 10 ^ k < 2 ^ w := by omega
        refine ⟨?_, ?_, h1⟩
        · calc b = b * 1 := by ring
            _ ≤ b * 10 ^ k := Nat.mul_le_mul_left _ hk
            _ < 2 ^ w := h1
        · calc 10 ^ k = 1 * 10 ^ k := by ring
            _ ≤ b * 10 ^ k := Nat.mul_le_mul_right _ hb1
            _ < 2 ^ w := h1
      omega
  · rw [if_neg ha] at h
    by_cases hfit : b < 2 ^ w ∧ 10 ^ k < 2 ^ w ∧ b * 10 ^ k < 2 ^ w
    · rw [if_pos hfit] at h
      simp only [Option.some.injEq] at h
      rw [← h]; symm; rw [Nat.compare_eq_gt]; omega
    · rw [if_neg hfit] at h; simp at h

/-- **`compare_scaled_biguints a b k` compares `a` with `b · 10^k`** through every path -/
theorem compareScaled_spec {pre : Nat → Nat} (hp : PreOK pre) (a b k : Nat) (ha : a ≠ 0) (hb : b ≠ 0)
    (hbits : bits a < 2 ^ 40) : compareScaled pre a b k = compare a (b * 10 ^ k) := by
  unfold compareScaled
  split
  · rename_i hk; subst hk; simp
  · split
    · rename_i hk h
      have := highestBitLess_sound hp a b k hb hbits h
      symm; rw [Nat.compare_eq_lt]; exact this
    · split
      · rename_i r hr
        cases h64 : compareScaledUints 64 a b k with
        | some r' =>
          rw [h64] at hr
          simp only [Option.orElse_some, Option.some.injEq] at hr
          rw [← hr]; exact compareScaledUints_spec 64 a b k hb r' h64
        | none =>
          rw [h64] at hr
          simp only [Option.orElse_none] at hr
          exact compareScaledUints_spec 128 a b k hb r hr
      · have hnd := numDigits_mul_pow b k hb
        split
        · rename_i hne
          rw [← hnd]
          rcases Nat.lt_or_gt_of_ne (by rw [hnd]; exact hne : numDigits a ≠ numDigits (b * 10 ^ k)) with h | h
          · rw [Nat.compare_eq_lt.mpr h]; symm; rw [Nat.compare_eq_lt]; exact numDigits_lt_imp_lt h
          · rw [Nat.compare_eq_gt.mpr h]; symm; rw [Nat.compare_eq_gt]; exact numDigits_lt_imp_lt h
        · rename_i heq
          have heq : numDigits a = numDigits b + k := by simpa using heq
          have h1 := cmpDigitsBE_spec (digitsLE a).reverse (digitsLE b).reverse k
            (fun d hd => digitsLE_lt a d (List.mem_reverse.mp hd))
            (fun d hd => digitsLE_lt b d (List.mem_reverse.mp hd))
            (by rw [List.length_reverse, List.length_reverse, digitsLE_length a ha, digitsLE_length b hb]; exact heq)
          rw [h1, valBE_reverse, valBE_reverse, ofDigitsLE_digitsLE, ofDigitsLE_digitsLE]

end BigDec

namespace BigDec
open Generated

/-! ### ordering of decimals -/

theorem Ordering.rev_rev (o : Ordering) : Ordering.rev (Ordering.rev o) = o := by cases o <;> rfl

theorem compare_rev_nat (a b : Nat) : Ordering.rev (compare a b) = compare b a := by
  rcases lt_trichotomy a b with h | h | h
  · rw [Nat.compare_eq_lt.mpr h, Nat.compare_eq_gt.mpr h]; rfl
  · subst h; simp [Ordering.rev]
  · rw [Nat.compare_eq_gt.mpr h, Nat.compare_eq_lt.mpr h]; rfl

theorem sgnOrd_neg {x : Int} (h : x < 0) : sgnOrd x = 0 := by unfold sgnOrd; rw [if_pos h]
theorem sgnOrd_zero : sgnOrd 0 = 1 := by decide
theorem sgnOrd_pos {x : Int} (h : 0 < x) : sgnOrd x = 2 := by
  unfold sgnOrd; rw [if_neg (by omega), if_neg (by omega)]

/-- integers of different sign classes compare like their classes -/
theorem compare_of_sgn_ne (x y : Int) (h : sgnOrd x ≠ sgnOrd y) : compare x y = compare (sgnOrd x) (sgnOrd y) := by
  rcases lt_trichotomy x 0 with hx | hx | hx <;> rcases lt_trichotomy y 0 with hy | hy | hy
  · rw [sgnOrd_neg hx, sgnOrd_neg hy] at h; exact absurd rfl h
  · subst hy; rw [sgnOrd_neg hx, sgnOrd_zero, compare_lt_iff_lt.mpr hx]; rfl
  · rw [sgnOrd_neg hx, sgnOrd_pos hy, compare_lt_iff_lt.mpr (by omega)]; rfl
  · subst hx; rw [sgnOrd_neg hy, sgnOrd_zero, compare_gt_iff_gt.mpr hy]; rfl
  · subst hx; subst hy; exact absurd rfl h
  · subst hx; rw [sgnOrd_pos hy, sgnOrd_zero, compare_lt_iff_lt.mpr hy]; rfl
  · rw [sgnOrd_pos hx, sgnOrd_neg hy, compare_gt_iff_gt.mpr (by omega)]; rfl
  · subst hy; rw [sgnOrd_pos hx, sgnOrd_zero, compare_gt_iff_gt.mpr hx]; rfl
  · rw [sgnOrd_pos hx, sgnOrd_pos hy] at h; exact absurd rfl h

/-- same sign class, non-zero: compare through the magnitudes -/
theorem compare_same_sign (x y : Int) (hx : x ≠ 0) (hs : sgnOrd x = sgnOrd y) :
    compare x y = (if y < 0 then Ordering.rev (compare x.natAbs y.natAbs) else compare x.natAbs y.natAbs) := by
  unfold sgnOrd at hs
  rcases lt_trichotomy x 0 with hx0 | hx0 | hx0
  · have hy : y < 0 := by
      rw [if_pos hx0] at hs
      by_contra hc; rw [if_neg hc] at hs; split at hs <;> omega
    rw [if_pos hy]
    have e1 : ((x.natAbs : Nat) : Int) = -x := Int.ofNat_natAbs_of_nonpos (le_of_lt hx0)
    have e2 : ((y.natAbs : Nat) : Int) = -y := Int.ofNat_natAbs_of_nonpos (le_of_lt hy)
    rcases lt_trichotomy x y with h | h | h
    · have : y.natAbs < x.natAbs := by omega
      rw [compare_lt_iff_lt.mpr h, Nat.compare_eq_gt.mpr this]; rfl
    · subst h; simp [Ordering.rev]
    · have : x.natAbs < y.natAbs := by omega
      rw [compare_gt_iff_gt.mpr h, Nat.compare_eq_lt.mpr this]; rfl
  · exact absurd hx0 hx
  · have hy : 0 < y := by
      rw [if_neg (by omega), if_neg (by omega)] at hs
      by_contra hc
      split at hs
      · omega
      · split at hs <;> omega
    rw [if_neg (by omega)]
    have e1 : ((x.natAbs : Nat) : Int) = x := Int.natAbs_of_nonneg (le_of_lt hx0)
    have e2 : ((y.natAbs : Nat) : Int) = y := Int.natAbs_of_nonneg (le_of_lt hy)
    rcases lt_trichotomy x y with h | h | h
    · have : x.natAbs < y.natAbs := by omega
      rw [compare_lt_iff_lt.mpr h, Nat.compare_eq_lt.mpr this]
    · subst h; simp
    · have : y.natAbs < x.natAbs := by omega
      rw [compare_gt_iff_gt.mpr h, Nat.compare_eq_gt.mpr this]

theorem alignTo_ne_zero' (d : Dec) (S : Int) (h : d.int ≠ 0) : Spec.alignTo d S ≠ 0 := by
  unfold Spec.alignTo
  exact mul_ne_zero h (by positivity)

theorem sgnOrd_alignTo (d : Dec) (S : Int) : sgnOrd (Spec.alignTo d S) = sgnOrd d.int := by
  unfold Spec.alignTo; exact sgnOrd_mul_pos _ _ (by positivity)

/-- the exact oracle `valueCmp` is the comparison of the rational values -/
theorem valueCmp_eq (x y : Dec) : Spec.valueCmp x y = compare x.value y.value := by
  unfold Spec.valueCmp
  simp only []
  set S := max x.scale y.scale
  have hx := Spec.alignTo_value x S (le_max_left _ _)
  have hy := Spec.alignTo_value y S (le_max_right _ _)
  have hP : (0:ℚ) < (10:ℚ) ^ (-S) := zpow_pos (by norm_num) _
  rw [← hx, ← hy]
  rcases lt_trichotomy (Spec.alignTo x S) (Spec.alignTo y S) with h | h | h
  · rw [compare_lt_iff_lt.mpr h]; symm; rw [compare_lt_iff_lt]
    exact mul_lt_mul_of_pos_right (by exact_mod_cast h) hP
  · rw [h]; simp
  · rw [compare_gt_iff_gt.mpr h]; symm; rw [compare_gt_iff_gt]
    exact mul_lt_mul_of_pos_right (by exact_mod_cast h) hP

theorem natAbs_alignTo (d : Dec) (S : Int) :
    (Spec.alignTo d S).natAbs = d.int.natAbs * 10 ^ (S - d.scale).toNat := by
  unfold Spec.alignTo; rw [Int.natAbs_mul, Int.natAbs_natCast]

theorem lt_pow_of_digits {n d : Nat} (h : numDigits n ≤ d) : n < 10 ^ d :=
  lt_of_lt_of_le (lt_pow_numDigits n) (Nat.pow_le_pow_right (by norm_num) h)

/-- **`cmp` is the numeric order** -/
theorem cmpDec_spec {pre : Nat → Nat} (hp : PreOK pre) (l r : Dec) (hl : Small l) (hr : Small r) :
    cmpDec pre l r = compare l.value r.value := by
  rw [← valueCmp_eq]
  unfold cmpDec Spec.valueCmp
  simp only []
  set S := max l.scale r.scale with hS
  split
  · rename_i hs
    rw [compare_of_sgn_ne _ _ (by rw [sgnOrd_alignTo, sgnOrd_alignTo]; exact hs), sgnOrd_alignTo, sgnOrd_alignTo]
  · rename_i hs
    have hs : sgnOrd l.int = sgnOrd r.int := by simpa using hs
    split
    · rename_i h0
      have hr0 : r.int = 0 := (sgnOrd_eq_one_iff r.int).mp (by rw [← hs]; exact (sgnOrd_eq_one_iff l.int).mpr h0)
      simp [Spec.alignTo, h0, hr0]
    · rename_i h0
      have hr0 : r.int ≠ 0 := by
        intro h; exact h0 ((sgnOrd_eq_one_iff l.int).mp (by rw [hs]; exact (sgnOrd_eq_one_iff r.int).mpr h))
      have hln : l.int.natAbs ≠ 0 := Int.natAbs_ne_zero.mpr h0
      have hrn : r.int.natAbs ≠ 0 := Int.natAbs_ne_zero.mpr hr0
      have hA0 : Spec.alignTo l S ≠ 0 := alignTo_ne_zero' l S h0
      have hsA : sgnOrd (Spec.alignTo l S) = sgnOrd (Spec.alignTo r S) := by
        rw [sgnOrd_alignTo, sgnOrd_alignTo]; exact hs
      have hneg : (Spec.alignTo r S < 0) ↔ (r.int < 0) := by
        unfold Spec.alignTo
        have hPi : (0:Int) < ((10 ^ (S - r.scale).toNat : Nat) : Int) := by positivity
        constructor
        · intro h; by_contra hc
          have : 0 ≤ r.int * ((10 ^ (S - r.scale).toNat : Nat) : Int) := Int.mul_nonneg (by omega) (le_of_lt hPi)
          omega
        · intro h; exact Int.mul_neg_of_neg_of_pos h hPi
      rw [compare_same_sign _ _ hA0 hsA, natAbs_alignTo, natAbs_alignTo]
      have fin : ∀ (o c : Ordering), o = c →
          (if r.int < 0 then Ordering.rev o else o) =
          (if Spec.alignTo r S < 0 then Ordering.rev c else c) := by
        intro o c h; subst h
        by_cases hrneg : r.int < 0
        · rw [if_pos hrneg, if_pos (hneg.mpr hrneg)]
        · rw [if_neg hrneg, if_neg (fun h => hrneg (hneg.mp h))]
      apply fin
      unfold checkedDiff
      rcases lt_trichotomy l.scale r.scale with hlt | heq | hgt
      · have hSr : S = r.scale := max_eq_right (le_of_lt hlt)
        rw [if_pos hlt, hSr]
        have e0 : (r.scale - r.scale).toNat = 0 := by omega
        rw [e0, pow_zero, Nat.mul_one]
        by_cases hfit : r.scale - l.scale < 2 ^ 63
        · rw [if_pos hfit]
          simp only []
          rw [compareScaled_spec hp _ _ _ hrn hln hr.1, compare_rev_nat]
        · rw [if_neg hfit]
          simp only [Ordering.rev]
          symm; rw [Nat.compare_eq_gt]
          have hd : (2:Nat) ^ 63 ≤ (r.scale - l.scale).toNat := by
            have : (2:Int)^63 ≤ ((r.scale - l.scale).toNat : Int) := by omega
            exact_mod_cast this
          have h1 : r.int.natAbs < 10 ^ (r.scale - l.scale).toNat := lt_pow_of_digits (by have := hr.2; omega)
          have h2 : 10 ^ (r.scale - l.scale).toNat ≤ l.int.natAbs * 10 ^ (r.scale - l.scale).toNat :=
            Nat.le_mul_of_pos_left _ (by omega)
          omega
      · have hSl : S = l.scale := by rw [hS, heq]; simp
        rw [if_neg (by omega), if_neg (by omega), hSl]
        have e0 : (l.scale - l.scale).toNat = 0 := by omega
        have e1 : (l.scale - r.scale).toNat = 0 := by omega
        rw [e0, e1, pow_zero, Nat.mul_one, Nat.mul_one]
        simp only []
        rw [compareScaled_spec hp _ _ _ hln hrn hl.1]; simp
      · have hSl : S = l.scale := max_eq_left (le_of_lt hgt)
        rw [if_neg (by omega), if_pos hgt, hSl]
        have e0 : (l.scale - l.scale).toNat = 0 := by omega
        rw [e0, pow_zero, Nat.mul_one]
        by_cases hfit : l.scale - r.scale < 2 ^ 63
        · rw [if_pos hfit]
          simp only []
          rw [compareScaled_spec hp _ _ _ hln hrn hl.1]
        · rw [if_neg hfit]
          simp only [Ordering.rev]
          symm; rw [Nat.compare_eq_lt]
          have hd : (2:Nat) ^ 63 ≤ (l.scale - r.scale).toNat := by
            have : (2:Int)^63 ≤ ((l.scale - r.scale).toNat : Int) := by omega
            exact_mod_cast this
          have h1 : l.int.natAbs < 10 ^ (l.scale - r.scale).toNat := lt_pow_of_digits (by have := hl.2; omega)
          have h2 : 10 ^ (l.scale - r.scale).toNat ≤ r.int.natAbs * 10 ^ (l.scale - r.scale).toNat :=
            Nat.le_mul_of_pos_left _ (by omega)
          omega

end BigDec
