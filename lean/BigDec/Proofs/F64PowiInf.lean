import BigDec.Proofs.F64Powi
/-! `powi(10, k)` overflows to infinity for every `k ≥ 309`. -/
namespace BigDec.F64

theorem mul_inf_left (y : Nat) : mul inf y = inf := by unfold mul; simp
theorem mul_inf_right (x : Nat) : mul x inf = inf := by unfold mul; simp

/-- once the accumulator is infinite it stays infinite -/
theorem powiLoop_acc_inf (fuel a n : Nat) : powiLoop fuel a n inf = inf := by
  induction fuel generalizing a n with
  | zero => rfl
  | succ f ih =>
    unfold powiLoop
    simp only [mul_inf_left, ite_self]
    split
    · rfl
    · exact ih _ _

/-- an infinite base reaches the accumulator at the leading bit of the exponent -/
theorem powiLoop_base_inf (fuel : Nat) : ∀ (n acc : Nat), 0 < n → n < 2 ^ fuel → powiLoop fuel inf n acc = inf := by
  induction fuel with
  | zero => intro n acc h0 h; simp at h; omega
  | succ f ih =>
    intro n acc h0 h
    unfold powiLoop
    simp only [mul_inf_right]
    by_cases hodd : n % 2 = 1
    · have e : (n % 2 == 1) = true := by simpa using hodd
      simp only [e, if_true]
      split
      · rfl
      · exact powiLoop_acc_inf _ _ _
    · have e : (n % 2 == 1) = false := by simpa using hodd
      simp only [e, Bool.false_eq_true, if_false]
      have h2 : 0 < n / 2 := by omega
      have e2 : (n / 2 == 0) = false := by simp; omega
      simp only [e2, Bool.false_eq_true, if_false]
      exact ih (n / 2) acc h2 (by rw [pow_succ] at h; omega)

/-- one round of the loop when the exponent has more bits left -/
theorem powiLoop_step (f a n acc : Nat) (h : 2 ≤ n) :
    powiLoop (f + 1) a n acc = powiLoop f (mul a a) (n / 2) (if n % 2 == 1 then mul acc a else acc) := by
  have e2 : (n / 2 == 0) = false := by simp; omega
  conv => lhs; unfold powiLoop
  simp only [e2, Bool.false_eq_true, if_false]

def sq (a : Nat) : Nat := mul a a

theorem sq9_ten : sq (sq (sq (sq (sq (sq (sq (sq (sq ten)))))))) = inf := by decide +kernel

/-- exponents of at least 512: the ninth squaring of 10 is infinite -/
theorem powi_ge_512 (k : Nat) (h1 : 512 ≤ k) (h2 : k < 2 ^ 64) : powi ten k = inf := by
  unfold powi
  have s : ∀ (f a n acc : Nat), 2 ≤ n → powiLoop (f + 1) a n acc = powiLoop f (sq a) (n / 2) (if n % 2 == 1 then mul acc a else acc) :=
    fun f a n acc h => powiLoop_step f a n acc h
  rw [show (64 : Nat) = 55 + 1 + 1 + 1 + 1 + 1 + 1 + 1 + 1 + 1 by norm_num]
  rw [s _ _ _ _ (by omega), s _ _ _ _ (by omega), s _ _ _ _ (by omega), s _ _ _ _ (by omega), s _ _ _ _ (by omega),
    s _ _ _ _ (by omega), s _ _ _ _ (by omega), s _ _ _ _ (by omega), s _ _ _ _ (by omega)]
  rw [sq9_ten]
  apply powiLoop_base_inf
  · omega
  · omega

/-- exponents 309 … 511: table -/
theorem powi_309_511 : ∀ k, k < 512 → 309 ≤ k → powi ten k = inf := by decide +kernel

/-- **`powi(10, k) = ∞` for every `k ≥ 309`** (below 2^64) -/
theorem powi_ge_309 (k : Nat) (h1 : 309 ≤ k) (h2 : k < 2 ^ 64) : powi ten k = inf := by
  by_cases h : k < 512
  · exact powi_309_511 k h h1
  · exact powi_ge_512 k (by omega) h2

end BigDec.F64
