import BigDec.Proofs.FmtLayout
import BigDec.Proofs.Value
import Mathlib.Tactic.LinearCombination
import Mathlib.Tactic.FieldSimp
/-! `{:.Ne}` / `{:.NE}`: the text reads back as a decimal whose value is the decimal rounded to
    `N+1` significant digits under the configured mode. -/
namespace BigDec
open Fmt Spec Spec.Numeral Generated

theorem q_shift (v : ℚ) (extra R2 : ℕ) :
    v * (10:ℚ) ^ extra * (10:ℚ) ^ (-(extra : ℤ) + (R2 : ℤ)) = v * (10:ℚ) ^ R2 := by
  have h : ((10:ℚ) ^ extra) ≠ 0 := pow_ne_zero _ ten_ne_zero
  rw [zpow_add₀ ten_ne_zero, zpow_neg, zpow_natCast, zpow_natCast]
  field_simp

theorem lowerExp_prec_parse (cfg : Config) (d : Dec) (p : Nat) (eSym : Char) (hes : eSym = 'e' ∨ eSym = 'E')
    (hsc : -(2 ^ 62 : Int) ≤ d.scale ∧ d.scale < 2 ^ 62) (hlen : numDigits d.int.natAbs < 2 ^ 61) (hp : p < 2 ^ 61) :
    ∃ r, specParse (toBytes (lowerExp cfg {precision := some p} d eSym)) = some r ∧
      r.value = (Spec.roundToPrec d (p + 1) cfg.mode).value := by
  obtain ⟨n, hn⟩ : ∃ n, n = d.int.natAbs := ⟨_, rfl⟩
  rw [← hn] at hlen
  have hint : (if decide (d.int < 0) = true then (-1 : Int) else 1) * (n : Int) = d.int := by
    rw [hn]; exact signDec_mul_natAbs d.int
  have hds := digitsBE_lt n
  have hlenD := digitsBE_length n
  have hpos := numDigits_pos n
  have hpad : ∀ (nonneg : Bool) (buf : List Char),
      padIntegral {precision := some p} nonneg buf = (if nonneg then [] else ['-']) ++ buf := by
    intro nonneg buf; unfold padIntegral; cases nonneg <;> simp
  unfold lowerExp
  rw [hpad, toBytes_append, toBytes_sign]
  unfold exponentialText
  simp only [← hn, natStr_length]
  unfold Spec.roundToPrec
  rw [Spec.numDigits_eq_model, ← hn]
  by_cases hlt : p + 1 < numDigits n
  · -- rounding to p+1 significant digits
    rw [if_pos hlt, natStr_eq_digitsBE, roundAscii_eq_roundBE cfg.mode _ _ _ hds]
    simp only
    obtain ⟨hv, hd, hk, hne', hl⟩ := roundBE_spec cfg.mode (decide (d.int < 0)) (digitsBE n) (p + 1) hds
      (by omega) (by rw [hlenD]; exact hlt)
    rw [hlenD] at hv hk hl
    rw [digitsToNat_digitsBE] at hv
    generalize roundBE cfg.mode (decide (d.int < 0)) (digitsBE n) (p + 1) = R at hv hd hk hne' hl ⊢
    obtain ⟨R1, R2⟩ := R
    simp only at hv hd hk hne' hl ⊢
    simp only [List.length_map]
    have hR1 : 1 ≤ R1.length := by cases R1 with | nil => exact absurd rfl hne' | cons _ _ => simp
    have hbound : R1.length + R2 ≤ numDigits n + 1 := by rcases hl with h | ⟨h, h'⟩ <;> omega
    have key := expShape_parse (decide (d.int < 0)) R1 (p + 1 - R1.length) ((R1.length : Int) + (-d.scale + (R2 : Int)) - 1) eSym
      hd hne' hes (by constructor <;> omega) (by constructor <;> omega)
    refine ⟨_, key, ?_⟩
    -- values
    unfold Spec.roundToScale
    simp only [← hn]
    have hns : ¬ (d.scale + (((p + 1 : Nat) : Int) - (numDigits n : Int)) ≥ d.scale) := by omega
    rw [if_neg hns]
    have hk2 : (d.scale - (d.scale + (((p + 1 : Nat) : Int) - (numDigits n : Int)))).toNat = numDigits n - (p + 1) := by omega
    rw [hk2, sgn_eq]
    simp only [Dec.value_mk]
    have hvq : ((digitsToNat R1 : ℚ)) * (10:ℚ) ^ (R2 : ℤ) =
        ((roundNat cfg.mode (decide (d.int < 0)) n (numDigits n - (p + 1)) : Nat) : ℚ) * (10:ℚ) ^ ((numDigits n - (p + 1) : Nat) : ℤ) := by
      have := congrArg (fun x : Nat => (x : ℚ)) hv
      simp only [Nat.cast_mul, Nat.cast_pow, Nat.cast_ofNat] at this
      rw [zpow_natCast, zpow_natCast]; exact this
    have e1 : -(((R1.length - 1 + (p + 1 - R1.length) : Nat) : Int) - ((R1.length : Int) + (-d.scale + (R2 : Int)) - 1))
        = -((p + 1 - R1.length : Nat) : Int) + ((R2 : Int) + -d.scale) := by omega
    have e2 : -(d.scale + (((p + 1 : Nat) : Int) - (numDigits n : Int))) = ((numDigits n - (p + 1) : Nat) : Int) + -d.scale := by omega
    rw [e1, e2]
    rw [show (-(((p + 1 - R1.length : Nat) : Int)) + ((R2 : Int) + -d.scale)) = (-(((p + 1 - R1.length : Nat) : Int)) + (R2 : Int)) + -d.scale by ring,
      zpow_add₀ ten_ne_zero, zpow_add₀ ten_ne_zero (((numDigits n - (p + 1) : Nat) : Int))]
    have q := q_shift (digitsToNat R1 : ℚ) (p + 1 - R1.length) R2
    have hvq' := hvq
    rw [zpow_natCast, zpow_natCast] at hvq'
    rw [zpow_natCast]
    push_cast
    linear_combination ((if decide (d.int < 0) = true then (-1 : ℚ) else 1) * (10:ℚ) ^ (-d.scale)) * q +
      ((if decide (d.int < 0) = true then (-1 : ℚ) else 1) * (10:ℚ) ^ (-d.scale)) * hvq'
  · -- fewer digits than requested: zero padding, exact
    rw [if_neg hlt, natStr_eq_digitsBE]
    simp only [List.length_map, hlenD]
    have key := expShape_parse (decide (d.int < 0)) (digitsBE n) (p + 1 - numDigits n) ((numDigits n : Int) + -d.scale - 1) eSym
      hds (digitsBE_ne_nil n) hes (by rw [] ; constructor <;> omega) (by rw [hlenD]; constructor <;> omega)
    rw [hlenD, digitsToNat_digitsBE] at key
    refine ⟨_, key, ?_⟩
    unfold Spec.roundToScale
    simp only [← hn]
    have hns : (d.scale + (((p + 1 : Nat) : Int) - (numDigits n : Int)) ≥ d.scale) := by omega
    rw [if_pos hns]
    have hk2 : (d.scale + (((p + 1 : Nat) : Int) - (numDigits n : Int)) - d.scale).toNat = p + 1 - numDigits n := by omega
    rw [hk2]
    have hsc2 : ((numDigits n - 1 + (p + 1 - numDigits n) : Nat) : Int) - ((numDigits n : Int) + -d.scale - 1)
        = d.scale + (((p + 1 : Nat) : Int) - (numDigits n : Int)) := by omega
    rw [hsc2, Nat.cast_mul, ← mul_assoc, hint]

end BigDec
