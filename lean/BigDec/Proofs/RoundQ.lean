import BigDec.Spec.Round
import Mathlib.Data.Rat.Floor
import Mathlib.Algebra.Order.Floor.Ring
import Mathlib.Tactic.Ring
import Mathlib.Tactic.Linarith
import Mathlib.Tactic.Positivity
import Mathlib.Tactic.FieldSimp
/-! What the declarative rounding `Spec.roundNat` means over ℚ: each mode is the textbook function
    (floor, ceiling, truncation, round-half-…) of the exact quotient. -/
namespace BigDec.Spec
open BigDec

/-- the exact quotient as kept part plus a fraction in `[0, 1)`, with the tail tests in ℚ -/
theorem quot_frac (n k : Nat) :
    ∃ t : ℚ, (n : ℚ) / (10 : ℚ) ^ k = ((n / 10 ^ k : Nat) : ℚ) + t ∧ 0 ≤ t ∧ t < 1 ∧
      (n % 10 ^ k = 0 ↔ t = 0) ∧ (10 ^ k ≤ 2 * (n % 10 ^ k) ↔ 1 / 2 ≤ t) ∧ (10 ^ k < 2 * (n % 10 ^ k) ↔ 1 / 2 < t) ∧
      (2 * (n % 10 ^ k) = 10 ^ k ↔ t = 1 / 2) := by
  have hM : 0 < 10 ^ k := by positivity
  have hMq : (0 : ℚ) < (10 : ℚ) ^ k := by positivity
  refine ⟨((n % 10 ^ k : Nat) : ℚ) / (10 : ℚ) ^ k, ?_, ?_, ?_, ?_, ?_, ?_, ?_⟩
  · have h := Nat.div_add_mod n (10 ^ k)
    have hq : (n : ℚ) = ((10 ^ k : Nat) : ℚ) * ((n / 10 ^ k : Nat) : ℚ) + ((n % 10 ^ k : Nat) : ℚ) := by exact_mod_cast h.symm
    rw [hq]; push_cast; field_simp
  · positivity
  · rw [div_lt_one hMq]; exact_mod_cast Nat.mod_lt n hM
  · rw [div_eq_zero_iff]
    constructor
    · intro h; left; exact_mod_cast h
    · rintro (h | h)
      · exact_mod_cast h
      · exact absurd h hMq.ne'
  · rw [le_div_iff₀ hMq]
    constructor
    · intro h
      have : ((10 ^ k : Nat) : ℚ) ≤ ((2 * (n % 10 ^ k) : Nat) : ℚ) := by exact_mod_cast h
      push_cast at this; linarith
    · intro h
      have : ((10 ^ k : Nat) : ℚ) ≤ ((2 * (n % 10 ^ k) : Nat) : ℚ) := by push_cast; linarith
      exact_mod_cast this
  · rw [lt_div_iff₀ hMq]
    constructor
    · intro h
      have : ((10 ^ k : Nat) : ℚ) < ((2 * (n % 10 ^ k) : Nat) : ℚ) := by exact_mod_cast h
      push_cast at this; linarith
    · intro h
      have : ((10 ^ k : Nat) : ℚ) < ((2 * (n % 10 ^ k) : Nat) : ℚ) := by push_cast; linarith
      exact_mod_cast this
  · rw [div_eq_iff hMq.ne']
    constructor
    · intro h
      have : ((2 * (n % 10 ^ k) : Nat) : ℚ) = ((10 ^ k : Nat) : ℚ) := by exact_mod_cast h
      push_cast at this; linarith
    · intro h
      have : ((2 * (n % 10 ^ k) : Nat) : ℚ) = ((10 ^ k : Nat) : ℚ) := by push_cast; linarith
      exact_mod_cast this

/-- `Down` on a magnitude is the floor -/
theorem roundNat_down (neg : Bool) (n k : Nat) :
    ((roundNat .Down neg n k : Nat) : ℚ) ≤ (n : ℚ) / (10 : ℚ) ^ k ∧ (n : ℚ) / (10 : ℚ) ^ k < (roundNat .Down neg n k : Nat) + 1 := by
  obtain ⟨t, hx, h0, h1, _⟩ := quot_frac n k
  simp only [roundNat, roundUpM, Bool.false_eq_true, if_false, Nat.add_zero]
  rw [hx]; constructor <;> linarith

/-- `Up` on a magnitude is the ceiling -/
theorem roundNat_up (neg : Bool) (n k : Nat) :
    ((roundNat .Up neg n k : Nat) : ℚ) - 1 < (n : ℚ) / (10 : ℚ) ^ k ∧ (n : ℚ) / (10 : ℚ) ^ k ≤ (roundNat .Up neg n k : Nat) := by
  obtain ⟨t, hx, h0, h1, hz, _⟩ := quot_frac n k
  simp only [roundNat, roundUpM]
  rw [hx]
  by_cases hr : n % 10 ^ k = 0
  · have ht := hz.mp hr
    simp only [hr, bne_self_eq_false, Bool.false_eq_true, if_false, Nat.add_zero]
    rw [ht]; constructor <;> linarith
  · have ht : t ≠ 0 := fun h => hr (hz.mpr h)
    have htpos : 0 < t := lt_of_le_of_ne h0 (Ne.symm ht)
    have : (n % 10 ^ k != 0) = true := by simpa using hr
    simp only [this, if_true]
    push_cast; constructor <;> linarith

/-- `HalfUp` on a magnitude: nearest, ties up -/
theorem roundNat_halfUp (neg : Bool) (n k : Nat) :
    ((roundNat .HalfUp neg n k : Nat) : ℚ) - 1 / 2 ≤ (n : ℚ) / (10 : ℚ) ^ k ∧
    (n : ℚ) / (10 : ℚ) ^ k < (roundNat .HalfUp neg n k : Nat) + 1 / 2 := by
  obtain ⟨t, hx, h0, h1, _, hge, _, _⟩ := quot_frac n k
  simp only [roundNat, roundUpM]
  rw [hx]
  by_cases hc : 10 ^ k ≤ 2 * (n % 10 ^ k)
  · have ht := hge.mp hc
    have : decide (2 * (n % 10 ^ k) ≥ 10 ^ k) = true := by simpa using hc
    simp only [this, if_true]
    push_cast; constructor <;> linarith
  · have ht : ¬ (1 / 2 ≤ t) := fun h => hc (hge.mpr h)
    have : decide (2 * (n % 10 ^ k) ≥ 10 ^ k) = false := by simpa using hc
    simp only [this, Bool.false_eq_true, if_false, Nat.add_zero]
    push Not at ht
    constructor <;> linarith

/-- `HalfDown` on a magnitude: nearest, ties down -/
theorem roundNat_halfDown (neg : Bool) (n k : Nat) :
    ((roundNat .HalfDown neg n k : Nat) : ℚ) - 1 / 2 < (n : ℚ) / (10 : ℚ) ^ k ∧
    (n : ℚ) / (10 : ℚ) ^ k ≤ (roundNat .HalfDown neg n k : Nat) + 1 / 2 := by
  obtain ⟨t, hx, h0, h1, _, _, hgt, _⟩ := quot_frac n k
  simp only [roundNat, roundUpM]
  rw [hx]
  by_cases hc : 10 ^ k < 2 * (n % 10 ^ k)
  · have ht := hgt.mp hc
    have : decide (2 * (n % 10 ^ k) > 10 ^ k) = true := by simpa using hc
    simp only [this, if_true]
    push_cast; constructor <;> linarith
  · have ht : ¬ (1 / 2 < t) := fun h => hc (hgt.mpr h)
    have : decide (2 * (n % 10 ^ k) > 10 ^ k) = false := by simpa using hc
    simp only [this, Bool.false_eq_true, if_false, Nat.add_zero]
    push Not at ht
    constructor <;> linarith

/-- `HalfEven` on a magnitude: nearest, and at a tie the even neighbour -/
theorem roundNat_halfEven (neg : Bool) (n k : Nat) :
    ((roundNat .HalfEven neg n k : Nat) : ℚ) - 1 / 2 ≤ (n : ℚ) / (10 : ℚ) ^ k ∧
    (n : ℚ) / (10 : ℚ) ^ k ≤ (roundNat .HalfEven neg n k : Nat) + 1 / 2 ∧
    (((n : ℚ) / (10 : ℚ) ^ k = (roundNat .HalfEven neg n k : Nat) - 1 / 2 ∨
      (n : ℚ) / (10 : ℚ) ^ k = (roundNat .HalfEven neg n k : Nat) + 1 / 2) → roundNat .HalfEven neg n k % 2 = 0) := by
  obtain ⟨t, hx, h0, h1, _, _, hgt, heq⟩ := quot_frac n k
  simp only [roundNat, roundUpM]
  rw [hx]
  by_cases hc : 10 ^ k < 2 * (n % 10 ^ k)
  · have ht := hgt.mp hc
    have : decide (2 * (n % 10 ^ k) > 10 ^ k) = true := by simpa using hc
    simp only [this, Bool.true_or, if_true]
    push_cast
    refine ⟨by linarith, by linarith, ?_⟩
    rintro (h | h) <;> exfalso <;> linarith
  · have ht : ¬ (1 / 2 < t) := fun h => hc (hgt.mpr h)
    push Not at ht
    have e1 : decide (2 * (n % 10 ^ k) > 10 ^ k) = false := by simpa using hc
    simp only [e1, Bool.false_or]
    by_cases htie : 2 * (n % 10 ^ k) = 10 ^ k
    · have ht2 := heq.mp htie
      have e2 : (2 * (n % 10 ^ k) == 10 ^ k) = true := by simpa using htie
      simp only [e2, Bool.true_and]
      by_cases hodd : n / 10 ^ k % 2 = 1
      · have e3 : (n / 10 ^ k % 2 == 1) = true := by simpa using hodd
        simp only [e3, if_true]
        push_cast
        refine ⟨by linarith, by linarith, fun _ => by omega⟩
      · have e3 : (n / 10 ^ k % 2 == 1) = false := by simpa using hodd
        simp only [e3, Bool.false_eq_true, if_false, Nat.add_zero]
        refine ⟨by linarith, by linarith, fun _ => by omega⟩
    · have ht2 : t ≠ 1 / 2 := fun h => htie (heq.mpr h)
      have e2 : (2 * (n % 10 ^ k) == 10 ^ k) = false := by simpa using htie
      simp only [e2, Bool.false_and, Bool.false_eq_true, if_false, Nat.add_zero]
      have hlt : t < 1 / 2 := lt_of_le_of_ne ht ht2
      refine ⟨by linarith, by linarith, ?_⟩
      rintro (h | h) <;> exfalso <;> linarith

/-- `Ceiling` / `Floor` on a magnitude: away from zero for the sign they favour, truncation otherwise -/
theorem roundNat_ceiling (neg : Bool) (n k : Nat) :
    (neg = false → ((roundNat .Ceiling neg n k : Nat) : ℚ) - 1 < (n : ℚ) / (10 : ℚ) ^ k ∧ (n : ℚ) / (10 : ℚ) ^ k ≤ (roundNat .Ceiling neg n k : Nat)) ∧
    (neg = true → ((roundNat .Ceiling neg n k : Nat) : ℚ) ≤ (n : ℚ) / (10 : ℚ) ^ k ∧ (n : ℚ) / (10 : ℚ) ^ k < (roundNat .Ceiling neg n k : Nat) + 1) := by
  constructor
  · intro h; subst h
    have := roundNat_up false n k
    simpa [roundNat, roundUpM] using this
  · intro h; subst h
    have := roundNat_down true n k
    simpa [roundNat, roundUpM] using this

theorem roundNat_floor (neg : Bool) (n k : Nat) :
    (neg = true → ((roundNat .Floor neg n k : Nat) : ℚ) - 1 < (n : ℚ) / (10 : ℚ) ^ k ∧ (n : ℚ) / (10 : ℚ) ^ k ≤ (roundNat .Floor neg n k : Nat)) ∧
    (neg = false → ((roundNat .Floor neg n k : Nat) : ℚ) ≤ (n : ℚ) / (10 : ℚ) ^ k ∧ (n : ℚ) / (10 : ℚ) ^ k < (roundNat .Floor neg n k : Nat) + 1) := by
  constructor
  · intro h; subst h
    have := roundNat_up true n k
    simpa [roundNat, roundUpM] using this
  · intro h; subst h
    have := roundNat_down false n k
    simpa [roundNat, roundUpM] using this

/-- the signed quotient in terms of the magnitude -/
theorem signed_split (i : Int) (k : Nat) :
    (0 ≤ i → sgn i = 1 ∧ decide (i < 0) = false ∧ (i : ℚ) / (10 : ℚ) ^ k = (i.natAbs : ℚ) / (10 : ℚ) ^ k) ∧
    (i < 0 → sgn i = -1 ∧ decide (i < 0) = true ∧ (i : ℚ) / (10 : ℚ) ^ k = -((i.natAbs : ℚ) / (10 : ℚ) ^ k)) := by
  constructor
  · intro h
    refine ⟨by unfold sgn; rw [if_neg (by omega)], by simpa using h, ?_⟩
    have : (i : ℚ) = ((i.natAbs : Nat) : ℚ) := by
      rw [← Int.cast_natCast, Int.natAbs_of_nonneg h]
    rw [this]
  · intro h
    refine ⟨by unfold sgn; rw [if_pos h], by simpa using h, ?_⟩
    have : (i : ℚ) = -((i.natAbs : Nat) : ℚ) := by
      rw [← Int.cast_natCast, Int.ofNat_natAbs_of_nonpos (by omega)]; simp
    rw [this, neg_div]

/-- **`Floor` is the floor of the exact quotient** -/
theorem round_floor (i : Int) (k : Nat) :
    sgn i * ((roundNat .Floor (decide (i < 0)) i.natAbs k : Nat) : Int) = ⌊(i : ℚ) / (10 : ℚ) ^ k⌋ := by
  obtain ⟨hp, hn⟩ := signed_split i k
  by_cases h : 0 ≤ i
  · obtain ⟨hs, hd, hv⟩ := hp h
    rw [hs, hd, hv, one_mul, eq_comm, Int.floor_eq_iff]
    have := (roundNat_floor false i.natAbs k).2 rfl
    push_cast; exact this
  · obtain ⟨hs, hd, hv⟩ := hn (by omega)
    rw [hs, hd, hv, eq_comm, Int.floor_eq_iff]
    have := (roundNat_floor true i.natAbs k).1 rfl
    push_cast; constructor <;> linarith [this.1, this.2]

/-- **`Ceiling` is the ceiling of the exact quotient** -/
theorem round_ceiling (i : Int) (k : Nat) :
    sgn i * ((roundNat .Ceiling (decide (i < 0)) i.natAbs k : Nat) : Int) = ⌈(i : ℚ) / (10 : ℚ) ^ k⌉ := by
  obtain ⟨hp, hn⟩ := signed_split i k
  by_cases h : 0 ≤ i
  · obtain ⟨hs, hd, hv⟩ := hp h
    rw [hs, hd, hv, one_mul, eq_comm, Int.ceil_eq_iff]
    have := (roundNat_ceiling false i.natAbs k).1 rfl
    push_cast; exact this
  · obtain ⟨hs, hd, hv⟩ := hn (by omega)
    rw [hs, hd, hv, eq_comm, Int.ceil_eq_iff]
    have := (roundNat_ceiling true i.natAbs k).2 rfl
    push_cast; constructor <;> linarith [this.1, this.2]

/-- **`Down` truncates toward zero** -/
theorem round_down (i : Int) (k : Nat) :
    sgn i * ((roundNat .Down (decide (i < 0)) i.natAbs k : Nat) : Int) =
      if 0 ≤ i then ⌊(i : ℚ) / (10 : ℚ) ^ k⌋ else ⌈(i : ℚ) / (10 : ℚ) ^ k⌉ := by
  obtain ⟨hp, hn⟩ := signed_split i k
  by_cases h : 0 ≤ i
  · obtain ⟨hs, hd, hv⟩ := hp h
    rw [if_pos h, hs, hv, one_mul, eq_comm, Int.floor_eq_iff]
    have := roundNat_down (decide (i < 0)) i.natAbs k
    push_cast; exact this
  · obtain ⟨hs, hd, hv⟩ := hn (by omega)
    rw [if_neg h, hs, hv, eq_comm, Int.ceil_eq_iff]
    have := roundNat_down (decide (i < 0)) i.natAbs k
    push_cast; constructor <;> linarith [this.1, this.2]

/-- **`Up` rounds away from zero** -/
theorem round_up (i : Int) (k : Nat) :
    sgn i * ((roundNat .Up (decide (i < 0)) i.natAbs k : Nat) : Int) =
      if 0 ≤ i then ⌈(i : ℚ) / (10 : ℚ) ^ k⌉ else ⌊(i : ℚ) / (10 : ℚ) ^ k⌋ := by
  obtain ⟨hp, hn⟩ := signed_split i k
  by_cases h : 0 ≤ i
  · obtain ⟨hs, hd, hv⟩ := hp h
    rw [if_pos h, hs, hv, one_mul, eq_comm, Int.ceil_eq_iff]
    have := roundNat_up (decide (i < 0)) i.natAbs k
    push_cast; exact this
  · obtain ⟨hs, hd, hv⟩ := hn (by omega)
    rw [if_neg h, hs, hv, eq_comm, Int.floor_eq_iff]
    have := roundNat_up (decide (i < 0)) i.natAbs k
    push_cast; constructor <;> linarith [this.1, this.2]

/-- **`HalfUp` is round-half-away-from-zero** -/
theorem round_halfUp (i : Int) (k : Nat) :
    sgn i * ((roundNat .HalfUp (decide (i < 0)) i.natAbs k : Nat) : Int) =
      if 0 ≤ i then ⌊(i : ℚ) / (10 : ℚ) ^ k + 1 / 2⌋ else ⌈(i : ℚ) / (10 : ℚ) ^ k - 1 / 2⌉ := by
  obtain ⟨hp, hn⟩ := signed_split i k
  by_cases h : 0 ≤ i
  · obtain ⟨hs, hd, hv⟩ := hp h
    rw [if_pos h, hs, hv, one_mul, eq_comm, Int.floor_eq_iff]
    have := roundNat_halfUp (decide (i < 0)) i.natAbs k
    push_cast; constructor <;> linarith [this.1, this.2]
  · obtain ⟨hs, hd, hv⟩ := hn (by omega)
    rw [if_neg h, hs, hv, eq_comm, Int.ceil_eq_iff]
    have := roundNat_halfUp (decide (i < 0)) i.natAbs k
    push_cast; constructor <;> linarith [this.1, this.2]

/-- **`HalfDown` is round-half-toward-zero** -/
theorem round_halfDown (i : Int) (k : Nat) :
    sgn i * ((roundNat .HalfDown (decide (i < 0)) i.natAbs k : Nat) : Int) =
      if 0 ≤ i then ⌈(i : ℚ) / (10 : ℚ) ^ k - 1 / 2⌉ else ⌊(i : ℚ) / (10 : ℚ) ^ k + 1 / 2⌋ := by
  obtain ⟨hp, hn⟩ := signed_split i k
  by_cases h : 0 ≤ i
  · obtain ⟨hs, hd, hv⟩ := hp h
    rw [if_pos h, hs, hv, one_mul, eq_comm, Int.ceil_eq_iff]
    have := roundNat_halfDown (decide (i < 0)) i.natAbs k
    push_cast; constructor <;> linarith [this.1, this.2]
  · obtain ⟨hs, hd, hv⟩ := hn (by omega)
    rw [if_neg h, hs, hv, eq_comm, Int.floor_eq_iff]
    have := roundNat_halfDown (decide (i < 0)) i.natAbs k
    push_cast; constructor <;> linarith [this.1, this.2]

/-- **`HalfEven` is round-half-to-even**: a nearest integer, and at a tie the even one -/
theorem round_halfEven (i : Int) (k : Nat) :
    |((sgn i * ((roundNat .HalfEven (decide (i < 0)) i.natAbs k : Nat) : Int) : Int) : ℚ) - (i : ℚ) / (10 : ℚ) ^ k| ≤ 1 / 2 ∧
    (|((sgn i * ((roundNat .HalfEven (decide (i < 0)) i.natAbs k : Nat) : Int) : Int) : ℚ) - (i : ℚ) / (10 : ℚ) ^ k| = 1 / 2 →
      (sgn i * ((roundNat .HalfEven (decide (i < 0)) i.natAbs k : Nat) : Int)) % 2 = 0) := by
  obtain ⟨hp, hn⟩ := signed_split i k
  obtain ⟨h1, h2, h3⟩ := roundNat_halfEven (decide (i < 0)) i.natAbs k
  generalize hR : roundNat .HalfEven (decide (i < 0)) i.natAbs k = R at h1 h2 h3 ⊢
  by_cases h : 0 ≤ i
  · obtain ⟨hs, hd, hv⟩ := hp h
    rw [hs, hv, one_mul]
    push_cast
    constructor
    · rw [abs_le]; constructor <;> linarith
    · intro habs
      have : (i.natAbs : ℚ) / (10 : ℚ) ^ k = (R : ℚ) - 1 / 2 ∨ (i.natAbs : ℚ) / (10 : ℚ) ^ k = (R : ℚ) + 1 / 2 := by
        rcases abs_eq (by norm_num : (0 : ℚ) ≤ 1 / 2) |>.mp habs with h' | h'
        · left; linarith
        · right; linarith
      have := h3 this
      omega
  · obtain ⟨hs, hd, hv⟩ := hn (by omega)
    rw [hs, hv]
    push_cast
    constructor
    · rw [abs_le]; constructor <;> linarith
    · intro habs
      have : (i.natAbs : ℚ) / (10 : ℚ) ^ k = (R : ℚ) - 1 / 2 ∨ (i.natAbs : ℚ) / (10 : ℚ) ^ k = (R : ℚ) + 1 / 2 := by
        rcases abs_eq (by norm_num : (0 : ℚ) ≤ 1 / 2) |>.mp habs with h' | h'
        · right; linarith
        · left; linarith
      have := h3 this
      omega

end BigDec.Spec
