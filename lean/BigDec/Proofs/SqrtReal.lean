import BigDec.Spec.Round
import BigDec.Proofs.RoundQ
import Mathlib.Analysis.SpecialFunctions.Sqrt
/-! The real-number reading of the square-root rounding: the sticky-extended floor root `10·⌊√D⌋ + 1`
    and the real number `10·√D` lie strictly inside the same interval between consecutive multiples
    of ten, hence every rounding decision at a position at least two digits to the left is the same. -/
namespace BigDec.Spec
open BigDec

/-- for a non-square `D`: `⌊√D⌋ < √D < ⌊√D⌋ + 1` over the reals -/
theorem real_sqrt_between (D : Nat) (hns : Nat.sqrt D * Nat.sqrt D ≠ D) :
    (Nat.sqrt D : ℝ) < Real.sqrt D ∧ Real.sqrt D < (Nat.sqrt D : ℝ) + 1 := by
  have h1 : Nat.sqrt D * Nat.sqrt D ≤ D := Nat.sqrt_le D
  have h2 : D < (Nat.sqrt D + 1) * (Nat.sqrt D + 1) := Nat.lt_succ_sqrt D
  have h1' : Nat.sqrt D * Nat.sqrt D < D := lt_of_le_of_ne h1 hns
  constructor
  · rw [Real.lt_sqrt (by positivity)]
    have : ((Nat.sqrt D * Nat.sqrt D : Nat) : ℝ) < (D : ℝ) := by exact_mod_cast h1'
    push_cast at this; nlinarith
  · rw [Real.sqrt_lt' (by positivity)]
    have : (D : ℝ) < (((Nat.sqrt D + 1) * (Nat.sqrt D + 1) : Nat) : ℝ) := by exact_mod_cast h2
    push_cast at this; nlinarith

/-- the cell of width `10^k` (`k ≥ 2`) around `10R`: its ends and its midpoint are multiples of ten, so
    none of them lies strictly between `10R` and `10R + 10` -/
theorem cell_facts (R k : Nat) (hk : 2 ≤ k) :
    (10 * R + 1) / 10 ^ k * 10 ^ k ≤ 10 * R ∧ 10 * R + 10 ≤ ((10 * R + 1) / 10 ^ k + 1) * 10 ^ k ∧
    (10 * R + 1) % 10 ^ k = 10 * R + 1 - (10 * R + 1) / 10 ^ k * 10 ^ k ∧
    ((10 * R + 1) / 10 ^ k * 10 ^ k + 5 * 10 ^ (k - 1) ≤ 10 * R ∨ 10 * R + 10 ≤ (10 * R + 1) / 10 ^ k * 10 ^ k + 5 * 10 ^ (k - 1)) := by
  obtain ⟨j, rfl⟩ : ∃ j, k = j + 2 := ⟨k - 2, by omega⟩
  have hP : (10 : Nat) ^ (j + 2) = 100 * 10 ^ j := by rw [pow_add]; ring
  have hP1 : (10 : Nat) ^ (j + 2 - 1) = 10 * 10 ^ j := by
    rw [show j + 2 - 1 = j + 1 by omega, pow_succ]; ring
  rw [hP, hP1]
  have hpos : 0 < 10 ^ j := by positivity
  generalize (10 : Nat) ^ j = Q at hpos
  have hd := Nat.div_add_mod (10 * R + 1) (100 * Q)
  have hm := Nat.mod_lt (10 * R + 1) (show 0 < 100 * Q by omega)
  generalize (10 * R + 1) / (100 * Q) = q at hd
  generalize hrr : (10 * R + 1) % (100 * Q) = t at hd hm
  have e : q * (100 * Q) = 100 * Q * q := Nat.mul_comm _ _
  rw [e]
  have e2 : (q + 1) * (100 * Q) = 100 * Q * q + 100 * Q := by ring
  rw [e2]
  have hA10 : (100 * Q * q) % 10 = 0 := by
    have : 100 * Q * q = 10 * (10 * Q * q) := by ring
    rw [this]; exact Nat.mul_mod_right 10 _
  generalize 100 * Q * q = A at hd hA10
  -- t ≡ 1 (mod 10) : t = 10ρ + 1
  have ht10 : t % 10 = 1 := by omega
  refine ⟨by omega, by omega, by omega, ?_⟩
  -- midpoint A + 50 Q against 10R = A + t - 1
  by_cases hc : 50 * Q ≤ t
  · left
    -- t ≥ 50Q and t ≡ 1 mod 10, 50Q ≡ 0 mod 10 → t ≥ 50Q + 1
    have : (50 * Q) % 10 = 0 := by
      have : 50 * Q = 10 * (5 * Q) := by ring
      rw [this]; exact Nat.mul_mod_right 10 _
    omega
  · right
    have : (50 * Q) % 10 = 0 := by
      have : 50 * Q = 10 * (5 * Q) := by ring
      rw [this]; exact Nat.mul_mod_right 10 _
    omega

/-- what each mode returns on the real number `y` -/
noncomputable def realRound (m : Mode) (y : ℝ) : Int :=
  match m with
  | .Down => ⌊y⌋
  | .Floor => ⌊y⌋
  | .Up => ⌈y⌉
  | .Ceiling => ⌈y⌉
  | .HalfUp => ⌊y + 1 / 2⌋
  | .HalfDown => ⌊y + 1 / 2⌋
  | .HalfEven => ⌊y + 1 / 2⌋

/-- **the sticky digit decides like the real root**: for any real `Y` strictly between `10R` and
    `10R + 10`, rounding the integer `10R + 1` at a position `k ≥ 2` gives, under every mode, the
    rounding of the (positive) real number `Y / 10^k`; `Y / 10^k` is never a tie -/
theorem sticky_round_real (m : Mode) (R k : Nat) (hk : 2 ≤ k) (Y : ℝ)
    (h1 : (10 * R : ℝ) < Y) (h2 : Y < 10 * R + 10) :
    ((roundNat m false (10 * R + 1) k : Nat) : Int) = realRound m (Y / (10 : ℝ) ^ k) := by
  obtain ⟨c1, c2, c3, c4⟩ := cell_facts R k hk
  have hM : (0 : ℝ) < (10 : ℝ) ^ k := by positivity
  have hMn : 0 < 10 ^ k := by positivity
  have hk1 : (10 : Nat) ^ k = 10 * 10 ^ (k - 1) := by
    rw [show k = (k - 1) + 1 by omega, pow_succ]; simp; ring
  generalize hq : (10 * R + 1) / 10 ^ k = q at c1 c2 c3 c4
  generalize ht : (10 * R + 1) % 10 ^ k = t at c3
  -- real bounds: q·M < Y < (q+1)·M
  have r1 : (q : ℝ) * (10 : ℝ) ^ k < Y := by
    have : ((q * 10 ^ k : Nat) : ℝ) ≤ ((10 * R : Nat) : ℝ) := by exact_mod_cast c1
    push_cast at this; linarith
  have r2 : Y < ((q : ℝ) + 1) * (10 : ℝ) ^ k := by
    have : ((10 * R + 10 : Nat) : ℝ) ≤ (((q + 1) * 10 ^ k : Nat) : ℝ) := by exact_mod_cast c2
    push_cast at this; linarith
  have f1 : (q : ℝ) < Y / (10 : ℝ) ^ k := by rw [lt_div_iff₀ hM]; exact r1
  have f2 : Y / (10 : ℝ) ^ k < (q : ℝ) + 1 := by rw [div_lt_iff₀ hM]; exact r2
  have hfloor : ⌊Y / (10 : ℝ) ^ k⌋ = (q : Int) := by
    rw [Int.floor_eq_iff]; push_cast; exact ⟨f1.le, f2⟩
  have hceil : ⌈Y / (10 : ℝ) ^ k⌉ = (q : Int) + 1 := by
    rw [Int.ceil_eq_iff]; push_cast; constructor <;> linarith
  have htne : t ≠ 0 := by omega
  -- the half point
  have hhalf : ⌊Y / (10 : ℝ) ^ k + 1 / 2⌋ = (if 10 ^ k ≤ 2 * t then (q : Int) + 1 else q) ∧ (2 * t ≠ 10 ^ k) := by
    rcases c4 with hlow | hhigh
    · -- midpoint ≤ 10R < Y
      have hY : (q : ℝ) * (10 : ℝ) ^ k + 5 * (10 : ℝ) ^ (k - 1) < Y := by
        have : ((q * 10 ^ k + 5 * 10 ^ (k - 1) : Nat) : ℝ) ≤ ((10 * R : Nat) : ℝ) := by exact_mod_cast hlow
        push_cast at this; linarith
      have hMk : (10 : ℝ) ^ k = 10 * (10 : ℝ) ^ (k - 1) := by exact_mod_cast hk1
      have hgt : (q : ℝ) + 1 / 2 < Y / (10 : ℝ) ^ k := by
        rw [lt_div_iff₀ hM]
        have : ((q : ℝ) + 1 / 2) * (10 : ℝ) ^ k = (q : ℝ) * (10 : ℝ) ^ k + 5 * (10 : ℝ) ^ (k - 1) := by rw [hMk]; ring
        linarith
      have hcond : 10 ^ k ≤ 2 * t := by omega
      refine ⟨?_, by omega⟩
      rw [if_pos hcond, Int.floor_eq_iff]; push_cast; constructor <;> linarith
    · have hY : Y < (q : ℝ) * (10 : ℝ) ^ k + 5 * (10 : ℝ) ^ (k - 1) := by
        have : ((10 * R + 10 : Nat) : ℝ) ≤ ((q * 10 ^ k + 5 * 10 ^ (k - 1) : Nat) : ℝ) := by exact_mod_cast hhigh
        push_cast at this; linarith
      have hMk : (10 : ℝ) ^ k = 10 * (10 : ℝ) ^ (k - 1) := by exact_mod_cast hk1
      have hlt : Y / (10 : ℝ) ^ k < (q : ℝ) + 1 / 2 := by
        rw [div_lt_iff₀ hM]
        have : ((q : ℝ) + 1 / 2) * (10 : ℝ) ^ k = (q : ℝ) * (10 : ℝ) ^ k + 5 * (10 : ℝ) ^ (k - 1) := by rw [hMk]; ring
        linarith
      have hcond : ¬ (10 ^ k ≤ 2 * t) := by omega
      refine ⟨?_, by omega⟩
      rw [if_neg hcond, Int.floor_eq_iff]; push_cast; constructor <;> linarith
  obtain ⟨hh, hnt⟩ := hhalf
  cases m <;> simp only [realRound, roundNat, roundUpM, hq, ht]
  · -- Up
    have : (t != 0) = true := by simpa using htne
    simp only [this, if_true]; rw [hceil]; push_cast; rfl
  · -- Down
    simp only [Bool.false_eq_true, if_false, Nat.add_zero]; exact hfloor.symm
  · -- Ceiling
    have : (t != 0 && !false) = true := by simpa using htne
    simp only [this, if_true]; rw [hceil]; push_cast; rfl
  · -- Floor
    have : (t != 0 && false) = false := by simp
    simp only [this, Bool.false_eq_true, if_false, Nat.add_zero]; exact hfloor.symm
  · -- HalfUp
    rw [hh]
    by_cases hc : 10 ^ k ≤ 2 * t
    · have : decide (2 * t ≥ 10 ^ k) = true := by simpa using hc
      simp only [this, if_true, if_pos hc]; push_cast; rfl
    · have : decide (2 * t ≥ 10 ^ k) = false := by simpa using hc
      simp only [this, Bool.false_eq_true, if_false, if_neg hc, Nat.add_zero]
  · -- HalfDown
    rw [hh]
    by_cases hc : 10 ^ k ≤ 2 * t
    · have : decide (2 * t > 10 ^ k) = true := by simp; omega
      simp only [this, if_true, if_pos hc]; push_cast; rfl
    · have : decide (2 * t > 10 ^ k) = false := by simp; omega
      simp only [this, Bool.false_eq_true, if_false, if_neg hc, Nat.add_zero]
  · -- HalfEven
    rw [hh]
    have he : (2 * t == 10 ^ k) = false := by simpa using hnt
    by_cases hc : 10 ^ k ≤ 2 * t
    · have : decide (2 * t > 10 ^ k) = true := by simp; omega
      simp only [this, Bool.true_or, if_true, if_pos hc]; push_cast; rfl
    · have : decide (2 * t > 10 ^ k) = false := by simp; omega
      simp only [this, he, Bool.false_and, Bool.or_self, Bool.false_eq_true, if_false, if_neg hc, Nat.add_zero]

end BigDec.Spec
