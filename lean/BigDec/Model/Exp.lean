import BigDec.Model.Div
import BigDec.Model.Round
import BigDec.Spec.Exact
/-! Executable model of `BigDecimal::exp` (src/lib.rs): Taylor series with exact powers and
    factorials, each term divided by `impl_division`, convergence test on the value trimmed to
    `precision + guard` digits; negative arguments through `e^-x = 1 / e^x`. -/
namespace BigDec
open Generated

/-- the series loop: `term`, `factorial`, `result`, `prev` after step `n-1`; returns the trimmed sum -/
def expLoop (cfg : Config) (est : Nat → Nat) (x : Dec) (xdigits : Nat) :
    Nat → Nat → Dec → Nat → Dec → Dec → Option Dec
  | 0, _, _, _, _, _ => none
  | fuel + 1, n, term, factorial, result, prev =>
    let term' := mulAssignDec term x                       -- `term *= self`
    let factorial' := factorial * n                          -- `factorial *= n`
    let q := implDivision term'.int factorial' term'.scale (expTermPrecision cfg xdigits)
    let result' := addAssignDec result q                     -- `result += …`
    let trimmed := result'.withPrec est (cfg.precision + expGuardDigits)
    if Spec.valueEq prev trimmed then some trimmed
    else expLoop cfg est x xdigits fuel (n + 1) term' factorial' result' trimmed

/-- the same loop, also returning the index `n` of the last term added (the stop index) -/
def expLoopN (cfg : Config) (est : Nat → Nat) (x : Dec) (xdigits : Nat) :
    Nat → Nat → Dec → Nat → Dec → Dec → Option (Nat × Dec)
  | 0, _, _, _, _, _ => none
  | fuel + 1, n, term, factorial, result, prev =>
    let term' := mulAssignDec term x
    let factorial' := factorial * n
    let q := implDivision term'.int factorial' term'.scale (expTermPrecision cfg xdigits)
    let result' := addAssignDec result q
    let trimmed := result'.withPrec est (cfg.precision + expGuardDigits)
    if Spec.valueEq prev trimmed then some (n, trimmed)
    else expLoopN cfg est x xdigits fuel (n + 1) term' factorial' result' trimmed

theorem expLoop_eq_expLoopN (cfg : Config) (est : Nat → Nat) (x : Dec) (xdigits : Nat) :
    ∀ (fuel n : Nat) (term : Dec) (factorial : Nat) (result prev : Dec),
      expLoop cfg est x xdigits fuel n term factorial result prev =
        (expLoopN cfg est x xdigits fuel n term factorial result prev).map Prod.snd := by
  intro fuel
  induction fuel with
  | zero => intros; rfl
  | succ fuel ih =>
    intro n term factorial result prev
    unfold expLoop expLoopN
    simp only
    split
    · rfl
    · exact ih _ _ _ _ _

/-- the stop index of the series for `|x|` (the number of the last Taylor term added) -/
def Dec.expStopIndex (cfg : Config) (est : Nat → Nat) (x : Dec) (fuel : Nat := 20000) : Option Nat :=
  let a := x.abs
  let r0 := addBigdecimals a Dec.one
  (expLoopN cfg est a a.digits fuel 2 a 1 r0 r0).map Prod.fst

/-- `exp_untrimmed` (non-negative argument) -/
def expUntrimmed (cfg : Config) (est : Nat → Nat) (x : Dec) (fuel : Nat) : Option Dec :=
  let r0 := addBigdecimals x Dec.one                       -- `self.clone() + BigDecimal::one()`
  expLoop cfg est x x.digits fuel 2 x 1 r0 r0

/-- `BigDecimal::exp` -/
def Dec.exp (cfg : Config) (est : Nat → Nat) (x : Dec) (fuel : Nat := 20000) : Option Dec :=
  if x.isZero then some Dec.one
  else if x.int < 0 then
    (expUntrimmed cfg est x.abs fuel).map fun pos =>
      (implDivision 1 pos.int (-pos.scale) cfg.precision).withPrec est cfg.precision
  else (expUntrimmed cfg est x fuel).map fun r => r.withPrec est cfg.precision


/-- `exp` together with the stop index of its series (0 for a zero argument); one run of the loop -/
def Dec.expN (cfg : Config) (est : Nat → Nat) (x : Dec) (fuel : Nat := 20000) : Option (Nat × Dec) :=
  if x.isZero then some (0, Dec.one)
  else
    let a := if x.int < 0 then x.abs else x
    let r0 := addBigdecimals a Dec.one
    (expLoopN cfg est a a.digits fuel 2 a 1 r0 r0).map fun (n, r) =>
      if x.int < 0 then (n, (implDivision 1 r.int (-r.scale) cfg.precision).withPrec est cfg.precision)
      else (n, r.withPrec est cfg.precision)

theorem Dec.exp_eq_expN (cfg : Config) (est : Nat → Nat) (x : Dec) (fuel : Nat) :
    x.exp cfg est fuel = (x.expN cfg est fuel).map Prod.snd := by
  unfold Dec.exp Dec.expN
  split
  · rfl
  · split
    · rename_i hneg
      simp only [hneg, if_true]
      unfold expUntrimmed
      rw [expLoop_eq_expLoopN]
      cases expLoopN cfg est x.abs x.abs.digits fuel 2 x.abs 1 (addBigdecimals x.abs Dec.one) (addBigdecimals x.abs Dec.one) <;> rfl
    · rename_i hneg
      simp only [hneg, if_false]
      unfold expUntrimmed
      rw [expLoop_eq_expLoopN]
      cases expLoopN cfg est x x.digits fuel 2 x 1 (addBigdecimals x Dec.one) (addBigdecimals x Dec.one) <;> rfl

end BigDec
