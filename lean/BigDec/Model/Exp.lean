import BigDec.Model.Div
import BigDec.Model.Round
import BigDec.Spec.Exact
/-! Executable model of `BigDecimal::exp` (src/lib.rs): Taylor series with exact powers and
    factorials, each term divided by `impl_division`, convergence test on the value trimmed to
    `precision + guard` digits; negative arguments through `e^-x = 1 / e^x`. -/
namespace BigDec
open Generated

/-- the series loop: `term`, `factorial`, `result`, `prev` after step `n-1`; returns the trimmed sum -/
def expLoop (cfg : Config) (est : Nat → Nat) (x : Dec) (xdigits : Nat) :
    Nat → Nat → Dec → Nat → Dec → Dec → Option Dec
  | 0, _, _, _, _, _ => none
  | fuel + 1, n, term, factorial, result, prev =>
    let term' := mulAssignDec term x                       -- `term *= self`
    let factorial' := factorial * n                          -- `factorial *= n`
    let q := implDivision term'.int factorial' term'.scale (expTermPrecision cfg xdigits)
    let result' := addAssignDec result q                     -- `result += …`
    let trimmed := result'.withPrec est (cfg.precision + expGuardDigits)
    if Spec.valueEq prev trimmed then some trimmed
    else expLoop cfg est x xdigits fuel (n + 1) term' factorial' result' trimmed

/-- `exp_untrimmed` (non-negative argument) -/
def expUntrimmed (cfg : Config) (est : Nat → Nat) (x : Dec) (fuel : Nat) : Option Dec :=
  let r0 := addBigdecimals x Dec.one                       -- `self.clone() + BigDecimal::one()`
  expLoop cfg est x x.digits fuel 2 x 1 r0 r0

/-- `BigDecimal::exp` -/
def Dec.exp (cfg : Config) (est : Nat → Nat) (x : Dec) (fuel : Nat := 20000) : Option Dec :=
  if x.isZero then some Dec.one
  else if x.int < 0 then
    (expUntrimmed cfg est x.abs fuel).map fun pos =>
      (implDivision 1 pos.int (-pos.scale) cfg.precision).withPrec est cfg.precision
  else (expUntrimmed cfg est x fuel).map fun r => r.withPrec est cfg.precision

end BigDec
