import BigDec.Model.Basic
/-! Executable model of the rounding routines of src/lib.rs:
    `with_scale_round` (on the little-endian digit vector, three regimes, manual carry loop),
    `with_scale`, `round`, `with_prec`, `with_precision_round`.
    `round_pair` itself is `Generated.roundPair`, translated from the current source. -/
namespace BigDec
open Generated

/-- `BigUint::to_radix_le(10)` of a non-zero magnitude -/
def digitsLE : Nat → List Nat
  | 0 => []
  | n+1 => ((n+1) % 10) :: digitsLE ((n+1) / 10)
decreasing_by omega

/-- `BigInt::from_radix_le(_, 10)` -/
def ofDigitsLE : List Nat → Nat
  | [] => 0
  | d :: ds => d + 10 * ofDigitsLE ds

/-- the manual carry loop of `with_scale_round`: increment the little-endian digit vector -/
def incrDigits : List Nat → List Nat
  | [] => [1]
  | d :: ds => if d < 9 then (d + 1) :: ds else 0 :: incrDigits ds

/-- `Greater` regime of `with_scale_round`: `k = scale - new_scale`, `1 ≤ k < digits.length` -/
def wsrGreater (m : Mode) (neg : Bool) (digits : List Nat) (k : Nat) : List Nat :=
  if roundPair m neg (digits.getD k 0) (digits.getD (k - 1) 0) ((digits.take (k - 1)).all (· == 0)) < 10 then
    roundPair m neg (digits.getD k 0) (digits.getD (k - 1) 0) ((digits.take (k - 1)).all (· == 0))
      :: (digits.drop k).tail
  else 0 :: incrDigits (digits.drop k).tail

/-- magnitude computed by the `Less` branch (new_scale < scale) of `with_scale_round` -/
def wsrMagnitude (m : Mode) (neg : Bool) (n : Nat) (scale ns : Int) : Nat :=
  if ((digitsLE n).length : Int) - scale = -ns then
    -- Equal: the rounding point is just left of the leading digit
    roundPair m neg 0 ((digitsLE n).getLastD 0) ((digitsLE n).dropLast.all (· == 0))
  else if ((digitsLE n).length : Int) - scale < -ns then
    -- Less: the whole number is far right of the rounding point
    roundPair m neg 0 0 false
  else
    ofDigitsLE (wsrGreater m neg (digitsLE n) (scale - ns).toNat)

/-- `BigDecimal::with_scale_round` -/
def Dec.withScaleRound (d : Dec) (ns : Int) (m : Mode) : Dec :=
  if d.int = 0 then ⟨0, ns⟩
  else if ns = d.scale then d
  else if ns > d.scale then ⟨d.int * (tenToTheUint (ns - d.scale).toNat : Nat), ns⟩
  else ⟨(if d.int < 0 then -1 else 1) * (wsrMagnitude m (decide (d.int < 0)) d.int.natAbs d.scale ns : Nat), ns⟩

/-- `BigDecimal::round(n)` with the build-time default mode -/
def Dec.round (cfg : Config) (d : Dec) (n : Int) : Dec := d.withScaleRound n cfg.mode

/-- `BigDecimal::with_prec`: ties-away-from-zero rounding of the magnitude of the remainder -/
def Dec.withPrec (est : Nat → Nat) (d : Dec) (prec : Nat) : Dec :=
  if d.digits > prec then
    -- `let (mut q, r) = self.int_val.div_rem(&p); let r = r.abs();`
    -- `if p < 10 * &r { q ±= get_rounding_term(&r) }`
    if tenToTheUint (d.digits - prec) < 10 * (d.int.tmod (tenToTheUint (d.digits - prec) : Nat)).natAbs then
      (if d.int < 0 then
        ⟨d.int.tdiv (tenToTheUint (d.digits - prec) : Nat)
          - getRoundingTerm est (d.int.tmod (tenToTheUint (d.digits - prec) : Nat)).natAbs, d.scale - (d.digits - prec : Nat)⟩
      else
        ⟨d.int.tdiv (tenToTheUint (d.digits - prec) : Nat)
          + getRoundingTerm est (d.int.tmod (tenToTheUint (d.digits - prec) : Nat)).natAbs, d.scale - (d.digits - prec : Nat)⟩)
    else ⟨d.int.tdiv (tenToTheUint (d.digits - prec) : Nat), d.scale - (d.digits - prec : Nat)⟩
  else if d.digits < prec then
    ⟨d.int * (tenToTheUint (prec - d.digits) : Nat), d.scale + (prec - d.digits : Nat)⟩
  else d

/-- `BigDecimal::with_precision_round` (`none` = the "precision overflow" panic) -/
def Dec.withPrecisionRound (d : Dec) (prec : Nat) (m : Mode) : Option Dec :=
  if prec ≥ 2 ^ 63 ∨ d.digits ≥ 2 ^ 63 then none
  else
    let ns : Int := d.scale + ((prec : Int) - (d.digits : Int))
    if ns < -(2 ^ 63 : Int) ∨ ns ≥ (2 ^ 63 : Int) then none
    else some (d.withScaleRound ns m)

end BigDec
