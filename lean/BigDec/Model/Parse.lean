import BigDec.Model.Types
/-! Executable model of `BigDecimal::from_str_radix` (src/impl_num.rs) together with the two
    parsers it delegates to (`i128::from_str`, `BigInt::from_str_radix` of num-bigint 0.4.4),
    over the UTF-8 *bytes* of the input (`List Nat`).  Splitting happens only at the ASCII bytes
    `e`, `E`, `.`, which never occur inside a multi-byte sequence. -/
namespace BigDec.Parse

def cE : Nat := 69   -- 'E'
def ce : Nat := 101  -- 'e'
def cDot : Nat := 46
def cPlus : Nat := 43
def cMinus : Nat := 45
def cUnder : Nat := 95
def isDigit (b : Nat) : Bool := 48 ≤ b && b ≤ 57

/-- split at the first byte satisfying `p`: (before, after) without the separator -/
def splitFirst (p : Nat → Bool) : List Nat → Option (List Nat × List Nat)
  | [] => none
  | b :: bs => if p b then some ([], bs) else
      match splitFirst p bs with
      | some (x, y) => some (b :: x, y)
      | none => none

/-- digit accumulation of `i128::from_str`: every byte must be an ASCII digit -/
def accPlain : List Nat → Nat → Option Nat
  | [], acc => some acc
  | b :: bs, acc => if isDigit b then accPlain bs (acc * 10 + (b - 48)) else none

/-- value of a non-empty string of ASCII digits (`none` if empty or any other byte occurs) -/
def digitsValue : List Nat → Option Nat
  | [] => none
  | bs => accPlain bs 0

/-- `i128::from_str` : optional sign, at least one digit, no separators, range check -/
def parseI128 (s : List Nat) : Option Int :=
  match s with
  | [] => none
  | b :: rest =>
    let (neg, body) := if b = cMinus then (true, rest) else if b = cPlus then (false, rest) else (false, s)
    match digitsValue body with
    | none => none
    | some v =>
      let i : Int := if neg then -(v : Int) else v
      if -(2 ^ 127 : Int) ≤ i ∧ i < (2 ^ 127 : Int) then some i else none

/-- digit accumulation of `BigUint::from_str_radix(_, 10)` : `_` skipped, anything else must be a digit -/
def accDigits : List Nat → Nat → Option Nat
  | [], acc => some acc
  | b :: bs, acc => if b = cUnder then accDigits bs acc
                    else if isDigit b then accDigits bs (acc * 10 + (b - 48)) else none

/-- `BigUint::from_str_radix(s, 10)` -/
def parseBigUint (s : List Nat) : Option Nat :=
  let s' := match s with
    | b :: tail => if b = cPlus then (match tail with
        | t :: _ => if t = cPlus then s else tail
        | [] => tail) else s
    | [] => s
  match s' with
  | [] => none
  | b :: _ => if b = cUnder then none else accDigits s' 0

/-- `BigInt::from_str_radix(s, 10)` -/
def parseBigInt (s : List Nat) : Option Int :=
  match s with
  | b :: tail =>
    if b = cMinus then
      let s' := match tail with
        | t :: _ => if t = cPlus then s else tail
        | [] => tail
      (parseBigUint s').map (fun n => -(n : Int))
    else (parseBigUint s).map (fun n => (n : Int))
  | [] => (parseBigUint s).map (fun n => (n : Int))

/-- split into base and exponent parts at the first `e`/`E`; the exponent goes through `i128::from_str` -/
def splitExponent (s : List Nat) : Option (List Nat × Int) :=
  match splitFirst (fun b => b == ce || b == cE) s with
  | none => some (s, 0)
  | some (b, e) => (parseI128 e).map (fun x => (b, x))

/-- split the base at the first `.` into the digit string handed to `BigInt` and the count of
    fraction digits -/
def splitMantissa (base : List Nat) : Option (List Nat × Int) :=
  match splitFirst (· == cDot) base with
  | none => some (base, 0)
  | some (lead, trail) =>
    if trail.isEmpty then some (lead, 0)      -- dot at the last position
    -- a sign is only allowed in front of the whole number
    else if trail.head? = some cPlus ∨ trail.head? = some cMinus then none
    else some (lead ++ trail, ((trail.filter (· != cUnder)).length : Int))

/-- scale by checked `i128` subtraction and `to_i64`, then the `BigInt` parser -/
def finish (digits : List Nat) (offset exponent : Int) : Option Dec :=
  if offset - exponent < -(2 ^ 63 : Int) ∨ offset - exponent ≥ (2 ^ 63 : Int) then none
  else (parseBigInt digits).map (fun i => ⟨i, offset - exponent⟩)

/-- `BigDecimal::from_str_radix(s, radix)`; `none` = any `Err` -/
def parseDec (s : List Nat) (radix : Nat := 10) : Option Dec :=
  if radix ≠ 10 then none
  else
    match splitExponent s with
    | none => none
    | some (base, exponent) =>
      if base.isEmpty then none
      else
        match splitMantissa base with
        | none => none
        | some (digits, offset) => finish digits offset exponent

end BigDec.Parse
