import BigDec.Model.ToF64
import BigDec.Model.Float
/-! Executable model of the main path of `make_inv_guess` (src/arithmetic/inverse.rs):
    `LN_2 * exp2(-bit_count)` in f64 (through the rounding primitive; `exp2` of an integer is the exact
    power of two, subnormals included), converted exactly to a decimal, scale lowered by `scale`.
    The back-up path (`bit_count > 1074`) is modelled up to its float kernel: the f32 value
    `(LN_2 * exp10(-frac)) as f32` is an input of the model (libm `exp10` is not modelled). -/
namespace BigDec
open Generated

/-- `f64::consts::LN_2` -/
def ln2Bits : Nat := 0x3FE62E42FEFA39EF

/-- `exp2(-b)` for `b ≤ 1074` -/
def exp2NegBits (b : Nat) : Nat :=
  if b ≤ 1022 then (1023 - b) * 2 ^ 52 else if b ≤ 1074 then 2 ^ (1074 - b) else 0

/-- `LN_2 * exp2(-b)` -/
def invGuessF64 (b : Nat) : Nat := F64.mul ln2Bits (exp2NegBits b)

/-- the guess as a decimal (main path only) -/
def invGuessMain (b : Nat) (scale : Int) : Option Dec :=
  if b ≤ 1074 ∧ invGuessF64 b ≠ 0 ∧ invGuessF64 b ≠ F64.inf then
    (ofF64 (invGuessF64 b)).map (fun d => ⟨d.int, d.scale - scale⟩)
  else none

/-- `bit_count as f64 * LOG10_2` -/
def backupApprox (b : Nat) : Nat := F64.mul (F64.ofNat b) F64.log10_2

/-- `approx_scale.trunc()` and the fractional part `approx_scale - approx_scale_int` as (numerator, denominator) -/
def backupSplit (b : Nat) : Nat × Nat × Nat :=
  let v := F64.val (backupApprox b)
  (v.1 / v.2, v.1 % v.2, v.2)

/-- the back-up guess, given the f32 bits of `(LN_2 * exp10(-frac)) as f32`:
    `from_f32` (exact), `scale += approx_scale_int`, `scale -= scale` -/
def invGuessBackup (b : Nat) (scale : Int) (v32 : Nat) : Option Dec :=
  (ofF32 v32).map (fun d => ⟨d.int, d.scale + ((backupSplit b).1 : Int) - scale⟩)

end BigDec
