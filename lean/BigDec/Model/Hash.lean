import BigDec.Model.Round
/-! Executable model of `impl Hash for BigDecimal` (src/lib.rs): the decimal digit string of the
    unscaled integer, with up to `scale` trailing zeros trimmed (scale > 0) or `-scale` zeros
    appended (scale < 0); zero always hashes as "0".  Digits are kept little-endian. -/
namespace BigDec

/-- the counting closure of `trim_right_matches`: strip at most `cnt` low-order zeros -/
def dropZerosLE : List Nat → Nat → List Nat
  | 0 :: ds, cnt + 1 => dropZerosLE ds cnt
  | l, _ => l

/-- little-endian digits of the string that is fed to the hasher (without the sign) -/
def hashDigitsLE (d : Dec) : List Nat :=
  if d.int = 0 then [0]
  else if d.scale > 0 then dropZerosLE (digitsLE d.int.natAbs) d.scale.toNat
  else if d.scale < 0 then List.replicate (-d.scale).toNat 0 ++ digitsLE d.int.natAbs
  else digitsLE d.int.natAbs

/-- everything the hasher sees: the sign (a leading '-') and the digit string -/
def hashData (d : Dec) : Bool × List Nat := (decide (d.int < 0), hashDigitsLE d)

/-- the string itself -/
def hashString (d : Dec) : String :=
  (if d.int < 0 then "-" else "") ++
    String.ofList ((hashDigitsLE d).reverse.map (fun x => Char.ofNat (48 + x)))

end BigDec
