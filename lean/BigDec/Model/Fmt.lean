import BigDec.Model.Round
/-! Executable model of the formatting routines of src/impl_fmt.rs, character by character:
    `dynamically_format_decimal`, `format_full_scale` (with `zero_right_pad_integer_ascii_digits`,
    `format_ascii_digits_with_integer_and_fraction`, `format_ascii_digits_no_integer`,
    `round_ascii_digits`), `format_dotless_exponential`, `format_exponential*`,
    `FullScaleFormatter`, `write_scientific_notation`, `write_engineering_notation`, and a model of
    `core::fmt::Formatter::pad_integral`.  Digits are ASCII characters in a `List Char`. -/
namespace BigDec.Fmt
open BigDec Generated

def digitChar (d : Nat) : Char := Char.ofNat (48 + d)
def charDigit (c : Char) : Nat := c.toNat - 48

/-- `BigUint::to_str_radix(10)` -/
def natStr (n : Nat) : List Char := if n = 0 then ['0'] else (digitsLE n).reverse.map digitChar

/-- `{}` of an integer -/
def intStr (i : Int) : List Char := if i < 0 then '-' :: natStr i.natAbs else natStr i.natAbs
/-- `{:+}` of an integer -/
def intStrPlus (i : Int) : List Char := if i < 0 then '-' :: natStr i.natAbs else '+' :: natStr i.natAbs

def zeros (k : Nat) : List Char := List.replicate k '0'

/-- formatter state that matters -/
inductive Align | Left | Right | Center | Unknown
  deriving DecidableEq, Repr

structure Flags where
  plus : Bool := false
  zero : Bool := false
  width : Option Nat := none
  fill : Char := ' '
  align : Align := .Unknown
  precision : Option Nat := none
  deriving Repr

/-- `Formatter::pad_integral(is_nonnegative, "", buf)` -/
def padIntegral (fl : Flags) (nonneg : Bool) (buf : List Char) : List Char :=
  let sign : List Char := if !nonneg then ['-'] else if fl.plus then ['+'] else []
  let w := buf.length + sign.length
  match fl.width with
  | none => sign ++ buf
  | some min =>
    if w ≥ min then sign ++ buf
    else if fl.zero then sign ++ zeros (min - w) ++ buf
    else
      let padding := min - w
      let a := if fl.align = .Unknown then Align.Right else fl.align
      let (pre, post) := match a with
        | .Left => (0, padding)
        | .Center => (padding / 2, (padding + 1) / 2)
        | _ => (padding, 0)
      List.replicate pre fl.fill ++ sign ++ buf ++ List.replicate post fl.fill

/-- `round_ascii_digits(digits, significant_digit_count, rounder)`: returns the new digits and
    the number of removed digits.  Precondition `1 ≤ sig < digits.length`. -/
def roundAsciiDigits (m : Mode) (neg : Bool) (digits : List Char) (sig : Nat) : List Char × Nat :=
  let insig := digits.drop sig
  let insigDigit := charDigit (insig.headD '0')
  let trailing := insig.drop 1
  let tz := needsTrailingZeros m insigDigit && trailing.all (· == '0')
  let sigDigit := charDigit ((digits.take sig).getLastD '0')
  let rounded := roundPair m neg sigDigit insigDigit tz
  let removed := insig.length
  let kept := digits.take (sig - 1)
  if rounded < 10 then (kept ++ [digitChar rounded], removed)
  else
    -- carry the one past trailing 9's
    let stripped := (kept.reverse.dropWhile (· == '9')).reverse
    match stripped.reverse with
    | [] => (['1'], removed + sig)
    | last :: restRev =>
      let nines := kept.length - stripped.length
      (restRev.reverse ++ [digitChar (charDigit last + 1)], removed + (nines + 1))

/-- `zero_right_pad_integer_ascii_digits` : returns digits and the remaining exponent -/
def zeroRightPad (cfg : Config) (noPadLimit : Nat) (digits : List Char) (exp : Nat) (target : Option Nat) : List Char × Nat :=
  if exp ≥ 2 ^ 64 then (digits, exp)
  else if target.isNone ∧ exp > noPadLimit then (digits, exp)
  else
    let frac : Nat := match target with
      | some t => if t ≠ 0 then t + 1 else 0
      | none => 0
    let total := exp + frac
    if total > cfg.maxPadding then (digits, exp)
    else
      match target with
      | some t => if t ≠ 0 then (digits ++ zeros exp ++ ['.'] ++ zeros t, 0) else (digits ++ zeros exp, 0)
      | none => (digits ++ zeros exp, 0)

/-- `format_ascii_digits_with_integer_and_fraction` (scale < digits.length) -/
def fmtIntFrac (m : Mode) (neg : Bool) (digits : List Char) (scale target : Nat) : List Char :=
  let (ds, dscale) : List Char × Nat :=
    if target < scale then
      let r := roundAsciiDigits m neg digits (digits.length - (scale - target))
      if r.2 ≤ scale then (r.1, scale - r.2) else (r.1 ++ zeros (r.2 - scale), 0)
    else (digits, scale)
  let withPoint := if target ≠ 0 then ds.take (ds.length - dscale) ++ ['.'] ++ ds.drop (ds.length - dscale) else ds
  if dscale < target then withPoint ++ zeros (target - dscale) else withPoint

/-- `format_ascii_digits_no_integer` (scale ≥ digits.length) -/
def fmtNoInt (m : Mode) (neg : Bool) (digits : List Char) (scale target : Nat) : List Char :=
  let lz := scale - digits.length
  if target ≤ lz then
    let inter := lz - target
    let insigDigit := if inter > 0 then 0 else charDigit (digits.headD '0')
    let trailing := if inter > 0 then digits else digits.drop 1
    let tz := needsTrailingZeros m insigDigit && trailing.all (· == '0')
    let rounded := roundPair m neg 0 insigDigit tz
    if target > 0 then ['0', '.'] ++ zeros (target - 1) ++ [digitChar rounded] else [digitChar rounded]
  else
    let sigCount := target - lz
    let (ds, dscale) : List Char × Nat :=
      if sigCount < digits.length then
        let r := roundAsciiDigits m neg digits sigCount
        (r.1, scale - r.2)
      else (digits, scale)
    let trailingZeros := target - dscale
    if dscale ≠ 0 then
      let idx := (target + 2) - trailingZeros - ds.length
      ['0', '.'] ++ zeros (idx - 2) ++ ds ++ zeros trailingZeros
    else
      -- the value rounded up to one: "1" followed by zeros, the point at index 1
      (ds.take 1) ++ ['.'] ++ zeros target

/-- `format_full_scale` without the final padding; returns the text -/
def fullScaleText (cfg : Config) (noPadLimit : Nat) (neg : Bool) (n : Nat) (scale : Int) (prec : Option Nat) : List Char :=
  let digits := natStr n
  if scale ≤ 0 then
    let r := zeroRightPad cfg noPadLimit digits (-scale).toNat prec
    if r.2 ≠ 0 then r.1 ++ ['e'] ++ intStrPlus r.2 else r.1
  else
    let sc := scale.toNat
    let target := prec.getD sc
    if sc < digits.length then fmtIntFrac cfg.mode neg digits sc target
    else fmtNoInt cfg.mode neg digits sc target

/-- `format_exponential_bigendian_ascii_digits` without the final padding -/
def exponentialText (cfg : Config) (neg : Bool) (n : Nat) (scale : Int) (prec : Option Nat) (eSym : Char) : List Char :=
  let digits := natStr n
  let exp : Int := -scale
  let (ds, exp', extra) : List Char × Int × Nat :=
    match prec with
    | none => (digits, exp, 0)
    | some p =>
      if p + 1 < digits.length then
        let r := roundAsciiDigits cfg.mode neg digits (p + 1)
        (r.1, exp + r.2, (p + 1) - r.1.length)
      else (digits, exp, (p + 1) - digits.length)
  let needsPoint := ds.length > 1 || extra > 0
  let exponent : Int := ds.length + exp' - 1
  let body := if needsPoint then ds.take 1 ++ ['.'] ++ ds.drop 1 else ds
  body ++ zeros extra ++ [eSym] ++ intStrPlus exponent

/-- `format_dotless_exponential` without the final padding -/
def dotlessText (n : Nat) (scale : Int) : List Char := natStr n ++ ['e'] ++ intStrPlus (-scale)

/-- which of the three notations `dynamically_format_decimal` picks -/
inductive Notation | exponential | dotless | full
  deriving DecidableEq, Repr

def chooseNotation (cfg : Config) (n : Nat) (scale : Int) (prec : Option Nat) : Notation :=
  let len := (natStr n).length
  let leadingZeroCount : Nat := if scale ≥ 0 ∧ scale.toNat ≥ len then scale.toNat - len else 0
  let trailingZeros : Nat := if prec.isSome then 0 else if scale ≤ 0 then (-scale).toNat else 0
  if prec.isNone ∧ cfg.lowThreshold < leadingZeroCount then .exponential
  else if cfg.highThreshold < trailingZeros then .dotless
  else .full

/-- `Display` : `dynamically_format_decimal` -/
def display (cfg : Config) (noPadLimit : Nat) (fl : Flags) (d : Dec) : List Char :=
  let neg := decide (d.int < 0)
  let n := d.int.natAbs
  let text := match chooseNotation cfg n d.scale fl.precision with
    | .exponential => exponentialText cfg neg n d.scale fl.precision 'E'
    | .dotless => dotlessText n d.scale
    | .full => fullScaleText cfg noPadLimit neg n d.scale fl.precision
  padIntegral fl (!neg) text

/-- `{:e}` / `{:E}` -/
def lowerExp (cfg : Config) (fl : Flags) (d : Dec) (eSym : Char := 'e') : List Char :=
  padIntegral fl (!decide (d.int < 0)) (exponentialText cfg (decide (d.int < 0)) d.int.natAbs d.scale fl.precision eSym)

/-- `to_plain_string` : `FullScaleFormatter` -/
def plain (d : Dec) : List Char :=
  let digits := natStr d.int.natAbs
  let body :=
    if d.scale ≤ 0 then digits ++ zeros (-d.scale).toNat
    else if d.scale.toNat < digits.length then
      digits.take (digits.length - d.scale.toNat) ++ ['.'] ++ digits.drop (digits.length - d.scale.toNat)
    else ['0', '.'] ++ zeros (d.scale.toNat - digits.length) ++ digits
  (if d.int < 0 then ['-'] else []) ++ body

/-- `to_scientific_notation` -/
def scientific (d : Dec) : List Char :=
  if d.int = 0 then ['0', 'e'] ++ intStr (-d.scale)
  else
    let ds := natStr d.int.natAbs
    (if d.int < 0 then ['-'] else []) ++ ds.take 1 ++ (if ds.length > 1 then '.' :: ds.drop 1 else [])
      ++ ['e'] ++ intStr (((ds.length - 1 : Nat) : Int) - d.scale)

/-- `to_engineering_notation` -/
def engineering (d : Dec) : List Char :=
  if d.int = 0 then "0e0".toList
  else
    let ds := natStr d.int.natAbs
    let top : Int := (ds.length : Int) - d.scale
    let shift : Nat := if top % 3 = 0 then 3 else (top % 3).toNat
    let exp : Int := top - shift
    let sign := if d.int < 0 then ['-'] else []
    if shift ≥ ds.length then sign ++ ds ++ zeros (shift - ds.length) ++ ['e'] ++ intStr exp
    else sign ++ ds.take shift ++ (if ds.length > shift then '.' :: ds.drop shift else []) ++ ['e'] ++ intStr exp

end BigDec.Fmt
