/-! Basic types shared by the model, the generated fragment and the specification.
    Import-free (core Lean only) so that the line-protocol driver links as a native executable. -/
namespace BigDec

/-- `RoundingMode` (src/rounding.rs) -/
inductive Mode | Up | Down | Ceiling | Floor | HalfUp | HalfDown | HalfEven
  deriving DecidableEq, Repr, Inhabited

def Mode.all : List Mode := [.Up, .Down, .Ceiling, .Floor, .HalfUp, .HalfDown, .HalfEven]

def Mode.ofString? : String → Option Mode
  | "Up" => some .Up | "Down" => some .Down | "Ceiling" => some .Ceiling | "Floor" => some .Floor
  | "HalfUp" => some .HalfUp | "HalfDown" => some .HalfDown | "HalfEven" => some .HalfEven
  | _ => none

def Mode.toString : Mode → String
  | .Up => "Up" | .Down => "Down" | .Ceiling => "Ceiling" | .Floor => "Floor"
  | .HalfUp => "HalfUp" | .HalfDown => "HalfDown" | .HalfEven => "HalfEven"

/-- mirror image of a mode under negation of the value -/
def Mode.mirror : Mode → Mode
  | .Ceiling => .Floor | .Floor => .Ceiling | m => m

/-- `BigDecimal { int_val, scale }` : the value is `int · 10^(-scale)`. -/
structure Dec where
  int : Int
  scale : Int
  deriving DecidableEq, Repr, Inhabited

/-- compile-time configuration produced by `build.rs` -/
structure Config where
  precision : Nat
  mode : Mode
  lowThreshold : Nat     -- EXPONENTIAL_FORMAT_LEADING_ZERO_THRESHOLD
  highThreshold : Nat    -- EXPONENTIAL_FORMAT_TRAILING_ZERO_THRESHOLD
  maxPadding : Nat       -- FMT_MAX_INTEGER_PADDING
  serdeScaleLimit : Nat  -- SERDE_SCALE_LIMIT
  deriving Repr, Inhabited

end BigDec
