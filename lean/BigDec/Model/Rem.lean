import BigDec.Model.Basic
/-! Executable model of the remainder operators (src/impl_ops_rem.rs).  `BigInt % BigInt` is the
    truncated remainder (`Int.tmod`) and panics on a zero divisor (`none`). -/
namespace BigDec
open Generated

/-- `BigInt % BigInt` -/
def bigRem (a b : Int) : Option Int := if b = 0 then none else some (a.tmod b)

/-- `Rem<BigDecimal> for BigDecimal` -/
def remDD (a b : Dec) : Option Dec :=
  (bigRem (a.setScale (max a.scale b.scale)).int (b.setScale (max a.scale b.scale)).int).map
    fun r => ⟨r, max a.scale b.scale⟩

/-- `Rem<&BigDecimal> for BigDecimal` -/
def remDRD (a b : Dec) : Option Dec :=
  (if max a.scale b.scale = b.scale then bigRem (a.setScale (max a.scale b.scale)).int b.int
   else bigRem (a.setScale (max a.scale b.scale)).int
          (b.int * (tenToTheUint (max a.scale b.scale - b.scale).toNat : Nat))).map
    fun r => ⟨r, max a.scale b.scale⟩

/-- `Rem<BigDecimal> for &BigDecimal` -/
def remRDD (a b : Dec) : Option Dec :=
  (if max a.scale b.scale = a.scale then bigRem a.int (b.setScale (max a.scale b.scale)).int
   else bigRem (a.int * (tenToTheUint (max a.scale b.scale - a.scale).toNat : Nat))
          (b.setScale (max a.scale b.scale)).int).map
    fun r => ⟨r, max a.scale b.scale⟩

/-- `Rem<&BigDecimal> for &BigDecimal` (and `RemAssign<&BigDecimal>`, which calls it) -/
def remRDRD (a b : Dec) : Option Dec :=
  (if a.scale = b.scale then bigRem a.int b.int
   else if a.scale < b.scale then
     bigRem (a.int * (tenToTheUint (max a.scale b.scale - a.scale).toNat : Nat)) b.int
   else bigRem a.int (b.int * (tenToTheUint (max a.scale b.scale - b.scale).toNat : Nat))).map
    fun r => ⟨r, max a.scale b.scale⟩

/-- the five forms: `D%D`, `D%&D`, `&D%D`, `&D%&D`, `%=` -/
inductive RemForm | DD | DRD | RDD | RDRD | assign
  deriving DecidableEq, Repr

def evalRem : RemForm → Dec → Dec → Option Dec
  | .DD => remDD | .DRD => remDRD | .RDD => remRDD | .RDRD => remRDRD | .assign => remRDRD

end BigDec
