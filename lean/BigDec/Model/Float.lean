import BigDec.Model.Basic
/-! Executable model of the float → decimal conversions of src/parsing.rs
    (`try_parse_from_f32/f64`, `parse_from_f32/f64`, the subnormal routines), on bit patterns. -/
namespace BigDec
open Generated

def ofLimbs32 : List Nat → Nat
  | [] => 0
  | d :: ds => d + 2 ^ 32 * ofLimbs32 ds

/-- `u32/u64::trailing_zeros` (for `f ≠ 0`) -/
def trailingZeroBits : Nat → Nat → Nat
  | 0, _ => 0
  | fuel + 1, f => if f ≠ 0 ∧ f % 2 = 0 then trailingZeroBits fuel (f / 2) + 1 else 0

/-- generic body of `try_parse_from_f32` (ebits = 8, fbits = 23, `five` = 5^149) and
    `try_parse_from_f64` (11, 52, 5^1074); `none` = NaN / infinite -/
def parseFromFloat (ebits fbits : Nat) (five : Nat) (bits : Nat) : Option Dec :=
  let fraction := bits % 2 ^ fbits
  let expo := (bits / 2 ^ fbits) % 2 ^ ebits
  let sgn : Int := if (bits / 2 ^ (fbits + ebits)) % 2 = 1 then -1 else 1
  if expo = 2 ^ ebits - 1 then none
  else if expo = 0 then
    if fraction = 0 then some ⟨0, 0⟩                          -- `(bits << 1) == 0`
    else some ⟨sgn * ((fraction * five : Nat) : Int), ((2 ^ (ebits - 1) - 2 + fbits : Nat) : Int)⟩   -- subnormal
  else
    let frac := fraction + 2 ^ fbits
    let pow : Int := (expo : Int) - ((2 ^ (ebits - 1) - 1 : Nat) : Int) - (fbits : Int)
    if pow = 0 then some ⟨sgn * (frac : Int), 0⟩
    else if pow < 0 then
      let tz := min (trailingZeroBits (fbits + 1) frac) (-pow).toNat
      some ⟨sgn * (((frac / 2 ^ tz) * 5 ^ ((-pow).toNat - tz) : Nat) : Int), (((-pow).toNat - tz : Nat) : Int)⟩
    else some ⟨sgn * ((frac * 2 ^ pow.toNat : Nat) : Int), 0⟩

def ofF32 (bits : Nat) : Option Dec := parseFromFloat 8 23 (ofLimbs32 five149Limbs) bits
def ofF64 (bits : Nat) : Option Dec := parseFromFloat 11 52 (ofLimbs32 five1074Limbs) bits

end BigDec
