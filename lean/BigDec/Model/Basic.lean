import BigDec.Generated
import BigDec.Model.NumDigits
/-! Executable model of the low-level routines of bigdecimal-rs
    (src/arithmetic/mod.rs, the scale-changing methods of src/lib.rs).
    Core Lean only.  Thresholds come from `BigDec.Generated`, which is regenerated from the
    current source on every run. -/
namespace BigDec
open Generated

/-- `BigUint::bits` -/
def bits (n : Nat) : Nat := if n = 0 then 0 else n.log2 + 1

/-- `10u64.pow(k)` with release-mode (wrapping) semantics -/
def tenPowU64 (k : Nat) : Nat := (10 ^ k) % 2 ^ 64

/-- model of `ten_to_the_uint` (src/arithmetic/mod.rs) -/
def tenToTheUint (pow : Nat) : Nat :=
  if pow < tenPowSmall then tenPowU64 pow
  else if pow < tenPowLinear then
    let tenToNineteen := tenPowU64 tenPowChunkExp
    let count := pow / tenPowChunkDiv
    let rem := pow % tenPowChunkDiv
    -- `for _ in 1..count { res *= ten_to_nineteen }`
    let res := (List.range (count - 1)).foldl (fun r _ => r * tenToNineteen) tenToNineteen
    if rem != 0 then res * tenPowU64 rem else res
  else
    let q := pow / tenPowSquareDiv
    let rem := pow % tenPowSquareDiv
    if q < pow then
      let x := tenToTheUint q
      let x2 := x * x
      let x4 := x2 * x2
      let x8 := x4 * x4
      let res := x8 * x8
      if rem == 0 then res else res * tenPowU64 rem
    else 0 -- the Rust code would recurse forever (divisor ≤ 1); unreachable for the real constants
termination_by pow

/-- the counting loop of `count_decimal_digits_uint`: `while uint >= num { num *= 10; digits += 1 }` -/
def countLoop (n : Nat) : Nat → Nat → Nat → Nat
  | 0, _, digits => digits
  | fuel + 1, num, digits => if n ≥ num then countLoop n fuel (num * 10) (digits + 1) else digits

/-- model of `count_decimal_digits_uint`; `est` is the f64 estimate
    `(bits as f64 / LOG2_10) as u64` as a function of the bit length. -/
def countDigitsUint (est : Nat → Nat) (n : Nat) : Nat :=
  if n = 0 then 1
  else
    let digits := est (n.log2 + 1) - countDigitsEstSub
    countLoop n (n.log2 + 2) (tenToTheUint digits) digits

/-- the f64 estimate, evaluated with Lean's IEEE-754 doubles (executable model only; nothing is
    proved about it) -/
def estF64 (bits : Nat) : Nat :=
  (Float.floor (bits.toFloat / 3.32192809488736234787)).toUInt64.toNat

/-- model of `get_rounding_term`: 1 iff the most significant digit of `num ≥ 0` is ≥ 5.
    The loop `n, 5n, 10n, …` starting at `10^(est - roundingTermEstSub)` (the code lowers the f64
    estimate by the regenerated amount, saturating). -/
def roundingTermLoop (num : Nat) : Nat → Nat → Nat
  | 0, _ => 0
  | fuel + 1, n => if num < n then 1 else if num < n * 5 then 0 else roundingTermLoop num fuel (n * 10)

def getRoundingTerm (est : Nat → Nat) (num : Nat) : Nat :=
  if num = 0 then 0
  else roundingTermLoop num (num.log2 + 2) (tenToTheUint (est (num.log2 + 1) - roundingTermEstSub))

/-- specification of `get_rounding_term` -/
def leadingDigit (n : Nat) : Nat := n / 10 ^ (numDigits n - 1)

namespace Dec

def isZero (d : Dec) : Bool := d.int == 0
def neg (d : Dec) : Dec := ⟨-d.int, d.scale⟩
def abs (d : Dec) : Dec := ⟨d.int.natAbs, d.scale⟩
def ofInt (i : Int) : Dec := ⟨i, 0⟩
def zero : Dec := ⟨0, 0⟩
def one : Dec := ⟨1, 0⟩
def digits (d : Dec) : Nat := numDigits d.int.natAbs

/-- `BigDecimal::set_scale` / `take_and_scale` (src/lib.rs): zero keeps only the scale, growing
    multiplies (u64 fast path below the bound), shrinking divides truncating toward zero. -/
def setScale (d : Dec) (ns : Int) : Dec :=
  if d.int = 0 then ⟨0, ns⟩
  else if ns > d.scale then
    if (ns - d.scale).toNat < setScaleFastUp then ⟨d.int * (tenPowU64 (ns - d.scale).toNat : Nat), ns⟩
    else ⟨d.int * (tenToTheUint (ns - d.scale).toNat : Nat), ns⟩
  else if ns < d.scale then
    if (d.scale - ns).toNat < setScaleFastDown then ⟨d.int.tdiv (tenPowU64 (d.scale - ns).toNat : Nat), ns⟩
    else ⟨d.int.tdiv (tenToTheUint (d.scale - ns).toNat : Nat), ns⟩
  else d

/-- `extend_scale_to` -/
def extendScaleTo (d : Dec) (ns : Int) : Dec := if ns > d.scale then d.setScale ns else d

/-- `BigDecimal::with_scale` -/
def withScale (d : Dec) (ns : Int) : Dec :=
  if d.int = 0 then ⟨0, ns⟩
  else if ns > d.scale then ⟨d.int * (tenToTheUint (ns - d.scale).toNat : Nat), ns⟩
  else if ns < d.scale then ⟨d.int.tdiv (tenToTheUint (d.scale - ns).toNat : Nat), ns⟩
  else d

/-- `BigDecimalRef::to_owned_with_scale` (works on the magnitude, re-attaches the sign) -/
def toOwnedWithScale (d : Dec) (ns : Int) : Dec :=
  if ns = d.scale then d
  else if d.scale < ns then
    if (ns - d.scale).toNat < toOwnedFastUp then
      ⟨(if d.int < 0 then -1 else 1) * ((d.int.natAbs * tenPowU64 (ns - d.scale).toNat : Nat) : Int), ns⟩
    else ⟨(if d.int < 0 then -1 else 1) * ((d.int.natAbs * tenToTheUint (ns - d.scale).toNat : Nat) : Int), ns⟩
  else
    if (d.scale - ns).toNat < toOwnedFastDown then
      ⟨(if d.int < 0 then -1 else 1) * ((d.int.natAbs / tenPowU64 (d.scale - ns).toNat : Nat) : Int), ns⟩
    else ⟨(if d.int < 0 then -1 else 1) * ((d.int.natAbs / tenToTheUint (d.scale - ns).toNat : Nat) : Int), ns⟩

/-- `is_one`: `*self == One::one()`, i.e. numeric equality with 1 (so `1.00` counts). -/
def isOne (d : Dec) : Bool :=
  if d.scale ≥ 0 then d.int == (10 ^ d.scale.toNat : Nat) else false

end Dec
end BigDec
