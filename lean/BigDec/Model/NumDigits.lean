/-! Decimal digit count (1 for zero) — the specification of `count_decimal_digits_uint` — with a
    provably equal chunked evaluation (19 digits per step) installed for compiled code through
    `@[csimp]`.  Core Lean only. -/
namespace BigDec

/-- number of decimal digits of `n` (1 for zero) -/
def numDigits (n : Nat) : Nat :=
  if n < 10 then 1 else numDigits (n / 10) + 1
decreasing_by omega

/-- the same recursion under another name (used by the chunked version for small arguments) -/
def numDigitsBase (n : Nat) : Nat :=
  if n < 10 then 1 else numDigitsBase (n / 10) + 1
decreasing_by omega

theorem numDigitsBase_eq (n : Nat) : numDigitsBase n = numDigits n := by
  induction n using Nat.strongRecOn with
  | _ n ih =>
    unfold numDigitsBase numDigits
    split
    · rfl
    · rw [ih (n / 10) (by omega)]

theorem numDigits_div_pow (k n : Nat) (h : 10 ^ k ≤ n) : numDigits n = numDigits (n / 10 ^ k) + k := by
  induction k generalizing n with
  | zero => simp
  | succ k ih =>
    have hpos : 0 < 10 ^ k := Nat.pow_pos (by decide)
    have h10 : 10 ^ (k + 1) = 10 ^ k * 10 := Nat.pow_succ ..
    have hn10 : ¬ n < 10 := by
      have : 10 ≤ 10 ^ k * 10 := Nat.le_mul_of_pos_left 10 hpos
      omega
    have hdiv : 10 ^ k ≤ n / 10 := by
      rw [Nat.le_div_iff_mul_le (by decide)]; omega
    rw [numDigits, if_neg hn10, ih (n / 10) hdiv, Nat.div_div_eq_div_mul, h10, Nat.mul_comm 10 (10 ^ k)]
    omega

/-- chunked evaluation: strip 19 digits at a time -/
def numDigitsChunk (n : Nat) : Nat :=
  if n < 10000000000000000000 then numDigitsBase n else numDigitsChunk (n / 10000000000000000000) + 19
decreasing_by omega

theorem numDigitsChunk_eq (n : Nat) : numDigitsChunk n = numDigits n := by
  induction n using Nat.strongRecOn with
  | _ n ih =>
    unfold numDigitsChunk
    split
    · exact numDigitsBase_eq n
    · rename_i h
      have hp : (10:Nat) ^ 19 = 10000000000000000000 := by decide
      rw [ih (n / 10000000000000000000) (by omega)]
      have := numDigits_div_pow 19 n (by omega)
      rw [hp] at this
      exact this.symm

@[csimp] theorem numDigits_eq_chunk : @numDigits = @numDigitsChunk := by
  funext n; exact (numDigitsChunk_eq n).symm

end BigDec
