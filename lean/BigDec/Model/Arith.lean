import BigDec.Model.Basic
/-! Executable model of the exact arithmetic of bigdecimal-rs: every distinct body of
    `Add`/`Sub`/`Mul` and their assign forms (src/arithmetic/addition.rs, src/impl_ops*.rs),
    and the dispatch that Rust's trait resolution performs for each operand form. -/
namespace BigDec
open Generated

/-- operand forms: owned decimal, `&BigDecimal`, `BigDecimalRef`, `BigInt`, `&BigInt`,
    primitive integer, reference to primitive integer -/
inductive Form | D | RD | Ref | BI | RBI | P | RP
  deriving DecidableEq, Repr

def Form.ofString? : String → Option Form
  | "D" => some .D | "RD" => some .RD | "Ref" => some .Ref | "BI" => some .BI
  | "RBI" => some .RBI | "P" => some .P | "RP" => some .RP | _ => none

inductive BinOp | add | sub | mul | addAssign | subAssign | mulAssign
  deriving DecidableEq, Repr

def BinOp.ofString? : String → Option BinOp
  | "add" => some .add | "sub" => some .sub | "mul" => some .mul
  | "addassign" => some .addAssign | "subassign" => some .subAssign | "mulassign" => some .mulAssign
  | _ => none

/-! ### addition bodies -/

/-- `add_aligned_bigdecimals` -/
def addAligned (a b : Dec) : Dec :=
  if bits a.int.natAbs ≥ bits b.int.natAbs then ⟨a.int + b.int, a.scale⟩ else ⟨b.int + a.int, b.scale⟩

/-- `add_bigdecimals` (owned + owned) -/
def addBigdecimals (a b : Dec) : Dec :=
  if b.isZero then a.extendScaleTo b.scale
  else if a.isZero then b.extendScaleTo a.scale
  else if a.scale = b.scale then addAligned a b
  else if a.scale < b.scale then addAligned (a.setScale b.scale) b
  else addAligned (b.setScale a.scale) a

/-- `addassign_bigdecimal_ref` : `lhs += rhs` for any `rhs : Into<BigDecimalRef>` -/
def addAssignRef (lhs rhs : Dec) : Dec :=
  if lhs.scale < rhs.scale then ⟨(lhs.withScale rhs.scale).int + rhs.int, rhs.scale⟩
  else if lhs.scale > rhs.scale then ⟨lhs.int + (rhs.withScale lhs.scale).int, lhs.scale⟩
  else ⟨lhs.int + rhs.int, lhs.scale⟩

/-- `addassign_bigdecimals` : `lhs += rhs` for an owned rhs -/
def addAssignDec (lhs rhs : Dec) : Dec :=
  if rhs.isZero then lhs else if lhs.isZero then rhs else addAssignRef lhs rhs

/-- `i64::saturating_sub(a, b).max(0).min(c)` on in-range scales -/
def clampDiff (a b : Int) (c : Nat) : Int := min (max (a - b) 0) c

/-- `add_unaligned_bigdecimal_ref_ref` (lhs.scale ≥ rhs.scale) -/
def addUnaligned (lhs rhs : Dec) : Dec :=
  let diff := (lhs.scale - rhs.scale).toNat
  let sgn : Int := if rhs.int < 0 then -1 else 1
  let shifted : Dec := ⟨sgn * ((rhs.int.natAbs * tenToTheUint diff : Nat) : Int), lhs.scale⟩
  addAssignRef shifted lhs

/-- `add_bigdecimal_refs` -/
def addRefs (lhs rhs : Dec) : Dec :=
  if rhs.isZero then lhs.toOwnedWithScale (lhs.scale + clampDiff rhs.scale lhs.scale addZeroClampR)
  else if lhs.isZero then rhs.toOwnedWithScale (rhs.scale + clampDiff lhs.scale rhs.scale addZeroClampL)
  else if lhs.scale = rhs.scale then
    (if bits lhs.int.natAbs ≥ bits rhs.int.natAbs then addAssignRef lhs rhs else addAssignRef rhs lhs)
  else if lhs.scale > rhs.scale then addUnaligned lhs rhs
  else addUnaligned rhs lhs

/-- `AddAssign<$t>` for a primitive integer `p` -/
def addAssignPrim (lhs : Dec) (p : Int) : Dec :=
  if p = 0 then lhs
  else if lhs.scale = 0 then ⟨lhs.int + p, 0⟩
  else addAssignDec lhs (Dec.ofInt p)

/-! ### subtraction bodies -/

/-- `Sub<BigDecimal> for BigDecimal`, operands already aligned (the recursive call of the
    source re-enters the function, so the zero tests are evaluated again) -/
def subDDAligned (l r : Dec) : Dec :=
  if r.isZero then l else if l.isZero then r.neg else ⟨l.int - r.int, l.scale⟩

/-- `Sub<BigDecimal> for BigDecimal` -/
def subDD (lhs rhs : Dec) : Dec :=
  if rhs.isZero then lhs
  else if lhs.isZero then rhs.neg
  else if lhs.scale = rhs.scale then ⟨lhs.int - rhs.int, lhs.scale⟩
  else if lhs.scale < rhs.scale then subDDAligned (lhs.setScale rhs.scale) rhs
  else subDDAligned lhs (rhs.setScale lhs.scale)

/-- `SubAssign<BigDecimal> for BigDecimal` -/
def subAssignDec (lhs rhs : Dec) : Dec :=
  if rhs.isZero then lhs
  else if lhs.isZero then rhs.neg
  else if lhs.scale = rhs.scale then ⟨lhs.int - rhs.int, lhs.scale⟩
  else if lhs.scale < rhs.scale then
    ⟨lhs.int * (tenToTheUint (rhs.scale - lhs.scale).toNat : Nat) - rhs.int, rhs.scale⟩
  else ⟨lhs.int - rhs.int * (tenToTheUint (lhs.scale - rhs.scale).toNat : Nat), lhs.scale⟩

/-- `SubAssign<T: Into<BigDecimalRef>> for BigDecimal` -/
def subAssignRef (lhs rhs : Dec) : Dec :=
  if rhs.isZero then lhs
  else if lhs.isZero then rhs.neg
  else if lhs.scale = rhs.scale then ⟨lhs.int - rhs.int, lhs.scale⟩
  else if lhs.scale < rhs.scale then
    ⟨lhs.int * (tenToTheUint (rhs.scale - lhs.scale).toNat : Nat) - rhs.int, rhs.scale⟩
  else subAssignDec lhs (rhs.toOwnedWithScale lhs.scale)

/-- `Sub<BigDecimal> for BigDecimalRef` : `(rhs - self).neg()` -/
def subRefD (self rhs : Dec) : Dec := (subAssignRef rhs self).neg

/-- `Sub<T> for &BigDecimal` -/
def subRDT (self rhs : Dec) : Dec :=
  if self.scale = rhs.scale then subAssignRef self rhs
  else if self.scale < rhs.scale then subAssignRef (self.withScale rhs.scale) rhs
  else subRefD self (rhs.toOwnedWithScale self.scale)   -- `&self - owned` → `self.to_ref() - owned`

/-- `Sub<T> for BigDecimalRef` -/
def subRefT (self rhs : Dec) : Dec :=
  if self.scale = rhs.scale then subAssignRef self rhs
  else if self.scale < rhs.scale then subAssignRef (self.toOwnedWithScale rhs.scale) rhs
  else subRefD self (rhs.toOwnedWithScale self.scale)

/-- `SubAssign<$t>` for a primitive integer -/
def subAssignPrim (lhs : Dec) (p : Int) : Dec :=
  if lhs.scale = 0 then ⟨lhs.int - p, 0⟩ else subAssignDec lhs (Dec.ofInt p)

/-! ### multiplication bodies -/

/-- big-endian digit strip of `normalized` on a non-zero magnitude -/
def stripZeros : Nat → Nat → Nat × Nat
  | 0, n => (n, 0)
  | fuel + 1, n => if n ≠ 0 ∧ n % 10 = 0 then
      let r := stripZeros fuel (n / 10); (r.1, r.2 + 1) else (n, 0)

/-- `BigDecimal::normalized` -/
def Dec.normalized (d : Dec) : Dec :=
  if d.int = 0 then Dec.zero
  else
    let r := stripZeros d.int.natAbs d.int.natAbs
    let sgn : Int := if d.int < 0 then -1 else 1
    ⟨sgn * (r.1 : Int), d.scale - r.2⟩

/-- `Mul<BigDecimal> for BigDecimal` -/
def mulDD (a b : Dec) : Dec :=
  if a.isOne then b else if b.isOne then a else ⟨a.int * b.int, a.scale + b.scale⟩

/-- `Mul<&BigDecimal> for BigDecimal` -/
def mulDRD (a b : Dec) : Dec :=
  if a.isOne then ⟨0 + b.int, b.scale⟩
  else if b.isZero then ⟨0, 0⟩
  else if !a.isZero && !b.isOne then ⟨a.int * b.int, a.scale + b.scale⟩
  else a

/-- `Mul<&BigDecimal> for &BigDecimal` -/
def mulRDRD (a b : Dec) : Dec :=
  if a.isOne then b.normalized else if b.isOne then a.normalized
  else ⟨a.int * b.int, a.scale + b.scale⟩

/-- `Mul<BigInt> for BigDecimal`, `Mul<&BigInt> for BigDecimal`, `Mul<BigInt> for &BigDecimal` -/
def mulDBI (a : Dec) (i : Int) : Dec := ⟨a.int * i, a.scale⟩

/-- `Mul<&BigInt> for &BigDecimal` -/
def mulRDRBI (a : Dec) (i : Int) : Dec :=
  if i = 1 then a.normalized else if a.isOne then ⟨i, 0⟩ else ⟨a.int * i, a.scale⟩

/-- `Mul<BigDecimal> for BigInt` -/
def mulBID (i : Int) (b : Dec) : Dec :=
  if b.isOne then ⟨i, 0⟩ else if i ≠ 1 then ⟨b.int * i, b.scale⟩ else b

/-- `Mul<BigDecimal> for &BigInt` -/
def mulRBID (i : Int) (b : Dec) : Dec :=
  if i = 1 then b.normalized else if b.isOne then ⟨0 + i, 0⟩ else ⟨b.int * i, b.scale⟩

/-- `Mul<&BigDecimal> for &BigInt` and `Mul<&BigDecimal> for BigInt` -/
def mulBIRD (i : Int) (b : Dec) : Dec :=
  if i = 1 then b.normalized else if b.isOne then ⟨i, 0⟩ else ⟨b.int * i, b.scale⟩

/-- `MulAssign<&BigDecimal>` (and, forwarded, `MulAssign<BigDecimal>`) -/
def mulAssignDec (a b : Dec) : Dec :=
  if b.isOne then a else ⟨a.int * b.int, a.scale + b.scale⟩

/-- `MulAssign<&BigInt>` / `MulAssign<BigInt>` -/
def mulAssignBI (a : Dec) (i : Int) : Dec := if i = 1 then a else ⟨a.int * i, a.scale⟩

/-- `MulAssign<$t>` for a primitive integer -/
def mulAssignPrim (a : Dec) (p : Int) : Dec :=
  if p = 0 then Dec.zero else if p = 1 then a else mulAssignDec a (Dec.ofInt p)

/-! ### dispatch: what trait resolution selects for each operand form -/

/-- `lhs OP rhs` for the operand forms `lf`, `rf`; `none` when no such `impl` exists.
    Big-integer and primitive operands are passed as decimals of scale 0. -/
def evalOp (op : BinOp) (lf rf : Form) (a b : Dec) : Option Dec :=
  match op, lf, rf with
  -- Add
  | .add, .D, .D => some (addBigdecimals a b)
  | .add, .D, .RD | .add, .D, .Ref | .add, .D, .RBI => some (addAssignRef a b)
  | .add, .D, .BI => some (addBigdecimals a b)
  | .add, .RD, .D | .add, .Ref, .D => some (addAssignRef b a)
  | .add, .RD, .RD | .add, .RD, .Ref | .add, .RD, .RBI => some (addRefs a b)
  | .add, .Ref, .RD | .add, .Ref, .Ref | .add, .Ref, .RBI => some (addRefs a b)
  | .add, .RD, .BI | .add, .Ref, .BI => some (addAssignRef b a)
  | .add, .BI, .D => some (addBigdecimals a b)
  | .add, .BI, .RD | .add, .BI, .Ref => some (addAssignRef a b)
  | .add, .RBI, .D => some (addAssignRef b a)
  | .add, .RBI, .RD | .add, .RBI, .Ref => some (addRefs b a)
  | .add, .D, .P | .add, .D, .RP => some (addAssignPrim a b.int)
  | .add, .RD, .P | .add, .RD, .RP | .add, .Ref, .P | .add, .Ref, .RP => some (addAssignRef b a)
  | .add, .P, .D | .add, .RP, .D => some (addAssignPrim b a.int)
  | .add, .P, .RD | .add, .RP, .RD => some (addAssignRef a b)
  -- AddAssign
  | .addAssign, .D, .D => some (addAssignDec a b)
  | .addAssign, .D, .RD | .addAssign, .D, .Ref | .addAssign, .D, .RBI => some (addAssignRef a b)
  | .addAssign, .D, .BI => some (addAssignDec a b)
  | .addAssign, .D, .P | .addAssign, .D, .RP => some (addAssignPrim a b.int)
  -- Sub
  | .sub, .D, .D => some (subDD a b)
  | .sub, .RD, .D | .sub, .Ref, .D => some (subRefD a b)
  | .sub, .D, .RD | .sub, .D, .Ref | .sub, .D, .RBI => some (subAssignRef a b)
  | .sub, .RD, .RD | .sub, .RD, .Ref | .sub, .RD, .RBI => some (subRDT a b)
  | .sub, .Ref, .RD | .sub, .Ref, .Ref | .sub, .Ref, .RBI => some (subRefT a b)
  | .sub, .D, .BI => some (subAssignDec a b)
  | .sub, .RD, .BI | .sub, .Ref, .BI => some (subRefD a b)
  | .sub, .BI, .D => some (subAssignDec b a).neg
  | .sub, .RBI, .D => some (subAssignRef b a).neg
  | .sub, .BI, .Ref | .sub, .RBI, .Ref => some (subRefT b a).neg
  | .sub, .D, .P | .sub, .D, .RP => some (subAssignPrim a b.int)
  | .sub, .RD, .P | .sub, .RD, .RP => some (addAssignRef b.neg a)
  | .sub, .P, .D | .sub, .RP, .D => some (addAssignPrim b.neg a.int)
  | .sub, .P, .RD | .sub, .RP, .RD => some (addAssignPrim b.neg a.int)
  -- SubAssign
  | .subAssign, .D, .D => some (subAssignDec a b)
  | .subAssign, .D, .RD | .subAssign, .D, .Ref | .subAssign, .D, .RBI => some (subAssignRef a b)
  | .subAssign, .D, .BI => some (subAssignDec a b)
  | .subAssign, .D, .P | .subAssign, .D, .RP => some (subAssignPrim a b.int)
  -- Mul
  | .mul, .D, .D => some (mulDD a b)
  | .mul, .D, .RD => some (mulDRD a b)
  | .mul, .RD, .D => some (mulDRD b a)
  | .mul, .RD, .RD => some (mulRDRD a b)
  | .mul, .D, .BI | .mul, .D, .RBI | .mul, .RD, .BI => some (mulDBI a b.int)
  | .mul, .RD, .RBI => some (mulRDRBI a b.int)
  | .mul, .BI, .D => some (mulBID a.int b)
  | .mul, .RBI, .D => some (mulRBID a.int b)
  | .mul, .RBI, .RD | .mul, .BI, .RD => some (mulBIRD a.int b)
  | .mul, .D, .P | .mul, .D, .RP => some (mulAssignPrim a b.int)
  | .mul, .RD, .P | .mul, .RD, .RP => some (mulDRD b a)
  | .mul, .P, .D | .mul, .RP, .D => some (mulAssignPrim b a.int)
  | .mul, .P, .RD | .mul, .RP, .RD => some (mulDRD a b)
  -- MulAssign
  | .mulAssign, .D, .D | .mulAssign, .D, .RD => some (mulAssignDec a b)
  | .mulAssign, .D, .BI | .mulAssign, .D, .RBI => some (mulAssignBI a b.int)
  | .mulAssign, .D, .P | .mulAssign, .D, .RP => some (mulAssignPrim a b.int)
  | _, _, _ => none

/-! ### unary operations and sums -/

/-- `double` -/
def Dec.double (d : Dec) : Dec := if d.isZero then d else ⟨d.int * 2, d.scale⟩
/-- `half` -/
def Dec.half (d : Dec) : Dec :=
  if d.isZero then d else if d.int % 2 = 0 then ⟨d.int.tdiv 2, d.scale⟩ else ⟨d.int * 5, d.scale + 1⟩
/-- `square` -/
def Dec.square (d : Dec) : Dec := if d.isZero || d.isOne then d else ⟨d.int * d.int, d.scale * 2⟩
/-- `cube` -/
def Dec.cube (d : Dec) : Dec := if d.isZero || d.isOne then d else ⟨d.int * d.int * d.int, d.scale * 3⟩
/-- `Sum<BigDecimal>` : `fold(zero, |a, b| a + b)` -/
def sumOwned (xs : List Dec) : Dec := xs.foldl addBigdecimals Dec.zero
/-- `Sum<&BigDecimal>` : `fold(zero, |a, b| a + b)` with `b : &BigDecimal` -/
def sumRefs (xs : List Dec) : Dec := xs.foldl addAssignRef Dec.zero

end BigDec
