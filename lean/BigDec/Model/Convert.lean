import BigDec.Model.Basic
/-! Executable model of the integer conversions (src/impl_num.rs, `ToPrimitive for BigDecimalRef`,
    `ToBigInt`, `is_integer`). -/
namespace BigDec
open Generated

/-- `BigInt::to_i64` / `to_i128` / `to_u64` / `to_u128` : in-range test -/
def intToSigned (bits : Nat) (i : Int) : Option Int :=
  if -(2 ^ (bits - 1) : Int) ≤ i ∧ i < (2 ^ (bits - 1) : Int) then some i else none
def intToUnsigned (bits : Nat) (i : Int) : Option Int :=
  if 0 ≤ i ∧ i < (2 ^ bits : Int) then some i else none

/-- `to_i64` (bits = 64) and `to_i128` (bits = 128): same body in the source -/
def Dec.toSigned (bits : Nat) (d : Dec) : Option Int :=
  if d.int > 0 ∧ d.scale = 0 then intToSigned bits d.int.natAbs          -- `self.digits.to_i64()`
  else if d.int < 0 ∧ d.scale = 0 then
    -- `self.digits.to_u64().and_then(|d| match d.cmp(&(i64::MAX as u64 + 1)) …)`
    (if d.int.natAbs < 2 ^ bits then
      (if d.int.natAbs < 2 ^ (bits - 1) then some (-(d.int.natAbs : Int))
       else if d.int.natAbs = 2 ^ (bits - 1) then some (-(2 ^ (bits - 1) : Int))
       else none)
     else none)
  else if d.int ≠ 0 then intToSigned bits (d.toOwnedWithScale 0).int
  else some 0

/-- `to_u64` / `to_u128` -/
def Dec.toUnsigned (bits : Nat) (d : Dec) : Option Int :=
  if d.int > 0 ∧ d.scale = 0 then intToUnsigned bits d.int.natAbs
  else if d.int > 0 then intToUnsigned bits (d.toOwnedWithScale 0).int
  else if d.int = 0 then some 0
  else none

/-- `to_bigint` : `Some(self.with_scale(0).int_val)` -/
def Dec.toBigInt (d : Dec) : Int := (d.withScale 0).int

/-- `is_integer` -/
def Dec.isInteger (d : Dec) : Bool :=
  if d.scale ≤ 0 then true else d.int.tmod (tenToTheUint d.scale.toNat : Nat) == 0

end BigDec
