import BigDec.Model.Round
/-! Executable model of equality and ordering (src/impl_cmp.rs).
    Magnitudes are `Nat`; u32 limbs are base-2^32 digit lists; every machine-word operation whose
    overflow matters is written with its explicit bound.  `pre k` models the f64 expression
    `(LOG2_10 * scale as f64) as u64`. -/
namespace BigDec
open Generated

/-- `BigUint::iter_u32_digits` : little-endian base-2^32 limbs (empty for zero) -/
def limbsLE : Nat → List Nat
  | 0 => []
  | n+1 => ((n+1) % 2^32) :: limbsLE ((n+1) / 2^32)
decreasing_by
  have : (2:Nat)^32 = 4294967296 := by decide
  omega

def ofLimbsLE : List Nat → Nat
  | [] => 0
  | d :: ds => d + 2^32 * ofLimbsLE ds

/-- `(LOG2_10 * scale as f64) as u64`, evaluated with Lean's doubles (executable model only) -/
def preF64 (k : Nat) : Nat := (Float.floor (3.32192809488736234787 * k.toFloat)).toUInt64.toNat

/-- `highest_bit_lessthan_scaled` -/
def highestBitLess (pre : Nat → Nat) (a b k : Nat) : Bool :=
  if bits a < bits b then true
  else if bits b + (pre k - highestBitPreSub) < 2 ^ 64 then decide (bits a < bits b + (pre k - highestBitPreSub)) else true

/-- outcome of the u32-limb loop of `check_equality_bigdecimal_ref` -/
inductive LimbLoop | decided (b : Bool) | overflow
  deriving DecidableEq, Repr

/-- the limb loop: `a` = limbs of the unscaled integer, `b` = limbs of the scaled one -/
def limbLoop (pow : Nat) : List Nat → List Nat → Nat → LimbLoop
  | a :: as, b :: bs, carry =>
    -- `(next_b as u64).checked_mul(pow).and_then(|tmp| tmp.checked_add(carry))`
    if b * pow < 2 ^ 64 ∧ b * pow + carry < 2 ^ 64 then
      if a ≠ (b * pow + carry) % 2 ^ 32 then .decided false
      else limbLoop pow as bs ((b * pow + carry) / 2 ^ 32)
    else .overflow
  | [], _ :: _, _ => .decided false
  | a :: as, [], carry =>
    if a ≠ carry % 2 ^ 32 then .decided false else limbLoop pow as [] 0
  | [], [], carry => .decided (carry == 0)

/-- the digit-wise path (scale difference ≥ 20) -/
def eqDigitwise (unscaled scaled k : Nat) : Bool :=
  if k > (digitsLE unscaled).length then false
  else if ((digitsLE unscaled).take k).any (· != 0) then false
  else if ((digitsLE unscaled).drop k).length != (digitsLE scaled).length then false
  else (((digitsLE unscaled).drop k).zip (digitsLE scaled)).all (fun p => p.1 == p.2)

/-- magnitudes with `k = scale difference ≥ 1`: is `unscaled = scaled · 10^k` ? -/
def eqScaled (pre : Nat → Nat) (unscaled scaled k : Nat) : Bool :=
  if highestBitLess pre unscaled scaled k then false
  else if k < 20 then
    match limbLoop (tenPowU64 k) (limbsLE unscaled) (limbsLE scaled) 0 with
    | .decided r => r
    | .overflow => decide (scaled * tenPowU64 k = unscaled)
  else eqDigitwise unscaled scaled k

/-- `checked_diff` on i64 scales: the ordering and the difference if it fits (`< 2^63`) -/
def checkedDiff (a b : Int) : Ordering × Option Nat :=
  if a < b then (.lt, if b - a < 2 ^ 63 then some (b - a).toNat else none)
  else if a > b then (.gt, if a - b < 2 ^ 63 then some (a - b).toNat else none)
  else (.eq, some 0)

def sgnOrd (i : Int) : Nat := if i < 0 then 0 else if i = 0 then 1 else 2   -- Minus < NoSign < Plus

/-- `check_equality_bigdecimal_ref` -/
def eqDec (pre : Nat → Nat) (l r : Dec) : Bool :=
  if l.int = 0 ∧ r.int = 0 then true
  else if sgnOrd l.int ≠ sgnOrd r.int then false
  else
    match checkedDiff l.scale r.scale with
    | (.eq, _) => l.int.natAbs == r.int.natAbs
    | (.gt, some d) => eqScaled pre l.int.natAbs r.int.natAbs d
    | (.lt, some d) => eqScaled pre r.int.natAbs l.int.natAbs d
    | _ => false

/-- `compare_scaled_uints::<T>` for a word of `w` bits -/
def compareScaledUints (w : Nat) (a b k : Nat) : Option Ordering :=
  let a' : Option Nat := if a < 2 ^ w then some a else none
  let b' : Option Nat :=
    if b < 2 ^ w ∧ 10 ^ k < 2 ^ w ∧ b * 10 ^ k < 2 ^ w then some (b * 10 ^ k) else none
  match a', b' with
  | some x, some y => some (compare x y)
  | some _, none => some .lt
  | none, some _ => some .gt
  | none, none => none

/-- most-significant-first digit comparison of `compare_scaled_biguints` -/
def cmpDigitsBE : List Nat → List Nat → Ordering
  | a :: as, b :: bs => if a = b then cmpDigitsBE as bs else compare a b
  | a :: as, [] => if a = 0 ∧ as.all (· == 0) then .eq else .gt
  | [], b :: bs => if b = 0 ∧ bs.all (· == 0) then .eq else .lt
  | [], [] => .eq

/-- `compare_scaled_biguints a b scale_diff` : compares `a` with `b · 10^k` -/
def compareScaled (pre : Nat → Nat) (a b k : Nat) : Ordering :=
  if k = 0 then compare a b
  else if highestBitLess pre a b k then .lt
  else
    match (compareScaledUints 64 a b k).orElse (fun _ => compareScaledUints 128 a b k) with
    | some r => r
    | none =>
      if numDigits a ≠ numDigits b + k then compare (numDigits a) (numDigits b + k)
      else cmpDigitsBE (digitsLE a).reverse (digitsLE b).reverse

def Ordering.rev : Ordering → Ordering
  | .lt => .gt | .eq => .eq | .gt => .lt

/-- `Ord for BigDecimalRef` -/
def cmpDec (pre : Nat → Nat) (l r : Dec) : Ordering :=
  if sgnOrd l.int ≠ sgnOrd r.int then compare (sgnOrd l.int) (sgnOrd r.int)
  else if l.int = 0 then .eq
  else
    let res := match checkedDiff l.scale r.scale with
      | (.gt, some d) | (.eq, some d) => compareScaled pre l.int.natAbs r.int.natAbs d
      | (.lt, some d) => Ordering.rev (compareScaled pre r.int.natAbs l.int.natAbs d)
      | (o, none) => Ordering.rev o
    if r.int < 0 then Ordering.rev res else res

end BigDec
