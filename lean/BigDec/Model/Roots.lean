import BigDec.Model.Round
import BigDec.Model.Arith
/-! Executable model of `impl_sqrt` (src/arithmetic/sqrt.rs) and `impl_cbrt_*`
    (src/arithmetic/cbrt.rs) with their entry points.  `BigUint::sqrt` / `nth_root(3)` are the
    floor roots (`Nat.sqrt`, `icbrt`). -/
namespace BigDec
open Generated

/-- floor cube root by bisection on the bit length (num-bigint `nth_root(3)`) -/
def icbrtLoop (n : Nat) : Nat → Nat → Nat → Nat
  | 0, lo, _ => lo
  | fuel + 1, lo, hi =>
    if lo + 1 ≥ hi then lo
    else
      let mid := (lo + hi) / 2
      if mid * mid * mid ≤ n then icbrtLoop n fuel mid hi else icbrtLoop n fuel lo mid

def icbrt (n : Nat) : Nat := icbrtLoop n (n.log2 + 2) 0 (2 ^ (n.log2 / 3 + 1))

/-- `impl_sqrt(n, scale, ctx)` for `n > 0` -/
def implSqrt (n : Nat) (scale : Int) (p : Nat) (m : Mode) : Option Dec :=
  let exponent0 := 2 * (p + sqrtExtraDigits) - numDigits n
  -- number of zeros to append: enough digits, and an even resulting scale
  let exponent := if (scale + exponent0) % 2 ≠ 0 then exponent0 + 1 else exponent0
  let shifted := n * 10 ^ exponent
  let r := Nat.sqrt shifted
  let rs : Int := (scale + exponent) / 2
  -- an inexact root gets a non-zero sticky digit
  if r * r ≠ shifted then (Dec.mk ((r * 10 + 1 : Nat) : Int) (rs + 1)).withPrecisionRound p m
  else (Dec.mk (r : Int) rs).withPrecisionRound p m

/-- `BigDecimal::sqrt_with_context` -/
def Dec.sqrtCtx (d : Dec) (p : Nat) (m : Mode) : Option Dec :=
  if d.isZero || d.isOne then some d
  else if d.int < 0 then none
  else implSqrt d.int.natAbs d.scale p m

/-- `BigDecimalRef::sqrt_with_context`, `sqrt_abs_with_context`, `sqrt_copysign_with_context` -/
def Dec.sqrtRef (d : Dec) (p : Nat) (m : Mode) : Option Dec :=
  if d.int < 0 then none else if d.int = 0 then some Dec.zero else implSqrt d.int.natAbs d.scale p m
def Dec.sqrtAbs (d : Dec) (p : Nat) (m : Mode) : Option Dec := implSqrt d.int.natAbs d.scale p m
def Dec.sqrtCopysign (d : Dec) (p : Nat) (m : Mode) : Option Dec :=
  (implSqrt d.int.natAbs d.scale p m).map (fun r => if d.int < 0 then r.neg else r)

end BigDec

namespace BigDec
open Generated

/-- `i64::div_rem` (truncated division) -/
def tdivRem (a b : Int) : Int × Int := (a.tdiv b, a.tmod b)

/-- `impl_cbrt_uint_scale(n, scale, precision, {sign, mode})` for `n > 0`; `neg` = sign is Minus -/
def implCbrt (n : Nat) (scale : Int) (p : Nat) (m : Mode) (neg : Bool) : Dec :=
  let shift0 := 3 * (p + cbrtExtraDigits) - numDigits n
  let shiftedScale : Int := scale + shift0
  let q := (tdivRem shiftedScale 3).1
  let rem := (tdivRem shiftedScale 3).2
  let newScale0 : Int := if rem > 0 then q + 1 else q
  let expShift : Nat := if rem > 0 then shift0 + (3 - rem).toNat else if rem < 0 then shift0 + (-rem).toNat else shift0
  let digits := n * 10 ^ expShift
  let root := icbrt digits
  let rootExact := root * root * root == digits
  let trim := numDigits root - p
  let newScale : Int := newScale0 - trim
  let res := root / 10 ^ trim
  let remainder := root % 10 ^ trim
  let insig0 := remainder / 10 ^ (trim - 1)
  let tz := needsTrailingZeros m insig0 && (rootExact && remainder % 10 ^ (trim - 1) == 0)
  let sig := res % 10
  let rounded := roundPair m neg sig insig0 tz
  ⟨(if neg then -1 else 1) * ((res + rounded - sig : Nat) : Int), newScale⟩

/-- `BigDecimal::cbrt_with_context` -/
def Dec.cbrtCtx (d : Dec) (p : Nat) (m : Mode) : Dec :=
  if d.isZero || d.isOne then d else implCbrt d.int.natAbs d.scale p m (decide (d.int < 0))

end BigDec
