import BigDec.Model.Arith
/-! Straight-line programs of exact operations on an accumulator (C19). -/
namespace BigDec

inductive Step
  /-- `acc OP operand` (accLeft) or `operand OP acc`, through the overload for the given forms -/
  | bin (op : BinOp) (lf rf : Form) (operand : Dec) (accLeft : Bool)
  | neg | abs | double | half | square | cube | normalize | cloneRef
  /-- upward re-scaling: `with_scale(scale + extra)` -/
  | rescale (extra : Nat)
  /-- `acc = [acc, xs…].sum()` over owned values or references -/
  | sumWith (xs : List Dec) (owned : Bool)
  deriving Repr

def runStep (s : Step) (acc : Dec) : Option Dec :=
  match s with
  | .bin op lf rf x true => evalOp op lf rf acc x
  | .bin op lf rf x false => evalOp op lf rf x acc
  | .neg => some acc.neg
  | .abs => some acc.abs
  | .double => some acc.double
  | .half => some acc.half
  | .square => some acc.square
  | .cube => some acc.cube
  | .normalize => some acc.normalized
  | .cloneRef => some acc
  | .rescale k => some (acc.withScale (acc.scale + k))
  | .sumWith xs true => some (sumOwned (acc :: xs))
  | .sumWith xs false => some (sumRefs (acc :: xs))

def run : List Step → Dec → Option Dec
  | [], acc => some acc
  | s :: rest, acc => (runStep s acc).bind (run rest)

/-- all intermediate accumulators (every prefix of the program) -/
def runTrace : List Step → Dec → List (Option Dec)
  | [], _ => []
  | s :: rest, acc =>
    match runStep s acc with
    | some a => some a :: runTrace rest a
    | none => [none]

end BigDec
