import BigDec.Model.Arith
/-! Executable model of division (src/lib.rs `impl_division`, src/impl_ops_div.rs, the division
    macros of src/impl_ops.rs).  `none` = panic ("Division by zero"). -/
namespace BigDec
open Generated

/-- `while num < *den { scale += 1; num *= 10; }` : returns the shifted numerator and the number
    of shifts -/
def shiftLoop (den : Nat) : Nat → Nat → Nat → Nat × Nat
  | 0, num, j => (num, j)
  | fuel + 1, num, j => if num < den then shiftLoop den fuel (num * 10) (j + 1) else (num, j)

/-- state of the digit loop: quotient, remainder (already multiplied by 10), precision, extra scale -/
structure DivSt where
  quot : Nat
  rem : Nat
  prec : Nat
  steps : Nat
  deriving Repr, DecidableEq

/-- `while !remainder.is_zero() && precision < max_precision { … }` -/
def divLoop (den maxPrec : Nat) : Nat → DivSt → DivSt
  | 0, s => s
  | fuel + 1, s =>
    if s.rem ≠ 0 ∧ s.prec < maxPrec then
      divLoop den maxPrec fuel ⟨s.quot * 10 + s.rem / den, (s.rem % den) * 10, s.prec + 1, s.steps + 1⟩
    else s

/-- `impl_division` on magnitudes (`num ≠ 0`, `den ≠ 0`): quotient magnitude and final scale -/
def implDivisionNat (num den : Nat) (scale : Int) (maxPrec : Nat) : Nat × Int :=
  let sh := shiftLoop den (numDigits den + 1) num 0
  if sh.1 % den = 0 then (sh.1 / den, scale + sh.2)
  else
    let st := divLoop den maxPrec (maxPrec - numDigits (sh.1 / den))
                ⟨sh.1 / den, (sh.1 % den) * 10, numDigits (sh.1 / den), 0⟩
    -- `if !remainder.is_zero() { quotient += get_rounding_term(&remainder.div(den)) }`
    (if st.rem ≠ 0 then st.quot + (if 5 ≤ st.rem / den then 1 else 0) else st.quot, scale + sh.2 + st.steps)

/-- `impl_division` with signs -/
def implDivision (num den : Int) (scale : Int) (maxPrec : Nat) : Dec :=
  if num = 0 then ⟨0, 0⟩
  else
    let r := implDivisionNat num.natAbs den.natAbs scale maxPrec
    ⟨(if (num < 0) = (den < 0) then 1 else -1) * (r.1 : Int), r.2⟩

/-- the three `Div` bodies for decimal operands (identical logic) -/
def divDec (cfg : Config) (a b : Dec) : Option Dec :=
  if b.isZero then none
  else if a.isZero || b.isOne then some a
  else if a.int = b.int then some ⟨1, a.scale - b.scale⟩
  else some (implDivision a.int b.int (a.scale - b.scale) cfg.precision)

/-- `Div<$t> for BigDecimal` for a primitive integer `p`; `signed` tells whether `checked_neg`
    can succeed on a non-zero value -/
def divPrim (cfg : Config) (a : Dec) (p : Int) : Option Dec :=
  if p = 1 then some a
  else if p = -1 then some a.neg
  else if p = 2 then some a.half
  else if p = -2 then some a.half.neg
  else divDec cfg a (Dec.ofInt p)

/-- `DivAssign<$t>` -/
def divAssignPrim (cfg : Config) (a : Dec) (p : Int) : Option Dec :=
  if p = 0 then none          -- "Division by zero"
  else if p = 1 then some a
  else divDec cfg a (Dec.ofInt p)

/-- numeric equality with a small integer constant (models float `==` against 1.0, -1.0, 2.0, -2.0) -/
def Dec.isIntValue (f : Dec) (k : Int) : Bool :=
  if f.scale ≥ 0 then f.int == k * (10 ^ f.scale.toNat : Nat) else false

/-- `Div<$float> for BigDecimal`: `fdec` is the exact decimal value of a normal float,
    `none` for zero / subnormal / infinite / NaN -/
def divFloat (cfg : Config) (a : Dec) (fdec : Option Dec) : Option Dec :=
  match fdec with
  | none => some Dec.zero
  | some f =>
    if f.isIntValue 1 then some a
    else if f.isIntValue (-1) then some a.neg
    else if f.isIntValue 2 then some a.half
    else if f.isIntValue (-2) then some a.half.neg
    else divDec cfg a f

def divAssignFloat (cfg : Config) (a : Dec) (fdec : Option Dec) : Option Dec :=
  match fdec with
  | none => some Dec.zero
  | some f => divDec cfg a f

/-- `Div<BigDecimal> for $t` / `Div<&BigDecimal> for $t` with an integer numerator other than one
    (a numerator equal to one calls `inverse()`, see C12) -/
def divPrimLeft (cfg : Config) (p : Int) (b : Dec) : Option Dec :=
  if b.isZero then none else divDec cfg (Dec.ofInt p) b

/-- float numerators -/
def divFloatLeft (cfg : Config) (fdec : Option Dec) (b : Dec) : Option Dec :=
  if b.isZero then none
  else match fdec with
    | none => some Dec.zero
    | some f => divDec cfg f b

end BigDec
