import BigDec.Model.Round
import BigDec.Model.Arith
import BigDec.Spec.Exact
/-! Executable model of `inverse_with_context` / `impl_inverse_uint_scale`
    (src/lib.rs, src/arithmetic/inverse.rs).  The f64 initial guess is a parameter (the
    correspondence run passes the value `make_inv_guess` really produced). -/
namespace BigDec
open Generated

/-- one Newton step `r · (2 − s·r)` with the library's own exact operators -/
def invNext (s r : Dec) : Dec := mulDD r (subRDT ⟨2, 0⟩ (mulRDRD s r))

/-- the iteration: stop when the full-precision iterate repeats or alternates between two
    neighbours -/
def invLoop (est : Nat → Nat) (s : Dec) (p : Nat) : Nat → Dec → Dec → Option Dec
  | 0, _, _ => none                                   -- fuel exhausted: did not terminate
  | fuel + 1, prev, running =>
    let next := (invNext s running).withPrec est (p + inverseExtraPrec)
    -- `==` on decimals is numeric equality (C02)
    if Spec.valueEq next running || Spec.valueEq next prev then some next
    else invLoop est s p fuel running next

/-- `impl_inverse_uint_scale(n, scale, ctx)` -/
def implInverse (est : Nat → Nat) (n : Nat) (scale : Int) (p : Nat) (m : Mode) (guess : Dec) (fuel : Nat := 400) : Option Dec :=
  let s : Dec := ⟨n, scale⟩
  match invLoop est s p fuel Dec.zero (invNext s guess) with
  | none => none
  | some running =>
    if running.digits > p then running.withPrecisionRound p m else some running

/-- `BigDecimal::inverse_with_context`: the magnitude is inverted, so directed modes are mirrored
    for negative numbers; the sign is copied back -/
def Dec.inverseCtx (est : Nat → Nat) (d : Dec) (p : Nat) (m : Mode) (guess : Dec) : Option Dec :=
  if d.isZero || d.isOne then some d
  else
    let m' := if d.int < 0 then m.mirror else m
    (implInverse est d.int.natAbs d.scale p m' guess).map (fun r => if d.int < 0 then r.neg else r)

end BigDec
