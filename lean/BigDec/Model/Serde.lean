import BigDec.Model.Fmt
import BigDec.Model.Parse
/-! Model of the serde glue (src/impl_serde.rs): `Serialize` writes the `Display` text,
    `Deserialize` feeds strings (and, with serde_json's arbitrary-precision numbers, the number's
    literal text) to `from_str`; the JSON-number adapters go through `serde_json::Number`, whose
    grammar is the recogniser below, and enforce the configured scale limit when reading. -/
namespace BigDec.Serde
open BigDec

def isDigit (c : Char) : Bool := '0' ≤ c && c ≤ '9'

/-- JSON number grammar: `-? (0 | [1-9][0-9]*) (\. [0-9]+)? ([eE] [+-]? [0-9]+)?` -/
def isJsonNumber (s : List Char) : Bool :=
  let s1 := match s with | '-' :: r => r | r => r
  -- integer part
  let afterInt : Option (List Char) := match s1 with
    | '0' :: r => some r
    | c :: r => if isDigit c then some (r.dropWhile isDigit) else none
    | [] => none
  match afterInt with
  | none => false
  | some r =>
    -- fraction
    let afterFrac : Option (List Char) := match r with
      | '.' :: f => (match f with
          | c :: _ => if isDigit c then some (f.dropWhile isDigit) else none
          | [] => none)
      | _ => some r
    match afterFrac with
    | none => false
    | some r2 =>
      match r2 with
      | [] => true
      | c :: e =>
        if c == 'e' || c == 'E' then
          let e1 := match e with | '+' :: x => x | '-' :: x => x | x => x
          (match e1 with
            | d :: _ => isDigit d && e1.all isDigit
            | [] => false)
        else false

/-- text handed to `serde_json::Number::from_str` by the JSON-number adapters -/
def jsonNumText (cfg : Config) (noPadLimit : Nat) (d : Dec) : List Char :=
  -- `json_number_string`: a zero with negative scale would display as "00…"
  if d.int = 0 ∧ d.scale < 0 then ['0'] else Fmt.display cfg noPadLimit {} d

/-- `arbitrary_precision::deserialize`: parse the literal text, then the scale-limit test -/
def jsonNumDeserialize (cfg : Config) (text : List Nat) : Option Dec :=
  match Parse.parseDec text with
  | none => none
  | some d => if d.scale.natAbs > cfg.serdeScaleLimit ∧ cfg.serdeScaleLimit > 0 then none else some d

end BigDec.Serde
