import BigDec.Model.Types
/-! Bit-exact executable model of `BigDecimalRef::to_f64` (src/impl_num.rs) over IEEE-754 binary64
    bit patterns (as `Nat`), built from three correctly-rounded primitives:
    * `BigUint::to_f64` (num-bigint: top 64 bits with a sticky bit, then `u64 as f64`, then an exact
      scaling by a power of two) = round-to-nearest-even of the integer, infinity on overflow;
    * `f64::powi(10.0, n)` = compiler-rt's repeated squaring, each product rounded to nearest even;
    * `str::parse::<f64>` (`dec2flt`) = round-to-nearest-even of the decimal.
    Every rounding is computed in exact rational arithmetic (`rne`). -/
namespace BigDec.F64

def inf : Nat := 0x7FF0000000000000

/-- round the positive rational `a / b` to an integer, ties to even -/
def rneInt (a b : Nat) : Nat :=
  let q := a / b; let r := a % b
  if 2 * r > b || (2 * r == b && q % 2 == 1) then q + 1 else q

/-- position of the leading bit: the `e` with `2^e ≤ a/b < 2^(e+1)` (for `a, b > 0`) -/
def ilog2Ratio (a b : Nat) : Int :=
  let e0 : Int := (a.log2 : Int) - (b.log2 : Int)
  -- a/b ∈ (2^(e0-1), 2^(e0+1)); decide which half
  if e0 ≥ 0 then (if a ≥ b * 2 ^ e0.toNat then e0 else e0 - 1)
  else (if a * 2 ^ (-e0).toNat ≥ b then e0 else e0 - 1)

/-- round-to-nearest-even of the positive rational `a / b` to binary64 (magnitude bits; subnormals,
    overflow to infinity) -/
def rne (a b : Nat) : Nat :=
  if a == 0 then 0
  else
    let e := ilog2Ratio a b
    if e < -1022 then
      -- subnormal range: quantum 2^-1074
      rneInt (a * 2 ^ 1074) b
    else
      -- quantum 2^(e-52): m in [2^52, 2^53]
      let sh : Int := 52 - e
      let m := if sh ≥ 0 then rneInt (a * 2 ^ sh.toNat) b else rneInt a (b * 2 ^ (-sh).toNat)
      let m' : Nat := if m == 2 ^ 53 then 2 ^ 52 else m
      let e' : Int := if m == 2 ^ 53 then e + 1 else e
      if e' > 1023 then inf else ((e' + 1023).toNat) * 2 ^ 52 + (m' - 2 ^ 52)

/-- exact value of a finite non-negative binary64 as a fraction `num / 2^k` : (num, k) with value num·2^-k, or num·2^k' -/
def val (bits : Nat) : Nat × Nat :=   -- (numerator, denominator)
  let frac : Nat := bits % 2 ^ 52
  let expo : Nat := (bits / 2 ^ 52) % 2 ^ 11
  if expo == 0 then (frac, 2 ^ 1074)
  else
    let m : Nat := 2 ^ 52 + frac
    let e : Int := (expo : Int) - 1075
    if e ≥ 0 then (m * 2 ^ e.toNat, 1) else (m, 2 ^ (-e).toNat)

/-- IEEE multiplication of two non-negative, non-NaN doubles -/
def mul (x y : Nat) : Nat :=
  if x == inf || y == inf then inf
  else
    let (a, b) := val x; let (c, d) := val y
    rne (a * c) (b * d)

/-- IEEE division of two non-negative, non-NaN doubles (`x / 0 = inf`, `x / inf = 0`) -/
def div (x y : Nat) : Nat :=
  if x == inf then inf
  else if y == inf then 0
  else
    let (a, b) := val x; let (c, d) := val y
    if c == 0 then inf else rne (a * d) (b * c)

def one : Nat := 0x3FF0000000000000
def ten : Nat := 0x4024000000000000

/-- compiler-rt `__powidf2(a, n)` for `n ≥ 0` -/
def powiLoop : Nat → Nat → Nat → Nat → Nat
  | 0, _, _, acc => acc
  | fuel + 1, a, n, acc =>
    let acc := if n % 2 == 1 then mul acc a else acc
    let n := n / 2
    if n == 0 then acc else powiLoop fuel (mul a a) n acc

def powi (a n : Nat) : Nat := powiLoop 64 a n one

/-- `BigUint::to_f64` -/
def ofNat (n : Nat) : Nat := rne n 1

/-- the digit estimate of `to_f64`: `((bits + 1) as f64 * LOG10_2).floor() as u64` -/
def digitCountF64 (bits : Nat) : Nat :=
  (Float.floor ((bits + 1).toFloat * 0.301029995663981195213738894724493027)).toUInt64.toNat

/-- trimming loop: `iter_count` times divide by 10^19 and lower the scale by 19 (saturating) -/
def trim : Nat → Nat → Int → Nat × Int
  | 0, n, s => (n, s)
  | k + 1, n, s => trim k (n / 10 ^ 19) (max (s - 19) (-(2 ^ 63)))

/-- `f64::consts::LOG10_2` -/
def log10_2 : Nat := 0x3FD34413509F79FF

/-- `f.floor() as u64` of a non-negative double (the cast saturates) -/
def floorU64 (bits : Nat) : Nat :=
  if bits == inf then 2 ^ 64 - 1 else min ((val bits).1 / (val bits).2) (2 ^ 64 - 1)

/-- the digit estimate of `to_f64` through the rounding primitive: `(bits + 1) as f64` is the rounded
    integer, the product one IEEE multiplication (this is what `toF64` uses; `digitCountF64` is the same
    computation on Lean's hardware doubles and is compared with it on every driver case) -/
def digitCount (bits : Nat) : Nat := floorU64 (mul (ofNat (bits + 1)) log10_2)

/-- `f64::consts::LOG2_10` -/
def log2_10 : Nat := 0x400A934F0979A371

/-- `(bits as f64 / LOG2_10) as u64`: the digit estimate of `count_decimal_digits_uint` and
    `get_rounding_term` -/
def estCode (bits : Nat) : Nat := floorU64 (div (ofNat bits) log2_10)

/-- `(LOG2_10 * scale as f64) as u64`: the bit estimate of `highest_bit_lessthan_scaled` -/
def preCode (k : Nat) : Nat := floorU64 (mul log2_10 (ofNat k))

/-- the same estimate in exact integer arithmetic: `floor((bits + 1) · log10 2)` with `log10 2` to 36
    places (the `f64` product can differ from it only when it lands within an ulp of an integer) -/
def digitCountInt (bits : Nat) : Nat :=
  (bits + 1) * 301029995663981195213738894724493027 / 10 ^ 36

/-- `to_f64` of `sign · n · 10^-scale` with the digit estimate `dc` as a parameter; the result is the
    full bit pattern -/
def toF64With (dc : Nat → Nat) (neg : Bool) (n : Nat) (scale : Int) : Nat :=
  let sgn : Nat := if neg then 2 ^ 63 else 0
  if n == 0 then 0
  else if scale == 0 then sgn + ofNat n
  else
    let bits := n.log2 + 1
    let digitCount := dc bits
    let iter := (digitCount - 25) / 19
    let (m, sc) := trim iter n scale
    if sc < -(2 ^ 31 - 1) || sc > 2 ^ 31 - 1 + 1 then
      -- `scale.to_i32().and_then(checked_neg)` is None: |exponent| beyond i32
      (if sc > 0 then sgn else sgn + inf)
    else if sc ≤ 0 then
      sgn + mul (ofNat m) (powi ten (-sc).toNat)
    else if (m.log2 : Int) + 1 < 3 * (sc - 330) then
      -- far below half the smallest subnormal (m < 2^(log2 m + 1) ≤ 8^(sc-330) < 10^(sc-330)): rounds to zero
      sgn
    else
      -- "{int}e{exp}".parse::<f64>() : correctly rounded
      sgn + rne m (10 ^ sc.toNat)

/-- number of trimming rounds `to_f64` performs on `n` under the digit estimate `dc` -/
def trimRounds (dc : Nat → Nat) (n : Nat) : Nat := (dc (n.log2 + 1) - 25) / 19

/-- the trimming leaves at least 25 digits (hypothesis of the tolerance theorem) -/
def trimKeeps25 (dc : Nat → Nat) (n : Nat) : Bool :=
  trimRounds dc n == 0 || decide (10 ^ (19 * trimRounds dc n + 24) ≤ n)

/-- `to_f64` as the code computes it: the digit estimate is the `f64` product -/
def toF64 (neg : Bool) (n : Nat) (scale : Int) : Nat := toF64With digitCount neg n scale

end BigDec.F64
