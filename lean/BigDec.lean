import BigDec.Model.Types
import BigDec.Generated
import BigDec.Model.Basic
import BigDec.Model.Arith
import BigDec.Spec.Exact
