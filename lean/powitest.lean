import BigDec.Model.ToF64
open BigDec.F64
/-- smallest c with |val P − 10^k| · 2^53 ≤ c · 10^k (per k) -/
def errUnits (k : Nat) : Nat :=
  let P := powi ten k
  if P == inf then 999999 else
  let (a, b) := val P
  let d := if a ≥ 10 ^ k * b then a - 10 ^ k * b else 10 ^ k * b - a
  -- ceil(d * 2^53 / (10^k * b))
  (d * 2 ^ 53 + 10 ^ k * b - 1) / (10 ^ k * b)
#eval (List.range 309).foldl (fun m k => max m (errUnits k)) 0
#eval ((List.range 309).filter (fun k => errUnits k ≥ 3)).length
#eval errUnits 309
