import BigDec.Model.ToF64
open BigDec.F64
def parseIntS (s : String) : Option Int :=
  if s.startsWith "-" then (s.drop 1).toString.toNat?.map (fun n => -(n : Int)) else s.toNat?.map (fun n => (n : Int))
def main : IO Unit := do
  let txt ← IO.FS.readFile "/tmp/tof64_cases.txt"
  let mut bad := 0
  let mut tot := 0
  for line in txt.splitOn "\n" do
    match line.splitOn " " with
    | [i, s, b] =>
      match parseIntS i, parseIntS s, b.toNat? with
      | some i, some s, some b =>
        tot := tot + 1
        let m := toF64 (decide (i < 0)) i.natAbs s
        if m != b then
          bad := bad + 1
          if bad ≤ 10 then IO.println s!"DIFF {i}@{s} impl={b} model={m}"
      | _, _, _ => pure ()
    | _ => pure ()
  IO.println s!"total {tot} bad {bad}"
