import Std.Data.HashSet
import Std.Data.HashMap
import BigDec.Driver.C01
import BigDec.Driver.C02
import BigDec.Driver.C03
import BigDec.Driver.C04
import BigDec.Driver.C16
import BigDec.Driver.C17
import BigDec.Driver.C05
import BigDec.Driver.C06
import BigDec.Driver.C07
import BigDec.Driver.C08
import BigDec.Driver.C09
import BigDec.Driver.C10
import BigDec.Driver.C11
import BigDec.Driver.C12
import BigDec.Driver.C13
import BigDec.Driver.C14
import BigDec.Driver.C15
import BigDec.Driver.C19
import BigDec.Driver.C20
import BigDec.Driver.C18
/-! Line-protocol driver: one case per input line
      `<prop> \t <op> \t <arg>… \t => \t <implementation output>`
    one verdict per output line (see `Proto.Verdict.render`). Imports model + spec only. -/
open BigDec BigDec.Proto

def dispatch (prop op : String) (args : List String) (impl : String) : Verdict :=
  match prop with
  | "C01" => Driver.C01.handle op args impl
  | "C02" => Driver.C02.handle op args impl
  | "C03" => Driver.C03.handle op args impl
  | "C04" => Driver.C04.handle op args impl
  | "C16" => Driver.C16.handle op args impl
  | "C17" => Driver.C17.handle op args impl
  | "C05" => Driver.C05.handle op args impl
  | "C06" => Driver.C06.handle op args impl
  | "C07" => Driver.C07.handle op args impl
  | "C08" => Driver.C08.handle op args impl
  | "C09" => Driver.C09.handle op args impl
  | "C10" => Driver.C10.handle op args impl
  | "C11" => Driver.C11.handle op args impl
  | "C12" => Driver.C12.handle op args impl
  | "C13" => Driver.C13.handle op args impl
  | "C14" => Driver.C14.handle op args impl
  | "C15" => Driver.C15.handle op args impl
  | "C19" => Driver.C19.handle op args impl
  | "C20" => Driver.C20.handle op args impl
  | "C18" => Driver.C18.handle op args impl
  | _ => badInput ("unknown property " ++ prop)

def splitArrow (fs : List String) : List String × String :=
  match fs.span (· != "=>") with
  | (pre, _ :: post) => (pre, String.intercalate "\t" post)
  | (pre, []) => (pre, "")

/-- evaluate one line: verdict, hash, and whether the line failed -/
def evalLineV (line : String) : Verdict × UInt64 :=
  let v := match line.splitOn "\t" with
    | prop :: op :: rest =>
      let (args, impl) := splitArrow rest
      -- a case on which the real code did not return within the harness's time limit: every
      -- property promises a result (or a panic where it says so), so this is a violation as such
      if impl == "hang" then
        { model := "", mi := false, si := false, tag := "hang", trivial := false,
          note := "the implementation did not return within the case time limit" }
      else
        let v := dispatch prop op args impl
        -- a panic where the property's driver expects a value (it could not read the output): the property
        -- promises a result there, so this is a violation with this input, not a protocol error
        -- (drivers of properties that speak about panics - C05, C07, C08, C09 - read `panic:` themselves)
        if v.note.startsWith "driver-bad-input" && impl.startsWith "panic" then
          { model := "", mi := false, si := false, tag := "panic", trivial := false,
            note := "the implementation panicked (" ++ impl ++ ") where the property promises a result" }
        else v
    | _ => badInput "short line"
  (v, fnv line)

def renderLine (v : Verdict) (h : UInt64) (line : String) : String :=
  -- echo the input on any failure, and for a sparse sample of passing cases
  let echo := if !v.ok then "F\t" ++ line else if h % 2048 == 0 then "S\t" ++ line else ""
  s!"{v.render}\t{h}\t{echo}"

/-- aggregate state (thorough tier): passing lines are only counted -/
structure Agg where
  evaluations : Nat := 0
  nontrivial : Nat := 0
  drift : Nat := 0
  seen : Std.HashSet UInt64 := {}
  seenNontrivial : Nat := 0
  tags : Std.HashMap String Nat := {}

partial def loop (hin : IO.FS.Stream) (hout : IO.FS.Stream) (agg : Bool) (st : Agg) : IO Agg := do
  let line ← hin.getLine
  if line.isEmpty then return st
  -- the harness writes whole lines only; an unterminated fragment at end of input is what is left of a
  -- line when a generator shard is stopped at a search deadline in mid-write: it is not a case
  if !line.endsWith "\n" then return st
  let line := (line.dropEnd 1).toString
  let (v, h) := evalLineV line
  if !agg then
    hout.putStrLn (renderLine v h line)
    loop hin hout agg st
  else
    let isNew := !st.seen.contains h
    let st := { st with
      evaluations := st.evaluations + 1,
      drift := st.drift + (if v.drift then 1 else 0),
      seen := if isNew then st.seen.insert h else st.seen,
      seenNontrivial := st.seenNontrivial + (if isNew && !v.trivial then 1 else 0),
      tags := st.tags.insert v.tag (st.tags.getD v.tag 0 + 1) }
    -- failures, protocol errors and a sparse sample still go out line by line
    if !v.ok || h % 65536 == 0 || v.note.startsWith "driver-bad-input" then
      hout.putStrLn (renderLine v h line)
    loop hin hout agg st

def main (args : List String) : IO Unit := do
  let hin ← IO.getStdin
  let hout ← IO.getStdout
  let agg := args.contains "--agg"
  let st ← loop hin hout agg {}
  if agg then
    let tagStr := String.intercalate ";" (st.tags.toList.map (fun (k, v) => s!"{k}={v}"))
    hout.putStrLn s!"#SUMMARY\t{st.evaluations}\t{st.seen.size}\t{st.seenNontrivial}\t{st.drift}\t{tagStr}"
