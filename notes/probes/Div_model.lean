/-! probe: import-free model of the digit loop of `impl_division` (src/lib.rs:1091-1098), on Nat -/
namespace BD

/-- state: quotient, remainder (already multiplied by 10), precision, scale -/
structure DivSt where
  quot : Nat
  rem : Nat
  prec : Nat
  scale : Int
deriving Repr

/-- `while !remainder.is_zero() && precision < max_precision` with fuel = max_precision - precision -/
def divLoop (den : Nat) (maxPrec : Nat) : Nat → DivSt → DivSt
  | 0, s => s
  | fuel + 1, s =>
    if s.rem ≠ 0 ∧ s.prec < maxPrec then
      let q := s.rem / den
      let r := s.rem % den
      divLoop den maxPrec fuel ⟨s.quot * 10 + q, r * 10, s.prec + 1, s.scale + 1⟩
    else s

end BD
