import P.Round
import Mathlib.Data.Nat.Digits.Lemmas
import Mathlib.Tactic.Ring
import Mathlib.Tactic.Linarith

namespace BD

theorem ofDigitsLE_digitsLE (n : Nat) : ofDigitsLE (digitsLE n) = n := by
  induction n using Nat.strong_induction_on with
  | _ n ih =>
    cases n with
    | zero => simp [digitsLE, ofDigitsLE]
    | succ n =>
      rw [digitsLE, ofDigitsLE, ih _ (by omega)]; omega

theorem digitsLE_lt (n : Nat) : ∀ d ∈ digitsLE n, d < 10 := by
  induction n using Nat.strong_induction_on with
  | _ n ih =>
    cases n with
    | zero => simp [digitsLE]
    | succ n =>
      rw [digitsLE]; intro d hd
      rcases List.mem_cons.mp hd with h | h
      · omega
      · exact ih _ (by omega) d h

theorem ofDigitsLE_incr (ds : List Nat) (h : ∀ d ∈ ds, d < 10) :
    ofDigitsLE (incrDigits ds) = ofDigitsLE ds + 1 := by
  induction ds with
  | nil => simp [incrDigits, ofDigitsLE]
  | cons d ds ih =>
    have hd : d < 10 := h d (by simp)
    have hds : ∀ x ∈ ds, x < 10 := fun x hx => h x (by simp [hx])
    unfold incrDigits
    split
    · simp [ofDigitsLE]; omega
    · simp only [ofDigitsLE, ih hds]; omega

theorem digitsLE_drop (k n : Nat) : (digitsLE n).drop k = digitsLE (n / 10 ^ k) := by
  induction k generalizing n with
  | zero => simp
  | succ k ih =>
    cases n with
    | zero => simp [digitsLE]
    | succ n =>
      rw [digitsLE, List.drop_succ_cons, ih, pow_succ', Nat.div_div_eq_div_mul]

theorem digitsLE_head_tail (q : Nat) :
    (digitsLE q).tail = digitsLE (q / 10) ∧ (digitsLE q).getD 0 0 = q % 10 := by
  cases q with
  | zero => simp [digitsLE]
  | succ q => rw [digitsLE]; simp

theorem digitsLE_getD (n i : Nat) : (digitsLE n).getD i 0 = n / 10 ^ i % 10 := by
  have := digitsLE_drop i n
  have h2 : (digitsLE n).getD i 0 = ((digitsLE n).drop i).getD 0 0 := by
    simp [List.getD_eq_getElem?_getD]
  rw [h2, this, (digitsLE_head_tail _).2]

theorem take_all_zero (n j : Nat) :
    ((digitsLE n).take j).all (· == 0) = decide (n % 10 ^ j = 0) := by
  induction j generalizing n with
  | zero => simp [Nat.mod_one]
  | succ j ih =>
    cases n with
    | zero => simp [digitsLE]
    | succ n =>
      rw [digitsLE, List.take_succ_cons, List.all_cons, ih]
      have h1 : (n + 1) % 10 ^ (j + 1) = (n + 1) % 10 + 10 * ((n + 1) / 10 % 10 ^ j) := by
        rw [pow_succ', Nat.mod_mul, ]
      rw [h1]
      by_cases h : (n + 1) % 10 = 0 <;> by_cases h' : (n + 1) / 10 % 10 ^ j = 0 <;> simp [h, h'] <;> omega

end BD
