import P.Basic
import Mathlib.Tactic.Ring
import Mathlib.Tactic.Linarith

namespace BD

theorem foldl_mul_pow (c : Nat) (init k : Nat) :
    (List.range c).foldl (fun r _ => r * k) init = init * k ^ c := by
  induction c generalizing init with
  | zero => simp
  | succ n ih =>
    rw [List.range_succ, List.foldl_append]
    simp [ih, pow_succ, Nat.mul_assoc]

theorem tenToTheUint_eq (pow : Nat) : tenToTheUint pow = 10 ^ pow := by
  induction pow using Nat.strong_induction_on with
  | _ pow ih =>
    unfold tenToTheUint
    split
    · rfl
    · split
      · rename_i h1 h2
        simp only [foldl_mul_pow]
        have hc : 1 ≤ pow / 19 := by omega
        have hp : pow = 19 * (pow / 19) + pow % 19 := (Nat.div_add_mod pow 19).symm
        have : (10:Nat) ^ 19 * (10 ^ 19) ^ (pow / 19 - 1) = 10 ^ (19 * (pow / 19)) := by
          rw [← pow_succ', ← pow_mul]; congr 1; omega
        split
        · rw [this, ← pow_add]; congr 1; omega
        · rename_i h3
          simp at h3
          rw [this]; congr 1; omega
      · rename_i h1 h2
        have hq : pow / 16 < pow := by omega
        simp only [ih _ hq]
        have hp : pow = 16 * (pow / 16) + pow % 16 := (Nat.div_add_mod pow 16).symm
        have e : ∀ x : Nat, x * x * (x * x) * (x * x * (x * x)) * (x * x * (x * x) * (x * x * (x * x))) = x ^ 16 := by
          intro x; ring
        rw [e, ← pow_mul]
        split
        · rename_i h3; simp at h3; congr 1; omega
        · rw [← pow_add]; congr 1; omega

end BD
#print axioms BD.tenToTheUint_eq
