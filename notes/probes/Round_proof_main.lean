import P.RoundProof2

namespace BD

theorem wsrGreater_spec (m : Mode) (neg : Bool) (n k : Nat) (hk : 1 ≤ k) :
    ofDigitsLE (wsrGreater m neg (digitsLE n) k) = roundNat m neg n k := by
  obtain ⟨j, rfl⟩ : ∃ j, k = j + 1 := ⟨k - 1, by omega⟩
  unfold wsrGreater roundNat
  simp only [Nat.add_sub_cancel, digitsLE_getD, take_all_zero, digitsLE_drop, (digitsLE_head_tail _).1]
  set P := 10 ^ j with hPdef
  have hP : 0 < P := by positivity
  have hpow : 10 ^ (j + 1) = 10 * P := by rw [pow_succ']
  set q := n / 10 ^ (j + 1) with hq
  set low := n / P % 10 with hlow
  set t := n % P with ht
  have hlow10 : low < 10 := Nat.mod_lt _ (by norm_num)
  have htP : t < P := Nat.mod_lt _ hP
  have hr : n % 10 ^ (j + 1) = low * P + t := by
    rw [hpow, mul_comm 10 P, Nat.mod_mul]; ring
  rw [roundUp?_eq, hr, hpow, roundPair_tail m neg q low t P hP htP hlow10]
  have hq10 : q % 10 + 10 * (q / 10) = q := Nat.mod_add_div q 10
  have hb : (if roundUpM m neg q (low * P + t) (10 * P) = true then 1 else 0) ≤ 1 := by
    split <;> omega
  generalize (if roundUpM m neg q (low * P + t) (10 * P) = true then 1 else 0) = b at hb ⊢
  have hq9 : q % 10 < 10 := Nat.mod_lt _ (by norm_num)
  split
  · simp only [ofDigitsLE, ofDigitsLE_digitsLE]; omega
  · simp only [ofDigitsLE, ofDigitsLE_incr _ (digitsLE_lt _), ofDigitsLE_digitsLE]; omega

end BD
#print axioms BD.wsrGreater_spec
