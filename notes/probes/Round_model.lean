/-! probe: import-free model of the rounding core of `with_scale_round` (Greater branch) -/
namespace BD

inductive Mode | up | down | ceiling | floor | halfUp | halfDown | halfEven
  deriving DecidableEq, Repr

/-- `to_radix_le(10)` -/
def digitsLE : Nat → List Nat
  | 0 => []
  | n+1 => ((n+1) % 10) :: digitsLE ((n+1) / 10)
decreasing_by omega

def ofDigitsLE : List Nat → Nat
  | [] => 0
  | d :: ds => d + 10 * ofDigitsLE ds

/-- `RoundingMode::round_pair` (src/rounding.rs:132); `neg` = (sign == Minus) -/
def roundPair (m : Mode) (neg : Bool) (lhs rhs : Nat) (tz : Bool) : Nat :=
  if rhs == 0 && tz then lhs else
  let up := lhs + 1
  let down := lhs
  match m, compare rhs 5 with
  | .up, _ => up
  | .down, _ => down
  | .floor, _ => if neg then up else down
  | .ceiling, _ => if neg then down else up
  | _, .lt => down
  | _, .gt => up
  | .halfUp, .eq => up
  | .halfDown, .eq => if !tz then up else down
  | .halfEven, .eq => if !tz then up else if lhs % 2 == 0 then down else up

/-- carry loop of `with_scale_round` (src/lib.rs:385-399) -/
def incrDigits : List Nat → List Nat
  | [] => [1]
  | d :: ds => if d < 9 then (d + 1) :: ds else 0 :: incrDigits ds

/-- Greater branch of `with_scale_round`: digits LE, k = scale - new_scale ≥ 1, k < len -/
def wsrGreater (m : Mode) (neg : Bool) (digits : List Nat) (k : Nat) : List Nat :=
  let low := digits.getD (k - 1) 0
  let high := digits.getD k 0
  let tz := (digits.take (k - 1)).all (· == 0)
  let rd := roundPair m neg high low tz
  let rest := (digits.drop k).tail
  if rd < 10 then rd :: rest else 0 :: incrDigits rest

/-- declarative: should the magnitude be bumped? `q` kept part, `r` discarded tail `< 10^k` -/
def roundUp? (m : Mode) (neg : Bool) (q r k : Nat) : Bool :=
  match m with
  | .up => r != 0
  | .down => false
  | .ceiling => r != 0 && !neg
  | .floor => r != 0 && neg
  | .halfUp => 2 * r ≥ 10 ^ k
  | .halfDown => 2 * r > 10 ^ k
  | .halfEven => 2 * r > 10 ^ k || (2 * r == 10 ^ k && q % 2 == 1)

def roundNat (m : Mode) (neg : Bool) (n k : Nat) : Nat :=
  n / 10 ^ k + if roundUp? m neg (n / 10 ^ k) (n % 10 ^ k) k then 1 else 0

end BD
