namespace BD

/-- model of `ten_to_the_uint` (src/arithmetic/mod.rs:26) -/
def tenToTheUint (pow : Nat) : Nat :=
  if pow < 20 then 10 ^ pow
  else if pow < 590 then
    let count := pow / 19
    let rem := pow % 19
    let res := (List.range (count - 1)).foldl (fun r _ => r * 10^19) (10^19)
    if rem != 0 then res * 10 ^ rem else res
  else
    let q := pow / 16
    let rem := pow % 16
    let x := tenToTheUint q
    let x2 := x * x
    let x4 := x2 * x2
    let x8 := x4 * x4
    let res := x8 * x8
    if rem == 0 then res else res * 10 ^ rem
termination_by pow
decreasing_by omega

structure Dec where
  int : Int
  scale : Int
deriving Repr, DecidableEq

end BD
