import P.RoundProof
import Mathlib.Tactic.IntervalCases

namespace BD

/-- `roundUp?` with the modulus `10^k` given as `M` -/
def roundUpM (m : Mode) (neg : Bool) (q r M : Nat) : Bool :=
  match m with
  | .up => r != 0
  | .down => false
  | .ceiling => r != 0 && !neg
  | .floor => r != 0 && neg
  | .halfUp => 2 * r ≥ M
  | .halfDown => 2 * r > M
  | .halfEven => 2 * r > M || (2 * r == M && q % 2 == 1)

theorem roundUp?_eq (m : Mode) (neg : Bool) (q r k : Nat) :
    roundUp? m neg q r k = roundUpM m neg q r (10 ^ k) := by
  cases m <;> rfl

/-- the `(rhs cmp 5, trailing_zeros)` abstraction of the tail decides exactly `roundUp?` -/
theorem roundPair_tail (m : Mode) (neg : Bool) (q low t P : Nat) (hP : 0 < P) (ht : t < P)
    (hlow : low < 10) :
    roundPair m neg (q % 10) low (decide (t = 0))
      = q % 10 + if roundUpM m neg q (low * P + t) (10 * P) then 1 else 0 := by
  have hq2 : q % 10 % 2 = q % 2 := by omega
  by_cases ht0 : t = 0
  · subst ht0
    interval_cases low <;> cases m <;> cases neg <;>
      simp [roundPair, roundUpM, compare, compareOfLessAndEq, hq2] <;> (try split_ifs) <;> omega
  · interval_cases low <;> cases m <;> cases neg <;>
      simp [roundPair, roundUpM, compare, compareOfLessAndEq, ht0, hq2] <;> (try split_ifs) <;> omega

end BD
