import P.Div
import Mathlib.Tactic.Ring
import Mathlib.Tactic.Linarith

namespace BD

/-- invariant: `quot * den * 10 + rem = num * 10^(steps+1)` and `rem < 10 * den` -/
def DivInv (num den : Nat) (s0 s : DivSt) : Prop :=
  ∃ k : Nat, s.scale = s0.scale + k ∧ s.prec = s0.prec + k ∧
    s.quot * den * 10 + s.rem = num * 10 ^ (k + 1) ∧ s.rem < 10 * den

theorem divLoop_inv (num den maxPrec : Nat) (hden : 0 < den) (s0 : DivSt) :
    ∀ fuel s, DivInv num den s0 s → DivInv num den s0 (divLoop den maxPrec fuel s) := by
  intro fuel
  induction fuel with
  | zero => intro s h; exact h
  | succ fuel ih =>
    intro s h
    unfold divLoop
    split
    · apply ih
      obtain ⟨k, h1, h2, h3, h4⟩ := h
      refine ⟨k + 1, by simp [h1]; ring, by simp [h2]; ring, ?_, ?_⟩
      · simp only
        have hdm := Nat.div_add_mod s.rem den
        have : (s.quot * 10 + s.rem / den) * den * 10 + s.rem % den * 10
            = (s.quot * den * 10 + s.rem) * 10 := by
          nlinarith [hdm]
        rw [this, h3, pow_succ]; ring
      · simp only
        have := Nat.mod_lt s.rem hden
        omega
    · exact h

/-- exit condition: with enough fuel the loop stops only because rem = 0 or prec ≥ maxPrec -/
theorem divLoop_exit (den maxPrec : Nat) :
    ∀ fuel s, maxPrec - s.prec ≤ fuel →
      (divLoop den maxPrec fuel s).rem = 0 ∨ maxPrec ≤ (divLoop den maxPrec fuel s).prec := by
  intro fuel
  induction fuel with
  | zero => intro s h; right; simp [divLoop]; omega
  | succ fuel ih =>
    intro s h
    unfold divLoop
    split
    · apply ih; simp only; omega
    · rename_i hc
      by_cases h0 : s.rem = 0
      · left; exact h0
      · right; simp [h0] at hc; exact hc

end BD
#print axioms BD.divLoop_inv
#print axioms BD.divLoop_exit
