import P.Proof1
import Mathlib.Tactic.FieldSimp
import Mathlib.Tactic.Positivity
import Mathlib.Algebra.Order.Field.Basic
import Mathlib.Data.Rat.Defs
import Mathlib.Algebra.Order.Field.Rat

namespace BD

def Dec.value (d : Dec) : ℚ := (d.int : ℚ) * (10:ℚ) ^ (-d.scale)

/-- model of `with_scale` growing branch / `set_scale` -/
def Dec.setScale (d : Dec) (ns : Int) : Dec :=
  if d.int = 0 then ⟨0, ns⟩
  else if ns > d.scale then ⟨d.int * (tenToTheUint (ns - d.scale).toNat : Int), ns⟩
  else if ns < d.scale then ⟨d.int.tdiv (tenToTheUint (d.scale - ns).toNat : Int), ns⟩
  else d

theorem value_setScale_up (d : Dec) (ns : Int) (h : d.scale ≤ ns) :
    (d.setScale ns).value = d.value := by
  unfold Dec.setScale Dec.value
  split
  · rename_i h0; simp [h0]
  · split
    · rename_i h0 h1
      simp only [tenToTheUint_eq]
      push_cast
      have : ((10:ℚ) ^ (ns - d.scale).toNat) = (10:ℚ) ^ (ns - d.scale) := by
        rw [← zpow_natCast]; congr 1; omega
      rw [this, mul_assoc, ← zpow_add₀ (by norm_num : (10:ℚ) ≠ 0)]
      congr 2; ring
    · split
      · omega
      · rfl

def addAligned (a b : Dec) : Dec := ⟨a.int + b.int, a.scale⟩

def addDec (a b : Dec) : Dec :=
  if b.int = 0 then (if b.scale > a.scale then a.setScale b.scale else a)
  else if a.int = 0 then (if a.scale > b.scale then b.setScale a.scale else b)
  else if a.scale = b.scale then addAligned a b
  else if a.scale < b.scale then addAligned (a.setScale b.scale) b
  else addAligned (b.setScale a.scale) a

theorem scale_setScale (d : Dec) (ns : Int) (h : d.scale ≤ ns) : (d.setScale ns).scale = ns := by
  unfold Dec.setScale
  split
  · rfl
  · split
    · rfl
    · split
      · rfl
      · show d.scale = ns; omega

theorem value_addAligned (a b : Dec) (h : a.scale = b.scale) :
    (addAligned a b).value = a.value + b.value := by
  unfold addAligned Dec.value; simp only []; push_cast; rw [h]; ring

theorem value_addDec (a b : Dec) : (addDec a b).value = a.value + b.value := by
  unfold addDec
  split
  · rename_i hb
    have : b.value = 0 := by simp [Dec.value, hb]
    split
    · rw [value_setScale_up _ _ (by omega), this, add_zero]
    · rw [this, add_zero]
  · split
    · rename_i hb ha
      have : a.value = 0 := by simp [Dec.value, ha]
      split
      · rw [value_setScale_up _ _ (by omega), this, zero_add]
      · rw [this, zero_add]
    · split
      · rename_i h; exact value_addAligned a b h
      · split
        · rename_i h1 h2
          rw [value_addAligned _ _ (scale_setScale _ _ (by omega)), value_setScale_up _ _ (by omega)]
        · rename_i h1 h2
          rw [value_addAligned _ _ (scale_setScale _ _ (by omega)), value_setScale_up _ _ (by omega), add_comm]

end BD
#print axioms BD.value_addDec
