import Mathlib.Data.Nat.Digits.Lemmas
import Mathlib.Data.Nat.Log

inductive Mode | up | down | ceiling | floor | halfUp | halfDown | halfEven deriving DecidableEq, Repr
inductive Sgn | minus | nosign | plus deriving DecidableEq, Repr

def roundPair (m : Mode) (s : Sgn) (lhs rhs : Nat) (tz : Bool) : Nat :=
  if rhs == 0 && tz then lhs else
  let up := lhs + 1; let down := lhs
  match m, compare rhs 5 with
  | .up, _ => up | .down, _ => down
  | .floor, _ => if s == .minus then up else down
  | .ceiling, _ => if s == .minus then down else up
  | _, .lt => down | _, .gt => up
  | .halfUp, .eq => up
  | .halfDown, .eq => if !tz then up else down
  | .halfEven, .eq => if !tz then up else if lhs % 2 == 0 then down else up

/-- spec: tail t = rhs*10^k + rest in [0,10^(k+1)); here abstracted as (rhs, tz) -/
def specUp (m : Mode) (neg : Bool) (lhsOdd : Bool) (rhs : Nat) (tz : Bool) : Bool :=
  let zero := rhs == 0 && tz
  let lt := rhs < 5; let eq := rhs == 5 && tz
  match m with
  | .up => !zero | .down => false
  | .ceiling => !zero && !neg | .floor => !zero && neg
  | .halfUp => !lt | .halfDown => !lt && !eq | .halfEven => !lt && (!eq || lhsOdd)

theorem roundPair_spec : ∀ (m : Mode) (s : Sgn) (l r : Fin 10) (tz : Bool),
    roundPair m s l r tz = l + (if specUp m (s == .minus) (l % 2 == 1) r tz then 1 else 0) := by
  intro m s l r tz
  cases m <;> cases s <;> cases tz <;> revert l r <;> decide

#check @Nat.digits_base_pow_mul
#check @Nat.ofDigits_digits
#check @Nat.digits_len
#check @Nat.digits_append_digits
#print axioms roundPair_spec
