use bigdecimal::BigDecimal;
use bigdecimal::num_bigint::{BigInt, BigUint};
use std::time::Instant;
fn main() {
    let which = std::env::args().nth(1).unwrap_or_default();
    if which == "f16" || which == "all" {
        // a = 2^594289395 - 1  (594289395 bits)   vs   1e178898934  (= 2^594289394.99999999)
        let t = Instant::now();
        let k: i64 = 178_898_934;
        let a = BigDecimal::new(BigInt::from((BigUint::from(1u8) << 594_289_395usize) - 1u8), 0);
        let b = BigDecimal::new(BigInt::from(1), -k);
        println!("F16 cmp(2^594289395-1, 1e{}) = {:?}   (true ordering: Greater, since 10^k < 2^594289395 - 1)   [{:?}]", k, a.cmp(&b), t.elapsed());
        println!("F16 reversed cmp = {:?}", b.cmp(&a));
    }
    if which == "f16eq" || which == "all" {
        let t = Instant::now();
        let k: i64 = 178_898_934;
        let p = BigUint::from(10u8).pow(k as u32);
        println!("10^k has {} bits [{:?}]", p.bits(), t.elapsed());
        let a = BigDecimal::new(BigInt::from(p), 0);
        let b = BigDecimal::new(BigInt::from(1), -k);
        println!("F16 (10^k == 1e k) = {}  cmp = {:?}  (same value: must be true / Equal) [{:?}]", a == b, a.cmp(&b), t.elapsed());
    }
    if which == "f15" || which == "all" {
        let t = Instant::now();
        let d: u32 = 44_240_665;
        let p = BigUint::from(10u8).pow(d);
        let r = BigUint::from(1u8) << 146_964_307usize;
        println!("10^d bits={} r bits={} 2r<10^d: {} [{:?}]", p.bits(), r.bits(), (&r << 1usize) < p, t.elapsed());
        let x = BigDecimal::new(BigInt::from(&p + &r), 0);
        let y = x.with_prec(1);
        let (i, e) = y.as_bigint_and_exponent();
        println!("F15 (10^{} + 2^146964307).with_prec(1) = {}e{}   (remainder/10^d = 0.49999999.. < 0.5: must be 1e{}) [{:?}]", d, i, -e, d, t.elapsed());
        let xn = -x;
        let yn = xn.with_prec(1);
        let (i, e) = yn.as_bigint_and_exponent();
        println!("F15 negated: {}e{}", i, -e);
    }
}
